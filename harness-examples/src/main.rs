//! vexamples: the example programs of /repo, compiled verbatim against stand-ins (see Cargo.toml).
//!   WA <model> <hex msg,…> <clusters>      (feature `wasm`)   one worker, the messages in order
//!       → per message `<n_tags>|<surface hex>/<tag hex or _>/…,…` or `panic`, `;`-separated; the session ends at a panic
//!   EB <model> <hex text,…>                (no feature)       build.rs on the model, then the loop body of main.rs per text
//!       → `ok:<hex of the tokenised line>` or `panic` per text, `;`-separated, followed by ` <hex of predictor.bin>`
#[path = "../../harness/src/model.rs"]
#[allow(dead_code)]
mod model;
#[path = "../../harness/src/util.rs"]
#[allow(dead_code)]
mod util;

use std::io::{BufRead, Write};
use std::sync::Mutex;

/// the zstd-compressed model file that `include_bytes!` of the example yields
static MODEL_ZST: Mutex<Option<&'static Vec<u8>>> = Mutex::new(None);

pub fn model_zst() -> &'static Vec<u8> {
    MODEL_ZST.lock().unwrap().expect("model set")
}

fn set_model(bytes: &[u8]) {
    let mut e = zstd::Encoder::new(Vec::new(), 1).expect("zstd");
    e.write_all(bytes).unwrap();
    let z = e.finish().unwrap();
    *MODEL_ZST.lock().unwrap() = Some(Box::leak(Box::new(z)));
}

fn texts_of(s: &str) -> Option<Vec<String>> {
    if s == "-" {
        return Some(vec![]);
    }
    s.split(',').map(|h| if h == "_" { Some(String::new()) } else { util::unhexs(h) }).collect()
}

#[cfg(feature = "wasm")]
mod wasm {
    //! stand-ins for gloo-worker and for what `#[ouroboros::self_referencing]` generates
    use std::cell::RefCell;
    use std::io::Read;

    use vaporetto::{CharacterType, Model, Predictor, Sentence};
    use vaporetto_rules::{
        sentence_filters::{ConcatGraphemeClustersFilter, KyteaWsConstFilter},
        string_filters::KyteaFullwidthFilter,
        SentenceFilter, StringFilter,
    };

    #[derive(Clone, Copy, PartialEq, Eq, Debug)]
    pub struct HandlerId(pub usize);

    pub trait Worker: Sized {
        type Input;
        type Message;
        type Output;
        fn create(scope: &WorkerScope<Self>) -> Self;
        fn update(&mut self, scope: &WorkerScope<Self>, msg: Self::Message);
        fn received(&mut self, scope: &WorkerScope<Self>, msg: Self::Input, id: HandlerId);
    }

    pub struct WorkerScope<W: Worker> {
        pub sent: RefCell<Vec<W::Message>>,
        pub responded: RefCell<Vec<(HandlerId, W::Output)>>,
    }

    impl<W: Worker> WorkerScope<W> {
        pub fn new() -> Self {
            Self { sent: RefCell::new(vec![]), responded: RefCell::new(vec![]) }
        }
        pub fn send_message(&self, m: W::Message) {
            self.sent.borrow_mut().push(m);
        }
        pub fn respond(&self, id: HandlerId, out: W::Output) {
            self.responded.borrow_mut().push((id, out));
        }
    }

    #[derive(Clone, PartialEq)]
    pub struct Token {
        pub surface: String,
        pub tags: Vec<String>,
    }

    pub struct WorkerMessage {
        pub id: HandlerId,
        pub output: (Vec<Token>, usize),
    }

    /// the self-referencing struct: the sentences borrow the predictor (leaked here, pinned on the heap by ouroboros)
    pub struct VaporettoWorker {
        predictor: &'static Predictor,
        wsconst_g: ConcatGraphemeClustersFilter,
        wsconst_d: KyteaWsConstFilter,
        sentence_filtered: Sentence<'static, 'static>,
        sentence_orig: Sentence<'static, 'static>,
    }

    pub struct VaporettoWorkerBuilder<F1, F2> {
        pub predictor: Predictor,
        pub wsconst_g: ConcatGraphemeClustersFilter,
        pub wsconst_d: KyteaWsConstFilter,
        pub sentence_orig_builder: F1,
        pub sentence_filtered_builder: F2,
    }

    impl<F1, F2> VaporettoWorkerBuilder<F1, F2>
    where
        F1: FnOnce(&'static Predictor) -> Sentence<'static, 'static>,
        F2: FnOnce(&'static Predictor) -> Sentence<'static, 'static>,
    {
        pub fn build(self) -> VaporettoWorker {
            let predictor: &'static Predictor = Box::leak(Box::new(self.predictor));
            VaporettoWorker {
                predictor,
                wsconst_g: self.wsconst_g,
                wsconst_d: self.wsconst_d,
                sentence_filtered: (self.sentence_filtered_builder)(predictor),
                sentence_orig: (self.sentence_orig_builder)(predictor),
            }
        }
    }

    pub struct BorrowedMutFields<'a> {
        pub predictor: &'static Predictor,
        pub wsconst_g: &'a ConcatGraphemeClustersFilter,
        pub wsconst_d: &'a KyteaWsConstFilter,
        pub sentence_filtered: &'a mut Sentence<'static, 'static>,
        pub sentence_orig: &'a mut Sentence<'static, 'static>,
    }

    impl VaporettoWorker {
        pub fn with_mut<R>(&mut self, f: impl FnOnce(BorrowedMutFields<'_>) -> R) -> R {
            f(BorrowedMutFields {
                predictor: self.predictor,
                wsconst_g: &self.wsconst_g,
                wsconst_d: &self.wsconst_d,
                sentence_filtered: &mut self.sentence_filtered,
                sentence_orig: &mut self.sentence_orig,
            })
        }
        pub fn borrow_sentence_orig(&self) -> &Sentence<'static, 'static> {
            &self.sentence_orig
        }
    }

    /// the model file the example embeds (`bccwj-suw+unidic_pos+pron.model.zst` is not part of the repository)
    macro_rules! include_bytes {
        ($($t:tt)*) => {
            crate::model_zst()
        };
    }

    // ---- verbatim from /repo/examples/wasm/src/lib.rs ----
    include!(concat!(env!("OUT_DIR"), "/wasm_impl.rs"));
    // -------------------------------------------------------

    fn show(out: &(Vec<Token>, usize)) -> String {
        let toks: Vec<String> = out
            .0
            .iter()
            .map(|t| {
                let mut parts = vec![crate::util::hexs(&t.surface)];
                parts.extend(t.tags.iter().map(|x| if x.is_empty() { "_".to_string() } else { crate::util::hexs(x) }));
                parts.join("/")
            })
            .collect();
        format!("{}|{}", out.1, toks.join(","))
    }

    pub fn run(model_bytes: &[u8], msgs: &[String]) -> String {
        crate::set_model(model_bytes);
        let scope = WorkerScope::<VaporettoWorker>::new();
        let mut w = match crate::util::catch(|| VaporettoWorker::create(&scope)) {
            Ok(w) => w,
            Err(_) => return "create:panic".into(),
        };
        let mut outs = vec![];
        for (i, m) in msgs.iter().enumerate() {
            let r = crate::util::catch(std::panic::AssertUnwindSafe(|| {
                w.received(&scope, m.clone(), HandlerId(i));
                let pending: Vec<WorkerMessage> = scope.sent.borrow_mut().drain(..).collect();
                for p in pending {
                    w.update(&scope, p);
                }
                scope.responded.borrow_mut().drain(..).collect::<Vec<_>>()
            }));
            match r {
                Ok(resp) if resp.len() == 1 && resp[0].0 == HandlerId(i) => outs.push(show(&resp[0].1)),
                Ok(resp) => {
                    outs.push(format!("protocol:{}-responses", resp.len()));
                    break;
                }
                Err(_) => {
                    outs.push("panic".into());
                    break;
                }
            }
        }
        outs.join(";")
    }
}

#[cfg(not(feature = "wasm"))]
mod embedded {
    /// `include_bytes!(env!("VAPORETTO_MODEL_PATH"))` (and `memory.x`, whose content is irrelevant here)
    macro_rules! include_bytes {
        ($($t:tt)*) => {
            crate::model_zst()
        };
    }
    /// the `cargo:` directives of a build script go nowhere
    macro_rules! println {
        ($($t:tt)*) => {{
            let _ = format!($($t)*);
        }};
    }

    pub mod build_rs {
        // ---- verbatim: /repo/examples/embedded_device/build.rs ----
        include!("/repo/examples/embedded_device/build.rs");
        // -----------------------------------------------------------
        pub fn run() {
            main()
        }
    }

    use vaporetto::{CharacterType, Predictor, Sentence};
    use vaporetto_rules::{sentence_filters::KyteaWsConstFilter, SentenceFilter};

    pub fn run(model_bytes: &[u8], texts: &[String], out_dir: &std::path::Path) -> String {
        crate::set_model(model_bytes);
        let _ = std::fs::remove_file(out_dir.join("predictor.bin"));
        std::env::set_var("OUT_DIR", out_dir);
        if crate::util::catch(build_rs::run).is_err() {
            return "build:panic".into();
        }
        let Ok(predictor_data) = std::fs::read(out_dir.join("predictor.bin")) else { return "build:no-file".into() };
        // from here on: examples/embedded_device/src/main.rs (mirrored by hand; cortex-m is not available)
        let r = crate::util::catch(|| {
            let (predictor, rest) = unsafe { Predictor::deserialize_from_slice_unchecked(&predictor_data) }.map_err(|_| ())?;
            if !rest.is_empty() {
                return Err(());
            }
            let wsconst_d_filter = KyteaWsConstFilter::new(CharacterType::Digit);
            let mut outs = vec![];
            for text in texts {
                let one = crate::util::catch(std::panic::AssertUnwindSafe(|| {
                    let mut s = Sentence::from_raw(text.as_str()).unwrap();
                    predictor.predict(&mut s);
                    wsconst_d_filter.filter(&mut s);
                    let mut buf = String::new();
                    s.write_tokenized_text(&mut buf);
                    buf
                }));
                outs.push(match one {
                    Ok(b) => format!("ok:{}", crate::util::hexs(&b)),
                    Err(_) => "panic".into(),
                });
            }
            Ok(outs.join(";"))
        });
        match r {
            Ok(Ok(s)) => format!("{s} {}", crate::util::hex(&predictor_data)),
            Ok(Err(())) => "device:err".into(),
            Err(_) => "device:panic".into(),
        }
    }
}

fn run_case(line: &str, scratch: &std::path::Path) -> String {
    let t: Vec<&str> = line.split(' ').collect();
    let _ = scratch;
    match t.as_slice() {
        #[cfg(feature = "wasm")]
        ["WA", m, msgs, ..] => {
            let (Some(m), Some(msgs)) = (model::AbsModel::parse(m), texts_of(msgs)) else { return "bad-case".into() };
            wasm::run(&m.to_bytes(), &msgs)
        }
        #[cfg(not(feature = "wasm"))]
        ["EB", m, texts, ..] => {
            let (Some(m), Some(texts)) = (model::AbsModel::parse(m), texts_of(texts)) else { return "bad-case".into() };
            embedded::run(&m.to_bytes(), &texts, scratch)
        }
        _ => "bad-case".into(),
    }
}

fn main() {
    util::silence_panics();
    let scratch = std::env::temp_dir().join(format!("vexamples-{}", std::process::id()));
    std::fs::create_dir_all(&scratch).unwrap();
    let stdin = std::io::stdin();
    let out = std::io::stdout();
    let mut out = out.lock();
    for line in stdin.lock().lines() {
        let line = line.unwrap();
        let r = run_case(line.trim_end(), &scratch);
        writeln!(out, "{r}").unwrap();
    }
    let _ = std::fs::remove_dir_all(&scratch);
}
