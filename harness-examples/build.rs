//! Extracts `impl Worker for VaporettoWorker { … }` from /repo/examples/wasm/src/lib.rs (the text between that line and the
//! first following line that consists of `}` alone) into $OUT_DIR/wasm_impl.rs, unchanged.
use std::{env, fs, path::PathBuf};

fn main() {
    let src = "/repo/examples/wasm/src/lib.rs";
    println!("cargo:rerun-if-changed={src}");
    println!("cargo:rerun-if-changed=/repo/examples/embedded_device/build.rs");
    let out = PathBuf::from(env::var_os("OUT_DIR").unwrap()).join("wasm_impl.rs");
    let text = fs::read_to_string(src).unwrap_or_default();
    let mut block = String::new();
    let mut inside = false;
    let mut done = false;
    for line in text.lines() {
        if !inside && line.trim_end() == "impl Worker for VaporettoWorker {" {
            inside = true;
        }
        if inside {
            block.push_str(line);
            block.push('\n');
            if line.trim_end() == "}" {
                done = true;
                break;
            }
        }
    }
    if !done {
        block = "compile_error!(\"examples/wasm/src/lib.rs: `impl Worker for VaporettoWorker { … }` not found\");\n".into();
    }
    fs::write(out, block).unwrap();
}
