//! vtantivy: C16 — the Tantivy token stream of vaporetto_tantivy, against the core pipeline run directly.
//!   vtantivy gen <family> <tier> <seed>     vtantivy run [--oracle file]
//! Case: `TK <model> <wsconst|-> <hex text> <cluster lengths of the normalised text|-> [c16]`
#[path = "../../harness/src/model.rs"]
#[allow(dead_code)]
mod model;
#[path = "../../harness/src/util.rs"]
#[allow(dead_code)]
mod util;

use std::io::{BufRead, Write};

use tantivy::tokenizer::{TokenStream, Tokenizer};
use unicode_segmentation::UnicodeSegmentation;
use vaporetto::{CharacterBoundary, CharacterType, Predictor, Sentence};
use vaporetto_rules::{
    sentence_filters::{ConcatGraphemeClustersFilter, KyteaWsConstFilter, SplitLinebreaksFilter},
    string_filters::KyteaFullwidthFilter,
    SentenceFilter, StringFilter,
};
use vaporetto_tantivy::VaporettoTokenizer;

use model::{gen_model, gen_text, AbsModel, GenOpts};
use util::{catch, hexs, unhexs, Rng};

fn clusters_of(text: &str) -> String {
    let norm = KyteaFullwidthFilter.filter(text);
    let v: Vec<String> = norm.graphemes(true).map(|g| g.chars().count().to_string()).collect();
    if v.is_empty() { "-".into() } else { v.join(".") }
}

/// word-boundary byte offsets of the core pipeline run directly through the library
fn pipeline_breaks(m: &AbsModel, wsconst: &str, text: &str) -> Result<Vec<usize>, String> {
    let model = m.load()?;
    let p = Predictor::new(model, false).map_err(|e| e.to_string())?;
    let norm = KyteaFullwidthFilter.filter(text);
    let mut s = Sentence::from_raw(norm).map_err(|e| e.to_string())?;
    p.predict(&mut s);
    SplitLinebreaksFilter.filter(&mut s);
    for c in wsconst.chars() {
        let f: Box<dyn SentenceFilter> = match c {
            'D' => Box::new(KyteaWsConstFilter::new(CharacterType::Digit)),
            'R' => Box::new(KyteaWsConstFilter::new(CharacterType::Roman)),
            'H' => Box::new(KyteaWsConstFilter::new(CharacterType::Hiragana)),
            'T' => Box::new(KyteaWsConstFilter::new(CharacterType::Katakana)),
            'K' => Box::new(KyteaWsConstFilter::new(CharacterType::Kanji)),
            'O' => Box::new(KyteaWsConstFilter::new(CharacterType::Other)),
            'G' => Box::new(ConcatGraphemeClustersFilter),
            _ => return Err("wsconst".into()),
        };
        f.filter(&mut s);
    }
    let offs: Vec<usize> = text.char_indices().map(|(i, _)| i).skip(1).collect();
    if offs.len() != s.boundaries().len() {
        return Err(format!("the normalised text has {} boundaries, the original {}", s.boundaries().len(), offs.len()));
    }
    Ok(offs.iter().zip(s.boundaries()).filter(|(_, &b)| b == CharacterBoundary::WordBoundary).map(|(&o, _)| o).collect())
}

fn run_case(line: &str, fails: &mut Vec<(String, String)>) -> String {
    let t: Vec<&str> = line.split(' ').collect();
    match t.as_slice() {
        ["BIG", rest @ ..] => {
            let _ = run_case(&rest.join(" "), fails);
            "big".into()
        }
        ["TK", m, ws, h, _clusters, rest @ ..] => {
            let c16 = rest.first() == Some(&"c16");
            let Some(m) = AbsModel::parse(m) else { return "bad-case".into() };
            let Some(text) = unhexs(h) else { return "bad-case".into() };
            let ws = if *ws == "-" { "" } else { ws };
            let r = catch(|| {
                let model = m.load().map_err(|_| "err:model".to_string())?;
                let mut tk = VaporettoTokenizer::new(model, ws).map_err(|_| "err".to_string())?;
                let collect = |tk: &mut VaporettoTokenizer, text: &str| {
                    let mut st = tk.token_stream(text);
                    let mut toks = vec![];
                    while st.advance() {
                        let k = st.token();
                        toks.push((k.offset_from, k.offset_to, k.position, k.text.clone()));
                    }
                    toks
                };
                let toks = collect(&mut tk, &text);
                // Tantivy keeps one tokenizer per field and clones it per thread: the same instance (and a clone of it) sees
                // many texts. What it answered before must not matter: texts it rejects, the empty text, line breaks, a long text
                if c16 {
                    let mut cl = tk.clone();
                    for prime in ["a\0b", "", "あ\r\nい", "0123456789あいうえおかきくけこ漢字漢字漢字ｱｲｳｴｵabcdefghijklmnopqrstuvwxyz。。。"] {
                        let _ = collect(&mut tk, prime);
                        let again = collect(&mut tk, &text);
                        if again != toks {
                            fails.push(("C16".into(), format!("text {text:?} wsconst {ws:?}: a tokenizer that had processed {prime:?} before yields {again:?}, a new one {toks:?}")));
                            break;
                        }
                    }
                    // the text, then its width variant (same normal form, another byte length), then that variant AGAIN, and back: whatever
                    // the tokenizer remembers about its previous text must belong to that text
                    {
                        let wide: String = text.chars().map(|c| if ('!'..='~').contains(&c) { char::from_u32(c as u32 - 0x21 + 0xFF01).unwrap() } else { c }).collect();
                        let narrow: String = text.chars().map(|c| if ('\u{ff01}'..='\u{ff5e}').contains(&c) { char::from_u32(c as u32 - 0xFF01 + 0x21).unwrap() } else { c }).collect();
                        for variant in [wide, narrow] {
                            if variant == text {
                                continue;
                            }
                            let mut fresh = VaporettoTokenizer::new(m.load().map_err(|_| "err:model".to_string())?, ws).map_err(|_| "err".to_string())?;
                            let want_v = collect(&mut fresh, &variant);
                            let seq = [(&text, &toks), (&variant, &want_v), (&variant, &want_v), (&text, &toks), (&text, &toks)];
                            for (step, (t, want)) in seq.iter().enumerate() {
                                let got = collect(&mut tk, t);
                                if &got != *want {
                                    fails.push(("C16".into(), format!("wsconst {ws:?}: one tokenizer given {text:?}, {variant:?}, {variant:?}, {text:?}, {text:?} in a row yields {got:?} at step {step} ({t:?}), a new tokenizer {want:?}")));
                                    break;
                                }
                            }
                        }
                    }
                    // a stream that the consumer drops before it is exhausted (an early stop, a sink that fails): after 0, 1, 2 tokens
                    for k in 0..3usize {
                        {
                            let mut st = tk.token_stream("あいう えお。0123 abc漢字漢字\nかきくけこ");
                            for _ in 0..k {
                                if !st.advance() {
                                    break;
                                }
                            }
                        }
                        let again = collect(&mut tk, &text);
                        if again != toks {
                            fails.push(("C16".into(), format!("text {text:?} wsconst {ws:?}: a tokenizer whose previous stream was dropped after {k} tokens yields {again:?}, a new one {toks:?}")));
                            break;
                        }
                    }
                    let _ = collect(&mut cl, "x\0");
                    if collect(&mut cl, &text) != toks {
                        fails.push(("C16".into(), format!("text {text:?} wsconst {ws:?}: a clone of the tokenizer that had processed a text with NUL before yields other tokens than a new one")));
                    }
                }
                Ok::<_, String>(toks)
            });
            match r {
                Ok(Ok(toks)) => {
                    if c16 {
                        oracle(&m, ws, &text, &toks, fails);
                    }
                    format!("ok {}", toks.iter().map(|(a, b, p, t)| format!("{a}:{b}:{p}:{}", hexs(t))).collect::<Vec<_>>().join("."))
                }
                Ok(Err(e)) => e,
                Err(msg) => {
                    if c16 {
                        fails.push(("C16".into(), format!("token_stream panicked on text {text:?}: {msg}")));
                    }
                    "panic".into()
                }
            }
        }
        ["N", h, rest @ ..] => {
            let Some(text) = unhexs(h) else { return "bad-case".into() };
            let out = KyteaFullwidthFilter.filter(&text);
            if rest.first() == Some(&"c16") {
                if out.chars().count() != text.chars().count() {
                    fails.push(("C16".into(), format!("the normaliser maps {text:?} ({} chars) to {out:?} ({} chars)", text.chars().count(), out.chars().count())));
                }
                let charwise: String = text.chars().map(|c| {
                    let mut buf = [0u8; 4];
                    KyteaFullwidthFilter.filter(&*c.encode_utf8(&mut buf))
                }).collect();
                if charwise != out {
                    let k = out.chars().zip(charwise.chars()).position(|(a, b)| a != b).unwrap_or(0);
                    let ctx: String = text.chars().skip(k.saturating_sub(1)).take(3).collect();
                    fails.push(("C16".into(), format!("the normaliser is not character-wise: near {ctx:?} (position {k}) the image of the string differs from the images of its characters")));
                }
                let twice = KyteaFullwidthFilter.filter(&out);
                if twice != out {
                    fails.push(("C16".into(), format!("the normaliser is not idempotent on {text:?}: {out:?} -> {twice:?}")));
                }
            }
            hexs(&out)
        }
        _ => "bad-case".into(),
    }
}

fn oracle(m: &AbsModel, ws: &str, text: &str, toks: &[(usize, usize, usize, String)], fails: &mut Vec<(String, String)>) {
    let mut bad: Option<String> = None;
    if text.is_empty() {
        if !toks.is_empty() {
            bad = Some("tokens for the empty text".into());
        }
    } else {
        let mut prev = 0;
        for (k, (a, b, p, t)) in toks.iter().enumerate() {
            if *a != prev || a >= b || !text.is_char_boundary(*a) || !text.is_char_boundary(*b) || *b > text.len() {
                bad = Some(format!("token {k} has offsets {a}..{b} (previous end {prev}, text length {})", text.len()));
                break;
            }
            if &text[*a..*b] != t {
                bad = Some(format!("token {k} carries {t:?}, the original substring is {:?}", &text[*a..*b]));
                break;
            }
            if *p != k {
                bad = Some(format!("token {k} has position {p}"));
                break;
            }
            prev = *b;
        }
        if bad.is_none() && prev != text.len() {
            bad = Some(format!("the tokens end at {prev}, the text has {} bytes", text.len()));
        }
        if bad.is_none() {
            match pipeline_breaks(m, ws, text) {
                Ok(br) => {
                    let got: Vec<usize> = toks.iter().skip(1).map(|t| t.0).collect();
                    if got != br {
                        bad = Some(format!("the stream breaks at {got:?}, the core pipeline at {br:?}"));
                    }
                }
                Err(_) => {} // the core pipeline rejects this text (NUL): nothing to compare the breaks with
            }
        }
    }
    if let Some(b) = bad {
        fails.push(("C16".into(), format!("text {text:?} wsconst {ws:?}: {b}")));
    }
}

const UNITS: &[&str] = &[
    "a", "b", "Z", "7", "９", "あ", "い", "カ", "ｶ", "ﾞ", "漢", "字", "𠮷", "。", "｡", " ", "\r", "\n", "\r\n", "-", "―", "e\u{301}", "🇯🇵",
    "👨\u{200d}👩", "(", "～", ".", "ｱ",
];

fn gen(out: &mut dyn Write, thorough: bool, seed: u64) {
    let mut r = Rng::new(seed ^ 0xC16);
    // normaliser: every scalar value once (in chunks), and random strings
    let mut chunk = String::new();
    for c in (0u32..=0x10FFFF).filter_map(char::from_u32) {
        chunk.push(c);
        if chunk.chars().count() == 4096 {
            writeln!(out, "N {} c16", hexs(&chunk)).unwrap();
            chunk.clear();
        }
    }
    writeln!(out, "N {} c16", hexs(&chunk)).unwrap();
    // context: every ordered pair over the characters the filter touches, the half-width katakana block with its sound
    // marks, combining marks and a few neighbours (a filter that looks at the next character is invisible character-wise)
    let mut special: Vec<char> = vec![];
    for c in (0u32..=0x10FFFF).filter_map(char::from_u32) {
        let mut buf = [0u8; 4];
        let one: &str = c.encode_utf8(&mut buf);
        if KyteaFullwidthFilter.filter(one) != one || (0xFF61..=0xFF9F).contains(&(c as u32)) {
            special.push(c);
        }
    }
    special.extend(['\u{3099}', '\u{309A}', '\u{301}', '\u{200D}', 'カ', 'ハ', 'ウ', 'あ', '漢', '\n', '\0', '𠮷']);
    for &a in &special {
        let mut line = String::new();
        for &b in &special {
            // pairs separated by a character that no rule can combine with: one N line per first character
            line.push(a);
            line.push(b);
            line.push('\u{2028}');
        }
        writeln!(out, "N {} c16", hexs(&line)).unwrap();
    }
    for _ in 0..(if thorough { 20000 } else { 2000 }) {
        let t: String = (0..r.range(2, 6)).map(|_| *r.pick(&special)).collect();
        writeln!(out, "N {} c16", hexs(&t)).unwrap();
    }
    let opts = GenOpts { windows: &[1, 2, 3, 4, 9], max_ngrams: 6, max_words: 4, max_word_len: 5 };
    let all_ws: Vec<String> = {
        let letters = ['D', 'R', 'H', 'T', 'K', 'O', 'G'];
        let mut v = vec!["-".to_string()];
        for a in letters {
            v.push(a.to_string());
            for b in letters {
                v.push(format!("{a}{b}"));
            }
        }
        v
    };
    let n_models = if thorough { 3000 } else { 120 };
    for i in 0..n_models {
        let (mut m, alpha) = gen_model(&mut r, &opts);
        if m.char_ngrams.is_empty() && m.type_ngrams.is_empty() {
            m.bias = 1; // break everywhere unless filters concatenate
        }
        let mt = m.to_text();
        for j in 0..(if thorough { 8 } else { 6 }) {
            let mut text = if j % 2 == 0 {
                gen_text(&mut r, &m, &alpha, 12)
            } else {
                (0..r.range(0, 8)).map(|_| *r.pick(UNITS)).collect::<String>()
            };
            if i % 10 == 0 && j == 0 {
                text = String::new();
            }
            let ws = if r.chance(1, 3) {
                r.pick(&all_ws).clone()
            } else {
                (0..r.below(5)).map(|_| *r.pick(&['D', 'R', 'H', 'T', 'K', 'O', 'G'])).collect::<String>()
            };
            let ws = if ws.is_empty() { "-".to_string() } else { ws };
            writeln!(out, "TK {mt} {ws} {} {} c16", hexs(&text), clusters_of(&text)).unwrap();
        }
    }
    // all wsconst strings of length <= 2 on one model; an invalid wsconst letter; a text with NUL
    let (m, alpha) = gen_model(&mut r, &opts);
    let mt = m.to_text();
    for ws in &all_ws {
        let text = format!("{}12ab あいカナ漢字\r\n", gen_text(&mut r, &m, &alpha, 6));
        writeln!(out, "TK {mt} {ws} {} {} c16", hexs(&text), clusters_of(&text)).unwrap();
    }
    // large texts (oracle-only): more than 64 KiB with line breaks, and a dictionary word that spans a line break
    {
        let (mut m, alpha) = gen_model(&mut r, &opts);
        let w: String = format!("\n{}{}", alpha[0], alpha[alpha.len() - 1]);
        m.dict.push((w.clone(), vec![0, 0, 30000, 0], String::new()));
        m.dict.push((format!("{}\r", alpha[0]), vec![30000, -30000, 0], String::new()));
        let mut text = String::new();
        while text.len() < 70_000 {
            text.push_str(&gen_text(&mut r, &m, &alpha, 20));
            text.push_str(if text.len() % 3 == 0 { "\r\n" } else { "\n" });
            text.push(alpha[0]);
            text.push(alpha[alpha.len() - 1]);
        }
        for ws in ["-", "D", "O"] {
            writeln!(out, "BIG TK {} {ws} {} - c16", m.to_text(), hexs(&text)).unwrap();
        }
    }
    writeln!(out, "TK {mt} X {} {} c16", hexs("ab"), clusters_of("ab")).unwrap();
    writeln!(out, "TK {mt} - {} {} c16", hexs("a\0b"), clusters_of("a\0b")).unwrap();
}

fn main() {
    let args: Vec<String> = std::env::args().collect();
    match args.get(1).map(String::as_str) {
        Some("gen") => {
            let thorough = args.get(3).map(String::as_str) == Some("thorough");
            let seed: u64 = args.get(4).and_then(|s| s.parse().ok()).unwrap_or(1);
            let out = std::io::stdout();
            let mut out = std::io::BufWriter::new(out.lock());
            gen(&mut out, thorough, seed);
            out.flush().unwrap();
        }
        Some("run") => {
            util::silence_panics();
            let mut oracle_out: Option<std::fs::File> = None;
            if let Some(i) = args.iter().position(|a| a == "--oracle") {
                oracle_out = Some(std::fs::File::create(&args[i + 1]).expect("oracle file"));
            }
            let stdin = std::io::stdin();
            let out = std::io::stdout();
            let mut out = std::io::BufWriter::new(out.lock());
            for (lineno, line) in stdin.lock().lines().enumerate() {
                let line = line.unwrap();
                let mut fails = vec![];
                let resp = run_case(line.trim(), &mut fails);
                writeln!(out, "{resp}").unwrap();
                if let Some(f) = oracle_out.as_mut() {
                    for (prop, msg) in fails {
                        let msg = msg.replace('\n', "\\n").replace('\t', "\\t").replace('\r', "\\r");
                        writeln!(f, "{}\t{}\t{}", lineno + 1, prop, msg).unwrap();
                    }
                }
            }
            out.flush().unwrap();
        }
        _ => std::process::exit(2),
    }
}
