import Spike.Merge
namespace Merge
variable {α : Type} [DecidableEq α]

@[simp] theorem upd_same {β} (f : List α → β) (k v) : upd f k v k = v := by simp [upd]
theorem upd_other {β} (f : List α → β) (k v x) (h : x ≠ k) : upd f k v x = f x := by simp [upd, h]

def stepTo (st : St α) (fromK t : List α) : St α :=
  { w := upd st.w t (st.w t + st.w fromK), done := upd st.done t true }

def markDone (st : St α) (f : List α) : St α := { st with done := upd st.done f true }

theorem go_append (st : St α) (f : List α) (xs ys : List (List α)) :
    go st f (xs ++ ys) = go (go st f xs) ((f :: xs).getLast (by simp)) ys := by
  induction xs generalizing st f with
  | nil => simp [go]
  | cons x xs ih =>
    simp only [List.cons_append, go]
    rw [ih]
    simp [List.getLast_cons]

/-- backprop on the unreversed chain -/
def bp (st : St α) : List (List α) → St α
  | [] => st
  | [p] => markDone st p
  | p :: q :: r => stepTo (bp st (q :: r)) q p

theorem backprop_reverse (st : St α) (c : List (List α)) : backprop st c.reverse = bp st c := by
  induction c with
  | nil => simp [backprop, bp]
  | cons p c ih =>
    cases c with
    | nil => simp [backprop, bp, go, markDone]
    | cons q r =>
      have hne : (q :: r).reverse ≠ [] := by simp
      obtain ⟨f, rest, hfr⟩ := List.exists_cons_of_ne_nil hne
      have : (p :: q :: r).reverse = f :: (rest ++ [p]) := by
        rw [List.reverse_cons, hfr]; simp
      rw [this]
      simp only [backprop]
      rw [go_append]
      have ih' : go { st with done := upd st.done f true } f rest = bp st (q :: r) := by
        rw [← ih, hfr]; simp [backprop]
      rw [ih']
      have hlast : (f :: rest).getLast (by simp) = q := by
        have : (f :: rest) = (q :: r).reverse := hfr.symm
        simp [this]
      simp only [go, bp, stepTo, hlast]

end Merge

namespace Merge
variable {α : Type} [DecidableEq α]

def tailSum (st : St α) : List (List α) → List α → Int
  | [], x => st.w x
  | p :: r, x => if x = p then ((p :: r).map st.w).sum else tailSum st r x

theorem tailSum_not_mem (st : St α) (c : List (List α)) (x : List α) (h : x ∉ c) :
    tailSum st c x = st.w x := by
  induction c with
  | nil => rfl
  | cons p r ih =>
    simp only [List.mem_cons, not_or] at h
    simp [tailSum, h.1, ih h.2]

theorem bp_done (st : St α) (c : List (List α)) (x : List α) :
    (bp st c).done x = (st.done x || decide (x ∈ c)) := by
  induction c with
  | nil => simp [bp]
  | cons p c ih =>
    cases c with
    | nil => by_cases h : x = p <;> simp [bp, markDone, upd, h]
    | cons q r =>
      simp only [bp, stepTo]
      by_cases h : x = p
      · simp [upd, h]
      · rw [upd_other _ _ _ _ h, ih]; simp [h]

theorem bp_w (st : St α) (c : List (List α)) (hnd : c.Nodup) (x : List α) :
    (bp st c).w x = tailSum st c x := by
  induction c generalizing x with
  | nil => rfl
  | cons p c ih =>
    cases c with
    | nil => by_cases h : x = p <;> simp [bp, markDone, tailSum, h]
    | cons q r =>
      have hnd' : (q :: r).Nodup := (List.nodup_cons.1 hnd).2
      have hp : p ∉ q :: r := (List.nodup_cons.1 hnd).1
      simp only [bp, stepTo]
      by_cases h : x = p
      · subst h
        rw [upd_same, ih hnd' x, ih hnd' q, tailSum_not_mem _ _ _ hp]
        simp [tailSum]
      · rw [upd_other _ _ _ _ h, ih hnd' x]
        conv => rhs; unfold tailSum
        simp [h]

end Merge

namespace Merge
variable {α : Type} [DecidableEq α]

/-- chainAux over the proper suffixes, as a recursion on the key string itself -/
def cOf (keys : List (List α)) (st : St α) : List α → List (List α)
  | [] => []
  | _ :: t => match t with
    | [] => []
    | b :: u =>
      if (b :: u) ∈ keys then (if st.done (b :: u) then [b :: u] else (b :: u) :: cOf keys st (b :: u))
      else cOf keys st (b :: u)

theorem chainAux_properSuffixes (keys : List (List α)) (st : St α) (x : List α) :
    chainAux keys st (properSuffixes x) = cOf keys st x := by
  induction x with
  | nil => rfl
  | cons a t ih =>
    cases t with
    | nil => rfl
    | cons b u =>
      have hps : properSuffixes (a :: b :: u) = (b :: u) :: properSuffixes (b :: u) := rfl
      rw [hps]
      simp only [chainAux, cOf]
      rw [ih]

theorem cOf_length (keys : List (List α)) (st : St α) (x : List α) :
    ∀ q ∈ cOf keys st x, q.length < x.length := by
  induction x with
  | nil => simp [cOf]
  | cons a t ih =>
    cases t with
    | nil => simp [cOf]
    | cons b u =>
      intro q hq
      simp only [cOf] at hq
      split at hq
      · split at hq
        · simp at hq; subst hq; simp
        · rcases List.mem_cons.1 hq with h | h
          · subst h; simp
          · have := ih q h; simp at this ⊢; omega
      · have := ih q hq; simp at this ⊢; omega

theorem cOf_nodup (keys : List (List α)) (st : St α) (x : List α) : (cOf keys st x).Nodup := by
  induction x with
  | nil => simp [cOf]
  | cons a t ih =>
    cases t with
    | nil => simp [cOf]
    | cons b u =>
      simp only [cOf]
      split
      · split
        · simp
        · refine List.nodup_cons.2 ⟨?_, ih⟩
          intro h; have := cOf_length keys st _ _ h; omega
      · exact ih

theorem cOf_mem_keys (keys : List (List α)) (st : St α) (x : List α) :
    ∀ q ∈ cOf keys st x, q ∈ keys := by
  induction x with
  | nil => simp [cOf]
  | cons a t ih =>
    cases t with
    | nil => simp [cOf]
    | cons b u =>
      intro q hq
      simp only [cOf] at hq
      split at hq
      · rename_i hk
        split at hq
        · simp at hq; subst hq; exact hk
        · rcases List.mem_cons.1 hq with h | h
          · subst h; exact hk
          · exact ih q h
      · exact ih q hq

/-! ### the specification side -/

theorem sum_filter_eq (keys : List (List α)) (f : List α → Int) (x : List α) (hnd : keys.Nodup) :
    ((keys.filter (fun q => decide (q = x))).map f).sum = if x ∈ keys then f x else 0 := by
  induction keys with
  | nil => simp
  | cons k ks ih =>
    have hk : k ∉ ks := (List.nodup_cons.1 hnd).1
    have ih' := ih (List.nodup_cons.1 hnd).2
    by_cases h : k = x
    · subst h
      simp [List.filter_cons, ih', hk]
    · have : x ≠ k := fun e => h e.symm
      simp [List.filter_cons, h, ih', this]

theorem sum_filter_or (keys : List (List α)) (f : List α → Int) (A B : List α → Bool)
    (hdis : ∀ q, A q = true → B q = false) :
    ((keys.filter (fun q => A q || B q)).map f).sum =
      ((keys.filter A).map f).sum + ((keys.filter B).map f).sum := by
  induction keys with
  | nil => simp
  | cons k ks ih =>
    cases hA : A k <;> cases hB : B k <;> simp [List.filter_cons, hA, hB, ih] <;> try omega
    have := hdis k hA; simp [hB] at this

theorem S_nil (keys : List (List α)) (w0 : List α → Int) (hne : [] ∉ keys) : S keys w0 [] = 0 := by
  unfold S
  have : keys.filter (fun q => q.isSuffixOf ([] : List α)) = [] := by
    apply List.filter_eq_nil_iff.2
    intro q hq
    cases q with
    | nil => exact absurd hq hne
    | cons a t => simp [List.isSuffixOf]
  simp [this]

theorem S_cons (keys : List (List α)) (w0 : List α → Int) (hnd : keys.Nodup) (a : α) (t : List α) :
    S keys w0 (a :: t) = (if (a :: t) ∈ keys then w0 (a :: t) else 0) + S keys w0 t := by
  unfold S
  have hfun : (fun q : List α => q.isSuffixOf (a :: t)) =
      (fun q => decide (q = a :: t) || q.isSuffixOf t) := by
    funext q
    rw [Bool.eq_iff_iff]
    simp [List.suffix_cons_iff]
  rw [hfun, sum_filter_or, sum_filter_eq _ _ _ hnd]
  intro q hq
  simp at hq; subst hq
  simp only [Bool.eq_false_iff, ne_eq, List.isSuffixOf_iff_suffix]
  intro h
  have := h.length_le
  simp at this
  omega

end Merge

namespace Merge
variable {α : Type} [DecidableEq α]

/-- the loop invariant of `merge` -/
def Inv (keys : List (List α)) (w0 : List α → Int) (st : St α) : Prop :=
  ∀ k ∈ keys, (st.done k = true → st.w k = S keys w0 k) ∧ (st.done k = false → st.w k = w0 k)

/-- sum of current weights along the chain below `x` = spec sum over the proper suffixes of `x` -/
theorem sum_cOf (keys : List (List α)) (w0 : List α → Int) (st : St α)
    (hnd : keys.Nodup) (hne : [] ∉ keys) (hinv : Inv keys w0 st) (a : α) (t : List α) :
    ((cOf keys st (a :: t)).map st.w).sum = S keys w0 t := by
  induction t generalizing a with
  | nil => simp [cOf, S_nil keys w0 hne]
  | cons b u ih =>
    simp only [cOf]
    split
    · rename_i hk
      split
      · rename_i hd
        simp [(hinv _ hk).1 hd]
      · rename_i hd
        have hd' : st.done (b :: u) = false := by simpa using hd
        simp only [List.map_cons, List.sum_cons, ih b, (hinv _ hk).2 hd']
        rw [S_cons keys w0 hnd b u]; simp [hk]
    · rename_i hk
      rw [ih b, S_cons keys w0 hnd b u]; simp [hk]

/-- every element of the chain below `x` receives exactly its spec sum -/
theorem tailSum_cOf (keys : List (List α)) (w0 : List α → Int) (st : St α)
    (hnd : keys.Nodup) (hne : [] ∉ keys) (hinv : Inv keys w0 st) (x : List α) :
    ∀ q ∈ cOf keys st x, tailSum st (cOf keys st x) q = S keys w0 q := by
  induction x with
  | nil => simp [cOf]
  | cons a t ih =>
    cases t with
    | nil => simp [cOf]
    | cons b u =>
      intro q hq
      simp only [cOf] at hq ⊢
      split at hq
      · rename_i hk
        rw [if_pos hk]
        split at hq
        · rename_i hd
          simp at hq; subst hq
          simp [hd, tailSum, (hinv _ hk).1 hd]
        · rename_i hd
          have hd' : st.done (b :: u) = false := by simpa using hd
          rw [if_neg hd]
          rcases List.mem_cons.1 hq with h | h
          · subst h
            simp only [tailSum, if_true, List.map_cons, List.sum_cons]
            rw [sum_cOf keys w0 st hnd hne hinv b u, (hinv _ hk).2 hd', S_cons keys w0 hnd b u]
            simp [hk]
          · have hlen := cOf_length keys st _ _ h
            have hneq : q ≠ b :: u := by intro e; subst e; omega
            simp only [tailSum, hneq, if_false]
            exact ih q h
      · rename_i hk
        rw [if_neg hk]
        exact ih q hq

theorem step_inv (keys : List (List α)) (w0 : List α → Int) (st : St α)
    (hnd : keys.Nodup) (hne : [] ∉ keys) (hinv : Inv keys w0 st) (k : List α) (hk : k ∈ keys) :
    Inv keys w0 (step keys st k) ∧ (step keys st k).done k = true ∧
      ∀ q, st.done q = true → (step keys st k).done q = true := by
  unfold step
  by_cases hd : st.done k = true
  · simp [hd, hinv]
  · have hd' : st.done k = false := by simpa using hd
    rw [if_neg hd]
    rw [backprop_reverse, chain, chainAux_properSuffixes]
    have hcn : (k :: cOf keys st k).Nodup := by
      refine List.nodup_cons.2 ⟨?_, cOf_nodup keys st k⟩
      intro h; have := cOf_length keys st _ _ h; omega
    refine ⟨?_, ?_, ?_⟩
    · intro q hq
      rw [bp_done, bp_w _ _ hcn]
      by_cases hmem : q ∈ k :: cOf keys st k
      · refine ⟨fun _ => ?_, fun h => by simp [hmem] at h⟩
        rcases List.mem_cons.1 hmem with h | h
        · subst h
          cases q with
          | nil => exact absurd hq hne
          | cons a t =>
            simp only [tailSum, if_true, List.map_cons, List.sum_cons]
            rw [sum_cOf keys w0 st hnd hne hinv a t, (hinv _ hq).2 hd', S_cons keys w0 hnd a t]
            simp [hq]
        · have hlen := cOf_length keys st _ _ h
          have hneq : q ≠ k := by intro e; subst e; omega
          simp only [tailSum, hneq, if_false]
          exact tailSum_cOf keys w0 st hnd hne hinv k q h
      · rw [tailSum_not_mem _ _ _ hmem]
        simp only [hmem, decide_false, Bool.or_false]
        exact hinv q hq
    · rw [bp_done]; simp
    · intro q hq; rw [bp_done]; simp [hq]

theorem foldl_inv (keys : List (List α)) (w0 : List α → Int) (hnd : keys.Nodup) (hne : [] ∉ keys) :
    ∀ (ks : List (List α)) (st : St α), (∀ k ∈ ks, k ∈ keys) → Inv keys w0 st →
      Inv keys w0 (ks.foldl (step keys) st) ∧
      (∀ k ∈ ks, (ks.foldl (step keys) st).done k = true) ∧
      (∀ q, st.done q = true → (ks.foldl (step keys) st).done q = true) := by
  intro ks
  induction ks with
  | nil => intro st _ h; exact ⟨h, by simp, fun _ h => h⟩
  | cons k ks ih =>
    intro st hsub hinv
    obtain ⟨h1, h2, h3⟩ := step_inv keys w0 st hnd hne hinv k (hsub k (by simp))
    obtain ⟨i1, i2, i3⟩ := ih (step keys st k) (fun q hq => hsub q (by simp [hq])) h1
    refine ⟨i1, ?_, fun q hq => i3 q (h3 q hq)⟩
    intro q hq
    rcases List.mem_cons.1 hq with h | h
    · subst h; exact i3 _ h2
    · exact i2 q h

/-- **C01_merge_correct** (for integer weights): after `merge`, every key carries the sum of the
original weights of all keys that are suffixes of it. -/
theorem merge_correct (keys : List (List α)) (w0 : List α → Int) (hnd : keys.Nodup) (hne : [] ∉ keys) :
    ∀ k ∈ keys, (merge keys w0).w k = S keys w0 k := by
  intro k hk
  have hinv0 : Inv keys w0 { w := w0, done := fun _ => false } := by
    intro q _; simp
  obtain ⟨i1, i2, _⟩ := foldl_inv keys w0 hnd hne keys _ (fun _ h => h) hinv0
  exact (i1 k hk).1 (i2 k hk)

#print axioms merge_correct
end Merge
