/-! Spike: strict decoders (C07). -/
abbrev Bytes := List UInt8
abbrev Dec (α : Type) := Bytes → Option (α × Bytes)

structure Strict {α : Type} (enc : α → Bytes) (dec : Dec α) (P : α → Prop) : Prop where
  rt   : ∀ v r, P v → dec (enc v ++ r) = some (v, r)
  pref : ∀ v p, P v → p <+: enc v → p ≠ enc v → dec p = none

def encPair {α β} (ea : α → Bytes) (eb : β → Bytes) : α × β → Bytes := fun (a, b) => ea a ++ eb b
def decPair {α β} (da : Dec α) (db : Dec β) : Dec (α × β) := fun bs =>
  match da bs with
  | none => none
  | some (a, r) => match db r with
    | none => none
    | some (b, r') => some ((a, b), r')

theorem prefix_append_cases {p a b : Bytes} (h : p <+: a ++ b) :
    (p <+: a ∧ p ≠ a) ∨ ∃ q, p = a ++ q ∧ q <+: b := by
  rcases List.prefix_or_prefix_of_prefix h (List.prefix_append a b) with h1 | h1
  · by_cases hp : p = a
    · right; exact ⟨[], by simp [hp], List.nil_prefix⟩
    · left; exact ⟨h1, hp⟩
  · obtain ⟨q, rfl⟩ := h1
    right; exact ⟨q, rfl, (List.prefix_append_right_inj a).1 h⟩

theorem Strict.pair {α β} {ea : α → Bytes} {eb : β → Bytes} {da : Dec α} {db : Dec β}
    {P : α → Prop} {Q : β → Prop} (ha : Strict ea da P) (hb : Strict eb db Q) :
    Strict (encPair ea eb) (decPair da db) (fun x => P x.1 ∧ Q x.2) := by
  constructor
  · rintro ⟨a, b⟩ r ⟨hp, hq⟩
    simp only [encPair, decPair, List.append_assoc]
    rw [ha.rt a _ hp]; simp only []; rw [hb.rt b r hq]
  · rintro ⟨a, b⟩ p ⟨hp, hq⟩ hpre hne
    simp only [encPair] at hpre hne
    simp only [decPair]
    rcases prefix_append_cases hpre with ⟨h1, h2⟩ | ⟨q, rfl, hq2⟩
    · rw [ha.pref a p hp h1 h2]
    · rw [ha.rt a q hp]; simp only []
      have : q ≠ eb b := by intro h; apply hne; rw [h]
      rw [hb.pref b q hq hq2 this]

/-- length-prefixed repetition with a one-byte count (stands for the varint count) -/
def encList {α} (e : α → Bytes) : List α → Bytes
  | [] => []
  | x :: xs => e x ++ encList e xs
def decN {α} (d : Dec α) : Nat → Dec (List α)
  | 0, bs => some ([], bs)
  | n+1, bs => match d bs with
    | none => none
    | some (x, r) => match decN d n r with
      | none => none
      | some (xs, r') => some (x :: xs, r')

theorem decN_rt {α} {e : α → Bytes} {d : Dec α} {P : α → Prop} (h : Strict e d P) :
    ∀ (xs : List α) r, (∀ x ∈ xs, P x) → decN d xs.length (encList e xs ++ r) = some (xs, r) := by
  intro xs; induction xs with
  | nil => intro r _; simp [decN, encList]
  | cons x xs ih =>
    intro r hP
    simp only [List.length_cons, decN, encList, List.append_assoc]
    rw [h.rt x _ (hP x (by simp))]; simp only []
    rw [ih r (fun y hy => hP y (by simp [hy]))]

theorem decN_pref {α} {e : α → Bytes} {d : Dec α} {P : α → Prop} (h : Strict e d P) :
    ∀ (xs : List α) p, (∀ x ∈ xs, P x) → p <+: encList e xs → p ≠ encList e xs →
      decN d xs.length p = none := by
  intro xs; induction xs with
  | nil => intro p _ hp hne; simp [encList] at hp hne; exact absurd hp hne
  | cons x xs ih =>
    intro p hP hp hne
    simp only [encList] at hp hne
    simp only [List.length_cons, decN]
    rcases prefix_append_cases hp with ⟨h1, h2⟩ | ⟨q, rfl, hq2⟩
    · rw [h.pref x p (hP x (by simp)) h1 h2]
    · rw [h.rt x q (hP x (by simp))]; simp only []
      have : q ≠ encList e xs := by intro hh; apply hne; rw [hh]
      rw [ih q (fun y hy => hP y (by simp [hy])) hq2 this]

#print axioms Strict.pair
#print axioms decN_pref
