/-! Spike for C03_roundtrip: `parse_tokenized` state machine (mirrored) and `write_tokenized_text`. -/
namespace Tok

structure PSt where
  text : List Char := []
  bounds : List Bool := []                 -- true = WordBoundary
  tagsTmp : List (List (List Char)) := []  -- per character: its tags so far
  tagStr : Option (List Char) := none
  prevBoundary : Bool := false
  escape : Bool := false
deriving Repr, DecidableEq

inductive R (α : Type) | ok (a : α) | err | panic
deriving Repr, DecidableEq

/-- `tags_tmp.last_mut().unwrap().push(tag)` -/
def pushLast : List (List (List Char)) → List Char → Option (List (List (List Char)))
  | [], _ => none
  | [x], t => some [x ++ [t]]
  | x :: y :: r, t => (pushLast (y :: r) t).map (x :: ·)

def flushTag (s : PSt) : R PSt :=
  match s.tagStr with
  | none => .ok s
  | some t => match pushLast s.tagsTmp t with
    | none => .panic
    | some tt => .ok { s with tagsTmp := tt, tagStr := none }

def step (s : PSt) (c : Char) : R PSt :=
  if !s.escape && c = '\\' then .ok { s with escape := true }
  else if !s.escape && c = ' ' then
    if s.text = [] then .err
    else if s.prevBoundary then .err
    else match flushTag s with
      | .ok s' => .ok { s' with prevBoundary := true }
      | e => e
  else if !s.escape && c = '/' then
    if s.text = [] || s.prevBoundary then .err
    else match s.tagStr with
      | none => .ok { s with tagStr := some [] }
      | some t => match pushLast s.tagsTmp t with
        | none => .panic
        | some tt => .ok { s with tagsTmp := tt, tagStr := some [] }
  else
    let s := { s with escape := false }
    if c = '\x00' then .err
    else match s.tagStr with
      | some t => .ok { s with tagStr := some (t ++ [c]) }
      | none =>
        let bounds := if s.text = [] then s.bounds else s.bounds ++ [s.prevBoundary]
        .ok { s with bounds := bounds, prevBoundary := false, text := s.text ++ [c], tagsTmp := s.tagsTmp ++ [[]] }

def run (s : PSt) : List Char → R PSt
  | [] => .ok s
  | c :: cs => match step s c with
    | .ok s' => run s' cs
    | e => e

def special (c : Char) : Bool := c = ' ' || c = '\\' || c = '/'

def esc : List Char → List Char
  | [] => []
  | c :: cs => if special c then '\\' :: c :: esc cs else c :: esc cs

structure Token where
  surface : List Char
  tags : List (List Char)      -- already trimmed; `[]` stands for an absent tag in the middle

def writeTags : List (List Char) → List Char
  | [] => []
  | t :: ts => '/' :: esc t ++ writeTags ts

def writeToken (t : Token) : List Char := esc t.surface ++ writeTags t.tags

def write : List Token → List Char
  | [] => []
  | [t] => writeToken t
  | t :: u :: r => writeToken t ++ ' ' :: write (u :: r)

#eval run {} (write [⟨"a/b".toList, ["x y".toList, [], "z".toList]⟩, ⟨"c".toList, []⟩])
end Tok
