/-! Spike for C17_dump: `Dictionary::dump_items` (explicit stack DFS) is sound and complete
    w.r.t. a declarative "what the state table encodes", whenever it returns. -/
namespace Dump

structure KState where
  gotos : List (Char × Nat)
  outputs : List Nat
  isBranch : Bool

inductive R (α : Type) | ok (a : α) | panic | fuel

abbrev Item := List Char × Nat

def dump (states : List KState) : Nat → List (Nat × List Char) → List Item → R (List Item)
  | _, [], acc => .ok acc
  | 0, _ :: _, _ => .fuel
  | fuel+1, (idx, word) :: rest, acc =>
    match states[idx]? with
    | none => .panic                                   -- `&self.states[idx]`
    | some st =>
      let children := st.gotos.map (fun (c, nxt) => (nxt, word ++ [c]))
      if st.isBranch then
        match st.outputs with
        | [] => .panic                                 -- `state.outputs[0]`
        | o :: _ => dump states fuel (children ++ rest) (acc ++ [(word, o)])
      else dump states fuel (children ++ rest) acc

/-- what a state table encodes below state `i` reached by spelling `w` -/
inductive Enc (states : List KState) : Nat → List Char → Item → Prop
  | here {i w st o os} : states[i]? = some st → st.isBranch = true → st.outputs = o :: os → Enc states i w (w, o)
  | child {i w st c j x} : states[i]? = some st → (c, j) ∈ st.gotos → Enc states j (w ++ [c]) x → Enc states i w x

theorem enc_unfold {states : List KState} {i : Nat} {w : List Char} {st : KState} (hst : states[i]? = some st)
    (x : Item) : Enc states i w x ↔
      (st.isBranch = true ∧ ∃ o os, st.outputs = o :: os ∧ x = (w, o)) ∨
      ∃ c j, (c, j) ∈ st.gotos ∧ Enc states j (w ++ [c]) x := by
  constructor
  · intro h
    cases h with
    | here h1 h2 h3 => rw [hst] at h1; cases h1; exact Or.inl ⟨h2, _, _, h3, rfl⟩
    | child h1 h2 h3 => rw [hst] at h1; cases h1; exact Or.inr ⟨_, _, h2, h3⟩
  · rintro (⟨hb, o, os, ho, rfl⟩ | ⟨c, j, hm, he⟩)
    · exact Enc.here hst hb ho
    · exact Enc.child hst hm he

theorem dump_spec (states : List KState) : ∀ (fuel : Nat) (stack : List (Nat × List Char)) (acc res : List Item),
    dump states fuel stack acc = .ok res →
    ∀ x, x ∈ res ↔ x ∈ acc ∨ ∃ p ∈ stack, Enc states p.1 p.2 x := by
  intro fuel
  induction fuel with
  | zero =>
    intro stack acc res h x
    cases stack with
    | nil => simp [dump] at h; subst h; simp
    | cons p r => simp [dump] at h
  | succ fuel ih =>
    intro stack acc res h x
    cases stack with
    | nil => simp [dump] at h; subst h; simp
    | cons p rest =>
      obtain ⟨idx, word⟩ := p
      simp only [dump] at h
      cases hst : states[idx]? with
      | none => simp [hst] at h
      | some st =>
        simp only [hst] at h
        have hchildren : ∀ y, (∃ p ∈ st.gotos.map (fun (c, nxt) => (nxt, word ++ [c])), Enc states p.1 p.2 y) ↔
            ∃ c j, (c, j) ∈ st.gotos ∧ Enc states j (word ++ [c]) y := by
          intro y; constructor
          · rintro ⟨p, hp, he⟩
            obtain ⟨⟨c, j⟩, hm, rfl⟩ := List.mem_map.1 hp
            exact ⟨c, j, hm, he⟩
          · rintro ⟨c, j, hm, he⟩
            exact ⟨(j, word ++ [c]), List.mem_map.2 ⟨(c, j), hm, rfl⟩, he⟩
        have e1 : ∀ (rest' : List (Nat × List Char)), (∃ p, p ∈ st.gotos.map (fun (c, nxt) => (nxt, word ++ [c])) ++ rest' ∧ Enc states p.1 p.2 x) ↔
            (∃ c j, (c, j) ∈ st.gotos ∧ Enc states j (word ++ [c]) x) ∨ ∃ p, p ∈ rest' ∧ Enc states p.1 p.2 x := by
          intro rest'
          simp only [List.mem_append, or_and_right, exists_or]
          rw [← hchildren x]
        have e2 : (∃ p, p ∈ (idx, word) :: rest ∧ Enc states p.1 p.2 x) ↔
            Enc states idx word x ∨ ∃ p, p ∈ rest ∧ Enc states p.1 p.2 x := by
          simp only [List.mem_cons, or_and_right, exists_or, exists_eq_left]
        by_cases hb : st.isBranch = true
        · simp only [hb, if_true] at h
          cases ho : st.outputs with
          | nil => simp [ho] at h
          | cons o os =>
            simp only [ho] at h
            rw [ih _ _ _ h x, e1, e2, enc_unfold hst]
            simp only [List.mem_append, List.mem_singleton, hb, true_and, ho]
            constructor
            · rintro ((h1 | h1) | (h1 | h1))
              · exact Or.inl h1
              · exact Or.inr (Or.inl (Or.inl ⟨o, os, rfl, h1⟩))
              · exact Or.inr (Or.inl (Or.inr h1))
              · exact Or.inr (Or.inr h1)
            · rintro (h1 | ((⟨o', os', ho', h1⟩ | h1) | h1))
              · exact Or.inl (Or.inl h1)
              · cases ho'; exact Or.inl (Or.inr h1)
              · exact Or.inr (Or.inl h1)
              · exact Or.inr (Or.inr h1)
        · have hb' : st.isBranch = false := by simpa using hb
          simp only [hb', Bool.false_eq_true, if_false] at h
          rw [ih _ _ _ h x, e1, e2, enc_unfold hst]
          simp only [hb', Bool.false_eq_true, false_and, false_or]

/-- **C17_dump**: when the trie walk returns, it lists exactly the (word, entry) pairs the table encodes. -/
theorem dump_items_correct (states : List KState) (fuel : Nat) (res : List Item)
    (h : dump states fuel [(0, [])] [] = .ok res) : ∀ x, x ∈ res ↔ Enc states 0 [] x := by
  intro x; rw [dump_spec states fuel _ _ _ h x]; simp
#print axioms dump_items_correct
end Dump
