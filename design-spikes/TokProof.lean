import Spike.Tok
namespace Tok

def pushChar (s : PSt) (c : Char) : PSt :=
  { s with escape := false,
           bounds := if s.text = [] then s.bounds else s.bounds ++ [s.prevBoundary],
           prevBoundary := false, text := s.text ++ [c], tagsTmp := s.tagsTmp ++ [[]] }

def pushChars (s : PSt) : List Char → PSt
  | [] => s
  | c :: cs => pushChars (pushChar s c) cs

theorem run_append (s : PSt) (xs ys : List Char) :
    run s (xs ++ ys) = match run s xs with | .ok s' => run s' ys | e => e := by
  induction xs generalizing s with
  | nil => simp [run]
  | cons c cs ih =>
    simp only [List.cons_append, run]
    cases h : step s c <;> simp [ih]

/-- one surface character, escaped or not, in text mode -/
theorem step_plain (s : PSt) (c : Char) (he : s.escape = false) (ht : s.tagStr = none)
    (hs : special c = false) (h0 : c ≠ '\x00') : step s c = .ok (pushChar s c) := by
  simp only [special, Bool.or_eq_false_iff, decide_eq_false_iff_not] at hs
  obtain ⟨⟨h1, h2⟩, h3⟩ := hs
  simp [step, he, h1, h2, h3, h0, ht, pushChar]

theorem step_escaped (s : PSt) (c : Char) (he : s.escape = true) (ht : s.tagStr = none)
    (h0 : c ≠ '\x00') : step s c = .ok (pushChar s c) := by
  simp [step, he, h0, ht, pushChar]

theorem step_backslash (s : PSt) (he : s.escape = false) :
    step s '\\' = .ok { s with escape := true } := by
  simp [step, he]

theorem pushChar_escape_irrel (s : PSt) (c : Char) :
    pushChar { s with escape := true } c = pushChar s c := by
  simp [pushChar]

theorem run_esc_text (cs : List Char) : ∀ (s : PSt) (rest : List Char), s.escape = false → s.tagStr = none →
    (∀ c ∈ cs, c ≠ '\x00') → run s (esc cs ++ rest) = run (pushChars s cs) rest := by
  induction cs with
  | nil => intro s rest _ _ _; simp [esc, pushChars]
  | cons c cs ih =>
    intro s rest he ht h0
    have hc0 : c ≠ '\x00' := h0 c (by simp)
    have h0' : ∀ d ∈ cs, d ≠ '\x00' := fun d hd => h0 d (by simp [hd])
    simp only [esc, pushChars]
    by_cases hs : special c = true
    · simp only [hs, if_true, List.cons_append, run]
      rw [step_backslash s he]
      simp only []
      rw [step_escaped { s with escape := true } c rfl ht hc0, pushChar_escape_irrel]
      simp only []
      exact ih (pushChar s c) rest rfl (by simp [pushChar, ht]) h0'
    · have hs' : special c = false := by simpa using hs
      simp only [hs', Bool.false_eq_true, if_false, List.cons_append, run]
      rw [step_plain s c he ht hs' hc0]
      simp only []
      exact ih (pushChar s c) rest rfl (by simp [pushChar, ht]) h0'

/-- in tag mode every (escaped) character is appended to the current tag -/
theorem run_esc_tag (cs : List Char) : ∀ (s : PSt) (t rest : List Char), s.escape = false → s.tagStr = some t →
    (∀ c ∈ cs, c ≠ '\x00') → run s (esc cs ++ rest) = run { s with tagStr := some (t ++ cs) } rest := by
  induction cs with
  | nil => intro s t rest _ ht _; simp [esc, ← ht]
  | cons c cs ih =>
    intro s t rest he ht h0
    have hc0 : c ≠ '\x00' := h0 c (by simp)
    have h0' : ∀ d ∈ cs, d ≠ '\x00' := fun d hd => h0 d (by simp [hd])
    simp only [esc]
    by_cases hs : special c = true
    · simp only [hs, if_true, List.cons_append, run]
      rw [step_backslash s he]
      simp only []
      have : step { s with escape := true } c = .ok { s with tagStr := some (t ++ [c]) } := by
        simp [step, hc0, ht, he]
      rw [this]; simp only []
      rw [ih { s with tagStr := some (t ++ [c]) } (t ++ [c]) rest he rfl h0']
      simp
    · have hs' : special c = false := by simpa using hs
      simp only [special, Bool.or_eq_false_iff, decide_eq_false_iff_not] at hs'
      obtain ⟨⟨h1, h2⟩, h3⟩ := hs'
      simp only [special, h1, h2, h3, decide_false, Bool.or_false, Bool.false_eq_true, if_false,
        List.cons_append, run]
      have : step s c = .ok { s with tagStr := some (t ++ [c]) } := by
        simp [step, he, h1, h2, h3, hc0, ht]
      rw [this]; simp only []
      rw [ih { s with tagStr := some (t ++ [c]) } (t ++ [c]) rest he rfl h0']
      simp

#print axioms run_esc_text
#print axioms run_esc_tag
end Tok
