/-! Spike for C01_merge_correct: the Char/TypeWeightMerger.merge algorithm, mirrored. -/
namespace Merge
variable {α : Type} [DecidableEq α]

/-- non-empty proper suffixes, longest first (Rust: `for j in 1..len { &ngram[j..] }`) -/
def properSuffixes : List α → List (List α)
  | [] => []
  | _ :: t => match t with
    | [] => []
    | _ :: _ => t :: properSuffixes t

structure St (α : Type) where
  w : List α → Int
  done : List α → Bool

def upd {β} (f : List α → β) (k : List α) (v : β) : List α → β := fun x => if x = k then v else f x

/-- the inner `for j` loop: push every suffix that is a key, stop after the first visited one -/
def chainAux (keys : List (List α)) (st : St α) : List (List α) → List (List α)
  | [] => []
  | s :: rest => if s ∈ keys then (if st.done s then [s] else s :: chainAux keys st rest) else chainAux keys st rest

def chain (keys : List (List α)) (st : St α) (k : List α) : List (List α) :=
  k :: chainAux keys st (properSuffixes k)

/-- `while let Some(data_to) = stack.pop()`: to.w += from.w; to.done = true; from = to -/
def go (st : St α) (fromK : List α) : List (List α) → St α
  | [] => st
  | t :: rest =>
    let st' : St α := { w := upd st.w t (st.w t + st.w fromK), done := upd st.done t true }
    go st' t rest

def backprop (st : St α) : List (List α) → St α
  | [] => st
  | f :: rest => go { st with done := upd st.done f true } f rest

def step (keys : List (List α)) (st : St α) (k : List α) : St α :=
  if st.done k then st else backprop st (chain keys st k).reverse

def merge (keys : List (List α)) (w0 : List α → Int) : St α :=
  keys.foldl (step keys) { w := w0, done := fun _ => false }

/-- specification: sum of the original weights of all keys that are suffixes of `k` -/
def S (keys : List (List α)) (w0 : List α → Int) (k : List α) : Int :=
  ((keys.filter (fun q => q.isSuffixOf k)).map w0).sum

end Merge

open Merge in
#eval
  let keys := [[2,3],[1,2,3],[3],[9,1,2,3],[4]]
  let w0 : List Nat → Int := fun k => match k with | [2,3] => 10 | [1,2,3] => 100 | [3] => 1 | [9,1,2,3] => 1000 | [4] => 7 | _ => 0
  let st := merge keys w0
  (keys.map st.w, keys.map (S keys w0))
