/-! Spike for C02: `TokenIterator::next` mirrored (pinned, buggy) vs fixed, and the spec. -/
namespace Iter
inductive B | N | W | U deriving DecidableEq, Repr

/-- the `for (i, &b) in boundaries.iter().enumerate()` loop of `next`, Rust variables kept:
  `start0` = value of `token.end` on entry (the slice was taken there), `i` = loop index. -/
def loopPinned (n : Nat) (start0 : Nat) : List B → Nat → Nat → Bool → Option (Nat × Nat)
  | [], _, start, skip => if skip then none else some (start, n)
  | b :: rest, i, start, skip =>
    match b with
    | .W => if skip then loopPinned n start0 rest (i+1) (start + i + 1) false   -- `self.token.start += i + 1`
            else some (start, start0 + i + 1)                                    -- `self.token.end += i + 1`
    | .U => loopPinned n start0 rest (i+1) start true
    | .N => loopPinned n start0 rest (i+1) start skip

def loopFixed (n : Nat) (start0 : Nat) : List B → Nat → Nat → Bool → Option (Nat × Nat)
  | [], _, start, skip => if skip then none else some (start, n)
  | b :: rest, i, start, skip =>
    match b with
    | .W => if skip then loopFixed n start0 rest (i+1) (start0 + i + 1) false    -- fix: `start = end + i + 1`
            else some (start, start0 + i + 1)
    | .U => loopFixed n start0 rest (i+1) start true
    | .N => loopFixed n start0 rest (i+1) start skip

def tokensWith (loop : Nat → Nat → List B → Nat → Nat → Bool → Option (Nat × Nat)) (bs : List B) :
    Nat → Nat → List (Nat × Nat)
  | 0, _ => []
  | fuel+1, e =>
    if e ≤ bs.length then
      match loop (bs.length + 1) e (bs.drop e) 0 e false with
      | some (s, e') => (s, e') :: tokensWith loop bs fuel e'
      | none => []
    else []

def tokensPinned (bs : List B) := tokensWith loopPinned bs (bs.length + 2) 0
def tokensFixed (bs : List B) := tokensWith loopFixed bs (bs.length + 2) 0

/-- spec: maximal W-delimited segments without an inner U -/
def spec : List B → Nat → Nat → Bool → List (Nat × Nat)
  | [], start, pos, dirty => if dirty then [] else [(start, pos + 1)]
  | .W :: r, start, pos, dirty => (if dirty then [] else [(start, pos + 1)]) ++ spec r (pos + 1) (pos + 1) false
  | .U :: r, start, pos, _ => spec r start (pos + 1) true
  | .N :: r, start, pos, dirty => spec r start (pos + 1) dirty
def specTokens (bs : List B) := spec bs 0 0 false

open B in
/-- the pinned iterator is wrong on two consecutive segments containing `U` ("a b|c d|e") -/
theorem pinned_counterexample : tokensPinned [U, W, U, W] ≠ specTokens [U, W, U, W] := by decide
open B in
example : tokensPinned [U, W, U, W] = [(6, 5)] := by decide   -- start > end: `surface()` slices out of range
open B in
example : tokensFixed [U, W, U, W] = [(4, 5)] ∧ specTokens [U, W, U, W] = [(4, 5)] := by decide
end Iter
