/-! Spike for C01_addScore_*: `PositionalWeight::add_score` on the padded buffer, both layouts. -/
namespace AddScore

inductive R (α : Type) | ok (a : α) | panic

/-- `for (y, x) in ys.iter_mut().zip(w) { *y += *x }` -/
def zipAdd : List Int → List Int → List Int
  | [], _ => []
  | ys, [] => ys
  | y :: ys, x :: xs => (y + x) :: zipAdd ys xs

def getZ (w : List Int) (i : Int) : Int := if 0 ≤ i then w.getD i.toNat 0 else 0

theorem zipAdd_length (ys w : List Int) : (zipAdd ys w).length = ys.length := by
  induction ys generalizing w with
  | nil => simp [zipAdd]
  | cons y ys ih => cases w <;> simp [zipAdd, ih]

theorem zipAdd_getD (ys w : List Int) (j : Nat) (hj : j < ys.length) :
    (zipAdd ys w).getD j 0 = ys.getD j 0 + w.getD j 0 := by
  induction ys generalizing w j with
  | nil => simp at hj
  | cons y ys ih =>
    cases w with
    | nil => simp [zipAdd]
    | cons x xs =>
      cases j with
      | zero => simp [zipAdd]
      | succ j => simp only [zipAdd, List.getD_cons_succ]; exact ih xs j (by simpa using hj)

/-- `ys[start..]` zipped with `w` -/
def addAt (ys : List Int) (start : Nat) (w : List Int) : List Int := ys.take start ++ zipAdd (ys.drop start) w

theorem addAt_length (ys : List Int) (start : Nat) (w : List Int) (h : start ≤ ys.length) :
    (addAt ys start w).length = ys.length := by
  simp [addAt, zipAdd_length]; omega

theorem addAt_getD (ys : List Int) (start : Nat) (w : List Int) (h : start ≤ ys.length) (j : Nat) (hj : j < ys.length) :
    (addAt ys start w).getD j 0 = ys.getD j 0 + getZ w ((j : Int) - start) := by
  unfold addAt
  have hl : (ys.take start).length = start := by simp; omega
  by_cases hlt : j < start
  · have h1 : j < (ys.take start).length := by omega
    have : ¬ (0 : Int) ≤ (j : Int) - start := by omega
    have hnot : ¬ start ≤ j := by omega
    simp [getZ, List.getD_eq_getElem?_getD, List.getElem?_append_left h1, hlt, hnot]
  · have h1 : (ys.take start).length ≤ j := by omega
    have h0 : (0 : Int) ≤ (j : Int) - start := by omega
    have ht : ((j : Int) - start).toNat = j - start := by omega
    have hz := zipAdd_getD (ys.drop start) w (j - start) (by simp; omega)
    simp only [List.getD_eq_getElem?_getD] at hz ⊢
    rw [List.getElem?_append_right h1, hl, hz]
    simp only [getZ, h0, if_true, ht, List.getElem?_drop, List.getD_eq_getElem?_getD]
    congr 3; omega

/-- Variable layout -/
def addVar (ys : List Int) (pos : Int) (w : List Int) : R (List Int) :=
  if 0 ≤ pos then
    if pos.toNat ≤ ys.length then .ok (addAt ys pos.toNat w) else .panic      -- `ys[pos as usize..]`
  else if (-pos).toNat ≤ w.length then .ok (addAt ys 0 (w.drop (-pos).toNat))  -- `w.get((-pos) as usize..)`
  else .ok ys

/-- Fixed layout: `ys[pos as usize..pos as usize + 8]` -/
def addFixed (ys : List Int) (pos : Int) (w8 : List Int) : R (List Int) :=
  if 0 ≤ pos ∧ pos.toNat + 8 ≤ ys.length then .ok (addAt ys pos.toNat w8) else .panic

theorem addVar_spec (ys : List Int) (pos : Int) (w : List Int) (hp : pos ≤ ys.length) :
    ∃ r, addVar ys pos w = .ok r ∧ r.length = ys.length ∧
      ∀ j, j < ys.length → r.getD j 0 = ys.getD j 0 + getZ w ((j : Int) - pos) := by
  unfold addVar
  by_cases h0 : 0 ≤ pos
  · have h1 : pos.toNat ≤ ys.length := by omega
    simp only [h0, h1, if_true]
    refine ⟨_, rfl, addAt_length _ _ _ h1, fun j hj => ?_⟩
    rw [addAt_getD _ _ _ h1 j hj]; congr 2; omega
  · simp only [h0, if_false]
    by_cases h2 : (-pos).toNat ≤ w.length
    · simp only [h2, if_true]
      refine ⟨_, rfl, addAt_length _ _ _ (by omega), fun j hj => ?_⟩
      rw [addAt_getD _ _ _ (by omega) j hj]
      have hk : (0 : Int) ≤ (j : Int) - pos := by omega
      have hk0 : (0 : Int) ≤ (j : Int) - (0 : Nat) := by omega
      simp only [getZ, hk, hk0, if_true, List.getD_eq_getElem?_getD, List.getElem?_drop]
      congr 3; omega
    · simp only [h2, if_false]
      refine ⟨_, rfl, rfl, fun j hj => ?_⟩
      have hk : (0 : Int) ≤ (j : Int) - pos := by omega
      have : w.length ≤ ((j : Int) - pos).toNat := by omega
      simp [getZ, hk, List.getD_eq_getElem?_getD, List.getElem?_eq_none this]

#print axioms addVar_spec
end AddScore
