import VModel.Spec
import VProofs.Lemmas.MergeCorrect
import VProofs.Lemmas.ScorePredict
import VProofs.Lemmas.ScoreOverwrite
import VProofs.Lemmas.ScoreLocal
import VProofs.Lemmas.ScoreWindow0
import VProofs.Lemmas.ScoreBoundMain
import VProofs.Lemmas.ScoreOverwrite0
import VProofs.Lemmas.ScoreLocal0
/-!
# C01 — Boundary scores and decisions equal the pointwise linear model

Property theorems only (helper lemmas live in `VProofs/Lemmas/`).
-/
namespace V

/-- the models C01 quantifies over: window sizes 1..255; unique n-grams of length `1 ≤ ℓ ≤ 2·window` with one weight per
covered position (`2·window − ℓ + 1`); type codes in 1..6; unique dictionary words with one weight per boundary of the
word (`ℓ + 1`; the code rejects words longer than 32767 characters with an error) -/
structure WFModel (m : WModel) : Prop where
  charW_pos : 1 ≤ m.charW
  charW_le : m.charW ≤ 255
  typeW_pos : 1 ≤ m.typeW
  typeW_le : m.typeW ≤ 255
  char_nodup : (m.charNgrams.map (·.ngram)).Nodup
  char_shape : ∀ d ∈ m.charNgrams, 1 ≤ d.ngram.length ∧ d.ngram.length ≤ 2 * m.charW ∧
    d.weights.length = 2 * m.charW - d.ngram.length + 1
  type_nodup : (m.typeNgrams.map (·.ngram)).Nodup
  type_shape : ∀ d ∈ m.typeNgrams, 1 ≤ d.ngram.length ∧ d.ngram.length ≤ 2 * m.typeW ∧
    d.weights.length = 2 * m.typeW - d.ngram.length + 1 ∧ ∀ t ∈ d.ngram, 1 ≤ t ∧ t ≤ 6
  dict_nodup : (m.dict.map (·.word)).Nodup
  dict_shape : ∀ d ∈ m.dict, 1 ≤ d.word.length ∧ d.word.length ≤ 32767 ∧ d.weights.length = d.word.length + 1

/-- a sentence as the constructors leave it for a non-empty text (any labels, any tags, any earlier scores) -/
structure SentOK (s : Sentence) : Prop where
  text_ne : s.text ≠ []
  types_eq : s.types = typesOf s.text
  bounds_len : s.bounds.length + 1 = s.text.length

/-- `+=` on positional weights adds the functions they denote (covers every offset/length case at once) -/
theorem C01_addAssign_denote (a b : PW) (x : Int) : (a.add b).denote x = a.denote x + b.denote x :=
  C01L.PW_add_denote a b x

/-- `add_score`, both layouts: when the start position satisfies the bounds the layout needs, the call does not panic,
keeps the buffer length and adds to every buffer slot `j` exactly the weight's value at relative position `j − end` -/
theorem C01_addScore (cfg : Cfg) (pw : PW) (endPos : Int) (ys : List Int)
    (hvar : endPos + pw.offset ≤ ys.length)
    (hfix : cfg.fixed = true → pw.weight.length ≤ fixedLen →
      0 ≤ endPos + pw.offset ∧ endPos + pw.offset + fixedLen ≤ ys.length) :
    ∃ r, (pw.toPWV cfg).addScore endPos ys = .ok r ∧ r.length = ys.length ∧
      ∀ j, j < ys.length → r.getD j 0 = ys.getD j 0 + pw.denote ((j : Int) - endPos) :=
  C01L.addScore_ok cfg pw endPos ys hvar hfix

/-- the merged weight of every pattern denotes the sum of the original weights of all patterns that are suffixes of it -/
theorem C01_merge_correct {α : Type} [DecidableEq α] (entries : List (List α × PW))
    (hnd : (entries.map Prod.fst).Nodup) (hne : [] ∉ entries.map Prod.fst) (x : Int) :
    ∀ k ∈ entries.map Prod.fst,
      (Merge.lookupD ⟨0, []⟩ (Merge.mergeEntries PW.add ⟨0, []⟩ entries) k).denote x
        = ((entries.filter (fun e => e.1.isSuffixOf k)).map (fun e => e.2.denote x)).sum := fun k hk =>
  (Merge.mergeEntries_correct PW.add ⟨0, []⟩ (fun pw => pw.denote x) (fun _ _ => True)
    (fun _ _ _ _ _ _ _ => trivial) (fun _ _ a b _ _ _ => C01_addAssign_denote a b x) entries hnd hne
    (fun _ _ => trivial) k hk).2

set_option linter.unusedVariables false in
/-- the type-score cache: every visible boundary receives exactly the type n-gram part of the specification -/
theorem C01_cache_correct (m : WModel) (hm : WFModel m) (hw : m.typeW ≤ 3) (types : List Nat)
    (ht : ∀ t ∈ types, 1 ≤ t ∧ t ≤ 6) (hne : types ≠ []) (buf : List Int)
    (hbuf : buf.length = padding * 2 + types.length - 1) :
    ∃ r, cacheAddScores m.typeNgrams m.typeW types (types.length - 1) buf = .ok r ∧ r.length = buf.length ∧
      ∀ b, b < types.length - 1 →
        r.getD (padding + b) 0 = buf.getD (padding + b) 0 + ngramScore m.typeW m.typeNgrams types b :=
  C01L.cache_correct m.typeNgrams m.typeW types hm.type_shape ht (types.length - 1) buf
    (by rw [hbuf, C01L.padding_eq]; omega)

/-- **main theorem**: for every well-formed model, every build configuration, every predictor built from it (with or
without tag prediction) and every sentence over a non-empty text, `predict` does not panic, the reported scores equal
the pointwise linear model, a boundary is `W` exactly when its score is strictly positive and `N` otherwise
(whatever labels the sentence had before; no `U` remains), and nothing else observable changes -/
theorem C01_scores (cfg : Cfg) (m : WModel) (hm : WFModel m) (pt : Bool) (p : Predictor)
    (hp : Predictor.new cfg m pt = .ok p) (s : Sentence) (hs : SentOK s) (pid : Nat) :
    ∃ s', p.predict pid s = .ok s' ∧
      s'.boundaryScores = .ok (specScores m s.text) ∧
      s'.bounds = specBounds m s.text ∧
      s'.text = s.text ∧ s'.types = s.types ∧ s'.tags = s.tags ∧ s'.nTags = s.nTags ∧ s'.pred = some pid :=
  C01L.predict_correct cfg m hm.charW_pos hm.char_shape hm.typeW_pos hm.type_shape
    (fun d hd => (hm.dict_shape d hd).1) pt p hp s hs.text_ne hs.types_eq hs.bounds_len pid

/-- prediction leaves no boundary unknown -/
theorem C01_no_unknown (cfg : Cfg) (m : WModel) (hm : WFModel m) (pt : Bool) (p : Predictor)
    (hp : Predictor.new cfg m pt = .ok p) (s s' : Sentence) (hs : SentOK s) (pid : Nat)
    (h : p.predict pid s = .ok s') : ∀ b ∈ s'.bounds, b ≠ B.U := by
  obtain ⟨s'', h1, _, h2, _⟩ := C01_scores cfg m hm pt p hp s hs pid
  rw [h1] at h
  simp only [Res.ok.injEq] at h
  subst h
  intro b hb
  rw [h2] at hb
  unfold specBounds at hb
  obtain ⟨x, _, hx⟩ := List.mem_map.mp hb
  rw [← hx]
  split <;> simp

/-- a prediction overwrites whatever an earlier prediction left in the sentence: predicting with `p` a sentence `s1` that
any predictor `q` has already predicted gives the sentence that `p` produces from the fresh one in every field except possibly
the two automaton-state vectors — scores (the whole padded buffer), padding, labels, text, types, tags, tag scores, number
of tags and predictor id are equal.  A state vector is equal as well whenever `p` writes it (`writesCharStates` /
`writesTypeStates`: the state-recording scorers and the cached type scorer); otherwise `p` hands through the vector it
found, so the two results carry what `s1` and `s` carried.  (Remark, not part of the statement: a vector that `p` does not
write is one that `p`'s own tag prediction does not read — in `tagToken` the plain and the cached scorers refuse
`add_tag_scores` with "unsupported" before looking at the states, and a missing scorer is skipped.) -/
theorem C01_predict_overwrites_fields (cfg : Cfg) (m : WModel) (hm : WFModel m) (pt : Bool) (p q : Predictor)
    (hp : Predictor.new cfg m pt = .ok p) (s s1 : Sentence) (hs : SentOK s) (pid qid : Nat)
    (h1 : q.predict qid s = .ok s1) :
    ∃ r r1, p.predict pid s = .ok r ∧ p.predict pid s1 = .ok r1 ∧
      r1 = { r with cstates := r1.cstates, tstates := r1.tstates } ∧
      (p.writesCharStates = true → r1.cstates = r.cstates) ∧
      (p.writesCharStates = false → r.cstates = s.cstates ∧ r1.cstates = s1.cstates) ∧
      (p.writesTypeStates = true → r1.tstates = r.tstates) ∧
      (p.writesTypeStates = false → r.tstates = s.tstates ∧ r1.tstates = s1.tstates) :=
  C01O.predict_overwrites_fields cfg m hm.charW_pos hm.char_shape hm.typeW_pos hm.type_shape
    (fun d hd => (hm.dict_shape d hd).1) pt p hp q s s1 hs.text_ne hs.types_eq hs.bounds_len pid qid h1

/-- the same as an equality of results (all fields, state vectors included) when `p` writes every state vector that `q`
wrote.  Without that hypothesis the equality fails: see the counterexample below. -/
theorem C01_predict_overwrites (cfg : Cfg) (m : WModel) (hm : WFModel m) (pt : Bool) (p q : Predictor)
    (hp : Predictor.new cfg m pt = .ok p)
    (hwc : q.writesCharStates = true → p.writesCharStates = true)
    (hwt : q.writesTypeStates = true → p.writesTypeStates = true)
    (s s1 : Sentence) (hs : SentOK s) (pid qid : Nat) (h1 : q.predict qid s = .ok s1) :
    p.predict pid s1 = p.predict pid s :=
  C01O.predict_overwrites_eq cfg m hm.charW_pos hm.char_shape hm.typeW_pos hm.type_shape
    (fun d hd => (hm.dict_shape d hd).1) pt p hp q hwc hwt s s1 hs.text_ne hs.types_eq hs.bounds_len pid qid h1

/-- in particular predicting again with the same predictor is the same as predicting once -/
theorem C01_predict_twice (cfg : Cfg) (m : WModel) (hm : WFModel m) (pt : Bool) (p : Predictor)
    (hp : Predictor.new cfg m pt = .ok p) (s s1 : Sentence) (hs : SentOK s) (pid pid' : Nat)
    (h1 : p.predict pid s = .ok s1) : p.predict pid' s1 = p.predict pid' s :=
  C01_predict_overwrites cfg m hm pt p p hp id id s s1 hs pid' pid h1

/-- which predictors write the state vectors, in terms of how they were built: the character states only with tag
prediction on a model that has tag models; the type states in that case or with the cached type scorer -/
theorem C01_states_written (cfg : Cfg) (m : WModel) (pt : Bool) (p : Predictor) (hp : Predictor.new cfg m pt = .ok p) :
    (p.writesCharStates = true → pt = true ∧ cfg.tagPred = true ∧ m.tagModels ≠ []) ∧
    (p.writesTypeStates = true →
      (pt = true ∧ cfg.tagPred = true ∧ m.tagModels ≠ []) ∨ (cfg.cache = true ∧ m.typeW ≤ 3)) :=
  C01O.new_writes cfg m pt p hp

/-- locality of the linear model: the score of a boundary depends only on the `R` characters on either side of it, where `R`
bounds both windows and the length of every dictionary word — whatever precedes and follows that stretch of text, and however
long the text is.  (With `C01_scores` the same holds for the predictor's scores and decisions.) -/
theorem C01_score_local (m : WModel) (hm : WFModel m) (R : Nat)
    (hc : m.charW ≤ R) (ht : m.typeW ≤ R) (hd : ∀ d ∈ m.dict, d.word.length ≤ R)
    (pre pre' mid post post' : List Char) (k : Nat) (hk1 : R ≤ k + 1) (hk2 : k + 1 + R ≤ mid.length) :
    specScore m (pre ++ mid ++ post) (pre.length + k) = specScore m (pre' ++ mid ++ post') (pre'.length + k) :=
  have hts := fun d h => ⟨(hm.type_shape d h).1, (hm.type_shape d h).2.1, (hm.type_shape d h).2.2.1⟩
  have hds := fun d h => ⟨(hm.dict_shape d h).1, (hm.dict_shape d h).2.2⟩
  (C01Loc.specScore_local m hm.char_shape hts hds R hc ht hd pre mid post k hk1 hk2).trans
    (C01Loc.specScore_local m hm.char_shape hts hds R hc ht hd pre' mid post' k hk1 hk2).symm

/-! ## non-vacuity: a concrete well-formed model (with a tag model, so that both the plain and the tag-aware scorers are
built) and a sentence satisfying the hypotheses of `C01_scores` -/

def C01_exModel : WModel :=
  { charNgrams := [⟨['a'], [1, -2]⟩, ⟨['a', 'b'], [5]⟩], typeNgrams := [⟨[2], [3, 4]⟩, ⟨[2, 2], [-1]⟩],
    dict := [⟨['a', 'b'], [1, 2, 3], []⟩], bias := -10, charW := 1, typeW := 1,
    tagModels := [{ token := ['a'], tags := [[['x'], ['y']]], charNgrams := [⟨['b', 'a'], [⟨0, [1, 2]⟩]⟩],
                    typeNgrams := [⟨[2], [⟨1, [0, 1]⟩]⟩], bias := [0, 0] }] }

def C01_exSentence : Sentence :=
  { Sentence.default with text := ['a', 'b', 'a'], types := typesOf ['a', 'b', 'a'], bounds := [B.U, B.U] }

example : WFModel C01_exModel :=
  { charW_pos := by decide, charW_le := by decide, typeW_pos := by decide, typeW_le := by decide,
    char_nodup := by decide, char_shape := by decide, type_nodup := by decide, type_shape := by decide,
    dict_nodup := by decide, dict_shape := by decide }

example : SentOK C01_exSentence := ⟨by decide, rfl, rfl⟩

/-- fixed layout + cache, no tags; variable layout, no cache; tag-aware scorers -/
example : (Predictor.new {} C01_exModel false).isOk = true := by decide
example : (Predictor.new { fixed := false, cache := false, tagPred := false } C01_exModel false).isOk = true := by decide
example : (Predictor.new {} C01_exModel true).isOk = true := by decide

example : specScores C01_exModel C01_exSentence.text = [1, 0] := by decide

/-- non-vacuity of `C01_score_local`: `R = 2` bounds both windows (1) and the dictionary word (2 characters); in
`mid = "abab"` the boundary `k = 1` has `R` characters on either side (both side conditions hold with equality) -/
example : C01_exModel.charW ≤ 2 ∧ C01_exModel.typeW ≤ 2 ∧ (∀ d ∈ C01_exModel.dict, d.word.length ≤ 2) ∧
    2 ≤ 1 + 1 ∧ 1 + 1 + 2 ≤ ['a', 'b', 'a', 'b'].length := by decide
example : specScore C01_exModel (['b', 'a'] ++ ['a', 'b', 'a', 'b'] ++ ['a']) (2 + 1) = 1 ∧
    specScore C01_exModel ([] ++ ['a', 'b', 'a', 'b'] ++ ['b', 'b']) (0 + 1) = 1 := by decide
/-- one character fewer on the right (`k + 1 + R = mid.length + 1`) and the conclusion fails -/
example : specScore C01_exModel ([] ++ ['a', 'b', 'a'] ++ ['b']) (0 + 1)
    ≠ specScore C01_exModel ([] ++ ['a', 'b', 'a'] ++ ['a']) (0 + 1) := by decide
/-- one character fewer on the left (`k + 1 = R - 1`) and the conclusion fails -/
example : specScore C01_exModel (['a'] ++ ['b', 'a', 'b'] ++ []) (1 + 0)
    ≠ specScore C01_exModel (['b'] ++ ['b', 'a', 'b'] ++ []) (1 + 0) := by decide
example : specBounds C01_exModel C01_exSentence.text = [B.W, B.N] := by decide

/-! ## non-vacuity of `C01_predict_overwrites` and the counterexample to the unconditional equality -/

/-- the predictors of the three configurations above, and the sentence after a first prediction -/
def C01_exPredict (cfg : Cfg) (pt : Bool) (pid : Nat) (s : Sentence) : Res Sentence :=
  match Predictor.new cfg C01_exModel pt with
  | .ok p => p.predict pid s
  | .err e => .err e
  | .panic x => .panic x
  | .ub x => .ub x

def C01_exWrites (cfg : Cfg) (pt : Bool) : Option (Bool × Bool) :=
  match Predictor.new cfg C01_exModel pt with
  | .ok p => some (p.writesCharStates, p.writesTypeStates)
  | _ => none

/-- the first prediction succeeds (hypothesis `h1`), for a tag-aware and for a plain `q` -/
example : (C01_exPredict {} true 7 C01_exSentence).isOk = true := by decide
example : (C01_exPredict {} false 7 C01_exSentence).isOk = true := by decide

/-- tag-aware: both vectors written; fixed + cache: the type vector only; variable layout without cache: neither.  So the
hypotheses `hwc`, `hwt` hold e.g. for `p` tag-aware and any `q`, for `p = q`, and for a plain `q` without cache and any `p` -/
example : C01_exWrites {} true = some (true, true) := by decide
example : C01_exWrites {} false = some (false, true) := by decide
example : C01_exWrites { fixed := false, cache := false, tagPred := false } false = some (false, false) := by decide

/-- the conclusion on the example: `q` plain and cached, `p` tag-aware -/
example : (C01_exPredict {} false 7 C01_exSentence).bind (C01_exPredict {} true 3)
    = C01_exPredict {} true 3 C01_exSentence := by decide

/-- **counterexample** to the equality without `hwc`: `q` tag-aware leaves `char_pma_states = [0, 1, 2]` in the sentence,
the plain `p` hands them through, whereas from the fresh sentence it hands through `[]` -/
example : (C01_exPredict {} true 7 C01_exSentence).bind (C01_exPredict {} false 3)
    ≠ C01_exPredict {} false 3 C01_exSentence := by decide
example : ((C01_exPredict {} true 7 C01_exSentence).bind (C01_exPredict {} false 3)).map (·.cstates)
    = .ok [some 0, some 1, some 2] := by decide
example : (C01_exPredict {} false 3 C01_exSentence).map (·.cstates) = .ok [] := by decide

/-! ## window size 0: a kind of n-gram whose window is 0 is switched off

`CharScorer::new` / `TypeScorer::new` ignore the n-grams of a kind whose window size is 0 (dictionary words and tag n-grams
still count).  The theorems above require both windows to be at least 1; the ones below cover 0 as well. -/

/-- `WFModel` with windows 0..255: the requirements on the n-grams of a kind apply only when that kind's window is at least 1
(with window 0 the list is ignored by the predictor, so it is arbitrary); the dictionary requirements are unchanged -/
structure WFModel0 (m : WModel) : Prop where
  charW_le : m.charW ≤ 255
  typeW_le : m.typeW ≤ 255
  char_nodup : 1 ≤ m.charW → (m.charNgrams.map (·.ngram)).Nodup
  char_shape : 1 ≤ m.charW → ∀ d ∈ m.charNgrams, 1 ≤ d.ngram.length ∧ d.ngram.length ≤ 2 * m.charW ∧
    d.weights.length = 2 * m.charW - d.ngram.length + 1
  type_nodup : 1 ≤ m.typeW → (m.typeNgrams.map (·.ngram)).Nodup
  type_shape : 1 ≤ m.typeW → ∀ d ∈ m.typeNgrams, 1 ≤ d.ngram.length ∧ d.ngram.length ≤ 2 * m.typeW ∧
    d.weights.length = 2 * m.typeW - d.ngram.length + 1 ∧ ∀ t ∈ d.ngram, 1 ≤ t ∧ t ≤ 6
  dict_nodup : (m.dict.map (·.word)).Nodup
  dict_shape : ∀ d ∈ m.dict, 1 ≤ d.word.length ∧ d.word.length ≤ 32767 ∧ d.weights.length = d.word.length + 1

/-- the model with the n-grams of every switched-off kind (window 0) removed; everything else, the windows included, is kept -/
def dropW0 (m : WModel) : WModel :=
  { m with charNgrams := if m.charW = 0 then [] else m.charNgrams,
           typeNgrams := if m.typeW = 0 then [] else m.typeNgrams }

/-- `WFModel0` extends `WFModel` … -/
theorem WFModel.toWFModel0 {m : WModel} (hm : WFModel m) : WFModel0 m :=
  { charW_le := hm.charW_le, typeW_le := hm.typeW_le, char_nodup := fun _ => hm.char_nodup,
    char_shape := fun _ => hm.char_shape, type_nodup := fun _ => hm.type_nodup, type_shape := fun _ => hm.type_shape,
    dict_nodup := hm.dict_nodup, dict_shape := hm.dict_shape }

/-- … and coincides with it when both windows are at least 1, where `dropW0` is the identity -/
theorem WFModel0.toWFModel {m : WModel} (hm : WFModel0 m) (hc : 1 ≤ m.charW) (ht : 1 ≤ m.typeW) : WFModel m :=
  { charW_pos := hc, charW_le := hm.charW_le, typeW_pos := ht, typeW_le := hm.typeW_le, char_nodup := hm.char_nodup hc,
    char_shape := hm.char_shape hc, type_nodup := hm.type_nodup ht, type_shape := hm.type_shape ht,
    dict_nodup := hm.dict_nodup, dict_shape := hm.dict_shape }

theorem dropW0_of_pos (m : WModel) (hc : 1 ≤ m.charW) (ht : 1 ≤ m.typeW) : dropW0 m = m := by
  unfold dropW0
  rw [if_neg (by omega), if_neg (by omega)]

/-- `dropW0` is also the identity on models that have no n-grams of a switched-off kind (e.g. the models training returns) -/
theorem dropW0_of_empty (m : WModel) (hc : m.charW = 0 → m.charNgrams = []) (ht : m.typeW = 0 → m.typeNgrams = []) :
    dropW0 m = m := by
  have h1 : (if m.charW = 0 then [] else m.charNgrams) = m.charNgrams := by
    split
    · rename_i h; exact (hc h).symm
    · rfl
  have h2 : (if m.typeW = 0 then [] else m.typeNgrams) = m.typeNgrams := by
    split
    · rename_i h; exact (ht h).symm
    · rfl
  unfold dropW0
  rw [h1, h2]

/-- **main theorem, windows 0..255**: as `C01_scores`, for every model that is well-formed up to the n-grams of switched-off
kinds; the specification is the pointwise linear model of `dropW0 m`, i.e. the n-grams of a kind with window 0 contribute
nothing, whatever they are, while the dictionary and the other kind count as before (with or without tag prediction) -/
theorem C01_scores_window0 (cfg : Cfg) (m : WModel) (hm : WFModel0 m) (pt : Bool) (p : Predictor)
    (hp : Predictor.new cfg m pt = .ok p) (s : Sentence) (hs : SentOK s) (pid : Nat) :
    ∃ s', p.predict pid s = .ok s' ∧
      s'.boundaryScores = .ok (specScores (dropW0 m) s.text) ∧
      s'.bounds = specBounds (dropW0 m) s.text ∧
      s'.text = s.text ∧ s'.types = s.types ∧ s'.tags = s.tags ∧ s'.nTags = s.nTags ∧ s'.pred = some pid :=
  C01L.predict_correct0 cfg m hm.char_shape hm.type_shape (fun d hd => (hm.dict_shape d hd).1) pt p hp s hs.text_ne
    hs.types_eq hs.bounds_len pid

/-! ### non-vacuity: character window 0 with (ill-shaped, repeated) character n-grams that must be ignored, a type n-gram,
a dictionary word and a tag model with character and type tag n-grams -/

def C01_exModel0 : WModel :=
  { charNgrams := [⟨['a'], [1000, -2000, 5]⟩, ⟨[], []⟩, ⟨['a'], [7]⟩], typeNgrams := [⟨[2], [3, 4]⟩, ⟨[2, 2], [-1]⟩],
    dict := [⟨['a', 'b'], [1, 2, 3], []⟩], bias := -8, charW := 0, typeW := 1,
    tagModels := [{ token := ['a'], tags := [[['x'], ['y']]], charNgrams := [⟨['b', 'a'], [⟨0, [1, 2]⟩]⟩],
                    typeNgrams := [⟨[2], [⟨1, [0, 1]⟩]⟩], bias := [0, 0] }] }

example : WFModel0 C01_exModel0 :=
  { charW_le := by decide, typeW_le := by decide, char_nodup := by decide, char_shape := by decide,
    type_nodup := by decide, type_shape := by decide, dict_nodup := by decide, dict_shape := by decide }

/-- it is not a `WFModel`, and its character n-grams are indeed dropped -/
example : ¬ WFModel C01_exModel0 := fun h => absurd h.charW_pos (by decide)
example : (dropW0 C01_exModel0).charNgrams = [] ∧ (dropW0 C01_exModel0).typeNgrams = C01_exModel0.typeNgrams ∧
    (dropW0 C01_exModel0).dict = C01_exModel0.dict := by decide

def C01_exPredict0 (cfg : Cfg) (pt : Bool) (pid : Nat) (s : Sentence) : Res Sentence :=
  match Predictor.new cfg C01_exModel0 pt with
  | .ok p => p.predict pid s
  | .err e => .err e
  | .panic x => .panic x
  | .ub x => .ub x

/-- the predictor is built in the three configurations (fixed layout + cache, variable layout without cache, tag-aware
scorers), and on `aba` it reports the numbers of the specification: bias −8, type n-grams `[2]` (3 + 4 at either boundary)
and `[2, 2]` (−1 at either boundary), dictionary word `ab` (2 inside, 3 at its right end); a score of 0 is not a boundary -/
example : specScores (dropW0 C01_exModel0) C01_exSentence.text = [0, 1] := by decide
example : specBounds (dropW0 C01_exModel0) C01_exSentence.text = [B.N, B.W] := by decide
example : (C01_exPredict0 {} false 7 C01_exSentence).bind (·.boundaryScores) = .ok [0, 1] := by decide
example : (C01_exPredict0 { fixed := false, cache := false, tagPred := false } false 7 C01_exSentence).bind
    (·.boundaryScores) = .ok [0, 1] := by decide

/-! ## no `i32` overflow under a bound on the weights of the model

In the model the `i32` scores and weights of the Rust code are unbounded integers.  The theorems of this section show that
every value which `Predictor::new` and `Predictor::predict` hold in an `i32` variable for boundary scores (tag scores are not
covered) is at most the **mass** of the model in absolute value — `WModel.mass`: `|bias|` plus `absSum` (the sum of the absolute
values) of the weights of all character n-grams, type n-grams and dictionary words, taken on `dropW0 m`, i.e. without the
n-grams of a kind whose window is 0.  So for a model whose mass is below `2^31` the unbounded model and `i32` arithmetic
coincide on every `+` performed (`C01_no_overflow`), and the bound `2^31 − 1` on the mass cannot be improved (examples below).

Definitions used (in `VProofs/Lemmas/ScoreBound*.lean`): `absSum`, `ngramMass`, `dictMass`, `WModel.mass`, `I32`;
`charEntries` / `charEntriesT` / `typeEntries` / `typeEntriesT` (the entries the constructors feed to the weight merger),
`BuiltFrom`, `cacheTerms`, `cacheAdds`, `pmaStates0`; `PmaScorer.weightsIn`, `MergerIn`, `BuildWithin`, `RunWithin`
(the collections of values, parametrised by a test `P : Int → Bool`); `Merge.addC`, `Merge.liftE`, `C01B.okW` (the checked `+=`). -/

/-- the test "at most `M` in absolute value" -/
def within (M : Nat) (x : Int) : Bool := decide (x.natAbs ≤ M)

/-- the test "in the range of `i32`" -/
def inI32 (x : Int) : Bool := decide (I32 x)

theorem within_iff (M : Nat) (x : Int) : within M x = true ↔ x.natAbs ≤ M := by simp [within]
theorem inI32_iff (x : Int) : inI32 x = true ↔ I32 x := by simp [inI32]

theorem dropW0_isDrop (m : WModel) : C01B.IsDropW0 m (dropW0 m) := ⟨rfl, rfl, rfl, rfl, rfl, rfl⟩

/-- the mass of `dropW0 m` spelled out -/
theorem C01_mass_window0 (m : WModel) :
    (dropW0 m).mass = m.bias.natAbs + ngramMass (if m.charW = 0 then [] else m.charNgrams)
      + ngramMass (if m.typeW = 0 then [] else m.typeNgrams) + dictMass m.dict := rfl

/-- **1. the specification**: for EVERY model (no well-formedness needed), every text and every boundary the score of the
pointwise linear model is at most the mass of the model in absolute value.  Reason: the occurrences of one entry end at
different positions, hence read its weight vector at different indices, so for one boundary each weight is counted at most once.
Rust: the final value of `sentence.boundary_scores[score_padding + b]` (by `C01_scores` / `C01_scores_window0`). -/
theorem C01_spec_bounded (m : WModel) (text : List Char) (b : Nat) : (specScore m text b).natAbs ≤ m.mass :=
  C01B.specScore_natAbs_le m text b

/-- … in particular for the model the predictor realises when windows may be 0 (`C01_scores_window0`) -/
theorem C01_spec_bounded_window0 (m : WModel) (text : List Char) (b : Nat) :
    (specScore (dropW0 m) text b).natAbs ≤ (dropW0 m).mass :=
  C01_spec_bounded (dropW0 m) text b

/-- **2. construction**: for every model from which `Predictor.new` succeeds (no well-formedness needed), with
`M = (dropW0 m).mass`, see `BuildWithin`:
* every coordinate of every merged weight stored in the character scorer and in the pattern-matching type scorer (field
  `weights` of `CharScorerBoundary[Tag]` / `TypeScorerBoundary[Tag]`, zero padding of the fixed layout included) is within `M`;
* each of these scorers is built from the entry list `charEntries (dropW0 m)` etc., and running both phases of the weight merger
  on that list — `CharWeightMerger::add` (`*prev_weight += &weight`) for every entry, then `merge()`
  (`data_to_ref.0 += &data_from.borrow().0`) — with a `PositionalWeight::add_assign` that checks every coordinate `*y += *x` of
  its result against `M` and poisons the weight for good when the check fails, returns exactly the unchecked weights, none of them
  poisoned: no `+` performed during construction leaves the bound (operands are coordinates of earlier results, of model entries,
  or the zeros of `resize`);
* for the cached type scorer (`TypeScorerBoundaryCache::new`): every table entry `scores[seqid]` and every partial sum `y` of
  the loop `y += *w` that computes it is within `M`. -/
theorem C01_merged_bounded (cfg : Cfg) (m : WModel) (pt : Bool) (p : Predictor)
    (hp : Predictor.new cfg m pt = .ok p) : BuildWithin (within (dropW0 m).mass) cfg (dropW0 m) p :=
  C01B.build_within cfg m (dropW0 m) (dropW0_isDrop m) pt p hp _ (fun x hx => (within_iff _ x).mpr hx)

/-- **3. prediction, every intermediate buffer**: for every `WFModel0`, every predictor built from it and every sentence over a
non-empty text, with `M = (dropW0 m).mass`, see `RunWithin`: every slot of `sentence.boundary_scores` (the padding on both sides
included) is within `M`
* after the fill with the bias;
* after ANY prefix of the automaton matches of the character pass has been processed (`pmaAddScores.go` on `matches.take k`
  does not fail and leaves a buffer within `M`) — i.e. after every call of `add_score`; within one call every slot holds either its
  old or its new value, so every `*y += *x` of the loop is covered;
* in the buffer `buf1` the complete character pass leaves (`k ≥` number of matches);
* from `buf1`, after any prefix of the matches of the pattern-matching type pass, and for the cached type scorer after any number
  `k` of boundaries (`*y += self.get_score(seqid)`);
* in the buffer that `predict` finally stores in the sentence. -/
theorem C01_running_bounded (cfg : Cfg) (m : WModel) (hm : WFModel0 m) (pt : Bool) (p : Predictor)
    (hp : Predictor.new cfg m pt = .ok p) (s : Sentence) (hs : SentOK s) :
    RunWithin (within (dropW0 m).mass) p s :=
  C01B.run_within cfg m (dropW0 m) (dropW0_isDrop m) hm.char_shape hm.type_shape (fun d hd => (hm.dict_shape d hd).1)
    pt p hp s hs.text_ne hs.types_eq hs.bounds_len _ (fun x hx => (within_iff _ x).mpr hx)

theorem I32_of_natAbs_le (M : Nat) (hM : M < 2 ^ 31) (x : Int) (hx : x.natAbs ≤ M) : I32 x := by
  unfold I32
  have h31 : (2 : Nat) ^ 31 = 2147483648 := by decide
  have h31' : (2 : Int) ^ 31 = 2147483648 := by decide
  rw [h31] at hM
  rw [h31']
  omega

/-- **4. no overflow**: if the mass of the model (without the n-grams of switched-off kinds) is below `2^31`, then every value
of 1–3 is in the range of `i32`: the specification scores; all stored merged weights, all results of `+=` in both phases of the
weight merger (checked against the `i32` range) and all partial sums of the cache table; and every slot of the score buffer after
any prefix of either pass.  So on every `+` that `Predictor::new` and `Predictor::predict` perform for boundary scores, `i32`
arithmetic and the unbounded integers of the model coincide.  (Tag scores are not covered.) -/
theorem C01_no_overflow (cfg : Cfg) (m : WModel) (hm : WFModel0 m) (hmass : (dropW0 m).mass < 2 ^ 31) (pt : Bool)
    (p : Predictor) (hp : Predictor.new cfg m pt = .ok p) :
    (∀ text b, I32 (specScore (dropW0 m) text b)) ∧
    BuildWithin inI32 cfg (dropW0 m) p ∧
    ∀ s, SentOK s → RunWithin inI32 p s :=
  have hP : ∀ x : Int, x.natAbs ≤ (dropW0 m).mass → inI32 x = true :=
    fun x hx => (inI32_iff x).mpr (I32_of_natAbs_le _ hmass x hx)
  ⟨fun text b => I32_of_natAbs_le _ hmass _ (C01_spec_bounded_window0 m text b),
   C01B.build_within cfg m (dropW0 m) (dropW0_isDrop m) pt p hp inI32 hP,
   fun s hs => C01B.run_within cfg m (dropW0 m) (dropW0_isDrop m) hm.char_shape hm.type_shape
     (fun d hd => (hm.dict_shape d hd).1) pt p hp s hs.text_ne hs.types_eq hs.bounds_len inI32 hP⟩

/-! ### 5. sharpness and non-vacuity

`C01_sharpModel`: a well-formed model of mass exactly `2^31 − 1` whose score on `aa` is `2^31 − 1` (the bound of 1 is attained, and
the hypothesis of `C01_no_overflow` holds); `C01_overModel`: one more unit of weight, mass `2^31`, score `2^31` — outside `i32`.
The character n-gram `a` and the dictionary word `a` share a key, so the weight merger adds their vectors: on the second model
that sum is `2^31` and the `i32`-checked merger is poisoned, on the first it is not. -/

def C01_sharpModel : WModel :=
  { charNgrams := [⟨['a'], [1073741824, 1]⟩], typeNgrams := [⟨[2], [3, 4]⟩],
    dict := [⟨['a'], [1073741800, 10], []⟩], bias := 5, charW := 1, typeW := 1, tagModels := [] }

def C01_overModel : WModel :=
  { C01_sharpModel with dict := [⟨['a'], [1073741800, 11], []⟩] }

example : WFModel C01_sharpModel :=
  { charW_pos := by decide, charW_le := by decide, typeW_pos := by decide, typeW_le := by decide,
    char_nodup := by decide, char_shape := by decide, type_nodup := by decide, type_shape := by decide,
    dict_nodup := by decide, dict_shape := by decide }

example : WFModel C01_overModel :=
  { charW_pos := by decide, charW_le := by decide, typeW_pos := by decide, typeW_le := by decide,
    char_nodup := by decide, char_shape := by decide, type_nodup := by decide, type_shape := by decide,
    dict_nodup := by decide, dict_shape := by decide }

/-- the bound is attained: mass `2^31 − 1`, score `2^31 − 1` -/
example : C01_sharpModel.mass = 2 ^ 31 - 1 ∧ (dropW0 C01_sharpModel).mass = 2 ^ 31 - 1 := by decide
example : specScore C01_sharpModel ['a', 'a'] 0 = 2 ^ 31 - 1 := by decide
example : I32 (specScore C01_sharpModel ['a', 'a'] 0) := by decide

/-- it cannot be improved: mass `2^31`, score `2^31`, not an `i32` -/
example : C01_overModel.mass = 2 ^ 31 ∧ (dropW0 C01_overModel).mass = 2 ^ 31 := by decide
example : specScore C01_overModel ['a', 'a'] 0 = 2 ^ 31 := by decide
example : ¬ I32 (specScore C01_overModel ['a', 'a'] 0) := by decide

/-- non-vacuity of `C01_merged_bounded` / `C01_running_bounded` / `C01_no_overflow`: the predictor is built from the sharp model
in the three configurations, and also from the example models above (whose masses are far below `2^31`) -/
example : (Predictor.new {} C01_sharpModel false).isOk = true := by decide
example : (Predictor.new { fixed := false, cache := false, tagPred := false } C01_sharpModel false).isOk = true := by decide
example : (Predictor.new {} C01_sharpModel true).isOk = true := by decide
example : (dropW0 C01_exModel).mass = 32 ∧ (dropW0 C01_exModel0).mass = 22 := by decide

/-- the bound of 2 is attained as well, and the checked `+=` does detect a result outside the bound: in these two models the
character n-gram `a` and the dictionary word `a` make up the whole mass (`2^31 − 1` and `2^31`) in one coordinate; the merged
coordinate equals the mass, and the merger run with the `i32` check is poisoned on the second model only -/
def C01_sharpMerge : WModel :=
  { charNgrams := [⟨['a'], [1073741824, 0]⟩], typeNgrams := [], dict := [⟨['a'], [1073741823, 0], []⟩], bias := 0,
    charW := 1, typeW := 1, tagModels := [] }

def C01_overMerge : WModel :=
  { C01_sharpMerge with dict := [⟨['a'], [1073741824, 0], []⟩] }

example : WFModel C01_overMerge :=
  { charW_pos := by decide, charW_le := by decide, typeW_pos := by decide, typeW_le := by decide,
    char_nodup := by decide, char_shape := by decide, type_nodup := by decide, type_shape := by decide,
    dict_nodup := by decide, dict_shape := by decide }

example : (dropW0 C01_sharpMerge).mass = 2 ^ 31 - 1 ∧ (dropW0 C01_overMerge).mass = 2 ^ 31 := by decide
example : addAll (Merge.addC (C01B.okW inI32 some) PW.add) (Merge.liftE (charEntries (dropW0 C01_sharpMerge))) []
    = [(['a'], some ⟨-1, [2 ^ 31 - 1, 0]⟩)] := by decide
example : addAll (Merge.addC (C01B.okW inI32 some) PW.add) (Merge.liftE (charEntries (dropW0 C01_overMerge))) []
    = [(['a'], none)] := by decide
example : addAll PW.add (charEntries (dropW0 C01_overMerge)) [] = [(['a'], ⟨-1, [2 ^ 31, 0]⟩)] := by decide
example : (C01_exPredict0 {} true 7 C01_exSentence).bind (·.boundaryScores) = .ok [0, 1] := by decide
example : (C01_exPredict0 {} true 7 C01_exSentence).map (·.bounds) = .ok [B.N, B.W] := by decide

/-! ## window size 0 in the remaining theorems: overwriting and locality

`C01_predict_overwrites_fields`, `C01_predict_overwrites`, `C01_predict_twice` and `C01_score_local` for `WFModel0`.  The
first three do not mention the specification at all, so their statements are unchanged; the fourth is the locality of the
linear model of `dropW0 m`, which is what the predictor computes (`C01_scores_window0`). -/

/-- `C01_predict_overwrites_fields` for windows 0..255 -/
theorem C01_predict_overwrites_fields_window0 (cfg : Cfg) (m : WModel) (hm : WFModel0 m) (pt : Bool) (p q : Predictor)
    (hp : Predictor.new cfg m pt = .ok p) (s s1 : Sentence) (hs : SentOK s) (pid qid : Nat)
    (h1 : q.predict qid s = .ok s1) :
    ∃ r r1, p.predict pid s = .ok r ∧ p.predict pid s1 = .ok r1 ∧
      r1 = { r with cstates := r1.cstates, tstates := r1.tstates } ∧
      (p.writesCharStates = true → r1.cstates = r.cstates) ∧
      (p.writesCharStates = false → r.cstates = s.cstates ∧ r1.cstates = s1.cstates) ∧
      (p.writesTypeStates = true → r1.tstates = r.tstates) ∧
      (p.writesTypeStates = false → r.tstates = s.tstates ∧ r1.tstates = s1.tstates) :=
  C01O.predict_overwrites_fields0 cfg m hm.char_shape hm.type_shape
    (fun d hd => (hm.dict_shape d hd).1) pt p hp q s s1 hs.text_ne hs.types_eq hs.bounds_len pid qid h1

/-- `C01_predict_overwrites` for windows 0..255 -/
theorem C01_predict_overwrites_window0 (cfg : Cfg) (m : WModel) (hm : WFModel0 m) (pt : Bool) (p q : Predictor)
    (hp : Predictor.new cfg m pt = .ok p)
    (hwc : q.writesCharStates = true → p.writesCharStates = true)
    (hwt : q.writesTypeStates = true → p.writesTypeStates = true)
    (s s1 : Sentence) (hs : SentOK s) (pid qid : Nat) (h1 : q.predict qid s = .ok s1) :
    p.predict pid s1 = p.predict pid s :=
  C01O.predict_overwrites_eq0 cfg m hm.char_shape hm.type_shape
    (fun d hd => (hm.dict_shape d hd).1) pt p hp q hwc hwt s s1 hs.text_ne hs.types_eq hs.bounds_len pid qid h1

/-- `C01_predict_twice` for windows 0..255 -/
theorem C01_predict_twice_window0 (cfg : Cfg) (m : WModel) (hm : WFModel0 m) (pt : Bool) (p : Predictor)
    (hp : Predictor.new cfg m pt = .ok p) (s s1 : Sentence) (hs : SentOK s) (pid pid' : Nat)
    (h1 : p.predict pid s = .ok s1) : p.predict pid' s1 = p.predict pid' s :=
  C01_predict_overwrites_window0 cfg m hm pt p p hp id id s s1 hs pid' pid h1

/-! ### non-vacuity of the three theorems on `C01_exModel0` (character window 0; `WFModel0 C01_exModel0` and
`SentOK C01_exSentence` are shown above), and the counterexample to the unconditional equality, which persists -/

def C01_exWrites0 (cfg : Cfg) (pt : Bool) : Option (Bool × Bool) :=
  match Predictor.new cfg C01_exModel0 pt with
  | .ok p => some (p.writesCharStates, p.writesTypeStates)
  | _ => none

/-- `hp` and `h1`: the predictors are built and the first prediction succeeds, for a tag-aware and for a plain `q` -/
example : (Predictor.new {} C01_exModel0 true).isOk = true ∧ (Predictor.new {} C01_exModel0 false).isOk = true ∧
    (Predictor.new { fixed := false, cache := false, tagPred := false } C01_exModel0 false).isOk = true := by decide
example : (C01_exPredict0 {} true 7 C01_exSentence).isOk = true := by decide
example : (C01_exPredict0 {} false 7 C01_exSentence).isOk = true := by decide

/-- `hwc`, `hwt`: which vectors are written is as for `C01_exModel` (the character scorer still exists with window 0: it
carries the dictionary word and the character tag n-gram) -/
example : C01_exWrites0 {} true = some (true, true) := by decide
example : C01_exWrites0 {} false = some (false, true) := by decide
example : C01_exWrites0 { fixed := false, cache := false, tagPred := false } false = some (false, false) := by decide

/-- the conclusions on the example: `q` plain and cached, `p` tag-aware; and `p = q` -/
example : (C01_exPredict0 {} false 7 C01_exSentence).bind (C01_exPredict0 {} true 3)
    = C01_exPredict0 {} true 3 C01_exSentence := by decide
example : (C01_exPredict0 {} true 7 C01_exSentence).bind (C01_exPredict0 {} true 3)
    = C01_exPredict0 {} true 3 C01_exSentence := by decide

/-- the **counterexample** to the equality without `hwc` is still one with character window 0: the tag-aware `q` leaves its
character states in the sentence, the plain `p` hands them through -/
example : (C01_exPredict0 {} true 7 C01_exSentence).bind (C01_exPredict0 {} false 3)
    ≠ C01_exPredict0 {} false 3 C01_exSentence := by decide
example : ((C01_exPredict0 {} true 7 C01_exSentence).bind (C01_exPredict0 {} false 3)).map (·.cstates)
    = .ok [none, some 0, some 1] := by decide
example : (C01_exPredict0 {} false 3 C01_exSentence).map (·.cstates) = .ok [] := by decide

/-- **locality, windows 0..255**: as `C01_score_local`, for the linear model of `dropW0 m` — the one the predictor computes
(`C01_scores_window0`).  `R` bounds both windows and every dictionary word as before; a window of 0 satisfies its bound
trivially, and the n-grams of that kind, having been dropped, cannot reach across any distance. -/
theorem C01_score_local_window0 (m : WModel) (hm : WFModel0 m) (R : Nat)
    (hc : m.charW ≤ R) (ht : m.typeW ≤ R) (hd : ∀ d ∈ m.dict, d.word.length ≤ R)
    (pre pre' mid post post' : List Char) (k : Nat) (hk1 : R ≤ k + 1) (hk2 : k + 1 + R ≤ mid.length) :
    specScore (dropW0 m) (pre ++ mid ++ post) (pre.length + k)
      = specScore (dropW0 m) (pre' ++ mid ++ post') (pre'.length + k) :=
  have hts := fun h1 d h => ⟨(hm.type_shape h1 d h).1, (hm.type_shape h1 d h).2.1, (hm.type_shape h1 d h).2.2.1⟩
  have hds := fun d h => ⟨(hm.dict_shape d h).1, (hm.dict_shape d h).2.2⟩
  (C01Loc.specScore_local0 m hm.char_shape hts hds R hc ht hd pre mid post k hk1 hk2).trans
    (C01Loc.specScore_local0 m hm.char_shape hts hds R hc ht hd pre' mid post' k hk1 hk2).symm

/-- non-vacuity of `C01_score_local_window0` on `C01_exModel0`: `R = 2` bounds both windows (0 and 1) and the dictionary word
(2 characters); in `mid = "abab"` the boundary `k = 1` has `R` characters on either side (both side conditions hold with
equality); the two scores are equal although the surroundings differ -/
example : C01_exModel0.charW ≤ 2 ∧ C01_exModel0.typeW ≤ 2 ∧ (∀ d ∈ C01_exModel0.dict, d.word.length ≤ 2) ∧
    2 ≤ 1 + 1 ∧ 1 + 1 + 2 ≤ ['a', 'b', 'a', 'b'].length := by decide
example : specScore (dropW0 C01_exModel0) (['b', 'a'] ++ ['a', 'b', 'a', 'b'] ++ ['a']) (2 + 1) = 2 ∧
    specScore (dropW0 C01_exModel0) ([] ++ ['a', 'b', 'a', 'b'] ++ ['1', 'b']) (0 + 1) = 2 := by decide
/-- the radius is still needed for the kinds that are switched on (here the dictionary word and the type n-grams): one
character fewer on the right (`k + 1 + R = mid.length + 1`) and the conclusion fails -/
example : specScore (dropW0 C01_exModel0) ([] ++ ['a', 'b', 'a'] ++ ['b']) (0 + 1)
    ≠ specScore (dropW0 C01_exModel0) ([] ++ ['a', 'b', 'a'] ++ ['1']) (0 + 1) := by decide
/-- whereas for `m` itself instead of `dropW0 m` the statement would be false (same `R`, `mid = "bbbb"`, `k = 1`): the ignored
character n-gram `a` (three weights with window 0) would reach the boundary two characters to the right of its end, from
outside `mid`; in `dropW0 m` it is gone -/
example : specScore C01_exModel0 (['a'] ++ ['b', 'b', 'b', 'b'] ++ []) (1 + 1) = 3 ∧
    specScore C01_exModel0 (['b'] ++ ['b', 'b', 'b', 'b'] ++ []) (1 + 1) = -2 := by decide
example : specScore (dropW0 C01_exModel0) (['a'] ++ ['b', 'b', 'b', 'b'] ++ []) (1 + 1) = -2 ∧
    specScore (dropW0 C01_exModel0) (['b'] ++ ['b', 'b', 'b', 'b'] ++ []) (1 + 1) = -2 := by decide

end V
