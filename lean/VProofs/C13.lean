import VProofs.C01
/-!
# C13 — Cargo feature flags change speed, never results

In the model every feature-dependent branch is selected by `Cfg` (`fixed` = fix-weight-length, `cache` =
cache-type-score, `tagPred` = tag-prediction).  `charwise-pma` and `std` select between implementations the model
identifies (byte-wise vs character-wise automaton coincide at character level; `std` only adds API), and
`portable-simd` is the same lane-wise addition; those three are covered by the feature-matrix run only.
-/
namespace V

/-- any two build configurations give identical scores and boundaries for every well-formed model and text,
with or without tag prediction in either build -/
theorem C13_scores_cfg_independent (cfg₁ cfg₂ : Cfg) (m : WModel) (hm : WFModel m) (pt₁ pt₂ : Bool)
    (p₁ p₂ : Predictor) (h₁ : Predictor.new cfg₁ m pt₁ = .ok p₁) (h₂ : Predictor.new cfg₂ m pt₂ = .ok p₂)
    (s : Sentence) (hs : SentOK s) (pid₁ pid₂ : Nat) :
    ∃ s₁ s₂, p₁.predict pid₁ s = .ok s₁ ∧ p₂.predict pid₂ s = .ok s₂ ∧
      s₁.boundaryScores = s₂.boundaryScores ∧ s₁.bounds = s₂.bounds := by
  obtain ⟨s₁, e₁, a₁, b₁, _⟩ := C01_scores cfg₁ m hm pt₁ p₁ h₁ s hs pid₁
  obtain ⟨s₂, e₂, a₂, b₂, _⟩ := C01_scores cfg₂ m hm pt₂ p₂ h₂ s hs pid₂
  exact ⟨s₁, s₂, e₁, e₂, by rw [a₁, a₂], by rw [b₁, b₂]⟩

/-- fixed-length weight vectors vs variable ones -/
theorem C13_fixed_eq_variable (cache tagPred : Bool) (m : WModel) (hm : WFModel m) (pt : Bool) (p₁ p₂ : Predictor)
    (h₁ : Predictor.new { fixed := true, cache := cache, tagPred := tagPred } m pt = .ok p₁)
    (h₂ : Predictor.new { fixed := false, cache := cache, tagPred := tagPred } m pt = .ok p₂)
    (s : Sentence) (hs : SentOK s) (pid : Nat) :
    (p₁.predict pid s).map (fun x => (x.boundaryScores, x.bounds)) =
      (p₂.predict pid s).map (fun x => (x.boundaryScores, x.bounds)) := by
  obtain ⟨s₁, s₂, e₁, e₂, a, b⟩ := C13_scores_cfg_independent _ _ m hm _ _ p₁ p₂ h₁ h₂ s hs pid pid
  rw [e₁, e₂]; simp [Res.map, a, b]

/-- the type-score cache vs the type automaton -/
theorem C13_cache_eq_automaton (fixed tagPred : Bool) (m : WModel) (hm : WFModel m) (pt : Bool) (p₁ p₂ : Predictor)
    (h₁ : Predictor.new { fixed := fixed, cache := true, tagPred := tagPred } m pt = .ok p₁)
    (h₂ : Predictor.new { fixed := fixed, cache := false, tagPred := tagPred } m pt = .ok p₂)
    (s : Sentence) (hs : SentOK s) (pid : Nat) :
    (p₁.predict pid s).map (fun x => (x.boundaryScores, x.bounds)) =
      (p₂.predict pid s).map (fun x => (x.boundaryScores, x.bounds)) := by
  obtain ⟨s₁, s₂, e₁, e₂, a, b⟩ := C13_scores_cfg_independent _ _ m hm _ _ p₁ p₂ h₁ h₂ s hs pid pid
  rw [e₁, e₂]; simp [Res.map, a, b]

/-- the tag-aware scorers vs the plain ones, on boundary scores -/
theorem C13_tagscorer_eq_plain (fixed cache : Bool) (m : WModel) (hm : WFModel m) (p₁ p₂ : Predictor)
    (h₁ : Predictor.new { fixed := fixed, cache := cache, tagPred := true } m true = .ok p₁)
    (h₂ : Predictor.new { fixed := fixed, cache := cache, tagPred := false } m false = .ok p₂)
    (s : Sentence) (hs : SentOK s) (pid : Nat) :
    (p₁.predict pid s).map (fun x => (x.boundaryScores, x.bounds)) =
      (p₂.predict pid s).map (fun x => (x.boundaryScores, x.bounds)) := by
  obtain ⟨s₁, s₂, e₁, e₂, a, b⟩ := C13_scores_cfg_independent _ _ m hm _ _ p₁ p₂ h₁ h₂ s hs pid pid
  rw [e₁, e₂]; simp [Res.map, a, b]

end V
