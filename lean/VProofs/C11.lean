import VProofs.C01
import VProofs.C06
import VProofs.C09
import VProofs.C12
/-!
# C11 — Training is total and its output is always usable

What a theorem can carry here is the bookkeeping around the learner: assembling never panics, the assembled model is
well-formed, and every well-formed model is accepted by the predictor and predicts/tags without panicking.  liblinear itself
(its error returns, label order, NaN) and the `f64` quantisation are the runtime remainder, covered by the solver sweep of
the check (all eight solvers × sizes incl. 0 × six corpus kinds, each followed by write → read → predict + fill_tags).
Property theorems only (helper lemmas live in `VProofs/Lemmas/Use*.lean`).
-/
namespace V

/-- every well-formed model (with well-formed tag models) is accepted by the predictor, with and without tag prediction, in
every build configuration … -/
theorem C11_predictor_accepts (cfg : Cfg) (m : WModel) (hm : WFModel m) (ht : WFTags m) (pt : Bool)
    (hcfg : pt = true → cfg.tagPred = true) : ∃ p, Predictor.new cfg m pt = .ok p := by
  sorry

/-- … and the predictor then predicts and tags ANY non-empty text without panicking, with or without score storing -/
theorem C11_predict_total (cfg : Cfg) (m : WModel) (hm : WFModel m) (ht : WFTags m) (pt : Bool) (p : Predictor)
    (hp : Predictor.new cfg m pt = .ok p) (store : Bool) (s : Sentence) (hs : SentOK s) (pid : Nat) :
    ∃ s1, p.predict pid s = .ok s1 ∧
      (pt = true → ∃ s2, ({ p with storeTagScores := store } : Predictor).predictTags s1 = .ok s2) := by
  sorry

/-- the boundary model assembled from the learner's output is well-formed whenever both windows are at least 1 (any n-gram
sizes, any dictionary accepted by `Trainer::new` with length bucket ≥ 1, any quantised weights) -/
theorem C11_assembled_wf (cfg : TrainCfg) (hc : CfgOK cfg) (hcw : 1 ≤ cfg.charW ∧ cfg.charW ≤ 255)
    (htw : 1 ≤ cfg.typeW ∧ cfg.typeW ≤ 255) (hlen : ∀ w ∈ cfg.dictWords, w.length ≤ 32767)
    (trace : List (Feature × Int)) (bias : Int) (tms : List TagModel)
    (hg : ∀ e ∈ trace, Generable cfg e.1) (m : WModel) (h : assembleBoundary cfg trace bias tms = .ok m) :
    WFModel m := by
  sorry

/-- assembling a tag model never panics when every recorded class lies inside the trainable classes of its token -/
theorem C11_tag_assemble_total (token : List Char) (examples : List (List Tag)) (trace : List TagTraceItem)
    (hslots : ∀ t ∈ trace, t.token = token → t.offset + t.cls < nClass (collectTags examples)) :
    ∃ tm, assembleTag token examples trace = .ok tm := by
  sorry

/-- the assembled tag models are well-formed (distinct tokens; bias and weight vectors sized to the trainable classes;
non-empty n-grams; type codes in 1..6) when the recorded features are tag features of actual tokens -/
theorem C11_tags_wf (m : WModel) (corpus : List TagExample) (dict : List (List Char × List Tag))
    (trace : List TagTraceItem) (tms : List TagModel) (h : assembleTags corpus dict trace = .ok tms)
    (hne : ∀ t ∈ trace, ∀ f, t.feat = some f →
      (match f with
       | .charNgram g _ => g ≠ []
       | .typeNgram g _ => g ≠ [] ∧ ∀ c ∈ g, 1 ≤ c ∧ c ≤ 6))
    (hm : m.tagModels = tms) : WFTags m := by
  sorry

end V
