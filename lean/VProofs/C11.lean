import VProofs.C01
import VProofs.C06
import VProofs.C09
import VProofs.C12
import VProofs.Lemmas.UseNew
import VProofs.Lemmas.UseAsm
import VProofs.Lemmas.UseTag
import VProofs.Lemmas.TrainCli
/-!
# C11 — Training is total and its output is always usable

What a theorem can carry here is the bookkeeping around the learner: assembling never panics, the assembled model is
well-formed, and every well-formed model is accepted by the predictor and predicts/tags without panicking.  liblinear itself
(its error returns, label order, NaN) and the `f64` quantisation are the runtime remainder, covered by the solver sweep of
the check (all eight solvers × sizes incl. 0 × six corpus kinds, each followed by write → read → predict + fill_tags).
Property theorems only (helper lemmas live in `VProofs/Lemmas/Use*.lean`).
-/
namespace V

/-- every well-formed model (with well-formed tag models) whose tag n-grams each carry at least one weight is accepted by
the predictor, with and without tag prediction, in every build configuration …

`hw` is needed: a tag n-gram with an EMPTY `weights` list defeats the "nothing to score" early return of
`CharScorer::new` / `TypeScorer::new` but adds no pattern, so a model with no boundary character n-grams and no
dictionary (resp. no type n-grams) whose only tag n-gram has no weights satisfies `WFModel` and `WFTags` and yet makes
`Predictor.new cfg m true` return `.err .invalidModel` (empty pattern set).  The models the trainer assembles satisfy
`hw` (`C11_tags_weights_ne`). -/
theorem C11_predictor_accepts (cfg : Cfg) (m : WModel) (hm : WFModel m) (ht : WFTags m)
    (hw : ∀ tm ∈ m.tagModels, (∀ d ∈ tm.charNgrams, d.weights ≠ []) ∧ (∀ d ∈ tm.typeNgrams, d.weights ≠ []))
    (pt : Bool) (hcfg : pt = true → cfg.tagPred = true) : ∃ p, Predictor.new cfg m pt = .ok p :=
  C11L.new_total cfg m hm
    (fun tm htm d hd => ⟨(ht.char_ok tm htm d hd).1, (hw tm htm).1 d hd⟩)
    (fun tm htm d hd => ⟨(ht.type_ok tm htm d hd).1, (hw tm htm).2 d hd⟩) pt hcfg

/-- … and the predictor then predicts and tags ANY non-empty text without panicking, with or without score storing -/
theorem C11_predict_total (cfg : Cfg) (m : WModel) (hm : WFModel m) (ht : WFTags m) (pt : Bool) (p : Predictor)
    (hp : Predictor.new cfg m pt = .ok p) (store : Bool) (s : Sentence) (hs : SentOK s) (pid : Nat) :
    ∃ s1, p.predict pid s = .ok s1 ∧
      (pt = true → ∃ s2, ({ p with storeTagScores := store } : Predictor).predictTags s1 = .ok s2) := by
  obtain ⟨s1, h1, _⟩ := C01_scores cfg m hm pt p hp s hs pid
  refine ⟨s1, h1, fun hpt => ?_⟩
  subst hpt
  exact C11L.predictTags_total cfg m hm ht p hp store s s1 hs pid h1

/-- the boundary model assembled from the learner's output is well-formed whenever both windows are at least 1 (any n-gram
sizes, any dictionary accepted by `Trainer::new` with length bucket ≥ 1, any quantised weights) -/
theorem C11_assembled_wf (cfg : TrainCfg) (hc : CfgOK cfg) (hcw : 1 ≤ cfg.charW ∧ cfg.charW ≤ 255)
    (htw : 1 ≤ cfg.typeW ∧ cfg.typeW ≤ 255) (hlen : ∀ w ∈ cfg.dictWords, w.length ≤ 32767)
    (trace : List (Feature × Int)) (bias : Int) (tms : List TagModel)
    (hg : ∀ e ∈ trace, Generable cfg e.1) (m : WModel) (h : assembleBoundary cfg trace bias tms = .ok m) :
    WFModel m :=
  C11L.assembled_wf cfg hc.words_ne hc.words_nodup hc.maxlen_pos hcw htw hlen trace bias tms hg m h

/-- assembling a tag model never panics when every recorded class lies inside the trainable classes of its token -/
theorem C11_tag_assemble_total (token : List Char) (examples : List (List Tag)) (trace : List TagTraceItem)
    (hslots : ∀ t ∈ trace, t.token = token → t.offset + t.cls < nClass (collectTags examples)) :
    ∃ tm, assembleTag token examples trace = .ok tm :=
  C11L.assembleTag_total token examples trace hslots

/-- the assembled tag models are well-formed (distinct tokens; bias and weight vectors sized to the trainable classes;
non-empty n-grams; type codes in 1..6) when the recorded features are tag features of actual tokens -/
theorem C11_tags_wf (m : WModel) (corpus : List TagExample) (dict : List (List Char × List Tag))
    (trace : List TagTraceItem) (tms : List TagModel) (h : assembleTags corpus dict trace = .ok tms)
    (hne : ∀ t ∈ trace, ∀ f, t.feat = some f →
      (match f with
       | .charNgram g _ => g ≠ []
       | .typeNgram g _ => g ≠ [] ∧ ∀ c ∈ g, 1 ≤ c ∧ c ≤ 6))
    (hm : m.tagModels = tms) : WFTags m := by
  subst hm
  have hkeys : ∀ tm ∈ m.tagModels, tm.bias.length = nClass tm.tags ∧
      (∀ d ∈ tm.charNgrams, d.ngram ≠ [] ∧ ∀ w ∈ d.weights, w.weights.length = nClass tm.tags) ∧
      (∀ d ∈ tm.typeNgrams, d.ngram ≠ [] ∧ (∀ t ∈ d.ngram, 1 ≤ t ∧ t ≤ 6) ∧
        ∀ w ∈ d.weights, w.weights.length = nClass tm.tags) := by
    intro tm htm
    obtain ⟨token, examples, hok⟩ := C11L.assembleTags_mem corpus dict trace _ h tm htm
    obtain ⟨_, _, hb, hcs, hts⟩ := C12_sizes token examples trace tm hok
    obtain ⟨hck, htk⟩ := C11L.assembleTag_keys token examples trace tm (fun g => g ≠ [])
      (fun g => g ≠ [] ∧ ∀ c ∈ g, 1 ≤ c ∧ c ≤ 6)
      (fun t ht g rel hf => hne t ht (.charNgram g rel) hf) (fun t ht g rel hf => hne t ht (.typeNgram g rel) hf) hok
    exact ⟨hb, fun d hd => ⟨(hck d hd).1, hcs d hd⟩, fun d hd => ⟨(htk d hd).1.1, (htk d hd).1.2, hts d hd⟩⟩
  exact ⟨(C12_tokens corpus dict trace _ h).1, fun tm htm => (hkeys tm htm).1, fun tm htm => (hkeys tm htm).2.1,
    fun tm htm => (hkeys tm htm).2.2⟩

/-- the tag models the trainer assembles never contain a tag n-gram without weights (`groupTagWeights` emits an n-gram
only together with a weight), which is the extra hypothesis of `C11_predictor_accepts` -/
theorem C11_tags_weights_ne (corpus : List TagExample) (dict : List (List Char × List Tag))
    (trace : List TagTraceItem) (tms : List TagModel) (h : assembleTags corpus dict trace = .ok tms) :
    ∀ tm ∈ tms, (∀ d ∈ tm.charNgrams, d.weights ≠ []) ∧ (∀ d ∈ tm.typeNgrams, d.weights ≠ []) := by
  intro tm htm
  obtain ⟨token, examples, hok⟩ := C11L.assembleTags_mem corpus dict trace tms h tm htm
  obtain ⟨hck, htk⟩ := C11L.assembleTag_keys token examples trace tm (fun _ => True) (fun _ => True)
    (fun _ _ _ _ _ => trivial) (fun _ _ _ _ _ => trivial) hok
  exact ⟨fun d hd => (hck d hd).2, fun d hd => (htk d hd).2⟩

/-! ## the hypothesis `hw` of `C11_predictor_accepts` cannot be dropped: a well-formed model whose only character pattern
would be a tag n-gram without weights is rejected (with an error, not a panic) when tag prediction is requested -/

def C11_exNoWeights : WModel :=
  { charNgrams := [], typeNgrams := [⟨[2], [3, 4]⟩], dict := [], bias := 0, charW := 1, typeW := 1,
    tagModels := [{ token := ['a'], tags := [], charNgrams := [⟨['b'], []⟩], typeNgrams := [], bias := [] }] }

example : WFModel C11_exNoWeights :=
  { charW_pos := by decide, charW_le := by decide, typeW_pos := by decide, typeW_le := by decide,
    char_nodup := by decide, char_shape := by decide, type_nodup := by decide, type_shape := by decide,
    dict_nodup := by decide, dict_shape := by decide }
example : WFTags C11_exNoWeights := ⟨by decide, by decide, by decide, by decide⟩
example : (Predictor.new {} C11_exNoWeights true).map (fun _ => ()) = .err .invalidModel := by decide
example : (Predictor.new {} C11_exNoWeights false).isOk = true := by decide

end V

namespace V

/-- **end to end** (C09 ∘ C11 ∘ C01): for windows ≥ 1, the PREDICTOR built from the model that training returns — in every
build configuration, with or without tag prediction — reports, for every boundary of every non-empty text, exactly the learned
quantised bias plus the learned quantised weight of each feature the trainer extracts for that boundary -/
theorem C11_trained_predictor_scores (tc : TrainCfg) (hc : CfgOK tc) (hcw : 1 ≤ tc.charW ∧ tc.charW ≤ 255)
    (htw : 1 ≤ tc.typeW ∧ tc.typeW ≤ 255) (hlen : ∀ w ∈ tc.dictWords, w.length ≤ 32767)
    (trace : List (Feature × Int)) (bias : Int) (tms : List TagModel)
    (hnd : (trace.map Prod.fst).Nodup) (hg : ∀ e ∈ trace, Generable tc e.1) (m : WModel)
    (h : assembleBoundary tc trace bias tms = .ok m)
    (cfg : Cfg) (pt : Bool) (p : Predictor) (hp : Predictor.new cfg m pt = .ok p)
    (s : Sentence) (hs : SentOK s) (pid : Nat) :
    ∃ s', p.predict pid s = .ok s' ∧
      s'.boundaryScores = .ok ((List.range (s.text.length - 1)).map fun b =>
        bias + ((genFeatures tc s.text b).map (wqOf trace)).sum) := by
  have hwf : WFModel m := C11_assembled_wf tc hc hcw htw hlen trace bias tms hg m h
  obtain ⟨s', h1, h2, _⟩ := C01_scores cfg m hwf pt p hp s hs pid
  refine ⟨s', h1, ?_⟩
  rw [h2]
  congr 1
  unfold specScores
  apply List.map_congr_left
  intro b hb
  have hb' : b + 1 < s.text.length := by
    have := List.mem_range.mp hb
    omega
  exact C09_scores tc hc trace bias tms hnd hg m h s.text b hb'

/-! ## the `train` tool: its loading stage is total, and the dictionary it builds is always accepted by `Trainer::new` -/

/-- whatever the input files contain, the loading stage of `train` ends with the arguments for the trainer or with an error:
it never panics -/
theorem C11_train_tool_loading_total (nn : Bool) (tok part dict : List (List Char)) :
    (trainCliInputs nn tok part dict).Safe := by
  exact TrainCliL.trainCliInputs_safe nn tok part dict

/-- the word dictionary the tool hands to `Trainer::new` is strictly sorted (code point order), hence without repetition,
contains no empty word, consists exactly of the token surfaces of the (normalised) dictionary lines, and is therefore always
accepted by `Trainer::new` (the automaton construction cannot fail on an empty or a repeated pattern) -/
theorem C11_train_tool_dictionary (nn : Bool) (tok part dict : List (List Char)) (inp : TrainInputs)
    (h : trainCliInputs nn tok part dict = .ok inp) :
    inp.dictWords.Pairwise (fun a b => lexLt ltChar a b = true) ∧
    (∀ w, w ∈ inp.dictWords ↔ ∃ s ∈ inp.tagDict, ∃ p ∈ iterTokens s.bounds, s.substring p.1 p.2 = .ok w) ∧
    (∀ cw cn tw tn ml, trainerNewOk ⟨cw, cn, tw, tn, inp.dictWords, ml⟩ = true) := by
  exact TrainCliL.dictionary_spec h

/-- non-vacuity: the dict file `ab⏎zz c⏎ab⏎` gives the sorted, repetition-free word list `ａｂ, ｃ, ｚｚ` (`ab, c, zz` under
`--no-norm`) and three tag-dictionary sentences; a dict line starting with `/` ends the tool with an error -/
example :
    (trainCliInputs false [] [] [['a', 'b', '\n', 'z', 'z', ' ', 'c', '\n', 'a', 'b', '\n']]).map
        (fun i => (i.dictWords, i.tagDict.length)) = .ok ([['ａ', 'ｂ'], ['ｃ'], ['ｚ', 'ｚ']], 3) ∧
    (trainCliInputs true [] [] [['a', 'b', '\n', 'z', 'z', ' ', 'c', '\n', 'a', 'b', '\n']]).map
        (fun i => (i.dictWords, i.tagDict.length)) = .ok ([['a', 'b'], ['c'], ['z', 'z']], 3) ∧
    (trainCliInputs false [] [] [['a', 'b', '\n', '/', 'c', '\n']]).map (fun i => i.dictWords) = .err .invalidArgument := by
  decide +kernel

end V
