import VProofs.C01
import VProofs.C06
import VProofs.C09
import VProofs.C12
import VProofs.Lemmas.UseNew
import VProofs.Lemmas.UseAsm
import VProofs.Lemmas.UseTag
import VProofs.Lemmas.TrainCli
import VProofs.Lemmas.ScoreWindow0b
/-!
# C11 — Training is total and its output is always usable

What a theorem can carry here is the bookkeeping around the learner: assembling never panics, the assembled model is
well-formed, and every well-formed model is accepted by the predictor and predicts/tags without panicking.  liblinear itself
(its error returns, label order, NaN) and the `f64` quantisation are the runtime remainder, covered by the solver sweep of
the check (all eight solvers × sizes incl. 0 × six corpus kinds, each followed by write → read → predict + fill_tags).
Property theorems only (helper lemmas live in `VProofs/Lemmas/Use*.lean`).
-/
namespace V

/-- every well-formed model (with well-formed tag models) whose tag n-grams each carry at least one weight is accepted by
the predictor, with and without tag prediction, in every build configuration …

`hw` is needed: a tag n-gram with an EMPTY `weights` list defeats the "nothing to score" early return of
`CharScorer::new` / `TypeScorer::new` but adds no pattern, so a model with no boundary character n-grams and no
dictionary (resp. no type n-grams) whose only tag n-gram has no weights satisfies `WFModel` and `WFTags` and yet makes
`Predictor.new cfg m true` return `.err .invalidModel` (empty pattern set).  The models the trainer assembles satisfy
`hw` (`C11_tags_weights_ne`). -/
theorem C11_predictor_accepts (cfg : Cfg) (m : WModel) (hm : WFModel m) (ht : WFTags m)
    (hw : ∀ tm ∈ m.tagModels, (∀ d ∈ tm.charNgrams, d.weights ≠ []) ∧ (∀ d ∈ tm.typeNgrams, d.weights ≠ []))
    (pt : Bool) (hcfg : pt = true → cfg.tagPred = true) : ∃ p, Predictor.new cfg m pt = .ok p :=
  C11L.new_total cfg m hm
    (fun tm htm d hd => ⟨(ht.char_ok tm htm d hd).1, (hw tm htm).1 d hd⟩)
    (fun tm htm d hd => ⟨(ht.type_ok tm htm d hd).1, (hw tm htm).2 d hd⟩) pt hcfg

/-- … and the predictor then predicts and tags ANY non-empty text without panicking, with or without score storing -/
theorem C11_predict_total (cfg : Cfg) (m : WModel) (hm : WFModel m) (ht : WFTags m) (pt : Bool) (p : Predictor)
    (hp : Predictor.new cfg m pt = .ok p) (store : Bool) (s : Sentence) (hs : SentOK s) (pid : Nat) :
    ∃ s1, p.predict pid s = .ok s1 ∧
      (pt = true → ∃ s2, ({ p with storeTagScores := store } : Predictor).predictTags s1 = .ok s2) := by
  obtain ⟨s1, h1, _⟩ := C01_scores cfg m hm pt p hp s hs pid
  refine ⟨s1, h1, fun hpt => ?_⟩
  subst hpt
  exact C11L.predictTags_total cfg m hm ht p hp store s s1 hs pid h1

/-- the boundary model assembled from the learner's output is well-formed whenever both windows are at least 1 (any n-gram
sizes, any dictionary accepted by `Trainer::new` with length bucket ≥ 1, any quantised weights) -/
theorem C11_assembled_wf (cfg : TrainCfg) (hc : CfgOK cfg) (hcw : 1 ≤ cfg.charW ∧ cfg.charW ≤ 255)
    (htw : 1 ≤ cfg.typeW ∧ cfg.typeW ≤ 255) (hlen : ∀ w ∈ cfg.dictWords, w.length ≤ 32767)
    (trace : List (Feature × Int)) (bias : Int) (tms : List TagModel)
    (hg : ∀ e ∈ trace, Generable cfg e.1) (m : WModel) (h : assembleBoundary cfg trace bias tms = .ok m) :
    WFModel m :=
  C11L.assembled_wf cfg hc.words_ne hc.words_nodup hc.maxlen_pos hcw htw hlen trace bias tms hg m h

/-- assembling a tag model never panics when every recorded class lies inside the trainable classes of its token -/
theorem C11_tag_assemble_total (token : List Char) (examples : List (List Tag)) (trace : List TagTraceItem)
    (hslots : ∀ t ∈ trace, t.token = token → t.offset + t.cls < nClass (collectTags examples)) :
    ∃ tm, assembleTag token examples trace = .ok tm :=
  C11L.assembleTag_total token examples trace hslots

/-- the assembled tag models are well-formed (distinct tokens; bias and weight vectors sized to the trainable classes;
non-empty n-grams; type codes in 1..6) when the recorded features are tag features of actual tokens -/
theorem C11_tags_wf (m : WModel) (corpus : List TagExample) (dict : List (List Char × List Tag))
    (trace : List TagTraceItem) (tms : List TagModel) (h : assembleTags corpus dict trace = .ok tms)
    (hne : ∀ t ∈ trace, ∀ f, t.feat = some f →
      (match f with
       | .charNgram g _ => g ≠ []
       | .typeNgram g _ => g ≠ [] ∧ ∀ c ∈ g, 1 ≤ c ∧ c ≤ 6))
    (hm : m.tagModels = tms) : WFTags m := by
  subst hm
  have hkeys : ∀ tm ∈ m.tagModels, tm.bias.length = nClass tm.tags ∧
      (∀ d ∈ tm.charNgrams, d.ngram ≠ [] ∧ ∀ w ∈ d.weights, w.weights.length = nClass tm.tags) ∧
      (∀ d ∈ tm.typeNgrams, d.ngram ≠ [] ∧ (∀ t ∈ d.ngram, 1 ≤ t ∧ t ≤ 6) ∧
        ∀ w ∈ d.weights, w.weights.length = nClass tm.tags) := by
    intro tm htm
    obtain ⟨token, examples, hok⟩ := C11L.assembleTags_mem corpus dict trace _ h tm htm
    obtain ⟨_, _, hb, hcs, hts⟩ := C12_sizes token examples trace tm hok
    obtain ⟨hck, htk⟩ := C11L.assembleTag_keys token examples trace tm (fun g => g ≠ [])
      (fun g => g ≠ [] ∧ ∀ c ∈ g, 1 ≤ c ∧ c ≤ 6)
      (fun t ht g rel hf => hne t ht (.charNgram g rel) hf) (fun t ht g rel hf => hne t ht (.typeNgram g rel) hf) hok
    exact ⟨hb, fun d hd => ⟨(hck d hd).1, hcs d hd⟩, fun d hd => ⟨(htk d hd).1.1, (htk d hd).1.2, hts d hd⟩⟩
  exact ⟨(C12_tokens corpus dict trace _ h).1, fun tm htm => (hkeys tm htm).1, fun tm htm => (hkeys tm htm).2.1,
    fun tm htm => (hkeys tm htm).2.2⟩

/-- the tag models the trainer assembles never contain a tag n-gram without weights (`groupTagWeights` emits an n-gram
only together with a weight), which is the extra hypothesis of `C11_predictor_accepts` -/
theorem C11_tags_weights_ne (corpus : List TagExample) (dict : List (List Char × List Tag))
    (trace : List TagTraceItem) (tms : List TagModel) (h : assembleTags corpus dict trace = .ok tms) :
    ∀ tm ∈ tms, (∀ d ∈ tm.charNgrams, d.weights ≠ []) ∧ (∀ d ∈ tm.typeNgrams, d.weights ≠ []) := by
  intro tm htm
  obtain ⟨token, examples, hok⟩ := C11L.assembleTags_mem corpus dict trace tms h tm htm
  obtain ⟨hck, htk⟩ := C11L.assembleTag_keys token examples trace tm (fun _ => True) (fun _ => True)
    (fun _ _ _ _ _ => trivial) (fun _ _ _ _ _ => trivial) hok
  exact ⟨fun d hd => (hck d hd).2, fun d hd => (htk d hd).2⟩

/-! ## the hypothesis `hw` of `C11_predictor_accepts` cannot be dropped: a well-formed model whose only character pattern
would be a tag n-gram without weights is rejected (with an error, not a panic) when tag prediction is requested -/

def C11_exNoWeights : WModel :=
  { charNgrams := [], typeNgrams := [⟨[2], [3, 4]⟩], dict := [], bias := 0, charW := 1, typeW := 1,
    tagModels := [{ token := ['a'], tags := [], charNgrams := [⟨['b'], []⟩], typeNgrams := [], bias := [] }] }

example : WFModel C11_exNoWeights :=
  { charW_pos := by decide, charW_le := by decide, typeW_pos := by decide, typeW_le := by decide,
    char_nodup := by decide, char_shape := by decide, type_nodup := by decide, type_shape := by decide,
    dict_nodup := by decide, dict_shape := by decide }
example : WFTags C11_exNoWeights := ⟨by decide, by decide, by decide, by decide⟩
example : (Predictor.new {} C11_exNoWeights true).map (fun _ => ()) = .err .invalidModel := by decide
example : (Predictor.new {} C11_exNoWeights false).isOk = true := by decide

end V

namespace V

/-- **end to end** (C09 ∘ C11 ∘ C01): for windows ≥ 1, the PREDICTOR built from the model that training returns — in every
build configuration, with or without tag prediction — reports, for every boundary of every non-empty text, exactly the learned
quantised bias plus the learned quantised weight of each feature the trainer extracts for that boundary -/
theorem C11_trained_predictor_scores (tc : TrainCfg) (hc : CfgOK tc) (hcw : 1 ≤ tc.charW ∧ tc.charW ≤ 255)
    (htw : 1 ≤ tc.typeW ∧ tc.typeW ≤ 255) (hlen : ∀ w ∈ tc.dictWords, w.length ≤ 32767)
    (trace : List (Feature × Int)) (bias : Int) (tms : List TagModel)
    (hnd : (trace.map Prod.fst).Nodup) (hg : ∀ e ∈ trace, Generable tc e.1) (m : WModel)
    (h : assembleBoundary tc trace bias tms = .ok m)
    (cfg : Cfg) (pt : Bool) (p : Predictor) (hp : Predictor.new cfg m pt = .ok p)
    (s : Sentence) (hs : SentOK s) (pid : Nat) :
    ∃ s', p.predict pid s = .ok s' ∧
      s'.boundaryScores = .ok ((List.range (s.text.length - 1)).map fun b =>
        bias + ((genFeatures tc s.text b).map (wqOf trace)).sum) := by
  have hwf : WFModel m := C11_assembled_wf tc hc hcw htw hlen trace bias tms hg m h
  obtain ⟨s', h1, h2, _⟩ := C01_scores cfg m hwf pt p hp s hs pid
  refine ⟨s', h1, ?_⟩
  rw [h2]
  congr 1
  unfold specScores
  apply List.map_congr_left
  intro b hb
  have hb' : b + 1 < s.text.length := by
    have := List.mem_range.mp hb
    omega
  exact C09_scores tc hc trace bias tms hnd hg m h s.text b hb'

/-! ## the `train` tool: its loading stage is total, and the dictionary it builds is always accepted by `Trainer::new` -/

/-- whatever the input files contain, the loading stage of `train` ends with the arguments for the trainer or with an error:
it never panics -/
theorem C11_train_tool_loading_total (nn : Bool) (tok part dict : List (List Char)) :
    (trainCliInputs nn tok part dict).Safe := by
  exact TrainCliL.trainCliInputs_safe nn tok part dict

/-- the word dictionary the tool hands to `Trainer::new` is strictly sorted (code point order), hence without repetition,
contains no empty word, consists exactly of the token surfaces of the (normalised) dictionary lines, and is therefore always
accepted by `Trainer::new` (the automaton construction cannot fail on an empty or a repeated pattern) -/
theorem C11_train_tool_dictionary (nn : Bool) (tok part dict : List (List Char)) (inp : TrainInputs)
    (h : trainCliInputs nn tok part dict = .ok inp) :
    inp.dictWords.Pairwise (fun a b => lexLt ltChar a b = true) ∧
    (∀ w, w ∈ inp.dictWords ↔ ∃ s ∈ inp.tagDict, ∃ p ∈ iterTokens s.bounds, s.substring p.1 p.2 = .ok w) ∧
    (∀ cw cn tw tn ml, trainerNewOk ⟨cw, cn, tw, tn, inp.dictWords, ml⟩ = true) := by
  exact TrainCliL.dictionary_spec h

/-- non-vacuity: the dict file `ab⏎zz c⏎ab⏎` gives the sorted, repetition-free word list `ａｂ, ｃ, ｚｚ` (`ab, c, zz` under
`--no-norm`) and three tag-dictionary sentences; a dict line starting with `/` ends the tool with an error -/
example :
    (trainCliInputs false [] [] [['a', 'b', '\n', 'z', 'z', ' ', 'c', '\n', 'a', 'b', '\n']]).map
        (fun i => (i.dictWords, i.tagDict.length)) = .ok ([['ａ', 'ｂ'], ['ｃ'], ['ｚ', 'ｚ']], 3) ∧
    (trainCliInputs true [] [] [['a', 'b', '\n', 'z', 'z', ' ', 'c', '\n', 'a', 'b', '\n']]).map
        (fun i => (i.dictWords, i.tagDict.length)) = .ok ([['a', 'b'], ['c'], ['z', 'z']], 3) ∧
    (trainCliInputs false [] [] [['a', 'b', '\n', '/', 'c', '\n']]).map (fun i => i.dictWords) = .err .invalidArgument := by
  decide +kernel

end V

/-! ## window size 0 (`--charw 0`, `--typew 0`): the kind of n-gram is switched off

`C11_assembled_wf` and `C11_trained_predictor_scores` need both windows to be at least 1.  The theorems below cover 0..255:
`ngramFeats 0 N` is empty, so the trace has no n-gram feature of a switched-off kind, the assembled model has no n-gram of that
kind, and the predictor (which would ignore them anyway, `C01_scores_window0`) reports exactly bias + learned weights. -/
namespace V

/-- the boundary model assembled from the learner's output is well-formed in the sense of `WFModel0` for windows 0..255 -/
theorem C11_assembled_wf0 (cfg : TrainCfg) (hc : CfgOK cfg) (hcw : cfg.charW ≤ 255) (htw : cfg.typeW ≤ 255)
    (hlen : ∀ w ∈ cfg.dictWords, w.length ≤ 32767)
    (trace : List (Feature × Int)) (bias : Int) (tms : List TagModel)
    (hg : ∀ e ∈ trace, Generable cfg e.1) (m : WModel) (h : assembleBoundary cfg trace bias tms = .ok m) :
    WFModel0 m :=
  (C11L.assembled_wf0 cfg hc.words_ne hc.words_nodup hc.maxlen_pos hcw htw hlen trace bias tms hg m h).1

/-- it contains no n-gram of a kind whose window is 0, so nothing of it is ignored by the predictor -/
theorem C11_assembled_dropW0 (cfg : TrainCfg) (hc : CfgOK cfg) (hcw : cfg.charW ≤ 255) (htw : cfg.typeW ≤ 255)
    (hlen : ∀ w ∈ cfg.dictWords, w.length ≤ 32767)
    (trace : List (Feature × Int)) (bias : Int) (tms : List TagModel)
    (hg : ∀ e ∈ trace, Generable cfg e.1) (m : WModel) (h : assembleBoundary cfg trace bias tms = .ok m) :
    (m.charW = 0 → m.charNgrams = []) ∧ (m.typeW = 0 → m.typeNgrams = []) ∧ dropW0 m = m :=
  have hw := C11L.assembled_wf0 cfg hc.words_ne hc.words_nodup hc.maxlen_pos hcw htw hlen trace bias tms hg m h
  ⟨hw.2.1, hw.2.2, dropW0_of_empty m hw.2.1 hw.2.2⟩

/-- `C11_predictor_accepts` for windows 0..255: every `WFModel0` with well-formed tag models whose tag n-grams each carry at
least one weight is accepted by the predictor, with and without tag prediction, in every build configuration (with a zero
window the n-grams of that kind, however ill-formed, cannot make the construction fail) -/
theorem C11_predictor_accepts_window0 (cfg : Cfg) (m : WModel) (hm : WFModel0 m) (ht : WFTags m)
    (hw : ∀ tm ∈ m.tagModels, (∀ d ∈ tm.charNgrams, d.weights ≠ []) ∧ (∀ d ∈ tm.typeNgrams, d.weights ≠ []))
    (pt : Bool) (hcfg : pt = true → cfg.tagPred = true) : ∃ p, Predictor.new cfg m pt = .ok p :=
  C11L.new_total0 cfg m hm
    (fun tm htm d hd => ⟨(ht.char_ok tm htm d hd).1, (hw tm htm).1 d hd⟩)
    (fun tm htm d hd => ⟨(ht.type_ok tm htm d hd).1, (hw tm htm).2 d hd⟩) pt hcfg

/-- `C11_predict_total` for windows 0..255: the predictor built from a `WFModel0` (with well-formed tag models) predicts and
tags ANY non-empty text without panicking, with or without score storing — `--charw 0` / `--typew 0` included, whatever the
n-grams of the switched-off kind are -/
theorem C11_predict_total_window0 (cfg : Cfg) (m : WModel) (hm : WFModel0 m) (ht : WFTags m) (pt : Bool) (p : Predictor)
    (hp : Predictor.new cfg m pt = .ok p) (store : Bool) (s : Sentence) (hs : SentOK s) (pid : Nat) :
    ∃ s1, p.predict pid s = .ok s1 ∧
      (pt = true → ∃ s2, ({ p with storeTagScores := store } : Predictor).predictTags s1 = .ok s2) := by
  obtain ⟨s1, h1, _⟩ := C01_scores_window0 cfg m hm pt p hp s hs pid
  refine ⟨s1, h1, fun hpt => ?_⟩
  subst hpt
  exact C06L.predictTags_total0 cfg m hm.char_shape hm.type_shape (fun d hd => (hm.dict_shape d hd).1) ht.toL p hp store
    s s1 hs.text_ne hs.types_eq hs.bounds_len pid h1

/-- **end to end, windows 0..255** (C09 ∘ C11 ∘ C01): as `C11_trained_predictor_scores` without the lower bounds on the
windows -/
theorem C11_trained_predictor_scores_window0 (tc : TrainCfg) (hc : CfgOK tc) (hcw : tc.charW ≤ 255)
    (htw : tc.typeW ≤ 255) (hlen : ∀ w ∈ tc.dictWords, w.length ≤ 32767)
    (trace : List (Feature × Int)) (bias : Int) (tms : List TagModel)
    (hnd : (trace.map Prod.fst).Nodup) (hg : ∀ e ∈ trace, Generable tc e.1) (m : WModel)
    (h : assembleBoundary tc trace bias tms = .ok m)
    (cfg : Cfg) (pt : Bool) (p : Predictor) (hp : Predictor.new cfg m pt = .ok p)
    (s : Sentence) (hs : SentOK s) (pid : Nat) :
    ∃ s', p.predict pid s = .ok s' ∧
      s'.boundaryScores = .ok ((List.range (s.text.length - 1)).map fun b =>
        bias + ((genFeatures tc s.text b).map (wqOf trace)).sum) := by
  have hwf : WFModel0 m := C11_assembled_wf0 tc hc hcw htw hlen trace bias tms hg m h
  obtain ⟨s', h1, h2, _⟩ := C01_scores_window0 cfg m hwf pt p hp s hs pid
  refine ⟨s', h1, ?_⟩
  rw [h2, (C11_assembled_dropW0 tc hc hcw htw hlen trace bias tms hg m h).2.2]
  congr 1
  unfold specScores
  apply List.map_congr_left
  intro b hb
  have hb' : b + 1 < s.text.length := by
    have := List.mem_range.mp hb
    omega
  exact C09_scores tc hc trace bias tms hnd hg m h s.text b hb'

/-! ### non-vacuity: training with `--charw 0` (character n-gram size 2 requested but switched off), a type n-gram and a
dictionary word -/
namespace C11Ex0

def tc : TrainCfg :=
  { charW := 0, charN := 2, typeW := 1, typeN := 1, dictWords := [['a', 'b']], dictMaxLen := 1 }
def text : List Char := ['a', 'b', 'a']
def trace : List (Feature × Int) :=
  [(.typeNgram [2] (-1), 11), (.typeNgram [2] 0, -2), (.dictWord 1 .inside, 13), (.dictWord 1 .right, -40)]
def model : WModel :=
  { charNgrams := [], typeNgrams := [⟨[2], [-2, 11]⟩], dict := [⟨['a', 'b'], [0, 13, -40], []⟩],
    bias := -20, charW := 0, typeW := 1, tagModels := [] }
def sentence : Sentence := { Sentence.default with text := text, types := typesOf text, bounds := [B.U, B.U] }

/-- with window 0 the trainer extracts no character n-gram at all -/
example : ∀ i, i < 2 → ngramFeats tc.charW tc.charN text i = [] := by decide

/-- the hypotheses of `C11_assembled_wf0` / `C11_trained_predictor_scores_window0` are satisfiable with a zero window, the
assembled model is the expected one and satisfies the conclusions (`WFModel0`, nothing to drop) -/
example :
    CfgOK tc ∧ tc.charW ≤ 255 ∧ tc.typeW ≤ 255 ∧ (∀ w ∈ tc.dictWords, w.length ≤ 32767) ∧ (trace.map Prod.fst).Nodup ∧
    (∀ e ∈ trace, Generable tc e.1) ∧ assembleBoundary tc trace (-20) [] = .ok model ∧ SentOK sentence ∧
    WFModel0 model ∧ dropW0 model = model := by
  refine ⟨⟨by decide, by decide, by decide⟩, by decide, by decide, by decide, by decide, ?_, by decide,
    ⟨by decide, rfl, rfl⟩,
    { charW_le := by decide, typeW_le := by decide, char_nodup := by decide, char_shape := by decide,
      type_nodup := by decide, type_shape := by decide, dict_nodup := by decide, dict_shape := by decide }, by decide⟩
  intro e he
  have hgen : ∀ i, i + 1 < text.length → ∀ f, f ∈ genFeatures tc text i → Generable tc f :=
    fun i hi f hf => ⟨text, i, hi, hf⟩
  have : ∀ e ∈ trace, e.1 ∈ genFeatures tc text 0 ∨ e.1 ∈ genFeatures tc text 1 := by decide
  rcases this e he with h | h
  · exact hgen 0 (by decide) _ h
  · exact hgen 1 (by decide) _ h

/-- non-vacuity of `C11_predictor_accepts_window0`: the model of `C01.lean` with character window 0, ill-formed character
n-grams and a tag model satisfies its hypotheses, and is accepted -/
example : WFTags C01_exModel0 ∧
    (∀ tm ∈ C01_exModel0.tagModels, (∀ d ∈ tm.charNgrams, d.weights ≠ []) ∧ (∀ d ∈ tm.typeNgrams, d.weights ≠ [])) :=
  ⟨⟨by decide, by decide, by decide, by decide⟩, by decide⟩
example : (Predictor.new {} C01_exModel0 true).isOk = true ∧ (Predictor.new {} C01_exModel0 false).isOk = true := by decide

/-- non-vacuity of `C11_predict_total_window0` on the same model (`WFModel0 C01_exModel0`, `SentOK C01_exSentence` are in
`C01.lean`): prediction then tagging succeed, with and without score storing, and the final `a` gets the tag chosen by the
character tag n-gram (character window 0); without tag prediction `predict` alone succeeds -/
def predictTag0 (store : Bool) : Res (List Tag) :=
  (Predictor.new {} C01_exModel0 true).bind fun p =>
    (p.predict 7 C01_exSentence).bind fun s1 =>
      (({ p with storeTagScores := store } : Predictor).predictTags s1).map (·.tags)

example : predictTag0 true = .ok [none, none, some ['y']] ∧ predictTag0 false = .ok [none, none, some ['y']] := by decide
example : ((Predictor.new {} C01_exModel0 false).bind fun p => p.predict 7 C01_exSentence).isOk = true := by decide

def predict (cfg : Cfg) (pt : Bool) : Res (List Int) :=
  match Predictor.new cfg model pt with
  | .ok p => (p.predict 7 sentence).bind (·.boundaryScores)
  | .err e => .err e
  | .panic x => .panic x
  | .ub x => .ub x

/-- the predictor built from it (cached, plain, tag-aware configuration) reports on `aba` the learned numbers:
boundary 0: −20 + 11 − 2 + 13 (inside `ab`) = 2, boundary 1: −20 + 11 − 2 − 40 (right of `ab`) = −51 -/
example : (List.range (text.length - 1)).map (fun b => -20 + ((genFeatures tc text b).map (wqOf trace)).sum)
    = [2, -51] := by decide
example : predict {} false = .ok [2, -51] := by decide
example : predict { fixed := false, cache := false, tagPred := false } false = .ok [2, -51] := by decide
example : predict {} true = .ok [2, -51] := by decide

end C11Ex0

end V
