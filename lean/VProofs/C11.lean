import VProofs.C01
import VProofs.C06
import VProofs.C09
import VProofs.C12
import VProofs.Lemmas.UseNew
import VProofs.Lemmas.UseAsm
import VProofs.Lemmas.UseTag
import VProofs.Lemmas.TrainCli
import VProofs.Lemmas.ScoreWindow0b
import VProofs.Lemmas.QuantAll
import VProofs.Lemmas.QuantBits
/-!
# C11 — Training is total and its output is always usable

What a theorem can carry here is the bookkeeping around the learner: assembling never panics, the assembled model is
well-formed, and every well-formed model is accepted by the predictor and predicts/tags without panicking.  liblinear itself
(its error returns, label order, NaN) is the runtime remainder, covered by the solver sweep of
the check (all eight solvers × sizes incl. 0 × six corpus kinds, each followed by write → read → predict + fill_tags); the `f64`
quantisation of the learned weights is modelled exactly (`VModel/Quantize.lean`) and treated in the last section of this file.
Property theorems only (helper lemmas live in `VProofs/Lemmas/Use*.lean`).
-/
namespace V

/-- every well-formed model (with well-formed tag models) whose tag n-grams each carry at least one weight is accepted by
the predictor, with and without tag prediction, in every build configuration …

`hw` is needed: a tag n-gram with an EMPTY `weights` list defeats the "nothing to score" early return of
`CharScorer::new` / `TypeScorer::new` but adds no pattern, so a model with no boundary character n-grams and no
dictionary (resp. no type n-grams) whose only tag n-gram has no weights satisfies `WFModel` and `WFTags` and yet makes
`Predictor.new cfg m true` return `.err .invalidModel` (empty pattern set).  The models the trainer assembles satisfy
`hw` (`C11_tags_weights_ne`). -/
theorem C11_predictor_accepts (cfg : Cfg) (m : WModel) (hm : WFModel m) (ht : WFTags m)
    (hw : ∀ tm ∈ m.tagModels, (∀ d ∈ tm.charNgrams, d.weights ≠ []) ∧ (∀ d ∈ tm.typeNgrams, d.weights ≠ []))
    (pt : Bool) (hcfg : pt = true → cfg.tagPred = true) : ∃ p, Predictor.new cfg m pt = .ok p :=
  C11L.new_total cfg m hm
    (fun tm htm d hd => ⟨(ht.char_ok tm htm d hd).1, (hw tm htm).1 d hd⟩)
    (fun tm htm d hd => ⟨(ht.type_ok tm htm d hd).1, (hw tm htm).2 d hd⟩) pt hcfg

/-- … and the predictor then predicts and tags ANY non-empty text without panicking, with or without score storing -/
theorem C11_predict_total (cfg : Cfg) (m : WModel) (hm : WFModel m) (ht : WFTags m) (pt : Bool) (p : Predictor)
    (hp : Predictor.new cfg m pt = .ok p) (store : Bool) (s : Sentence) (hs : SentOK s) (pid : Nat) :
    ∃ s1, p.predict pid s = .ok s1 ∧
      (pt = true → ∃ s2, ({ p with storeTagScores := store } : Predictor).predictTags s1 = .ok s2) := by
  obtain ⟨s1, h1, _⟩ := C01_scores cfg m hm pt p hp s hs pid
  refine ⟨s1, h1, fun hpt => ?_⟩
  subst hpt
  exact C11L.predictTags_total cfg m hm ht p hp store s s1 hs pid h1

/-- the boundary model assembled from the learner's output is well-formed whenever both windows are at least 1 (any n-gram
sizes, any dictionary accepted by `Trainer::new` with length bucket ≥ 1, any quantised weights) -/
theorem C11_assembled_wf (cfg : TrainCfg) (hc : CfgOK cfg) (hcw : 1 ≤ cfg.charW ∧ cfg.charW ≤ 255)
    (htw : 1 ≤ cfg.typeW ∧ cfg.typeW ≤ 255) (hlen : ∀ w ∈ cfg.dictWords, w.length ≤ 32767)
    (trace : List (Feature × Int)) (bias : Int) (tms : List TagModel)
    (hg : ∀ e ∈ trace, Generable cfg e.1) (m : WModel) (h : assembleBoundary cfg trace bias tms = .ok m) :
    WFModel m :=
  C11L.assembled_wf cfg hc.words_ne hc.words_nodup hc.maxlen_pos hcw htw hlen trace bias tms hg m h

/-- assembling a tag model never panics when every recorded class lies inside the trainable classes of its token -/
theorem C11_tag_assemble_total (token : List Char) (examples : List (List Tag)) (trace : List TagTraceItem)
    (hslots : ∀ t ∈ trace, t.token = token → t.offset + t.cls < nClass (collectTags examples)) :
    ∃ tm, assembleTag token examples trace = .ok tm :=
  C11L.assembleTag_total token examples trace hslots

/-- the assembled tag models are well-formed (distinct tokens; bias and weight vectors sized to the trainable classes;
non-empty n-grams; type codes in 1..6) when the recorded features are tag features of actual tokens -/
theorem C11_tags_wf (m : WModel) (corpus : List TagExample) (dict : List (List Char × List Tag))
    (trace : List TagTraceItem) (tms : List TagModel) (h : assembleTags corpus dict trace = .ok tms)
    (hne : ∀ t ∈ trace, ∀ f, t.feat = some f →
      (match f with
       | .charNgram g _ => g ≠ []
       | .typeNgram g _ => g ≠ [] ∧ ∀ c ∈ g, 1 ≤ c ∧ c ≤ 6))
    (hm : m.tagModels = tms) : WFTags m := by
  subst hm
  have hkeys : ∀ tm ∈ m.tagModels, tm.bias.length = nClass tm.tags ∧
      (∀ d ∈ tm.charNgrams, d.ngram ≠ [] ∧ ∀ w ∈ d.weights, w.weights.length = nClass tm.tags) ∧
      (∀ d ∈ tm.typeNgrams, d.ngram ≠ [] ∧ (∀ t ∈ d.ngram, 1 ≤ t ∧ t ≤ 6) ∧
        ∀ w ∈ d.weights, w.weights.length = nClass tm.tags) := by
    intro tm htm
    obtain ⟨token, examples, hok⟩ := C11L.assembleTags_mem corpus dict trace _ h tm htm
    obtain ⟨_, _, hb, hcs, hts⟩ := C12_sizes token examples trace tm hok
    obtain ⟨hck, htk⟩ := C11L.assembleTag_keys token examples trace tm (fun g => g ≠ [])
      (fun g => g ≠ [] ∧ ∀ c ∈ g, 1 ≤ c ∧ c ≤ 6)
      (fun t ht g rel hf => hne t ht (.charNgram g rel) hf) (fun t ht g rel hf => hne t ht (.typeNgram g rel) hf) hok
    exact ⟨hb, fun d hd => ⟨(hck d hd).1, hcs d hd⟩, fun d hd => ⟨(htk d hd).1.1, (htk d hd).1.2, hts d hd⟩⟩
  exact ⟨(C12_tokens corpus dict trace _ h).1, fun tm htm => (hkeys tm htm).1, fun tm htm => (hkeys tm htm).2.1,
    fun tm htm => (hkeys tm htm).2.2⟩

/-- the tag models the trainer assembles never contain a tag n-gram without weights (`groupTagWeights` emits an n-gram
only together with a weight), which is the extra hypothesis of `C11_predictor_accepts` -/
theorem C11_tags_weights_ne (corpus : List TagExample) (dict : List (List Char × List Tag))
    (trace : List TagTraceItem) (tms : List TagModel) (h : assembleTags corpus dict trace = .ok tms) :
    ∀ tm ∈ tms, (∀ d ∈ tm.charNgrams, d.weights ≠ []) ∧ (∀ d ∈ tm.typeNgrams, d.weights ≠ []) := by
  intro tm htm
  obtain ⟨token, examples, hok⟩ := C11L.assembleTags_mem corpus dict trace tms h tm htm
  obtain ⟨hck, htk⟩ := C11L.assembleTag_keys token examples trace tm (fun _ => True) (fun _ => True)
    (fun _ _ _ _ _ => trivial) (fun _ _ _ _ _ => trivial) hok
  exact ⟨fun d hd => (hck d hd).2, fun d hd => (htk d hd).2⟩

/-! ## the hypothesis `hw` of `C11_predictor_accepts` cannot be dropped: a well-formed model whose only character pattern
would be a tag n-gram without weights is rejected (with an error, not a panic) when tag prediction is requested -/

def C11_exNoWeights : WModel :=
  { charNgrams := [], typeNgrams := [⟨[2], [3, 4]⟩], dict := [], bias := 0, charW := 1, typeW := 1,
    tagModels := [{ token := ['a'], tags := [], charNgrams := [⟨['b'], []⟩], typeNgrams := [], bias := [] }] }

example : WFModel C11_exNoWeights :=
  { charW_pos := by decide, charW_le := by decide, typeW_pos := by decide, typeW_le := by decide,
    char_nodup := by decide, char_shape := by decide, type_nodup := by decide, type_shape := by decide,
    dict_nodup := by decide, dict_shape := by decide }
example : WFTags C11_exNoWeights := ⟨by decide, by decide, by decide, by decide⟩
example : (Predictor.new {} C11_exNoWeights true).map (fun _ => ()) = .err .invalidModel := by decide
example : (Predictor.new {} C11_exNoWeights false).isOk = true := by decide

end V

namespace V

/-- **end to end** (C09 ∘ C11 ∘ C01): for windows ≥ 1, the PREDICTOR built from the model that training returns — in every
build configuration, with or without tag prediction — reports, for every boundary of every non-empty text, exactly the learned
quantised bias plus the learned quantised weight of each feature the trainer extracts for that boundary -/
theorem C11_trained_predictor_scores (tc : TrainCfg) (hc : CfgOK tc) (hcw : 1 ≤ tc.charW ∧ tc.charW ≤ 255)
    (htw : 1 ≤ tc.typeW ∧ tc.typeW ≤ 255) (hlen : ∀ w ∈ tc.dictWords, w.length ≤ 32767)
    (trace : List (Feature × Int)) (bias : Int) (tms : List TagModel)
    (hnd : (trace.map Prod.fst).Nodup) (hg : ∀ e ∈ trace, Generable tc e.1) (m : WModel)
    (h : assembleBoundary tc trace bias tms = .ok m)
    (cfg : Cfg) (pt : Bool) (p : Predictor) (hp : Predictor.new cfg m pt = .ok p)
    (s : Sentence) (hs : SentOK s) (pid : Nat) :
    ∃ s', p.predict pid s = .ok s' ∧
      s'.boundaryScores = .ok ((List.range (s.text.length - 1)).map fun b =>
        bias + ((genFeatures tc s.text b).map (wqOf trace)).sum) := by
  have hwf : WFModel m := C11_assembled_wf tc hc hcw htw hlen trace bias tms hg m h
  obtain ⟨s', h1, h2, _⟩ := C01_scores cfg m hwf pt p hp s hs pid
  refine ⟨s', h1, ?_⟩
  rw [h2]
  congr 1
  unfold specScores
  apply List.map_congr_left
  intro b hb
  have hb' : b + 1 < s.text.length := by
    have := List.mem_range.mp hb
    omega
  exact C09_scores tc hc trace bias tms hnd hg m h s.text b hb'

/-! ## the `train` tool: its loading stage is total, and the dictionary it builds is always accepted by `Trainer::new` -/

/-- whatever the input files contain, the loading stage of `train` ends with the arguments for the trainer or with an error:
it never panics -/
theorem C11_train_tool_loading_total (nn : Bool) (tok part dict : List (List Char)) :
    (trainCliInputs nn tok part dict).Safe := by
  exact TrainCliL.trainCliInputs_safe nn tok part dict

/-- the word dictionary the tool hands to `Trainer::new` is strictly sorted (code point order), hence without repetition,
contains no empty word, consists exactly of the token surfaces of the (normalised) dictionary lines, and is therefore always
accepted by `Trainer::new` (the automaton construction cannot fail on an empty or a repeated pattern) -/
theorem C11_train_tool_dictionary (nn : Bool) (tok part dict : List (List Char)) (inp : TrainInputs)
    (h : trainCliInputs nn tok part dict = .ok inp) :
    inp.dictWords.Pairwise (fun a b => lexLt ltChar a b = true) ∧
    (∀ w, w ∈ inp.dictWords ↔ ∃ s ∈ inp.tagDict, ∃ p ∈ iterTokens s.bounds, s.substring p.1 p.2 = .ok w) ∧
    (∀ cw cn tw tn ml, trainerNewOk ⟨cw, cn, tw, tn, inp.dictWords, ml⟩ = true) := by
  exact TrainCliL.dictionary_spec h

/-- non-vacuity: the dict file `ab⏎zz c⏎ab⏎` gives the sorted, repetition-free word list `ａｂ, ｃ, ｚｚ` (`ab, c, zz` under
`--no-norm`) and three tag-dictionary sentences; a dict line starting with `/` ends the tool with an error -/
example :
    (trainCliInputs false [] [] [['a', 'b', '\n', 'z', 'z', ' ', 'c', '\n', 'a', 'b', '\n']]).map
        (fun i => (i.dictWords, i.tagDict.length)) = .ok ([['ａ', 'ｂ'], ['ｃ'], ['ｚ', 'ｚ']], 3) ∧
    (trainCliInputs true [] [] [['a', 'b', '\n', 'z', 'z', ' ', 'c', '\n', 'a', 'b', '\n']]).map
        (fun i => (i.dictWords, i.tagDict.length)) = .ok ([['a', 'b'], ['c'], ['z', 'z']], 3) ∧
    (trainCliInputs false [] [] [['a', 'b', '\n', '/', 'c', '\n']]).map (fun i => i.dictWords) = .err .invalidArgument := by
  decide +kernel

end V

/-! ## window size 0 (`--charw 0`, `--typew 0`): the kind of n-gram is switched off

`C11_assembled_wf` and `C11_trained_predictor_scores` need both windows to be at least 1.  The theorems below cover 0..255:
`ngramFeats 0 N` is empty, so the trace has no n-gram feature of a switched-off kind, the assembled model has no n-gram of that
kind, and the predictor (which would ignore them anyway, `C01_scores_window0`) reports exactly bias + learned weights. -/
namespace V

/-- the boundary model assembled from the learner's output is well-formed in the sense of `WFModel0` for windows 0..255 -/
theorem C11_assembled_wf0 (cfg : TrainCfg) (hc : CfgOK cfg) (hcw : cfg.charW ≤ 255) (htw : cfg.typeW ≤ 255)
    (hlen : ∀ w ∈ cfg.dictWords, w.length ≤ 32767)
    (trace : List (Feature × Int)) (bias : Int) (tms : List TagModel)
    (hg : ∀ e ∈ trace, Generable cfg e.1) (m : WModel) (h : assembleBoundary cfg trace bias tms = .ok m) :
    WFModel0 m :=
  (C11L.assembled_wf0 cfg hc.words_ne hc.words_nodup hc.maxlen_pos hcw htw hlen trace bias tms hg m h).1

/-- it contains no n-gram of a kind whose window is 0, so nothing of it is ignored by the predictor -/
theorem C11_assembled_dropW0 (cfg : TrainCfg) (hc : CfgOK cfg) (hcw : cfg.charW ≤ 255) (htw : cfg.typeW ≤ 255)
    (hlen : ∀ w ∈ cfg.dictWords, w.length ≤ 32767)
    (trace : List (Feature × Int)) (bias : Int) (tms : List TagModel)
    (hg : ∀ e ∈ trace, Generable cfg e.1) (m : WModel) (h : assembleBoundary cfg trace bias tms = .ok m) :
    (m.charW = 0 → m.charNgrams = []) ∧ (m.typeW = 0 → m.typeNgrams = []) ∧ dropW0 m = m :=
  have hw := C11L.assembled_wf0 cfg hc.words_ne hc.words_nodup hc.maxlen_pos hcw htw hlen trace bias tms hg m h
  ⟨hw.2.1, hw.2.2, dropW0_of_empty m hw.2.1 hw.2.2⟩

/-- `C11_predictor_accepts` for windows 0..255: every `WFModel0` with well-formed tag models whose tag n-grams each carry at
least one weight is accepted by the predictor, with and without tag prediction, in every build configuration (with a zero
window the n-grams of that kind, however ill-formed, cannot make the construction fail) -/
theorem C11_predictor_accepts_window0 (cfg : Cfg) (m : WModel) (hm : WFModel0 m) (ht : WFTags m)
    (hw : ∀ tm ∈ m.tagModels, (∀ d ∈ tm.charNgrams, d.weights ≠ []) ∧ (∀ d ∈ tm.typeNgrams, d.weights ≠ []))
    (pt : Bool) (hcfg : pt = true → cfg.tagPred = true) : ∃ p, Predictor.new cfg m pt = .ok p :=
  C11L.new_total0 cfg m hm
    (fun tm htm d hd => ⟨(ht.char_ok tm htm d hd).1, (hw tm htm).1 d hd⟩)
    (fun tm htm d hd => ⟨(ht.type_ok tm htm d hd).1, (hw tm htm).2 d hd⟩) pt hcfg

/-- `C11_predict_total` for windows 0..255: the predictor built from a `WFModel0` (with well-formed tag models) predicts and
tags ANY non-empty text without panicking, with or without score storing — `--charw 0` / `--typew 0` included, whatever the
n-grams of the switched-off kind are -/
theorem C11_predict_total_window0 (cfg : Cfg) (m : WModel) (hm : WFModel0 m) (ht : WFTags m) (pt : Bool) (p : Predictor)
    (hp : Predictor.new cfg m pt = .ok p) (store : Bool) (s : Sentence) (hs : SentOK s) (pid : Nat) :
    ∃ s1, p.predict pid s = .ok s1 ∧
      (pt = true → ∃ s2, ({ p with storeTagScores := store } : Predictor).predictTags s1 = .ok s2) := by
  obtain ⟨s1, h1, _⟩ := C01_scores_window0 cfg m hm pt p hp s hs pid
  refine ⟨s1, h1, fun hpt => ?_⟩
  subst hpt
  exact C06L.predictTags_total0 cfg m hm.char_shape hm.type_shape (fun d hd => (hm.dict_shape d hd).1) ht.toL p hp store
    s s1 hs.text_ne hs.types_eq hs.bounds_len pid h1

/-- **end to end, windows 0..255** (C09 ∘ C11 ∘ C01): as `C11_trained_predictor_scores` without the lower bounds on the
windows -/
theorem C11_trained_predictor_scores_window0 (tc : TrainCfg) (hc : CfgOK tc) (hcw : tc.charW ≤ 255)
    (htw : tc.typeW ≤ 255) (hlen : ∀ w ∈ tc.dictWords, w.length ≤ 32767)
    (trace : List (Feature × Int)) (bias : Int) (tms : List TagModel)
    (hnd : (trace.map Prod.fst).Nodup) (hg : ∀ e ∈ trace, Generable tc e.1) (m : WModel)
    (h : assembleBoundary tc trace bias tms = .ok m)
    (cfg : Cfg) (pt : Bool) (p : Predictor) (hp : Predictor.new cfg m pt = .ok p)
    (s : Sentence) (hs : SentOK s) (pid : Nat) :
    ∃ s', p.predict pid s = .ok s' ∧
      s'.boundaryScores = .ok ((List.range (s.text.length - 1)).map fun b =>
        bias + ((genFeatures tc s.text b).map (wqOf trace)).sum) := by
  have hwf : WFModel0 m := C11_assembled_wf0 tc hc hcw htw hlen trace bias tms hg m h
  obtain ⟨s', h1, h2, _⟩ := C01_scores_window0 cfg m hwf pt p hp s hs pid
  refine ⟨s', h1, ?_⟩
  rw [h2, (C11_assembled_dropW0 tc hc hcw htw hlen trace bias tms hg m h).2.2]
  congr 1
  unfold specScores
  apply List.map_congr_left
  intro b hb
  have hb' : b + 1 < s.text.length := by
    have := List.mem_range.mp hb
    omega
  exact C09_scores tc hc trace bias tms hnd hg m h s.text b hb'

/-! ### non-vacuity: training with `--charw 0` (character n-gram size 2 requested but switched off), a type n-gram and a
dictionary word -/
namespace C11Ex0

def tc : TrainCfg :=
  { charW := 0, charN := 2, typeW := 1, typeN := 1, dictWords := [['a', 'b']], dictMaxLen := 1 }
def text : List Char := ['a', 'b', 'a']
def trace : List (Feature × Int) :=
  [(.typeNgram [2] (-1), 11), (.typeNgram [2] 0, -2), (.dictWord 1 .inside, 13), (.dictWord 1 .right, -40)]
def model : WModel :=
  { charNgrams := [], typeNgrams := [⟨[2], [-2, 11]⟩], dict := [⟨['a', 'b'], [0, 13, -40], []⟩],
    bias := -20, charW := 0, typeW := 1, tagModels := [] }
def sentence : Sentence := { Sentence.default with text := text, types := typesOf text, bounds := [B.U, B.U] }

/-- with window 0 the trainer extracts no character n-gram at all -/
example : ∀ i, i < 2 → ngramFeats tc.charW tc.charN text i = [] := by decide

/-- the hypotheses of `C11_assembled_wf0` / `C11_trained_predictor_scores_window0` are satisfiable with a zero window, the
assembled model is the expected one and satisfies the conclusions (`WFModel0`, nothing to drop) -/
example :
    CfgOK tc ∧ tc.charW ≤ 255 ∧ tc.typeW ≤ 255 ∧ (∀ w ∈ tc.dictWords, w.length ≤ 32767) ∧ (trace.map Prod.fst).Nodup ∧
    (∀ e ∈ trace, Generable tc e.1) ∧ assembleBoundary tc trace (-20) [] = .ok model ∧ SentOK sentence ∧
    WFModel0 model ∧ dropW0 model = model := by
  refine ⟨⟨by decide, by decide, by decide⟩, by decide, by decide, by decide, by decide, ?_, by decide,
    ⟨by decide, rfl, rfl⟩,
    { charW_le := by decide, typeW_le := by decide, char_nodup := by decide, char_shape := by decide,
      type_nodup := by decide, type_shape := by decide, dict_nodup := by decide, dict_shape := by decide }, by decide⟩
  intro e he
  have hgen : ∀ i, i + 1 < text.length → ∀ f, f ∈ genFeatures tc text i → Generable tc f :=
    fun i hi f hf => ⟨text, i, hi, hf⟩
  have : ∀ e ∈ trace, e.1 ∈ genFeatures tc text 0 ∨ e.1 ∈ genFeatures tc text 1 := by decide
  rcases this e he with h | h
  · exact hgen 0 (by decide) _ h
  · exact hgen 1 (by decide) _ h

/-- non-vacuity of `C11_predictor_accepts_window0`: the model of `C01.lean` with character window 0, ill-formed character
n-grams and a tag model satisfies its hypotheses, and is accepted -/
example : WFTags C01_exModel0 ∧
    (∀ tm ∈ C01_exModel0.tagModels, (∀ d ∈ tm.charNgrams, d.weights ≠ []) ∧ (∀ d ∈ tm.typeNgrams, d.weights ≠ [])) :=
  ⟨⟨by decide, by decide, by decide, by decide⟩, by decide⟩
example : (Predictor.new {} C01_exModel0 true).isOk = true ∧ (Predictor.new {} C01_exModel0 false).isOk = true := by decide

/-- non-vacuity of `C11_predict_total_window0` on the same model (`WFModel0 C01_exModel0`, `SentOK C01_exSentence` are in
`C01.lean`): prediction then tagging succeed, with and without score storing, and the final `a` gets the tag chosen by the
character tag n-gram (character window 0); without tag prediction `predict` alone succeeds -/
def predictTag0 (store : Bool) : Res (List Tag) :=
  (Predictor.new {} C01_exModel0 true).bind fun p =>
    (p.predict 7 C01_exSentence).bind fun s1 =>
      (({ p with storeTagScores := store } : Predictor).predictTags s1).map (·.tags)

example : predictTag0 true = .ok [none, none, some ['y']] ∧ predictTag0 false = .ok [none, none, some ['y']] := by decide
example : ((Predictor.new {} C01_exModel0 false).bind fun p => p.predict 7 C01_exSentence).isOk = true := by decide

def predict (cfg : Cfg) (pt : Bool) : Res (List Int) :=
  match Predictor.new cfg model pt with
  | .ok p => (p.predict 7 sentence).bind (·.boundaryScores)
  | .err e => .err e
  | .panic x => .panic x
  | .ub x => .ub x

/-- the predictor built from it (cached, plain, tag-aware configuration) reports on `aba` the learned numbers:
boundary 0: −20 + 11 − 2 + 13 (inside `ab`) = 2, boundary 1: −20 + 11 − 2 − 40 (right of `ab`) = −51 -/
example : (List.range (text.length - 1)).map (fun b => -20 + ((genFeatures tc text b).map (wqOf trace)).sum)
    = [2, -51] := by decide
example : predict {} false = .ok [2, -51] := by decide
example : predict { fixed := false, cache := false, tagPred := false } false = .ok [2, -51] := by decide
example : predict {} true = .ok [2, -51] := by decide

end C11Ex0

end V

/-! ## the `f64` quantisation of `Trainer::train` / `TagTrainer::train`, inside the model (`VModel/Quantize.lean`)

`weight_max / 32767.0`, `raw / multiplier` and `to_int_unchecked::<i32>` are modelled exactly (IEEE-754 binary64, round to
nearest even, subnormals, ±∞/NaN; a finite value is a sign and a number of units `2^-1074`).  The claim "every returned model
contains only weights within the signed 16-bit range" is TRUE from `weight_max ≥ 2^-1045` on (`C11_quantise_range`,
`C11_quantise_total`) and FALSE below (`weight_max = 2^-1059` or `(2^29 − 2^15)·2^-1074` give the weight 32768; `49150·2^-1074`
gives 49150): there the multiplier is a subnormal with fewer than 15 significant bits and its rounding error alone exceeds
`2^-15`.  Undefined behaviour (`to_int_unchecked` on NaN/∞/out of `i32`) is impossible for finite inputs whatever their size
(`C11_quantise_no_ub`); with a NaN or infinite coefficient it does occur (examples at the end).
Helper lemmas: `VProofs/Lemmas/Quant{Round,Grid,Main,All,Bits}.lean`. -/
namespace V
open F64

/-- the threshold `T = 2^-1045` (bit pattern `0x0000000020000000`, `2^29` units of `2^-1074`) -/
abbrev C11_quantThreshold : F64 := QuantL.quantThreshold

example : C11_quantThreshold = .fin false (2 ^ 29) ∧ C11_quantThreshold = F64.ofBits 0x20000000 :=
  ⟨QuantL.quantThreshold_eq, rfl⟩

/-- **range**: for finite `x`, `M` with `|x| ≤ M` and `M ≥ T = 2^-1045`, `x / (M / 32767.0)` truncates to a value within ±32767;
in particular `to_int_unchecked` is used inside its contract.  (`M ≥ T > 0` makes `M` positive; the statement holds for every
number of units, i.e. also for "finite values" that are not doubles.) -/
theorem C11_quantise_range (x M : F64) (hx : x.Finite) (hM : M.Finite)
    (hxM : f64Le (f64Abs x) M = true) (hT : f64Le C11_quantThreshold M = true) :
    ∃ w, quantise x (quantMultiplier M) = .ok w ∧ -32767 ≤ w ∧ w ≤ 32767 := by
  obtain ⟨s, a, rfl, _⟩ := QuantL.finite_cases hx
  obtain ⟨t, m, rfl, hm⟩ := QuantL.finite_cases hM
  obtain ⟨rfl, hT'⟩ := QuantL.threshold_le_fin hT
  have ha := QuantL.abs_le_fin hxM rfl
  rw [QuantL.quantMultiplier_fin false m hm]
  obtain ⟨q, hq, hb⟩ := QuantL.quantise_range_units s a m (by omega) ha
  exact ⟨_, hq, QuantL.sval_bounds s q 32767 hb⟩

/-- the largest `weight_max` for which the range claim fails: `(2^29 − 2^15)·2^-1074` (pattern `0x000000001FFF8000`), just
below `T`; see `C11QuantEx` for the failure itself -/
abbrev C11_quantLastBad : F64 := QuantL.quantLastBad

example : C11_quantLastBad = .fin false (2 ^ 29 - 2 ^ 15) ∧ C11_quantLastBad = F64.ofBits 0x1FFF8000 :=
  ⟨QuantL.quantLastBad_eq, rfl⟩

/-- **range, with the exact bound**: the claim of `C11_quantise_range` holds for every finite `M` that is greater than
`C11_quantLastBad` (i.e. not `≤` it), and `M = x = C11_quantLastBad` violates it — no magnitude above the last failure fails -/
theorem C11_quantise_range_sharp (x M : F64) (hx : x.Finite) (hM : M.Finite)
    (hxM : f64Le (f64Abs x) M = true) (hT : f64Le M C11_quantLastBad = false) :
    ∃ w, quantise x (quantMultiplier M) = .ok w ∧ -32767 ≤ w ∧ w ≤ 32767 := by
  obtain ⟨s, a, rfl, _⟩ := QuantL.finite_cases hx
  obtain ⟨t, m, rfl, hm⟩ := QuantL.finite_cases hM
  obtain ⟨rfl, hT'⟩ := QuantL.lastBad_lt_fin hT
  have ha := QuantL.abs_le_fin hxM rfl
  rw [QuantL.quantMultiplier_fin false m hm]
  obtain ⟨q, hq, hb⟩ := QuantL.quantise_range_units s a m hT' ha
  exact ⟨_, hq, QuantL.sval_bounds s q 32767 hb⟩

/-- the same on raw bit patterns, as the hook records them -/
theorem C11_quantise_range_bits (bx bM : Nat) (hx : (F64.ofBits bx).Finite) (hM : (F64.ofBits bM).Finite)
    (hxM : f64Le (f64Abs (F64.ofBits bx)) (F64.ofBits bM) = true) (hT : f64Le (F64.ofBits 0x20000000) (F64.ofBits bM) = true) :
    ∃ w, quantise (F64.ofBits bx) (quantMultiplier (F64.ofBits bM)) = .ok w ∧ -32767 ≤ w ∧ w ≤ 32767 :=
  C11_quantise_range _ _ hx hM hxM hT

/-- **the whole step, from the threshold on**: for a finite bias and finite coefficients, if `weight_max` is zero the trainer
returns its error, and if `weight_max ≥ T` it returns quantised values that are all within ±32767 (one per coefficient);
never `ub`, never `panic` -/
theorem C11_quantise_total (bias : F64) (coefs : List F64) (hb : bias.Finite) (hc : ∀ c ∈ coefs, c.Finite) :
    (f64IsZero (weightMax bias coefs) = true → quantiseAll bias coefs = .err .invalidModel) ∧
    (f64Le C11_quantThreshold (weightMax bias coefs) = true →
      ∃ b ws, quantiseAll bias coefs = .ok (b, ws) ∧ ws.length = coefs.length ∧
        (-32767 ≤ b ∧ b ≤ 32767) ∧ ∀ w ∈ ws, -32767 ≤ w ∧ w ≤ 32767) := by
  obtain ⟨M, hwm, hM, _⟩ := QuantL.weightMax_fin bias coefs hb hc
  refine ⟨fun hz => ?_, fun hT => ?_⟩
  · rw [hwm, QuantL.f64IsZero_fin] at hz
    have hM0 : M = 0 := of_decide_eq_true hz
    subst hM0
    exact QuantL.quantiseAll_err bias coefs 0 hwm hM (QuantL.roundUnits_zero _ (by decide))
  · rw [hwm] at hT
    have := (QuantL.threshold_le_fin hT).2
    exact QuantL.quantiseAll_big bias coefs hb hc M hwm (by omega)

/-- the whole step with the exact bound: `weight_max` greater than `C11_quantLastBad` suffices -/
theorem C11_quantise_total_sharp (bias : F64) (coefs : List F64) (hb : bias.Finite) (hc : ∀ c ∈ coefs, c.Finite)
    (hT : f64Le (weightMax bias coefs) C11_quantLastBad = false) :
    ∃ b ws, quantiseAll bias coefs = .ok (b, ws) ∧ ws.length = coefs.length ∧
      (-32767 ≤ b ∧ b ≤ 32767) ∧ ∀ w ∈ ws, -32767 ≤ w ∧ w ≤ 32767 := by
  obtain ⟨M, hwm, hM, _⟩ := QuantL.weightMax_fin bias coefs hb hc
  rw [hwm] at hT
  exact QuantL.quantiseAll_big bias coefs hb hc M hwm (QuantL.lastBad_lt_fin hT).2

/-- **no undefined behaviour at all** for finite inputs, also below the threshold: the step returns the error or values that
are within ±32767 or — only when `weight_max < T` — within ±`weight_max / 2^-1074` (< 2^29, so inside `i32` but possibly
outside `i16`) -/
theorem C11_quantise_no_ub (bias : F64) (coefs : List F64) (hb : bias.Finite) (hc : ∀ c ∈ coefs, c.Finite) :
    (quantiseAll bias coefs).Safe ∧
    (quantiseAll bias coefs = .err .invalidModel ∨
      ∃ b ws, quantiseAll bias coefs = .ok (b, ws) ∧ ws.length = coefs.length ∧
        ∀ w ∈ b :: ws, -(2 : Int) ^ 29 < w ∧ w < 2 ^ 29) := by
  obtain ⟨M, hwm, hM, _⟩ := QuantL.weightMax_fin bias coefs hb hc
  have key : quantiseAll bias coefs = .err .invalidModel ∨
      ∃ b ws, quantiseAll bias coefs = .ok (b, ws) ∧ ws.length = coefs.length ∧
        ∀ w ∈ b :: ws, -(2 : Int) ^ 29 < w ∧ w < 2 ^ 29 := by
    by_cases hT : 2 ^ 29 ≤ M
    · obtain ⟨b, ws, h1, h2, h3, h4⟩ := QuantL.quantiseAll_big bias coefs hb hc M hwm (by omega)
      refine Or.inr ⟨b, ws, h1, h2, fun w hw => ?_⟩
      rcases List.mem_cons.mp hw with rfl | hw
      · unfold QuantL.InQ15 at h3; omega
      · have := h4 w hw; unfold QuantL.InQ15 at this; omega
    · rcases QuantL.quantiseAll_small bias coefs hb hc M hwm (by omega) with h | ⟨b, ws, h1, h2, h3, h4⟩
      · exact Or.inl h
      · refine Or.inr ⟨b, ws, h1, h2, fun w hw => ?_⟩
        rcases List.mem_cons.mp hw with rfl | hw
        · omega
        · have := h4 w hw; omega
  refine ⟨?_, key⟩
  rcases key with h | ⟨b, ws, h, _⟩ <;> rw [h] <;> exact trivial

/-- **the scale is used fully**: from the threshold on, a value of maximal magnitude is mapped to ±32767 or ±32766 with its own
sign (32766 does occur: at `T` itself and for about one maximum in eight, see the examples) -/
theorem C11_quantise_max (x : F64) (hx : x.Finite) (hT : f64Le C11_quantThreshold (f64Abs x) = true) :
    ∃ w, quantise x (quantMultiplier (f64Abs x)) = .ok w ∧
      (x.sign = false → w = 32767 ∨ w = 32766) ∧ (x.sign = true → w = -32767 ∨ w = -32766) := by
  obtain ⟨s, a, rfl, ha⟩ := QuantL.finite_cases hx
  have hT' := (QuantL.threshold_le_fin (s := false) (m := a) hT).2
  have : f64Abs (.fin s a) = .fin false a := rfl
  rw [this, QuantL.quantMultiplier_fin false a ha]
  obtain ⟨t, ht, hv⟩ := QuantL.quantise_max_units s a (by omega)
  refine ⟨_, ht, ?_, ?_⟩
  · intro hs
    have hs' : s = false := hs
    subst hs'
    unfold F64.sval
    simp only [Bool.false_eq_true, if_false]
    omega
  · intro hs
    have hs' : s = true := hs
    subst hs'
    unfold F64.sval
    simp only [if_true]
    omega

/-- … hence every successfully quantised model (from the threshold on) contains a weight of magnitude ≥ 32766 -/
theorem C11_quantise_all_max (bias : F64) (coefs : List F64) (hb : bias.Finite) (hc : ∀ c ∈ coefs, c.Finite)
    (hT : f64Le C11_quantThreshold (weightMax bias coefs) = true) (b : Int) (ws : List Int)
    (h : quantiseAll bias coefs = .ok (b, ws)) :
    ∃ w ∈ b :: ws, w = 32767 ∨ w = 32766 ∨ w = -32767 ∨ w = -32766 := by
  obtain ⟨M, hwm, hM, _, ⟨c, hcm, s, hcM⟩⟩ := QuantL.members_bounded bias coefs hb hc
  rw [hwm] at hT
  have hT' := (QuantL.threshold_le_fin hT).2
  obtain ⟨t, ht, hv⟩ := QuantL.quantise_max_units s M (by omega)
  have hk0 : roundUnits M 32767 ≠ 0 := by
    intro h0
    have := QuantL.mult_lower M (by omega)
    rw [h0] at this
    omega
  -- read the two loops off the successful result
  unfold quantiseAll at h
  simp only [] at h
  rw [hwm, QuantL.quantMultiplier_fin false M hM, QuantL.f64IsZero_fin, decide_eq_false hk0] at h
  simp only [Bool.false_eq_true, if_false] at h
  have hval : F64.sval s t = 32767 ∨ F64.sval s t = 32766 ∨ F64.sval s t = -32767 ∨ F64.sval s t = -32766 := by
    unfold F64.sval
    cases s <;> simp only [Bool.false_eq_true, if_false, if_true] <;> omega
  cases hqb : quantise bias (.fin false (roundUnits M 32767)) with
  | ok b' =>
    rw [hqb, Res.bind_ok] at h
    cases hl : quantiseList (.fin false (roundUnits M 32767)) coefs with
    | ok ws' =>
      rw [hl] at h
      have hpair : (b', ws') = (b, ws) := by
        have : Res.ok (b', ws') = Res.ok (b, ws) := h
        injection this
      injection hpair with hb' hws'
      subst hb'; subst hws'
      rcases hcm with rfl | hcm
      · rw [hcM, ht] at hqb
        injection hqb with hqb
        exact ⟨b', List.mem_cons_self, by rw [← hqb]; exact hval⟩
      · obtain ⟨w, hw, hq⟩ := QuantL.quantiseList_mem _ coefs ws' hl c hcm
        rw [hcM, ht] at hq
        injection hq with hq
        exact ⟨w, List.mem_cons_of_mem _ hw, by rw [← hq]; exact hval⟩
    | err e => rw [hl] at h; exact absurd h (by simp [Res.map])
    | panic p => rw [hl] at h; exact absurd h (by simp [Res.map])
    | ub p => rw [hl] at h; exact absurd h (by simp [Res.map])
  | err e => rw [hqb] at h; exact absurd h (by simp)
  | panic p => rw [hqb] at h; exact absurd h (by simp)
  | ub p => rw [hqb] at h; exact absurd h (by simp)

/-- **monotone**: for a fixed positive finite multiplier, `x ≤ y` (IEEE comparison) implies `quantise x ≤ quantise y` whenever
both are defined: the quantised weights are ordered as the learned ones -/
theorem C11_quantise_mono (x y : F64) (hx : x.Finite) (hy : y.Finite) (k : Nat) (hk : k ≠ 0)
    (hle : f64Le x y = true) (wx wy : Int)
    (h1 : quantise x (.fin false k) = .ok wx) (h2 : quantise y (.fin false k) = .ok wy) : wx ≤ wy := by
  obtain ⟨s, a, rfl, _⟩ := QuantL.finite_cases hx
  obtain ⟨t, b, rfl, _⟩ := QuantL.finite_cases hy
  exact QuantL.quantise_mono_units hk (of_decide_eq_true hle) h1 h2

/-- **sign and oddness**: the quantised value has the sign of the raw one (or is 0), and negating the raw value negates it -/
theorem C11_quantise_sign (s : Bool) (a k : Nat) (hk : k ≠ 0) (w : Int)
    (h : quantise (.fin s a) (.fin false k) = .ok w) :
    (s = false → 0 ≤ w) ∧ (s = true → w ≤ 0) ∧ (w ≠ -(2 : Int) ^ 31 → quantise (.fin (!s) a) (.fin false k) = .ok (-w)) := by
  obtain ⟨hw, hr, ht, hpos⟩ := QuantL.quantise_fin_ok hk h
  have hthird : roundUnits (a * unit) k / unit < 2 ^ 31 →
      quantise (.fin (!s) a) (.fin false k) = .ok (F64.sval (!s) (roundUnits (a * unit) k / unit)) := by
    intro ht'
    unfold quantise
    rw [QuantL.f64Div_fin (!s) false a k hk hr, QuantL.bxor_false, QuantL.trunc_fin (!s) _ ht']
  generalize roundUnits (a * unit) k / unit = q at hw ht hpos hthird
  subst hw
  have hneg : F64.sval (!s) q = - F64.sval s q := by
    unfold F64.sval; cases s <;> simp
  refine ⟨?_, ?_, ?_⟩
  · intro hs; subst hs; unfold F64.sval; simp only [Bool.false_eq_true, if_false]; omega
  · intro hs; subst hs; unfold F64.sval; simp only [if_true]; omega
  · intro hne
    rw [← hneg]
    apply hthird
    unfold F64.sval at hne
    cases s
    · exact hpos rfl
    · simp only [if_true] at hne; omega

/-- **the tag trainer** (`weight_max` starts at `1e-6 ≥ T`, no zero test): for finite biases and coefficients the quantisation
of a token's classifier always succeeds with every value within ±32767 -/
theorem C11_quantise_tag_total (coefs : List F64) (hc : ∀ c ∈ coefs, c.Finite) :
    ∃ ws, quantiseTagAll coefs = .ok ws ∧ ws.length = coefs.length ∧ ∀ w ∈ ws, -32767 ≤ w ∧ w ≤ 32767 :=
  QuantL.quantiseTag_total coefs hc

/-- **the model is IEEE-754 binary64**: every bit pattern decodes to a double (`< 2^1024`, at most 53 significant bits), every
quotient of the model is again a double, and decoding is injective off the NaNs (`toBits ∘ ofBits = id`) -/
theorem C11_f64_model_sane :
    (∀ b, (F64.ofBits b).IsDouble) ∧ (∀ x y, (f64Div x y).IsDouble) ∧
    (∀ b, b < 2 ^ 64 → F64.ofBits b ≠ .nan → F64.toBits (F64.ofBits b) = b) :=
  ⟨QuantL.ofBits_isDouble, QuantL.f64Div_isDouble, QuantL.toBits_ofBits⟩

/-- correct rounding, stated on the integers: `fl(n/d)` is representable, is within half a grid step (`2·|fl·d − n| ≤ d` on the
subnormal/integer grid, relative `2^-53` above), never crosses a representable value, and fixes representable values -/
theorem C11_f64_rounding (n d : Nat) (hd : 0 < d) :
    QuantL.RepU (roundUnits n d) ∧
    (2 * n ≤ 2 * (d * roundUnits n d) + d ∨ 2 ^ 53 * n ≤ 2 ^ 53 * (d * roundUnits n d) + n) ∧
    (2 * (d * roundUnits n d) ≤ 2 * n + d ∨ 2 ^ 53 * (d * roundUnits n d) ≤ 2 ^ 53 * n + n) ∧
    (∀ g, QuantL.RepU g → n ≤ d * g → roundUnits n d ≤ g) ∧ (∀ g, QuantL.RepU g → d * g ≤ n → g ≤ roundUnits n d) :=
  ⟨QuantL.roundUnits_rep n d hd, QuantL.roundUnits_lower n d hd, QuantL.roundUnits_upper n d hd,
    fun g hg h => QuantL.roundUnits_le_of_le n d g hd hg h, fun g hg h => QuantL.le_roundUnits_of_le n d g hd hg h⟩

/-! ### the threshold is sharp, and concrete values (kernel evaluation; `0x…` are IEEE-754 bit patterns) -/
namespace C11QuantEx

/-- decoding: 1.0, −2.5, the largest subnormal, the least subnormal, ±0, ∞, NaN -/
example : F64.ofBits 0x3FF0000000000000 = .fin false F64.unit ∧
    F64.ofBits 0xC004000000000000 = .fin true (5 * 2 ^ 1073) ∧
    F64.ofBits 0x000FFFFFFFFFFFFF = .fin false (2 ^ 52 - 1) ∧ F64.ofBits 1 = .fin false 1 ∧
    F64.ofBits 0 = .fin false 0 ∧ F64.ofBits 0x8000000000000000 = .fin true 0 ∧
    F64.ofBits 0x7FF0000000000000 = .inf false ∧ F64.ofBits 0x7FF8000000000000 = .nan ∧
    F64.ofBits 0x7FEFFFFFFFFFFFFF = .fin false (F64.top - 2 ^ 2045) := by decide +kernel

/-- division is correctly rounded: 1/10 = 0x3FB999999999999A, 1/3 = 0x3FD5555555555555, 1/32767 = 0x3F00002000400080;
ties go to even on the subnormal grid (3·2^-1074 / 2 = 2·2^-1074, 5·2^-1074 / 2 = 2·2^-1074, 2^-1074 / 2 = 0);
overflow gives ∞, 1/0 = ∞, 0/0 = NaN, −1/∞ = −0 -/
example :
    F64.toBits (f64Div (F64.ofBits 0x3FF0000000000000) (F64.ofBits 0x4024000000000000)) = 0x3FB999999999999A ∧
    F64.toBits (f64Div (F64.ofBits 0x3FF0000000000000) (F64.ofBits 0x4008000000000000)) = 0x3FD5555555555555 ∧
    F64.toBits (quantMultiplier (F64.ofBits 0x3FF0000000000000)) = 0x3F00002000400080 ∧
    f64Div (F64.ofBits 3) (F64.ofBits 0x4000000000000000) = F64.ofBits 2 ∧
    f64Div (F64.ofBits 5) (F64.ofBits 0x4000000000000000) = F64.ofBits 2 ∧
    f64Div (F64.ofBits 1) (F64.ofBits 0x4000000000000000) = F64.ofBits 0 ∧
    f64Div (F64.ofBits 0x7FEFFFFFFFFFFFFF) (F64.ofBits 0x3FE0000000000000) = .inf false ∧
    f64Div (F64.ofBits 0x3FF0000000000000) (F64.ofBits 0) = .inf false ∧
    f64Div (F64.ofBits 0) (F64.ofBits 0x8000000000000000) = .nan ∧
    f64Div (F64.ofBits 0xBFF0000000000000) (F64.ofBits 0x7FF0000000000000) = .fin true 0 := by decide +kernel

/-- quantising with `weight_max = 1.0`: 1.0 ↦ 32767, 0.1 ↦ 3276; with `weight_max = 2.5`: −2.5 ↦ −32767, 1.0 ↦ 13106;
the largest subnormal as its own maximum ↦ 32767 -/
example :
    quantise (F64.ofBits 0x3FF0000000000000) (quantMultiplier (F64.ofBits 0x3FF0000000000000)) = .ok 32767 ∧
    quantise (F64.ofBits 0x3FB999999999999A) (quantMultiplier (F64.ofBits 0x3FF0000000000000)) = .ok 3276 ∧
    quantise (F64.ofBits 0xC004000000000000) (quantMultiplier (F64.ofBits 0x4004000000000000)) = .ok (-32767) ∧
    quantise (F64.ofBits 0x3FF0000000000000) (quantMultiplier (F64.ofBits 0x4004000000000000)) = .ok 13106 ∧
    quantise (F64.ofBits 0x000FFFFFFFFFFFFF) (quantMultiplier (F64.ofBits 0x000FFFFFFFFFFFFF)) = .ok 32767 := by
  decide +kernel

/-- the whole step on bias 1.0 and coefficients 0.1, −2.5 -/
example : quantiseAll (F64.ofBits 0x3FF0000000000000) [F64.ofBits 0x3FB999999999999A, F64.ofBits 0xC004000000000000]
    = .ok (13106, [1310, -32767]) := by decide +kernel

/-- **the range claim is false for tiny subnormal maxima**: `M = x = 2^-1059` (`2^15` units, pattern `0x8000`) has the
multiplier `2^-1074` (pattern `1`) and is quantised to 32768 -/
example : F64.ofBits 0x8000 = .fin false (2 ^ 15) ∧ quantMultiplier (F64.ofBits 0x8000) = F64.ofBits 1 ∧
    quantise (F64.ofBits 0x8000) (quantMultiplier (F64.ofBits 0x8000)) = .ok 32768 := by decide +kernel

/-- **`T = 2^-1045` is the least power of two that works**: `M = (2^29 − 2^15)·2^-1074` (pattern `0x1FFF8000`) lies in
`[T/2, T)`, its multiplier is `16383·2^-1074`, and it is quantised to 32768, so the hypothesis `T ≤ M` of
`C11_quantise_range` cannot be relaxed to `T/2 ≤ M` -/
example : F64.ofBits 0x1FFF8000 = .fin false (2 ^ 29 - 2 ^ 15) ∧
    f64Le (F64.ofBits 0x10000000) (F64.ofBits 0x1FFF8000) = true ∧
    f64Le C11_quantThreshold (F64.ofBits 0x1FFF8000) = false ∧
    quantMultiplier (F64.ofBits 0x1FFF8000) = F64.ofBits 16383 ∧
    quantise (F64.ofBits 0x1FFF8000) (quantMultiplier (F64.ofBits 0x1FFF8000)) = .ok 32768 := by decide +kernel

/-- … and it is the last failure (`C11_quantise_range_sharp`): one unit more (pattern `0x1FFF8001`) has the multiplier
`16384·2^-1074` and is quantised to 32766 -/
example : f64Le (F64.ofBits 0x1FFF8001) C11_quantLastBad = false ∧
    quantMultiplier (F64.ofBits 0x1FFF8001) = F64.ofBits 16384 ∧
    quantise (F64.ofBits 0x1FFF8001) (quantMultiplier (F64.ofBits 0x1FFF8001)) = .ok 32766 := by decide +kernel

/-- below the threshold the overshoot reaches a factor 1.5: `49150·2^-1074` (pattern `0xBFFE`) has the multiplier `2^-1074`
and is quantised to 49150 (inside `i32`, far outside `i16`); `2^-1074` alone gives the multiplier 0, hence the error -/
example : quantise (F64.ofBits 0xBFFE) (quantMultiplier (F64.ofBits 0xBFFE)) = .ok 49150 ∧
    quantiseAll (F64.ofBits 0xBFFE) [] = .ok (49150, []) ∧
    quantiseAll (F64.ofBits 1) [F64.ofBits 0x8000000000000001] = .err .invalidModel ∧
    quantiseAll (F64.ofBits 0) [F64.ofBits 0x8000000000000000] = .err .invalidModel := by decide +kernel

/-- at `T` itself the maximum is mapped to 32766 (multiplier `16385·2^-1074`), and so is the normal number
`0x3FF06798004BBC2F`: the second alternative of `C11_quantise_max` occurs -/
example : quantMultiplier C11_quantThreshold = F64.ofBits 16385 ∧
    quantise C11_quantThreshold (quantMultiplier C11_quantThreshold) = .ok 32766 ∧
    quantise (F64.ofBits 0x3FF06798004BBC2F) (quantMultiplier (F64.ofBits 0x3FF06798004BBC2F)) = .ok 32766 ∧
    quantise (F64.ofBits 0xBFF06798004BBC2F) (quantMultiplier (F64.ofBits 0x3FF06798004BBC2F)) = .ok (-32766) := by
  decide +kernel

/-- non-vacuity of `C11_quantise_range` / `C11_quantise_total`: the hypotheses hold for `x = 0.1`, `M = 1.0` -/
example : (F64.ofBits 0x3FB999999999999A).Finite ∧ (F64.ofBits 0x3FF0000000000000).Finite ∧
    f64Le (f64Abs (F64.ofBits 0x3FB999999999999A)) (F64.ofBits 0x3FF0000000000000) = true ∧
    f64Le C11_quantThreshold (F64.ofBits 0x3FF0000000000000) = true ∧
    f64Le C11_quantThreshold (weightMax (F64.ofBits 0x3FF0000000000000) [F64.ofBits 0x3FB999999999999A]) = true := by
  decide +kernel

/-- where undefined behaviour does occur: a NaN or infinite coefficient (finite `weight_max` is then impossible or the quotient
is not finite), a NaN bias, and — for a single quotient — a finite value over a multiplier that is too small
(`1.0 / 2^-1074` overflows to ∞; `2^31·2^-1074 / 2^-1074 = 2^31` is outside `i32`, while `−2^31` is inside) -/
example :
    quantiseAll (F64.ofBits 0x3FF0000000000000) [F64.ofBits 0x7FF0000000000000] = .ub "to_int_unchecked" ∧
    quantiseAll (F64.ofBits 0x3FF0000000000000) [F64.ofBits 0x7FF8000000000000] = .ub "to_int_unchecked" ∧
    quantiseAll (F64.ofBits 0x7FF8000000000000) [] = .ub "to_int_unchecked" ∧
    quantise (F64.ofBits 0x3FF0000000000000) (F64.ofBits 1) = .ub "to_int_unchecked" ∧
    quantise (F64.ofBits 0x80000000) (F64.ofBits 1) = .ub "to_int_unchecked" ∧
    quantise (F64.ofBits 0x8000000080000000) (F64.ofBits 1) = .ok (-2147483648) := by decide +kernel

/-- the tag trainer's floor `1e-6` is a double above the threshold; three values of one classifier -/
example : f64TagFloor.IsDouble ∧ f64Le C11_quantThreshold f64TagFloor = true ∧
    quantiseTagAll [F64.ofBits 0x3FF0000000000000, F64.ofBits 0xBFB999999999999A, F64.ofBits 1] = .ok [32767, -3276, 0] ∧
    quantiseTagAll [F64.ofBits 0x3E112E0BE826D695] = .ok [32] := by decide +kernel

end C11QuantEx

end V

