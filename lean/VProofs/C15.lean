import VModel.Filters
import VProofs.C05
/-!
# C15 — Post-filters apply exactly their rule and nothing else

Property theorems only (helper lemmas live in `VProofs/Lemmas/Filt*.lean`).  `Inv` is the sentence consistency
invariant of C05 (one type per character, one label per adjacent pair, characters × tag-count tag slots).
-/
namespace V

/-- character-type filter: clears exactly the boundaries between two adjacent characters of its type; everything else
(text, types, the other boundaries, tags, scores, …) is untouched; no panic, no out-of-range unchecked access -/
theorem C15_wsconst (t : Nat) (s : Sentence) (h : Inv s) :
    ∃ bs, filterWsConst t s = .ok { s with bounds := bs } ∧ bs.length = s.bounds.length ∧
      ∀ i, i < s.bounds.length →
        bs[i]? = some (if s.types[i]? = some t ∧ s.types[i + 1]? = some t then B.N else s.bounds.getD i B.U) := by
  sorry

/-- line-break filter: sets exactly the boundaries adjacent to CR or LF -/
theorem C15_linebreaks (s : Sentence) (h : Inv s) :
    ∃ bs, filterLinebreaks s = .ok { s with bounds := bs } ∧ bs.length = s.bounds.length ∧
      ∀ i, i < s.bounds.length →
        bs[i]? = some (if (s.text[i]?.any isLinebreak) || (s.text[i + 1]?.any isLinebreak) then B.W
                       else s.bounds.getD i B.U) := by
  sorry

/-- character positions at which a grapheme cluster ends: the running sums of the cluster lengths -/
def clusterEdges : List Nat → Nat → List Nat
  | [], _ => []
  | l :: r, start => (start + l) :: clusterEdges r (start + l)

/-- grapheme filter, for EVERY segmentation of the text into clusters of at least one character: clears exactly the
boundaries inside clusters (boundary `i` lies between characters `i` and `i + 1`; it is inside a cluster iff `i + 1` is
not a cluster edge), and the unchecked range it fills is always inside the boundary array -/
theorem C15_graphemes (ls : List Nat) (s : Sentence) (h : Inv s) (hpos : ∀ l ∈ ls, 1 ≤ l)
    (hsum : ls.sum = s.text.length) :
    ∃ bs, filterGraphemes ls s = .ok { s with bounds := bs } ∧ bs.length = s.bounds.length ∧
      ∀ i, i < s.bounds.length →
        bs[i]? = some (if (i + 1) ∈ clusterEdges ls 0 then s.bounds.getD i B.U else B.N) := by
  sorry

/-- pattern tagger: never panics on a consistent sentence, leaves text, types, boundaries and tag count untouched,
keeps every present tag, and changes a slot only if it is an absent tag of a token whose surface has a rule, to the
rule's entry for that category (absent when the rule is shorter or has no entry) -/
theorem C15_tagger (rules : TagRules) (s : Sentence) (h : Inv s) :
    ∃ tags, filterTagger rules s = .ok { s with tags := tags } ∧ tags.length = s.tags.length ∧
      (∀ (k : Nat) (t : List Char), s.tags[k]? = some (some t) → tags[k]? = some (some t)) ∧
      (∀ (k : Nat), k < s.tags.length → tags[k]? ≠ s.tags[k]? →
        ∃ (st en j : Nat) (r : List Tag), (st, en) ∈ iterTokens s.bounds ∧ j < s.nTags ∧ k = (en - 1) * s.nTags + j ∧
          rulesGet rules ((s.text.drop st).take (en - st)) = some r ∧ tags[k]? = some ((r[j]?).bind id)) ∧
      (∀ (st en j : Nat) (r : List Tag), (st, en) ∈ iterTokens s.bounds → j < s.nTags →
          s.tags[(en - 1) * s.nTags + j]? = some none →
          rulesGet rules ((s.text.drop st).take (en - st)) = some r →
          tags[(en - 1) * s.nTags + j]? = some ((r[j]?).bind id)) := by
  sorry

/-- every filter preserves the consistency invariant -/
theorem C15_inv (s s' : Sentence) (h : Inv s) (t : Nat) (ls : List Nat) (rules : TagRules)
    (hf : filterWsConst t s = .ok s' ∨ filterLinebreaks s = .ok s' ∨ filterGraphemes ls s = .ok s' ∨
      filterTagger rules s = .ok s') : Inv s' := by
  sorry

/-- every filter is idempotent -/
theorem C15_idem_wsconst (t : Nat) (s s' : Sentence) (h : Inv s) (hf : filterWsConst t s = .ok s') :
    filterWsConst t s' = .ok s' := by
  sorry

theorem C15_idem_linebreaks (s s' : Sentence) (h : Inv s) (hf : filterLinebreaks s = .ok s') :
    filterLinebreaks s' = .ok s' := by
  sorry

theorem C15_idem_graphemes (ls : List Nat) (s s' : Sentence) (h : Inv s) (hpos : ∀ l ∈ ls, 1 ≤ l)
    (hsum : ls.sum = s.text.length) (hf : filterGraphemes ls s = .ok s') : filterGraphemes ls s' = .ok s' := by
  sorry

theorem C15_idem_tagger (rules : TagRules) (s s' : Sentence) (h : Inv s) (hf : filterTagger rules s = .ok s') :
    filterTagger rules s' = .ok s' := by
  sorry

end V
