import VModel.Filters
import VProofs.C05
import VProofs.Lemmas.FiltBounds
import VProofs.Lemmas.FiltTagger
import VProofs.Lemmas.FiltCommute
import VProofs.Lemmas.PermRules
/-!
# C15 — Post-filters apply exactly their rule and nothing else

Property theorems only (helper lemmas live in `VProofs/Lemmas/Filt*.lean`).  `Inv` is the sentence consistency
invariant of C05 (one type per character, one label per adjacent pair, characters × tag-count tag slots).
-/
namespace V

/-- character-type filter: clears exactly the boundaries between two adjacent characters of its type; everything else
(text, types, the other boundaries, tags, scores, …) is untouched; no panic, no out-of-range unchecked access -/
theorem C15_wsconst (t : Nat) (s : Sentence) (h : Inv s) :
    ∃ bs, filterWsConst t s = .ok { s with bounds := bs } ∧ bs.length = s.bounds.length ∧
      ∀ i, i < s.bounds.length →
        bs[i]? = some (if s.types[i]? = some t ∧ s.types[i + 1]? = some t then B.N else s.bounds.getD i B.U) := by
  have hlen : s.bounds.length + 1 = s.types.length := by rw [h.types_eq, typesOf_length]; exact h.bounds_len
  obtain ⟨out, h1, h2, h3⟩ := C15L.wsGo_spec t s.types s.bounds hlen
  refine ⟨out, ?_, h2, h3⟩
  unfold filterWsConst
  rw [if_neg (by omega)]
  simp only [h1]

/-- line-break filter: sets exactly the boundaries adjacent to CR or LF -/
theorem C15_linebreaks (s : Sentence) (h : Inv s) :
    ∃ bs, filterLinebreaks s = .ok { s with bounds := bs } ∧ bs.length = s.bounds.length ∧
      ∀ i, i < s.bounds.length →
        bs[i]? = some (if (s.text[i]?.any isLinebreak) || (s.text[i + 1]?.any isLinebreak) then B.W
                       else s.bounds.getD i B.U) := by
  obtain ⟨out, h1, h2, h3⟩ := C15L.lbGo_spec s.text s.bounds h.bounds_len
  refine ⟨out, ?_, h2, h3⟩
  unfold filterLinebreaks
  split
  · next he => exact absurd he h.text_ne
  · simp only [h1]

/-- character positions at which a grapheme cluster ends: the running sums of the cluster lengths -/
def clusterEdges : List Nat → Nat → List Nat
  | [], _ => []
  | l :: r, start => (start + l) :: clusterEdges r (start + l)

theorem clusterEdges_eq (ls : List Nat) (start : Nat) : clusterEdges ls start = C15L.edges ls start := by
  induction ls generalizing start with
  | nil => rfl
  | cons l r ih => simp only [clusterEdges, C15L.edges, ih]

/-- grapheme filter, for EVERY segmentation of the text into clusters of at least one character: clears exactly the
boundaries inside clusters (boundary `i` lies between characters `i` and `i + 1`; it is inside a cluster iff `i + 1` is
not a cluster edge), and the unchecked range it fills is always inside the boundary array -/
theorem C15_graphemes (ls : List Nat) (s : Sentence) (h : Inv s) (hpos : ∀ l ∈ ls, 1 ≤ l)
    (hsum : ls.sum = s.text.length) :
    ∃ bs, filterGraphemes ls s = .ok { s with bounds := bs } ∧ bs.length = s.bounds.length ∧
      ∀ i, i < s.bounds.length →
        bs[i]? = some (if (i + 1) ∈ clusterEdges ls 0 then s.bounds.getD i B.U else B.N) := by
  obtain ⟨out, h1, h2, h3⟩ := C15L.grGo_spec ls 0 s.bounds hpos (by rw [hsum, Nat.zero_add]; exact h.bounds_len.symm)
  refine ⟨out, ?_, h2, fun i hi => ?_⟩
  · simp only [filterGraphemes, h1]
  · rw [h3 i hi, clusterEdges_eq]
    simp only [Nat.not_lt_zero, false_or]

/-- pattern tagger: never panics on a consistent sentence, leaves text, types, boundaries and tag count untouched,
keeps every present tag, and changes a slot only if it is an absent tag of a token whose surface has a rule, to the
rule's entry for that category (absent when the rule is shorter or has no entry) -/
theorem C15_tagger (rules : TagRules) (s : Sentence) (h : Inv s) :
    ∃ tags, filterTagger rules s = .ok { s with tags := tags } ∧ tags.length = s.tags.length ∧
      (∀ (k : Nat) (t : List Char), s.tags[k]? = some (some t) → tags[k]? = some (some t)) ∧
      (∀ (k : Nat), k < s.tags.length → tags[k]? ≠ s.tags[k]? →
        ∃ (st en j : Nat) (r : List Tag), (st, en) ∈ iterTokens s.bounds ∧ j < s.nTags ∧ k = (en - 1) * s.nTags + j ∧
          rulesGet rules ((s.text.drop st).take (en - st)) = some r ∧ tags[k]? = some ((r[j]?).bind id)) ∧
      (∀ (st en j : Nat) (r : List Tag), (st, en) ∈ iterTokens s.bounds → j < s.nTags →
          s.tags[(en - 1) * s.nTags + j]? = some none →
          rulesGet rules ((s.text.drop st).take (en - st)) = some r →
          tags[(en - 1) * s.nTags + j]? = some ((r[j]?).bind id)) := by
  exact C15L.tagger_spec rules s h.bounds_len h.tags_len

/-- every filter preserves the consistency invariant -/
theorem C15_inv (s s' : Sentence) (h : Inv s) (t : Nat) (ls : List Nat) (rules : TagRules)
    (hf : filterWsConst t s = .ok s' ∨ filterLinebreaks s = .ok s' ∨ filterGraphemes ls s = .ok s' ∨
      filterTagger rules s = .ok s') : Inv s' := by
  rcases hf with hf | hf | hf | hf
  · obtain ⟨bs, e, hl, _⟩ := C15_wsconst t s h
    rw [e] at hf; injection hf with hf; subst hf
    exact Inv.ofC (C15L.invC_bounds h.toC hl)
  · obtain ⟨bs, e, hl, _⟩ := C15_linebreaks s h
    rw [e] at hf; injection hf with hf; subst hf
    exact Inv.ofC (C15L.invC_bounds h.toC hl)
  · unfold filterGraphemes at hf
    cases hg : filterGraphemes.go ls 0 s.bounds with
    | ok bs =>
      simp only [hg] at hf
      injection hf with hf; subst hf
      exact Inv.ofC (C15L.invC_bounds h.toC (C15L.grGo_length ls 0 s.bounds bs hg))
    | err e => simp [hg] at hf
    | panic p => simp [hg] at hf
    | ub p => simp [hg] at hf
  · obtain ⟨ts, e, hl, _⟩ := C15_tagger rules s h
    rw [e] at hf; injection hf with hf; subst hf
    exact Inv.ofC (C15L.invC_tags h.toC hl)

/-- every filter is idempotent -/
theorem C15_idem_wsconst (t : Nat) (s s' : Sentence) (h : Inv s) (hf : filterWsConst t s = .ok s') :
    filterWsConst t s' = .ok s' := by
  obtain ⟨bs, e, hl, hp⟩ := C15_wsconst t s h
  have h' := C15_inv s s' h t [] [] (Or.inl hf)
  rw [e] at hf; injection hf with hf; subst hf
  obtain ⟨bs', e', hl', hp'⟩ := C15_wsconst t _ h'
  rw [e', C15L.pointwise_idem (fun i x => if s.types[i]? = some t ∧ s.types[i + 1]? = some t then B.N else x)
    (fun i x => by
      by_cases c : s.types[i]? = some t ∧ s.types[i + 1]? = some t
      · simp only [if_pos c]
      · simp only [if_neg c])
    s.bounds bs bs' hl hl' hp hp']

theorem C15_idem_linebreaks (s s' : Sentence) (h : Inv s) (hf : filterLinebreaks s = .ok s') :
    filterLinebreaks s' = .ok s' := by
  obtain ⟨bs, e, hl, hp⟩ := C15_linebreaks s h
  have h' := C15_inv s s' h 0 [] [] (Or.inr (Or.inl hf))
  rw [e] at hf; injection hf with hf; subst hf
  obtain ⟨bs', e', hl', hp'⟩ := C15_linebreaks _ h'
  rw [e', C15L.pointwise_idem
    (fun i x => if (s.text[i]?.any isLinebreak) || (s.text[i + 1]?.any isLinebreak) then B.W else x)
    (fun i x => by
      cases c : (s.text[i]?.any isLinebreak) || (s.text[i + 1]?.any isLinebreak) <;>
        simp only [if_true, if_false, Bool.false_eq_true])
    s.bounds bs bs' hl hl' hp hp']

theorem C15_idem_graphemes (ls : List Nat) (s s' : Sentence) (h : Inv s) (hpos : ∀ l ∈ ls, 1 ≤ l)
    (hsum : ls.sum = s.text.length) (hf : filterGraphemes ls s = .ok s') : filterGraphemes ls s' = .ok s' := by
  obtain ⟨bs, e, hl, hp⟩ := C15_graphemes ls s h hpos hsum
  have h' := C15_inv s s' h 0 ls [] (Or.inr (Or.inr (Or.inl hf)))
  rw [e] at hf; injection hf with hf; subst hf
  obtain ⟨bs', e', hl', hp'⟩ := C15_graphemes ls _ h' hpos hsum
  rw [e', C15L.pointwise_idem (fun i x => if (i + 1) ∈ clusterEdges ls 0 then x else B.N)
    (fun i x => by
      by_cases c : (i + 1) ∈ clusterEdges ls 0
      · simp only [if_pos c]
      · simp only [if_neg c])
    s.bounds bs bs' hl hl' hp hp']

theorem C15_idem_tagger (rules : TagRules) (s s' : Sentence) (h : Inv s) (hf : filterTagger rules s = .ok s') :
    filterTagger rules s' = .ok s' := by
  exact C15L.tagger_idem rules s s' h.bounds_len h.tags_len hf

/-! ## order independence -/

/-- the two filters that clear boundaries (character-type filter, grapheme filter) commute with each other and among themselves:
the order of the letters of `--wsconst` does not matter -/
theorem C15_clearing_filters_commute (s : Sentence) (h : Inv s) (t1 t2 : Nat) (ls : List Nat) (hpos : ∀ l ∈ ls, 1 ≤ l)
    (hsum : ls.sum = s.text.length) :
    ((filterWsConst t1 s).bind (filterWsConst t2) = (filterWsConst t2 s).bind (filterWsConst t1)) ∧
    ((filterWsConst t1 s).bind (filterGraphemes ls) = (filterGraphemes ls s).bind (filterWsConst t1)) := by
  obtain ⟨a, ea, hla, hpa⟩ := C15_wsconst t1 s h
  have ha : Inv { s with bounds := a } := Inv.ofC (C15L.invC_bounds h.toC hla)
  constructor
  · obtain ⟨b, eb, hlb, hpb⟩ := C15_wsconst t2 s h
    have hb : Inv { s with bounds := b } := Inv.ofC (C15L.invC_bounds h.toC hlb)
    obtain ⟨a', ea', hla', hpa'⟩ := C15_wsconst t2 _ ha
    obtain ⟨b', eb', hlb', hpb'⟩ := C15_wsconst t1 _ hb
    rw [ea, eb]
    simp only [Res.bind]
    rw [ea', eb']
    rw [C15L.pointwise_comm
      (fun i x => if s.types[i]? = some t1 ∧ s.types[i + 1]? = some t1 then B.N else x)
      (fun i x => if s.types[i]? = some t2 ∧ s.types[i + 1]? = some t2 then B.N else x)
      (fun i x => C15L.clear_clear_comm _ _ x)
      s.bounds a a' b b' hla hla' hlb hlb' hpa hpa' hpb hpb']
  · obtain ⟨b, eb, hlb, hpb⟩ := C15_graphemes ls s h hpos hsum
    have hb : Inv { s with bounds := b } := Inv.ofC (C15L.invC_bounds h.toC hlb)
    obtain ⟨a', ea', hla', hpa'⟩ := C15_graphemes ls _ ha hpos hsum
    obtain ⟨b', eb', hlb', hpb'⟩ := C15_wsconst t1 _ hb
    rw [ea, eb]
    simp only [Res.bind]
    rw [ea', eb']
    rw [C15L.pointwise_comm
      (fun i x => if s.types[i]? = some t1 ∧ s.types[i + 1]? = some t1 then B.N else x)
      (fun i x => if (i + 1) ∈ clusterEdges ls 0 then x else B.N)
      (fun i x => C15L.clear_keep_comm _ _ x)
      s.bounds a a' b b' hla hla' hlb hlb' hpa hpa' hpb hpb']

/-- the line-break filter does NOT commute with them in general (it sets boundaries that the others clear), which is why the
Tantivy tokenizer applies it first: a concrete sentence on which the two orders differ -/
example : ∃ s : Sentence, Inv s ∧
    (filterLinebreaks s).bind (filterWsConst 6) ≠ (filterWsConst 6 s).bind filterLinebreaks := by
  refine ⟨{ Sentence.default with text := ['\n', '\n'], types := [6, 6], bounds := [.U] }, ?_, ?_⟩
  · exact ⟨by decide, by decide, by decide, by decide, by decide⟩
  · decide

/-! ## non-vacuity -/

/-- text "1 23" (types digit, other, digit, digit): the digit filter clears only the last boundary -/
example : filterWsConst 1 { Sentence.default with text := "1 23".toList, types := [1, 6, 1, 1],
                                                  bounds := [.W, .U, .W] } =
    .ok { Sentence.default with text := "1 23".toList, types := [1, 6, 1, 1], bounds := [.W, .U, .N] } := by
  decide

example : filterLinebreaks { Sentence.default with text := "a\nbc".toList, types := [2, 6, 2, 2],
                                                   bounds := [.N, .U, .N] } =
    .ok { Sentence.default with text := "a\nbc".toList, types := [2, 6, 2, 2], bounds := [.W, .W, .N] } := by
  decide

/-- clusters of 2, 1 and 3 characters: edges 2, 3, 6 -/
example : filterGraphemes [2, 1, 3] { Sentence.default with text := "abcdef".toList, types := [2, 2, 2, 2, 2, 2],
                                                             bounds := [.W, .U, .W, .W, .U] } =
    .ok { Sentence.default with text := "abcdef".toList, types := [2, 2, 2, 2, 2, 2],
                                bounds := [.N, .U, .W, .N, .N] } := by
  decide

/-- two tokens "ab" and "c", two tag slots per character; "ab" has a rule with one entry, "c" has none; the present
tag of "c" and every slot that is not a token end are kept -/
example : filterTagger [("ab".toList, [some "X".toList])]
      { Sentence.default with text := "abc".toList, types := [2, 2, 2], bounds := [.N, .W],
                              tags := [none, none, none, none, some "Y".toList, none], nTags := 2 } =
    .ok { Sentence.default with text := "abc".toList, types := [2, 2, 2], bounds := [.N, .W],
                                tags := [none, none, some "X".toList, none, some "Y".toList, none], nTags := 2 } := by
  decide

end V

/-! ## the rule map of `PatternMatchTagger` (a hashbrown `HashMap`) is read by keyed lookup only -/
namespace V

/-- listing the rules (distinct surfaces, as in a map) in another order does not change the filter -/
theorem C15_tagger_rules_perm (rules₁ rules₂ : TagRules) (hp : rules₁.Perm rules₂) (hnd : (rules₁.map Prod.fst).Nodup)
    (s : Sentence) : filterTagger rules₁ s = filterTagger rules₂ s :=
  C15L.filterTagger_perm hp hnd s

example :
    let r₁ : TagRules := [(['a'], [some ['x']]), (['b'], [none, some ['y']]), (['c'], [])]
    let r₂ : TagRules := [(['c'], []), (['a'], [some ['x']]), (['b'], [none, some ['y']])]
    r₁.Perm r₂ ∧ (r₁.map Prod.fst).Nodup ∧ r₁ ≠ r₂ ∧ rulesGet r₁ ['b'] = some [none, some ['y']] ∧
    rulesGet r₂ ['b'] = some [none, some ['y']] := by
  refine ⟨by decide, by decide, by decide, by decide, by decide⟩

end V
