import VModel.Sentence
import VProofs.Lemmas.TokRound
/-!
# C03 — Tokenized text format round-trips

Property theorems only (helper lemmas live in `VProofs/Lemmas/Tok*.lean`, namespace `V.C03L`).
-/
namespace V

/-- tags of the token that ends at character `en` (they live on its last character), without trailing absent tags -/
def tokenTagsTrim (tags : List Tag) (nTags en : Nat) : List Tag :=
  trimNone ((tags.drop ((en - 1) * nTags)).take nTags)

/-- the sentences C03 quantifies over: non-empty NUL-free text (spaces, slashes, backslashes allowed), a boundary
vector without unknowns, `n × nTags` tag slots whose present tags are non-empty and NUL-free -/
structure WFTok (s : Sentence) : Prop where
  text_ne : s.text ≠ []
  text_nul : ∀ c ∈ s.text, c ≠ '\x00'
  bounds_len : s.bounds.length + 1 = s.text.length
  no_unknown : ∀ b ∈ s.bounds, b ≠ B.U
  tags_len : s.tags.length = s.text.length * s.nTags
  tags_ok : ∀ t, some t ∈ s.tags → t ≠ [] ∧ ∀ c ∈ t, c ≠ '\x00'

/-- `WFTok` and `tokenTagsTrim` are (definitionally) the `TokWF` and `tagsAt` the lemma files work with -/
theorem WFTok.toL {s : Sentence} (h : WFTok s) : C03L.TokWF s :=
  ⟨h.text_ne, h.text_nul, h.bounds_len, h.no_unknown, h.tags_len, h.tags_ok⟩

theorem WFTok.ofL {s : Sentence} (h : C03L.TokWF s) : WFTok s :=
  ⟨h.text_ne, h.text_nul, h.bounds_len, h.no_unknown, h.tags_len, h.tags_ok⟩

theorem tokenTagsTrim_eq : tokenTagsTrim = C03L.tagsAt := rfl

/-- writing any fully segmented sentence and parsing the text again yields the same raw text, the same
boundaries and, for every token, the same tag sequence up to trailing absent tags -/
theorem C03_roundtrip (s : Sentence) (h : WFTok s) :
    ∃ w p, s.writeTokenized = .ok w ∧ parseTokenized w = .ok p ∧
      p.text = s.text ∧ p.bounds = s.bounds ∧
      ∀ se ∈ iterTokens s.bounds,
        tokenTagsTrim p.tags (p.tags.length / p.text.length) se.2 = tokenTagsTrim s.tags s.nTags se.2 :=
  C03L.roundtrip s (WFTok.toL h)

/-- every string the parser accepts yields a sentence in the domain of `C03_roundtrip` -/
theorem C03_parsed_wf (x : List Char) (p : Parsed) (h : parseTokenized x = .ok p) :
    ∃ s, Sentence.ofParsed p = .ok s ∧ WFTok s := by
  obtain ⟨s, h1, h2⟩ := C03L.parsed_wf x p h
  exact ⟨s, h1, WFTok.ofL h2⟩

/-- write-after-parse is idempotent on every string the parser accepts -/
theorem C03_idempotent (x : List Char) (s : Sentence) (h : Sentence.fromTokenized x = .ok s) :
    ∃ w s', s.writeTokenized = .ok w ∧ Sentence.fromTokenized w = .ok s' ∧ s'.writeTokenized = .ok w :=
  C03L.idempotent x s h

/-! ## non-vacuity -/

example : Sentence.fromTokenized "a\\ b/x\\/y c".toList =
    .ok { Sentence.default with text := "a bc".toList, types := [2, 6, 2, 2], bounds := [.N, .N, .W],
                                tags := [none, none, some "x/y".toList, none], nTags := 1 } := by decide

end V
