import VModel.History
import VModel.Bincode
import VProofs.C01
import VProofs.C05
import VProofs.C06
import VProofs.C15
import VProofs.Lemmas.UtfSync
import VProofs.Lemmas.SafeOps
/-!
# C18 — No input drives the unchecked code out of bounds

In the model every `get_unchecked*`, `unwrap_unchecked` and unchecked range is a CHECKED access that yields `Res.ub`, so
"the preconditions of the unchecked operations hold" is the statement that no run produces `ub`.  The character-level model
abstracts two byte-level preconditions, which are proved separately on the UTF-8 encoder of `VModel/Bincode.lean`:
offsets handed to the position map are character boundaries (UTF-8 self-synchronisation, `C18_match_end_boundary`) and the
buffer that `write_tokenized_text` assembles from raw bytes is valid UTF-8 (`C18_escape_*`).
Property theorems only (helper lemmas live in `VProofs/Lemmas/Safe*.lean` and `Utf*.lean`).
-/
namespace V
open V.Bin

/-! ## histories never reach `ub` (nor `panic`) -/

/-- the predictors that exist were built through the safe API from well-formed models -/
def EnvWF (env : List Predictor) : Prop :=
  ∀ p ∈ env, ∃ cfg m pt p0 store, WFModel m ∧ WFTags m ∧ Predictor.new cfg m pt = .ok p0 ∧
    p = { p0 with storeTagScores := store }

/-- what the documentation requires of the caller: predictors exist, `fill_tags` only after `predict` with a predictor built
with `predict_tags = true`, indices into the public slices in range, grapheme clusters that segment the text -/
def HOp.Valid (env : List Predictor) (s : Sentence) : HOp → Prop
  | .predict k => k < env.length
  | .fillTags => ∀ k, s.pred = some k → ∃ p, env[k]? = some p ∧ p.tagPredictor.isSome = true
  | .setBoundary i _ => i < s.bounds.length
  | .setTag i _ => i < s.tags.length
  | .filterGc ls => (∀ l ∈ ls, 1 ≤ l) ∧ ls.sum = s.text.length
  | _ => True

/-- a history all of whose calls are valid in the state they are issued in -/
def ValidRun (env : List Predictor) : Sentence → List HOp → Prop
  | _, [] => True
  | s, op :: ops => op.Valid env s ∧ ∀ s' ok, op.apply env s = .ok (s', ok) → ValidRun env s' ops

/-- **every valid history on one sentence object runs to completion**: no unchecked index leaves its range, no checked
operation panics — for all well-formed models, all texts (accepted or rejected), all boundary/tag states reachable through
the public API, in every build configuration of every predictor -/
theorem C18_history_safe (env : List Predictor) (henv : EnvWF env) (ops : List HOp)
    (hv : ValidRun env Sentence.default ops) : ∃ s, runHistory env Sentence.default ops = .ok s ∧ Inv s := by
  have hvalid : ∀ (s : Sentence) (op : HOp), op.Valid env s → C18L.OpValid env s op := fun s op h => by
    cases op <;> exact h
  have main : ∀ (ops : List HOp) (s : Sentence), C18L.InvH env s → ValidRun env s ops →
      ∃ s', runHistory env s ops = .ok s' ∧ Inv s' := by
    intro ops
    induction ops with
    | nil => exact fun s h _ => ⟨s, rfl, h.1⟩
    | cons op ops ih =>
      intro s h hr
      obtain ⟨s1, ok, h1, h2⟩ := C18L.step_safe henv h op (hvalid s op hr.1)
      obtain ⟨s2, h3, h4⟩ := ih s1 h2 (hr.2 s1 ok h1)
      exact ⟨s2, by simp only [runHistory, h1, h3], h4⟩
  exact main ops _ (C18L.invH_default env) hv

/-! ## byte-level preconditions -/

/-- the byte loop of `write_tokenized_text`: a backslash is pushed before every byte that is a space, a backslash or a slash -/
def escBytes : Bytes → Bytes
  | [] => []
  | b :: r => if b = 0x20 ∨ b = 0x5C ∨ b = 0x2F then 0x5C :: b :: escBytes r else b :: escBytes r

/-- escaping bytes is escaping characters: the three bytes never occur inside a multi-byte sequence -/
theorem C18_escape_bytes (cs : List Char) : utf8Encode (escTok cs) = escBytes (utf8Encode cs) := by
  exact UtfL.escape_bytes_of escBytes (fun _ _ => rfl) rfl cs

/-- hence the buffer assembled from raw bytes is valid UTF-8 (it decodes, to the escaped characters) -/
theorem C18_escape_valid_utf8 (cs : List Char) : utf8Decode? (escBytes (utf8Encode cs)) = some (escTok cs) := by
  rw [← C18_escape_bytes, BinL.utf8Decode_encode]

/-- UTF-8 self-synchronisation: wherever the bytes of a non-empty pattern end inside the bytes of a text, that offset is a
character boundary and the pattern occurs there as characters — so every match end handed to `str_to_char_pos` is a
character boundary, and the byte-wise and the character-wise automaton report the same matches -/
theorem C18_match_end_boundary (pat text : List Char) (hp : pat ≠ []) (k : Nat)
    (hk : k ≤ (utf8Encode text).length) (h : utf8Encode pat <:+ (utf8Encode text).take k) :
    ∃ j, j ≤ text.length ∧ k = (utf8Encode (text.take j)).length ∧ pat <:+ text.take j := by
  exact UtfL.match_end_boundary pat text hp k hk h

/-- and conversely every character-level occurrence is a byte-level occurrence ending at that character's byte offset -/
theorem C18_char_match_is_byte_match (pat text : List Char) (j : Nat) (hj : j ≤ text.length) (h : pat <:+ text.take j) :
    utf8Encode pat <:+ (utf8Encode text).take (utf8Encode (text.take j)).length := by
  have _ := hj  -- not needed: `take` saturates
  exact UtfL.char_match_is_byte_match pat text j h

end V
