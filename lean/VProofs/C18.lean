import VModel.History
import VModel.Bincode
import VProofs.C01
import VProofs.C05
import VProofs.C06
import VProofs.C15
import VProofs.Lemmas.UtfSync
import VProofs.Lemmas.SafeOps
import VProofs.Lemmas.SafeWindow0
/-!
# C18 — No input drives the unchecked code out of bounds

In the model every `get_unchecked*`, `unwrap_unchecked` and unchecked range is a CHECKED access that yields `Res.ub`, so
"the preconditions of the unchecked operations hold" is the statement that no run produces `ub`.  The character-level model
abstracts two byte-level preconditions, which are proved separately on the UTF-8 encoder of `VModel/Bincode.lean`:
offsets handed to the position map are character boundaries (UTF-8 self-synchronisation, `C18_match_end_boundary`) and the
buffer that `write_tokenized_text` assembles from raw bytes is valid UTF-8 (`C18_escape_*`).
Property theorems only (helper lemmas live in `VProofs/Lemmas/Safe*.lean` and `Utf*.lean`).
-/
namespace V
open V.Bin

/-! ## histories never reach `ub` (nor `panic`) -/

/-- the predictors that exist were built through the safe API from well-formed models -/
def EnvWF (env : List Predictor) : Prop :=
  ∀ p ∈ env, ∃ cfg m pt p0 store, WFModel m ∧ WFTags m ∧ Predictor.new cfg m pt = .ok p0 ∧
    p = { p0 with storeTagScores := store }

/-- what the documentation requires of the caller: predictors exist, `fill_tags` only after `predict` with a predictor built
with `predict_tags = true`, indices into the public slices in range, grapheme clusters that segment the text -/
def HOp.Valid (env : List Predictor) (s : Sentence) : HOp → Prop
  | .predict k => k < env.length
  | .fillTags => ∀ k, s.pred = some k → ∃ p, env[k]? = some p ∧ p.tagPredictor.isSome = true
  | .setBoundary i _ => i < s.bounds.length
  | .setTag i _ => i < s.tags.length
  | .filterGc ls => (∀ l ∈ ls, 1 ≤ l) ∧ ls.sum = s.text.length
  | _ => True

/-- a history all of whose calls are valid in the state they are issued in -/
def ValidRun (env : List Predictor) : Sentence → List HOp → Prop
  | _, [] => True
  | s, op :: ops => op.Valid env s ∧ ∀ s' ok, op.apply env s = .ok (s', ok) → ValidRun env s' ops

/-- **every valid history on one sentence object runs to completion**: no unchecked index leaves its range, no checked
operation panics — for all well-formed models, all texts (accepted or rejected), all boundary/tag states reachable through
the public API, in every build configuration of every predictor -/
theorem C18_history_safe (env : List Predictor) (henv : EnvWF env) (ops : List HOp)
    (hv : ValidRun env Sentence.default ops) : ∃ s, runHistory env Sentence.default ops = .ok s ∧ Inv s := by
  have hvalid : ∀ (s : Sentence) (op : HOp), op.Valid env s → C18L.OpValid env s op := fun s op h => by
    cases op <;> exact h
  have main : ∀ (ops : List HOp) (s : Sentence), C18L.InvH env s → ValidRun env s ops →
      ∃ s', runHistory env s ops = .ok s' ∧ Inv s' := by
    intro ops
    induction ops with
    | nil => exact fun s h _ => ⟨s, rfl, h.1⟩
    | cons op ops ih =>
      intro s h hr
      obtain ⟨s1, ok, h1, h2⟩ := C18L.step_safe henv h op (hvalid s op hr.1)
      obtain ⟨s2, h3, h4⟩ := ih s1 h2 (hr.2 s1 ok h1)
      exact ⟨s2, by simp only [runHistory, h1, h3], h4⟩
  exact main ops _ (C18L.invH_default env) hv

/-! ## the same for window size 0

`EnvWF` asks for `WFModel`, i.e. both windows at least 1.  Predictors built from models with `--charw 0` and/or `--typew 0`
(`WFModel0`: the n-grams of a switched-off kind are arbitrary, they are ignored) are covered by the theorem below, of which
`C18_history_safe` is the special case (`EnvWF.toEnvWF0`). -/

/-- as `EnvWF`, with window sizes 0..255 -/
def EnvWF0 (env : List Predictor) : Prop :=
  ∀ p ∈ env, ∃ cfg m pt p0 store, WFModel0 m ∧ WFTags m ∧ Predictor.new cfg m pt = .ok p0 ∧
    p = { p0 with storeTagScores := store }

/-- every environment of `C18_history_safe` is one of `C18_history_safe_window0` -/
theorem EnvWF.toEnvWF0 {env : List Predictor} (h : EnvWF env) : EnvWF0 env :=
  fun p hp => C18L.PredWF.toPredWF0 (h p hp)

/-- **every valid history on one sentence object runs to completion, windows 0..255**: as `C18_history_safe`, for predictors
built from models that are well-formed up to the n-grams of switched-off kinds -/
theorem C18_history_safe_window0 (env : List Predictor) (henv : EnvWF0 env) (ops : List HOp)
    (hv : ValidRun env Sentence.default ops) : ∃ s, runHistory env Sentence.default ops = .ok s ∧ Inv s := by
  have hvalid : ∀ (s : Sentence) (op : HOp), op.Valid env s → C18L.OpValid env s op := fun s op h => by
    cases op <;> exact h
  have main : ∀ (ops : List HOp) (s : Sentence), C18L.InvH env s → ValidRun env s ops →
      ∃ s', runHistory env s ops = .ok s' ∧ Inv s' := by
    intro ops
    induction ops with
    | nil => exact fun s h _ => ⟨s, rfl, h.1⟩
    | cons op ops ih =>
      intro s h hr
      obtain ⟨s1, ok, h1, h2⟩ := C18L.step_safe0 henv h op (hvalid s op hr.1)
      obtain ⟨s2, h3, h4⟩ := ih s1 h2 (hr.2 s1 ok h1)
      exact ⟨s2, by simp only [runHistory, h1, h3], h4⟩
  exact main ops _ (C18L.invH_default env) hv

/-- `C18_history_safe` as a corollary -/
theorem C18_history_safe_of_window0 (env : List Predictor) (henv : EnvWF env) (ops : List HOp)
    (hv : ValidRun env Sentence.default ops) : ∃ s, runHistory env Sentence.default ops = .ok s ∧ Inv s :=
  C18_history_safe_window0 env henv.toEnvWF0 ops hv

/-! ### non-vacuity: an environment of two predictors with zero windows — `C01_exModel0` (character window 0, ill-shaped
character n-grams that are ignored; built with tag prediction) and `C06_exModel00` (both windows 0; built without) — and a
history that uses both, `fill_tags`, the mutable slices and a filter -/

/-- `ValidRun` as a Boolean (validity of each call in the state it is issued in; nothing is asked after a call that does not
return) -/
def C18_validRunB (env : List Predictor) : Sentence → List HOp → Bool
  | _, [] => true
  | s, op :: ops => C18L.opValidB env s op &&
    match op.apply env s with
    | .ok (s', _) => C18_validRunB env s' ops
    | _ => true

theorem C18_validRunB_sound (env : List Predictor) (s : Sentence) (ops : List HOp)
    (h : C18_validRunB env s ops = true) : ValidRun env s ops := by
  induction ops generalizing s with
  | nil => trivial
  | cons op ops ih =>
    simp only [C18_validRunB, Bool.and_eq_true] at h
    refine ⟨?_, fun s' ok hap => ?_⟩
    · have := C18L.opValidB_sound env s op h.1
      cases op <;> exact this
    · have h2 := h.2
      rw [hap] at h2
      exact ih s' h2

def C18_exEnv0 : List Predictor :=
  match Predictor.new {} C01_exModel0 true, Predictor.new {} C06_exModel00 false with
  | .ok p, .ok q => [{ p with storeTagScores := true }, q]
  | _, _ => []

def C18_exOps0 : List HOp :=
  [.updateRaw ['a', 'b', 'a'], .predict 0, .fillTags, .setBoundary 0 B.W, .fillTags, .filterGc [1, 2], .predict 1,
   .setTag 0 none, .updateRaw [], .predict 0, .resetTags 1]

example : C18_exEnv0.length = 2 := by decide

example : EnvWF0 C18_exEnv0 := by
  have w1 : WFModel0 C01_exModel0 :=
    { charW_le := by decide, typeW_le := by decide, char_nodup := by decide, char_shape := by decide,
      type_nodup := by decide, type_shape := by decide, dict_nodup := by decide, dict_shape := by decide }
  have w2 : WFModel0 C06_exModel00 :=
    { charW_le := by decide, typeW_le := by decide, char_nodup := by decide, char_shape := by decide,
      type_nodup := by decide, type_shape := by decide, dict_nodup := by decide, dict_shape := by decide }
  have t1 : WFTags C01_exModel0 := ⟨by decide, by decide, by decide, by decide⟩
  have t2 : WFTags C06_exModel00 := ⟨by decide, by decide, by decide, by decide⟩
  intro p hp
  unfold C18_exEnv0 at hp
  split at hp
  · next p0 q0 e1 e2 =>
    rcases List.mem_cons.mp hp with rfl | hp
    · exact ⟨{}, _, true, p0, true, w1, t1, e1, rfl⟩
    · rcases List.mem_cons.mp hp with rfl | hp
      · exact ⟨{}, _, false, p, p.storeTagScores, w2, t2, e2, rfl⟩
      · cases hp
  · cases hp

/-- neither model is a `WFModel` (the witnesses above are outside the reach of `C18_history_safe`) -/
example : ¬ WFModel C01_exModel0 ∧ ¬ WFModel C06_exModel00 :=
  ⟨fun h => absurd h.charW_pos (by decide), fun h => absurd h.charW_pos (by decide)⟩

/-- `hv`: every call of the history is valid in the state it is issued in -/
example : ValidRun C18_exEnv0 Sentence.default C18_exOps0 := C18_validRunB_sound _ _ _ (by decide)

/-- the conclusion on the example: the history runs to completion; after the first `fill_tags` the sentence carries the
boundaries and tags of the specification (`C01.lean`, `C06.lean`), after the second the tags for the boundaries put in -/
example : (runHistory C18_exEnv0 Sentence.default C18_exOps0).isOk = true := by decide
example : (runHistory C18_exEnv0 Sentence.default (C18_exOps0.take 3)).map (fun s => (s.bounds, s.tags))
    = .ok ([B.N, B.W], [none, none, some ['y']]) := by decide
example : (runHistory C18_exEnv0 Sentence.default (C18_exOps0.take 5)).map (fun s => (s.bounds, s.tags))
    = .ok ([B.W, B.W], [some ['y'], none, some ['y']]) := by decide
/-- a call that is not valid (`fill_tags` after `predict` with the second predictor, built without tag prediction) is
rejected by the checker, and indeed does not return -/
example : C18_validRunB C18_exEnv0 Sentence.default [.updateRaw ['a', 'b', 'a'], .predict 1, .fillTags] = false := by decide
example : (runHistory C18_exEnv0 Sentence.default [.updateRaw ['a', 'b', 'a'], .predict 1, .fillTags]).isOk = false := by
  decide

/-! ## byte-level preconditions -/

/-- the byte loop of `write_tokenized_text`: a backslash is pushed before every byte that is a space, a backslash or a slash -/
def escBytes : Bytes → Bytes
  | [] => []
  | b :: r => if b = 0x20 ∨ b = 0x5C ∨ b = 0x2F then 0x5C :: b :: escBytes r else b :: escBytes r

/-- escaping bytes is escaping characters: the three bytes never occur inside a multi-byte sequence -/
theorem C18_escape_bytes (cs : List Char) : utf8Encode (escTok cs) = escBytes (utf8Encode cs) := by
  exact UtfL.escape_bytes_of escBytes (fun _ _ => rfl) rfl cs

/-- hence the buffer assembled from raw bytes is valid UTF-8 (it decodes, to the escaped characters) -/
theorem C18_escape_valid_utf8 (cs : List Char) : utf8Decode? (escBytes (utf8Encode cs)) = some (escTok cs) := by
  rw [← C18_escape_bytes, BinL.utf8Decode_encode]

/-- UTF-8 self-synchronisation: wherever the bytes of a non-empty pattern end inside the bytes of a text, that offset is a
character boundary and the pattern occurs there as characters — so every match end handed to `str_to_char_pos` is a
character boundary, and the byte-wise and the character-wise automaton report the same matches -/
theorem C18_match_end_boundary (pat text : List Char) (hp : pat ≠ []) (k : Nat)
    (hk : k ≤ (utf8Encode text).length) (h : utf8Encode pat <:+ (utf8Encode text).take k) :
    ∃ j, j ≤ text.length ∧ k = (utf8Encode (text.take j)).length ∧ pat <:+ text.take j := by
  exact UtfL.match_end_boundary pat text hp k hk h

/-- and conversely every character-level occurrence is a byte-level occurrence ending at that character's byte offset -/
theorem C18_char_match_is_byte_match (pat text : List Char) (j : Nat) (hj : j ≤ text.length) (h : pat <:+ text.take j) :
    utf8Encode pat <:+ (utf8Encode text).take (utf8Encode (text.take j)).length := by
  have _ := hj  -- not needed: `take` saturates
  exact UtfL.char_match_is_byte_match pat text j h

end V
