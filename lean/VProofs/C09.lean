import VModel.Trainer
import VModel.Spec
import VProofs.Lemmas.AsmMain
import VProofs.Lemmas.PermAsm
/-!
# C09 — A trained model computes exactly the function the learner produced

Property theorems only (helper lemmas live in `VProofs/Lemmas/Asm*.lean`).
The learner is the universally quantified `trace : List (Feature × Int)` (one quantised weight per feature) and `bias`.
-/
namespace V

/-- the quantised weight the learner assigned to a feature (0 for a feature it never saw) -/
def wqOf (trace : List (Feature × Int)) (f : Feature) : Int :=
  match trace.find? (fun e => e.1 = f) with
  | some e => e.2
  | none => 0

/-- a feature that the trainer can extract under this configuration (from some text at some boundary) -/
def Generable (cfg : TrainCfg) (f : Feature) : Prop := ∃ text i, i + 1 < text.length ∧ f ∈ genFeatures cfg text i

/-- configurations `Trainer::new` accepts, with a length bucket of at least 1 -/
structure CfgOK (cfg : TrainCfg) : Prop where
  words_ne : ∀ w ∈ cfg.dictWords, w ≠ []
  words_nodup : cfg.dictWords.Nodup
  maxlen_pos : 1 ≤ cfg.dictMaxLen

/-- assembling the model never panics on features the trainer itself produced under the same configuration, whatever
weights the learner assigned and whatever the two window sizes are -/
theorem C09_assemble_total (cfg : TrainCfg) (hc : CfgOK cfg) (trace : List (Feature × Int)) (bias : Int)
    (tms : List TagModel) (hg : ∀ e ∈ trace, Generable cfg e.1) :
    ∃ m, assembleBoundary cfg trace bias tms = .ok m :=
  C09L.assemble_total cfg hc.words_ne hc.maxlen_pos trace bias tms hg

/-- every stored n-gram weight vector covers exactly the positions of its OWN window: `2·window − ℓ + 1` entries -/
theorem C09_vector_shape (cfg : TrainCfg) (trace : List (Feature × Int)) (bias : Int) (tms : List TagModel) (m : WModel)
    (h : assembleBoundary cfg trace bias tms = .ok m) :
    (∀ d ∈ m.charNgrams, d.weights.length = 2 * cfg.charW - d.ngram.length + 1 ∧ d.ngram.length ≤ 2 * cfg.charW) ∧
    (∀ d ∈ m.typeNgrams, d.weights.length = 2 * cfg.typeW - d.ngram.length + 1 ∧ d.ngram.length ≤ 2 * cfg.typeW) ∧
    (∀ d ∈ m.dict, d.weights.length = d.word.length + 1) ∧
    m.charW = cfg.charW ∧ m.typeW = cfg.typeW ∧ m.bias = bias ∧ m.dict.map (·.word) = cfg.dictWords :=
  C09L.vector_shape cfg trace bias tms m h

/-- **main theorem**: the model returned by training scores every boundary of every text as the learned quantised bias
plus the learned quantised weight of each feature the trainer extracts for that boundary (with multiplicity) -/
theorem C09_scores (cfg : TrainCfg) (hc : CfgOK cfg) (trace : List (Feature × Int)) (bias : Int) (tms : List TagModel)
    (hnd : (trace.map Prod.fst).Nodup) (hg : ∀ e ∈ trace, Generable cfg e.1) (m : WModel)
    (h : assembleBoundary cfg trace bias tms = .ok m) (text : List Char) (b : Nat) (hb : b + 1 < text.length) :
    specScore m text b = bias + ((genFeatures cfg text b).map (wqOf trace)).sum :=
  C09L.scores_main cfg hc.words_ne hc.maxlen_pos trace bias tms hnd hg m h text b hb

/-! ## non-vacuity: a configuration with different character and type windows -/
namespace C09Ex

def cfg : TrainCfg :=
  { charW := 2, charN := 2, typeW := 1, typeN := 1, dictWords := [['a', 'b'], ['b']], dictMaxLen := 1 }
def text : List Char := ['c', 'a', 'b', 'd']
def trace : List (Feature × Int) :=
  [(.charNgram ['a', 'b'] (-1), 5), (.charNgram ['b'] 0, -3), (.charNgram ['d'] 1, 7), (.charNgram ['c'] (-2), 0),
   (.typeNgram [2] (-1), 11), (.typeNgram [2] 0, 0),
   (.dictWord 1 .inside, 13), (.dictWord 1 .right, 17), (.dictWord 1 .left, 19)]
/-- character vectors have `2·2 − ℓ + 1` entries, the type vector `2·1 − 1 + 1` -/
def model : WModel :=
  { charNgrams := [⟨['a', 'b'], [0, 5, 0]⟩, ⟨['b'], [0, -3, 0, 0]⟩, ⟨['d'], [7, 0, 0, 0]⟩],
    typeNgrams := [⟨[2], [0, 11]⟩],
    dict := [⟨['a', 'b'], [19, 13, 17], []⟩, ⟨['b'], [19, 17], []⟩],
    bias := 100, charW := 2, typeW := 1, tagModels := [] }

/-- the hypotheses of `C09_scores` are satisfiable, the assembled model is the expected one, and boundary 1 of `cabd`
scores `100 + 5 − 3 + 7 + 0 + 11 + 0 + 13 + 19 = 152` on both sides -/
example :
    CfgOK cfg ∧ (trace.map Prod.fst).Nodup ∧ (∀ e ∈ trace, Generable cfg e.1) ∧
    assembleBoundary cfg trace 100 [] = .ok model ∧
    specScore model text 1 = 152 ∧ 100 + ((genFeatures cfg text 1).map (wqOf trace)).sum = 152 := by
  refine ⟨⟨by decide, by decide, by decide⟩, by decide, ?_, by decide, by decide, by decide⟩
  intro e he
  have hgen : ∀ i, i + 1 < text.length → ∀ f, f ∈ genFeatures cfg text i → Generable cfg f :=
    fun i hi f hf => ⟨text, i, hi, hf⟩
  have : ∀ e ∈ trace, e.1 ∈ genFeatures cfg text 0 ∨ e.1 ∈ genFeatures cfg text 1 ∨ e.1 ∈ genFeatures cfg text 2 := by
    decide
  rcases this e he with h | h | h
  · exact hgen 0 (by decide) _ h
  · exact hgen 1 (by decide) _ h
  · exact hgen 2 (by decide) _ h

end C09Ex

end V

/-! ## the iteration order of `feature_ids` (a hashbrown `HashMap`) in `Trainer::train` is not observable

`for (feature, fid) in self.feature_ids` decides in which order the quantised weights are written into the two `BTreeMap`s
and the dictionary buckets.  The model takes the order of the trace; these theorems show that every other order of the same
(pairwise distinct) features gives the same outcome.  No hypothesis on the features is needed.  The literal equality of the
two `Res` values fails in exactly one way (`C09_assemble_perm_site_differs`): when at least two entries panic, the panic
*site* reported is that of the entry visited first. -/
namespace V

/-- **order independence**: on two permutations of a trace with pairwise distinct features `assembleBoundary` returns the same
outcome (the same model, or a panic in both cases — "panics for one order iff for the other") -/
theorem C09_assemble_perm (cfg : TrainCfg) (feats₁ feats₂ : List (Feature × Int)) (bias : Int) (tms : List TagModel)
    (hp : feats₁.Perm feats₂) (hnd : (feats₁.map Prod.fst).Nodup) :
    assembleBoundary cfg feats₁ bias tms = assembleBoundary cfg feats₂ bias tms ∨
    ∃ s₁ s₂, assembleBoundary cfg feats₁ bias tms = .panic s₁ ∧ assembleBoundary cfg feats₂ bias tms = .panic s₂ :=
  C09L.assemble_perm cfg hp hnd bias tms

/-- if one order yields a model, every other order yields the same model -/
theorem C09_assemble_perm_ok (cfg : TrainCfg) (feats₁ feats₂ : List (Feature × Int)) (bias : Int) (tms : List TagModel)
    (hp : feats₁.Perm feats₂) (hnd : (feats₁.map Prod.fst).Nodup) (m : WModel)
    (h : assembleBoundary cfg feats₁ bias tms = .ok m) : assembleBoundary cfg feats₂ bias tms = .ok m :=
  ((C09L.assemble_perm cfg hp hnd bias tms).ok_iff m).mp h

/-- one order panics iff the other does -/
theorem C09_assemble_perm_panic_iff (cfg : TrainCfg) (feats₁ feats₂ : List (Feature × Int)) (bias : Int) (tms : List TagModel)
    (hp : feats₁.Perm feats₂) (hnd : (feats₁.map Prod.fst).Nodup) :
    (∃ s, assembleBoundary cfg feats₁ bias tms = .panic s) ↔ (∃ s, assembleBoundary cfg feats₂ bias tms = .panic s) :=
  (C09L.assemble_perm cfg hp hnd bias tms).panic_iff

/-- for the features the trainer itself extracts (no panic, `C09_assemble_total`) the two outcomes are equal -/
theorem C09_assemble_perm_eq (cfg : TrainCfg) (hc : CfgOK cfg) (feats₁ feats₂ : List (Feature × Int)) (bias : Int)
    (tms : List TagModel) (hp : feats₁.Perm feats₂) (hnd : (feats₁.map Prod.fst).Nodup)
    (hg : ∀ e ∈ feats₁, Generable cfg e.1) :
    assembleBoundary cfg feats₁ bias tms = assembleBoundary cfg feats₂ bias tms := by
  obtain ⟨m, hm⟩ := C09_assemble_total cfg hc feats₁ bias tms hg
  rw [hm, C09_assemble_perm_ok cfg feats₁ feats₂ bias tms hp hnd m hm]

/-- the unconditional equality of the two `Res` values is FALSE: two entries that both panic (a character n-gram outside its
window and a dictionary feature of length 0 — neither is `Generable`) report the site of whichever is visited first -/
theorem C09_assemble_perm_site_differs :
    ∃ (cfg : TrainCfg) (feats₁ feats₂ : List (Feature × Int)), feats₁.Perm feats₂ ∧ (feats₁.map Prod.fst).Nodup ∧
      assembleBoundary cfg feats₁ 0 [] = .panic "usize::try_from(window - len - rel).unwrap()" ∧
      assembleBoundary cfg feats₂ 0 [] = .panic "dict_weights[length - 1]" :=
  ⟨{ charW := 1, charN := 1, typeW := 1, typeN := 1, dictWords := [], dictMaxLen := 1 },
   [(.charNgram ['a'] 5, 1), (.dictWord 0 .left, 1)], [(.dictWord 0 .left, 1), (.charNgram ['a'] 5, 1)],
   by decide, by decide, by decide, by decide⟩

/-- non-vacuity: the trace of `C09Ex` reversed and rotated (two non-trivial permutations; the features are distinct) assembles
to the same model, entries of the same n-gram (`['b']` has one entry, the dictionary bucket 1 has three) included -/
example :
    C09Ex.trace.reverse.Perm C09Ex.trace ∧ (C09Ex.trace.reverse.map Prod.fst).Nodup ∧
    C09Ex.trace.reverse ≠ C09Ex.trace ∧
    assembleBoundary C09Ex.cfg C09Ex.trace.reverse 100 [] = .ok C09Ex.model ∧
    assembleBoundary C09Ex.cfg (C09Ex.trace.rotateLeft 4) 100 [] = .ok C09Ex.model ∧
    assembleBoundary C09Ex.cfg C09Ex.trace 100 [] = .ok C09Ex.model := by
  refine ⟨by decide, by decide, by decide, by decide, by decide, by decide⟩

end V
