import VModel.Trainer
import VModel.Spec
/-!
# C09 — A trained model computes exactly the function the learner produced

Property theorems only (helper lemmas live in `VProofs/Lemmas/Asm*.lean`).
The learner is the universally quantified `trace : List (Feature × Int)` (one quantised weight per feature) and `bias`.
-/
namespace V

/-- the quantised weight the learner assigned to a feature (0 for a feature it never saw) -/
def wqOf (trace : List (Feature × Int)) (f : Feature) : Int :=
  match trace.find? (fun e => e.1 = f) with
  | some e => e.2
  | none => 0

/-- a feature that the trainer can extract under this configuration (from some text at some boundary) -/
def Generable (cfg : TrainCfg) (f : Feature) : Prop := ∃ text i, i + 1 < text.length ∧ f ∈ genFeatures cfg text i

/-- configurations `Trainer::new` accepts, with a length bucket of at least 1 -/
structure CfgOK (cfg : TrainCfg) : Prop where
  words_ne : ∀ w ∈ cfg.dictWords, w ≠ []
  words_nodup : cfg.dictWords.Nodup
  maxlen_pos : 1 ≤ cfg.dictMaxLen

/-- assembling the model never panics on features the trainer itself produced under the same configuration, whatever
weights the learner assigned and whatever the two window sizes are -/
theorem C09_assemble_total (cfg : TrainCfg) (hc : CfgOK cfg) (trace : List (Feature × Int)) (bias : Int)
    (tms : List TagModel) (hg : ∀ e ∈ trace, Generable cfg e.1) :
    ∃ m, assembleBoundary cfg trace bias tms = .ok m := by
  sorry

/-- every stored n-gram weight vector covers exactly the positions of its OWN window: `2·window − ℓ + 1` entries -/
theorem C09_vector_shape (cfg : TrainCfg) (trace : List (Feature × Int)) (bias : Int) (tms : List TagModel) (m : WModel)
    (h : assembleBoundary cfg trace bias tms = .ok m) :
    (∀ d ∈ m.charNgrams, d.weights.length = 2 * cfg.charW - d.ngram.length + 1 ∧ d.ngram.length ≤ 2 * cfg.charW) ∧
    (∀ d ∈ m.typeNgrams, d.weights.length = 2 * cfg.typeW - d.ngram.length + 1 ∧ d.ngram.length ≤ 2 * cfg.typeW) ∧
    (∀ d ∈ m.dict, d.weights.length = d.word.length + 1) ∧
    m.charW = cfg.charW ∧ m.typeW = cfg.typeW ∧ m.bias = bias ∧ m.dict.map (·.word) = cfg.dictWords := by
  sorry

/-- **main theorem**: the model returned by training scores every boundary of every text as the learned quantised bias
plus the learned quantised weight of each feature the trainer extracts for that boundary (with multiplicity) -/
theorem C09_scores (cfg : TrainCfg) (hc : CfgOK cfg) (trace : List (Feature × Int)) (bias : Int) (tms : List TagModel)
    (hnd : (trace.map Prod.fst).Nodup) (hg : ∀ e ∈ trace, Generable cfg e.1) (m : WModel)
    (h : assembleBoundary cfg trace bias tms = .ok m) (text : List Char) (b : Nat) (hb : b + 1 < text.length) :
    specScore m text b = bias + ((genFeatures cfg text b).map (wqOf trace)).sum := by
  sorry

end V
