import VModel.Sentence
/-!
# C05 — Sentence parsers are total and leave a consistent sentence

Property theorems only (helper lemmas live in `VProofs/Lemmas/Inv*.lean`).
-/
namespace V

/-- consistency of a sentence: one type per character, one label per adjacent pair, characters × tag-count tag slots,
and a score buffer that is empty or covers the padded boundary range -/
structure Inv (s : Sentence) : Prop where
  text_ne : s.text ≠ []
  types_eq : s.types = typesOf s.text
  bounds_len : s.bounds.length + 1 = s.text.length
  tags_len : s.tags.length = s.text.length * s.nTags
  scores_ok : s.scores = [] ∨ s.padding + s.bounds.length ≤ s.scores.length

/-- the operations C05 quantifies over -/
inductive SOp
  | updateRaw (x : List Char)
  | updateTokenized (x : List Char)
  | updatePartial (x : List Char)
  | resetTags (k : Nat)

/-- one call on the sentence object; the `Bool` is whether an update returned `Ok` -/
def SOp.apply (s : Sentence) : SOp → Res (Sentence × Bool)
  | .updateRaw x => s.updateRaw x
  | .updateTokenized x => s.updateTokenized x
  | .updatePartial x => s.updatePartial x
  | .resetTags k => .ok (s.resetTags k, true)

/-- a history of calls; stops at the first call that does not return (panic / ub) -/
def runOps (s : Sentence) : List SOp → Res Sentence
  | [] => .ok s
  | op :: ops =>
    match op.apply s with
    | .ok (s', _) => runOps s' ops
    | .err e => .err e
    | .panic p => .panic p
    | .ub p => .ub p

/-- for every input string, each constructor and each in-place update succeeds or returns an error; none panics -/
theorem C05_total (x : List Char) (s : Sentence) :
    (Sentence.fromRaw x).Safe ∧ (Sentence.fromTokenized x).Safe ∧ (Sentence.fromPartial x).Safe ∧
    (s.updateRaw x).Safe ∧ (s.updateTokenized x).Safe ∧ (s.updatePartial x).Safe := by
  sorry

/-- the in-place updates always return (they report failure through the flag, never `err`/`panic` at this level) -/
theorem C05_update_returns (s : Sentence) (op : SOp) : ∃ s' ok, op.apply s = .ok (s', ok) := by
  sorry

/-- after a failed update the sentence is the default single-space sentence -/
theorem C05_err_default (s s' : Sentence) (x : List Char) :
    (s.updateRaw x = .ok (s', false) → s' = Sentence.default) ∧
    (s.updateTokenized x = .ok (s', false) → s' = Sentence.default) ∧
    (s.updatePartial x = .ok (s', false) → s' = Sentence.default) := by
  sorry

/-- after a successful update the sentence is exactly the one the corresponding constructor builds from the same
input, independently of what it held before (every field: text, types, boundaries, tags, tag count, no scores) -/
theorem C05_ok_describes (s s' : Sentence) (x : List Char) :
    (s.updateRaw x = .ok (s', true) → Sentence.fromRaw x = .ok s') ∧
    (s.updateTokenized x = .ok (s', true) → Sentence.fromTokenized x = .ok s') ∧
    (s.updatePartial x = .ok (s', true) → Sentence.fromPartial x = .ok s') := by
  sorry

/-- what a constructor returns is consistent, and has no scores -/
theorem C05_ctor_inv (x : List Char) (s : Sentence) :
    (Sentence.fromRaw x = .ok s ∨ Sentence.fromTokenized x = .ok s ∨ Sentence.fromPartial x = .ok s) →
    Inv s ∧ s.scores = [] := by
  sorry

theorem C05_default_inv : Inv Sentence.default := by
  sorry

/-- every operation preserves consistency … -/
theorem C05_step_inv (s s' : Sentence) (op : SOp) (ok : Bool) (h : Inv s) (hs : op.apply s = .ok (s', ok)) : Inv s' := by
  sorry

/-- … hence every history of calls on one sentence object returns a consistent sentence and never panics -/
theorem C05_history_inv (ops : List SOp) : ∃ s, runOps Sentence.default ops = .ok s ∧ Inv s := by
  sorry

/-- on a consistent sentence every accessor, writer and iterator works -/
theorem C05_accessors (s : Sentence) (h : Inv s) :
    s.writeTokenized.Safe ∧ s.writePartial.Safe ∧ s.boundaryScores.Safe ∧
    ∀ se ∈ iterTokens s.bounds, (s.substring se.1 se.2).Safe ∧ (s.tokenTags se.2).Safe := by
  sorry

/-! ## non-vacuity -/

example : (Sentence.default.updateTokenized "\\".toList) = .ok (Sentence.default, false) := by decide
example : runOps Sentence.default [.updateTokenized "a/x b".toList, .updateRaw "cd".toList, .resetTags 2] =
    .ok { Sentence.default with text := "cd".toList, types := [2, 2], bounds := [.U],
                                tags := [none, none, none, none], nTags := 2 } := by decide

end V
