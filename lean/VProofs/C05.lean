import VModel.Sentence
import VProofs.Lemmas.Inv
/-!
# C05 — Sentence parsers are total and leave a consistent sentence

Property theorems only (helper lemmas live in `VProofs/Lemmas/Inv.lean` and `VProofs/Lemmas/ParserTotal.lean`).
-/
namespace V

/-- consistency of a sentence: one type per character, one label per adjacent pair, characters × tag-count tag slots,
and a score buffer that is empty or covers the padded boundary range -/
structure Inv (s : Sentence) : Prop where
  text_ne : s.text ≠ []
  types_eq : s.types = typesOf s.text
  bounds_len : s.bounds.length + 1 = s.text.length
  tags_len : s.tags.length = s.text.length * s.nTags
  scores_ok : s.scores = [] ∨ s.padding + s.bounds.length ≤ s.scores.length

/-- `Inv` and the conjunction `InvC` used by the helper lemmas are the same thing -/
theorem Inv.toC {s : Sentence} (h : Inv s) : InvC s := ⟨h.1, h.2, h.3, h.4, h.5⟩
theorem Inv.ofC {s : Sentence} (h : InvC s) : Inv s := ⟨h.1, h.2.1, h.2.2.1, h.2.2.2.1, h.2.2.2.2⟩

/-- the operations C05 quantifies over -/
inductive SOp
  | updateRaw (x : List Char)
  | updateTokenized (x : List Char)
  | updatePartial (x : List Char)
  | resetTags (k : Nat)

/-- one call on the sentence object; the `Bool` is whether an update returned `Ok` -/
def SOp.apply (s : Sentence) : SOp → Res (Sentence × Bool)
  | .updateRaw x => s.updateRaw x
  | .updateTokenized x => s.updateTokenized x
  | .updatePartial x => s.updatePartial x
  | .resetTags k => .ok (s.resetTags k, true)

/-- a history of calls; stops at the first call that does not return (panic / ub) -/
def runOps (s : Sentence) : List SOp → Res Sentence
  | [] => .ok s
  | op :: ops =>
    match op.apply s with
    | .ok (s', _) => runOps s' ops
    | .err e => .err e
    | .panic p => .panic p
    | .ub p => .ub p

/-- for every input string, each constructor and each in-place update succeeds or returns an error; none panics -/
theorem C05_total (x : List Char) (s : Sentence) :
    (Sentence.fromRaw x).Safe ∧ (Sentence.fromTokenized x).Safe ∧ (Sentence.fromPartial x).Safe ∧
    (s.updateRaw x).Safe ∧ (s.updateTokenized x).Safe ∧ (s.updatePartial x).Safe := by
  exact ⟨(paired_raw x).ctor_safe, (paired_tokenized x).ctor_safe, (paired_partial x).ctor_safe,
    (paired_raw x).upd_safe s, (paired_tokenized x).upd_safe s, (paired_partial x).upd_safe s⟩

/-- the in-place updates always return (they report failure through the flag, never `err`/`panic` at this level) -/
theorem C05_update_returns (s : Sentence) (op : SOp) : ∃ s' ok, op.apply s = .ok (s', ok) := by
  cases op with
  | updateRaw x => exact (paired_raw x).upd_returns s
  | updateTokenized x => exact (paired_tokenized x).upd_returns s
  | updatePartial x => exact (paired_partial x).upd_returns s
  | resetTags k => exact ⟨_, _, rfl⟩

/-- after a failed update the sentence is the default single-space sentence -/
theorem C05_err_default (s s' : Sentence) (x : List Char) :
    (s.updateRaw x = .ok (s', false) → s' = Sentence.default) ∧
    (s.updateTokenized x = .ok (s', false) → s' = Sentence.default) ∧
    (s.updatePartial x = .ok (s', false) → s' = Sentence.default) := by
  exact ⟨(paired_raw x).err_default, (paired_tokenized x).err_default, (paired_partial x).err_default⟩

/-- after a successful update the sentence is exactly the one the corresponding constructor builds from the same
input, independently of what it held before (every field: text, types, boundaries, tags, tag count, no scores) -/
theorem C05_ok_describes (s s' : Sentence) (x : List Char) :
    (s.updateRaw x = .ok (s', true) → Sentence.fromRaw x = .ok s') ∧
    (s.updateTokenized x = .ok (s', true) → Sentence.fromTokenized x = .ok s') ∧
    (s.updatePartial x = .ok (s', true) → Sentence.fromPartial x = .ok s') := by
  exact ⟨(paired_raw x).ok_describes, (paired_tokenized x).ok_describes, (paired_partial x).ok_describes⟩

/-- what a constructor returns is consistent, and has no scores -/
theorem C05_ctor_inv (x : List Char) (s : Sentence) :
    (Sentence.fromRaw x = .ok s ∨ Sentence.fromTokenized x = .ok s ∨ Sentence.fromPartial x = .ok s) →
    Inv s ∧ s.scores = [] := by
  intro h
  have : InvC s ∧ s.scores = [] := by
    rcases h with h | h | h
    · exact (paired_raw x).ctor_inv h
    · exact (paired_tokenized x).ctor_inv h
    · exact (paired_partial x).ctor_inv h
  exact ⟨Inv.ofC this.1, this.2⟩

theorem C05_default_inv : Inv Sentence.default := by
  exact Inv.ofC invC_default

/-- every operation preserves consistency … -/
theorem C05_step_inv (s s' : Sentence) (op : SOp) (ok : Bool) (h : Inv s) (hs : op.apply s = .ok (s', ok)) : Inv s' := by
  apply Inv.ofC
  cases op with
  | updateRaw x => exact (paired_raw x).step_inv hs
  | updateTokenized x => exact (paired_tokenized x).step_inv hs
  | updatePartial x => exact (paired_partial x).step_inv hs
  | resetTags k =>
    injection hs with hs
    injection hs with hs _
    rw [← hs]; exact invC_resetTags s k h.toC

/-- the same from any consistent starting sentence -/
theorem runOps_inv (ops : List SOp) (s : Sentence) (h : Inv s) : ∃ s', runOps s ops = .ok s' ∧ Inv s' := by
  induction ops generalizing s with
  | nil => exact ⟨s, rfl, h⟩
  | cons op ops ih =>
    obtain ⟨s1, ok, h1⟩ := C05_update_returns s op
    obtain ⟨s2, h2, h3⟩ := ih s1 (C05_step_inv s s1 op ok h h1)
    exact ⟨s2, by simp only [runOps, h1, h2], h3⟩

/-- … hence every history of calls on one sentence object returns a consistent sentence and never panics -/
theorem C05_history_inv (ops : List SOp) : ∃ s, runOps Sentence.default ops = .ok s ∧ Inv s := by
  exact runOps_inv ops _ C05_default_inv

/-- on a consistent sentence every accessor, writer and iterator works -/
theorem C05_accessors (s : Sentence) (h : Inv s) :
    s.writeTokenized.Safe ∧ s.writePartial.Safe ∧ s.boundaryScores.Safe ∧
    ∀ se ∈ iterTokens s.bounds, (s.substring se.1 se.2).Safe ∧ (s.tokenTags se.2).Safe := by
  exact ⟨writeTokenized_safe s h.toC, writePartial_safe s h.toC, boundaryScores_safe s h.toC, token_safe s h.toC⟩

/-! ## non-vacuity -/

example : (Sentence.default.updateTokenized "\\".toList) = .ok (Sentence.default, false) := by decide
example : runOps Sentence.default [.updateTokenized "a/x b".toList, .updateRaw "cd".toList, .resetTags 2] =
    .ok { Sentence.default with text := "cd".toList, types := [2, 2], bounds := [.U],
                                tags := [none, none, none, none], nTags := 2 } := by decide

end V
