import VProofs.C01
import VProofs.Lemmas.TagFinal
import VProofs.Lemmas.TagLocal
import VProofs.Lemmas.TagWindow0
/-!
# C06 — Predicted tags equal the per-token linear classifiers

Property theorems only (helper lemmas live in `VProofs/Lemmas/Tag*.lean`).
The specification (`specTagScores`, `specPickTags`, `specTokenTags`, `specNTags`, `tagModelOf`) is in `VModel/Spec.lean`.
-/
namespace V

/-- well-formed tag models: unique tokens; a bias entry and, in every tag n-gram weight, one weight per trainable class;
non-empty n-grams; type codes in 1..6.  Relative positions are NOT restricted to the window of their kind: the tag
table is sized by the largest relative position in the model -/
structure WFTags (m : WModel) : Prop where
  tokens_nodup : (m.tagModels.map (·.token)).Nodup
  bias_len : ∀ tm ∈ m.tagModels, tm.bias.length = nClass tm.tags
  char_ok : ∀ tm ∈ m.tagModels, ∀ d ∈ tm.charNgrams, d.ngram ≠ [] ∧
    ∀ w ∈ d.weights, w.weights.length = nClass tm.tags
  type_ok : ∀ tm ∈ m.tagModels, ∀ d ∈ tm.typeNgrams, d.ngram ≠ [] ∧ (∀ t ∈ d.ngram, 1 ≤ t ∧ t ≤ 6) ∧
    ∀ w ∈ d.weights, w.weights.length = nClass tm.tags

/-- all tag rows, one per character: the row of the unknown-free token ending at that character, else absent tags -/
def specAllTags (m : WModel) (text : List Char) (bs : List B) : List Tag :=
  (List.range text.length).flatMap fun i =>
    match (specTokens bs).find? (fun se => se.2 = i + 1) with
    | some (st, en) => specTokenTags m text st en
    | none => List.replicate (specNTags m) none

/-- the candidate scores `tag_candidates` must report for a token with tag model `tm` and class scores `sc` -/
def specCandidates : List (List (List Char)) → List Int → List (List (List Char × Int))
  | [], _ => []
  | cands :: r, sc =>
    if cands.length = 1 then [(cands.headD [], 0)] :: specCandidates r sc
    else if 2 ≤ cands.length then cands.zip (sc.take cands.length) :: specCandidates r (sc.drop cands.length)
    else [] :: specCandidates r sc

/-- the first maximum is what the scan `if s > max_score` selects -/
theorem C06_argmax (x : Int) (xs : List Int) :
    argmaxFirst (x :: xs) 0 0 none = firstMax (x :: xs) :=
  C06L.argmaxFirst_eq (x :: xs)

theorem WFTags.toL {m : WModel} (h : WFTags m) : C06L.WFT m :=
  ⟨h.bias_len, fun tm htm d hd => (h.char_ok tm htm d hd).2, fun tm htm d hd => (h.type_ok tm htm d hd).2.2⟩

theorem specAllTags_eq : specAllTags = C06L.allTags := rfl

theorem specCandidates_eq (tags : List (List (List Char))) (sc : List Int) :
    specCandidates tags sc = C06L.candSpec tags sc := by
  induction tags generalizing sc with
  | nil => rfl
  | cons c r ih => simp only [specCandidates, C06L.candSpec, ih]

/-- the common part of `C06_tags` and `C06_candidates`: the sentence `fill_tags` produces -/
theorem C06_predictTags (cfg : Cfg) (m : WModel) (hm : WFModel m) (ht : WFTags m)
    (p : Predictor) (hp : Predictor.new cfg m true = .ok p) (store : Bool)
    (s s1 : Sentence) (hs : SentOK s) (pid : Nat) (h1 : p.predict pid s = .ok s1)
    (bs : List B) (hbs : bs.length = s1.bounds.length) (hn : 0 < specNTags m) :
    bs.length + 1 = s.text.length ∧
    ({ p with storeTagScores := store } : Predictor).predictTags { s1 with bounds := bs }
      = .ok { s1 with bounds := bs, nTags := specNTags m, tags := specAllTags m s.text bs,
                      tagScores := if store = true then C06L.allScores cfg m s.text bs else [] } := by
  rw [specAllTags_eq]
  exact C06L.predictTags_full cfg m hm.charW_pos hm.char_shape hm.typeW_pos hm.type_shape
    (fun d hd => (hm.dict_shape d hd).1) ht.toL p hp store s s1 hs.text_ne hs.types_eq hs.bounds_len pid h1 bs hbs hn

set_option linter.unusedVariables false in
/-- **main theorem**: after `predict` with a tag-predicting predictor built from a well-formed model, and for ANY
boundary vector the sentence carries afterwards (as produced by prediction or rewritten by filters, unknowns included),
`fill_tags` does not panic, sets the tag count to the widest tag model, gives every unknown-free token whose surface
has a tag model the per-category best candidate (first on ties; the single candidate; none for an empty category) of
`bias + Σ tag n-gram weights at their stated offset from the token's last character`, gives every other slot no tag,
and touches nothing else -/
theorem C06_tags (cfg : Cfg) (hcfg : cfg.tagPred = true) (m : WModel) (hm : WFModel m) (ht : WFTags m)
    (p : Predictor) (hp : Predictor.new cfg m true = .ok p) (store : Bool)
    (s s1 : Sentence) (hs : SentOK s) (pid : Nat) (h1 : p.predict pid s = .ok s1)
    (bs : List B) (hbs : bs.length = s1.bounds.length) (hn : 0 < specNTags m) :
    ∃ s3, ({ p with storeTagScores := store } : Predictor).predictTags { s1 with bounds := bs } = .ok s3 ∧
      s3.nTags = specNTags m ∧ s3.tags = specAllTags m s.text bs ∧
      s3.bounds = bs ∧ s3.text = s.text ∧ s3.types = s1.types ∧ s3.scores = s1.scores ∧ s3.padding = s1.padding := by
  obtain ⟨_, h3⟩ := C06_predictTags cfg m hm ht p hp store s s1 hs pid h1 bs hbs hn
  have htext : s1.text = s.text := (C06L.predict_states p pid s s1 h1).1
  exact ⟨_, h3, rfl, rfl, rfl, htext, rfl, rfl, rfl⟩

set_option linter.unusedVariables false in
/-- with score storing, the candidate scores reported for each token equal those sums (0 for a single candidate);
without it nothing is stored -/
theorem C06_candidates (cfg : Cfg) (hcfg : cfg.tagPred = true) (m : WModel) (hm : WFModel m) (ht : WFTags m)
    (p : Predictor) (hp : Predictor.new cfg m true = .ok p) (store : Bool)
    (s s1 s3 : Sentence) (hs : SentOK s) (pid : Nat) (h1 : p.predict pid s = .ok s1)
    (bs : List B) (hbs : bs.length = s1.bounds.length) (hn : 0 < specNTags m)
    (h3 : ({ p with storeTagScores := store } : Predictor).predictTags { s1 with bounds := bs } = .ok s3) :
    (store = false → s3.tagScores = []) ∧
    (store = true → ∀ se ∈ specTokens bs,
      s3.tagCandidates se.2 = .ok (match tagModelOf m ((s.text.drop se.1).take (se.2 - se.1)) with
        | some tm => specCandidates tm.tags (specTagScores tm s.text (se.2 - 1))
        | none => [])) := by
  obtain ⟨hbl, h3'⟩ := C06_predictTags cfg m hm ht p hp store s s1 hs pid h1 bs hbs hn
  rw [h3'] at h3
  simp only [Res.ok.injEq] at h3
  subst h3
  refine ⟨fun h => by simp [h], fun h se hse => ?_⟩
  rw [C06L.tagCandidates_spec cfg m s.text bs hbl _ (by simp [h]) se hse]
  cases tagModelOf m ((s.text.drop se.1).take (se.2 - se.1)) with
  | none => rfl
  | some tm => simp only [specCandidates_eq]

/-- a model without tag categories: `fill_tags` leaves text, boundaries, tags and tag count as they are; it only (re)creates
the per-character score slots, empty, when score storing is enabled (so `tag_candidates` reports no candidates) -/
theorem C06_no_categories (cfg : Cfg) (m : WModel) (p : Predictor) (hp : Predictor.new cfg m true = .ok p)
    (hn : specNTags m = 0) (s : Sentence) :
    p.predictTags s =
      .ok { s with tagScores := if p.storeTagScores then List.replicate s.types.length none else [] } := by
  obtain ⟨_, h1, h2, _⟩ := C06L.new_tag_ok cfg m p hp
  unfold Predictor.predictTags
  rw [h1]
  simp only [h2, hn, if_true]

set_option linter.unusedVariables false in
/-- locality of the tag classifiers: the tag row of a token depends only on the token and on the `R` characters on either side
of its last character, where `R` bounds the length and the relative position of every tag n-gram — whatever precedes and follows
that stretch of text -/
theorem C06_tags_local (m : WModel) (ht : WFTags m) (R : Nat)
    (hR : ∀ tm ∈ m.tagModels,
      (∀ d ∈ tm.charNgrams, d.ngram.length ≤ R ∧ ∀ w ∈ d.weights, w.rel ≤ R) ∧
      (∀ d ∈ tm.typeNgrams, d.ngram.length ≤ R ∧ ∀ w ∈ d.weights, w.rel ≤ R))
    (pre pre' mid post post' : List Char) (st en : Nat) (hse : st < en) (h1 : R ≤ en) (h2 : en + R ≤ mid.length) :
    specTokenTags m (pre ++ mid ++ post) (pre.length + st) (pre.length + en) =
      specTokenTags m (pre' ++ mid ++ post') (pre'.length + st) (pre'.length + en) := by
  rw [C06Loc.specTokenTags_local m R hR pre mid post st en hse h1 h2,
    C06Loc.specTokenTags_local m R hR pre' mid post' st en hse h1 h2]

/-! ## non-vacuity: the model and sentence of `C01.lean` satisfy the hypotheses of `C06_tags` / `C06_candidates`
(one tag model for the surface `a` with one two-candidate category; the type n-gram one character after the token
votes for the second candidate), and the model computes what the specification says -/

example : WFTags C01_exModel := ⟨by decide, by decide, by decide, by decide⟩
example : 0 < specNTags C01_exModel := by decide
example : specTokens [B.W, B.N] = [(0, 1), (1, 3)] := by decide
example : specTagScores (C01_exModel.tagModels.getD 0 default) C01_exSentence.text 0 = [0, 1] := by decide
example : specAllTags C01_exModel C01_exSentence.text [B.W, B.N] = [some ['y'], none, none] := by decide

/-- `predict` then `fill_tags` (storing scores) on the example -/
def C06_exRun : Res Sentence :=
  (Predictor.new {} C01_exModel true).bind fun p =>
    (p.predict 0 C01_exSentence).bind fun s1 => ({ p with storeTagScores := true } : Predictor).predictTags s1

example : C06_exRun.map (·.bounds) = .ok [B.W, B.N] := by decide
example : C06_exRun.map (·.tags) = .ok [some ['y'], none, none] := by decide
example : C06_exRun.bind (·.tagCandidates 1) = .ok [[(['x'], 0), (['y'], 1)]] := by decide

/-! ## non-vacuity beyond the window: a tag n-gram at relative position 2 with `charW = 1` satisfies `WFTags`, is read
by `fill_tags` and changes the chosen tag (from `y` above to `x`) -/

/-- the example model with the character tag n-gram moved to relative position 2, beyond `charW = 1`, and voting for
the first candidate -/
def C06_exModelFar : WModel :=
  { C01_exModel with
    tagModels := [{ token := ['a'], tags := [[['x'], ['y']]], charNgrams := [⟨['b', 'a'], [⟨2, [5, 0]⟩]⟩],
                    typeNgrams := [⟨[2], [⟨1, [0, 1]⟩]⟩], bias := [0, 0] }] }

example : WFModel C06_exModelFar :=
  { charW_pos := by decide, charW_le := by decide, typeW_pos := by decide, typeW_le := by decide,
    char_nodup := by decide, char_shape := by decide, type_nodup := by decide, type_shape := by decide,
    dict_nodup := by decide, dict_shape := by decide }
example : WFTags C06_exModelFar := ⟨by decide, by decide, by decide, by decide⟩
example : ∃ tm ∈ C06_exModelFar.tagModels, ∃ d ∈ tm.charNgrams, ∃ w ∈ d.weights, C06_exModelFar.charW < w.rel := by decide
example : specTagScores (C06_exModelFar.tagModels.getD 0 default) C01_exSentence.text 0 = [5, 1] := by decide

def C06_exRunFar : Res Sentence :=
  (Predictor.new {} C06_exModelFar true).bind fun p =>
    (p.predict 0 C01_exSentence).bind fun s1 => ({ p with storeTagScores := true } : Predictor).predictTags s1

example : C06_exRunFar.map (·.bounds) = .ok [B.W, B.N] := by decide
example : C06_exRunFar.map (·.tags) = .ok [some ['x'], none, none] := by decide
example : C06_exRunFar.bind (·.tagCandidates 1) = .ok [[(['x'], 5), (['y'], 1)]] := by decide

/-! ## non-vacuity of `C06_tags_local`: `R = 2` bounds the n-gram lengths (2) and relative positions (0, 1 resp. 2, 1) of both
example models; in `mid = "baba"` the token `[1, 2)` (surface `a`, which has a tag model) has `R` characters on either side
of its end (both side conditions hold with equality) -/

example : ∀ m ∈ [C01_exModel, C06_exModelFar], ∀ tm ∈ m.tagModels,
    (∀ d ∈ tm.charNgrams, d.ngram.length ≤ 2 ∧ ∀ w ∈ d.weights, w.rel ≤ 2) ∧
    (∀ d ∈ tm.typeNgrams, d.ngram.length ≤ 2 ∧ ∀ w ∈ d.weights, w.rel ≤ 2) := by decide
example : 1 < 2 ∧ 2 ≤ 2 ∧ 2 + 2 ≤ ['b', 'a', 'b', 'a'].length := by decide
example : specTokenTags C01_exModel (['a', 'a'] ++ ['b', 'a', 'b', 'a'] ++ ['b']) (2 + 1) (2 + 2) = [some ['y']] ∧
    specTokenTags C01_exModel ([] ++ ['b', 'a', 'b', 'a'] ++ ['1', 'a']) (0 + 1) (0 + 2) = [some ['y']] := by decide
example : specTokenTags C06_exModelFar (['a', 'a'] ++ ['b', 'a', 'b', 'a'] ++ ['b']) (2 + 1) (2 + 2) = [some ['x']] ∧
    specTokenTags C06_exModelFar ([] ++ ['b', 'a', 'b', 'a'] ++ ['1', 'a']) (0 + 1) (0 + 2) = [some ['x']] := by decide
/-- one character fewer on the right (`en + R = mid.length + 1`) and the conclusion fails -/
example : specTokenTags C06_exModelFar ([] ++ ['b', 'a', 'b'] ++ ['a']) (0 + 1) (0 + 2)
    ≠ specTokenTags C06_exModelFar ([] ++ ['b', 'a', 'b'] ++ ['b']) (0 + 1) (0 + 2) := by decide

/-- the example model with the character tag n-gram (at relative position 0) voting for the first candidate -/
def C06_exModelNear : WModel :=
  { C01_exModel with
    tagModels := [{ token := ['a'], tags := [[['x'], ['y']]], charNgrams := [⟨['b', 'a'], [⟨0, [5, 0]⟩]⟩],
                    typeNgrams := [⟨[2], [⟨1, [0, 1]⟩]⟩], bias := [0, 0] }] }

/-- one character fewer on the left (`en = R - 1`) and the conclusion fails -/
example : specTokenTags C06_exModelNear (['b'] ++ ['a', 'b', 'a'] ++ []) (1 + 0) (1 + 1)
    ≠ specTokenTags C06_exModelNear (['a'] ++ ['a', 'b', 'a'] ++ []) (1 + 0) (1 + 1) := by decide
/-! ## window size 0 (`--charw 0`, `--typew 0`): the tag side is unaffected

A window of 0 switches off the BOUNDARY n-grams of that kind (`C01_scores_window0`); the tag n-grams of both kinds still
count.  The tag-weight table of a scorer has `max(window + 1, rel + 1)` rows, so with window 0 it still has a row for relative
position 0 and for every relative position that occurs.  The three theorems above therefore hold verbatim for `WFModel0`;
the specification (`specNTags`, `specAllTags`, `C06L.allScores`, `tagModelOf`, `specTagScores`) reads `m.tagModels` only, so it
is that of `m` itself — `dropW0 m` would give the same (`C06_spec_dropW0`). -/

/-- the tag specification does not see the boundary n-grams: dropping those of the switched-off kinds changes nothing -/
theorem C06_spec_dropW0 (cfg : Cfg) (m : WModel) :
    specNTags (dropW0 m) = specNTags m ∧ specAllTags (dropW0 m) = specAllTags m ∧
    C06L.allScores cfg (dropW0 m) = C06L.allScores cfg m ∧ tagModelOf (dropW0 m) = tagModelOf m ∧
    (WFTags (dropW0 m) ↔ WFTags m) :=
  ⟨rfl, rfl, rfl, rfl, ⟨fun h => ⟨h.1, h.2, h.3, h.4⟩, fun h => ⟨h.1, h.2, h.3, h.4⟩⟩⟩

/-- `C06_predictTags` for windows 0..255 -/
theorem C06_predictTags_window0 (cfg : Cfg) (m : WModel) (hm : WFModel0 m) (ht : WFTags m)
    (p : Predictor) (hp : Predictor.new cfg m true = .ok p) (store : Bool)
    (s s1 : Sentence) (hs : SentOK s) (pid : Nat) (h1 : p.predict pid s = .ok s1)
    (bs : List B) (hbs : bs.length = s1.bounds.length) (hn : 0 < specNTags m) :
    bs.length + 1 = s.text.length ∧
    ({ p with storeTagScores := store } : Predictor).predictTags { s1 with bounds := bs }
      = .ok { s1 with bounds := bs, nTags := specNTags m, tags := specAllTags m s.text bs,
                      tagScores := if store = true then C06L.allScores cfg m s.text bs else [] } := by
  rw [specAllTags_eq]
  exact C06L.predictTags_full0 cfg m hm.char_shape hm.type_shape
    (fun d hd => (hm.dict_shape d hd).1) ht.toL p hp store s s1 hs.text_ne hs.types_eq hs.bounds_len pid h1 bs hbs hn

set_option linter.unusedVariables false in
/-- **main theorem, windows 0..255**: as `C06_tags`, for every model that is well-formed up to the n-grams of switched-off
kinds: with `--charw 0` and/or `--typew 0` `fill_tags` does not panic either, and every tag n-gram of either kind still
contributes its weight at its stated offset -/
theorem C06_tags_window0 (cfg : Cfg) (hcfg : cfg.tagPred = true) (m : WModel) (hm : WFModel0 m) (ht : WFTags m)
    (p : Predictor) (hp : Predictor.new cfg m true = .ok p) (store : Bool)
    (s s1 : Sentence) (hs : SentOK s) (pid : Nat) (h1 : p.predict pid s = .ok s1)
    (bs : List B) (hbs : bs.length = s1.bounds.length) (hn : 0 < specNTags m) :
    ∃ s3, ({ p with storeTagScores := store } : Predictor).predictTags { s1 with bounds := bs } = .ok s3 ∧
      s3.nTags = specNTags m ∧ s3.tags = specAllTags m s.text bs ∧
      s3.bounds = bs ∧ s3.text = s.text ∧ s3.types = s1.types ∧ s3.scores = s1.scores ∧ s3.padding = s1.padding := by
  obtain ⟨_, h3⟩ := C06_predictTags_window0 cfg m hm ht p hp store s s1 hs pid h1 bs hbs hn
  have htext : s1.text = s.text := (C06L.predict_states p pid s s1 h1).1
  exact ⟨_, h3, rfl, rfl, rfl, htext, rfl, rfl, rfl⟩

set_option linter.unusedVariables false in
/-- `C06_candidates` for windows 0..255 -/
theorem C06_candidates_window0 (cfg : Cfg) (hcfg : cfg.tagPred = true) (m : WModel) (hm : WFModel0 m) (ht : WFTags m)
    (p : Predictor) (hp : Predictor.new cfg m true = .ok p) (store : Bool)
    (s s1 s3 : Sentence) (hs : SentOK s) (pid : Nat) (h1 : p.predict pid s = .ok s1)
    (bs : List B) (hbs : bs.length = s1.bounds.length) (hn : 0 < specNTags m)
    (h3 : ({ p with storeTagScores := store } : Predictor).predictTags { s1 with bounds := bs } = .ok s3) :
    (store = false → s3.tagScores = []) ∧
    (store = true → ∀ se ∈ specTokens bs,
      s3.tagCandidates se.2 = .ok (match tagModelOf m ((s.text.drop se.1).take (se.2 - se.1)) with
        | some tm => specCandidates tm.tags (specTagScores tm s.text (se.2 - 1))
        | none => [])) := by
  obtain ⟨hbl, h3'⟩ := C06_predictTags_window0 cfg m hm ht p hp store s s1 hs pid h1 bs hbs hn
  rw [h3'] at h3
  simp only [Res.ok.injEq] at h3
  subst h3
  refine ⟨fun h => by simp [h], fun h se hse => ?_⟩
  rw [C06L.tagCandidates_spec cfg m s.text bs hbl _ (by simp [h]) se hse]
  cases tagModelOf m ((s.text.drop se.1).take (se.2 - se.1)) with
  | none => rfl
  | some tm => simp only [specCandidates_eq]

/-! ### non-vacuity: the model `C01_exModel0` (character window 0, ill-shaped character n-grams that are ignored, one tag model
for the surface `a` with a character tag n-gram `ba` at relative position 0 and a type tag n-gram one character after the
token) and the sentence `aba` satisfy the hypotheses of the three theorems (`WFModel0 C01_exModel0` and
`SentOK C01_exSentence` are in `C01.lean`), and the model computes what the specification says -/

example : WFTags C01_exModel0 := ⟨by decide, by decide, by decide, by decide⟩
example : 0 < specNTags C01_exModel0 := by decide
example : (Predictor.new {} C01_exModel0 true).isOk = true := by decide
example : ¬ WFModel C01_exModel0 := fun h => absurd h.charW_pos (by decide)

/-- `predict` then `fill_tags` (storing scores or not) on the example, with boundaries `bs` put in between (`none`: as predicted) -/
def C06_exRun0 (store : Bool) (bs : Option (List B)) : Res Sentence :=
  (Predictor.new {} C01_exModel0 true).bind fun p =>
    (p.predict 0 C01_exSentence).bind fun s1 =>
      ({ p with storeTagScores := store } : Predictor).predictTags { s1 with bounds := bs.getD s1.bounds }

/-- the specification on the example: the predicted boundaries are `[N, W]` (`C01.lean`), so the tokens are `ab` (no tag
model) and the final `a`, whose class scores are those of the character tag n-gram `ba` ending at it — with the bias `[0, 0]`
alone the first candidate `x` would win the tie -/
example : specTokens [B.N, B.W] = [(0, 2), (2, 3)] := by decide
example : specTagScores (C01_exModel0.tagModels.getD 0 default) C01_exSentence.text 2 = [1, 2] := by decide
example : specAllTags C01_exModel0 C01_exSentence.text [B.N, B.W] = [none, none, some ['y']] := by decide

/-- the model: `C06_predictTags_window0` / `C06_tags_window0` (tag count, tags, boundaries kept) … -/
example : (C06_exRun0 true none).map (·.bounds) = .ok [B.N, B.W] := by decide
example : (C06_exRun0 true none).map (·.nTags) = .ok (specNTags C01_exModel0) := by decide
example : (C06_exRun0 true none).map (·.tags) = .ok [none, none, some ['y']] := by decide
example : (C06_exRun0 false none).map (·.tags) = .ok [none, none, some ['y']] := by decide
example : (C06_exRun0 true none).map (·.tagScores) = .ok (C06L.allScores {} C01_exModel0 C01_exSentence.text [B.N, B.W]) :=
  rfl
/-- … and `C06_candidates_window0` (the character tag n-gram is read although the character window is 0) -/
example : (C06_exRun0 false none).map (·.tagScores) = .ok [] := rfl
example : (C06_exRun0 true none).bind (·.tagCandidates 3) = .ok [[(['x'], 1), (['y'], 2)]] := by decide
example : (C06_exRun0 true none).bind (·.tagCandidates 2) = .ok [] := by decide

/-- other boundaries put in after prediction (`bs` is arbitrary in the theorems): both `a` are tokens, the first one gets the
type tag n-gram one character after it, the last one the character tag n-gram -/
example : specAllTags C01_exModel0 C01_exSentence.text [B.W, B.W] = [some ['y'], none, some ['y']] := by decide
example : (C06_exRun0 true (some [B.W, B.W])).map (·.tags) = .ok [some ['y'], none, some ['y']] := by decide
example : (C06_exRun0 true (some [B.W, B.W])).bind (·.tagCandidates 1) = .ok [[(['x'], 0), (['y'], 1)]] := by decide
example : (C06_exRun0 true (some [B.W, B.W])).bind (·.tagCandidates 3) = .ok [[(['x'], 1), (['y'], 2)]] := by decide

/-! ### both windows 0 and a tag n-gram beyond them: the table has `max(window + 1, rel + 1)` rows, so the character tag n-gram
at relative position 2 (with `charW = 0`) and the type tag n-gram at relative position 1 (with `typeW = 0`) are both read -/

def C06_exModel00 : WModel :=
  { C01_exModel0 with
    typeW := 0,
    tagModels := [{ token := ['a'], tags := [[['x'], ['y']]], charNgrams := [⟨['b', 'a'], [⟨2, [5, 0]⟩]⟩],
                    typeNgrams := [⟨[2], [⟨1, [0, 1]⟩]⟩], bias := [0, 0] }] }

example : WFModel0 C06_exModel00 :=
  { charW_le := by decide, typeW_le := by decide, char_nodup := by decide, char_shape := by decide,
    type_nodup := by decide, type_shape := by decide, dict_nodup := by decide, dict_shape := by decide }
example : WFTags C06_exModel00 := ⟨by decide, by decide, by decide, by decide⟩
example : C06_exModel00.charW = 0 ∧ C06_exModel00.typeW = 0 ∧ 0 < specNTags C06_exModel00 := by decide
example : specTagScores (C06_exModel00.tagModels.getD 0 default) C01_exSentence.text 0 = [5, 1] := by decide
example : specAllTags C06_exModel00 C01_exSentence.text [B.W, B.W] = [some ['x'], none, some ['x']] := by decide

def C06_exRun00 (bs : List B) : Res Sentence :=
  (Predictor.new {} C06_exModel00 true).bind fun p =>
    (p.predict 0 C01_exSentence).bind fun s1 =>
      ({ p with storeTagScores := true } : Predictor).predictTags { s1 with bounds := bs }

example : (C06_exRun00 [B.W, B.W]).map (·.tags) = .ok [some ['x'], none, some ['x']] := by decide
example : (C06_exRun00 [B.W, B.W]).bind (·.tagCandidates 1) = .ok [[(['x'], 5), (['y'], 1)]] := by decide
example : (C06_exRun00 [B.W, B.W]).bind (·.tagCandidates 3) = .ok [[(['x'], 0), (['y'], 0)]] := by decide

end V
