import VProofs.C01
import VProofs.Lemmas.TagFinal
import VProofs.Lemmas.TagLocal
import VProofs.Lemmas.TagWindow0
import VProofs.Lemmas.TagBoundMain
import VProofs.Lemmas.PermPredictor
import VProofs.Lemmas.PermCells
import VProofs.Lemmas.PermCellsNew
/-!
# C06 — Predicted tags equal the per-token linear classifiers

Property theorems only (helper lemmas live in `VProofs/Lemmas/Tag*.lean`).
The specification (`specTagScores`, `specPickTags`, `specTokenTags`, `specNTags`, `tagModelOf`) is in `VModel/Spec.lean`.
-/
namespace V

/-- well-formed tag models: unique tokens; a bias entry and, in every tag n-gram weight, one weight per trainable class;
non-empty n-grams; type codes in 1..6.  Relative positions are NOT restricted to the window of their kind: the tag
table is sized by the largest relative position in the model -/
structure WFTags (m : WModel) : Prop where
  tokens_nodup : (m.tagModels.map (·.token)).Nodup
  bias_len : ∀ tm ∈ m.tagModels, tm.bias.length = nClass tm.tags
  char_ok : ∀ tm ∈ m.tagModels, ∀ d ∈ tm.charNgrams, d.ngram ≠ [] ∧
    ∀ w ∈ d.weights, w.weights.length = nClass tm.tags
  type_ok : ∀ tm ∈ m.tagModels, ∀ d ∈ tm.typeNgrams, d.ngram ≠ [] ∧ (∀ t ∈ d.ngram, 1 ≤ t ∧ t ≤ 6) ∧
    ∀ w ∈ d.weights, w.weights.length = nClass tm.tags

/-- all tag rows, one per character: the row of the unknown-free token ending at that character, else absent tags -/
def specAllTags (m : WModel) (text : List Char) (bs : List B) : List Tag :=
  (List.range text.length).flatMap fun i =>
    match (specTokens bs).find? (fun se => se.2 = i + 1) with
    | some (st, en) => specTokenTags m text st en
    | none => List.replicate (specNTags m) none

/-- the candidate scores `tag_candidates` must report for a token with tag model `tm` and class scores `sc` -/
def specCandidates : List (List (List Char)) → List Int → List (List (List Char × Int))
  | [], _ => []
  | cands :: r, sc =>
    if cands.length = 1 then [(cands.headD [], 0)] :: specCandidates r sc
    else if 2 ≤ cands.length then cands.zip (sc.take cands.length) :: specCandidates r (sc.drop cands.length)
    else [] :: specCandidates r sc

/-- the first maximum is what the scan `if s > max_score` selects -/
theorem C06_argmax (x : Int) (xs : List Int) :
    argmaxFirst (x :: xs) 0 0 none = firstMax (x :: xs) :=
  C06L.argmaxFirst_eq (x :: xs)

theorem WFTags.toL {m : WModel} (h : WFTags m) : C06L.WFT m :=
  ⟨h.bias_len, fun tm htm d hd => (h.char_ok tm htm d hd).2, fun tm htm d hd => (h.type_ok tm htm d hd).2.2⟩

theorem specAllTags_eq : specAllTags = C06L.allTags := rfl

theorem specCandidates_eq (tags : List (List (List Char))) (sc : List Int) :
    specCandidates tags sc = C06L.candSpec tags sc := by
  induction tags generalizing sc with
  | nil => rfl
  | cons c r ih => simp only [specCandidates, C06L.candSpec, ih]

/-- the common part of `C06_tags` and `C06_candidates`: the sentence `fill_tags` produces -/
theorem C06_predictTags (cfg : Cfg) (m : WModel) (hm : WFModel m) (ht : WFTags m)
    (p : Predictor) (hp : Predictor.new cfg m true = .ok p) (store : Bool)
    (s s1 : Sentence) (hs : SentOK s) (pid : Nat) (h1 : p.predict pid s = .ok s1)
    (bs : List B) (hbs : bs.length = s1.bounds.length) (hn : 0 < specNTags m) :
    bs.length + 1 = s.text.length ∧
    ({ p with storeTagScores := store } : Predictor).predictTags { s1 with bounds := bs }
      = .ok { s1 with bounds := bs, nTags := specNTags m, tags := specAllTags m s.text bs,
                      tagScores := if store = true then C06L.allScores cfg m s.text bs else [] } := by
  rw [specAllTags_eq]
  exact C06L.predictTags_full cfg m hm.charW_pos hm.char_shape hm.typeW_pos hm.type_shape
    (fun d hd => (hm.dict_shape d hd).1) ht.toL p hp store s s1 hs.text_ne hs.types_eq hs.bounds_len pid h1 bs hbs hn

set_option linter.unusedVariables false in
/-- **main theorem**: after `predict` with a tag-predicting predictor built from a well-formed model, and for ANY
boundary vector the sentence carries afterwards (as produced by prediction or rewritten by filters, unknowns included),
`fill_tags` does not panic, sets the tag count to the widest tag model, gives every unknown-free token whose surface
has a tag model the per-category best candidate (first on ties; the single candidate; none for an empty category) of
`bias + Σ tag n-gram weights at their stated offset from the token's last character`, gives every other slot no tag,
and touches nothing else -/
theorem C06_tags (cfg : Cfg) (hcfg : cfg.tagPred = true) (m : WModel) (hm : WFModel m) (ht : WFTags m)
    (p : Predictor) (hp : Predictor.new cfg m true = .ok p) (store : Bool)
    (s s1 : Sentence) (hs : SentOK s) (pid : Nat) (h1 : p.predict pid s = .ok s1)
    (bs : List B) (hbs : bs.length = s1.bounds.length) (hn : 0 < specNTags m) :
    ∃ s3, ({ p with storeTagScores := store } : Predictor).predictTags { s1 with bounds := bs } = .ok s3 ∧
      s3.nTags = specNTags m ∧ s3.tags = specAllTags m s.text bs ∧
      s3.bounds = bs ∧ s3.text = s.text ∧ s3.types = s1.types ∧ s3.scores = s1.scores ∧ s3.padding = s1.padding := by
  obtain ⟨_, h3⟩ := C06_predictTags cfg m hm ht p hp store s s1 hs pid h1 bs hbs hn
  have htext : s1.text = s.text := (C06L.predict_states p pid s s1 h1).1
  exact ⟨_, h3, rfl, rfl, rfl, htext, rfl, rfl, rfl⟩

set_option linter.unusedVariables false in
/-- with score storing, the candidate scores reported for each token equal those sums (0 for a single candidate);
without it nothing is stored -/
theorem C06_candidates (cfg : Cfg) (hcfg : cfg.tagPred = true) (m : WModel) (hm : WFModel m) (ht : WFTags m)
    (p : Predictor) (hp : Predictor.new cfg m true = .ok p) (store : Bool)
    (s s1 s3 : Sentence) (hs : SentOK s) (pid : Nat) (h1 : p.predict pid s = .ok s1)
    (bs : List B) (hbs : bs.length = s1.bounds.length) (hn : 0 < specNTags m)
    (h3 : ({ p with storeTagScores := store } : Predictor).predictTags { s1 with bounds := bs } = .ok s3) :
    (store = false → s3.tagScores = []) ∧
    (store = true → ∀ se ∈ specTokens bs,
      s3.tagCandidates se.2 = .ok (match tagModelOf m ((s.text.drop se.1).take (se.2 - se.1)) with
        | some tm => specCandidates tm.tags (specTagScores tm s.text (se.2 - 1))
        | none => [])) := by
  obtain ⟨hbl, h3'⟩ := C06_predictTags cfg m hm ht p hp store s s1 hs pid h1 bs hbs hn
  rw [h3'] at h3
  simp only [Res.ok.injEq] at h3
  subst h3
  refine ⟨fun h => by simp [h], fun h se hse => ?_⟩
  rw [C06L.tagCandidates_spec cfg m s.text bs hbl _ (by simp [h]) se hse]
  cases tagModelOf m ((s.text.drop se.1).take (se.2 - se.1)) with
  | none => rfl
  | some tm => simp only [specCandidates_eq]

/-- a model without tag categories: `fill_tags` leaves text, boundaries, tags and tag count as they are; it only (re)creates
the per-character score slots, empty, when score storing is enabled (so `tag_candidates` reports no candidates) -/
theorem C06_no_categories (cfg : Cfg) (m : WModel) (p : Predictor) (hp : Predictor.new cfg m true = .ok p)
    (hn : specNTags m = 0) (s : Sentence) :
    p.predictTags s =
      .ok { s with tagScores := if p.storeTagScores then List.replicate s.types.length none else [] } := by
  obtain ⟨_, h1, h2, _⟩ := C06L.new_tag_ok cfg m p hp
  unfold Predictor.predictTags
  rw [h1]
  simp only [h2, hn, if_true]

set_option linter.unusedVariables false in
/-- locality of the tag classifiers: the tag row of a token depends only on the token and on the `R` characters on either side
of its last character, where `R` bounds the length and the relative position of every tag n-gram — whatever precedes and follows
that stretch of text -/
theorem C06_tags_local (m : WModel) (ht : WFTags m) (R : Nat)
    (hR : ∀ tm ∈ m.tagModels,
      (∀ d ∈ tm.charNgrams, d.ngram.length ≤ R ∧ ∀ w ∈ d.weights, w.rel ≤ R) ∧
      (∀ d ∈ tm.typeNgrams, d.ngram.length ≤ R ∧ ∀ w ∈ d.weights, w.rel ≤ R))
    (pre pre' mid post post' : List Char) (st en : Nat) (hse : st < en) (h1 : R ≤ en) (h2 : en + R ≤ mid.length) :
    specTokenTags m (pre ++ mid ++ post) (pre.length + st) (pre.length + en) =
      specTokenTags m (pre' ++ mid ++ post') (pre'.length + st) (pre'.length + en) := by
  rw [C06Loc.specTokenTags_local m R hR pre mid post st en hse h1 h2,
    C06Loc.specTokenTags_local m R hR pre' mid post' st en hse h1 h2]

/-! ## non-vacuity: the model and sentence of `C01.lean` satisfy the hypotheses of `C06_tags` / `C06_candidates`
(one tag model for the surface `a` with one two-candidate category; the type n-gram one character after the token
votes for the second candidate), and the model computes what the specification says -/

example : WFTags C01_exModel := ⟨by decide, by decide, by decide, by decide⟩
example : 0 < specNTags C01_exModel := by decide
example : specTokens [B.W, B.N] = [(0, 1), (1, 3)] := by decide
example : specTagScores (C01_exModel.tagModels.getD 0 default) C01_exSentence.text 0 = [0, 1] := by decide
example : specAllTags C01_exModel C01_exSentence.text [B.W, B.N] = [some ['y'], none, none] := by decide

/-- `predict` then `fill_tags` (storing scores) on the example -/
def C06_exRun : Res Sentence :=
  (Predictor.new {} C01_exModel true).bind fun p =>
    (p.predict 0 C01_exSentence).bind fun s1 => ({ p with storeTagScores := true } : Predictor).predictTags s1

example : C06_exRun.map (·.bounds) = .ok [B.W, B.N] := by decide
example : C06_exRun.map (·.tags) = .ok [some ['y'], none, none] := by decide
example : C06_exRun.bind (·.tagCandidates 1) = .ok [[(['x'], 0), (['y'], 1)]] := by decide

/-! ## non-vacuity beyond the window: a tag n-gram at relative position 2 with `charW = 1` satisfies `WFTags`, is read
by `fill_tags` and changes the chosen tag (from `y` above to `x`) -/

/-- the example model with the character tag n-gram moved to relative position 2, beyond `charW = 1`, and voting for
the first candidate -/
def C06_exModelFar : WModel :=
  { C01_exModel with
    tagModels := [{ token := ['a'], tags := [[['x'], ['y']]], charNgrams := [⟨['b', 'a'], [⟨2, [5, 0]⟩]⟩],
                    typeNgrams := [⟨[2], [⟨1, [0, 1]⟩]⟩], bias := [0, 0] }] }

example : WFModel C06_exModelFar :=
  { charW_pos := by decide, charW_le := by decide, typeW_pos := by decide, typeW_le := by decide,
    char_nodup := by decide, char_shape := by decide, type_nodup := by decide, type_shape := by decide,
    dict_nodup := by decide, dict_shape := by decide }
example : WFTags C06_exModelFar := ⟨by decide, by decide, by decide, by decide⟩
example : ∃ tm ∈ C06_exModelFar.tagModels, ∃ d ∈ tm.charNgrams, ∃ w ∈ d.weights, C06_exModelFar.charW < w.rel := by decide
example : specTagScores (C06_exModelFar.tagModels.getD 0 default) C01_exSentence.text 0 = [5, 1] := by decide

def C06_exRunFar : Res Sentence :=
  (Predictor.new {} C06_exModelFar true).bind fun p =>
    (p.predict 0 C01_exSentence).bind fun s1 => ({ p with storeTagScores := true } : Predictor).predictTags s1

example : C06_exRunFar.map (·.bounds) = .ok [B.W, B.N] := by decide
example : C06_exRunFar.map (·.tags) = .ok [some ['x'], none, none] := by decide
example : C06_exRunFar.bind (·.tagCandidates 1) = .ok [[(['x'], 5), (['y'], 1)]] := by decide

/-! ## non-vacuity of `C06_tags_local`: `R = 2` bounds the n-gram lengths (2) and relative positions (0, 1 resp. 2, 1) of both
example models; in `mid = "baba"` the token `[1, 2)` (surface `a`, which has a tag model) has `R` characters on either side
of its end (both side conditions hold with equality) -/

example : ∀ m ∈ [C01_exModel, C06_exModelFar], ∀ tm ∈ m.tagModels,
    (∀ d ∈ tm.charNgrams, d.ngram.length ≤ 2 ∧ ∀ w ∈ d.weights, w.rel ≤ 2) ∧
    (∀ d ∈ tm.typeNgrams, d.ngram.length ≤ 2 ∧ ∀ w ∈ d.weights, w.rel ≤ 2) := by decide
example : 1 < 2 ∧ 2 ≤ 2 ∧ 2 + 2 ≤ ['b', 'a', 'b', 'a'].length := by decide
example : specTokenTags C01_exModel (['a', 'a'] ++ ['b', 'a', 'b', 'a'] ++ ['b']) (2 + 1) (2 + 2) = [some ['y']] ∧
    specTokenTags C01_exModel ([] ++ ['b', 'a', 'b', 'a'] ++ ['1', 'a']) (0 + 1) (0 + 2) = [some ['y']] := by decide
example : specTokenTags C06_exModelFar (['a', 'a'] ++ ['b', 'a', 'b', 'a'] ++ ['b']) (2 + 1) (2 + 2) = [some ['x']] ∧
    specTokenTags C06_exModelFar ([] ++ ['b', 'a', 'b', 'a'] ++ ['1', 'a']) (0 + 1) (0 + 2) = [some ['x']] := by decide
/-- one character fewer on the right (`en + R = mid.length + 1`) and the conclusion fails -/
example : specTokenTags C06_exModelFar ([] ++ ['b', 'a', 'b'] ++ ['a']) (0 + 1) (0 + 2)
    ≠ specTokenTags C06_exModelFar ([] ++ ['b', 'a', 'b'] ++ ['b']) (0 + 1) (0 + 2) := by decide

/-- the example model with the character tag n-gram (at relative position 0) voting for the first candidate -/
def C06_exModelNear : WModel :=
  { C01_exModel with
    tagModels := [{ token := ['a'], tags := [[['x'], ['y']]], charNgrams := [⟨['b', 'a'], [⟨0, [5, 0]⟩]⟩],
                    typeNgrams := [⟨[2], [⟨1, [0, 1]⟩]⟩], bias := [0, 0] }] }

/-- one character fewer on the left (`en = R - 1`) and the conclusion fails -/
example : specTokenTags C06_exModelNear (['b'] ++ ['a', 'b', 'a'] ++ []) (1 + 0) (1 + 1)
    ≠ specTokenTags C06_exModelNear (['a'] ++ ['a', 'b', 'a'] ++ []) (1 + 0) (1 + 1) := by decide
/-! ## window size 0 (`--charw 0`, `--typew 0`): the tag side is unaffected

A window of 0 switches off the BOUNDARY n-grams of that kind (`C01_scores_window0`); the tag n-grams of both kinds still
count.  The tag-weight table of a scorer has `max(window + 1, rel + 1)` rows, so with window 0 it still has a row for relative
position 0 and for every relative position that occurs.  The three theorems above therefore hold verbatim for `WFModel0`;
the specification (`specNTags`, `specAllTags`, `C06L.allScores`, `tagModelOf`, `specTagScores`) reads `m.tagModels` only, so it
is that of `m` itself — `dropW0 m` would give the same (`C06_spec_dropW0`). -/

/-- the tag specification does not see the boundary n-grams: dropping those of the switched-off kinds changes nothing -/
theorem C06_spec_dropW0 (cfg : Cfg) (m : WModel) :
    specNTags (dropW0 m) = specNTags m ∧ specAllTags (dropW0 m) = specAllTags m ∧
    C06L.allScores cfg (dropW0 m) = C06L.allScores cfg m ∧ tagModelOf (dropW0 m) = tagModelOf m ∧
    (WFTags (dropW0 m) ↔ WFTags m) :=
  ⟨rfl, rfl, rfl, rfl, ⟨fun h => ⟨h.1, h.2, h.3, h.4⟩, fun h => ⟨h.1, h.2, h.3, h.4⟩⟩⟩

/-- `C06_predictTags` for windows 0..255 -/
theorem C06_predictTags_window0 (cfg : Cfg) (m : WModel) (hm : WFModel0 m) (ht : WFTags m)
    (p : Predictor) (hp : Predictor.new cfg m true = .ok p) (store : Bool)
    (s s1 : Sentence) (hs : SentOK s) (pid : Nat) (h1 : p.predict pid s = .ok s1)
    (bs : List B) (hbs : bs.length = s1.bounds.length) (hn : 0 < specNTags m) :
    bs.length + 1 = s.text.length ∧
    ({ p with storeTagScores := store } : Predictor).predictTags { s1 with bounds := bs }
      = .ok { s1 with bounds := bs, nTags := specNTags m, tags := specAllTags m s.text bs,
                      tagScores := if store = true then C06L.allScores cfg m s.text bs else [] } := by
  rw [specAllTags_eq]
  exact C06L.predictTags_full0 cfg m hm.char_shape hm.type_shape
    (fun d hd => (hm.dict_shape d hd).1) ht.toL p hp store s s1 hs.text_ne hs.types_eq hs.bounds_len pid h1 bs hbs hn

set_option linter.unusedVariables false in
/-- **main theorem, windows 0..255**: as `C06_tags`, for every model that is well-formed up to the n-grams of switched-off
kinds: with `--charw 0` and/or `--typew 0` `fill_tags` does not panic either, and every tag n-gram of either kind still
contributes its weight at its stated offset -/
theorem C06_tags_window0 (cfg : Cfg) (hcfg : cfg.tagPred = true) (m : WModel) (hm : WFModel0 m) (ht : WFTags m)
    (p : Predictor) (hp : Predictor.new cfg m true = .ok p) (store : Bool)
    (s s1 : Sentence) (hs : SentOK s) (pid : Nat) (h1 : p.predict pid s = .ok s1)
    (bs : List B) (hbs : bs.length = s1.bounds.length) (hn : 0 < specNTags m) :
    ∃ s3, ({ p with storeTagScores := store } : Predictor).predictTags { s1 with bounds := bs } = .ok s3 ∧
      s3.nTags = specNTags m ∧ s3.tags = specAllTags m s.text bs ∧
      s3.bounds = bs ∧ s3.text = s.text ∧ s3.types = s1.types ∧ s3.scores = s1.scores ∧ s3.padding = s1.padding := by
  obtain ⟨_, h3⟩ := C06_predictTags_window0 cfg m hm ht p hp store s s1 hs pid h1 bs hbs hn
  have htext : s1.text = s.text := (C06L.predict_states p pid s s1 h1).1
  exact ⟨_, h3, rfl, rfl, rfl, htext, rfl, rfl, rfl⟩

set_option linter.unusedVariables false in
/-- `C06_candidates` for windows 0..255 -/
theorem C06_candidates_window0 (cfg : Cfg) (hcfg : cfg.tagPred = true) (m : WModel) (hm : WFModel0 m) (ht : WFTags m)
    (p : Predictor) (hp : Predictor.new cfg m true = .ok p) (store : Bool)
    (s s1 s3 : Sentence) (hs : SentOK s) (pid : Nat) (h1 : p.predict pid s = .ok s1)
    (bs : List B) (hbs : bs.length = s1.bounds.length) (hn : 0 < specNTags m)
    (h3 : ({ p with storeTagScores := store } : Predictor).predictTags { s1 with bounds := bs } = .ok s3) :
    (store = false → s3.tagScores = []) ∧
    (store = true → ∀ se ∈ specTokens bs,
      s3.tagCandidates se.2 = .ok (match tagModelOf m ((s.text.drop se.1).take (se.2 - se.1)) with
        | some tm => specCandidates tm.tags (specTagScores tm s.text (se.2 - 1))
        | none => [])) := by
  obtain ⟨hbl, h3'⟩ := C06_predictTags_window0 cfg m hm ht p hp store s s1 hs pid h1 bs hbs hn
  rw [h3'] at h3
  simp only [Res.ok.injEq] at h3
  subst h3
  refine ⟨fun h => by simp [h], fun h se hse => ?_⟩
  rw [C06L.tagCandidates_spec cfg m s.text bs hbl _ (by simp [h]) se hse]
  cases tagModelOf m ((s.text.drop se.1).take (se.2 - se.1)) with
  | none => rfl
  | some tm => simp only [specCandidates_eq]

/-! ### non-vacuity: the model `C01_exModel0` (character window 0, ill-shaped character n-grams that are ignored, one tag model
for the surface `a` with a character tag n-gram `ba` at relative position 0 and a type tag n-gram one character after the
token) and the sentence `aba` satisfy the hypotheses of the three theorems (`WFModel0 C01_exModel0` and
`SentOK C01_exSentence` are in `C01.lean`), and the model computes what the specification says -/

example : WFTags C01_exModel0 := ⟨by decide, by decide, by decide, by decide⟩
example : 0 < specNTags C01_exModel0 := by decide
example : (Predictor.new {} C01_exModel0 true).isOk = true := by decide
example : ¬ WFModel C01_exModel0 := fun h => absurd h.charW_pos (by decide)

/-- `predict` then `fill_tags` (storing scores or not) on the example, with boundaries `bs` put in between (`none`: as predicted) -/
def C06_exRun0 (store : Bool) (bs : Option (List B)) : Res Sentence :=
  (Predictor.new {} C01_exModel0 true).bind fun p =>
    (p.predict 0 C01_exSentence).bind fun s1 =>
      ({ p with storeTagScores := store } : Predictor).predictTags { s1 with bounds := bs.getD s1.bounds }

/-- the specification on the example: the predicted boundaries are `[N, W]` (`C01.lean`), so the tokens are `ab` (no tag
model) and the final `a`, whose class scores are those of the character tag n-gram `ba` ending at it — with the bias `[0, 0]`
alone the first candidate `x` would win the tie -/
example : specTokens [B.N, B.W] = [(0, 2), (2, 3)] := by decide
example : specTagScores (C01_exModel0.tagModels.getD 0 default) C01_exSentence.text 2 = [1, 2] := by decide
example : specAllTags C01_exModel0 C01_exSentence.text [B.N, B.W] = [none, none, some ['y']] := by decide

/-- the model: `C06_predictTags_window0` / `C06_tags_window0` (tag count, tags, boundaries kept) … -/
example : (C06_exRun0 true none).map (·.bounds) = .ok [B.N, B.W] := by decide
example : (C06_exRun0 true none).map (·.nTags) = .ok (specNTags C01_exModel0) := by decide
example : (C06_exRun0 true none).map (·.tags) = .ok [none, none, some ['y']] := by decide
example : (C06_exRun0 false none).map (·.tags) = .ok [none, none, some ['y']] := by decide
example : (C06_exRun0 true none).map (·.tagScores) = .ok (C06L.allScores {} C01_exModel0 C01_exSentence.text [B.N, B.W]) :=
  rfl
/-- … and `C06_candidates_window0` (the character tag n-gram is read although the character window is 0) -/
example : (C06_exRun0 false none).map (·.tagScores) = .ok [] := rfl
example : (C06_exRun0 true none).bind (·.tagCandidates 3) = .ok [[(['x'], 1), (['y'], 2)]] := by decide
example : (C06_exRun0 true none).bind (·.tagCandidates 2) = .ok [] := by decide

/-- other boundaries put in after prediction (`bs` is arbitrary in the theorems): both `a` are tokens, the first one gets the
type tag n-gram one character after it, the last one the character tag n-gram -/
example : specAllTags C01_exModel0 C01_exSentence.text [B.W, B.W] = [some ['y'], none, some ['y']] := by decide
example : (C06_exRun0 true (some [B.W, B.W])).map (·.tags) = .ok [some ['y'], none, some ['y']] := by decide
example : (C06_exRun0 true (some [B.W, B.W])).bind (·.tagCandidates 1) = .ok [[(['x'], 0), (['y'], 1)]] := by decide
example : (C06_exRun0 true (some [B.W, B.W])).bind (·.tagCandidates 3) = .ok [[(['x'], 1), (['y'], 2)]] := by decide

/-! ### both windows 0 and a tag n-gram beyond them: the table has `max(window + 1, rel + 1)` rows, so the character tag n-gram
at relative position 2 (with `charW = 0`) and the type tag n-gram at relative position 1 (with `typeW = 0`) are both read -/

def C06_exModel00 : WModel :=
  { C01_exModel0 with
    typeW := 0,
    tagModels := [{ token := ['a'], tags := [[['x'], ['y']]], charNgrams := [⟨['b', 'a'], [⟨2, [5, 0]⟩]⟩],
                    typeNgrams := [⟨[2], [⟨1, [0, 1]⟩]⟩], bias := [0, 0] }] }

example : WFModel0 C06_exModel00 :=
  { charW_le := by decide, typeW_le := by decide, char_nodup := by decide, char_shape := by decide,
    type_nodup := by decide, type_shape := by decide, dict_nodup := by decide, dict_shape := by decide }
example : WFTags C06_exModel00 := ⟨by decide, by decide, by decide, by decide⟩
example : C06_exModel00.charW = 0 ∧ C06_exModel00.typeW = 0 ∧ 0 < specNTags C06_exModel00 := by decide
example : specTagScores (C06_exModel00.tagModels.getD 0 default) C01_exSentence.text 0 = [5, 1] := by decide
example : specAllTags C06_exModel00 C01_exSentence.text [B.W, B.W] = [some ['x'], none, some ['x']] := by decide

def C06_exRun00 (bs : List B) : Res Sentence :=
  (Predictor.new {} C06_exModel00 true).bind fun p =>
    (p.predict 0 C01_exSentence).bind fun s1 =>
      ({ p with storeTagScores := true } : Predictor).predictTags { s1 with bounds := bs }

example : (C06_exRun00 [B.W, B.W]).map (·.tags) = .ok [some ['x'], none, some ['x']] := by decide
example : (C06_exRun00 [B.W, B.W]).bind (·.tagCandidates 1) = .ok [[(['x'], 5), (['y'], 1)]] := by decide
example : (C06_exRun00 [B.W, B.W]).bind (·.tagCandidates 3) = .ok [[(['x'], 0), (['y'], 0)]] := by decide

/-! ## no `i32` overflow in the tag scores under a bound on the weights of the tag models

The counterpart of the section "no `i32` overflow under a bound on the weights of the model" of `C01.lean` for everything that
section left out: the `tag_info` maps of `PositionalWeightWithTag` in the weight mergers, the `tag_weight` tables, the bias vectors
of the tag predictors and the per-token score vector of `predict_tags`.

**Masses** (`VProofs/Lemmas/TagBoundSpec.lean`).  `TagModel.mass tm` = `absSum tm.bias` plus `absSum w.weights` over every weight
vector `w` of every character tag n-gram and of every type tag n-gram of `tm` (all relative positions, all classes; entries and
weight vectors that are listed several times count with their multiplicity — `WFTags` does not forbid duplicates, and the code
adds them up).  It is per tag model, i.e. per token surface: the score vector of a token only ever receives weights of the token's
own tag model.  `TagModel.classMass tm c` is the part of it that belongs to class `c` (a sharper bound for the specification).
`WModel.tagMass m` is the MAXIMUM (not the sum) of the masses of the tag models of `m`: also during construction, vectors of
different tag models are stored under different keys `(token_id, rel_position)` and are never added to each other.

Definitions used (in `VProofs/Lemmas/TagBound*.lean`): `tagNgramMass`, `tagNgramClassMass`, `TagModel.mass`, `TagModel.classMass`,
`WModel.tagMass`; `okT`, `okWT` (the tests of the checked `+=`); `PmaScorer.tagWeightsIn`, `TagBuiltFrom`, `TagMergerIn`,
`TagBuildWithin`; `tagCharPhase`, `tagTypePhase`, `TagPassWithin`, `TagRunWithin`. -/

/-- a tag model of `m` weighs at most the tag mass of `m` … -/
theorem C06_mass_le_tagMass (m : WModel) (tm : TagModel) (h : tm ∈ m.tagModels) : tm.mass ≤ m.tagMass :=
  C06B.mass_le_tagMass m tm h

/-- … and the tag mass is the mass of one of them (0 without tag models): it is a maximum, not a sum -/
theorem C06_tagMass_attained (m : WModel) : m.tagMass = 0 ∨ ∃ tm ∈ m.tagModels, m.tagMass = tm.mass :=
  C06B.tagMass_attained m

/-- the tag mass does not see the boundary n-grams -/
theorem C06_tagMass_dropW0 (m : WModel) : (dropW0 m).tagMass = m.tagMass := rfl

/-- **1. the specification, per class**: for EVERY tag model (no well-formedness needed), every text and every position, the score
the specification gives class `c` is at most the class mass in absolute value, which is at most the mass.  Reason: one weight
vector `w` of one tag n-gram asks for one end position (`i + w.rel`), so it is added at most once per token. -/
theorem C06_spec_bounded_class (tm : TagModel) (text : List Char) (i c : Nat) :
    (getZ (specTagScores tm text i) (c : Int)).natAbs ≤ tm.classMass c ∧ tm.classMass c ≤ tm.mass :=
  ⟨C06B.specTagScores_class_le tm text i c, C06B.classMass_le_mass tm c⟩

/-- **1. the specification**: every entry of the specified score vector of a token is at most the mass of the token's tag model in
absolute value.  Rust: the final value of every `scores[c]` in `predict_tags`, i.e. the vector handed to `TagPredictor::predict` and
stored in `sentence.tag_scores[i]` (by `C06_predictTags` / `C06_candidates` and their window-0 variants). -/
theorem C06_spec_bounded (tm : TagModel) (text : List Char) (i : Nat) :
    ∀ x ∈ specTagScores tm text i, x.natAbs ≤ tm.mass :=
  C06B.specTagScores_mem_le tm text i

/-- … hence at most the tag mass of the model -/
theorem C06_spec_bounded_model (m : WModel) (tm : TagModel) (htm : tm ∈ m.tagModels) (text : List Char) (i : Nat) :
    ∀ x ∈ specTagScores tm text i, x.natAbs ≤ m.tagMass :=
  fun x hx => Nat.le_trans (C06_spec_bounded tm text i x hx) (C06_mass_le_tagMass m tm htm)

/-- **2. construction**: for every model with well-formed tag models from which `Predictor::new(model, true)` succeeds (nothing is
asked of the boundary part), with `M = (dropW0 m).mass` and `T = m.tagMass`, see `TagBuildWithin`:
* every coordinate of the bias vector of every `TagPredictor` (`WeightVector::from(bias)`, zero padding of the fixed layout
  included) is within `T`;
* every coordinate of every weight vector stored in the tables `tag_weight[token_id][rel_position]` of
  `CharScorerBoundaryTag` / `TypeScorerBoundaryTag` (zero padding included) is within `T`;
* each of these two scorers (they are the tag-aware ones unless the model has no tag model at all) is built from the entry list
  `charEntriesT (dropW0 m) (tag n-grams)` resp. `typeEntriesT …`, its table is the result of `fillTagWeights` on the merged
  entries, and running both phases of the weight merger on that list — `merger.add` (`*prev_weight += &weight`) for every entry, then
  `merge()` (`data_to_ref.0 += &data_from.borrow().0`) — with a `PositionalWeightWithTag::add_assign` that checks every coordinate of
  the boundary weight of its result against `M` AND every coordinate of every vector of the `tag_info` map of its result against `T`,
  poisoning the weight for good when a check fails, returns exactly the unchecked weights, none of them poisoned.  The keys of a
  `tag_info` map are distinct, so every elementary `*y += *x` of the inner loop `for (k, v) in &other.tag_info` produces a coordinate
  of the result of that `add_assign` (`C06B.PWT_add_steps`): no `+` performed on tag weights during construction leaves the bound. -/
theorem C06_merged_bounded (cfg : Cfg) (m : WModel) (ht : WFTags m) (p : Predictor)
    (hp : Predictor.new cfg m true = .ok p) :
    TagBuildWithin (within (dropW0 m).mass) (within m.tagMass) cfg (dropW0 m) p :=
  C06B.build_within_tag cfg m (dropW0 m) (dropW0_isDrop m) rfl ht.toL p hp _ _
    (fun x hx => (within_iff _ x).mpr hx) (fun x hx => (within_iff _ x).mpr hx)

/-- the pair `(token_id, tag_predictor)` that `predict_tags` finds for a token surface (`tag_predictor.get(token)`) is the index of a
tag model of `m` — the one the specification uses, `tagModelOf` — together with the predictor made from it -/
theorem C06_token_lookup (cfg : Cfg) (m : WModel) (p : Predictor) (hp : Predictor.new cfg m true = .ok p)
    (tpm : List (List Char × Nat × TagPredictor)) (htpm : p.tagPredictor = some tpm)
    (tok : List Char) (tid : Nat) (tp : TagPredictor) (h : lookupLast tok tpm = some (tid, tp)) :
    ∃ tm, m.tagModels[tid]? = some tm ∧ tp = C06L.mkTP cfg tm ∧ tagModelOf m tok = some tm := by
  obtain ⟨_, h1, _⟩ := C06L.new_tag_ok cfg m p hp
  rw [h1] at htpm
  simp only [Option.some.injEq] at htpm
  subst htpm
  exact C06B.lookup_tagModel cfg m tok tid tp h

/-- **3. tag prediction, every intermediate score vector**: for a model with well-formed tag models, a predictor built from it with
tag prediction, a sentence `s1` that `predict` returned, every sentence `s2` that agrees with `s1` on the text and on the recorded
automaton states (`s1` itself with any boundaries put in, and every intermediate sentence of the loop of `predict_tags`, which writes
`tags` and `tag_scores` only), every tag model `tm` of `m` with its index `tid` (`C06_token_lookup`: these are the pairs
`predict_tags` works with) and every position `i` of a last character, with `M = tm.mass` (the mass of THIS tag model), see
`TagRunWithin`: every entry of the vector `scores` is within `M`
* after `tag_predictor.bias().add_scores(&mut scores)` on the zero vector;
* after ANY prefix of the positions `sentence.char_pma_states[i..]` has been processed by the loop of
  `CharScorerBoundaryTag::add_tag_scores` (`pmaAddTagScores.go` on `(states.drop i).take k` does not fail and leaves a vector within
  `M`) — i.e. after every call of `WeightVector::add_scores`; within one call every slot holds either its old or its new value, so
  every `*y += *x` is covered;
* in the vector the complete character pass leaves;
* from there, after any prefix of the positions of the type pass (`TypeScorerBoundaryTag::add_tag_scores`; the type scorer of such a
  predictor is never the cached one);
* in the final vector, which is `C06L.scoreVec cfg tm s.text i`: the specified scores `specTagScores tm s.text i` followed by the
  zero padding of the fixed layout — the vector `TagPredictor::predict` reads and `sentence.tag_scores[i]` stores. -/
theorem C06_running_bounded (cfg : Cfg) (m : WModel) (ht : WFTags m) (p : Predictor)
    (hp : Predictor.new cfg m true = .ok p) (s s1 : Sentence) (hs : SentOK s) (pid : Nat)
    (h1 : p.predict pid s = .ok s1)
    (s2 : Sentence) (htext : s2.text = s1.text) (hcst : s2.cstates = s1.cstates) (htst : s2.tstates = s1.tstates)
    (tid : Nat) (tm : TagModel) (htid : m.tagModels[tid]? = some tm) (i : Nat) (hi : i < s.text.length) :
    TagRunWithin (within tm.mass) p s2 tid (C06L.mkTP cfg tm) i (C06L.scoreVec cfg tm s.text i) := by
  have hne : m.tagModels ≠ [] := by
    intro h; rw [h] at htid; cases htid
  have hP := C06B.predOK_of_new_ne cfg m ht.toL p hp hne
  obtain ⟨hst, _⟩ := C06L.stOK_of_predict cfg m p hP pid s s1 hs.types_eq h1
  have hst2 : C06L.StOK p s.text s2 :=
    ⟨htext.trans hst.text_eq, fun sc hsc => hcst.trans (hst.cst sc hsc), fun sc hsc => htst.trans (hst.tst sc hsc)⟩
  exact C06B.run_within_tag cfg m p hP ht.toL s.text s2 hst2 tid tm htid i hi _ (fun x hx => (within_iff _ x).mpr hx)

/-- **4. no overflow**: if the tag mass of the model — the largest mass of a single tag model — is below `2^31`, then every value
of 1–3 is in the range of `i32`: the specified class scores; the bias vectors, the `tag_weight` tables and all results of `+=` on
`tag_info` vectors in both phases of the weight mergers (the boundary part unchecked here, see `C06_no_overflow_all`); and every
entry of the score vector of every token after the bias and after any prefix of either `add_tag_scores` pass.  So on every `+` that
`Predictor::new` and `predict_tags` / `fill_tags` perform on tag weights and tag scores, `i32` arithmetic and the unbounded integers of
the model coincide. -/
theorem C06_no_overflow (cfg : Cfg) (m : WModel) (ht : WFTags m) (hmass : m.tagMass < 2 ^ 31) (p : Predictor)
    (hp : Predictor.new cfg m true = .ok p) :
    (∀ tm ∈ m.tagModels, ∀ text i, ∀ x ∈ specTagScores tm text i, I32 x) ∧
    TagBuildWithin (fun _ => true) inI32 cfg (dropW0 m) p ∧
    ∀ s s1 pid, SentOK s → p.predict pid s = .ok s1 →
      ∀ s2 : Sentence, s2.text = s1.text → s2.cstates = s1.cstates → s2.tstates = s1.tstates →
      ∀ tid tm, m.tagModels[tid]? = some tm → ∀ i, i < s.text.length →
        TagRunWithin inI32 p s2 tid (C06L.mkTP cfg tm) i (C06L.scoreVec cfg tm s.text i) := by
  have hQ : ∀ x : Int, x.natAbs ≤ m.tagMass → inI32 x = true :=
    fun x hx => (inI32_iff x).mpr (I32_of_natAbs_le _ hmass x hx)
  refine ⟨fun tm htm text i x hx => I32_of_natAbs_le _ hmass x (C06_spec_bounded_model m tm htm text i x hx),
    C06B.build_within_tag cfg m (dropW0 m) (dropW0_isDrop m) rfl ht.toL p hp _ _ (fun _ _ => rfl) hQ, ?_⟩
  intro s s1 pid hs h1 s2 htext hcst htst tid tm htid i hi
  have hne : m.tagModels ≠ [] := by
    intro h; rw [h] at htid; cases htid
  have hP := C06B.predOK_of_new_ne cfg m ht.toL p hp hne
  obtain ⟨hst, _⟩ := C06L.stOK_of_predict cfg m p hP pid s s1 hs.types_eq h1
  have hst2 : C06L.StOK p s.text s2 :=
    ⟨htext.trans hst.text_eq, fun sc hsc => hcst.trans (hst.cst sc hsc), fun sc hsc => htst.trans (hst.tst sc hsc)⟩
  exact C06B.run_within_tag cfg m p hP ht.toL s.text s2 hst2 tid tm htid i hi _
    (fun x hx => hQ x (Nat.le_trans hx (C06_mass_le_tagMass m tm (List.mem_of_getElem? htid))))

/-- **4'. no overflow, boundaries and tags together**: for a model that is well-formed up to switched-off kinds, with well-formed tag
models, whose boundary mass AND tag mass are both below `2^31`: everything `C01_no_overflow` states for `Predictor::new` and
`Predictor::predict`, everything `C06_no_overflow` states for `Predictor::new`, `predict_tags` and `fill_tags`, and the weight mergers of the
tag-aware scorers run ONCE with a `PositionalWeightWithTag::add_assign` that checks the boundary coordinates and the tag coordinates of
its result against the `i32` range are never poisoned (`TagBuildWithin inI32 inI32`).  So `predict` followed by `fill_tags` never leaves
`i32`. -/
theorem C06_no_overflow_all (cfg : Cfg) (m : WModel) (hm : WFModel0 m) (ht : WFTags m)
    (hmass : (dropW0 m).mass < 2 ^ 31) (htmass : m.tagMass < 2 ^ 31) (p : Predictor)
    (hp : Predictor.new cfg m true = .ok p) :
    ((∀ text b, I32 (specScore (dropW0 m) text b)) ∧
      BuildWithin inI32 cfg (dropW0 m) p ∧
      ∀ s, SentOK s → RunWithin inI32 p s) ∧
    (∀ tm ∈ m.tagModels, ∀ text i, ∀ x ∈ specTagScores tm text i, I32 x) ∧
    TagBuildWithin inI32 inI32 cfg (dropW0 m) p ∧
    ∀ s s1 pid, SentOK s → p.predict pid s = .ok s1 →
      ∀ s2 : Sentence, s2.text = s1.text → s2.cstates = s1.cstates → s2.tstates = s1.tstates →
      ∀ tid tm, m.tagModels[tid]? = some tm → ∀ i, i < s.text.length →
        TagRunWithin inI32 p s2 tid (C06L.mkTP cfg tm) i (C06L.scoreVec cfg tm s.text i) := by
  obtain ⟨a1, _, a3⟩ := C06_no_overflow cfg m ht htmass p hp
  exact ⟨C01_no_overflow cfg m hm hmass true p hp, a1,
    C06B.build_within_tag cfg m (dropW0 m) (dropW0_isDrop m) rfl ht.toL p hp _ _
      (fun x hx => (inI32_iff x).mpr (I32_of_natAbs_le _ hmass x hx))
      (fun x hx => (inI32_iff x).mpr (I32_of_natAbs_le _ htmass x hx)), a3⟩

/-! ### 5. sharpness and non-vacuity

`C06_sharpModel`: the example model with a tag model of mass exactly `2^31 − 1` whose class-0 score on the first token of `aba` is
`2^31 − 1` (bias 7, the character tag n-gram `ba` two characters after the token and the type tag n-gram one character after it all
vote for class 0): the bound of 1 is attained and the hypothesis of `C06_no_overflow` holds.  `C06_overModel`: one more unit of bias,
mass `2^31`, score `2^31` — outside `i32`. -/

def C06_sharpModel : WModel :=
  { C01_exModel with
    tagModels := [{ token := ['a'], tags := [[['x'], ['y']]], charNgrams := [⟨['b', 'a'], [⟨2, [1073741824, 0]⟩]⟩],
                    typeNgrams := [⟨[2], [⟨1, [1073741816, 0]⟩]⟩], bias := [7, 0] }] }

def C06_overModel : WModel :=
  { C01_exModel with
    tagModels := [{ token := ['a'], tags := [[['x'], ['y']]], charNgrams := [⟨['b', 'a'], [⟨2, [1073741824, 0]⟩]⟩],
                    typeNgrams := [⟨[2], [⟨1, [1073741816, 0]⟩]⟩], bias := [8, 0] }] }

example : WFTags C06_sharpModel := ⟨by decide, by decide, by decide, by decide⟩
example : WFTags C06_overModel := ⟨by decide, by decide, by decide, by decide⟩
example : WFModel0 C06_sharpModel :=
  { charW_le := by decide, typeW_le := by decide, char_nodup := by decide, char_shape := by decide,
    type_nodup := by decide, type_shape := by decide, dict_nodup := by decide, dict_shape := by decide }

/-- the bound is attained: mass `2^31 − 1`, score `2^31 − 1`, an `i32` -/
example : C06_sharpModel.tagMass = 2 ^ 31 - 1 ∧ (C06_sharpModel.tagModels.getD 0 default).mass = 2 ^ 31 - 1 := by decide
example : (C06_sharpModel.tagModels.getD 0 default).classMass 0 = 2 ^ 31 - 1 ∧
    (C06_sharpModel.tagModels.getD 0 default).classMass 1 = 0 := by decide
example : specTagScores (C06_sharpModel.tagModels.getD 0 default) C01_exSentence.text 0 = [2 ^ 31 - 1, 0] := by decide
example : ∀ x ∈ specTagScores (C06_sharpModel.tagModels.getD 0 default) C01_exSentence.text 0, I32 x := by decide

/-- it cannot be improved: mass `2^31`, score `2^31`, not an `i32` -/
example : C06_overModel.tagMass = 2 ^ 31 := by decide
example : specTagScores (C06_overModel.tagModels.getD 0 default) C01_exSentence.text 0 = [2 ^ 31, 0] := by decide
example : ¬ ∀ x ∈ specTagScores (C06_overModel.tagModels.getD 0 default) C01_exSentence.text 0, I32 x := by decide

/-- non-vacuity of `C06_merged_bounded` / `C06_running_bounded` / `C06_no_overflow` / `C06_no_overflow_all`: the predictor is built
from the sharp model, prediction succeeds, and `fill_tags` computes the score `2^31 − 1` for the first token (boundaries `[W, W]` put
in); the boundary mass of the model is far below `2^31` -/
example : (Predictor.new {} C06_sharpModel true).isOk = true := by decide
example : (Predictor.new { fixed := false, cache := false, tagPred := true } C06_sharpModel true).isOk = true := by decide
example : (dropW0 C06_sharpModel).mass = 32 := by decide

def C06_exRunSharp (bs : List B) : Res Sentence :=
  (Predictor.new {} C06_sharpModel true).bind fun p =>
    (p.predict 0 C01_exSentence).bind fun s1 =>
      ({ p with storeTagScores := true } : Predictor).predictTags { s1 with bounds := bs }

example : (C06_exRunSharp [B.W, B.W]).bind (·.tagCandidates 1) = .ok [[(['x'], 2 ^ 31 - 1), (['y'], 0)]] := by decide

/-- the three phases of `tagToken` for that token (`token_id` 0, last character 0), as in `TagRunWithin`: the bias, then the character
pass (the tag n-gram `ba`, two positions on), then the type pass -/
def C06_exPhases (f : Predictor → Sentence → Res (List Int)) : Res (List Int) :=
  (Predictor.new {} C06_sharpModel true).bind fun p => (p.predict 0 C01_exSentence).bind fun s1 => f p s1

example : C06_exPhases (fun _ _ => (C06L.mkTP {} (C06_sharpModel.tagModels.getD 0 default)).bias.addScores (List.replicate 8 0))
    = .ok [7, 0, 0, 0, 0, 0, 0, 0] := by decide
example : C06_exPhases (fun p s1 => tagCharPhase p 0 0 s1 [7, 0, 0, 0, 0, 0, 0, 0])
    = .ok [1073741831, 0, 0, 0, 0, 0, 0, 0] := by decide
example : C06_exPhases (fun p s1 => tagTypePhase p 0 0 s1 [1073741831, 0, 0, 0, 0, 0, 0, 0])
    = .ok [2 ^ 31 - 1, 0, 0, 0, 0, 0, 0, 0] := by decide

/-- the tag masses of the example models of this file and of `C01.lean` -/
example : C01_exModel.tagMass = 4 ∧ C01_exModel0.tagMass = 4 ∧ C06_exModelFar.tagMass = 6 ∧ C06_exModelNear.tagMass = 6 ∧
    C06_exModel00.tagMass = 6 := by decide
/-- a maximum, not a sum: two tag models of masses 4 and 6 -/
example : ({ C01_exModel with tagModels := C01_exModel.tagModels ++ C06_exModelFar.tagModels } : WModel).tagMass = 6 := by decide
/-- models without tag models (`C01_sharpModel`) have tag mass 0 -/
example : C01_sharpModel.tagMass = 0 := by decide

/-- the bound of 2 is attained as well, and the checked `+=` does detect a result outside the bound: in these two models the
character tag n-grams `a` and `ba` of the tag model (same relative position 0) make up its whole mass (`2^31 − 1` and `2^31`) in class
0; `a` is a suffix of `ba`, so `merge()` adds the vector of `a` to that of `ba` under the key `(0, 0)`: the merged coordinate equals
the mass, and the merger run with the `i32` check on the tag part is poisoned on the second model only -/
def C06_sharpMerge : WModel :=
  { C01_exModel with
    tagModels := [{ token := ['a'], tags := [[['x'], ['y']]],
                    charNgrams := [⟨['a'], [⟨0, [1073741824, 0]⟩]⟩, ⟨['b', 'a'], [⟨0, [1073741823, 0]⟩]⟩],
                    typeNgrams := [], bias := [0, 0] }] }

def C06_overMerge : WModel :=
  { C01_exModel with
    tagModels := [{ token := ['a'], tags := [[['x'], ['y']]],
                    charNgrams := [⟨['a'], [⟨0, [1073741824, 0]⟩]⟩, ⟨['b', 'a'], [⟨0, [1073741824, 0]⟩]⟩],
                    typeNgrams := [], bias := [0, 0] }] }

/-- the entries `CharScorerBoundaryTag::new` feeds to the merger for a model, after `merger.add` -/
def C06_exAdded (m : WModel) : List (List Char × PWT) :=
  addAll PWT.add (charEntriesT (dropW0 m) (m.tagModels.map (·.charNgrams))) []

example : WFTags C06_sharpMerge := ⟨by decide, by decide, by decide, by decide⟩
example : WFTags C06_overMerge := ⟨by decide, by decide, by decide, by decide⟩
example : C06_sharpMerge.tagMass = 2 ^ 31 - 1 ∧ C06_overMerge.tagMass = 2 ^ 31 := by decide
example : (Predictor.new {} C06_sharpMerge true).isOk = true ∧ (Predictor.new {} C06_overMerge true).isOk = true := by decide
/-- the scorers are the tag-aware ones (second alternative of `TagBuildWithin`), and the stored table `tag_weight[0]` of the first
model holds the merged coordinate `2^31 − 1` (pattern ids 0 = `a`, 2 = `ba`; two rows, `rel_position` 0 and 1) -/
example : (Predictor.new {} C06_sharpMerge true).map (fun p => p.charScorer.bind (·.tagWeight))
    = .ok (some [[[(0, WV.fixed [1073741824, 0, 0, 0, 0, 0, 0, 0]), (2, WV.fixed [2 ^ 31 - 1, 0, 0, 0, 0, 0, 0, 0])], []]]) := by
  decide
example : (Merge.mergeEntries PWT.add PWT.empty (C06_exAdded C06_sharpMerge)).map (fun e => (e.1, e.2.tagInfo))
    = [(['a'], [((0, 0), [1073741824, 0])]), (['a', 'b'], []), (['b', 'a'], [((0, 0), [2 ^ 31 - 1, 0])])] := by decide
example : (Merge.mergeEntries (Merge.addC (okWT (fun _ => true) inI32) PWT.add) none
      (Merge.liftE (C06_exAdded C06_sharpMerge))).map (fun e => (e.1, e.2.isSome))
    = [(['a'], true), (['a', 'b'], true), (['b', 'a'], true)] := by decide
example : (Merge.mergeEntries PWT.add PWT.empty (C06_exAdded C06_overMerge)).map (fun e => (e.1, e.2.tagInfo))
    = [(['a'], [((0, 0), [1073741824, 0])]), (['a', 'b'], []), (['b', 'a'], [((0, 0), [2 ^ 31, 0])])] := by decide
example : (Merge.mergeEntries (Merge.addC (okWT (fun _ => true) inI32) PWT.add) none
      (Merge.liftE (C06_exAdded C06_overMerge))).map (fun e => (e.1, e.2.isSome))
    = [(['a'], true), (['a', 'b'], true), (['b', 'a'], false)] := by decide

end V

/-! ## hash-map iteration orders in predictor construction are not observable

Three kinds of hash maps are involved (predictor.rs, char_scorer/type_scorer `boundary_tag_scorer.rs`):
* `PositionalWeightWithTag::tag_info : HashMap<(token_id, rel_position), Vec<i32>>` — iterated by `add_assign` (the OTHER map) in
  `merger.add` and `merger.merge`, and by `…BoundaryTag::new` when it fills `tag_weight`.  Model: the list `PWT.tagInfo`.
  `PWT.equiv` (same boundary weight, `tagInfo` lists that are permutations with distinct keys) is respected by every stage
  (`C06_taginfo_add_equiv`, `C06_taginfo_addAll_equiv`, `C06_taginfo_merge_equiv`) and the table built from equivalent inputs is
  the SAME (`C06_taginfo_fill_perm`, `C06_taginfo_build_perm`); end to end: `C06_taginfo_perm`.
* the cells `tag_weight[token_id][rel_position] : HashMap<u32, WeightVector>` (pattern id ↦ vector) — only `insert`/`get`.
  Model: a list in insertion order read with `reverse.find?`.  Any other listing gives the same `add_tag_scores`
  (`C06_tagweight_cell_perm`), and for a predictor built by `Predictor.new` the same `predict_tags`/`predict`
  (second half of `C06_taginfo_perm`).
* `tag_predictor : HashMap<String, (u32, TagPredictor)>` — keyed lookup (`C06_tag_predictor_lookup_perm`). -/
namespace V

/-- entry lists with the same keys in the same order and `PWT.equiv` weights -/
abbrev EntriesEquiv {α : Type} (es es' : List (List α × PWT)) : Prop := C06L.ListRel (C06L.ERel PWT.equiv) es es'

/-- `add_assign` respects the equivalence (it iterates `b`'s map: any order of it, and of `a`'s, gives the same map) -/
theorem C06_taginfo_add_equiv (a a' b b' : PWT) (ha : a.equiv a') (hb : b.equiv b') : (a.add b).equiv (a'.add b') :=
  C06L.add_equiv ha hb

/-- `merger.add` (all entries) respects it -/
theorem C06_taginfo_addAll_equiv {α : Type} [DecidableEq α] (es es' init init' : List (List α × PWT))
    (h : EntriesEquiv es es') (hi : EntriesEquiv init init') : EntriesEquiv (addAll PWT.add es init) (addAll PWT.add es' init') :=
  C06L.addAll_rel PWT.equiv PWT.add PWT.add (fun _ _ _ _ ha hb => C06L.add_equiv ha hb) h hi

/-- `merger.merge()` respects it: the merged weight of every pattern is the same map -/
theorem C06_taginfo_merge_equiv {α : Type} [DecidableEq α] (es es' : List (List α × PWT)) (h : EntriesEquiv es es') :
    EntriesEquiv (Merge.mergeEntries PWT.add PWT.empty es) (Merge.mergeEntries PWT.add PWT.empty es') :=
  C06L.mergeEntries_rel PWT.equiv PWT.add PWT.add (fun _ _ _ _ ha hb => C06L.add_equiv ha hb) PWT.empty PWT.empty
    C06L.equiv_empty h

/-- filling `tag_weight` from equivalent merged entries gives the SAME table — not only row-wise permutations: a pattern
contributes at most one entry to a cell, and the patterns are visited in id order — or a panic in both cases -/
theorem C06_taginfo_fill_perm {α : Type} (cfg : Cfg) (es es' : List (List α × PWT)) (h : EntriesEquiv es es') (id : Nat)
    (tw : List (List (List (Nat × WV)))) :
    fillTagWeights cfg es id tw = fillTagWeights cfg es' id tw ∨
    ∃ s₁ s₂, fillTagWeights cfg es id tw = .panic s₁ ∧ fillTagWeights cfg es' id tw = .panic s₂ :=
  C06L.fill_perm cfg h id tw

/-- the site strings can differ: `insertTagWeights` has two panic sites (`tag_weight[token_id]` and
`…[rel_position]`), and on a table that is too small in both directions the entry visited first decides.  (Inside
`…BoundaryTag::new` the table is sized from the entries, `C11_predictor_accepts`.) -/
example :
    let info₁ : List ((Nat × Nat) × List Int) := [((5, 0), [1]), ((0, 9), [1])]
    let info₂ : List ((Nat × Nat) × List Int) := [((0, 9), [1]), ((5, 0), [1])]
    info₁.Perm info₂ ∧ (info₁.map Prod.fst).Nodup ∧
    insertTagWeights {} 0 info₁ [[[]]] = .panic "tag_weight[token_id]" ∧
    insertTagWeights {} 0 info₂ [[[]]] = .panic "tag_weight[token_id][rel_position]: index out of bounds" := by
  refine ⟨by decide, by decide, by decide, by decide⟩

/-- `…BoundaryTag::new` on equivalent entry lists: the same scorer (patterns, weights and table), or a panic in both cases -/
theorem C06_taginfo_build_perm {α : Type} [DecidableEq α] (cfg : Cfg) (window nTagModels : Nat)
    (es es' : List (List α × PWT)) (h : EntriesEquiv es es') :
    PermL.ResSim (buildBoundaryTag cfg window nTagModels es) (buildBoundaryTag cfg window nTagModels es') := by
  have := C06L.buildBoundaryTagG_sim (add' := PWT.add) (shuf := id)
    (fun a b ha hb => C06L.add_equiv (C06L.equiv_refl a ha) (C06L.equiv_refl b hb)) (fun a ha => C06L.equiv_refl a ha)
    cfg window nTagModels h
  rw [C06L.buildBoundaryTagG_id] at this
  exact this

/-- `add_tag_scores` on two scorers that differ only in the listing order of their cells (distinct pattern ids per cell) -/
theorem C06_tagweight_cell_perm {α : Type} (sc sc' : PmaScorer α) (h : C06L.ScorerCellEq sc sc') (tid pos : Nat)
    (states : List (Option Nat)) (scores : List Int) :
    pmaAddTagScores sc tid pos states scores = pmaAddTagScores sc' tid pos states scores :=
  C06L.pmaAddTagScores_cell h tid pos states scores

/-- `Predictor.newG add' shuf` is `Predictor.new` with the two places where a `tag_info` order is chosen made parameters -/
theorem C06_newG_generalises (cfg : Cfg) (m : WModel) (pt : Bool) :
    Predictor.newG PWT.add id cfg m pt = Predictor.new cfg m pt :=
  C06L.newG_id cfg m pt

/-- the outcomes of the two constructions agree: equal, or a panic in both -/
theorem C06_taginfo_perm_outcome (add' : PWT → PWT → PWT) (shuf : PWT → PWT) (hadd : AddLike add') (hshuf : ShufLike shuf)
    (cfg : Cfg) (m : WModel) (pt : Bool) :
    Predictor.new cfg m pt = Predictor.newG add' shuf cfg m pt ∨
    ∃ s₁ s₂, Predictor.new cfg m pt = .panic s₁ ∧ Predictor.newG add' shuf cfg m pt = .panic s₂ :=
  C06L.new_sim hadd hshuf cfg m pt

/-- **order independence, end to end.**  Let `add'` be ANY implementation of `+=` on `PositionalWeightWithTag` that returns the
map of `PWT.add` listed in some order (the order may depend on both operands), and `shuf` ANY re-listing of a merged `tag_info`
before `…BoundaryTag::new` walks it.  If `Predictor.new` returns `p`, then
1. the construction with `add'` and `shuf` returns the same `p` (so every later call agrees trivially), and
2. every predictor `p'` obtained from `p` by re-listing the entries of its cells `tag_weight[token_id][rel_position]`
   (`HashMap<u32, WeightVector>`; a permutation per cell, nothing else assumed) and by listing its token map `tag_predictor` in any
   way that keeps the lookups (`C06L.SameLookup`; e.g. a permutation when the tokens are distinct,
   `C06_tag_predictor_lookup_perm`) tags and segments every sentence exactly as `p` — this is what a serialise/deserialise round
   trip, which re-inserts both kinds of maps in iteration order, does to a predictor. -/
theorem C06_taginfo_perm (add' : PWT → PWT → PWT) (shuf : PWT → PWT) (hadd : AddLike add') (hshuf : ShufLike shuf)
    (cfg : Cfg) (m : WModel) (pt : Bool) (p : Predictor) (hp : Predictor.new cfg m pt = .ok p) :
    Predictor.newG add' shuf cfg m pt = .ok p ∧
    ∀ p', C06L.PredCellPerm p p' → ∀ s, p'.predictTags s = p.predictTags s ∧ ∀ pid, p'.predict pid s = p.predict pid s := by
  refine ⟨((C06L.new_sim hadd hshuf cfg m pt).ok_iff p).mp hp, ?_⟩
  intro p' hpp s
  have h := C06L.predCellEq_of_perm cfg m pt p p' hp hpp
  exact ⟨(C06L.predictTags_cell h s).symm, fun pid => (C06L.predict_cell h pid s).symm⟩

/-- conversely, whatever the permuted construction returns is what `Predictor.new` returns -/
theorem C06_taginfo_perm_conv (add' : PWT → PWT → PWT) (shuf : PWT → PWT) (hadd : AddLike add') (hshuf : ShufLike shuf)
    (cfg : Cfg) (m : WModel) (pt : Bool) (p : Predictor) (hp : Predictor.newG add' shuf cfg m pt = .ok p) :
    Predictor.new cfg m pt = .ok p :=
  ((C06L.new_sim hadd hshuf cfg m pt).ok_iff p).mpr hp

/-- the token map `tag_predictor` (keys: the distinct tokens of the tag models) is read by keyed lookup only -/
theorem C06_tag_predictor_lookup_perm (l l' : List (List Char × Nat × TagPredictor)) (hp : l.Perm l')
    (hnd : (l.map Prod.fst).Nodup) (token : List Char) : lookupLast token l = lookupLast token l' :=
  C06L.lookupLast_perm hp hnd token

/-! ### non-vacuity: a model whose pattern `ba` collects four `tag_info` keys, built with every map listed in REVERSE order -/
namespace C06PermEx

/-- two tag models that share the character n-gram `ba` (at two relative positions each) and the n-gram `a` -/
def model : WModel :=
  { C01_exModel with
    tagModels := [{ token := ['a'], tags := [[['x'], ['y']]],
                    charNgrams := [⟨['b', 'a'], [⟨0, [1, 2]⟩, ⟨1, [3, 0]⟩]⟩, ⟨['a'], [⟨0, [0, 4]⟩]⟩],
                    typeNgrams := [⟨[2], [⟨1, [0, 1]⟩]⟩], bias := [0, 0] },
                  { token := ['b'], tags := [[['u'], ['v']]],
                    charNgrams := [⟨['b', 'a'], [⟨1, [5, 0]⟩, ⟨0, [0, 6]⟩]⟩, ⟨['a'], [⟨1, [7, 7]⟩]⟩],
                    typeNgrams := [], bias := [1, 0] }] }

def addR (a b : PWT) : PWT := { a.add b with tagInfo := (a.add b).tagInfo.reverse }
def shufR (a : PWT) : PWT := { a with tagInfo := a.tagInfo.reverse }

theorem addR_like : AddLike addR := C06L.addLike_of_perm List.reverse List.reverse_perm
theorem shufR_like : ShufLike shufR := C06L.shufLike_of_perm List.reverse List.reverse_perm

def entries : List (List Char × PWT) := charEntriesT (dropW0 model) (model.tagModels.map (·.charNgrams))

/-- the hypotheses hold for a non-trivial `add'`: the merged maps really are listed differently (`ba`: four keys) … -/
example :
    (Merge.mergeEntries PWT.add PWT.empty (addAll PWT.add entries [])).map (fun e => (e.1, e.2.tagInfo.map Prod.fst))
      = [(['a'], [(0, 0), (1, 1)]), (['a', 'b'], []), (['b', 'a'], [(0, 0), (0, 1), (1, 1), (1, 0)])] ∧
    (Merge.mergeEntries addR PWT.empty (addAll addR entries [])).map (fun e => (e.1, e.2.tagInfo.map Prod.fst))
      = [(['a'], [(1, 1), (0, 0)]), (['a', 'b'], []), (['b', 'a'], [(1, 1), (0, 0), (0, 1), (1, 0)])] := by
  refine ⟨by decide, by decide⟩

/-- … and yet the table is the same one, with several entries per cell -/
example :
    (Predictor.newG addR shufR {} model true).map (fun p => p.charScorer.bind (·.tagWeight))
      = (Predictor.new {} model true).map (fun p => p.charScorer.bind (·.tagWeight)) ∧
    (Predictor.new {} model true).map (fun p => p.charScorer.bind (·.tagWeight))
      = .ok (some [[[(0, WV.fixed [0, 4, 0, 0, 0, 0, 0, 0]), (2, WV.fixed [1, 6, 0, 0, 0, 0, 0, 0])],
                    [(2, WV.fixed [3, 0, 0, 0, 0, 0, 0, 0])]],
                   [[(2, WV.fixed [0, 6, 0, 0, 0, 0, 0, 0])],
                    [(0, WV.fixed [7, 7, 0, 0, 0, 0, 0, 0]), (2, WV.fixed [12, 7, 0, 0, 0, 0, 0, 0])]]]) := by
  refine ⟨by decide, by decide⟩

/-- `PWT.equiv` and `C06_taginfo_add_equiv` on concrete values: both operands re-listed, a key in common (`(0, 1)`) -/
example :
    let a : PWT := { weight := some ⟨-1, [1, 2]⟩, tagInfo := [((0, 0), [1, 2]), ((0, 1), [3, 4]), ((1, 0), [5, 6])] }
    let a' : PWT := { weight := some ⟨-1, [1, 2]⟩, tagInfo := [((1, 0), [5, 6]), ((0, 0), [1, 2]), ((0, 1), [3, 4])] }
    let b : PWT := { weight := none, tagInfo := [((0, 1), [10, 10]), ((2, 2), [7, 8])] }
    let b' : PWT := { weight := none, tagInfo := [((2, 2), [7, 8]), ((0, 1), [10, 10])] }
    a.equiv a' ∧ b.equiv b' ∧ a.tagInfo ≠ a'.tagInfo ∧ b.tagInfo ≠ b'.tagInfo ∧
    (a.add b).tagInfo = [((0, 0), [1, 2]), ((0, 1), [13, 14]), ((1, 0), [5, 6]), ((2, 2), [7, 8])] ∧
    (a'.add b').tagInfo = [((1, 0), [5, 6]), ((0, 0), [1, 2]), ((0, 1), [13, 14]), ((2, 2), [7, 8])] ∧
    (a.add b).tagInfo ≠ (a'.add b').tagInfo := by
  refine ⟨⟨by decide, by decide, by decide⟩, ⟨by decide, by decide, by decide⟩, by decide, by decide, by decide, by decide,
    by decide⟩

/-- the distinct-keys clause of `PWT.equiv` is needed: with a repeated key in `b` (impossible for a hash map) the order of `b`
matters, because `zip`-adding keeps the length of the vector that came first -/
example :
    let a : PWT := { weight := none, tagInfo := [] }
    let b : PWT := { weight := none, tagInfo := [((0, 0), [1]), ((0, 0), [2, 3])] }
    let b' : PWT := { weight := none, tagInfo := [((0, 0), [2, 3]), ((0, 0), [1])] }
    b.tagInfo.Perm b'.tagInfo ∧ (a.add b).tagInfo = [((0, 0), [3])] ∧ (a.add b').tagInfo = [((0, 0), [3, 3])] := by
  refine ⟨by decide, by decide, by decide⟩

def cellSc : PmaScorer Char :=
  { pats := [['a']], weights := [none],
    tagWeight := some [[[(0, WV.fixed [1, 2, 0, 0, 0, 0, 0, 0]), (2, WV.fixed [3, 4, 0, 0, 0, 0, 0, 0]),
      (5, WV.fixed [5, 6, 0, 0, 0, 0, 0, 0])], []]] }
def cellSc' : PmaScorer Char :=
  { pats := [['a']], weights := [none],
    tagWeight := some [[[(5, WV.fixed [5, 6, 0, 0, 0, 0, 0, 0]), (0, WV.fixed [1, 2, 0, 0, 0, 0, 0, 0]),
      (2, WV.fixed [3, 4, 0, 0, 0, 0, 0, 0])], []]] }

/-- cells re-listed: `add_tag_scores` reads the same vectors (`C06_tagweight_cell_perm` is not vacuous) -/
example :
    C06L.ScorerCellEq cellSc cellSc' ∧
    pmaAddTagScores cellSc 0 0 [some 2, none] [0, 0, 0, 0, 0, 0, 0, 0] = .ok [3, 4, 0, 0, 0, 0, 0, 0] ∧
    pmaAddTagScores cellSc' 0 0 [some 2, none] [0, 0, 0, 0, 0, 0, 0, 0] = .ok [3, 4, 0, 0, 0, 0, 0, 0] := by
  refine ⟨⟨rfl, rfl, ?_⟩, by decide, by decide⟩
  exact .cons (.cons ⟨by decide, by decide⟩ (.cons ⟨List.Perm.refl _, by decide⟩ .nil)) .nil

end C06PermEx

end V
