import VModel.Cli
import VProofs.C01
import VProofs.C03
import VProofs.C05
import VProofs.C06
import VProofs.C15
import VProofs.C16
import VProofs.Lemmas.CliSafe
import VProofs.Lemmas.ExamplesCli
import VProofs.Lemmas.EvalCountChar
import VProofs.Lemmas.EvalCountWord
import VProofs.Lemmas.EvalCountLine
import VProofs.Lemmas.CrossFront
import VProofs.Lemmas.EvalFloatBetween
import VProofs.Lemmas.EvalI32
import VProofs.Lemmas.EvalFmtDigits
import VProofs.Lemmas.EvalFmtReport
import VProofs.Lemmas.EvalFmtString
import VProofs.Lemmas.EvalFmtIff
import VProofs.Lemmas.EvalFmtShortest
import VProofs.Lemmas.EvalFmtExponent
import VProofs.Lemmas.EvalFmtSeventeen
/-!
# C20 — Command-line tools agree with the library, line by line

Property theorems only (helper lemmas live in `VProofs/Lemmas/Cli*.lean`).
-/
namespace V

/-- the specification of one output block of `predict`: the library pipeline on a FRESH sentence for this line alone —
normalise (unless `--no-norm`), `from_raw`, predict, the configured filters, `fill_tags` (with `--predict-tags`); the
tokenised line is written from the ORIGINAL (un-normalised) characters with the predicted boundaries and tags, followed by
its newline, then the optional score block, then the optional tag-score block; a rejected or empty line gives an empty line -/
def libLine (fl : PredictFlags) (p : Predictor) (filters : List PostFilter) (line : List Char) : Res (List Char) :=
  match Sentence.fromRaw (if fl.noNorm then line else Gen.fullwidth line) with
  | .err _ => .ok ['\n']
  | .panic q => .panic q
  | .ub q => .ub q
  | .ok s0 =>
    bindR (p.predict 0 s0) fun s1 =>
    bindR (applyWsconst filters s1) fun s2 =>
    bindR (if fl.predictTags then p.predictTags s2 else .ok s2) fun s3 =>
    bindR (if fl.noNorm then .ok s3 else
        match Sentence.fromRaw line with
        | .ok o =>
          if o.bounds.length ≠ s3.bounds.length then .panic "boundaries_mut().copy_from_slice: length mismatch"
          else if s3.nTags * o.types.length ≠ s3.tags.length then .panic "tags_mut().clone_from_slice: length mismatch"
          else .ok { o with bounds := s3.bounds, tags := s3.tags, nTags := s3.nTags }
        | .err e => .err e
        | .panic q => .panic q
        | .ub q => .ub q) fun shown =>
    bindR shown.writeTokenized fun w =>
    bindR (if fl.scores then printScores s3 else .ok []) fun sc =>
    bindR (if fl.tagScores && fl.predictTags then printTagScores s3 else .ok []) fun ts =>
    .ok (w ++ ['\n'] ++ sc ++ ts)

theorem libLine_eq : libLine = C20L.libLine' := rfl

/-- reusing the sentence objects `s` and `s_orig` across lines is invisible: whatever state the loop is in, the bytes
written for a line are exactly the specification block of that line -/
theorem C20_line_eq_library (fl : PredictFlags) (p : Predictor) (filters : List PostFilter) (st : PredictState)
    (line : List Char) :
    (predictLine fl p filters st line).map (·.out) = (libLine fl p filters line).map (st.out ++ ·) :=
  C20L.line_eq_library fl p filters st line

/-- hence the whole output is the concatenation, in input order, of one block per input line (so: exactly one tokenised
line per input line, an empty line for an empty or rejected input, and the same layout with and without `--no-norm`) -/
theorem C20_output_eq_blocks (cfg : Cfg) (fl : PredictFlags) (m : WModel) (p0 : Predictor)
    (hp : Predictor.new cfg m fl.predictTags = .ok p0) (stdin : List Char) (clusters : List (List Nat)) (out : List Char)
    (h : predictCli cfg fl m stdin clusters = .ok out) :
    ∃ blocks : List (List Char),
      blocks.length = (splitLines stdin).length ∧ out = blocks.flatten ∧
      ∀ i, i < blocks.length →
        ∃ filters, buildPostFilters fl.wsconst ((clusters.drop i).headD []) = .ok filters ∧
          libLine fl { p0 with storeTagScores := fl.tagScores } filters ((splitLines stdin).getD i []) = .ok (blocks.getD i []) := by
  rw [C20L.predictCli_eq, hp] at h
  obtain ⟨st', hgo, hout⟩ := C20L.map_eq_ok h
  obtain ⟨blocks, h1, h2, h3⟩ := C20L.go_blocks fl _ _ _ _ _ hgo
  exact ⟨blocks, h1, by rw [← hout, h2]; rfl, h3⟩

/-- the unescaped surfaces of the tokenised line concatenate to the original, un-normalised input line: parsing the line the
tool wrote gives back exactly the input characters (well-formed model, NUL-free non-empty line, without tags) -/
theorem C20_surfaces_concat (cfg : Cfg) (m : WModel) (hm : WFModel m) (p : Predictor)
    (hp : Predictor.new cfg m false = .ok p) (fl : PredictFlags) (hft : fl.predictTags = false) (hfs : fl.scores = false)
    (hfg : fl.tagScores = false) (filters : List PostFilter) (hfil : ∀ f ∈ filters, ∃ t, f = PostFilter.ws t)
    (line : List Char) (hne : line ≠ []) (hnul : '\x00' ∉ line) :
    ∃ w, libLine fl p filters line = .ok (w ++ ['\n']) ∧ ∃ q, parseTokenized w = .ok q ∧ q.text = line := by
  rw [libLine_eq]
  exact C20L.surfaces_concat cfg m hm p hp fl hft hfs hfg filters hfil line hne hnul

/-- no input line and no flag combination makes `predict` crash: for a well-formed model (and tag models) that the predictor
accepts, every input stream and valid cluster data the tool returns output, never a panic.
(Restated on request: the predictor is taken as given — whether `Predictor::new` accepts a model is C11's business, and a
start-up error is not an input line crashing the tool; `fl.predictTags = true → cfg.tagPred = true` follows from `hp`.) -/
theorem C20_no_crash (cfg : Cfg) (m : WModel) (hm : WFModel m) (ht : WFTags m) (fl : PredictFlags)
    (p0 : Predictor) (hp : Predictor.new cfg m fl.predictTags = .ok p0)
    (hws : ∀ c ∈ fl.wsconst, c ∈ ['D', 'R', 'H', 'T', 'K', 'O'])
    (stdin : List Char) (clusters : List (List Nat)) :
    ∃ out, predictCli cfg fl m stdin clusters = .ok out :=
  C20L.cli_total cfg m hm ht fl p0 hp hws stdin clusters

/-! ## `evaluate`: what the counting loops compute (the loops are mirrored in `VModel/Cli.lean`; here they are
characterised without reference to any loop) -/

/-- what `evaluate` hands to its counters for one line: reference and system label vectors of the same length without
unknown labels, and one tag row per character on both sides -/
def EvalLineWF (l : EvalLine) : Prop :=
  l.sysB.length = l.refB.length ∧ l.refT.length = l.refB.length + 1 ∧ l.sysT.length = l.sysB.length + 1 ∧
  (∀ b ∈ l.refB, b ≠ B.U) ∧ (∀ b ∈ l.sysB, b ≠ B.U)

/-- the words of the reference that are also words of the system output (same start, same end) and carry the same tag row
(tag rows are compared at the last character of the word) -/
def corWords (l : EvalLine) : List (Nat × Nat) :=
  (specTokens l.refB).filter fun se => decide (se ∈ specTokens l.sysB) && decide (l.refT[se.2 - 1]? = l.sysT[se.2 - 1]?)

/-- `--metric word`: `n_cor` = number of common words with equal tags, `n_sys` / `n_ref` = number of system / reference words,
summed over the lines -/
theorem C20_eval_word_counts (ls : List EvalLine) (h : ∀ l ∈ ls, EvalLineWF l) :
    wordCounts ls = ((ls.map fun l => (corWords l).length).sum,
                     (ls.map fun l => (specTokens l.sysB).length).sum,
                     (ls.map fun l => (specTokens l.refB).length).sum) :=
  C20E.word_counts ls h

/-- `--metric char`: true positives = positions where both sides have a word boundary, true negatives = both have none,
false positives = only the system has one, false negatives = only the reference has one -/
theorem C20_eval_char_counts (ls : List EvalLine) :
    charCounts ls =
      ((ls.map fun l => ((l.refB.zip l.sysB).filter fun x => decide (x.1 = x.2) && decide (x.2 = B.W)).length).sum,
       (ls.map fun l => ((l.refB.zip l.sysB).filter fun x => decide (x.1 = x.2) && decide (x.2 ≠ B.W)).length).sum,
       (ls.map fun l => ((l.refB.zip l.sysB).filter fun x => decide (x.1 ≠ x.2) && decide (x.2 = B.W)).length).sum,
       (ls.map fun l => ((l.refB.zip l.sysB).filter fun x => decide (x.1 ≠ x.2) && decide (x.2 ≠ B.W)).length).sum) :=
  C20E.char_counts ls

/-- every line that `evaluate` counts satisfies the hypotheses of `C20_eval_word_counts`: the normaliser keeps the number of
characters, prediction leaves no unknown label, the filters keep the lengths, and both tag tables have one row per character -/
theorem C20_eval_line_wf (cfg : Cfg) (m : WModel) (hm : WFModel m) (ht : WFTags m) (fl : EvalFlags)
    (p : Predictor) (hp : Predictor.new cfg m fl.predictTags = .ok p)
    (filters : List PostFilter) (line : List Char) (e : EvalLine)
    (he : evalLine fl p filters line = .ok e) : EvalLineWF e :=
  C20E.line_wf cfg m hm ht fl p hp filters line e he

example : EvalLineWF ⟨[B.N, B.W], [[none], [some ['x']], [none]], [B.W, B.W], [[none], [some ['x']], [none]]⟩ ∧
    wordCounts [⟨[B.N, B.W], [[none], [some ['x']], [none]], [B.W, B.W], [[none], [some ['x']], [none]]⟩] = (1, 3, 2) := by
  refine ⟨by unfold EvalLineWF; decide, by decide⟩

/-! ### the counters are `i32` in the tool, `Nat` in the model: no counter can overflow -/

/-- the number of characters that `evaluate` compares: per line one more than the number of boundary positions -/
def evalChars (ls : List EvalLine) : Nat := (ls.map fun l => l.refB.length + 1).sum

/-- `--metric char`: the four counters TOGETHER are at most the number of characters (no hypothesis on the lines), hence each
counter and the two sums `n_tp + n_fp`, `n_tp + n_fn` that the tool forms are at most that number -/
theorem C20_eval_char_counts_bounded (ls : List EvalLine) :
    (charCounts ls).1 + (charCounts ls).2.1 + (charCounts ls).2.2.1 + (charCounts ls).2.2.2 ≤ evalChars ls ∧
    (charCounts ls).1 ≤ evalChars ls ∧ (charCounts ls).2.1 ≤ evalChars ls ∧ (charCounts ls).2.2.1 ≤ evalChars ls ∧
    (charCounts ls).2.2.2 ≤ evalChars ls ∧
    (charCounts ls).1 + (charCounts ls).2.2.1 ≤ evalChars ls ∧ (charCounts ls).1 + (charCounts ls).2.2.2 ≤ evalChars ls := by
  have h : _ ≤ evalChars ls := C20E.char_total ls
  refine ⟨h, ?_, ?_, ?_, ?_, ?_, ?_⟩ <;> omega

/-- `--metric word`: `n_cor`, `n_sys`, `n_ref` are at most the number of characters, and `n_cor ≤ n_sys`, `n_cor ≤ n_ref`
(the hypotheses `num ≤ pDen`, `num ≤ rDen` of the theorems on the metrics) — for all lines, well-formed or not -/
theorem C20_eval_word_counts_bounded (ls : List EvalLine) :
    (wordCounts ls).1 ≤ evalChars ls ∧ (wordCounts ls).2.1 ≤ evalChars ls ∧ (wordCounts ls).2.2 ≤ evalChars ls ∧
    (wordCounts ls).1 ≤ (wordCounts ls).2.1 ∧ (wordCounts ls).1 ≤ (wordCounts ls).2.2 :=
  C20E.word_bound ls

/-- hence with fewer than `2^31` characters in the evaluated corpus no `i32` counter of the tool, and neither of the sums
`n_tp + n_fp`, `n_tp + n_fn`, overflows: the `Nat` counts of the model are the `i32` values of the tool, and the operands of
the three divisions are below `2^31` -/
theorem C20_eval_counts_i32 (ls : List EvalLine) (h : evalChars ls < 2 ^ 31) :
    (charCounts ls).1 < 2 ^ 31 ∧ (charCounts ls).2.1 < 2 ^ 31 ∧ (charCounts ls).2.2.1 < 2 ^ 31 ∧
    (charCounts ls).2.2.2 < 2 ^ 31 ∧
    (charCounts ls).1 + (charCounts ls).2.2.1 < 2 ^ 31 ∧ (charCounts ls).1 + (charCounts ls).2.2.2 < 2 ^ 31 ∧
    (wordCounts ls).1 < 2 ^ 31 ∧ (wordCounts ls).2.1 < 2 ^ 31 ∧ (wordCounts ls).2.2 < 2 ^ 31 := by
  obtain ⟨_, c1, c2, c3, c4, c5, c6⟩ := C20_eval_char_counts_bounded ls
  obtain ⟨w1, w2, w3, _, _⟩ := C20_eval_word_counts_bounded ls
  refine ⟨?_, ?_, ?_, ?_, ?_, ?_, ?_, ?_, ?_⟩ <;> omega

/-! ## `evaluate`: the three floating-point numbers it prints (`VModel/F64Arith.lean`: `evalMetrics num pDen rDen` is
`(precision, recall, f1)` with `precision = num/pDen`, `recall = num/rDen`, `f1 = ((2.·precision)·recall) / (precision + recall)`
in IEEE-754 binary64, every operation correctly rounded; char metric: `num = n_tp`, `pDen = n_tp + n_fp`, `rDen = n_tp + n_fn`;
word metric: `num = n_cor`, `pDen = n_sys`, `rDen = n_ref`; the counts are `i32`, so below `2^31`, and `num ≤ pDen`,
`num ≤ rDen` hold for both metrics) -/

/-- the arithmetic itself: every result of `f64OfNat`, `f64Mul`, `f64Add` is a binary64 value, the conversion is exact below
`2^53`, `*` and `+` are commutative on all operands, and the IEEE special cases hold (`x + (−x) = +0`, `(−0) + (−0) = −0`,
`0·∞ = NaN`, `∞ − ∞ = NaN`) -/
theorem C20_f64_arith_sane :
    (∀ n, (f64OfNat n).IsDouble) ∧ (∀ n, n < 2 ^ 53 → f64OfNat n = .fin false (n * F64.unit)) ∧
    (∀ x y, (f64Mul x y).IsDouble) ∧ (∀ x y, (f64Add x y).IsDouble) ∧
    (∀ x y, f64Mul x y = f64Mul y x) ∧ (∀ x y, f64Add x y = f64Add y x) ∧
    (∀ s a, f64Add (.fin s a) (f64Neg (.fin s a)) = .fin false 0) ∧ f64Add (.fin true 0) (.fin true 0) = .fin true 0 ∧
    (∀ s t, f64Mul (.fin s 0) (.inf t) = .nan ∧ f64Mul (.inf t) (.fin s 0) = .nan) ∧ (∀ s, f64Sub (.inf s) (.inf s) = .nan) :=
  EvalF.arith_sane

/-- NaN: precision is NaN exactly when its denominator is 0 (then the numerator is 0 too), the same for recall; F1 is NaN
exactly when precision or recall is NaN or the numerator is 0 (`0/0` in the last division); and every one of the three numbers
that is not NaN is a finite, non-negative binary64 value (sign bit clear) — never ±∞, never −0 -/
theorem C20_eval_metrics_nan (num pDen rDen : Nat) (hp : pDen < 2 ^ 31) (hr : rDen < 2 ^ 31)
    (hnp : num ≤ pDen) (hnr : num ≤ rDen) :
    ((evalMetrics num pDen rDen).1 = .nan ↔ pDen = 0) ∧
    ((evalMetrics num pDen rDen).2.1 = .nan ↔ rDen = 0) ∧
    ((evalMetrics num pDen rDen).2.2 = .nan ↔
      ((evalMetrics num pDen rDen).1 = .nan ∨ (evalMetrics num pDen rDen).2.1 = .nan ∨ num = 0)) ∧
    (∀ x, x = (evalMetrics num pDen rDen).1 ∨ x = (evalMetrics num pDen rDen).2.1 ∨ x = (evalMetrics num pDen rDen).2.2 →
      x ≠ .nan → x.Finite ∧ x.sign = false ∧ x.IsDouble) :=
  EvalF.metrics_nan num pDen rDen hp hr hnp hnr

/-- the hypothesis `num ≤ pDen` of `C20_eval_metrics_nan` matters only for a zero denominator: without it the quotient `n/0`
with `n > 0` is `+∞`, not NaN (unreachable in the tool) -/
theorem C20_eval_metrics_zero_den (num rDen : Nat) (hn : num < 2 ^ 31) :
    (evalMetrics num 0 rDen).1 = if num = 0 then .nan else .inf false :=
  EvalF.metrics_zero_den num rDen hn

/-- range: with positive denominators `0 ≤ precision ≤ 1` and `0 ≤ recall ≤ 1` (IEEE comparisons against the doubles `0.0`
and `1.0`), precision is exactly `1.0` iff `num = pDen` and exactly `0.0` iff `num = 0` (no proper fraction of `i32` counts
rounds to 1, no non-zero one underflows), likewise recall; for `num > 0`: `0 < f1 ≤ 1`, and `f1 = 1.0` when
`num = pDen = rDen` -/
theorem C20_eval_metrics_range (num pDen rDen : Nat) (hp : pDen < 2 ^ 31) (hr : rDen < 2 ^ 31)
    (hp0 : 0 < pDen) (hr0 : 0 < rDen) (hnp : num ≤ pDen) (hnr : num ≤ rDen) :
    f64Le (f64OfNat 0) (evalMetrics num pDen rDen).1 = true ∧ f64Le (evalMetrics num pDen rDen).1 (f64OfNat 1) = true ∧
    f64Le (f64OfNat 0) (evalMetrics num pDen rDen).2.1 = true ∧ f64Le (evalMetrics num pDen rDen).2.1 (f64OfNat 1) = true ∧
    ((evalMetrics num pDen rDen).1 = f64OfNat 1 ↔ num = pDen) ∧ ((evalMetrics num pDen rDen).1 = f64OfNat 0 ↔ num = 0) ∧
    ((evalMetrics num pDen rDen).2.1 = f64OfNat 1 ↔ num = rDen) ∧ ((evalMetrics num pDen rDen).2.1 = f64OfNat 0 ↔ num = 0) ∧
    (0 < num → f64Lt (f64OfNat 0) (evalMetrics num pDen rDen).2.2 = true ∧
      f64Le (evalMetrics num pDen rDen).2.2 (f64OfNat 1) = true) ∧
    (0 < num → num = pDen → num = rDen → (evalMetrics num pDen rDen).2.2 = f64OfNat 1) :=
  EvalF.metrics_range num pDen rDen hp hr hp0 hr0 hnp hnr

/-- precision is the correctly rounded quotient of the two integers: `roundUnits (num·2^1074) pDen` units, the double nearest
to the rational `num/pDen` (the five clauses of `C11_f64_rounding`: representable; within half a grid step below and above;
never crossing a representable value from either side); and equal fractions give the same double, so the printed precision
depends only on the ratio (recall is the same function of `num` and `rDen`) -/
theorem C20_eval_metrics_exact_ratio (num pDen rDen : Nat) (hn : num < 2 ^ 31) (hp : pDen < 2 ^ 31) (hp0 : 0 < pDen) :
    (evalMetrics num pDen rDen).1 = .fin false (roundUnits (num * F64.unit) pDen) ∧
    (evalMetrics num rDen pDen).2.1 = (evalMetrics num pDen rDen).1 ∧
    QuantL.RepU (roundUnits (num * F64.unit) pDen) ∧
    (2 * (num * F64.unit) ≤ 2 * (pDen * roundUnits (num * F64.unit) pDen) + pDen ∨
      2 ^ 53 * (num * F64.unit) ≤ 2 ^ 53 * (pDen * roundUnits (num * F64.unit) pDen) + num * F64.unit) ∧
    (2 * (pDen * roundUnits (num * F64.unit) pDen) ≤ 2 * (num * F64.unit) + pDen ∨
      2 ^ 53 * (pDen * roundUnits (num * F64.unit) pDen) ≤ 2 ^ 53 * (num * F64.unit) + num * F64.unit) ∧
    (∀ g, QuantL.RepU g → num * F64.unit ≤ pDen * g → roundUnits (num * F64.unit) pDen ≤ g) ∧
    (∀ g, QuantL.RepU g → pDen * g ≤ num * F64.unit → g ≤ roundUnits (num * F64.unit) pDen) ∧
    (∀ num' pDen' rDen', num' < 2 ^ 31 → pDen' < 2 ^ 31 → 0 < pDen' → num * pDen' = num' * pDen →
      (evalMetrics num' pDen' rDen').1 = (evalMetrics num pDen rDen).1) :=
  ⟨(EvalF.metrics_exact_ratio num pDen rDen hn hp hp0).1, rfl,
    QuantL.roundUnits_rep _ _ hp0, QuantL.roundUnits_lower _ _ hp0, QuantL.roundUnits_upper _ _ hp0,
    fun g hg h => QuantL.roundUnits_le_of_le _ _ g hp0 hg h, fun g hg h => QuantL.le_roundUnits_of_le _ _ g hp0 hg h,
    (EvalF.metrics_exact_ratio num pDen rDen hn hp hp0).2⟩

/-- F1 is symmetric in precision and recall: swapping the two denominators swaps precision and recall and leaves F1 unchanged,
for all `i32` counts (no relation between them needed).  `+` and `*` are commutative (`C20_f64_arith_sane`), but
`2. * precision * recall` is `(2.·p)·r`, and `(2.·p)·r = (2.·r)·p` holds because doubling is exact on quotients of counts — for
arbitrary doubles it fails (see the example below) -/
theorem C20_eval_f1_symmetric (num pDen rDen : Nat) (hn : num < 2 ^ 31) (hp : pDen < 2 ^ 31) (hr : rDen < 2 ^ 31) :
    (evalMetrics num rDen pDen).2.2 = (evalMetrics num pDen rDen).2.2 ∧
    (evalMetrics num rDen pDen).1 = (evalMetrics num pDen rDen).2.1 ∧
    (evalMetrics num rDen pDen).2.1 = (evalMetrics num pDen rDen).1 :=
  ⟨(EvalF.f1_symmetric num pDen rDen hn hp hr).symm, rfl, rfl⟩

/-- F1 against the smaller and the larger of precision and recall.  The exact harmonic mean lies between them; the computed
value went through three roundings and CAN leave `[min p r, max p r]` by one grid step on either side (examples below: counts
1/5/5 and 17/23/23), so the plain statement is false.  True for all counts with `num > 0`: F1 is within a relative
`(1 ± 2^-53)^3` of the interval — on the magnitudes in units of `2^-1074` (all three numbers are finite and non-negative by
`C20_eval_metrics_nan`), without division:
`(2^53 − 1)²·min p r ≤ (2^53 + 1)·2^53·f1` and `(2^53 − 1)·2^53·f1 ≤ (2^53 + 1)²·max p r` -/
theorem C20_eval_f1_between (num pDen rDen : Nat) (hp : pDen < 2 ^ 31) (hr : rDen < 2 ^ 31)
    (hnp : num ≤ pDen) (hnr : num ≤ rDen) (hn : 0 < num) :
    (2 ^ 53 - 1) * (2 ^ 53 - 1) * min (evalMetrics num pDen rDen).1.mag (evalMetrics num pDen rDen).2.1.mag
      ≤ (2 ^ 53 + 1) * 2 ^ 53 * (evalMetrics num pDen rDen).2.2.mag ∧
    (2 ^ 53 - 1) * 2 ^ 53 * (evalMetrics num pDen rDen).2.2.mag
      ≤ (2 ^ 53 + 1) * (2 ^ 53 + 1) * max (evalMetrics num pDen rDen).1.mag (evalMetrics num pDen rDen).2.1.mag :=
  EvalF.metrics_between num pDen rDen hp hr hnp hnr hn

/-! ### concrete values (kernel evaluation; `0x…` are IEEE-754 bit patterns, as the driver prints them) -/
namespace C20FloatEx

/-- the bit patterns of the three metrics -/
def bits (num pDen rDen : Nat) : Nat × Nat × Nat :=
  let m := evalMetrics num pDen rDen
  (m.1.toBits, m.2.1.toBits, m.2.2.toBits)

/-- tp = 1, fp = 1, fn = 0: P = 0.5, R = 1.0, F1 = 0.6666666666666666 -/
example : bits 1 2 1 = (0x3FE0000000000000, 0x3FF0000000000000, 0x3FE5555555555555) := by decide +kernel
/-- nothing counted: three NaNs -/
example : bits 0 0 0 = (0x7FF8000000000000, 0x7FF8000000000000, 0x7FF8000000000000) := by decide +kernel
/-- tp = 0, fp = 1, fn = 1: P = R = 0, F1 = NaN -/
example : bits 0 1 1 = (0, 0, 0x7FF8000000000000) := by decide +kernel
/-- a zero denominator on one side only -/
example : bits 0 0 3 = (0x7FF8000000000000, 0, 0x7FF8000000000000) ∧
    bits 0 3 0 = (0, 0x7FF8000000000000, 0x7FF8000000000000) := by decide +kernel
/-- 3/7, 3/11: the exact F1 is 1/3 = `0x3FD5555555555555`, the computed one is one step below -/
example : bits 3 7 11 = (0x3FDB6DB6DB6DB6DB, 0x3FD1745D1745D174, 0x3FD5555555555554) := by decide +kernel
/-- everything right: 1.0, 1.0, 1.0; and the largest `i32` counts -/
example : bits 5 5 5 = (0x3FF0000000000000, 0x3FF0000000000000, 0x3FF0000000000000) ∧
    bits 2147483646 2147483647 2147483647 = (0x3FEFFFFFFFC00000, 0x3FEFFFFFFFC00000, 0x3FEFFFFFFFC00000) := by
  decide +kernel
/-- the text the driver appends -/
example : metricsText (evalMetrics 1 2 1) = "P=3fe0000000000000,R=3ff0000000000000,F=3fe5555555555555" := by decide +kernel
/-- the two front ends of `evalMetrics` -/
example : evalMetricsChar (1, 7, 1, 0) = evalMetrics 1 2 1 ∧ evalMetricsWord (1, 2, 1) = evalMetrics 1 2 1 := ⟨rfl, rfl⟩

/-- `min p r ≤ f1 ≤ max p r` is FALSE for the computed values: P = R = 0.2 (`0x3FC999999999999A`) but F1 =
`0x3FC999999999999B`, one step above both … -/
example : bits 1 5 5 = (0x3FC999999999999A, 0x3FC999999999999A, 0x3FC999999999999B) ∧
    f64Le (evalMetrics 1 5 5).2.2 (evalMetrics 1 5 5).1 = false := by decide +kernel
/-- … and P = R = 17/23 (`0x3FE7A6F4DE9BD37A`) with F1 one step below both -/
example : bits 17 23 23 = (0x3FE7A6F4DE9BD37A, 0x3FE7A6F4DE9BD37A, 0x3FE7A6F4DE9BD379) ∧
    f64Le (evalMetrics 17 23 23).1 (evalMetrics 17 23 23).2.2 = false := by decide +kernel

/-- `(2.·p)·r = (2.·r)·p` is false for arbitrary doubles: with `p` the largest finite double and `r = 0.25` the left product
overflows in its first step, the right one is exact -/
example : f64Mul (f64Mul f64Two (F64.ofBits 0x7FEFFFFFFFFFFFFF)) (F64.ofBits 0x3FD0000000000000) = .inf false ∧
    (f64Mul (f64Mul f64Two (F64.ofBits 0x3FD0000000000000)) (F64.ofBits 0x7FEFFFFFFFFFFFFF)).toBits = 0x7FDFFFFFFFFFFFFF := by
  decide +kernel

/-- the arithmetic on bit patterns: 1.5·(−3.0) = −4.5; 1.0 + 2^-53 = 1.0 (tie to even) and (1.0 + 2^-52) + 2^-53 = 1.0 + 2^-51
(tie to even, upwards); 1.0 + (−1.0) = +0; the least subnormal times 0.5 is 0 and three of them times 0.5 is two (ties to even
under gradual underflow); the largest double times 2 is +∞; 2^53 + 1 → 2^53 and 2^53 + 3 → 2^53 + 4 in `f64OfNat` -/
example :
    (f64Mul (F64.ofBits 0x3FF8000000000000) (F64.ofBits 0xC008000000000000)).toBits = 0xC012000000000000 ∧
    (f64Add (F64.ofBits 0x3FF0000000000000) (F64.ofBits 0x3CA0000000000000)).toBits = 0x3FF0000000000000 ∧
    (f64Add (F64.ofBits 0x3FF0000000000001) (F64.ofBits 0x3CA0000000000000)).toBits = 0x3FF0000000000002 ∧
    (f64Add (F64.ofBits 0x3FF0000000000000) (F64.ofBits 0xBFF0000000000000)).toBits = 0 ∧
    (f64Mul (F64.ofBits 1) (F64.ofBits 0x3FE0000000000000)).toBits = 0 ∧
    (f64Mul (F64.ofBits 3) (F64.ofBits 0x3FE0000000000000)).toBits = 2 ∧
    (f64Mul (F64.ofBits 0x7FEFFFFFFFFFFFFF) (F64.ofBits 0x4000000000000000)).toBits = 0x7FF0000000000000 ∧
    (f64OfNat (2 ^ 53 + 1)).toBits = 0x4340000000000000 ∧ (f64OfNat (2 ^ 53 + 3)).toBits = 0x4340000000000002 := by
  decide +kernel

end C20FloatEx

/-! ## the decimal text of evaluate's floats

`VModel/F64Fmt.lean`: `f64Display` is Rust's `format!("{}", x)` for an `f64` (shortest digits that read back, nearest to the
value, positional notation), `evalReportChar` / `evalReportWord` the complete output of the tool after counting;
`decimalToF64 ds e` is the double nearest to `0.d₁…d_k × 10^e` (what `str::parse::<f64>` computes). -/

/-- the printed digits identify the computed double exactly: for every finite non-zero double (magnitude `a` units of
`2^-1074`) reading the digits and exponent of `format_shortest` back with correct rounding gives that double again -/
theorem C20_eval_display_roundtrip (s : Bool) (a : Nat) (hd : F64.IsDouble (.fin s a)) (ha : 0 < a) :
    decimalToF64 (f64ShortestDigits a).1 (f64ShortestDigits a).2 = .fin false a :=
  FmtL.display_roundtrip a ha hd.1 hd.2

/-- hence different finite doubles have different digits or exponents (on the magnitudes; the sign is printed separately) -/
theorem C20_eval_display_injective (s t : Bool) (a b : Nat) (hx : F64.IsDouble (.fin s a)) (hy : F64.IsDouble (.fin t b))
    (ha : 0 < a) (hb : 0 < b) (h : f64ShortestDigits a = f64ShortestDigits b) : a = b := by
  have h1 := C20_eval_display_roundtrip s a hx ha
  have h2 := C20_eval_display_roundtrip t b hy hb
  rw [h, h2] at h1
  exact (F64.fin.inj h1).2.symm

/-- … and the printed TEXT identifies the double, sign included: two finite doubles with the same `format!("{}", x)` are the
same double (the three layouts `0.000ddd`, `ddd000`, `dd.ddd` of `digits_to_dec_str` determine digits and exponent because
the first and the last digit are not `0`; `0` and `-0` print differently) -/
theorem C20_eval_display_text_injective (s t : Bool) (a b : Nat) (hx : F64.IsDouble (.fin s a))
    (hy : F64.IsDouble (.fin t b)) (h : f64Display (.fin s a) = f64Display (.fin t b)) :
    (F64.fin s a : F64) = .fin t b := by
  obtain ⟨hs, hm⟩ := FmtL.display_fin_inj s t a b hx.2 hy.2 h
  have hab : a = b := FmtL.magText_inj a b hx.2 hy.2 hx.1 hy.1 hm
  rw [hs, hab]

/-- reading back, characterised: a digit string `0.d₁…d_k × 10^e` parses (correctly rounded, ties to even) to the non-zero double
`a` EXACTLY when its value lies in the rounding interval of `a` — between the midpoints to the neighbouring doubles (a quarter
step below a power of two), end points included when the significand of `a` is even.  `round_of_interval` is one direction;
the other one is new: nothing outside the interval rounds to `a` -/
theorem C20_eval_display_interval_iff (s : Bool) (a : Nat) (hd : F64.IsDouble (.fin s a)) (ha : 0 < a)
    (ds : List Nat) (e : Int) :
    decimalToF64 ds e = .fin false a ↔ decInInterval a (ofDigits ds) (e - (ds.length : Int)) = true :=
  FmtL.decimal_interval_iff a ha hd.1 hd.2 ds e

/-- the printed digit string is a SHORTEST one: for a finite non-zero double `a` no digit string with fewer digits than
`format_shortest` produces reads back as `a`, whatever its exponent — under the hypothesis `FmtL.f64ShortestFoundWithinFuel a`
(a `Bool`, checked by evaluation in the examples below): the search of `f64ShortestDec` ends within its 20 rounds instead of
falling back to the exact expansion.  This holds for every double (17 digits always suffice), but that general fact is not
proved here, hence `_partial`.  The proof: what reads back as `a` lies in the rounding interval
(`C20_eval_display_interval_iff`), rounding is monotone, so with any `k`-digit decimal one of the two `k`-digit neighbours of
`a` at the scale `10^(e−k)` reads back as well and the search would have stopped there; `decExponent a` is the decimal exponent
(`10^(e−1) ≤ a·2^-1074 < 10^e`, `FmtL.decExponent_ok`), so a decimal at a finer scale has more digits and one at a coarser
scale is on the other side of a power of ten, which then is a one-digit decimal that reads back -/
theorem C20_eval_display_shortest_partial (s : Bool) (a : Nat) (hd : F64.IsDouble (.fin s a)) (ha : 0 < a)
    (hok : FmtL.f64ShortestFoundWithinFuel a = true) (ds' : List Nat) (e' : Int)
    (hlen : ds'.length < (f64ShortestDigits a).1.length) (hdig : ∀ d ∈ ds', d < 10) (hne : ds' ≠ []) :
    decimalToF64 ds' e' ≠ .fin false a :=
  FmtL.display_shortest_found a ha hd.1 hd.2 hok ds' e' hlen hdig hne

/-- … and the hypothesis always holds (`FmtL.found_within_fuel`): seventeen digits suffice for every double.  At the scale
`10^(e−17)` the spacing of the decimals is at most `a·10^-16`; the rounding interval of `a = c·2^t` is `2^t` wide and
`a < 2^53·2^t`, `2^53 < 10^16` (just above a power of two the interval is `¾·2^t` wide, but there `a = 2^52·2^t` and
`4·2^52 < 3·10^16`), so one of the two neighbours `⌊x·10^(17−e)⌋`, `⌈x·10^(17−e)⌉` of the double lies strictly inside.
Hence, unconditionally: the printed digit string is a SHORTEST one — for every finite non-zero double `a` no digit string with
fewer digits than `format_shortest` produces reads back as `a`, whatever its exponent -/
theorem C20_eval_display_shortest (s : Bool) (a : Nat) (hd : F64.IsDouble (.fin s a)) (ha : 0 < a)
    (ds' : List Nat) (e' : Int)
    (hlen : ds'.length < (f64ShortestDigits a).1.length) (hdig : ∀ d ∈ ds', d < 10) (hne : ds' ≠ []) :
    decimalToF64 ds' e' ≠ .fin false a :=
  FmtL.display_shortest_found a ha hd.1 hd.2 (FmtL.found_within_fuel a ha hd.2) ds' e' hlen hdig hne

/-- so the fall-back of `f64ShortestDec` to the exact expansion is dead code on doubles, and the printed text has at most
seventeen significant digits -/
theorem C20_eval_display_at_most_17 (s : Bool) (a : Nat) (hd : F64.IsDouble (.fin s a)) (ha : 0 < a) :
    FmtL.f64ShortestFoundWithinFuel a = true ∧ (f64ShortestDigits a).1.length ≤ 17 :=
  ⟨FmtL.found_within_fuel a ha hd.2, FmtL.digits_le_17 a ha hd.2⟩

/-- the hypothesis holds for: 1.0, the least subnormal, the least normal number, the largest double, 0.1, 1/3, 2/3, 2^53,
`(2^51 + 1)/4` (the tie of `F64Fmt.lean`) -/
example : FmtL.f64ShortestFoundWithinFuel F64.unit = true ∧ FmtL.f64ShortestFoundWithinFuel 1 = true ∧
    FmtL.f64ShortestFoundWithinFuel (2 ^ 52) = true ∧ FmtL.f64ShortestFoundWithinFuel ((2 ^ 53 - 1) * 2 ^ 2045) = true ∧
    FmtL.f64ShortestFoundWithinFuel ((2 ^ 52 + 0x999999999999A) * 2 ^ (0x3FB - 1)) = true ∧
    FmtL.f64ShortestFoundWithinFuel ((2 ^ 52 + 0x5555555555555) * 2 ^ (0x3FD - 1)) = true ∧
    FmtL.f64ShortestFoundWithinFuel ((2 ^ 52 + 0x5555555555555) * 2 ^ (0x3FE - 1)) = true ∧
    FmtL.f64ShortestFoundWithinFuel (2 ^ 53 * F64.unit) = true ∧
    FmtL.f64ShortestFoundWithinFuel ((2 ^ 52 + 2) * 2 ^ (0x430 - 1)) = true := by decide +kernel

/-- an instance: `0.1` prints with one digit, `1/3` with sixteen: no digit string of at most fifteen digits parses to `1/3` -/
example : (f64ShortestDigits ((2 ^ 52 + 0x5555555555555) * 2 ^ (0x3FD - 1))).1.length = 16 ∧
    (f64ShortestDigits ((2 ^ 52 + 0x999999999999A) * 2 ^ (0x3FB - 1))).1.length = 1 := by decide +kernel

/-- the texts that `evaluate` can print for a metric: `NaN`, `0`, `1`, or `0.` followed by zeros and at least one more digit,
the last digit not `0` (never an exponent, never a sign, never `inf`) -/
def UnitText (cs : List Char) : Prop :=
  cs = ['N', 'a', 'N'] ∨ cs = ['0'] ∨ cs = ['1'] ∨
    ∃ (z : Nat) (ds : List Nat) (last : Nat), cs = '0' :: '.' :: (List.replicate z '0' ++ ds.map digitChar) ∧
      (∀ d ∈ ds, d < 10) ∧ ds.getLast? = some last ∧ last ≠ 0

/-- the text of a double `x` with `0 ≤ x ≤ 1` (magnitude `a ≤ 2^1074` units, sign bit clear): `0` for zero, `1` for one,
otherwise `0.` + zeros + the shortest digits, the last of which is not `0`; and NaN prints as `NaN` -/
theorem C20_eval_display_shape (a : Nat) (hd : F64.IsDouble (.fin false a)) :
    (a = 0 → f64Display (.fin false a) = ['0']) ∧ (a = F64.unit → f64Display (.fin false a) = ['1']) ∧
    (0 < a → a < F64.unit → ∃ (z : Nat) (ds : List Nat) (last : Nat),
      f64Display (.fin false a) = '0' :: '.' :: (List.replicate z '0' ++ ds.map digitChar) ∧
        (∀ d ∈ ds, d < 10) ∧ ds.getLast? = some last ∧ last ≠ 0) ∧
    f64Display .nan = ['N', 'a', 'N'] :=
  FmtL.display_shape a hd

/-- the three numbers that `evaluate` prints, for all `i32` counts with `num ≤ pDen`, `num ≤ rDen` (both metrics, see
`C20_eval_word_counts_bounded`): each of `Precision`, `Recall`, `F1` is `NaN`, `0`, `1` or `0.d…d` with a non-zero last digit -/
theorem C20_eval_report_shape (num pDen rDen : Nat) (hp : pDen < 2 ^ 31) (hr : rDen < 2 ^ 31)
    (hnp : num ≤ pDen) (hnr : num ≤ rDen) :
    UnitText (f64Display (evalMetrics num pDen rDen).1) ∧ UnitText (f64Display (evalMetrics num pDen rDen).2.1) ∧
    UnitText (f64Display (evalMetrics num pDen rDen).2.2) :=
  FmtL.report_shape num pDen rDen hp hr hnp hnr

/-! ## the two front ends segment alike -/

/-- the `predict` tool and the Tantivy token stream (C16) segment alike: for a line without line-break characters the core
pipeline on which the token stream is built (normalise, predict, line-break filter, configured filters) yields exactly the
sentence whose boundaries the tool prints in its normalising mode (normalise, predict, configured filters) — in every case,
including rejected input -/
theorem C20_agrees_with_token_stream (cfg : Cfg) (m : WModel) (hm : WFModel m) (pt : Bool)
    (p : Predictor) (hp : Predictor.new cfg m pt = .ok p) (filters : List PostFilter) (line : List Char)
    (hnl : ∀ c ∈ line, isLinebreak c = false) :
    pipeline p filters line =
      bindR (Sentence.fromRaw (Gen.fullwidth line)) fun s0 => bindR (p.predict 0 s0) fun s1 => applyWsconst filters s1 :=
  C20X.agrees cfg m hm pt p hp filters line hnl

/-! ## non-vacuity: the well-formed model of `C01.lean` (it has a tag model, see `C06.lean`) through `predictCli`, two
non-empty lines and an empty one -/

/-- `--no-norm --predict-tags --scores --tag-scores --wsconst D`: per line the tokenised line, the score block and the
tag-score block; the empty line gives an empty line -/
example : predictCli {} ⟨true, true, true, true, ['D']⟩ C01_exModel "aba\n\nab".toList [] =
    .ok "a/y ba\n0:ab 1\n1:ba 0\n\na\tx:0,y:1\nba\n\n\na/y b\n0:ab 1\n\na\tx:0,y:1\nb\n\n".toList := by decide

/-- with normalisation (and a CRLF line end): the line is written from the original characters (the space escaped), the
scores are printed with the normalised ones -/
example : predictCli {} ⟨false, false, true, false, ['D']⟩ C01_exModel "a b\r\n12".toList [] =
    .ok "a\\ b\n0:ａ  -6\n1: ｂ -7\n\n12\n0:１２ -10\n\n".toList := by decide

/-- the hypotheses of `C20_no_crash` / `C20_output_eq_blocks` on the predictor are satisfiable for this model -/
example : (Predictor.new {} C01_exModel true).isOk = true := by decide

/-! ## the example programs and the predict tool segment alike -/

/-- the embedded device (`examples/embedded_device`, C14) is `predict --no-norm --wsconst D`: for EVERY predictor and every text
that the sentence constructor accepts, the line the device writes, followed by a newline, is the block the tool writes for that
line with these flags and no other — in every case: same value, same error, same panic -/
theorem C20_embedded_eq_predict_tool (p : Predictor) (text : List Char) (hne : text ≠ []) (hnul : '\x00' ∉ text) :
    (embeddedTokenize p text).map (· ++ ['\n']) =
      libLine { noNorm := true, predictTags := false, scores := false, tagScores := false, wsconst := ['D'] } p
        [PostFilter.ws 1] text := by
  rw [libLine_eq]
  exact ExCli.embedded_eq_tool p text hne hnul

/-- the hypothesis on the text is needed: on a rejected text (empty, or with a NUL character) the two programs differ by
design — the device unwraps the constructor's error and panics, the tool prints an empty line -/
theorem C20_embedded_rejected (p : Predictor) (text : List Char) (h : text = [] ∨ '\x00' ∈ text) :
    embeddedTokenize p text = .panic "Sentence::from_raw(text).unwrap()" ∧
    libLine { noNorm := true, predictTags := false, scores := false, tagScores := false, wsconst := ['D'] } p
      [PostFilter.ws 1] text = .ok ['\n'] := by
  rw [libLine_eq]
  exact ExCli.embedded_rejected p text h

/-- … and with the build script in front (`embeddedDevice`: build, serialise, deserialise, tokenise): for a well-formed model
the whole example is the tool's block under ANY build configuration of the tool (`C14_embedded_cfg_independent`) -/
theorem C20_embedded_device_eq_predict_tool (cfg : Cfg) (m : WModel) (hm : WFModel m) (text : List Char) (hne : text ≠ [])
    (hnul : '\x00' ∉ text) :
    (embeddedDevice m text).map (· ++ ['\n']) =
      bindR (Predictor.new cfg m false) fun p =>
        libLine { noNorm := true, predictTags := false, scores := false, tagScores := false, wsconst := ['D'] } p
          [PostFilter.ws 1] text := by
  rw [ExL.embedded_cfg_independent cfg m hm text, C20L.map_bindR]
  exact C20L.bindR_congr _ _ _ fun p _ => C20_embedded_eq_predict_tool p text hne hnul

/-- the browser worker (`examples/wasm`, C16) is `predict --predict-tags --wsconst GD` in its normalising mode: for a
well-formed model, a non-empty NUL-free message, valid cluster data and ANY state of the worker, the worker answers, the tool
writes a line, the line parses, its characters are the message, and the worker's token surfaces are exactly the tokens of the
line — the same segmentation of the same original characters.
(Added hypothesis `htag`: no tag of the model is empty or contains NUL.  A NUL inside a tag is written as it is and the parser
of the tokenised format rejects the line — example below; an empty tag is written like an absent one, `C03_roundtrip` excludes
it.) -/
theorem C20_wasm_eq_predict_tool (m : WModel) (hm : WFModel m) (ht : WFTags m)
    (htag : ∀ tm ∈ m.tagModels, ∀ cands ∈ tm.tags, ∀ t ∈ cands, t ≠ [] ∧ '\x00' ∉ t)
    (p : Predictor) (hp : wasmCreate m = .ok p) (w : WasmWorker) (msg : List Char) (hne : msg ≠ []) (hnul : '\x00' ∉ msg)
    (cl : List Nat) (hpos : ∀ l ∈ cl, 1 ≤ l) (hsum : cl.sum = msg.length) :
    ∃ w' toks n line q,
      wasmReceived p cl w msg = .ok (w', toks, n) ∧
      libLine { noNorm := false, predictTags := true, scores := false, tagScores := false, wsconst := ['G', 'D'] } p
        [PostFilter.graphemes cl, PostFilter.ws 1] msg = .ok (line ++ ['\n']) ∧
      parseTokenized line = .ok q ∧ q.text = msg ∧
      toks.map (·.1) = (iterTokens q.bounds).map fun se => (q.text.drop se.1).take (se.2 - se.1) := by
  obtain ⟨w', toks, n, line, q, h1, h2, h3, h4, h5, _⟩ :=
    ExCli.wasm_eq_tool wasmCfg m hm ht htag p hp w msg hne hnul cl hpos hsum
  exact ⟨w', toks, n, line, q, h1, by rw [libLine_eq]; exact h2, h3, h4, h5⟩

/-- … and the same tags: the tag list the worker sends with its `i`-th token is the tag list written on the `i`-th token of
the line (`tokenTagsTrim`: the fields after the surface, an empty field being an absent tag), absent tags sent as empty strings,
followed by empty strings for the trailing absent tags that the writer drops -/
theorem C20_wasm_tags_eq_predict_tool (m : WModel) (hm : WFModel m) (ht : WFTags m)
    (htag : ∀ tm ∈ m.tagModels, ∀ cands ∈ tm.tags, ∀ t ∈ cands, t ≠ [] ∧ '\x00' ∉ t)
    (p : Predictor) (hp : wasmCreate m = .ok p) (w : WasmWorker) (msg : List Char) (hne : msg ≠ []) (hnul : '\x00' ∉ msg)
    (cl : List Nat) (hpos : ∀ l ∈ cl, 1 ≤ l) (hsum : cl.sum = msg.length) :
    ∃ w' toks n line q,
      wasmReceived p cl w msg = .ok (w', toks, n) ∧
      libLine { noNorm := false, predictTags := true, scores := false, tagScores := false, wsconst := ['G', 'D'] } p
        [PostFilter.graphemes cl, PostFilter.ws 1] msg = .ok (line ++ ['\n']) ∧
      parseTokenized line = .ok q ∧ toks.length = (iterTokens q.bounds).length ∧
      ∀ i, i < toks.length → ∃ k,
        (toks.getD i ([], [])).2 =
          (tokenTagsTrim q.tags (q.tags.length / q.text.length) ((iterTokens q.bounds).getD i (0, 0)).2).map (·.getD [])
            ++ List.replicate k [] := by
  obtain ⟨w', toks, n, line, q, h1, h2, h3, _, h5, h6⟩ :=
    ExCli.wasm_eq_tool wasmCfg m hm ht htag p hp w msg hne hnul cl hpos hsum
  refine ⟨w', toks, n, line, q, h1, by rw [libLine_eq]; exact h2, h3, ?_, h6⟩
  have := congrArg List.length h5
  simpa using this

/-! ### non-vacuity -/

/-- the device and the tool on the model of `C01.lean`: the same line (the tool adds the newline) -/
example : embeddedDevice C01_exModel "aba 12/3".toList = .ok "a ba\\ 12\\/3".toList ∧
    (bindR (Predictor.new {} C01_exModel false) fun p =>
      libLine ⟨true, false, false, false, ['D']⟩ p [PostFilter.ws 1] "aba 12/3".toList) = .ok "a ba\\ 12\\/3\n".toList ∧
    predictCli {} ⟨true, false, false, false, ['D']⟩ C01_exModel "aba 12/3".toList [] = .ok "a ba\\ 12\\/3\n".toList := by
  decide

/-- a rejected text: the device panics, the tool prints an empty line -/
example : embeddedDevice C01_exModel "a\x00".toList = .panic "Sentence::from_raw(text).unwrap()" ∧
    predictCli {} ⟨true, false, false, false, ['D']⟩ C01_exModel "a\x00".toList [] = .ok "\n".toList := by decide

/-- `C16_exTagModel` satisfies `htag` -/
example : ∀ tm ∈ C16_exTagModel.tagModels, ∀ cands ∈ tm.tags, ∀ t ∈ cands, t ≠ [] ∧ '\x00' ∉ t := by decide

/-- (instance search gives up on the nested answer type without this stepping stone) -/
local instance : DecidableEq (List WasmToken × Nat) := inferInstance

/-- the worker and the tool on `C16_exTagModel`, message "aba": the worker sends "a" with tag "y" and "ba" with an absent tag,
the tool writes `a/y ba`, which parses to the message with the same two tokens -/
example : (match wasmCreate C16_exTagModel with
    | .ok p =>
      decide ((wasmReceived p [1, 1, 1] {} "aba".toList).map (·.2) = .ok ([(['a'], [['y']]), (['b', 'a'], [[]])], 1)) &&
      decide (libLine ⟨false, true, false, false, ['G', 'D']⟩ p [PostFilter.graphemes [1, 1, 1], PostFilter.ws 1]
        "aba".toList = .ok "a/y ba\n".toList)
    | _ => false) = true ∧
    parseTokenized "a/y ba".toList = .ok ⟨"aba".toList, [.W, .N], [some ['y'], none, none]⟩ ∧
    predictCli wasmCfg ⟨false, true, false, false, ['G', 'D']⟩ C16_exTagModel "aba".toList [[1, 1, 1]]
      = .ok "a/y ba\n".toList := by decide

/-- the grapheme filter at work: with the clusters "ab" + "a" the boundary inside the first cluster is removed on both sides -/
example : (match wasmCreate C16_exTagModel with
    | .ok p =>
      decide ((wasmReceived p [2, 1] {} "aba".toList).map (·.2) = .ok ([(['a', 'b', 'a'], [[]])], 1)) &&
      decide (libLine ⟨false, true, false, false, ['G', 'D']⟩ p [PostFilter.graphemes [2, 1], PostFilter.ws 1]
        "aba".toList = .ok "aba\n".toList)
    | _ => false) = true := by decide

/-- `htag` is needed: a well-formed tag model whose only tag is a NUL character — the worker answers, the tool writes the line,
and the line does not parse -/
def C20_nulTagModel : WModel :=
  { C16_exModel with
    tagModels := [{ token := ['ａ'], tags := [[['\x00']]], charNgrams := [], typeNgrams := [], bias := [] }] }

example : WFModel C20_nulTagModel :=
  { charW_pos := by decide, charW_le := by decide, typeW_pos := by decide, typeW_le := by decide,
    char_nodup := by decide, char_shape := by decide, type_nodup := by decide, type_shape := by decide,
    dict_nodup := by decide, dict_shape := by decide }

example : WFTags C20_nulTagModel :=
  { tokens_nodup := by decide, bias_len := by decide, char_ok := by decide, type_ok := by decide }

example : (match wasmCreate C20_nulTagModel with
    | .ok p =>
      decide ((wasmReceived p [1, 1, 1] {} "aba".toList).map (·.2) = .ok ([(['a'], [['\x00']]), (['b', 'a'], [[]])], 1)) &&
      decide (libLine ⟨false, true, false, false, ['G', 'D']⟩ p [PostFilter.graphemes [1, 1, 1], PostFilter.ws 1]
        "aba".toList = .ok "a/\x00 ba\n".toList)
    | _ => false) = true ∧
    parseTokenized "a/\x00 ba".toList = .err .invalidArgument := by decide

end V
