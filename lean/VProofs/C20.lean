import VModel.Cli
import VProofs.C01
import VProofs.C03
import VProofs.C05
import VProofs.C06
import VProofs.C15
import VProofs.C16
import VProofs.Lemmas.CliSafe
import VProofs.Lemmas.EvalCountChar
import VProofs.Lemmas.EvalCountWord
import VProofs.Lemmas.EvalCountLine
import VProofs.Lemmas.CrossFront
/-!
# C20 — Command-line tools agree with the library, line by line

Property theorems only (helper lemmas live in `VProofs/Lemmas/Cli*.lean`).
-/
namespace V

/-- the specification of one output block of `predict`: the library pipeline on a FRESH sentence for this line alone —
normalise (unless `--no-norm`), `from_raw`, predict, the configured filters, `fill_tags` (with `--predict-tags`); the
tokenised line is written from the ORIGINAL (un-normalised) characters with the predicted boundaries and tags, followed by
its newline, then the optional score block, then the optional tag-score block; a rejected or empty line gives an empty line -/
def libLine (fl : PredictFlags) (p : Predictor) (filters : List PostFilter) (line : List Char) : Res (List Char) :=
  match Sentence.fromRaw (if fl.noNorm then line else Gen.fullwidth line) with
  | .err _ => .ok ['\n']
  | .panic q => .panic q
  | .ub q => .ub q
  | .ok s0 =>
    bindR (p.predict 0 s0) fun s1 =>
    bindR (applyWsconst filters s1) fun s2 =>
    bindR (if fl.predictTags then p.predictTags s2 else .ok s2) fun s3 =>
    bindR (if fl.noNorm then .ok s3 else
        match Sentence.fromRaw line with
        | .ok o =>
          if o.bounds.length ≠ s3.bounds.length then .panic "boundaries_mut().copy_from_slice: length mismatch"
          else if s3.nTags * o.types.length ≠ s3.tags.length then .panic "tags_mut().clone_from_slice: length mismatch"
          else .ok { o with bounds := s3.bounds, tags := s3.tags, nTags := s3.nTags }
        | .err e => .err e
        | .panic q => .panic q
        | .ub q => .ub q) fun shown =>
    bindR shown.writeTokenized fun w =>
    bindR (if fl.scores then printScores s3 else .ok []) fun sc =>
    bindR (if fl.tagScores && fl.predictTags then printTagScores s3 else .ok []) fun ts =>
    .ok (w ++ ['\n'] ++ sc ++ ts)

theorem libLine_eq : libLine = C20L.libLine' := rfl

/-- reusing the sentence objects `s` and `s_orig` across lines is invisible: whatever state the loop is in, the bytes
written for a line are exactly the specification block of that line -/
theorem C20_line_eq_library (fl : PredictFlags) (p : Predictor) (filters : List PostFilter) (st : PredictState)
    (line : List Char) :
    (predictLine fl p filters st line).map (·.out) = (libLine fl p filters line).map (st.out ++ ·) :=
  C20L.line_eq_library fl p filters st line

/-- hence the whole output is the concatenation, in input order, of one block per input line (so: exactly one tokenised
line per input line, an empty line for an empty or rejected input, and the same layout with and without `--no-norm`) -/
theorem C20_output_eq_blocks (cfg : Cfg) (fl : PredictFlags) (m : WModel) (p0 : Predictor)
    (hp : Predictor.new cfg m fl.predictTags = .ok p0) (stdin : List Char) (clusters : List (List Nat)) (out : List Char)
    (h : predictCli cfg fl m stdin clusters = .ok out) :
    ∃ blocks : List (List Char),
      blocks.length = (splitLines stdin).length ∧ out = blocks.flatten ∧
      ∀ i, i < blocks.length →
        ∃ filters, buildPostFilters fl.wsconst ((clusters.drop i).headD []) = .ok filters ∧
          libLine fl { p0 with storeTagScores := fl.tagScores } filters ((splitLines stdin).getD i []) = .ok (blocks.getD i []) := by
  rw [C20L.predictCli_eq, hp] at h
  obtain ⟨st', hgo, hout⟩ := C20L.map_eq_ok h
  obtain ⟨blocks, h1, h2, h3⟩ := C20L.go_blocks fl _ _ _ _ _ hgo
  exact ⟨blocks, h1, by rw [← hout, h2]; rfl, h3⟩

/-- the unescaped surfaces of the tokenised line concatenate to the original, un-normalised input line: parsing the line the
tool wrote gives back exactly the input characters (well-formed model, NUL-free non-empty line, without tags) -/
theorem C20_surfaces_concat (cfg : Cfg) (m : WModel) (hm : WFModel m) (p : Predictor)
    (hp : Predictor.new cfg m false = .ok p) (fl : PredictFlags) (hft : fl.predictTags = false) (hfs : fl.scores = false)
    (hfg : fl.tagScores = false) (filters : List PostFilter) (hfil : ∀ f ∈ filters, ∃ t, f = PostFilter.ws t)
    (line : List Char) (hne : line ≠ []) (hnul : '\x00' ∉ line) :
    ∃ w, libLine fl p filters line = .ok (w ++ ['\n']) ∧ ∃ q, parseTokenized w = .ok q ∧ q.text = line := by
  rw [libLine_eq]
  exact C20L.surfaces_concat cfg m hm p hp fl hft hfs hfg filters hfil line hne hnul

/-- no input line and no flag combination makes `predict` crash: for a well-formed model (and tag models) that the predictor
accepts, every input stream and valid cluster data the tool returns output, never a panic.
(Restated on request: the predictor is taken as given — whether `Predictor::new` accepts a model is C11's business, and a
start-up error is not an input line crashing the tool; `fl.predictTags = true → cfg.tagPred = true` follows from `hp`.) -/
theorem C20_no_crash (cfg : Cfg) (m : WModel) (hm : WFModel m) (ht : WFTags m) (fl : PredictFlags)
    (p0 : Predictor) (hp : Predictor.new cfg m fl.predictTags = .ok p0)
    (hws : ∀ c ∈ fl.wsconst, c ∈ ['D', 'R', 'H', 'T', 'K', 'O'])
    (stdin : List Char) (clusters : List (List Nat)) :
    ∃ out, predictCli cfg fl m stdin clusters = .ok out :=
  C20L.cli_total cfg m hm ht fl p0 hp hws stdin clusters

/-! ## `evaluate`: what the counting loops compute (the loops are mirrored in `VModel/Cli.lean`; here they are
characterised without reference to any loop) -/

/-- what `evaluate` hands to its counters for one line: reference and system label vectors of the same length without
unknown labels, and one tag row per character on both sides -/
def EvalLineWF (l : EvalLine) : Prop :=
  l.sysB.length = l.refB.length ∧ l.refT.length = l.refB.length + 1 ∧ l.sysT.length = l.sysB.length + 1 ∧
  (∀ b ∈ l.refB, b ≠ B.U) ∧ (∀ b ∈ l.sysB, b ≠ B.U)

/-- the words of the reference that are also words of the system output (same start, same end) and carry the same tag row
(tag rows are compared at the last character of the word) -/
def corWords (l : EvalLine) : List (Nat × Nat) :=
  (specTokens l.refB).filter fun se => decide (se ∈ specTokens l.sysB) && decide (l.refT[se.2 - 1]? = l.sysT[se.2 - 1]?)

/-- `--metric word`: `n_cor` = number of common words with equal tags, `n_sys` / `n_ref` = number of system / reference words,
summed over the lines -/
theorem C20_eval_word_counts (ls : List EvalLine) (h : ∀ l ∈ ls, EvalLineWF l) :
    wordCounts ls = ((ls.map fun l => (corWords l).length).sum,
                     (ls.map fun l => (specTokens l.sysB).length).sum,
                     (ls.map fun l => (specTokens l.refB).length).sum) :=
  C20E.word_counts ls h

/-- `--metric char`: true positives = positions where both sides have a word boundary, true negatives = both have none,
false positives = only the system has one, false negatives = only the reference has one -/
theorem C20_eval_char_counts (ls : List EvalLine) :
    charCounts ls =
      ((ls.map fun l => ((l.refB.zip l.sysB).filter fun x => decide (x.1 = x.2) && decide (x.2 = B.W)).length).sum,
       (ls.map fun l => ((l.refB.zip l.sysB).filter fun x => decide (x.1 = x.2) && decide (x.2 ≠ B.W)).length).sum,
       (ls.map fun l => ((l.refB.zip l.sysB).filter fun x => decide (x.1 ≠ x.2) && decide (x.2 = B.W)).length).sum,
       (ls.map fun l => ((l.refB.zip l.sysB).filter fun x => decide (x.1 ≠ x.2) && decide (x.2 ≠ B.W)).length).sum) :=
  C20E.char_counts ls

/-- every line that `evaluate` counts satisfies the hypotheses of `C20_eval_word_counts`: the normaliser keeps the number of
characters, prediction leaves no unknown label, the filters keep the lengths, and both tag tables have one row per character -/
theorem C20_eval_line_wf (cfg : Cfg) (m : WModel) (hm : WFModel m) (ht : WFTags m) (fl : EvalFlags)
    (p : Predictor) (hp : Predictor.new cfg m fl.predictTags = .ok p)
    (filters : List PostFilter) (line : List Char) (e : EvalLine)
    (he : evalLine fl p filters line = .ok e) : EvalLineWF e :=
  C20E.line_wf cfg m hm ht fl p hp filters line e he

example : EvalLineWF ⟨[B.N, B.W], [[none], [some ['x']], [none]], [B.W, B.W], [[none], [some ['x']], [none]]⟩ ∧
    wordCounts [⟨[B.N, B.W], [[none], [some ['x']], [none]], [B.W, B.W], [[none], [some ['x']], [none]]⟩] = (1, 3, 2) := by
  refine ⟨by unfold EvalLineWF; decide, by decide⟩

/-! ## the two front ends segment alike -/

/-- the `predict` tool and the Tantivy token stream (C16) segment alike: for a line without line-break characters the core
pipeline on which the token stream is built (normalise, predict, line-break filter, configured filters) yields exactly the
sentence whose boundaries the tool prints in its normalising mode (normalise, predict, configured filters) — in every case,
including rejected input -/
theorem C20_agrees_with_token_stream (cfg : Cfg) (m : WModel) (hm : WFModel m) (pt : Bool)
    (p : Predictor) (hp : Predictor.new cfg m pt = .ok p) (filters : List PostFilter) (line : List Char)
    (hnl : ∀ c ∈ line, isLinebreak c = false) :
    pipeline p filters line =
      bindR (Sentence.fromRaw (Gen.fullwidth line)) fun s0 => bindR (p.predict 0 s0) fun s1 => applyWsconst filters s1 :=
  C20X.agrees cfg m hm pt p hp filters line hnl

/-! ## non-vacuity: the well-formed model of `C01.lean` (it has a tag model, see `C06.lean`) through `predictCli`, two
non-empty lines and an empty one -/

/-- `--no-norm --predict-tags --scores --tag-scores --wsconst D`: per line the tokenised line, the score block and the
tag-score block; the empty line gives an empty line -/
example : predictCli {} ⟨true, true, true, true, ['D']⟩ C01_exModel "aba\n\nab".toList [] =
    .ok "a/y ba\n0:ab 1\n1:ba 0\n\na\tx:0,y:1\nba\n\n\na/y b\n0:ab 1\n\na\tx:0,y:1\nb\n\n".toList := by decide

/-- with normalisation (and a CRLF line end): the line is written from the original characters (the space escaped), the
scores are printed with the normalised ones -/
example : predictCli {} ⟨false, false, true, false, ['D']⟩ C01_exModel "a b\r\n12".toList [] =
    .ok "a\\ b\n0:ａ  -6\n1: ｂ -7\n\n12\n0:１２ -10\n\n".toList := by decide

/-- the hypotheses of `C20_no_crash` / `C20_output_eq_blocks` on the predictor are satisfiable for this model -/
example : (Predictor.new {} C01_exModel true).isOk = true := by decide

end V
