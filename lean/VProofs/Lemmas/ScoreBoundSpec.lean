import VModel.Spec
import VProofs.Lemmas.ScoreBoundBuild
/-!
# The specification score is within the mass of the model (for the C01 overflow bound)

Different occurrences of one entry end at different positions, so they read the entry's weight vector at different
indices: for one boundary every weight is counted at most once (`isum_abs_getZ_cond_le`).  No well-formedness is needed.
-/
namespace V.C01B
open C01L
variable {α : Type} [DecidableEq α] {W : Type}

/-- one entry, any set `p` of end positions, value read at relative position `c0 − k` for end position `k` -/
theorem entry_cond_le (g : W → Option PW) (w : W) (c0 : Int) (n : Nat) (p : Nat → Bool) :
    ((List.range n).map fun (k : Nat) => if p k then iabs (evg g (c0 - (k : Int)) w) else 0).sum
      ≤ ((absW (g w) : Nat) : Int) := by
  unfold evg absW
  cases g w with
  | none =>
    rw [isum_map_eq_zero _ _ (fun k _ => by simp [iabs_zero])]
    omega
  | some pw =>
    simp only [PW.denote]
    have hc : ∀ k ∈ List.range n,
        (if p k then iabs (getZ pw.weight (c0 - (k : Int) - pw.offset)) else 0)
          = (if p k then iabs (getZ pw.weight (c0 - pw.offset - (k : Int))) else 0) := by
      intro k _
      have : c0 - (k : Int) - pw.offset = c0 - pw.offset - (k : Int) := by omega
      rw [this]
    rw [isum_map_congr _ _ _ hc]
    exact isum_abs_getZ_cond_le pw.weight (c0 - pw.offset) n p

/-- the occurrences of one n-gram or word: weights read at `c − e` for the end positions `e` -/
theorem occ_abs_le (gk seq : List α) (w : List Int) (c : Int) :
    iabs ((occEnds gk seq).map fun (e : Nat) => getZ w (c - (e : Int))).sum ≤ ((absSum w : Nat) : Int) := by
  rw [occ_sum]
  refine Int.le_trans (iabs_sum_map_le _ _) ?_
  have hc : ∀ k ∈ List.range seq.length,
      iabs (if gk.isSuffixOf (seq.take (k + 1)) then getZ w (c - ((k + 1 : Nat) : Int)) else 0)
        = (if gk.isSuffixOf (seq.take (k + 1)) then iabs (getZ w (c - 1 - (k : Int))) else 0) := by
    intro k _
    have : c - ((k + 1 : Nat) : Int) = c - 1 - (k : Int) := by omega
    rw [this]
    split <;> simp [iabs_zero]
  rw [isum_map_congr _ _ _ hc]
  exact isum_abs_getZ_cond_le w (c - 1) seq.length (fun k => gk.isSuffixOf (seq.take (k + 1)))

theorem ngramScore_abs_le (Wn : Nat) (tbl : List (NgramData α)) (seq : List α) (b : Nat) :
    iabs (ngramScore Wn tbl seq b) ≤ ((ngramMass tbl : Nat) : Int) := by
  unfold ngramScore ngramMass
  rw [natsum_cast]
  refine Int.le_trans (iabs_sum_map_le _ _) (isum_map_le _ _ _ ?_)
  intro d _
  exact occ_abs_le d.ngram seq d.weights ((b : Int) + 1 + (Wn : Int))

theorem dictScore_abs_le (tbl : List DictWord) (seq : List Char) (b : Nat) :
    iabs (dictScore tbl seq b) ≤ ((dictMass tbl : Nat) : Int) := by
  unfold dictScore dictMass
  rw [natsum_cast]
  refine Int.le_trans (iabs_sum_map_le _ _) (isum_map_le _ _ _ ?_)
  intro d _
  exact occ_abs_le d.word seq d.weights ((b : Int) + 1 + (d.word.length : Int))

/-- every model, every text, every boundary -/
theorem specScore_natAbs_le (m : WModel) (text : List Char) (b : Nat) : (specScore m text b).natAbs ≤ m.mass := by
  have h1 := ngramScore_abs_le m.charW m.charNgrams text b
  have h2 := ngramScore_abs_le m.typeW m.typeNgrams (typesOf text) b
  have h3 := dictScore_abs_le m.dict text b
  unfold specScore WModel.mass
  unfold iabs at h1 h2 h3
  omega

end V.C01B
