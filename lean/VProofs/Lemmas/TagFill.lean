import VModel.Scorer
import VProofs.Lemmas.TagInfo
/-!
# `insertTagWeights` / `fillTagWeights`: the table `tag_weight[token id][rel]` (for C06)
-/
namespace V.C06L
variable {α : Type}

abbrev TW := List (List (List (Nat × WV)))

def cell (tw : TW) (t r : Nat) : List (Nat × WV) := ((tw[t]?.getD [])[r]?).getD []

def rowLen (tw : TW) (t : Nat) : Nat := (tw[t]?.getD []).length

theorem cell_set (tw : TW) (tid rel : Nat) (row : List (List (Nat × WV))) (m : List (Nat × WV)) (x : Nat × WV)
    (h1 : tw[tid]? = some row) (h2 : row[rel]? = some m) (t r : Nat) :
    cell (tw.set tid (row.set rel (m ++ [x]))) t r
      = if (tid, rel) = (t, r) then cell tw t r ++ [x] else cell tw t r := by
  have hlt : tid < tw.length := by
    rcases Nat.lt_or_ge tid tw.length with h | h
    · exact h
    · rw [List.getElem?_eq_none h] at h1; cases h1
  have hlr : rel < row.length := by
    rcases Nat.lt_or_ge rel row.length with h | h
    · exact h
    · rw [List.getElem?_eq_none h] at h2; cases h2
  unfold cell
  rw [List.getElem?_set]
  by_cases ht : tid = t
  · subst ht
    rw [if_pos rfl, if_pos hlt, h1]
    simp only [Option.getD_some]
    rw [List.getElem?_set]
    by_cases hr : rel = r
    · subst hr
      rw [if_pos rfl, if_pos hlr, if_pos rfl, h2]
      rfl
    · rw [if_neg hr, if_neg (by intro e; exact hr (Prod.mk.inj e).2)]
  · rw [if_neg ht, if_neg (by intro e; exact ht (Prod.mk.inj e).1)]

theorem rowLen_set (tw : TW) (tid rel : Nat) (row : List (List (Nat × WV))) (y : List (Nat × WV))
    (h1 : tw[tid]? = some row) (t : Nat) :
    rowLen (tw.set tid (row.set rel y)) t = rowLen tw t := by
  have hlt : tid < tw.length := by
    rcases Nat.lt_or_ge tid tw.length with h | h
    · exact h
    · rw [List.getElem?_eq_none h] at h1; cases h1
  unfold rowLen
  rw [List.getElem?_set]
  by_cases ht : tid = t
  · subst ht
    rw [if_pos rfl, if_pos hlt, h1]
    simp
  · rw [if_neg ht]

/-- what pattern `id` with tag info `info` contributes to cell `(t, r)` -/
def chunkOf (cfg : Cfg) (t r : Nat) (info : TI) (id : Nat) : List (Nat × WV) :=
  (info.filter (fun kv => decide (kv.1 = (t, r)))).map (fun kv => (id, WV.ofList cfg kv.2))

theorem insert_spec (cfg : Cfg) (id : Nat) (info : TI) :
    ∀ (tw tw' : TW), insertTagWeights cfg id info tw = .ok tw' →
      tw'.length = tw.length ∧ (∀ t, rowLen tw' t = rowLen tw t) ∧
      ∀ t r, cell tw' t r = cell tw t r ++ chunkOf cfg t r info id := by
  induction info with
  | nil =>
    intro tw tw' h
    simp only [insertTagWeights, Res.ok.injEq] at h
    subst h
    exact ⟨rfl, fun _ => rfl, fun t r => by simp [chunkOf]⟩
  | cons e rest ih =>
    obtain ⟨⟨tid, rel⟩, w⟩ := e
    intro tw tw' h
    rw [insertTagWeights] at h
    split at h
    · cases h
    · rename_i row h1
      split at h
      · cases h
      · rename_i m h2
        obtain ⟨i1, i2, i3⟩ := ih _ tw' h
        refine ⟨by rw [i1, List.length_set], fun t => by rw [i2, rowLen_set tw tid rel row _ h1], ?_⟩
        intro t r
        rw [i3, cell_set tw tid rel row m _ h1 h2]
        unfold chunkOf
        by_cases hk : (tid, rel) = (t, r)
        · rw [if_pos hk, List.filter_cons_of_pos (by simpa using hk)]
          simp
        · rw [if_neg hk, List.filter_cons_of_neg (by simpa using hk)]

/-- the contributions of the patterns `es` numbered from `id` -/
def chunks (cfg : Cfg) (t r : Nat) : List (List α × PWT) → Nat → List (Nat × WV)
  | [], _ => []
  | e :: es, id => chunkOf cfg t r e.2.tagInfo id ++ chunks cfg t r es (id + 1)

theorem fill_spec (cfg : Cfg) (es : List (List α × PWT)) :
    ∀ (id : Nat) (tw tw' : TW), fillTagWeights cfg es id tw = .ok tw' →
      tw'.length = tw.length ∧ (∀ t, rowLen tw' t = rowLen tw t) ∧
      ∀ t r, cell tw' t r = cell tw t r ++ chunks cfg t r es id := by
  induction es with
  | nil =>
    intro id tw tw' h
    simp only [fillTagWeights, Res.ok.injEq] at h
    subst h
    exact ⟨rfl, fun _ => rfl, fun t r => by simp [chunks]⟩
  | cons e es ih =>
    intro id tw tw' h
    rw [fillTagWeights] at h
    split at h
    · rename_i tw1 h1
      obtain ⟨a1, a2, a3⟩ := insert_spec cfg id e.2.tagInfo tw tw1 h1
      obtain ⟨b1, b2, b3⟩ := ih (id + 1) tw1 tw' h
      refine ⟨by rw [b1, a1], fun t => by rw [b2, a2], fun t r => ?_⟩
      rw [b3, a3, chunks, List.append_assoc]
    · cases h
    · cases h
    · cases h

/-- looking pattern `id` up in a cell filled from an empty table -/
theorem chunks_find (cfg : Cfg) (t r : Nat) (es : List (List α × PWT))
    (hnd : ∀ e ∈ es, (e.2.tagInfo.map Prod.fst).Nodup) :
    ∀ (id0 id : Nat),
      (((chunks cfg t r es id0).reverse.find? (fun e => decide (e.1 = id))).map Prod.snd)
        = if id0 ≤ id then (es[id - id0]?).bind (fun e => (tlookup (t, r) e.2.tagInfo).map (WV.ofList cfg))
          else none := by
  induction es with
  | nil => intro id0 id; simp [chunks]
  | cons e es ih =>
    intro id0 id
    have hch : chunkOf cfg t r e.2.tagInfo id0
        = ((tlookup (t, r) e.2.tagInfo).map fun v => (id0, WV.ofList cfg v)).toList := by
      unfold chunkOf
      rw [filter_key _ (hnd e List.mem_cons_self)]
      cases tlookup (t, r) e.2.tagInfo <;> rfl
    rw [chunks, List.reverse_append, List.find?_append, Option.map_or, ih (fun x hx => hnd x (List.mem_cons_of_mem _ hx)), hch]
    by_cases h1 : id0 + 1 ≤ id
    · rw [if_pos h1, if_pos (by omega)]
      have hidx : id - id0 = (id - (id0 + 1)) + 1 := by omega
      rw [hidx, List.getElem?_cons_succ]
      have hno : (((tlookup (t, r) e.2.tagInfo).map fun v => (id0, WV.ofList cfg v)).toList.reverse.find?
          (fun e => decide (e.1 = id))) = none := by
        cases tlookup (t, r) e.2.tagInfo with
        | none => rfl
        | some v =>
          have : ¬ id0 = id := by omega
          simp [this]
      rw [hno, Option.map_none, Option.or_none]
    · rw [if_neg h1]
      simp only [Option.none_or]
      by_cases h2 : id0 = id
      · subst h2
        rw [if_pos (Nat.le_refl _), Nat.sub_self, List.getElem?_cons_zero]
        show _ = (tlookup (t, r) e.2.tagInfo).map (WV.ofList cfg)
        cases tlookup (t, r) e.2.tagInfo with
        | none => rfl
        | some v => simp
      · rw [if_neg (by omega)]
        cases tlookup (t, r) e.2.tagInfo with
        | none => rfl
        | some v => simp [h2]

theorem cell_replicate (n w t r : Nat) :
    cell (List.replicate n (List.replicate w ([] : List (Nat × WV)))) t r = [] := by
  unfold cell
  rw [List.getElem?_replicate]
  split
  · simp only [Option.getD_some, List.getElem?_replicate]
    split <;> rfl
  · rfl

theorem rowLen_replicate (n w t : Nat) (h : t < n) :
    rowLen (List.replicate n (List.replicate w ([] : List (Nat × WV)))) t = w := by
  unfold rowLen
  rw [List.getElem?_replicate, if_pos h]
  simp

end V.C06L
