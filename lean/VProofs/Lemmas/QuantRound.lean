import VModel.Quantize
/-!
# Lemmas on `rneDiv` / `roundUnits` (correct rounding on the binary64 grid, in units of `2^-1074`)
-/
namespace V.QuantL
open V V.F64

/-- characterisation of round-to-nearest-even of `n/d`: within half a unit, and even on ties -/
theorem rneDiv_spec (n d : Nat) (hd : 0 < d) :
    2 * (d * rneDiv n d) ≤ 2 * n + d ∧ 2 * n ≤ 2 * (d * rneDiv n d) + d ∧
    (2 * n = 2 * (d * rneDiv n d) + d → rneDiv n d % 2 = 0) ∧
    (2 * (d * rneDiv n d) = 2 * n + d → rneDiv n d % 2 = 0) := by
  have h1 : d * (n / d) + n % d = n := Nat.div_add_mod n d
  have h2 : n % d < d := Nat.mod_lt n hd
  unfold rneDiv
  simp only []
  by_cases c1 : 2 * (n % d) < d
  · rw [if_pos c1]
    refine ⟨by omega, by omega, by omega, by omega⟩
  · rw [if_neg c1]
    by_cases c2 : d < 2 * (n % d)
    · rw [if_pos c2, Nat.mul_add, Nat.mul_one]
      refine ⟨by omega, by omega, by omega, by omega⟩
    · rw [if_neg c2]
      by_cases c3 : n / d % 2 = 0
      · rw [if_pos c3]
        refine ⟨by omega, by omega, fun _ => c3, fun _ => c3⟩
      · rw [if_neg c3, Nat.mul_add, Nat.mul_one]
        refine ⟨by omega, by omega, by omega, by omega⟩

/-- rounding to an integer never crosses an integer (from below) -/
theorem rneDiv_le_of_le (n d g : Nat) (hd : 0 < d) (h : n ≤ d * g) : rneDiv n d ≤ g := by
  have hs := (rneDiv_spec n d hd).1
  apply Nat.le_of_not_lt
  intro hlt
  have : d * (g + 1) ≤ d * rneDiv n d := Nat.mul_le_mul_left d hlt
  rw [Nat.mul_add, Nat.mul_one] at this
  omega

/-- rounding to an integer never crosses an integer (from above) -/
theorem le_rneDiv_of_le (n d g : Nat) (hd : 0 < d) (h : d * g ≤ n) : g ≤ rneDiv n d := by
  have hs := (rneDiv_spec n d hd).2.1
  apply Nat.le_of_not_lt
  intro hlt
  have : d * (rneDiv n d + 1) ≤ d * g := Nat.mul_le_mul_left d hlt
  rw [Nat.mul_add, Nat.mul_one] at this
  omega

/-- round-to-nearest-even is monotone in the numerator -/
theorem rneDiv_mono (n₁ n₂ d : Nat) (hd : 0 < d) (h : n₁ ≤ n₂) : rneDiv n₁ d ≤ rneDiv n₂ d := by
  obtain ⟨a1, a2, a3, a4⟩ := rneDiv_spec n₁ d hd
  obtain ⟨b1, b2, b3, b4⟩ := rneDiv_spec n₂ d hd
  apply Nat.le_of_not_lt
  intro hlt
  have : d * (rneDiv n₂ d + 1) ≤ d * rneDiv n₁ d := Nat.mul_le_mul_left d hlt
  rw [Nat.mul_add, Nat.mul_one] at this
  -- forced: n₁ = n₂ is a tie and the two results are consecutive, both even
  have e1 : 2 * (d * rneDiv n₁ d) = 2 * n₁ + d := by omega
  have e2 : 2 * n₂ = 2 * (d * rneDiv n₂ d) + d := by omega
  have p1 := a4 e1
  have p2 := b3 e2
  have : d * rneDiv n₁ d = d * (rneDiv n₂ d + 1) := by rw [Nat.mul_add, Nat.mul_one]; omega
  have := Nat.eq_of_mul_eq_mul_left hd this
  omega

/-- scale invariance -/
theorem rneDiv_scale (n d c : Nat) (hc : 0 < c) : rneDiv (n * c) (d * c) = rneDiv n d := by
  unfold rneDiv
  simp only []
  rw [Nat.mul_div_mul_right n d hc, Nat.mul_mod_mul_right]
  have e1 : (2 * (n % d * c) < d * c) = (2 * (n % d) < d) := by
    rw [← Nat.mul_assoc]; exact propext (Nat.mul_lt_mul_right hc)
  have e2 : (d * c < 2 * (n % d * c)) = (d < 2 * (n % d)) := by
    rw [← Nat.mul_assoc]; exact propext (Nat.mul_lt_mul_right hc)
  simp only [e1, e2]

end V.QuantL
