import VModel.Spec
import VProofs.Lemmas.ScoreModel
/-!
# The type-score cache (`TypeScorerBoundaryCache`) realises the type n-gram part of the specification (C01)
-/
namespace V.C01L

/-! ## the rolling sequence id -/

/-- type code at an integer position, 0 outside the sentence -/
def tz (types : List Nat) (x : Int) : Nat := if 0 ≤ x then types.getD x.toNat 0 else 0

/-- the update of the sequence id, as in `cacheAddScores` -/
def cinc (window : Nat) (types : List Nat) (seqid : Nat) (i : Nat) : Nat :=
  match types[i]? with
  | some ct => (seqid * 8 + ct) % seqMask window
  | none => (seqid * 8) % seqMask window

/-- sequence id after the first `t` positions -/
def seqAt (window : Nat) (types : List Nat) (t : Nat) : Nat := (List.range t).foldl (cinc window types) 0

theorem cacheAddScores_eq (ngrams : List (NgramData Nat)) (window : Nat) (types : List Nat) (nBounds : Nat)
    (buf : List Int) :
    cacheAddScores ngrams window types nBounds buf =
      if padding + nBounds ≤ buf.length then
        .ok (addAt buf padding (cacheAddScores.go ngrams window (cinc window types) (List.range nBounds)
          (seqAt window types window) []))
      else .panic "boundary_scores[padding..padding + boundaries.len()]" := rfl

theorem cinc_eq (window : Nat) (types : List Nat) (seqid i : Nat) :
    cinc window types seqid i = (seqid * 8 + tz types (i : Int)) % 8 ^ (2 * window) := by
  have h0 : (0 : Int) ≤ (i : Int) := by omega
  unfold cinc tz seqMask
  simp only [h0, if_true, Int.toNat_natCast, List.getD_eq_getElem?_getD]
  cases types[i]? <;> simp

theorem seqAt_succ (window : Nat) (types : List Nat) (t : Nat) :
    seqAt window types (t + 1) = (seqAt window types t * 8 + tz types (t : Int)) % 8 ^ (2 * window) := by
  unfold seqAt
  rw [List.range_succ, List.foldl_append]
  simp only [List.foldl_cons, List.foldl_nil]
  exact cinc_eq _ _ _ _

theorem dig_aux (x m r : Nat) : x % 8 ^ (m + (1 + r)) / 8 ^ m % 8 = x / 8 ^ m % 8 := by
  rw [Nat.pow_add, Nat.pow_add, Nat.pow_one, Nat.mod_mul_right_div_self, Nat.mod_mul_right_mod]

theorem dig_step (L s c k : Nat) (hc : c < 8) (hk : k < L) :
    ((s * 8 + c) % 8 ^ L / 8 ^ (L - 1 - k)) % 8 = if k + 1 < L then (s / 8 ^ (L - 1 - (k + 1))) % 8 else c := by
  have hL : L = (L - 1 - k) + (1 + (L - (L - 1 - k) - 1)) := by omega
  have h1 := dig_aux (s * 8 + c) (L - 1 - k) (L - (L - 1 - k) - 1)
  rw [← hL] at h1
  rw [h1]
  by_cases hk1 : k + 1 < L
  · rw [if_pos hk1]
    have hm : L - 1 - k = (L - 1 - (k + 1)) + 1 := by omega
    rw [hm, Nat.pow_succ, Nat.mul_comm (8 ^ _) 8, ← Nat.div_div_eq_div_mul]
    have : (s * 8 + c) / 8 = s := by omega
    rw [this]
  · rw [if_neg hk1]
    have hm : L - 1 - k = 0 := by omega
    rw [hm, Nat.pow_zero, Nat.div_one]
    omega

theorem tz_le (types : List Nat) (ht : ∀ t ∈ types, 1 ≤ t ∧ t ≤ 6) (x : Int) : tz types x ≤ 6 := by
  unfold tz
  split
  · rw [List.getD_eq_getElem?_getD]
    cases h : types[x.toNat]? with
    | none => simp
    | some v => exact (ht v (List.mem_of_getElem? h)).2
  · omega

/-- the digits of the sequence id are the type codes of the last `2·window` positions -/
theorem seqAt_digits (window : Nat) (types : List Nat) (ht : ∀ t ∈ types, 1 ≤ t ∧ t ≤ 6) (t k : Nat)
    (hk : k < 2 * window) :
    (seqAt window types t / 8 ^ (2 * window - 1 - k)) % 8 = tz types ((t : Int) - (2 * window : Nat) + k) := by
  induction t generalizing k with
  | zero =>
    have : ¬ (0 : Int) ≤ ((0 : Nat) : Int) - ((2 * window : Nat) : Int) + (k : Int) := by omega
    unfold tz
    rw [if_neg this]
    simp [seqAt]
  | succ t ih =>
    rw [seqAt_succ]
    rw [dig_step (2 * window) _ _ k (by have := tz_le types ht (t : Int); omega) hk]
    by_cases hk1 : k + 1 < 2 * window
    · rw [if_pos hk1, ih (k + 1) hk1]
      congr 1; omega
    · rw [if_neg hk1]
      congr 1; omega

theorem seqOfId_seqAt (window : Nat) (types : List Nat) (ht : ∀ t ∈ types, 1 ≤ t ∧ t ≤ 6) (t : Nat) :
    seqOfId (2 * window) (seqAt window types t)
      = (List.range (2 * window)).map fun (k : Nat) => tz types ((t : Int) - (2 * window : Nat) + k) := by
  unfold seqOfId
  apply List.map_congr_left
  intro k hk
  exact seqAt_digits window types ht t k (List.mem_range.mp hk)

/-! ## the loop -/

theorem cache_go (ngrams : List (NgramData Nat)) (window : Nat) (types : List Nat) (s len : Nat) (acc : List Int) :
    cacheAddScores.go ngrams window (cinc window types) (List.range' s len) (seqAt window types (s + window)) acc
      = acc ++ (List.range' s len).map fun i => cacheEntry ngrams window (seqAt window types (i + window + 1)) := by
  induction len generalizing s acc with
  | zero => simp [cacheAddScores.go]
  | succ len ih =>
    rw [List.range'_succ, cacheAddScores.go.eq_2]
    have hs : cinc window types (seqAt window types (s + window)) (s + window) = seqAt window types (s + window + 1) := by
      rw [cinc_eq, seqAt_succ]
    rw [hs]
    have := ih (s + 1) (acc ++ [cacheEntry ngrams window (seqAt window types (s + window + 1))])
    have he : s + 1 + window = s + window + 1 := by omega
    rw [he] at this
    rw [this]
    simp

/-! ## sums over integer windows -/

def isumRange (f : Int → Int) (a : Int) (n : Nat) : Int := ((List.range n).map fun (i : Nat) => f (a + i)).sum

theorem isumRange_succ (f : Int → Int) (a : Int) (n : Nat) :
    isumRange f a (n + 1) = isumRange f a n + f (a + n) := by
  unfold isumRange
  rw [List.range_succ, List.map_append, isum_append]
  simp

theorem isumRange_add (f : Int → Int) (a : Int) (p m : Nat) :
    isumRange f a (p + m) = isumRange f a p + isumRange f (a + p) m := by
  induction m with
  | zero => simp [isumRange]
  | succ m ih =>
    rw [← Nat.add_assoc, isumRange_succ, ih, isumRange_succ]
    have : a + ((p + m : Nat) : Int) = a + (p : Int) + (m : Int) := by omega
    rw [this]; omega

theorem isumRange_zero (f : Int → Int) (a : Int) (n : Nat) (h : ∀ i : Nat, i < n → f (a + i) = 0) :
    isumRange f a n = 0 := by
  unfold isumRange
  apply isum_map_eq_zero
  intro i hi
  exact h i (List.mem_range.mp hi)

theorem isumRange_extend (f : Int → Int) (a : Int) (n p q : Nat)
    (h : ∀ x, f x ≠ 0 → a ≤ x ∧ x < a + n) :
    isumRange f (a - p) (p + n + q) = isumRange f a n := by
  have hz : ∀ x, ¬ (a ≤ x ∧ x < a + n) → f x = 0 := by
    intro x hx
    by_cases hf : f x = 0
    · exact hf
    · exact absurd (h x hf) hx
  rw [isumRange_add, isumRange_add]
  have h1 : isumRange f (a - p) p = 0 := isumRange_zero _ _ _ (fun i hi => hz _ (by omega))
  have h3 : isumRange f (a - p + ((p + n : Nat) : Int)) q = 0 := isumRange_zero _ _ _ (fun i hi => hz _ (by omega))
  have h2 : a - (p : Int) + (p : Int) = a := by omega
  rw [h1, h3, h2]; omega

theorem isumRange_window (f : Int → Int) (a1 a2 : Int) (n1 n2 : Nat)
    (h : ∀ x, f x ≠ 0 → (a1 ≤ x ∧ x < a1 + n1) ∧ (a2 ≤ x ∧ x < a2 + n2)) :
    isumRange f a1 n1 = isumRange f a2 n2 := by
  have e1 := isumRange_extend f a1 n1 (a1 - min a1 a2).toNat ((max (a1 + n1) (a2 + n2)) - (a1 + n1)).toNat
    (fun x hx => (h x hx).1)
  have e2 := isumRange_extend f a2 n2 (a2 - min a1 a2).toNat ((max (a1 + n1) (a2 + n2)) - (a2 + n2)).toNat
    (fun x hx => (h x hx).2)
  rw [← e1, ← e2]
  have ha : a1 - ((a1 - min a1 a2).toNat : Int) = a2 - ((a2 - min a1 a2).toNat : Int) := by omega
  have hn : (a1 - min a1 a2).toNat + n1 + ((max (a1 + n1) (a2 + n2)) - (a1 + n1)).toNat
      = (a2 - min a1 a2).toNat + n2 + ((max (a1 + n1) (a2 + n2)) - (a2 + n2)).toNat := by omega
  rw [ha, hn]

/-! ## occurrences as pointwise matches -/

def matchZ (p : List Nat) (z : Int → Nat) (x : Int) : Bool :=
  (List.range p.length).all fun (i : Nat) => z (x + 1 - p.length + i) == p.getD i 0

theorem matchZ_iff (p : List Nat) (z : Int → Nat) (x : Int) :
    matchZ p z x = true ↔ ∀ i : Nat, i < p.length → z (x + 1 - p.length + i) = p.getD i 0 := by
  unfold matchZ
  simp only [List.all_eq_true, List.mem_range, beq_iff_eq]

theorem tz_pos (l : List Nat) (x : Int) (h : 1 ≤ tz l x) : 0 ≤ x ∧ x < l.length := by
  unfold tz at h
  split at h
  · rename_i h0
    refine ⟨h0, ?_⟩
    rcases Nat.lt_or_ge x.toNat l.length with hl | hl
    · omega
    · rw [List.getD_eq_getElem?_getD, List.getElem?_eq_none hl] at h
      simp at h
  · omega

theorem tz_nat (l : List Nat) (j : Nat) : tz l (j : Int) = l.getD j 0 := by
  have : (0 : Int) ≤ (j : Int) := by omega
  simp [tz, this]

theorem getD_pos_of_mem (p : List Nat) (hp : ∀ t ∈ p, 1 ≤ t) (i : Nat) (hi : i < p.length) : 1 ≤ p.getD i 0 := by
  rw [List.getD_eq_getElem?_getD, List.getElem?_eq_getElem hi]
  exact hp _ (List.getElem_mem hi)

theorem suffix_take_matchZ (p l : List Nat) (hp : ∀ t ∈ p, 1 ≤ t) (hl : 1 ≤ p.length) (k : Nat) (hk : k < l.length) :
    p.isSuffixOf (l.take (k + 1)) = matchZ p (tz l) (k : Int) := by
  rw [Bool.eq_iff_iff, List.isSuffixOf_iff_suffix, List.suffix_iff_eq_drop, matchZ_iff]
  have hlen : (l.take (k + 1)).length = k + 1 := by rw [List.length_take]; omega
  rw [hlen]
  constructor
  · intro h i hi
    have hlen2 := congrArg List.length h
    rw [List.length_drop, hlen] at hlen2
    have hle : p.length ≤ k + 1 := by omega
    have hx : (k : Int) + 1 - (p.length : Int) + (i : Int) = ((k + 1 - p.length + i : Nat) : Int) := by omega
    rw [hx, tz_nat, List.getD_eq_getElem?_getD, List.getD_eq_getElem?_getD]
    conv => rhs; rw [h]
    rw [List.getElem?_drop, List.getElem?_take, if_pos (by omega)]
  · intro h
    have h0 := h 0 hl
    have hpos := getD_pos_of_mem p hp 0 hl
    rw [← h0] at hpos
    have hge := (tz_pos l _ hpos).1
    have hle : p.length ≤ k + 1 := by omega
    apply List.ext_getElem?
    intro i
    rw [List.getElem?_drop, List.getElem?_take]
    by_cases hi : i < p.length
    · have hx : (k : Int) + 1 - (p.length : Int) + (i : Int) = ((k + 1 - p.length + i : Nat) : Int) := by omega
      have := h i hi
      rw [hx, tz_nat, List.getD_eq_getElem?_getD, List.getD_eq_getElem?_getD] at this
      rw [if_pos (by omega), List.getElem?_eq_getElem hi]
      rw [List.getElem?_eq_getElem hi] at this
      have hlt : k + 1 - p.length + i < l.length := by omega
      rw [List.getElem?_eq_getElem hlt] at this ⊢
      simp only [Option.getD_some] at this
      rw [this]
    · rw [List.getElem?_eq_none (by omega), if_neg (by omega)]

/-! ## one cache entry -/

/-- contribution of an occurrence of `p` whose last position is `x` -/
def occF (types p : List Nat) (wt : List Int) (b window : Nat) (x : Int) : Int :=
  if matchZ p (tz types) x then getZ wt ((b : Int) + (window : Int) - x) else 0

theorem occF_support (types p : List Nat) (wt : List Int) (b window : Nat) (hp : ∀ t ∈ p, 1 ≤ t)
    (hl : 1 ≤ p.length) (hl2 : p.length ≤ 2 * window) (hwt : wt.length = 2 * window - p.length + 1) (x : Int)
    (h : occF types p wt b window x ≠ 0) :
    ((0 : Int) ≤ x ∧ x < (0 : Int) + (types.length : Nat)) ∧
      ((b : Int) + 1 - (window : Int) ≤ x ∧ x < (b : Int) + 1 - (window : Int) + ((2 * window : Nat) : Int)) := by
  unfold occF at h
  split at h
  · rename_i hm
    have hm := (matchZ_iff _ _ _).mp hm
    have hlast := hm (p.length - 1) (by omega)
    have hpos := getD_pos_of_mem p hp (p.length - 1) (by omega)
    rw [← hlast] at hpos
    have h1 := tz_pos _ _ hpos
    have hlo : ¬ ((b : Int) + (window : Int) - x < 0) := fun hc => h (getZ_neg _ _ hc)
    have hhi : ¬ ((wt.length : Int) ≤ (b : Int) + (window : Int) - x) := fun hc => h (getZ_ge _ _ hc)
    omega
  · exact absurd rfl h

/-- the type codes in the window around boundary `b` -/
def cwin (types : List Nat) (b window : Nat) : List Nat :=
  (List.range (2 * window)).map fun (k : Nat) => tz types ((b : Int) + 1 - (window : Int) + (k : Int))

theorem cwin_length (types : List Nat) (b window : Nat) : (cwin types b window).length = 2 * window := by
  simp [cwin]

theorem tz_cwin (types : List Nat) (b window j : Nat) (hj : j < 2 * window) :
    tz (cwin types b window) (j : Int) = tz types ((b : Int) + 1 - (window : Int) + (j : Int)) := by
  rw [tz_nat, List.getD_eq_getElem?_getD]
  unfold cwin
  rw [List.getElem?_map, List.getElem?_range hj]
  rfl

theorem cwin_term (types p : List Nat) (wt : List Int) (b window : Nat) (hp : ∀ t ∈ p, 1 ≤ t)
    (hl : 1 ≤ p.length) (hwt : wt.length = 2 * window - p.length + 1) (hl2 : p.length ≤ 2 * window)
    (k : Nat) (hk : k < 2 * window) :
    (if p.isSuffixOf ((cwin types b window).take (k + 1)) then
        (wt[2 * window - (k + 1)]?).getD 0 else 0)
      = occF types p wt b window ((b : Int) + 1 - (window : Int) + (k : Int)) := by
  have hwv : (wt[2 * window - (k + 1)]?).getD 0 = getZ wt ((b : Int) + (window : Int) - ((b : Int) + 1 - (window : Int) + (k : Int))) := by
    have hx : (b : Int) + (window : Int) - ((b : Int) + 1 - (window : Int) + (k : Int))
        = ((2 * window - (k + 1) : Nat) : Int) := by omega
    rw [hx, getZ_nat, List.getD_eq_getElem?_getD]
  by_cases hle : p.length ≤ k + 1
  · rw [suffix_take_matchZ p _ hp hl k (by rw [cwin_length]; exact hk), hwv]
    unfold occF
    have hmz : matchZ p (tz (cwin types b window)) (k : Int)
        = matchZ p (tz types) ((b : Int) + 1 - (window : Int) + (k : Int)) := by
      rw [Bool.eq_iff_iff, matchZ_iff, matchZ_iff]
      have hidx : ∀ i : Nat, i < p.length →
          tz (cwin types b window) ((k : Int) + 1 - (p.length : Int) + (i : Int))
            = tz types ((b : Int) + 1 - (window : Int) + (k : Int) + 1 - (p.length : Int) + (i : Int)) := by
        intro i hi
        have hx : (k : Int) + 1 - (p.length : Int) + (i : Int) = ((k + 1 - p.length + i : Nat) : Int) := by omega
        rw [hx, tz_cwin _ _ _ _ (by omega)]
        congr 1; omega
      constructor
      · intro h i hi; rw [← hidx i hi]; exact h i hi
      · intro h i hi; rw [hidx i hi]; exact h i hi
    rw [hmz]
  · have hz : getZ wt ((b : Int) + (window : Int) - ((b : Int) + 1 - (window : Int) + (k : Int))) = 0 :=
      getZ_ge _ _ (by omega)
    rw [hwv, hz]
    unfold occF
    rw [hz]
    simp

theorem types_term (types p : List Nat) (wt : List Int) (b window : Nat) (hp : ∀ t ∈ p, 1 ≤ t)
    (hl : 1 ≤ p.length) (k : Nat) (hk : k < types.length) :
    (if p.isSuffixOf (types.take (k + 1)) then
        getZ wt ((b : Int) + 1 + (window : Int) - ((k + 1 : Nat) : Int)) else 0)
      = occF types p wt b window ((0 : Int) + (k : Int)) := by
  rw [suffix_take_matchZ p _ hp hl k hk]
  unfold occF
  have h0 : (0 : Int) + (k : Int) = (k : Int) := by omega
  have hx : (b : Int) + 1 + (window : Int) - ((k + 1 : Nat) : Int) = (b : Int) + (window : Int) - (k : Int) := by omega
  rw [h0, hx]

/-- per n-gram: the matches inside the window are the occurrences that reach boundary `b` -/
theorem cache_ngram (types p : List Nat) (wt : List Int) (b window : Nat) (hp : ∀ t ∈ p, 1 ≤ t)
    (hl : 1 ≤ p.length) (hl2 : p.length ≤ 2 * window) (hwt : wt.length = 2 * window - p.length + 1) :
    ((List.range (2 * window)).map fun (k : Nat) =>
        if p.isSuffixOf ((cwin types b window).take (k + 1)) then
          (wt[2 * window - (k + 1)]?).getD 0 else 0).sum
      = ((occEnds p types).map fun (e : Nat) => getZ wt ((b : Int) + 1 + (window : Int) - (e : Int))).sum := by
  rw [occ_sum]
  have h1 := isum_map_congr (List.range (2 * window)) _ _
    (fun k hk => cwin_term types p wt b window hp hl hwt hl2 k (List.mem_range.mp hk))
  have h2 := isum_map_congr (List.range types.length) _ _
    (fun k hk => types_term types p wt b window hp hl k (List.mem_range.mp hk))
  rw [h1, h2]
  exact (isumRange_window (occF types p wt b window) 0 ((b : Int) + 1 - (window : Int)) types.length (2 * window)
    (occF_support types p wt b window hp hl hl2 hwt)).symm

theorem isum_range_getElem {β : Type} (l : List β) (G : Nat → Int) (H : β → Int)
    (h : ∀ i d, l[i]? = some d → G i = H d) : ((List.range l.length).map G).sum = (l.map H).sum := by
  induction l generalizing G with
  | nil => simp
  | cons d l ih =>
    rw [List.length_cons, List.range_succ_eq_map, List.map_cons, List.sum_cons, List.map_cons, List.sum_cons,
      List.map_map, h 0 d rfl]
    congr 1
    exact ih (G ∘ Nat.succ) (fun i d' hi => h (i + 1) d' (by simpa using hi))

theorem cacheEntry_correct (ngrams : List (NgramData Nat)) (window : Nat) (types : List Nat)
    (hshape : ∀ d ∈ ngrams, 1 ≤ d.ngram.length ∧ d.ngram.length ≤ 2 * window ∧
      d.weights.length = 2 * window - d.ngram.length + 1 ∧ ∀ t ∈ d.ngram, 1 ≤ t ∧ t ≤ 6)
    (ht : ∀ t ∈ types, 1 ≤ t ∧ t ≤ 6) (b : Nat) :
    cacheEntry ngrams window (seqAt window types (b + window + 1)) = ngramScore window ngrams types b := by
  have hseq : seqOfId (2 * window) (seqAt window types (b + window + 1)) = cwin types b window := by
    rw [seqOfId_seqAt window types ht]
    unfold cwin
    apply List.map_congr_left
    intro k _
    congr 1; omega
  have h7 : (cwin types b window).contains 7 = false := by
    rw [Bool.eq_false_iff]
    intro hc
    rw [List.contains_iff_mem] at hc
    unfold cwin at hc
    obtain ⟨k, _, hk⟩ := List.mem_map.mp hc
    have := tz_le types ht ((b : Int) + 1 - (window : Int) + (k : Int))
    omega
  unfold cacheEntry
  simp only [hseq, h7]
  unfold matchesAll ngramScore
  rw [if_neg (by simp), isum_flatMap, cwin_length, List.length_map]
  refine (isum_map_congr _ _ (fun k => ((List.range ngrams.length).map fun id =>
      if ((ngrams.map (·.ngram)).getD id []).isSuffixOf ((cwin types b window).take (k + 1)) then
        ((ngrams.getD id ⟨[], []⟩).weights[2 * window - (k + 1)]?).getD 0 else 0).sum) ?_).trans ?_
  · intro k _
    rw [isum_filterMap]
    apply isum_map_congr
    intro id _
    by_cases hs : ((ngrams.map (·.ngram)).getD id []).isSuffixOf ((cwin types b window).take (k + 1)) = true
    · simp only [hs, if_true]
      cases (ngrams.getD id ⟨[], []⟩).weights[2 * window - (k + 1)]? <;> rfl
    · simp only [hs]
      rfl
  rw [isum_comm]
  apply isum_range_getElem
  intro id d hid
  have hd : d ∈ ngrams := List.mem_of_getElem? hid
  obtain ⟨h1, h2, h3, h4⟩ := hshape d hd
  have hg1 : (ngrams.map (·.ngram)).getD id [] = d.ngram := by
    rw [List.getD_eq_getElem?_getD, List.getElem?_map, hid]; rfl
  have hg2 : ngrams.getD id ⟨[], []⟩ = d := by
    rw [List.getD_eq_getElem?_getD, hid]; rfl
  simp only [hg1, hg2]
  exact cache_ngram types d.ngram d.weights b window (fun t ht' => (h4 t ht').1) h1 h2 h3

/-- `TypeScorerBoundaryCache::add_scores` -/
theorem cache_correct (ngrams : List (NgramData Nat)) (window : Nat) (types : List Nat)
    (hshape : ∀ d ∈ ngrams, 1 ≤ d.ngram.length ∧ d.ngram.length ≤ 2 * window ∧
      d.weights.length = 2 * window - d.ngram.length + 1 ∧ ∀ t ∈ d.ngram, 1 ≤ t ∧ t ≤ 6)
    (ht : ∀ t ∈ types, 1 ≤ t ∧ t ≤ 6) (nB : Nat) (buf : List Int) (hbuf : padding + nB ≤ buf.length) :
    ∃ r, cacheAddScores ngrams window types nB buf = .ok r ∧ r.length = buf.length ∧
      ∀ b, b < nB →
        r.getD (padding + b) 0 = buf.getD (padding + b) 0 + ngramScore window ngrams types b := by
  rw [cacheAddScores_eq, if_pos hbuf]
  have hgo := cache_go ngrams window types 0 nB []
  rw [Nat.zero_add, ← List.range_eq_range', List.nil_append] at hgo
  rw [hgo]
  have hp7 : padding ≤ buf.length := by omega
  refine ⟨_, rfl, addAt_length _ _ _ hp7, fun b hb => ?_⟩
  rw [addAt_getD _ _ _ hp7 _ (by omega)]
  congr 1
  have hx : ((padding + b : Nat) : Int) - (padding : Int) = (b : Int) := by omega
  rw [hx, getZ_nat, List.getD_eq_getElem?_getD, List.getElem?_map, List.getElem?_range hb]
  exact cacheEntry_correct ngrams window types hshape ht b

end V.C01L
