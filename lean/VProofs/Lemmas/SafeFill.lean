import VProofs.Lemmas.SafeInv
/-!
# `predict` and `fill_tags` inside a history (for C18)

`predict` re-establishes the invariant from any consistent sentence.  `predict_tags` never reads the tags, the tag count
or the stored tag scores of the sentence (it overwrites them), so the C06 theorems — stated for the sentence `predict`
returned with other labels — apply to every sentence a history can reach.
-/
namespace V.C18L

/-! ## `predict` -/

theorem predict_store (p0 : Predictor) (store : Bool) (k : Nat) (s : Sentence) :
    ({ p0 with storeTagScores := store } : Predictor).predict k s = p0.predict k s := rfl

theorem sentOK_of_inv {s : Sentence} (h : Inv s) : SentOK s := ⟨h.text_ne, h.types_eq, h.bounds_len⟩

theorem specBounds_length (m : WModel) (text : List Char) : (specBounds m text).length = text.length - 1 := by
  simp only [specBounds, specScores, List.length_map, List.length_range]

theorem predict_step {env : List Predictor} {s : Sentence} (h : Inv s) (k : Nat) (p : Predictor)
    (hk : env[k]? = some p) (hp : PredWF p) : ∃ s', p.predict k s = .ok s' ∧ InvH env s' := by
  obtain ⟨cfg, m, pt, p0, store, hm, _, hnew, rfl⟩ := hp
  have hs := sentOK_of_inv h
  obtain ⟨s', h1, h2, h3, h4, h5, h6, h7, h8⟩ := C01_scores cfg m hm pt p0 hnew s hs k
  have h1' : ({ p0 with storeTagScores := store } : Predictor).predict k s = .ok s' := h1
  have hpos : 0 < s.text.length := List.length_pos_iff.mpr h.text_ne
  have hbl : s'.bounds.length = s.bounds.length := by
    rw [h3, specBounds_length]
    have := h.bounds_len
    omega
  have hi : Inv s' := by
    refine ⟨?_, ?_, ?_, ?_, ?_⟩
    · rw [h4]; exact h.text_ne
    · rw [h5, h4]; exact h.types_eq
    · rw [hbl, h4]; exact h.bounds_len
    · rw [h6, h7, h4]; exact h.tags_len
    · unfold Sentence.boundaryScores at h2
      split at h2
      · next he => exact Or.inl (List.isEmpty_iff.mp he)
      · split at h2
        · next hle => exact Or.inr hle
        · cases h2
  refine ⟨s', h1', hi, fun k' hk' => ?_⟩
  rw [h8] at hk'
  cases hk'
  exact ⟨_, hk, s, s', hs, h1', rfl, rfl, rfl, rfl, rfl, rfl, rfl⟩

/-! ## `predict_tags` does not read what it overwrites -/

theorem predictTags_frame (p : Predictor) (s : Sentence) (t : List Tag) (k : Nat)
    (ts : List (Option (List (List (List Char)) × List Int))) (hn : p.nTags ≠ 0) :
    p.predictTags { s with tags := t, nTags := k, tagScores := ts } = p.predictTags s := by
  cases htp : p.tagPredictor with
  | none =>
    unfold Predictor.predictTags
    rw [htp]
  | some tpm =>
    rw [C06L.predictTags_eq p tpm _ htp hn, C06L.predictTags_eq p tpm s htp hn]

/-- with no tag categories only the score slots are (re)created -/
theorem predictTags_zero (p : Predictor) (s : Sentence) (h : p.tagPredictor.isSome = true) (hn : p.nTags = 0) :
    p.predictTags s =
      .ok { s with tagScores := if p.storeTagScores then List.replicate s.types.length none else [] } := by
  unfold Predictor.predictTags
  cases htp : p.tagPredictor with
  | none => rw [htp] at h; cases h
  | some tpm => simp only [hn, if_true]

/-- the sentence of a history as a modification of the sentence `predict` returned -/
theorem sent_eq (s s1 : Sentence) (e1 : s.text = s1.text) (e2 : s.types = s1.types) (e3 : s.scores = s1.scores)
    (e4 : s.padding = s1.padding) (e5 : s.cstates = s1.cstates) (e6 : s.tstates = s1.tstates) (e7 : s.pred = s1.pred) :
    s = { ({ s1 with bounds := s.bounds } : Sentence) with tags := s.tags, nTags := s.nTags, tagScores := s.tagScores } := by
  cases s; cases s1
  simp only at e1 e2 e3 e4 e5 e6 e7
  subst e1 e2 e3 e4 e5 e6 e7
  rfl

/-! ## the tag vector has one row per character -/

theorem length_flatMap_const {β γ : Type} (l : List β) (f : β → List γ) (n : Nat) (h : ∀ x ∈ l, (f x).length = n) :
    (l.flatMap f).length = l.length * n := by
  induction l with
  | nil => simp
  | cons a r ih =>
    rw [List.flatMap_cons, List.length_append, h a List.mem_cons_self,
      ih (fun x hx => h x (List.mem_cons_of_mem _ hx)), List.length_cons, Nat.succ_mul, Nat.add_comm]

theorem specAllTags_length (m : WModel) (text : List Char) (bs : List B) :
    (specAllTags m text bs).length = text.length * specNTags m := by
  unfold specAllTags
  rw [length_flatMap_const _ _ (specNTags m), List.length_range]
  intro i _
  split
  · next st en _ => exact C06L.rowVal_length m text (st, en)
  · exact List.length_replicate

/-! ## `Predictor::new` without tag prediction builds no tag predictor -/

theorem new_false_none (cfg : Cfg) (m : WModel) (p : Predictor) (hp : Predictor.new cfg m false = .ok p) :
    p.tagPredictor = none := by
  unfold Predictor.new at hp
  simp only [Bool.false_and, Bool.false_eq_true, if_false] at hp
  split at hp
  · split at hp
    · simp only [Res.ok.injEq] at hp
      rw [← hp]
    · cases hp
    · cases hp
    · cases hp
  · cases hp
  · cases hp
  · cases hp

/-! ## `fill_tags` -/

theorem predict_pred (p : Predictor) (k : Nat) (s0 s1 : Sentence) (h : p.predict k s0 = .ok s1) : s1.pred = some k := by
  unfold Predictor.predict at h
  simp only at h
  split at h
  · split at h
    · simp only [Res.ok.injEq] at h
      rw [← h]
    · cases h
    · cases h
    · cases h
  · cases h
  · cases h
  · cases h

theorem fillTags_step {env : List Predictor} (henv : ∀ p ∈ env, PredWF p) {s : Sentence} (h : InvH env s)
    (hv : ∀ k, s.pred = some k → ∃ p, env[k]? = some p ∧ p.tagPredictor.isSome = true) :
    ∃ s', s.fillTags (fun k => env[k]?) = .ok s' ∧ InvH env s' := by
  unfold Sentence.fillTags
  cases hpr : s.pred with
  | none => exact ⟨s, rfl, h⟩
  | some k =>
    obtain ⟨p, hk, htp⟩ := hv k hpr
    obtain ⟨p', hk', s0, s1, hs0, h1, e1, e2, e3, e4, e5, e6, e7⟩ := h.2 k hpr
    rw [hk] at hk'
    cases hk'
    simp only [hk]
    obtain ⟨cfg, m, pt, p0, store, hm, ht, hnew, rfl⟩ := henv p (List.mem_of_getElem? hk)
    have hpt : pt = true := by
      cases pt with
      | true => rfl
      | false =>
        have := new_false_none cfg m p0 hnew
        have htp' : p0.tagPredictor.isSome = true := htp
        rw [this] at htp'
        cases htp'
    subst hpt
    obtain ⟨_, _, hnt, _⟩ := C06L.new_tag_ok cfg m p0 hnew
    have hnt' : ({ p0 with storeTagScores := store } : Predictor).nTags = specNTags m := hnt
    have h1' : p0.predict k s0 = .ok s1 := h1
    have htext : s1.text = s0.text := (C06L.predict_states p0 k s0 s1 h1').1
    by_cases hn : specNTags m = 0
    · rw [predictTags_zero _ s htp (by rw [hnt', hn])]
      exact ⟨_, rfl, invH_frame h ⟨h.1.text_ne, h.1.types_eq, h.1.bounds_len, h.1.tags_len, h.1.scores_ok⟩
        rfl rfl rfl rfl rfl rfl rfl rfl⟩
    · have hpos : 0 < specNTags m := Nat.pos_of_ne_zero hn
      obtain ⟨_, h3⟩ := C06_predictTags cfg m hm ht p0 hnew store s0 s1 hs0 k h1' s.bounds e7 hpos
      have hse := sent_eq s s1 e1 e2 e3 e4 e5 e6 (hpr.trans (predict_pred _ k s0 s1 h1).symm)
      have hrun : ({ p0 with storeTagScores := store } : Predictor).predictTags s = _ :=
        (congrArg _ hse).trans ((predictTags_frame _ _ _ _ _ (by rw [hnt']; exact hn)).trans h3)
      refine ⟨_, hrun, ⟨?_, ?_, ?_, ?_, ?_⟩, fun k' hk' => ?_⟩
      · show s1.text ≠ []
        rw [← e1]; exact h.1.text_ne
      · show s1.types = typesOf s1.text
        rw [← e1, ← e2]; exact h.1.types_eq
      · show s.bounds.length + 1 = s1.text.length
        rw [← e1]; exact h.1.bounds_len
      · show (specAllTags m s0.text s.bounds).length = s1.text.length * specNTags m
        rw [specAllTags_length, htext]
      · show s1.scores = [] ∨ s1.padding + s.bounds.length ≤ s1.scores.length
        rw [← e3, ← e4]; exact h.1.scores_ok
      · have hk'' : s1.pred = some k' := hk'
        rw [predict_pred _ k s0 s1 h1] at hk''
        cases hk''
        exact ⟨_, hk, s0, s1, hs0, h1, rfl, rfl, rfl, rfl, rfl, rfl, e7⟩

end V.C18L
