import VModel.Spec
import VProofs.Lemmas.TagFinal
import VProofs.Lemmas.ScoreWindow0
/-!
# Window size 0 on the tag side (C06, C11)

The tag loop (`TagToken`, `TagLoop`, `TagMain`) is already stated for an arbitrary window: `PredOK` / `TagScorerOK` carry the
window only as the minimum number of rows of the tag-weight table (`max(window + 1, rel + 1)` rows), and no lemma after
`predOK_of_new` asks for `1 ≤ window`.  The lower bound was used in exactly two places:

* `charScorer_tag` / `typeScorer_tag` (`TagNew`), to discard the `if window = 0 then { m with …Ngrams := [] } else m` at the
  head of the two constructors — redone here under "window = 0 → list empty" and transferred to arbitrary models through
  `charScorerNew_drop` / `typeScorerNew_drop`, as in `ScoreWindow0`;
* `predictTags_full` (`TagFinal`), through `predict_correct`, of which only the LENGTH of the predicted boundary vector is
  used — `predict_correct0` gives the same length.

The specification of the tags (`allTags`, `allScores`, `specNTags`) reads `m.tagModels` only, so it is the one of `m`
itself: the boundary n-grams of a switched-off kind play no part in it, dropped or not.
-/
namespace V.C06L
open V.C01L

/-! ## the two constructors build tag-aware scorers whatever the window is -/

/-- `charScorer_tag` without the lower bound on the window, for models whose character n-grams are absent when the window
is 0 -/
theorem charScorer_tag_gen (cfg : Cfg) (hcfg : cfg.tagPred = true) (m : WModel)
    (hE : m.charW = 0 → m.charNgrams = [])
    (T : List (List (TagNgramData Char))) (hTne : T ≠ []) (L : Nat → Nat)
    (hT : ∀ i tm, T[i]? = some tm → ∀ d ∈ tm, ∀ w ∈ d.weights, w.weights.length = L i)
    (cs : Option (PmaScorer Char)) (h : charScorerNew cfg m T = .ok cs) :
    (cs = none ∧ ∀ tm ∈ T, tm = []) ∨ (∃ sc, cs = some sc ∧ TagScorerOK cfg m.charW T L sc) := by
  simp only [charScorerNew, charModel_if m hE] at h
  have hTe : T.isEmpty = false := by
    cases T with
    | nil => exact absurd rfl hTne
    | cons _ _ => rfl
  split at h
  · rename_i hcond
    simp only [Res.ok.injEq] at h
    left
    refine ⟨h.symm, ?_⟩
    apply all_isEmpty
    revert hcond
    simp only [hcfg]
    cases m.charNgrams.isEmpty <;> cases m.dict.isEmpty <;> simp
  · split at h
    · cases h
    · rw [if_pos (by simp [hcfg, hTe])] at h
      obtain ⟨sc, hsc, hcs'⟩ := res_map_ok _ _ _ h
      right
      refine ⟨sc, hcs', ?_⟩
      refine buildBoundaryTag_tagOK cfg m.charW L _ T ?_ hT sc hsc
      intro e he
      rcases List.mem_append.mp he with he | he
      · obtain ⟨d, _, rfl⟩ := List.mem_map.mp he; rfl
      · obtain ⟨d, _, rfl⟩ := List.mem_map.mp he; rfl

/-- any model, any window: the character scorer of a tag-predicting predictor is tag-aware with the tag n-grams `T`, its
tag-weight table sized for the model's own window (0 included) -/
theorem charScorer_tag0 (cfg : Cfg) (hcfg : cfg.tagPred = true) (m : WModel)
    (T : List (List (TagNgramData Char))) (hTne : T ≠ []) (L : Nat → Nat)
    (hT : ∀ i tm, T[i]? = some tm → ∀ d ∈ tm, ∀ w ∈ d.weights, w.weights.length = L i)
    (cs : Option (PmaScorer Char)) (h : charScorerNew cfg m T = .ok cs) :
    (cs = none ∧ ∀ tm ∈ T, tm = []) ∨ (∃ sc, cs = some sc ∧ TagScorerOK cfg m.charW T L sc) := by
  by_cases h0 : m.charW = 0
  · rw [charScorerNew_drop cfg m T h0] at h
    exact charScorer_tag_gen cfg hcfg { m with charNgrams := [] } (fun _ => rfl) T hTne L hT cs h
  · exact charScorer_tag_gen cfg hcfg m (fun h => absurd h h0) T hTne L hT cs h

theorem typeScorer_tag_gen (cfg : Cfg) (hcfg : cfg.tagPred = true) (m : WModel)
    (hE : m.typeW = 0 → m.typeNgrams = [])
    (T : List (List (TagNgramData Nat))) (hTne : T ≠ []) (L : Nat → Nat)
    (hT : ∀ i tm, T[i]? = some tm → ∀ d ∈ tm, ∀ w ∈ d.weights, w.weights.length = L i)
    (ts : Option TypeScorer) (h : typeScorerNew cfg m T = .ok ts) :
    (ts = none ∧ ∀ tm ∈ T, tm = []) ∨ (∃ sc, ts = some (.pma sc) ∧ TagScorerOK cfg m.typeW T L sc) := by
  simp only [typeScorerNew, typeModel_if m hE] at h
  have hTe : T.isEmpty = false := by
    cases T with
    | nil => exact absurd rfl hTne
    | cons _ _ => rfl
  split at h
  · rename_i hcond
    simp only [Res.ok.injEq] at h
    left
    refine ⟨h.symm, ?_⟩
    apply all_isEmpty
    revert hcond
    simp only [hcfg]
    cases m.typeNgrams.isEmpty <;> simp
  · rw [if_pos (by simp [hcfg, hTe])] at h
    obtain ⟨sc, hsc, hcs'⟩ := res_map_ok _ _ _ h
    right
    refine ⟨sc, hcs', ?_⟩
    refine buildBoundaryTag_tagOK cfg m.typeW L _ T ?_ hT sc hsc
    intro e he
    obtain ⟨d, _, rfl⟩ := List.mem_map.mp he; rfl

theorem typeScorer_tag0 (cfg : Cfg) (hcfg : cfg.tagPred = true) (m : WModel)
    (T : List (List (TagNgramData Nat))) (hTne : T ≠ []) (L : Nat → Nat)
    (hT : ∀ i tm, T[i]? = some tm → ∀ d ∈ tm, ∀ w ∈ d.weights, w.weights.length = L i)
    (ts : Option TypeScorer) (h : typeScorerNew cfg m T = .ok ts) :
    (ts = none ∧ ∀ tm ∈ T, tm = []) ∨ (∃ sc, ts = some (.pma sc) ∧ TagScorerOK cfg m.typeW T L sc) := by
  by_cases h0 : m.typeW = 0
  · rw [typeScorerNew_drop cfg m T h0] at h
    exact typeScorer_tag_gen cfg hcfg { m with typeNgrams := [] } (fun _ => rfl) T hTne L hT ts h
  · exact typeScorer_tag_gen cfg hcfg m (fun h => absurd h h0) T hTne L hT ts h

/-! ## `Predictor.new` and `predict` -/

/-- `predOK_of_new` for any windows: no requirement on the boundary model at all -/
theorem predOK_of_new0 (cfg : Cfg) (m : WModel) (hW : WFT m)
    (p : Predictor) (hp : Predictor.new cfg m true = .ok p) (hn : 0 < specNTags m) : PredOK cfg m p := by
  obtain ⟨hcfg, h1, h2, h3, h4⟩ := new_tag_ok cfg m p hp
  have hne := tagModels_ne_nil m hn
  refine ⟨h1, h2, ?_, ?_⟩
  · refine charScorer_tag0 cfg hcfg m _ (by simpa using hne) (Lm m) ?_ p.charScorer h3
    intro i tmc hi d hd w hw
    rw [List.getElem?_map] at hi
    cases htm : m.tagModels[i]? with
    | none => rw [htm] at hi; cases hi
    | some tm =>
      rw [htm] at hi
      simp only [Option.map_some, Option.some.injEq] at hi
      subst hi
      rw [Lm_eq m i tm htm]
      exact hW.char_ok tm (List.mem_of_getElem? htm) d hd w hw
  · refine typeScorer_tag0 cfg hcfg m _ (by simpa using hne) (Lm m) ?_ p.typeScorer h4
    intro i tmc hi d hd w hw
    rw [List.getElem?_map] at hi
    cases htm : m.tagModels[i]? with
    | none => rw [htm] at hi; cases hi
    | some tm =>
      rw [htm] at hi
      simp only [Option.map_some, Option.some.injEq] at hi
      subst hi
      rw [Lm_eq m i tm htm]
      exact hW.type_ok tm (List.mem_of_getElem? htm) d hd w hw

/-- `predictTags_full` for windows that may be 0: the shape requirements on the n-grams of a kind apply only when that kind's
window is at least 1; the tag specification is that of `m` itself -/
theorem predictTags_full0 (cfg : Cfg) (m : WModel)
    (hcs : 1 ≤ m.charW → ∀ d ∈ m.charNgrams, 1 ≤ d.ngram.length ∧ d.ngram.length ≤ 2 * m.charW ∧
      d.weights.length = 2 * m.charW - d.ngram.length + 1)
    (hts : 1 ≤ m.typeW → ∀ d ∈ m.typeNgrams, 1 ≤ d.ngram.length ∧ d.ngram.length ≤ 2 * m.typeW ∧
      d.weights.length = 2 * m.typeW - d.ngram.length + 1 ∧ ∀ t ∈ d.ngram, 1 ≤ t ∧ t ≤ 6)
    (hds : ∀ d ∈ m.dict, 1 ≤ d.word.length) (hW : WFT m)
    (p : Predictor) (hp : Predictor.new cfg m true = .ok p) (store : Bool)
    (s s1 : Sentence) (hne : s.text ≠ []) (htypes : s.types = typesOf s.text)
    (hbl0 : s.bounds.length + 1 = s.text.length) (pid : Nat) (h1 : p.predict pid s = .ok s1)
    (bs : List B) (hbs : bs.length = s1.bounds.length) (hn : 0 < specNTags m) :
    bs.length + 1 = s.text.length ∧
    ({ p with storeTagScores := store } : Predictor).predictTags { s1 with bounds := bs }
      = .ok { s1 with bounds := bs, nTags := specNTags m, tags := allTags m s.text bs,
                      tagScores := if store = true then allScores cfg m s.text bs else [] } := by
  have hP := predOK_of_new0 cfg m hW p hp hn
  obtain ⟨hst, hty⟩ := stOK_of_predict cfg m p hP pid s s1 htypes h1
  obtain ⟨s', e1, _, e2, _⟩ := predict_correct0 cfg m hcs hts hds true p hp s hne htypes hbl0 pid
  rw [h1] at e1
  simp only [Res.ok.injEq] at e1
  subst e1
  have hlen : 0 < s.text.length := by
    cases h : s.text with
    | nil => exact absurd h hne
    | cons _ _ => simp
  have hbl : bs.length + 1 = s.text.length := by
    rw [hbs, e2]
    simp only [specBounds, specScores, List.length_map, List.length_range]
    omega
  exact ⟨hbl, predictTags_spec cfg m p hP hW s.text hlen s1 hst
    (by rw [hty, htypes]; simp [typesOf]) bs hbl hn store⟩

/-- tagging after prediction never fails, whatever the windows are and whether or not the model has tag categories (for C11) -/
theorem predictTags_total0 (cfg : Cfg) (m : WModel)
    (hcs : 1 ≤ m.charW → ∀ d ∈ m.charNgrams, 1 ≤ d.ngram.length ∧ d.ngram.length ≤ 2 * m.charW ∧
      d.weights.length = 2 * m.charW - d.ngram.length + 1)
    (hts : 1 ≤ m.typeW → ∀ d ∈ m.typeNgrams, 1 ≤ d.ngram.length ∧ d.ngram.length ≤ 2 * m.typeW ∧
      d.weights.length = 2 * m.typeW - d.ngram.length + 1 ∧ ∀ t ∈ d.ngram, 1 ≤ t ∧ t ≤ 6)
    (hds : ∀ d ∈ m.dict, 1 ≤ d.word.length) (hW : WFT m)
    (p : Predictor) (hp : Predictor.new cfg m true = .ok p) (store : Bool)
    (s s1 : Sentence) (hne : s.text ≠ []) (htypes : s.types = typesOf s.text)
    (hbl0 : s.bounds.length + 1 = s.text.length) (pid : Nat) (h1 : p.predict pid s = .ok s1) :
    ∃ s2, ({ p with storeTagScores := store } : Predictor).predictTags s1 = .ok s2 := by
  rcases Nat.eq_zero_or_pos (specNTags m) with hn | hn
  · obtain ⟨_, h1', h2', _⟩ := new_tag_ok cfg m p hp
    unfold Predictor.predictTags
    simp only [h1', h2', hn, if_true]
    exact ⟨_, rfl⟩
  · obtain ⟨_, h3⟩ := predictTags_full0 cfg m hcs hts hds hW p hp store s s1 hne htypes hbl0 pid h1 s1.bounds rfl hn
    exact ⟨_, h3⟩

end V.C06L
