import VProofs.Lemmas.CsvFileStrict
/-!
# CsvFile helper lemmas, part 6: the spellings an editor produces — any field in quotes, LF / CR LF / CR terminators, blank
lines before, between and after the records, no terminator after the last record
-/
namespace V.C19F
open V

/-- only CR and LF -/
def IsBlank (s : List Char) : Prop := ∀ c ∈ s, c = '\n' ∨ c = '\r'

/-- a file in a variant spelling: leading blank lines, records (`(quoted?, field)` lists) each followed by a non-empty run of
CR / LF, and possibly a last record without terminator (`last = []`: there is none) -/
def csvFileV (lead : List Char) (recs : List (List (Bool × List Char) × List Char)) (last : List (Bool × List Char)) :
    List Char :=
  lead ++ (recs.flatMap (fun r => csvJoinV r.1 ++ r.2) ++ csvJoinV last)

/-- the record is not spelled as an empty line and its terminator is a non-empty run of CR / LF -/
def RecVOK (r : List (Bool × List Char) × List Char) : Prop :=
  r.1 ≠ [] ∧ r.1 ≠ [(false, [])] ∧ r.2 ≠ [] ∧ IsBlank r.2

theorem go_last (last : List (Bool × List Char)) (hamb : last ≠ [(false, [])]) :
    csvGo .startRecord [] [] (csvJoinV last) = if last = [] then [] else [last.map (·.2)] := by
  by_cases h : last = []
  · subst h; rfl
  · rw [if_neg h]
    have := go_recordV last h hamb [] trivial
    simpa [afterRec] using this

theorem strict_last (last : List (Bool × List Char)) (hamb : last ≠ [(false, [])]) :
    csvStrictGo .startRecord (csvJoinV last) = true := by
  by_cases h : last = []
  · subst h; rfl
  · have := strict_recordV last h hamb [] trivial
    simpa [sAfterRec] using this

theorem go_recV (r : List (Bool × List Char) × List Char) (hr : RecVOK r) (rest : List Char) :
    csvGo .startRecord [] [] ((csvJoinV r.1 ++ r.2) ++ rest) = r.1.map (·.2) :: csvGo .startRecord [] [] rest := by
  obtain ⟨h1, h2, h3, h4⟩ := hr
  cases ht : r.2 with
  | nil => exact absurd ht h3
  | cons t ts =>
    rw [ht] at h4
    have htt : t = '\n' ∨ t = '\r' := h4 t (by simp)
    rw [List.append_assoc, List.cons_append, go_recordV r.1 h1 h2 _ (show RecEnd (t :: _) from htt)]
    show _ :: csvGo .startRecord [] [] (ts ++ rest) = _
    rw [go_blank ts (fun c hc => h4 c (List.mem_cons_of_mem _ hc))]

theorem strict_recV (r : List (Bool × List Char) × List Char) (hr : RecVOK r) (rest : List Char) :
    csvStrictGo .startRecord ((csvJoinV r.1 ++ r.2) ++ rest) = csvStrictGo .startRecord rest := by
  obtain ⟨h1, h2, h3, h4⟩ := hr
  cases ht : r.2 with
  | nil => exact absurd ht h3
  | cons t ts =>
    rw [ht] at h4
    have htt : t = '\n' ∨ t = '\r' := h4 t (by simp)
    rw [List.append_assoc, List.cons_append, strict_recordV r.1 h1 h2 _ (show RecEnd (t :: _) from htt)]
    show csvStrictGo .startRecord (ts ++ rest) = _
    rw [strict_blank ts (fun c hc => h4 c (List.mem_cons_of_mem _ hc))]

theorem go_recsV : ∀ (recs : List (List (Bool × List Char) × List Char)), (∀ r ∈ recs, RecVOK r) → ∀ rest : List Char,
    csvGo .startRecord [] [] (recs.flatMap (fun r => csvJoinV r.1 ++ r.2) ++ rest) =
      recs.map (fun r => r.1.map (·.2)) ++ csvGo .startRecord [] [] rest := by
  intro recs
  induction recs with
  | nil => intro _ rest; rfl
  | cons r rs ih =>
    intro h rest
    rw [List.flatMap_cons, List.append_assoc, go_recV r (h r (by simp)),
      ih (fun x hx => h x (List.mem_cons_of_mem _ hx))]
    rfl

theorem strict_recsV : ∀ (recs : List (List (Bool × List Char) × List Char)), (∀ r ∈ recs, RecVOK r) →
    ∀ rest : List Char,
    csvStrictGo .startRecord (recs.flatMap (fun r => csvJoinV r.1 ++ r.2) ++ rest) = csvStrictGo .startRecord rest := by
  intro recs
  induction recs with
  | nil => intro _ rest; rfl
  | cons r rs ih =>
    intro h rest
    rw [List.flatMap_cons, List.append_assoc, strict_recV r (h r (by simp)),
      ih (fun x hx => h x (List.mem_cons_of_mem _ hx))]

theorem go_fileV (lead : List Char) (recs : List (List (Bool × List Char) × List Char)) (last : List (Bool × List Char))
    (hlead : IsBlank lead) (hrecs : ∀ r ∈ recs, RecVOK r) (hlast : last ≠ [(false, [])]) :
    csvGo .startRecord [] [] (csvFileV lead recs last) =
      recs.map (fun r => r.1.map (·.2)) ++ (if last = [] then [] else [last.map (·.2)]) := by
  unfold csvFileV
  rw [go_blank lead hlead, go_recsV recs hrecs, go_last last hlast]

theorem strict_fileV (lead : List Char) (recs : List (List (Bool × List Char) × List Char))
    (last : List (Bool × List Char)) (hlead : IsBlank lead) (hrecs : ∀ r ∈ recs, RecVOK r)
    (hlast : last ≠ [(false, [])]) : csvStrictGo .startRecord (csvFileV lead recs last) = true := by
  unfold csvFileV
  rw [strict_blank lead hlead, strict_recsV recs hrecs, strict_last last hlast]

end V.C19F
