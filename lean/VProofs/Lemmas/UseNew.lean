import VProofs.C01
import VProofs.C06
/-!
# `Predictor.new` accepts every well-formed model (for C11): the converse direction of `ScoreModel`/`TagNew`

`new` fails only in `charScorerNew` / `typeScorerNew`: the automaton cannot be built (no pattern, an empty pattern, a
repeated pattern), a dictionary word is too long, or `insertTagWeights` indexes outside the tag table.
-/
namespace V.C11L
open V.C01L V.C06L
variable {α : Type} [DecidableEq α] {W : Type}

/-! ## the tag table -/

/-- every key of a tag-info map addresses a cell of an `n × w` table -/
def KeysIn (n w : Nat) (l : TI) : Prop := ∀ K ∈ l.map Prod.fst, K.1 < n ∧ K.2 < w

theorem getElem?_of_rowLen (tw : TW) (n w t : Nat) (hlen : tw.length = n) (hrow : ∀ t, t < n → rowLen tw t = w)
    (ht : t < n) : ∃ row, tw[t]? = some row ∧ row.length = w := by
  have hlt : t < tw.length := by omega
  refine ⟨tw[t], List.getElem?_eq_getElem hlt, ?_⟩
  have := hrow t ht
  unfold rowLen at this
  rw [List.getElem?_eq_getElem hlt] at this
  simpa using this

theorem insert_total (cfg : Cfg) (id n w : Nat) (info : TI) :
    ∀ tw : TW, tw.length = n → (∀ t, t < n → rowLen tw t = w) → KeysIn n w info →
      ∃ tw', insertTagWeights cfg id info tw = .ok tw' := by
  induction info with
  | nil => intro tw _ _ _; exact ⟨tw, rfl⟩
  | cons e rest ih =>
    obtain ⟨⟨tid, rel⟩, v⟩ := e
    intro tw hlen hrow hk
    have hk0 := hk (tid, rel) (by simp)
    obtain ⟨row, h1, hrl⟩ := getElem?_of_rowLen tw n w tid hlen hrow hk0.1
    have hr : rel < row.length := by rw [hrl]; exact hk0.2
    rw [insertTagWeights]
    simp only [h1, List.getElem?_eq_getElem hr]
    apply ih
    · rw [List.length_set]; exact hlen
    · intro t ht
      rw [rowLen_set tw tid rel row _ h1]; exact hrow t ht
    · intro K hK
      exact hk K (by simp only [List.map_cons, List.mem_cons]; exact Or.inr hK)

omit [DecidableEq α] in
theorem fill_total (cfg : Cfg) (n w : Nat) (es : List (List α × PWT)) (hes : ∀ e ∈ es, KeysIn n w e.2.tagInfo) :
    ∀ (id : Nat) (tw : TW), tw.length = n → (∀ t, t < n → rowLen tw t = w) →
      ∃ tw', fillTagWeights cfg es id tw = .ok tw' := by
  induction es with
  | nil => intro id tw _ _; exact ⟨tw, rfl⟩
  | cons e es ih =>
    intro id tw hlen hrow
    obtain ⟨tw1, h1⟩ := insert_total cfg id n w e.2.tagInfo tw hlen hrow (hes e List.mem_cons_self)
    obtain ⟨a1, a2, _⟩ := insert_spec cfg id e.2.tagInfo tw tw1 h1
    rw [fillTagWeights]
    simp only [h1]
    exact ih (fun x hx => hes x (List.mem_cons_of_mem _ hx)) (id + 1) tw1 (by rw [a1]; exact hlen)
      (fun t ht => by rw [a2]; exact hrow t ht)

theorem KeysIn_add (n w : Nat) (a b : PWT) (ha : KeysIn n w a.tagInfo) (hb : KeysIn n w b.tagInfo) :
    KeysIn n w (a.add b).tagInfo := by
  intro K hK
  rcases (mem_PWT_add_keys a b K).mp hK with h | h
  · exact ha K h
  · exact hb K h

/-! ## the automaton is built -/

theorem pmaBuildOk_intro (pats : List (List α)) (h0 : pats ≠ []) (h1 : [] ∉ pats) (h2 : pats.Nodup) :
    pmaBuildOk pats = true := by
  unfold pmaBuildOk
  have a : pats.isEmpty = false := by
    cases pats with
    | nil => exact absurd rfl h0
    | cons _ _ => rfl
  have b : pats.all (fun p => !p.isEmpty) = true := by
    rw [List.all_eq_true]
    intro p hp
    cases p with
    | nil => exact absurd hp h1
    | cons _ _ => rfl
  simp [a, b, h2]

/-- the merged keys of a non-empty list of entries with non-empty keys form a valid pattern set -/
theorem addAll_buildOk (add : W → W → W) (es : List (List α × W)) (h0 : es ≠ []) (h1 : ∀ e ∈ es, e.1 ≠ []) :
    pmaBuildOk ((addAll add es []).map Prod.fst) = true := by
  obtain ⟨hnd, hkeys, _, _⟩ := addAll_correct add (es.head (by exact h0)).2 (fun _ => 0) (fun _ _ => True)
    (fun _ _ _ _ _ => trivial) (fun _ _ _ _ _ => rfl) es (fun _ _ => trivial)
  apply pmaBuildOk_intro _ ?_ ?_ hnd
  · cases es with
    | nil => exact absurd rfl h0
    | cons e r =>
      intro hc
      have : e.1 ∈ (addAll add (e :: r) []).map Prod.fst := (hkeys e.1).mpr (by simp)
      rw [hc] at this
      cases this
  · intro hc
    obtain ⟨e, he, hk⟩ := List.mem_map.mp ((hkeys []).mp hc)
    exact h1 e he hk

theorem buildBoundary_total (cfg : Cfg) (entries : List (List α × PW))
    (hok : pmaBuildOk (entries.map Prod.fst) = true) : ∃ sc, buildBoundary cfg entries = .ok sc := by
  unfold buildBoundary
  simp only [Merge.mergeEntries_keys, hok, if_true]
  exact ⟨_, rfl⟩

/-- members of the merged list carry the merged weight of their key -/
theorem mem_mergeEntries (add : W → W → W) (d : W) (entries : List (List α × W)) (hnd : (entries.map Prod.fst).Nodup)
    (e : List α × W) (he : e ∈ Merge.mergeEntries add d entries) :
    e.1 ∈ entries.map Prod.fst ∧ e.2 = Merge.lookupD d (Merge.mergeEntries add d entries) e.1 := by
  have hk := Merge.mergeEntries_keys add d entries
  refine ⟨by rw [← hk]; exact List.mem_map.mpr ⟨e, he, rfl⟩, ?_⟩
  exact (Merge.lookupD_of_mem d _ (by rw [hk]; exact hnd) e he).symm

theorem buildBoundaryTag_total (cfg : Cfg) (window n : Nat) (entries : List (List α × PWT))
    (hok : pmaBuildOk (entries.map Prod.fst) = true)
    (hkeys : ∀ e ∈ entries, ∀ K ∈ e.2.tagInfo.map Prod.fst, K.1 < n) :
    ∃ sc, buildBoundaryTag cfg window n entries = .ok sc := by
  obtain ⟨hne, hnd⟩ := pmaBuildOk_spec _ hok
  have hent : ∀ e ∈ entries, KeysIn n (nRelOf window entries) e.2.tagInfo := by
    intro e he K hK
    exact ⟨hkeys e he K hK, nRelOf_key window entries e he K hK⟩
  have hmerged : ∀ e ∈ Merge.mergeEntries PWT.add PWT.empty entries, KeysIn n (nRelOf window entries) e.2.tagInfo := by
    intro e he
    obtain ⟨h1, h2⟩ := mem_mergeEntries PWT.add PWT.empty entries hnd e he
    have := (Merge.mergeEntries_correct PWT.add PWT.empty (fun _ => 0)
      (fun _ t => KeysIn n (nRelOf window entries) t.tagInfo)
      (fun _ _ a b _ ha hb => KeysIn_add _ _ a b ha hb) (fun _ _ _ _ _ _ _ => rfl) entries hnd hne hent e.1 h1).1
    rw [← h2] at this
    exact this
  obtain ⟨tw, htw⟩ := fill_total cfg n (nRelOf window entries) _ hmerged 0
    (List.replicate n (List.replicate (nRelOf window entries) ([] : List (Nat × WV))))
    (by simp) (fun t ht => rowLen_replicate n _ t ht)
  unfold nRelOf at htw
  unfold buildBoundaryTag
  simp only [htw, Merge.mergeEntries_keys, hok, if_true]
  exact ⟨_, rfl⟩

/-! ## the two scorers -/

theorem res_map_total {β γ : Type} (f : β → γ) (r : Res β) (h : ∃ a, r = .ok a) : ∃ c, r.map f = .ok c := by
  obtain ⟨a, rfl⟩ := h
  exact ⟨f a, rfl⟩

omit [DecidableEq α] in
theorem tagEntries_ne_nil (T : List (List (TagNgramData α))) (hw : ∀ tm ∈ T, ∀ d ∈ tm, d.weights ≠ [])
    (hall : T.all (·.isEmpty) = false) : tagEntries T ≠ [] := by
  have : ∃ tm ∈ T, tm ≠ [] := by
    false_or_by_contra
    rename_i hc
    have : T.all (·.isEmpty) = true := by
      rw [List.all_eq_true]
      intro tm htm
      cases tm with
      | nil => rfl
      | cons d r => exact absurd ⟨d :: r, htm, by simp⟩ hc
    rw [this] at hall
    cases hall
  obtain ⟨tm, htm, hne⟩ := this
  obtain ⟨i, hi, hget⟩ := List.mem_iff_getElem.mp htm
  cases tm with
  | nil => exact absurd rfl hne
  | cons d r =>
    have hdw := hw _ htm d List.mem_cons_self
    cases hws : d.weights with
    | nil => exact absurd hws hdw
    | cons w ws =>
      have := tagEntries_mem T i (d :: r) d w (by rw [List.getElem?_eq_getElem hi, hget]) List.mem_cons_self
        (by rw [hws]; exact List.mem_cons_self)
      intro hc
      rw [hc] at this
      cases this

/-- a tag-aware scorer is built from any non-empty set of entries with non-empty keys -/
theorem tagBuild_total (cfg : Cfg) (window : Nat) (bes : List (List α × PWT)) (T : List (List (TagNgramData α)))
    (hbes : ∀ e ∈ bes, e.1 ≠ [] ∧ e.2.tagInfo = []) (hT : ∀ tm ∈ T, ∀ d ∈ tm, d.ngram ≠ [])
    (hne : bes ++ tagEntries T ≠ []) :
    ∃ sc, buildBoundaryTag cfg window T.length (addAll PWT.add (bes ++ tagEntries T) []) = .ok sc := by
  have hent : ∀ e ∈ bes ++ tagEntries T, e.1 ≠ [] ∧ ∀ K ∈ e.2.tagInfo.map Prod.fst, K.1 < T.length := by
    intro e he
    rcases List.mem_append.mp he with he | he
    · refine ⟨(hbes e he).1, ?_⟩
      rw [(hbes e he).2]
      intro K hK; cases hK
    · obtain ⟨i, tm, d, w, hi, hd, hw, rfl⟩ := mem_tagEntries T e he
      have hlt : i < T.length := by
        rcases Nat.lt_or_ge i T.length with h | h
        · exact h
        · rw [List.getElem?_eq_none h] at hi; cases hi
      refine ⟨hT tm (List.mem_of_getElem? hi) d hd, ?_⟩
      intro K hK
      simp only [List.map_cons, List.map_nil, List.mem_singleton] at hK
      subst hK
      exact hlt
  apply buildBoundaryTag_total
  · exact addAll_buildOk PWT.add _ hne (fun e he => (hent e he).1)
  · obtain ⟨_, _, hP, _⟩ := addAll_correct PWT.add PWT.empty (fun _ => 0)
      (fun _ (t : PWT) => ∀ K ∈ t.tagInfo.map Prod.fst, K.1 < T.length)
      (fun _ a b ha hb K hK => by
        rcases (mem_PWT_add_keys a b K).mp hK with h | h
        · exact ha K h
        · exact hb K h)
      (fun _ _ _ _ _ => rfl) (bes ++ tagEntries T) (fun e he => (hent e he).2)
    exact hP

theorem isEmpty_false_iff {β : Type} (l : List β) : l.isEmpty = false ↔ l ≠ [] := by
  cases l <;> simp

theorem charScorerNew_total (cfg : Cfg) (m : WModel) (hm : WFModel m) (T : List (List (TagNgramData Char)))
    (hT : ∀ tm ∈ T, ∀ d ∈ tm, d.ngram ≠ [] ∧ d.weights ≠ []) : ∃ cs, charScorerNew cfg m T = .ok cs := by
  have hW0 : ¬ m.charW = 0 := by have := hm.charW_pos; omega
  simp only [charScorerNew, hW0, if_false]
  split
  · exact ⟨none, rfl⟩
  · rename_i hc
    have hlong : m.dict.any (fun d => decide (32767 < d.word.length)) = false := by
      rw [List.any_eq_false]
      intro d hd
      have := (hm.dict_shape d hd).2.1
      simp only [decide_eq_true_eq]; omega
    rw [if_neg (by rw [hlong]; simp)]
    have hcn : ∀ d ∈ m.charNgrams, d.ngram ≠ [] := by
      intro d hd h
      have := (hm.char_shape d hd).1
      rw [h] at this; simp at this
    have hdn : ∀ d ∈ m.dict, d.word ≠ [] := by
      intro d hd h
      have := (hm.dict_shape d hd).1
      rw [h] at this; simp at this
    split
    · rename_i htag
      apply res_map_total
      apply tagBuild_total cfg m.charW _ T
      · intro e he
        rcases List.mem_append.mp he with he | he
        · obtain ⟨d, hd, rfl⟩ := List.mem_map.mp he
          exact ⟨hcn d hd, rfl⟩
        · obtain ⟨d, hd, rfl⟩ := List.mem_map.mp he
          exact ⟨hdn d hd, rfl⟩
      · exact fun tm htm d hd => (hT tm htm d hd).1
      · intro hnil
        simp only [List.append_eq_nil_iff, List.map_eq_nil_iff] at hnil
        obtain ⟨⟨h1, h2⟩, h3⟩ := hnil
        have hcfg : cfg.tagPred = true := by
          revert htag; cases cfg.tagPred <;> simp
        apply hc
        rw [h1, h2, hcfg]
        simp only [List.isEmpty_nil, Bool.not_true, Bool.false_or, Bool.true_and]
        cases hall : T.all (·.isEmpty) with
        | true => rfl
        | false => exact absurd h3 (tagEntries_ne_nil T (fun tm htm d hd => (hT tm htm d hd).2) hall)
    · rename_i htag
      apply res_map_total
      apply buildBoundary_total
      apply addAll_buildOk
      · intro hnil
        simp only [List.append_eq_nil_iff, List.map_eq_nil_iff] at hnil
        apply hc
        rw [hnil.1, hnil.2]
        simp only [List.isEmpty_nil, Bool.true_and]
        revert htag
        cases cfg.tagPred <;> cases T <;> simp
      · intro e he
        rcases List.mem_append.mp he with he | he
        · obtain ⟨d, hd, rfl⟩ := List.mem_map.mp he
          exact hcn d hd
        · obtain ⟨d, hd, rfl⟩ := List.mem_map.mp he
          exact hdn d hd

theorem typeScorerNew_total (cfg : Cfg) (m : WModel) (hm : WFModel m) (T : List (List (TagNgramData Nat)))
    (hT : ∀ tm ∈ T, ∀ d ∈ tm, d.ngram ≠ [] ∧ d.weights ≠ []) : ∃ ts, typeScorerNew cfg m T = .ok ts := by
  have hW0 : ¬ m.typeW = 0 := by have := hm.typeW_pos; omega
  simp only [typeScorerNew, hW0, if_false]
  have htn : ∀ d ∈ m.typeNgrams, d.ngram ≠ [] := by
    intro d hd h
    have := (hm.type_shape d hd).1
    rw [h] at this; simp at this
  split
  · exact ⟨none, rfl⟩
  · rename_i hc
    split
    · rename_i htag
      apply res_map_total
      apply tagBuild_total cfg m.typeW _ T
      · intro e he
        obtain ⟨d, hd, rfl⟩ := List.mem_map.mp he
        exact ⟨htn d hd, rfl⟩
      · exact fun tm htm d hd => (hT tm htm d hd).1
      · intro hnil
        simp only [List.append_eq_nil_iff, List.map_eq_nil_iff] at hnil
        obtain ⟨h1, h3⟩ := hnil
        have hcfg : cfg.tagPred = true := by
          revert htag; cases cfg.tagPred <;> simp
        apply hc
        rw [h1, hcfg]
        simp only [List.isEmpty_nil, Bool.not_true, Bool.false_or, Bool.true_and]
        cases hall : T.all (·.isEmpty) with
        | true => rfl
        | false => exact absurd h3 (tagEntries_ne_nil T (fun tm htm d hd => (hT tm htm d hd).2) hall)
    · rename_i htag
      have hne : m.typeNgrams ≠ [] := by
        intro hnil
        apply hc
        rw [hnil]
        simp only [List.isEmpty_nil, Bool.true_and]
        revert htag
        cases cfg.tagPred <;> cases T <;> simp
      split
      · split
        · exact ⟨_, rfl⟩
        · rename_i hbad
          exfalso
          apply hbad
          apply pmaBuildOk_intro _ ?_ ?_ hm.type_nodup
          · intro h; exact hne (List.map_eq_nil_iff.mp h)
          · intro h
            obtain ⟨d, hd, hk⟩ := List.mem_map.mp h
            exact htn d hd hk
      · apply res_map_total
        apply buildBoundary_total
        apply addAll_buildOk
        · intro h; exact hne (List.map_eq_nil_iff.mp h)
        · intro e he
          obtain ⟨d, hd, rfl⟩ := List.mem_map.mp he
          exact htn d hd

/-- `Predictor.new` accepts every well-formed model whose tag n-grams all carry at least one weight -/
theorem new_total (cfg : Cfg) (m : WModel) (hm : WFModel m)
    (hc : ∀ tm ∈ m.tagModels, ∀ d ∈ tm.charNgrams, d.ngram ≠ [] ∧ d.weights ≠ [])
    (ht : ∀ tm ∈ m.tagModels, ∀ d ∈ tm.typeNgrams, d.ngram ≠ [] ∧ d.weights ≠ [])
    (pt : Bool) (hcfg : pt = true → cfg.tagPred = true) : ∃ p, Predictor.new cfg m pt = .ok p := by
  have h0 : (pt && !cfg.tagPred) = false := by
    cases hpt : pt with
    | false => rfl
    | true => rw [hcfg hpt]; rfl
  unfold Predictor.new
  rw [if_neg (by rw [h0]; simp)]
  simp only
  obtain ⟨cs, hcs⟩ := charScorerNew_total cfg m hm (if (pt && cfg.tagPred) = true then m.tagModels.map (·.charNgrams) else [])
    (by
      intro tm htm d hd
      split at htm
      · obtain ⟨x, hx, rfl⟩ := List.mem_map.mp htm
        exact hc x hx d hd
      · cases htm)
  obtain ⟨ts, hts⟩ := typeScorerNew_total cfg m hm (if (pt && cfg.tagPred) = true then m.tagModels.map (·.typeNgrams) else [])
    (by
      intro tm htm d hd
      split at htm
      · obtain ⟨x, hx, rfl⟩ := List.mem_map.mp htm
        exact ht x hx d hd
      · cases htm)
  rw [hcs]
  simp only
  rw [hts]
  exact ⟨_, rfl⟩

/-! ## tagging after prediction -/

theorem predictTags_total (cfg : Cfg) (m : WModel) (hm : WFModel m) (ht : WFTags m) (p : Predictor)
    (hp : Predictor.new cfg m true = .ok p) (store : Bool) (s s1 : Sentence) (hs : SentOK s) (pid : Nat)
    (h1 : p.predict pid s = .ok s1) :
    ∃ s2, ({ p with storeTagScores := store } : Predictor).predictTags s1 = .ok s2 := by
  rcases Nat.eq_zero_or_pos (specNTags m) with hn | hn
  · obtain ⟨_, h1', h2', _⟩ := new_tag_ok cfg m p hp
    unfold Predictor.predictTags
    simp only [h1', h2', hn, if_true]
    exact ⟨_, rfl⟩
  · obtain ⟨_, h3⟩ := C06_predictTags cfg m hm ht p hp store s s1 hs pid h1 s1.bounds rfl hn
    exact ⟨_, h3⟩

end V.C11L
