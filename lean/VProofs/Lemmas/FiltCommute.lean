import VModel.Filters
import VProofs.Lemmas.Inv
/-! Helper lemmas for C15 (order independence): two pointwise rewrites of the boundary list whose per-position maps
commute give the same list in both orders. -/
namespace V.C15L

/-- two "clear when the condition holds" rewrites commute -/
theorem clear_clear_comm (p q : Prop) [Decidable p] [Decidable q] (x : B) :
    (if q then B.N else (if p then B.N else x)) = (if p then B.N else (if q then B.N else x)) := by
  by_cases hp : p <;> by_cases hq : q <;> simp only [if_pos, if_neg, hp, hq, not_false_eq_true]

/-- a "clear when the condition holds" rewrite commutes with a "clear unless the condition holds" rewrite -/
theorem clear_keep_comm (p q : Prop) [Decidable p] [Decidable q] (x : B) :
    (if q then (if p then B.N else x) else B.N) = (if p then B.N else (if q then x else B.N)) := by
  by_cases hp : p <;> by_cases hq : q <;> simp only [if_pos, if_neg, hp, hq, not_false_eq_true]

/-- `old →g1→ a →g2→ a'` and `old →g2→ b →g1→ b'`, every step a pointwise rewrite of the boundary list; if `g1 i` and
`g2 i` commute at every position then `a' = b'` -/
theorem pointwise_comm (g1 g2 : Nat → B → B) (hg : ∀ i x, g2 i (g1 i x) = g1 i (g2 i x)) (old a a' b b' : List B)
    (hla : a.length = old.length) (hla' : a'.length = a.length)
    (hlb : b.length = old.length) (hlb' : b'.length = b.length)
    (hpa : ∀ i, i < old.length → a[i]? = some (g1 i (old.getD i B.U)))
    (hpa' : ∀ i, i < a.length → a'[i]? = some (g2 i (a.getD i B.U)))
    (hpb : ∀ i, i < old.length → b[i]? = some (g2 i (old.getD i B.U)))
    (hpb' : ∀ i, i < b.length → b'[i]? = some (g1 i (b.getD i B.U))) : a' = b' := by
  apply List.ext_getElem?
  intro i
  by_cases hi : i < old.length
  · rw [hpa' i (by omega), hpb' i (by omega), List.getD_eq_getElem?_getD (l := a), hpa i hi,
      List.getD_eq_getElem?_getD (l := b), hpb i hi, Option.getD_some, Option.getD_some, hg]
  · rw [List.getElem?_eq_none (by omega), List.getElem?_eq_none (by omega)]

end V.C15L
