import VModel.Sentence
import VProofs.Lemmas.ParserTotal
/-!
Helper lemmas for C03 (tag side): `trimNone`, `tagOfStr`, `maxLen`, `padTags`.
-/
namespace V.C03L

/-! ## trimNone -/

theorem trimNone_cons (t : Tag) (ts : List Tag) :
    trimNone (t :: ts) = if trimNone ts = [] then (if t.isSome then [t] else []) else t :: trimNone ts := by
  simp only [trimNone]
  cases trimNone ts <;> simp

theorem mem_trimNone {x : Tag} {l : List Tag} (h : x ∈ trimNone l) : x ∈ l := by
  induction l with
  | nil => simp [trimNone] at h
  | cons t ts ih =>
    rw [trimNone_cons] at h
    by_cases hn : trimNone ts = []
    · simp only [hn, if_true] at h
      by_cases hs : t.isSome
      · simp only [hs, if_true, List.mem_singleton] at h
        simp [h]
      · simp [hs] at h
    · simp only [hn, if_false, List.mem_cons] at h
      rcases h with h | h
      · simp [h]
      · exact List.mem_cons_of_mem _ (ih h)

theorem trimNone_idem (l : List Tag) : trimNone (trimNone l) = trimNone l := by
  induction l with
  | nil => simp [trimNone]
  | cons t ts ih =>
    rw [trimNone_cons]
    by_cases hn : trimNone ts = []
    · simp only [hn, if_true]
      by_cases hs : t.isSome
      · simp [hs, trimNone_cons, trimNone]
      · simp [hs, trimNone]
    · simp only [hn, if_false]
      rw [trimNone_cons, ih]
      simp [hn]

theorem trimNone_replicate_none (k : Nat) : trimNone (List.replicate k (none : Tag)) = [] := by
  induction k with
  | zero => simp [trimNone]
  | succ k ih => rw [List.replicate_succ, trimNone_cons, ih]; simp

theorem trimNone_append_nones (l : List Tag) (k : Nat) :
    trimNone (l ++ List.replicate k none) = trimNone l := by
  induction l with
  | nil => simp [trimNone_replicate_none, trimNone]
  | cons t ts ih => rw [List.cons_append, trimNone_cons, ih, ← trimNone_cons]

/-! ## tagOfStr -/

theorem map_tagOfStr_getD (l : List Tag) (h : ∀ t, some t ∈ l → t ≠ []) :
    (l.map (·.getD [])).map tagOfStr = l := by
  induction l with
  | nil => simp
  | cons t ts ih =>
    have ih' := ih (fun t' ht' => h t' (by simp [ht']))
    simp only [List.map_cons, ih']
    cases t with
    | none => simp [tagOfStr]
    | some t => simp [tagOfStr, h t (by simp)]

/-! ## maxLen, padTags -/

/-- the padded tag slots of one character -/
def padOne (m : Nat) (ts : List (List Char)) : List Tag := ts.map tagOfStr ++ List.replicate (m - ts.length) none

theorem padOne_length {m : Nat} {ts : List (List Char)} (h : ts.length ≤ m) : (padOne m ts).length = m := by
  simp [padOne]; omega

theorem padTags_cons (m : Nat) (x : List (List Char)) (r : List (List (List Char))) :
    padTags m (x :: r) = padOne m x ++ padTags m r := by
  simp [padTags, padOne]

theorem padTags_slot (m : Nat) (tt : List (List (List Char))) (h : ∀ x ∈ tt, x.length ≤ m) (k : Nat)
    (x : List (List Char)) (hk : tt[k]? = some x) :
    ((padTags m tt).drop (k * m)).take m = padOne m x := by
  induction tt generalizing k with
  | nil => simp at hk
  | cons y r ih =>
    have hy := padOne_length (h y (by simp))
    rw [padTags_cons]
    cases k with
    | zero =>
      simp only [List.getElem?_cons_zero, Option.some.injEq] at hk
      subst hk
      simp only [Nat.zero_mul, List.drop_zero]
      rw [List.take_append_of_le_length (by omega)]
      rw [List.take_of_length_le (by omega)]
    | succ k =>
      simp only [List.getElem?_cons_succ] at hk
      have e : (k + 1) * m = (padOne m y).length + k * m := by rw [hy, Nat.succ_mul]; omega
      rw [e, List.drop_append]
      simp only [List.drop_eq_nil_of_le (Nat.le_add_right _ _), Nat.add_sub_cancel_left, List.nil_append]
      exact ih (fun z hz => h z (by simp [hz])) k hk

theorem mem_padTags {m : Nat} {tt : List (List (List Char))} {t : List Char} (h : some t ∈ padTags m tt) :
    t ≠ [] ∧ ∃ ts ∈ tt, t ∈ ts := by
  simp only [padTags, List.mem_flatMap, List.mem_append, List.mem_map, List.mem_replicate] at h
  obtain ⟨ts, hts, h | h⟩ := h
  · obtain ⟨u, hu, he⟩ := h
    unfold tagOfStr at he
    by_cases hn : u = []
    · simp [hn] at he
    · simp only [hn, if_false, Option.some.injEq] at he
      subst he
      exact ⟨hn, ts, hts, hu⟩
  · simp at h

end V.C03L
