import VProofs.Lemmas.Part
import VProofs.Lemmas.PartTags
import VProofs.Lemmas.PartInv
/-!
Helper lemmas for C04: assembly of the round trip and of the well-formedness of parsed sentences.
-/
namespace V.C04L

/-- writing succeeds, and parsing the output gives back the text, the labels, and per character the
trimmed chunk of tags (as strings, `[]` for an absent tag) -/
theorem writePartial_parse (s : Sentence) (hne : s.text ≠ []) (hnul : ∀ c ∈ s.text, c ≠ '\x00')
    (hbl : s.bounds.length + 1 = s.text.length) (htl : s.tags.length = s.text.length * s.nTags) :
    ∃ w tt, s.writePartial = .ok w ∧ parsePartial w = .ok ⟨s.text, s.bounds, padTags (maxLen tt) tt⟩ ∧
      tt.length = s.text.length ∧
      ∀ (i : Nat) (hi : i < tt.length),
        tt[i] = (trimNone ((s.tags.drop (i * s.nTags)).take s.nTags)).map (·.getD []) := by
  cases htx : s.text with
  | nil => exact absurd htx hne
  | cons c cs =>
    rw [htx] at hnul hbl htl
    have hc0 : c ≠ '\x00' := hnul c (by simp)
    have hcs0 : ∀ d ∈ cs, d ≠ '\x00' := fun d hd => hnul d (by simp [hd])
    have hlen : cs.length = s.bounds.length := by simpa using hbl.symm
    by_cases hn : s.nTags = 0
    · -- untagged sentence
      have htags : s.tags = [] := by simpa [hn] using htl
      obtain ⟨s1, e1, g1⟩ := good_first c hc0 (writePartPlain cs s.bounds)
      obtain ⟨s2, e2, g2⟩ := good_writePlain cs s.bounds g1 hcs0 hlen
      refine ⟨c :: writePartPlain cs s.bounds, [[]] ++ List.replicate cs.length [], ?_, ?_, ?_, ?_⟩
      · simp [Sentence.writePartial, htx, hn]
      · have := parsePartial_of_good (by simp) (e1.trans e2) g2
        simpa using this
      · simp
      · intro i hi
        have : ([[]] ++ List.replicate cs.length ([] : List (List Char)))[i] = [] := by
          cases i with
          | zero => rfl
          | succ i => simp
        rw [this, htags]
        simp [trimNone]
    · -- tagged sentence
      obtain ⟨hcl, hci⟩ := chunks_spec s.nTags hn (cs.length + 1) s.tags (by simpa using htl)
      cases hch : chunks s.nTags s.tags with
      | nil => rw [hch] at hcl; simp at hcl
      | cons ts tss =>
        rw [hch] at hcl
        have hlen' : cs.length = tss.length := by simpa using hcl.symm
        obtain ⟨s1, e1, g1⟩ := good_first c hc0
          (writeTagsWith escPart (trimNone ts) ++ writePartTagged cs tss s.bounds)
        obtain ⟨s2, e2, g2⟩ := good_tags (pre := []) (trimNone ts) g1 (writePartTagged cs tss s.bounds)
        obtain ⟨s3, e3, g3⟩ := good_writeTagged cs tss s.bounds g2 hcs0 hlen' hlen
        refine ⟨c :: writeTagsWith escPart (trimNone ts) ++ writePartTagged cs tss s.bounds,
          (chunks s.nTags s.tags).map (fun ts => (trimNone ts).map (·.getD [])), ?_, ?_, ?_, ?_⟩
        · simp [Sentence.writePartial, htx, hn, hch]
        · have := parsePartial_of_good (by simp) (e1.trans (e2.trans e3)) g3
          simpa [hch] using this
        · simp [hch, hlen']
        · intro i hi
          have hi' : i < (chunks s.nTags s.tags).length := by simpa using hi
          rw [List.getElem_map, hci i hi']

/-- reading character `i`'s slots back from the padded tag table -/
theorem padTags_readback (tags : List Tag) (k n : Nat) (hn : 0 < n) (hok : ∀ t, some t ∈ tags → t ≠ [])
    (tt : List (List (List Char))) (hl : tt.length = n)
    (htt : ∀ (i : Nat) (hi : i < tt.length),
      tt[i] = (trimNone ((tags.drop (i * k)).take k)).map (·.getD [])) (i : Nat) (hi : i < n) :
    let p := padTags (maxLen tt) tt
    trimNone ((p.drop (i * (p.length / n))).take (p.length / n)) = trimNone ((tags.drop (i * k)).take k) := by
  intro p
  have hrows : ∀ r ∈ tt, r.length ≤ maxLen tt := fun r hr => le_maxLen hr
  have hpl : p.length / n = maxLen tt := by
    show (padTags (maxLen tt) tt).length / n = maxLen tt
    rw [padTags_length _ _ hrows, hl, Nat.mul_div_cancel_left _ hn]
  have hi' : i < tt.length := by omega
  rw [hpl]
  show trimNone (((padTags (maxLen tt) tt).drop (i * maxLen tt)).take (maxLen tt)) = _
  rw [padTags_slot _ _ hrows i hi', htt i hi']
  exact trimNone_readback _ (fun t ht => hok t (List.mem_of_mem_drop (List.mem_of_mem_take ht))) _

/-- the tag table of a parsed sentence: `n × maxLen` slots, present tags non-empty -/
theorem parsed_tags_ok (tt : List (List (List Char))) (n : Nat) (hn : 0 < n) (hl : tt.length = n) :
    let p := padTags (maxLen tt) tt
    p.length = n * (p.length / n) ∧ ∀ t, some t ∈ p → t ≠ [] := by
  intro p
  have hrows : ∀ r ∈ tt, r.length ≤ maxLen tt := fun r hr => le_maxLen hr
  have hpl : p.length = n * maxLen tt := by
    show (padTags (maxLen tt) tt).length = _
    rw [padTags_length _ _ hrows, hl]
  refine ⟨?_, fun t ht => mem_padTags_ne_nil ht⟩
  rw [hpl, Nat.mul_div_cancel_left _ hn]

end V.C04L
