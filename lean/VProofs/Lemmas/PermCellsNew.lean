import VModel.Scorer
import VProofs.Lemmas.PermPredictor
import VProofs.Lemmas.PermCells
/-!
# C06 helpers (hash order 4): the cells of a predictor built by `Predictor.new` hold pairwise distinct pattern ids

Hence ANY re-listing of the cells (a permutation per cell, no further hypothesis) is a `PredCellEq`.
-/
namespace V.C06L
open V V.PermL

def CellsNodup (tw : TW) : Prop := ∀ row ∈ tw, ∀ c ∈ row, (c.map Prod.fst).Nodup

section
variable {α : Type}

theorem chunks_ids (cfg : Cfg) (t r : Nat) : ∀ (es : List (List α × PWT)) (id0 : Nat),
    (∀ e ∈ es, (e.2.tagInfo.map Prod.fst).Nodup) →
    ((chunks cfg t r es id0).map Prod.fst).Pairwise (· < ·) ∧ ∀ x ∈ (chunks cfg t r es id0).map Prod.fst, id0 ≤ x
  | [], _, _ => ⟨List.Pairwise.nil, by intro x hx; cases hx⟩
  | e :: es, id0, hnd => by
    obtain ⟨ih₁, ih₂⟩ := chunks_ids cfg t r es (id0 + 1) (fun x hx => hnd x (List.mem_cons_of_mem _ hx))
    have hch : chunkOf cfg t r e.2.tagInfo id0
        = ((tlookup (t, r) e.2.tagInfo).map fun v => (id0, WV.ofList cfg v)).toList := by
      unfold chunkOf
      rw [filter_key _ (hnd e List.mem_cons_self)]
      cases tlookup (t, r) e.2.tagInfo <;> rfl
    rw [chunks, hch]
    cases tlookup (t, r) e.2.tagInfo with
    | none =>
      simp only [Option.map_none, Option.toList_none, List.nil_append]
      exact ⟨ih₁, fun x hx => Nat.le_of_succ_le (ih₂ x hx)⟩
    | some v =>
      simp only [Option.map_some, Option.toList_some, List.cons_append, List.nil_append, List.map_cons]
      refine ⟨List.pairwise_cons.mpr ⟨fun x hx => ih₂ x hx, ih₁⟩, ?_⟩
      intro x hx
      rcases List.mem_cons.mp hx with h | h
      · rw [h]; exact Nat.le_refl _
      · exact Nat.le_of_succ_le (ih₂ x h)

theorem fill_cellsNodup (cfg : Cfg) (es : List (List α × PWT)) (hnd : ∀ e ∈ es, (e.2.tagInfo.map Prod.fst).Nodup)
    (n w : Nat) (tw : TW)
    (h : fillTagWeights cfg es 0 (List.replicate n (List.replicate w ([] : List (Nat × WV)))) = .ok tw) :
    CellsNodup tw := by
  obtain ⟨_, _, h3⟩ := fill_spec cfg es 0 _ tw h
  intro row hrow c hc
  obtain ⟨t, ht, rfl⟩ := List.getElem_of_mem hrow
  obtain ⟨r, hr, rfl⟩ := List.getElem_of_mem hc
  have hcell : cell tw t r = tw[t][r] := by
    unfold cell
    rw [List.getElem?_eq_getElem ht]
    simp only [Option.getD_some]
    rw [List.getElem?_eq_getElem hr]
    rfl
  rw [← hcell, h3, cell_replicate, List.nil_append]
  have := (chunks_ids cfg t r es 0 hnd).1
  rw [List.nodup_iff_pairwise_ne]
  exact this.imp (fun h => Nat.ne_of_lt h)

end

section
variable {α : Type} [DecidableEq α]

def ScorerCellsNodup (sc : PmaScorer α) : Prop := ∀ tw, sc.tagWeight = some tw → CellsNodup tw

theorem res_map_ok_inv {β γ : Type} (f : β → γ) (r : Res β) (y : γ) (h : r.map f = .ok y) : ∃ x, r = .ok x ∧ y = f x := by
  cases r with
  | ok x => exact ⟨x, rfl, by simpa [Res.map] using h.symm⟩
  | err _ => simp [Res.map] at h
  | panic _ => simp [Res.map] at h
  | ub _ => simp [Res.map] at h

theorem buildBoundaryTag_cellsNodup (cfg : Cfg) (window n : Nat) (es : List (List α × PWT))
    (hes : ∀ e ∈ es, PWT.equiv e.2 e.2) (sc : PmaScorer α)
    (h : buildBoundaryTag cfg window n (addAll PWT.add es []) = .ok sc) : ScorerCellsNodup sc := by
  have hrel : ListRel (ERel PWT.equiv) (Merge.mergeEntries PWT.add PWT.empty (addAll PWT.add es []))
      (Merge.mergeEntries PWT.add PWT.empty (addAll PWT.add es [])) :=
    mergeEntries_rel PWT.equiv PWT.add PWT.add (fun _ _ _ _ ha hb => add_equiv ha hb) PWT.empty PWT.empty equiv_empty
      (addAll_rel PWT.equiv PWT.add PWT.add (fun _ _ _ _ ha hb => add_equiv ha hb)
        (ListRel.refl_of es fun e he => ⟨rfl, hes e he⟩) .nil)
  have hnd : ∀ {l l' : List (List α × PWT)}, ListRel (ERel PWT.equiv) l l' → ∀ e ∈ l, (e.2.tagInfo.map Prod.fst).Nodup := by
    intro l l' hr
    induction hr with
    | nil => intro e he; cases he
    | cons hab _ ih =>
      intro e he
      rcases List.mem_cons.mp he with h | h
      · rw [h]; exact hab.2.2.2
      · exact ih e h
  rw [buildBoundaryTag_bind] at h
  cases hf : fillTagWeights cfg (Merge.mergeEntries PWT.add PWT.empty (addAll PWT.add es [])) 0
      (List.replicate n (List.replicate
        ((addAll PWT.add es []).foldl (fun acc e => e.2.tagInfo.foldl (fun a kv => max a (kv.1.2 + 1)) acc) (window + 1))
        ([] : List (Nat × WV)))) with
  | ok tw =>
    rw [hf, Res.bind_ok] at h
    split at h
    · cases h
      intro tw' htw'
      cases htw'
      exact fill_cellsNodup cfg _ (hnd hrel) _ _ tw hf
    · cases h
  | err _ => rw [hf] at h; cases h
  | panic _ => rw [hf] at h; cases h
  | ub _ => rw [hf] at h; cases h

theorem buildBoundary_cellsNodup (cfg : Cfg) (es : List (List α × PW)) (sc : PmaScorer α)
    (h : buildBoundary cfg es = .ok sc) : ScorerCellsNodup sc := by
  unfold buildBoundary at h
  simp only at h
  split at h
  · cases h
    intro tw htw; cases htw
  · cases h

end

theorem charScorerNew_cellsNodup (cfg : Cfg) (m : WModel) (T : List (List (TagNgramData Char))) (sc : PmaScorer Char)
    (h : charScorerNew cfg m T = .ok (some sc)) : ScorerCellsNodup sc := by
  unfold charScorerNew at h
  simp only at h
  generalize (if m.charW = 0 then ({ m with charNgrams := [] } : WModel) else m) = m' at h
  split at h
  · cases h
  · split at h
    · cases h
    · split at h
      · obtain ⟨sc', h', e⟩ := res_map_ok_inv _ _ _ h
        cases e
        refine buildBoundaryTag_cellsNodup cfg _ _ _ ?_ sc h'
        intro e he
        rcases List.mem_append.mp he with he | he
        · rcases List.mem_append.mp he with he | he
          · obtain ⟨d, _, rfl⟩ := List.mem_map.mp he
            exact equiv_refl _ List.nodup_nil
          · obtain ⟨d, _, rfl⟩ := List.mem_map.mp he
            exact equiv_refl _ List.nodup_nil
        · exact tagEntries_nodup T e he
      · obtain ⟨sc', h', e⟩ := res_map_ok_inv _ _ _ h
        cases e
        exact buildBoundary_cellsNodup cfg _ sc h'

theorem typeScorerNew_cellsNodup (cfg : Cfg) (m : WModel) (T : List (List (TagNgramData Nat))) (sc : PmaScorer Nat)
    (h : typeScorerNew cfg m T = .ok (some (.pma sc))) : ScorerCellsNodup sc := by
  unfold typeScorerNew at h
  simp only at h
  generalize (if m.typeW = 0 then ({ m with typeNgrams := [] } : WModel) else m) = m' at h
  split at h
  · cases h
  · split at h
    · obtain ⟨sc', h', e⟩ := res_map_ok_inv _ _ _ h
      cases e
      refine buildBoundaryTag_cellsNodup cfg _ _ _ ?_ sc h'
      intro e he
      rcases List.mem_append.mp he with he | he
      · obtain ⟨d, _, rfl⟩ := List.mem_map.mp he
        exact equiv_refl _ List.nodup_nil
      · exact tagEntries_nodup T e he
    · split at h
      · split at h
        · cases h
        · cases h
      · obtain ⟨sc', h', e⟩ := res_map_ok_inv _ _ _ h
        cases e
        exact buildBoundary_cellsNodup cfg _ sc h'

/-! ## re-listing the cells of a built predictor -/

/-- a cell listed in another order (no hypothesis on the ids) -/
abbrev TablePerm (tw tw' : TW) : Prop := ListRel (ListRel List.Perm) tw tw'

def ScorerCellPerm {α : Type} (sc sc' : PmaScorer α) : Prop :=
  sc.pats = sc'.pats ∧ sc.weights = sc'.weights ∧ OptRel TablePerm sc.tagWeight sc'.tagWeight

def TypeScorerCellPerm : TypeScorer → TypeScorer → Prop
  | .pma sc, .pma sc' => ScorerCellPerm sc sc'
  | .cache ng w, .cache ng' w' => ng = ng' ∧ w = w'
  | _, _ => False

/-- `p'` is `p` with the entries of every cell `tag_weight[token_id][rel_position]` listed in another order, and with its token
map `tag_predictor` listed in any way that preserves the lookups -/
structure PredCellPerm (p p' : Predictor) : Prop where
  char : OptRel ScorerCellPerm p.charScorer p'.charScorer
  type : OptRel TypeScorerCellPerm p.typeScorer p'.typeScorer
  bias : p.bias = p'.bias
  tagPredictor : OptRel SameLookup p.tagPredictor p'.tagPredictor
  nTags : p.nTags = p'.nTags
  store : p.storeTagScores = p'.storeTagScores

theorem rowEq_of_perm : ∀ {row row' : List (List (Nat × WV))}, ListRel List.Perm row row' →
    (∀ c ∈ row, (c.map Prod.fst).Nodup) → ListRel CellEq row row'
  | _, _, .nil, _ => .nil
  | _, _, .cons hcd hr, hnd =>
    .cons ⟨hcd, hnd _ List.mem_cons_self⟩ (rowEq_of_perm hr fun c hc => hnd c (List.mem_cons_of_mem _ hc))

theorem tableEq_of_perm : ∀ {tw tw' : TW}, TablePerm tw tw' → CellsNodup tw → TableEq tw tw'
  | _, _, .nil, _ => .nil
  | _, _, .cons hab hr, hnd =>
    .cons (rowEq_of_perm hab (hnd _ List.mem_cons_self))
      (tableEq_of_perm hr fun row hrow => hnd row (List.mem_cons_of_mem _ hrow))

theorem scorerCellEq_of_perm {α : Type} {sc sc' : PmaScorer α} (hnd : ScorerCellsNodup sc) (h : ScorerCellPerm sc sc') :
    ScorerCellEq sc sc' := by
  refine ⟨h.1, h.2.1, ?_⟩
  have ht := h.2.2
  cases h₁ : sc.tagWeight with
  | none =>
    cases h₂ : sc'.tagWeight with
    | none => trivial
    | some _ => rw [h₁, h₂] at ht; exact ht.elim
  | some tw =>
    cases h₂ : sc'.tagWeight with
    | none => rw [h₁, h₂] at ht; exact ht.elim
    | some tw' =>
      rw [h₁, h₂] at ht
      exact tableEq_of_perm ht (hnd tw h₁)

theorem new_inv (cfg : Cfg) (m : WModel) (pt : Bool) (p : Predictor) (h : Predictor.new cfg m pt = .ok p) :
    ∃ T₁ T₂, charScorerNew cfg m T₁ = .ok p.charScorer ∧ typeScorerNew cfg m T₂ = .ok p.typeScorer := by
  rw [new_eq_bind] at h
  split at h
  · cases h
  · refine ⟨(if (pt && cfg.tagPred) = true then m.tagModels.map (·.charNgrams) else []),
      (if (pt && cfg.tagPred) = true then m.tagModels.map (·.typeNgrams) else []), ?_⟩
    cases hc : charScorerNew cfg m (if (pt && cfg.tagPred) = true then m.tagModels.map (·.charNgrams) else []) with
    | ok cs =>
      rw [hc, Res.bind_ok] at h
      cases ht : typeScorerNew cfg m (if (pt && cfg.tagPred) = true then m.tagModels.map (·.typeNgrams) else []) with
      | ok ts =>
        rw [ht, Res.bind_ok] at h
        cases h
        exact ⟨rfl, rfl⟩
      | err _ => rw [ht] at h; cases h
      | panic _ => rw [ht] at h; cases h
      | ub _ => rw [ht] at h; cases h
    | err _ => rw [hc] at h; cases h
    | panic _ => rw [hc] at h; cases h
    | ub _ => rw [hc] at h; cases h

/-- every re-listing of the cells of a predictor built by `Predictor.new` is a `PredCellEq` -/
theorem predCellEq_of_perm (cfg : Cfg) (m : WModel) (pt : Bool) (p p' : Predictor) (hp : Predictor.new cfg m pt = .ok p)
    (h : PredCellPerm p p') : PredCellEq p p' := by
  obtain ⟨T₁, T₂, hc, ht⟩ := new_inv cfg m pt p hp
  refine ⟨?_, ?_, h.bias, h.tagPredictor, h.nTags, h.store⟩
  · have hcp := h.char
    cases h₁ : p.charScorer with
    | none =>
      cases h₂ : p'.charScorer with
      | none => trivial
      | some _ => rw [h₁, h₂] at hcp; exact hcp.elim
    | some sc =>
      cases h₂ : p'.charScorer with
      | none => rw [h₁, h₂] at hcp; exact hcp.elim
      | some sc' =>
        rw [h₁, h₂] at hcp
        rw [h₁] at hc
        exact scorerCellEq_of_perm (charScorerNew_cellsNodup cfg m T₁ sc hc) hcp
  · have htp := h.type
    cases h₁ : p.typeScorer with
    | none =>
      cases h₂ : p'.typeScorer with
      | none => trivial
      | some _ => rw [h₁, h₂] at htp; exact htp.elim
    | some a =>
      cases h₂ : p'.typeScorer with
      | none => rw [h₁, h₂] at htp; exact htp.elim
      | some b =>
        rw [h₁, h₂] at htp
        rw [h₁] at ht
        cases a with
        | pma sc =>
          cases b with
          | pma sc' => exact scorerCellEq_of_perm (typeScorerNew_cellsNodup cfg m T₂ sc ht) htp
          | cache _ _ => exact htp.elim
        | cache ng w =>
          cases b with
          | pma _ => exact htp.elim
          | cache ng' w' => exact htp

end V.C06L
