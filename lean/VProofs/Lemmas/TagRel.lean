import VModel.Scorer
import VProofs.Lemmas.TagMerge
/-!
# The number of rows per token of the tag table: it exceeds every relative position of the tag n-grams (for C06)

`buildBoundaryTag` sizes `tag_weight[token id]` by the largest relative position among the (pre-merge) entries, at
least `window + 1`.  Every tag n-gram weight `w` of `T` leaves its key `(token id, w.rel)` in the entry of its n-gram,
hence `w.rel` is below that number of rows.
-/
namespace V.C06L
open V.C01L
variable {α : Type} [DecidableEq α]

/-! ## keys of merged tag infos -/

theorem mem_tagInfoAdd_keys (l : TI) (k : Nat × Nat) (v : List Int) (K : Nat × Nat) :
    K ∈ (tagInfoAdd l k v).map Prod.fst ↔ K ∈ l.map Prod.fst ∨ K = k := by
  rw [tagInfoAdd_keys]
  split
  · rename_i h
    constructor
    · exact Or.inl
    · intro h'
      rcases h' with h' | h'
      · exact h'
      · subst h'; exact h
  · simp only [List.mem_append, List.mem_singleton]

theorem mem_fold_keys (b : TI) (K : Nat × Nat) :
    ∀ a : TI, K ∈ (b.foldl (fun acc kv => tagInfoAdd acc kv.1 kv.2) a).map Prod.fst
      ↔ K ∈ a.map Prod.fst ∨ K ∈ b.map Prod.fst := by
  induction b with
  | nil => intro a; simp
  | cons e b ih =>
    intro a
    rw [List.foldl_cons, ih, mem_tagInfoAdd_keys]
    simp only [List.map_cons, List.mem_cons]
    constructor
    · intro h
      rcases h with (h | h) | h
      · exact Or.inl h
      · exact Or.inr (Or.inl h)
      · exact Or.inr (Or.inr h)
    · intro h
      rcases h with h | h | h
      · exact Or.inl (Or.inl h)
      · exact Or.inl (Or.inr h)
      · exact Or.inr h

theorem mem_PWT_add_keys (a b : PWT) (K : Nat × Nat) :
    K ∈ (a.add b).tagInfo.map Prod.fst ↔ K ∈ a.tagInfo.map Prod.fst ∨ K ∈ b.tagInfo.map Prod.fst := by
  rw [PWT_add_tagInfo]; exact mem_fold_keys _ _ _

/-! ## a property of weights that `add` keeps from either side survives `addEntry` / `addAll` -/

section
variable {W : Type}

theorem addEntry_Q_old (add : W → W → W) (Q : W → Prop) (hl : ∀ a b, Q a → Q (add a b))
    (l : List (List α × W)) (k : List α) (w : W) :
    ∀ e ∈ l, Q e.2 → ∃ e' ∈ Merge.addEntry add l k w, e'.1 = e.1 ∧ Q e'.2 := by
  induction l with
  | nil => intro e he; cases he
  | cons x r ih =>
    obtain ⟨k', w'⟩ := x
    intro e he hq
    simp only [Merge.addEntry]
    by_cases h : k' = k
    · rw [if_pos h]
      rcases List.mem_cons.mp he with he | he
      · subst he
        exact ⟨(k', add w' w), List.mem_cons_self, rfl, hl _ _ hq⟩
      · exact ⟨e, List.mem_cons_of_mem _ he, rfl, hq⟩
    · rw [if_neg h]
      rcases List.mem_cons.mp he with he | he
      · subst he
        exact ⟨(k', w'), List.mem_cons_self, rfl, hq⟩
      · obtain ⟨e', h1, h2, h3⟩ := ih e he hq
        exact ⟨e', List.mem_cons_of_mem _ h1, h2, h3⟩

theorem addEntry_Q_new (add : W → W → W) (Q : W → Prop) (hr : ∀ a b, Q b → Q (add a b))
    (l : List (List α × W)) (k : List α) (w : W) (hq : Q w) :
    ∃ e' ∈ Merge.addEntry add l k w, e'.1 = k ∧ Q e'.2 := by
  induction l with
  | nil => exact ⟨(k, w), by simp [Merge.addEntry], rfl, hq⟩
  | cons x r ih =>
    obtain ⟨k', w'⟩ := x
    simp only [Merge.addEntry]
    by_cases h : k' = k
    · rw [if_pos h]
      exact ⟨(k', add w' w), List.mem_cons_self, h, hr _ _ hq⟩
    · rw [if_neg h]
      obtain ⟨e', h1, h2, h3⟩ := ih
      exact ⟨e', List.mem_cons_of_mem _ h1, h2, h3⟩

theorem addAll_Q (add : W → W → W) (Q : W → Prop) (hl : ∀ a b, Q a → Q (add a b)) (hr : ∀ a b, Q b → Q (add a b))
    (es : List (List α × W)) :
    ∀ acc : List (List α × W),
      (∀ e ∈ acc, Q e.2 → ∃ e' ∈ addAll add es acc, e'.1 = e.1 ∧ Q e'.2) ∧
      (∀ x ∈ es, Q x.2 → ∃ e' ∈ addAll add es acc, e'.1 = x.1 ∧ Q e'.2) := by
  induction es with
  | nil =>
    intro acc
    exact ⟨fun e he hq => ⟨e, he, rfl, hq⟩, fun x hx => by cases hx⟩
  | cons x r ih =>
    intro acc
    have hunf : addAll add (x :: r) acc = addAll add r (Merge.addEntry add acc x.1 x.2) := rfl
    rw [hunf]
    obtain ⟨i1, i2⟩ := ih (Merge.addEntry add acc x.1 x.2)
    refine ⟨?_, ?_⟩
    · intro e he hq
      obtain ⟨e1, a1, a2, a3⟩ := addEntry_Q_old add Q hl acc x.1 x.2 e he hq
      obtain ⟨e2, b1, b2, b3⟩ := i1 e1 a1 a3
      exact ⟨e2, b1, b2.trans a2, b3⟩
    · intro y hy hq
      rcases List.mem_cons.mp hy with hy | hy
      · subst hy
        obtain ⟨e1, a1, a2, a3⟩ := addEntry_Q_new add Q hr acc y.1 y.2 hq
        obtain ⟨e2, b1, b2, b3⟩ := i1 e1 a1 a3
        exact ⟨e2, b1, b2.trans a2, b3⟩
      · exact i2 y hy hq

end

/-! ## the number of rows -/

/-- the number of rows per token that `buildBoundaryTag` allocates -/
def nRelOf (window : Nat) (entries : List (List α × PWT)) : Nat :=
  entries.foldl (fun acc e => e.2.tagInfo.foldl (fun a kv => max a (kv.1.2 + 1)) acc) (window + 1)

theorem relFold_inner (l : TI) :
    ∀ a : Nat, a ≤ l.foldl (fun a kv => max a (kv.1.2 + 1)) a ∧
      ∀ kv ∈ l, kv.1.2 + 1 ≤ l.foldl (fun a kv => max a (kv.1.2 + 1)) a := by
  induction l with
  | nil => intro a; exact ⟨Nat.le_refl _, fun kv h => by cases h⟩
  | cons x r ih =>
    intro a
    rw [List.foldl_cons]
    obtain ⟨i1, i2⟩ := ih (max a (x.1.2 + 1))
    refine ⟨by omega, ?_⟩
    intro kv hkv
    rcases List.mem_cons.mp hkv with h | h
    · subst h; omega
    · exact i2 kv h

omit [DecidableEq α] in
theorem relFold_outer (es : List (List α × PWT)) :
    ∀ a : Nat, a ≤ es.foldl (fun acc e => e.2.tagInfo.foldl (fun a kv => max a (kv.1.2 + 1)) acc) a ∧
      ∀ e ∈ es, ∀ kv ∈ e.2.tagInfo,
        kv.1.2 + 1 ≤ es.foldl (fun acc e => e.2.tagInfo.foldl (fun a kv => max a (kv.1.2 + 1)) acc) a := by
  induction es with
  | nil => intro a; exact ⟨Nat.le_refl _, fun e h => by cases h⟩
  | cons x r ih =>
    intro a
    rw [List.foldl_cons]
    obtain ⟨i1, i2⟩ := ih (x.2.tagInfo.foldl (fun a kv => max a (kv.1.2 + 1)) a)
    obtain ⟨j1, j2⟩ := relFold_inner x.2.tagInfo a
    refine ⟨by omega, ?_⟩
    intro e he kv hkv
    rcases List.mem_cons.mp he with h | h
    · subst h
      have := j2 kv hkv
      omega
    · exact i2 e h kv hkv

omit [DecidableEq α] in
theorem nRelOf_ge (window : Nat) (es : List (List α × PWT)) : window + 1 ≤ nRelOf window es :=
  (relFold_outer es (window + 1)).1

omit [DecidableEq α] in
theorem nRelOf_key (window : Nat) (es : List (List α × PWT)) (e : List α × PWT) (he : e ∈ es)
    (K : Nat × Nat) (hK : K ∈ e.2.tagInfo.map Prod.fst) : K.2 < nRelOf window es := by
  obtain ⟨kv, hkv, rfl⟩ := List.mem_map.mp hK
  have := (relFold_outer es (window + 1)).2 e he kv hkv
  unfold nRelOf
  omega

/-- every relative position of the tag n-grams is below the number of rows -/
theorem tagRel_lt_nRel (window : Nat) (bes : List (List α × PWT)) (T : List (List (TagNgramData α)))
    (i : Nat) (tm : List (TagNgramData α)) (d : TagNgramData α) (w : TagWeight)
    (hi : T[i]? = some tm) (hd : d ∈ tm) (hw : w ∈ d.weights) :
    w.rel < nRelOf window (addAll PWT.add (bes ++ tagEntries T) []) := by
  have hmem := tagEntries_mem T i tm d w hi hd hw
  obtain ⟨e', h1, _, h3⟩ := (addAll_Q PWT.add (fun t : PWT => (i, w.rel) ∈ t.tagInfo.map Prod.fst)
    (fun a b h => (mem_PWT_add_keys a b _).mpr (Or.inl h))
    (fun a b h => (mem_PWT_add_keys a b _).mpr (Or.inr h))
    (bes ++ tagEntries T) []).2 _ (List.mem_append_right _ hmem) (by simp)
  exact nRelOf_key window _ e' h1 (i, w.rel) h3

end V.C06L
