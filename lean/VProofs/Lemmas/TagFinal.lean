import VModel.Spec
import VProofs.Lemmas.TagMain
/-!
# From `Predictor.new` / `predict` to the invariants of the tag loop; `tag_candidates` (for C06)
-/
namespace V.C06L
open V.C01L

theorem tagModels_ne_nil (m : WModel) (hn : 0 < specNTags m) : m.tagModels ≠ [] := by
  intro h
  unfold specNTags at hn
  rw [h] at hn
  exact Nat.lt_irrefl _ hn

theorem predOK_of_new (cfg : Cfg) (m : WModel) (hcW : 1 ≤ m.charW) (htW : 1 ≤ m.typeW) (hW : WFT m)
    (p : Predictor) (hp : Predictor.new cfg m true = .ok p) (hn : 0 < specNTags m) : PredOK cfg m p := by
  obtain ⟨hcfg, h1, h2, h3, h4⟩ := new_tag_ok cfg m p hp
  have hne := tagModels_ne_nil m hn
  refine ⟨h1, h2, ?_, ?_⟩
  · refine charScorer_tag cfg hcfg m hcW _ (by simpa using hne) (Lm m) ?_ p.charScorer h3
    intro i tmc hi d hd w hw
    rw [List.getElem?_map] at hi
    cases htm : m.tagModels[i]? with
    | none => rw [htm] at hi; cases hi
    | some tm =>
      rw [htm] at hi
      simp only [Option.map_some, Option.some.injEq] at hi
      subst hi
      rw [Lm_eq m i tm htm]
      exact hW.char_ok tm (List.mem_of_getElem? htm) d hd w hw
  · refine typeScorer_tag cfg hcfg m htW _ (by simpa using hne) (Lm m) ?_ p.typeScorer h4
    intro i tmc hi d hd w hw
    rw [List.getElem?_map] at hi
    cases htm : m.tagModels[i]? with
    | none => rw [htm] at hi; cases hi
    | some tm =>
      rw [htm] at hi
      simp only [Option.map_some, Option.some.injEq] at hi
      subst hi
      rw [Lm_eq m i tm htm]
      exact hW.type_ok tm (List.mem_of_getElem? htm) d hd w hw

theorem tagScorerOK_isSome {α : Type} [DecidableEq α] (cfg : Cfg) (w : Nat) (T : List (List (TagNgramData α)))
    (L : Nat → Nat) (sc : PmaScorer α) (h : TagScorerOK cfg w T L sc) : sc.tagWeight.isSome = true := by
  obtain ⟨tw, _, _, h1, _⟩ := h
  rw [h1]; rfl

theorem stOK_of_predict (cfg : Cfg) (m : WModel) (p : Predictor) (hP : PredOK cfg m p) (pid : Nat)
    (s s1 : Sentence) (htypes : s.types = typesOf s.text) (h : p.predict pid s = .ok s1) :
    StOK p s.text s1 ∧ s1.types = s.types := by
  obtain ⟨a1, a2, a3, a4⟩ := predict_states p pid s s1 h
  refine ⟨⟨a1, ?_, ?_⟩, a2⟩
  · intro sc hsc
    rcases hP.cs with ⟨h1, _⟩ | ⟨sc', h1, h2⟩
    · rw [h1] at hsc; cases hsc
    · rw [h1] at hsc
      simp only [Option.some.injEq] at hsc
      subst hsc
      exact a3 sc' h1 (tagScorerOK_isSome _ _ _ _ _ h2)
  · intro sc hsc
    rcases hP.ts with ⟨h1, _⟩ | ⟨sc', h1, h2⟩
    · rw [h1] at hsc; cases hsc
    · rw [h1] at hsc
      simp only [Option.some.injEq, TypeScorer.pma.injEq] at hsc
      subst hsc
      rw [← htypes]
      exact a4 sc' h1 (tagScorerOK_isSome _ _ _ _ _ h2)

/-- `tag_candidates` of a token, given the stored score vectors -/
theorem tagCandidates_spec (cfg : Cfg) (m : WModel) (text : List Char) (bs : List B)
    (hbs : bs.length + 1 = text.length) (s3 : Sentence) (hts : s3.tagScores = allScores cfg m text bs)
    (se : Nat × Nat) (hse : se ∈ specTokens bs) :
    s3.tagCandidates se.2 = .ok (match tagModelOf m ((text.drop se.1).take (se.2 - se.1)) with
      | some tm => candSpec tm.tags (specTagScores tm text (se.2 - 1))
      | none => []) := by
  have hr := specTokens_range bs se hse
  have hlen : (allScores cfg m text bs).length = text.length := by
    unfold allScores
    rw [foldl_set_length, List.length_replicate]
  have hget : (allScores cfg m text bs)[se.2 - 1]? = some (scoreVal cfg m text se) := by
    unfold allScores
    rw [foldl_set_get _ _ (specTokens_keys_nodup bs), find?_key_self _ (specTokens_keys_nodup bs) se hse]
    simp only
    rw [List.length_replicate, if_pos (by omega)]
  unfold Sentence.tagCandidates
  rw [hts]
  have hne : (allScores cfg m text bs).isEmpty = false := by
    cases hA : allScores cfg m text bs with
    | nil => rw [hA] at hlen; simp only [List.length_nil] at hlen; omega
    | cons _ _ => rfl
  rw [hne, hget]
  simp only [Bool.false_eq_true, if_false]
  unfold scoreVal
  cases tagModelOf m ((text.drop se.1).take (se.2 - se.1)) with
  | none => rfl
  | some tm =>
    simp only [Option.map_some]
    rw [candidatesLoop_spec tm.tags _ 0 (by rw [scoreVec_length]; have := le_vlen cfg (nClass tm.tags); omega),
      List.drop_zero, scoreVec_take]

/-- `predict` followed by `predict_tags` (any labels in between), well-formedness conditions spelled out -/
theorem predictTags_full (cfg : Cfg) (m : WModel)
    (hcW : 1 ≤ m.charW)
    (hcs : ∀ d ∈ m.charNgrams, 1 ≤ d.ngram.length ∧ d.ngram.length ≤ 2 * m.charW ∧
      d.weights.length = 2 * m.charW - d.ngram.length + 1)
    (htW : 1 ≤ m.typeW)
    (hts : ∀ d ∈ m.typeNgrams, 1 ≤ d.ngram.length ∧ d.ngram.length ≤ 2 * m.typeW ∧
      d.weights.length = 2 * m.typeW - d.ngram.length + 1 ∧ ∀ t ∈ d.ngram, 1 ≤ t ∧ t ≤ 6)
    (hds : ∀ d ∈ m.dict, 1 ≤ d.word.length) (hW : WFT m)
    (p : Predictor) (hp : Predictor.new cfg m true = .ok p) (store : Bool)
    (s s1 : Sentence) (hne : s.text ≠ []) (htypes : s.types = typesOf s.text)
    (hbl0 : s.bounds.length + 1 = s.text.length) (pid : Nat) (h1 : p.predict pid s = .ok s1)
    (bs : List B) (hbs : bs.length = s1.bounds.length) (hn : 0 < specNTags m) :
    bs.length + 1 = s.text.length ∧
    ({ p with storeTagScores := store } : Predictor).predictTags { s1 with bounds := bs }
      = .ok { s1 with bounds := bs, nTags := specNTags m, tags := allTags m s.text bs,
                      tagScores := if store = true then allScores cfg m s.text bs else [] } := by
  have hP := predOK_of_new cfg m hcW htW hW p hp hn
  obtain ⟨hst, hty⟩ := stOK_of_predict cfg m p hP pid s s1 htypes h1
  obtain ⟨s', e1, _, e2, _⟩ := predict_correct cfg m hcW hcs htW hts hds true p hp s hne htypes hbl0 pid
  rw [h1] at e1
  simp only [Res.ok.injEq] at e1
  subst e1
  have hlen : 0 < s.text.length := by
    cases h : s.text with
    | nil => exact absurd h hne
    | cons _ _ => simp
  have hbl : bs.length + 1 = s.text.length := by
    rw [hbs, e2]
    simp only [specBounds, specScores, List.length_map, List.length_range]
    omega
  exact ⟨hbl, predictTags_spec cfg m p hP hW s.text hlen s1 hst
    (by rw [hty, htypes]; simp [typesOf]) bs hbl hn store⟩

end V.C06L
