import VModel.Sentence
/-!
Helper lemmas for C04 (1/3): the `parse_partial_annotation` state machine run over the output of
`write_partial_annotation_text`.
-/
namespace V.C04L

/-! ## pushLast -/

theorem pushLast_snoc (pre : List (List (List Char))) (cur : List (List Char)) (t : List Char) :
    pushLast (pre ++ [cur]) t = some (pre ++ [cur ++ [t]]) := by
  induction pre with
  | nil => rfl
  | cons x pre ih =>
    cases hp : pre ++ [cur] with
    | nil => simp at hp
    | cons y r =>
      simp only [List.cons_append, hp, pushLast]
      rw [← hp, ih]
      rfl

theorem pushLast_length {tt tt' : List (List (List Char))} {t : List Char}
    (h : pushLast tt t = some tt') : tt'.length = tt.length := by
  induction tt generalizing tt' with
  | nil => simp [pushLast] at h
  | cons x r ih =>
    cases r with
    | nil =>
      simp only [pushLast, Option.some.injEq] at h
      subst h; rfl
    | cons y r =>
      simp only [pushLast, Option.map_eq_some_iff] at h
      obtain ⟨a, ha, rfl⟩ := h
      simp [ih ha]

/-! ## one step of the parser in tag mode -/

/-- the tag list of the current character once the pending tag is flushed -/
def curOf (cur : List (List Char)) : Option (List Char) → List (List Char)
  | none => cur
  | some p => cur ++ [p]

theorem partStep_backslash (tx : List Char) (bs : List B) (tt : List (List (List Char)))
    (pend : Option (List Char)) :
    partStep ⟨tx, bs, tt, pend, false, false⟩ '\\' = .ok ⟨tx, bs, tt, pend, true, false⟩ := by
  simp [partStep]

theorem partStep_escaped (tx : List Char) (bs : List B) (tt : List (List (List Char)))
    (t : List Char) (c : Char) :
    partStep ⟨tx, bs, tt, some t, true, false⟩ c = .ok ⟨tx, bs, tt, some (t ++ [c]), false, false⟩ := by
  simp [partStep]

theorem partStep_plain (tx : List Char) (bs : List B) (tt : List (List (List Char)))
    (t : List Char) (c : Char) (hs : partSpecial c = false) :
    partStep ⟨tx, bs, tt, some t, false, false⟩ c = .ok ⟨tx, bs, tt, some (t ++ [c]), false, false⟩ := by
  simp only [partSpecial, Bool.or_eq_false_iff, decide_eq_false_iff_not] at hs
  obtain ⟨⟨⟨⟨h1, h2⟩, h3⟩, h4⟩, h5⟩ := hs
  simp [partStep, h1, h2, h3, h4, h5]

theorem partStep_slash (tx : List Char) (bs : List B) (pre : List (List (List Char)))
    (cur : List (List Char)) (pend : Option (List Char)) :
    partStep ⟨tx, bs, pre ++ [cur], pend, false, false⟩ '/' =
      .ok ⟨tx, bs, pre ++ [curOf cur pend], some [], false, false⟩ := by
  cases pend with
  | none => simp [partStep, curOf]
  | some p => simp [partStep, curOf, pushLast_snoc]

theorem partStep_boundary (tx : List Char) (bs : List B) (pre : List (List (List Char)))
    (cur : List (List Char)) (pend : Option (List Char)) (b : B) :
    partStep ⟨tx, bs, pre ++ [cur], pend, false, false⟩ b.partChar =
      .ok ⟨tx, bs ++ [b], pre ++ [curOf cur pend], none, false, true⟩ := by
  cases pend with
  | none => cases b <;> simp [partStep, partBoundary, B.partChar, curOf]
  | some p => cases b <;> simp [partStep, partBoundary, B.partChar, curOf, pushLast_snoc]

theorem partStep_char (tx : List Char) (bs : List B) (tt : List (List (List Char)))
    (pend : Option (List Char)) (e : Bool) (c : Char) (h0 : c ≠ '\x00') :
    partStep ⟨tx, bs, tt, pend, e, true⟩ c = .ok ⟨tx ++ [c], bs, tt ++ [[]], pend, e, false⟩ := by
  simp [partStep, h0]

/-! ## runs -/

theorem partRun_cons_ok {s s' : PartSt} {c : Char} (h : partStep s c = .ok s') (cs : List Char) :
    partRun s (c :: cs) = partRun s' cs := by
  simp [partRun, h]

/-- in tag mode every (escaped) character is appended to the current tag -/
theorem partRun_esc_tag (tx : List Char) (bs : List B) (tt : List (List (List Char))) (cs : List Char) :
    ∀ (t rest : List Char),
      partRun ⟨tx, bs, tt, some t, false, false⟩ (escPart cs ++ rest) =
        partRun ⟨tx, bs, tt, some (t ++ cs), false, false⟩ rest := by
  induction cs with
  | nil => intro t rest; simp [escPart]
  | cons c cs ih =>
    intro t rest
    simp only [escPart]
    by_cases hs : partSpecial c = true
    · simp only [hs, if_true, List.cons_append]
      rw [partRun_cons_ok (partStep_backslash tx bs tt (some t)),
        partRun_cons_ok (partStep_escaped tx bs tt t c), ih]
      simp
    · have hs' : partSpecial c = false := by simpa using hs
      simp only [hs', Bool.false_eq_true, if_false, List.cons_append]
      rw [partRun_cons_ok (partStep_plain tx bs tt t c hs'), ih]
      simp

/-- a parser state between two characters of the sentence: text `tx`, labels `bs`, and per-character tag
lists `tt` once the pending tag is flushed -/
def Good (s : PartSt) (tx : List Char) (bs : List B) (tt : List (List (List Char))) : Prop :=
  ∃ pre cur pend, s = ⟨tx, bs, pre ++ [cur], pend, false, false⟩ ∧ tt = pre ++ [curOf cur pend]

/-- one written tag -/
theorem good_tag {s : PartSt} {tx : List Char} {bs : List B} {pre : List (List (List Char))}
    {last : List (List Char)} (h : Good s tx bs (pre ++ [last])) (t : Tag) (rest : List Char) :
    ∃ s', partRun s (writeTagsWith escPart [t] ++ rest) = partRun s' rest ∧
      Good s' tx bs (pre ++ [last ++ [t.getD []]]) := by
  obtain ⟨pre', cur, pend, rfl, htt⟩ := h
  have hpre := List.append_inj' htt rfl
  obtain ⟨rfl, hlast⟩ := hpre
  simp only [List.cons.injEq, and_true] at hlast
  subst hlast
  refine ⟨⟨tx, bs, pre ++ [curOf cur pend], some (t.getD []), false, false⟩, ?_, pre, curOf cur pend, _, rfl, rfl⟩
  cases t with
  | none =>
    simp only [writeTagsWith, List.cons_append, List.nil_append, Option.getD_none]
    rw [partRun_cons_ok (partStep_slash tx bs pre cur pend)]
  | some t =>
    simp only [writeTagsWith, List.cons_append, List.append_nil, Option.getD_some]
    rw [partRun_cons_ok (partStep_slash tx bs pre cur pend), partRun_esc_tag]
    simp

theorem writeTagsWith_cons (esc : List Char → List Char) (t : Tag) (ts : List Tag) :
    writeTagsWith esc (t :: ts) = writeTagsWith esc [t] ++ writeTagsWith esc ts := by
  cases t <;> simp [writeTagsWith]

/-- all written tags of one character -/
theorem good_tags {tx : List Char} {bs : List B} {pre : List (List (List Char))} (ts : List Tag) :
    ∀ {s : PartSt} {last : List (List Char)}, Good s tx bs (pre ++ [last]) → ∀ (rest : List Char),
    ∃ s', partRun s (writeTagsWith escPart ts ++ rest) = partRun s' rest ∧
      Good s' tx bs (pre ++ [last ++ ts.map (·.getD [])]) := by
  induction ts with
  | nil => intro s last h rest; exact ⟨s, by simp [writeTagsWith], by simpa using h⟩
  | cons t ts ih =>
    intro s last h rest
    rw [writeTagsWith_cons, List.append_assoc]
    obtain ⟨s1, h1, g1⟩ := good_tag h t (writeTagsWith escPart ts ++ rest)
    obtain ⟨s2, h2, g2⟩ := ih g1 rest
    exact ⟨s2, by rw [h1, h2], by simpa using g2⟩

/-- a boundary label followed by the next character -/
theorem good_boundary {s : PartSt} {tx : List Char} {bs : List B} {tt : List (List (List Char))}
    (h : Good s tx bs tt) (b : B) (c : Char) (h0 : c ≠ '\x00') (rest : List Char) :
    ∃ s', partRun s (b.partChar :: c :: rest) = partRun s' rest ∧
      Good s' (tx ++ [c]) (bs ++ [b]) (tt ++ [[]]) := by
  obtain ⟨pre, cur, pend, rfl, rfl⟩ := h
  refine ⟨⟨tx ++ [c], bs ++ [b], (pre ++ [curOf cur pend]) ++ [[]], none, false, false⟩, ?_,
    pre ++ [curOf cur pend], [], none, rfl, rfl⟩
  rw [partRun_cons_ok (partStep_boundary tx bs pre cur pend b),
    partRun_cons_ok (partStep_char _ _ _ _ _ c h0)]

/-- the tagged writer's loop -/
theorem good_writeTagged (cs : List Char) :
    ∀ (tss : List (List Tag)) (bounds : List B) {s : PartSt} {tx : List Char} {bs : List B}
      {tt : List (List (List Char))}, Good s tx bs tt → (∀ c ∈ cs, c ≠ '\x00') →
      cs.length = tss.length → cs.length = bounds.length →
      ∃ s', partRun s (writePartTagged cs tss bounds) = .ok s' ∧
        Good s' (tx ++ cs) (bs ++ bounds) (tt ++ tss.map fun ts => (trimNone ts).map (·.getD [])) := by
  induction cs with
  | nil =>
    intro tss bounds s tx bs tt h _ h1 h2
    cases tss with
    | cons _ _ => simp at h1
    | nil =>
      cases bounds with
      | cons _ _ => simp at h2
      | nil => exact ⟨s, by simp [writePartTagged, partRun], by simpa using h⟩
  | cons c cs ih =>
    intro tss bounds s tx bs tt h h0 h1 h2
    cases tss with
    | nil => simp at h1
    | cons ts tss =>
      cases bounds with
      | nil => simp at h2
      | cons b bounds =>
        simp only [writePartTagged, List.cons_append]
        obtain ⟨s1, e1, g1⟩ := good_boundary h b c (h0 c (by simp))
          (writeTagsWith escPart (trimNone ts) ++ writePartTagged cs tss bounds)
        obtain ⟨s2, e2, g2⟩ := good_tags (trimNone ts) g1 (writePartTagged cs tss bounds)
        obtain ⟨s3, e3, g3⟩ := ih tss bounds g2 (fun d hd => h0 d (by simp [hd]))
          (by simpa using h1) (by simpa using h2)
        refine ⟨s3, by rw [e1, e2, e3], ?_⟩
        simpa using g3

/-- the untagged writer's loop -/
theorem good_writePlain (cs : List Char) :
    ∀ (bounds : List B) {s : PartSt} {tx : List Char} {bs : List B}
      {tt : List (List (List Char))}, Good s tx bs tt → (∀ c ∈ cs, c ≠ '\x00') →
      cs.length = bounds.length →
      ∃ s', partRun s (writePartPlain cs bounds) = .ok s' ∧
        Good s' (tx ++ cs) (bs ++ bounds) (tt ++ List.replicate cs.length []) := by
  induction cs with
  | nil =>
    intro bounds s tx bs tt h _ h2
    cases bounds with
    | cons _ _ => simp at h2
    | nil => exact ⟨s, by simp [writePartPlain, partRun], by simpa using h⟩
  | cons c cs ih =>
    intro bounds s tx bs tt h h0 h2
    cases bounds with
    | nil => simp at h2
    | cons b bounds =>
      simp only [writePartPlain]
      obtain ⟨s1, e1, g1⟩ := good_boundary h b c (h0 c (by simp)) (writePartPlain cs bounds)
      obtain ⟨s3, e3, g3⟩ := ih bounds g1 (fun d hd => h0 d (by simp [hd])) (by simpa using h2)
      refine ⟨s3, by rw [e1, e3], ?_⟩
      simpa [List.replicate_succ] using g3

/-- the state after the first character -/
theorem good_first (c : Char) (h0 : c ≠ '\x00') (rest : List Char) :
    ∃ s', partRun {} (c :: rest) = partRun s' rest ∧ Good s' [c] [] [[]] :=
  ⟨⟨[c], [], [[]], none, false, false⟩, partRun_cons_ok (partStep_char [] [] [] none false c h0) rest,
    [], [], none, rfl, rfl⟩

/-- the end of `parse_partial_annotation` in a good state -/
theorem parsePartial_of_good {w : List Char} {s : PartSt} {tx : List Char} {bs : List B}
    {tt : List (List (List Char))} (hw : w ≠ []) (hr : partRun {} w = .ok s) (h : Good s tx bs tt) :
    parsePartial w = .ok ⟨tx, bs, padTags (maxLen tt) tt⟩ := by
  obtain ⟨pre, cur, pend, rfl, rfl⟩ := h
  cases pend with
  | none => simp [parsePartial, hw, hr, curOf]
  | some p => simp [parsePartial, hw, hr, curOf, pushLast_snoc]

end V.C04L
