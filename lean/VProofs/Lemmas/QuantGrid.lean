import VProofs.Lemmas.QuantRound
/-!
# `roundUnits`: correct rounding to 53 significant bits never crosses a representable value, error bounds, monotonicity
-/
namespace V.QuantL
open V V.F64

/-- the grid exponent used for `n/d` -/
def shiftOf (n d : Nat) : Nat := (n / d).log2 - 52

theorem roundUnits_eq (n d : Nat) :
    roundUnits n d = rneDiv n (d * 2 ^ shiftOf n d) * 2 ^ shiftOf n d := rfl

theorem two_pow_pos (k : Nat) : 0 < 2 ^ k := Nat.pow_pos (by decide)

/-- `n/d < 2^(s+53)` -/
theorem shift_upper (n d : Nat) (hd : 0 < d) : n < d * 2 ^ (shiftOf n d + 53) := by
  have h1 : n / d < 2 ^ ((n / d).log2 + 1) := Nat.lt_log2_self
  have h2 : 2 ^ ((n / d).log2 + 1) ≤ 2 ^ (shiftOf n d + 53) :=
    Nat.pow_le_pow_right (by decide) (by unfold shiftOf; omega)
  have h3 : n / d < 2 ^ (shiftOf n d + 53) := Nat.lt_of_lt_of_le h1 h2
  rw [Nat.mul_comm]
  exact (Nat.div_lt_iff_lt_mul hd).mp h3

/-- either the grid is the integers, or `2^(s+52) ≤ n/d` -/
theorem shift_lower (n d : Nat) (hd : 0 < d) : shiftOf n d = 0 ∨ d * 2 ^ (shiftOf n d + 52) ≤ n := by
  by_cases h : shiftOf n d = 0
  · exact Or.inl h
  · right
    have hl : (n / d).log2 = shiftOf n d + 52 := by unfold shiftOf at h ⊢; omega
    have hne : n / d ≠ 0 := by
      intro h0
      rw [h0] at hl
      have : Nat.log2 0 = 0 := by decide
      omega
    have h1 : 2 ^ (n / d).log2 ≤ n / d := Nat.log2_self_le hne
    rw [hl] at h1
    rw [Nat.mul_comm]
    exact (Nat.le_div_iff_mul_le hd).mp h1

theorem shift_mono (n₁ n₂ d : Nat) (h : n₁ ≤ n₂) : shiftOf n₁ d ≤ shiftOf n₂ d := by
  have hdiv : n₁ / d ≤ n₂ / d := Nat.div_le_div_right h
  have : (n₁ / d).log2 ≤ (n₂ / d).log2 := by
    by_cases h0 : n₁ / d = 0
    · rw [h0]
      have : Nat.log2 0 = 0 := by decide
      omega
    · have h2 : n₂ / d ≠ 0 := Nat.ne_of_gt (Nat.lt_of_lt_of_le (Nat.pos_of_ne_zero h0) hdiv)
      apply Nat.le_of_not_lt
      intro hlt
      have a := (Nat.log2_lt h2).mp hlt
      have b := Nat.log2_self_le h0
      omega
  unfold shiftOf
  omega

/-- the integer mantissa is at most `2^53` -/
theorem mant_le (n d : Nat) (hd : 0 < d) : rneDiv n (d * 2 ^ shiftOf n d) ≤ 2 ^ 53 := by
  apply rneDiv_le_of_le _ _ _ (Nat.mul_pos hd (two_pow_pos _))
  have := shift_upper n d hd
  rw [Nat.pow_add, ← Nat.mul_assoc] at this
  exact Nat.le_of_lt this

/-- above the integer grid the integer mantissa is at least `2^52` -/
theorem mant_ge (n d : Nat) (hd : 0 < d) (hs : shiftOf n d ≠ 0) : 2 ^ 52 ≤ rneDiv n (d * 2 ^ shiftOf n d) := by
  apply le_rneDiv_of_le _ _ _ (Nat.mul_pos hd (two_pow_pos _))
  rcases shift_lower n d hd with h | h
  · exact absurd h hs
  · rw [Nat.pow_add, ← Nat.mul_assoc] at h
    exact h

/-- `c·2^t` with `c < 2^53`: the finite binary64 magnitudes (exponent unbounded above) -/
def RepU (g : Nat) : Prop := ∃ c t, g = c * 2 ^ t ∧ c < 2 ^ 53

theorem pow_split {s t : Nat} (h : s ≤ t) : 2 ^ t = 2 ^ (t - s) * 2 ^ s := by
  rw [← Nat.pow_add]; congr 1; omega

/-- correct rounding never crosses a representable value (from below) -/
theorem roundUnits_le_of_le (n d g : Nat) (hd : 0 < d) (hg : RepU g) (h : n ≤ d * g) : roundUnits n d ≤ g := by
  obtain ⟨c, t, rfl, hc⟩ := hg
  rw [roundUnits_eq]
  have hD : 0 < d * 2 ^ shiftOf n d := Nat.mul_pos hd (two_pow_pos _)
  by_cases hst : shiftOf n d ≤ t
  · rw [pow_split hst, ← Nat.mul_assoc]
    apply Nat.mul_le_mul_right
    apply rneDiv_le_of_le _ _ _ hD
    rw [pow_split hst] at h
    have e : d * (c * (2 ^ (t - shiftOf n d) * 2 ^ shiftOf n d))
        = d * 2 ^ shiftOf n d * (c * 2 ^ (t - shiftOf n d)) := by ac_rfl
    rw [← e]
    exact h
  · exfalso
    have hs0 : shiftOf n d ≠ 0 := by omega
    rcases shift_lower n d hd with h0 | h0
    · exact hs0 h0
    · -- `d·2^(s+52) ≤ n ≤ d·c·2^t < d·2^(t+53) ≤ d·2^(s+52)`
      have h1 : c * 2 ^ t < 2 ^ 53 * 2 ^ t := Nat.mul_lt_mul_of_pos_right hc (two_pow_pos _)
      have h2 : 2 ^ 53 * 2 ^ t ≤ 2 ^ (shiftOf n d + 52) := by
        rw [← Nat.pow_add]
        exact Nat.pow_le_pow_right (by decide) (by omega)
      have h3 : d * (c * 2 ^ t) < d * 2 ^ (shiftOf n d + 52) :=
        Nat.mul_lt_mul_of_pos_left (Nat.lt_of_lt_of_le h1 h2) hd
      omega

/-- correct rounding never crosses a representable value (from above) -/
theorem le_roundUnits_of_le (n d g : Nat) (hd : 0 < d) (hg : RepU g) (h : d * g ≤ n) : g ≤ roundUnits n d := by
  obtain ⟨c, t, rfl, hc⟩ := hg
  rw [roundUnits_eq]
  have hD : 0 < d * 2 ^ shiftOf n d := Nat.mul_pos hd (two_pow_pos _)
  by_cases hst : shiftOf n d ≤ t
  · rw [pow_split hst, ← Nat.mul_assoc]
    apply Nat.mul_le_mul_right
    apply le_rneDiv_of_le _ _ _ hD
    rw [pow_split hst] at h
    have e : d * (c * (2 ^ (t - shiftOf n d) * 2 ^ shiftOf n d))
        = d * 2 ^ shiftOf n d * (c * 2 ^ (t - shiftOf n d)) := by ac_rfl
    rw [← e]
    exact h
  · have hs0 : shiftOf n d ≠ 0 := by omega
    have hm := mant_ge n d hd hs0
    have h1 : c * 2 ^ t ≤ 2 ^ 53 * 2 ^ t := Nat.mul_le_mul_right _ (Nat.le_of_lt hc)
    have h2 : 2 ^ 53 * 2 ^ t ≤ 2 ^ 52 * 2 ^ shiftOf n d := by
      rw [← Nat.pow_add, ← Nat.pow_add]
      exact Nat.pow_le_pow_right (by decide) (by omega)
    have h3 : 2 ^ 52 * 2 ^ shiftOf n d ≤ rneDiv n (d * 2 ^ shiftOf n d) * 2 ^ shiftOf n d :=
      Nat.mul_le_mul_right _ hm
    omega

/-- a representable value is not changed -/
theorem roundUnits_exact (g d : Nat) (hd : 0 < d) (hg : RepU g) : roundUnits (d * g) d = g :=
  Nat.le_antisymm (roundUnits_le_of_le _ _ _ hd hg (Nat.le_refl _)) (le_roundUnits_of_le _ _ _ hd hg (Nat.le_refl _))

/-- the result is representable -/
theorem roundUnits_rep (n d : Nat) (hd : 0 < d) : RepU (roundUnits n d) := by
  rw [roundUnits_eq]
  have h := mant_le n d hd
  by_cases he : rneDiv n (d * 2 ^ shiftOf n d) = 2 ^ 53
  · refine ⟨1, 53 + shiftOf n d, ?_, by decide⟩
    rw [he, Nat.one_mul, Nat.pow_add]
  · exact ⟨_, _, rfl, by omega⟩

/-- lower error bound: half a unit on the integer grid, relative `2^-53` above it -/
theorem roundUnits_lower (n d : Nat) (hd : 0 < d) :
    2 * n ≤ 2 * (d * roundUnits n d) + d ∨ 2 ^ 53 * n ≤ 2 ^ 53 * (d * roundUnits n d) + n := by
  have hD : 0 < d * 2 ^ shiftOf n d := Nat.mul_pos hd (two_pow_pos _)
  have hs := (rneDiv_spec n (d * 2 ^ shiftOf n d) hD).2.1
  have e : d * 2 ^ shiftOf n d * rneDiv n (d * 2 ^ shiftOf n d) = d * roundUnits n d := by
    rw [roundUnits_eq]; ac_rfl
  rw [e] at hs
  rcases shift_lower n d hd with h0 | h0
  · left
    rw [h0, Nat.pow_zero, Nat.mul_one] at hs
    exact hs
  · right
    rw [Nat.pow_add, ← Nat.mul_assoc] at h0
    omega

/-- upper error bound -/
theorem roundUnits_upper (n d : Nat) (hd : 0 < d) :
    2 * (d * roundUnits n d) ≤ 2 * n + d ∨ 2 ^ 53 * (d * roundUnits n d) ≤ 2 ^ 53 * n + n := by
  have hD : 0 < d * 2 ^ shiftOf n d := Nat.mul_pos hd (two_pow_pos _)
  have hs := (rneDiv_spec n (d * 2 ^ shiftOf n d) hD).1
  have e : d * 2 ^ shiftOf n d * rneDiv n (d * 2 ^ shiftOf n d) = d * roundUnits n d := by
    rw [roundUnits_eq]; ac_rfl
  rw [e] at hs
  rcases shift_lower n d hd with h0 | h0
  · left
    rw [h0, Nat.pow_zero, Nat.mul_one] at hs
    exact hs
  · right
    rw [Nat.pow_add, ← Nat.mul_assoc] at h0
    omega

/-- correct rounding is monotone in the numerator -/
theorem roundUnits_mono (n₁ n₂ d : Nat) (hd : 0 < d) (h : n₁ ≤ n₂) : roundUnits n₁ d ≤ roundUnits n₂ d := by
  have hsm := shift_mono n₁ n₂ d h
  rw [roundUnits_eq, roundUnits_eq]
  by_cases heq : shiftOf n₁ d = shiftOf n₂ d
  · rw [heq]
    exact Nat.mul_le_mul_right _ (rneDiv_mono _ _ _ (Nat.mul_pos hd (two_pow_pos _)) h)
  · have hs2 : shiftOf n₂ d ≠ 0 := by omega
    have a := mant_le n₁ d hd
    have b := mant_ge n₂ d hd hs2
    have h1 : rneDiv n₁ (d * 2 ^ shiftOf n₁ d) * 2 ^ shiftOf n₁ d ≤ 2 ^ 53 * 2 ^ shiftOf n₁ d :=
      Nat.mul_le_mul_right _ a
    have h2 : 2 ^ 53 * 2 ^ shiftOf n₁ d ≤ 2 ^ 52 * 2 ^ shiftOf n₂ d := by
      rw [← Nat.pow_add, ← Nat.pow_add]
      exact Nat.pow_le_pow_right (by decide) (by omega)
    have h3 : 2 ^ 52 * 2 ^ shiftOf n₂ d ≤ rneDiv n₂ (d * 2 ^ shiftOf n₂ d) * 2 ^ shiftOf n₂ d :=
      Nat.mul_le_mul_right _ b
    omega

/-- scale invariance -/
theorem roundUnits_scale (n d c : Nat) (hc : 0 < c) : roundUnits (n * c) (d * c) = roundUnits n d := by
  have hs : shiftOf (n * c) (d * c) = shiftOf n d := by
    unfold shiftOf; rw [Nat.mul_div_mul_right n d hc]
  rw [roundUnits_eq, roundUnits_eq, hs]
  congr 1
  rw [Nat.mul_right_comm]
  exact rneDiv_scale _ _ _ hc

end V.QuantL
