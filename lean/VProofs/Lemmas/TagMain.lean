import VModel.Spec
import VProofs.Lemmas.TagLoop
/-!
# `predict_tags` as a whole: every token of `specTokens` gets its row and its score vector (for C06)
-/
namespace V.C06L
open V.C01L

abbrev TSc := Option (List (List (List Char)) × List Int)

def noneRow (m : WModel) : List Tag := List.replicate (specNTags m) none

/-- what `tag_scores` holds for a token -/
def scoreVal (cfg : Cfg) (m : WModel) (text : List Char) (t : Nat × Nat) : TSc :=
  (tagModelOf m ((text.drop t.1).take (t.2 - t.1))).map fun tm => (tm.tags, scoreVec cfg tm text (t.2 - 1))

def rowVal (m : WModel) (text : List Char) (t : Nat × Nat) : List Tag := specTokenTags m text t.1 t.2

theorem tagModelOf_mem (m : WModel) (tok : List Char) (tm : TagModel) (h : tagModelOf m tok = some tm) :
    tm ∈ m.tagModels := by
  unfold tagModelOf at h
  exact List.mem_reverse.mp (List.mem_of_find?_eq_some h)

theorem rowVal_length (m : WModel) (text : List Char) (t : Nat × Nat) : (rowVal m text t).length = specNTags m := by
  unfold rowVal specTokenTags
  split
  · simp
  · rename_i tm h
    have := tags_le_nTags m tm (tagModelOf_mem m _ tm h)
    simp only [List.length_append, List.length_replicate, specPickTags_length]
    omega

theorem sent_upd_eq (s : Sentence) (a : List Tag) (b : List TSc) (ha : s.tags = a) (hb : s.tagScores = b) :
    s = { s with tags := a, tagScores := b } := by
  subst ha; subst hb; rfl

theorem set_self {β : Type} (l : List β) (i : Nat) (x : β) (h : l[i]? = some x) : l.set i x = l := by
  apply List.ext_getElem?
  intro j
  rw [List.getElem?_set]
  by_cases hij : i = j
  · subst hij
    have hlt : i < l.length := by
      rcases Nat.lt_or_ge i l.length with h' | h'
      · exact h'
      · rw [List.getElem?_eq_none h'] at h; cases h
    rw [if_pos rfl, if_pos hlt, h]
  · rw [if_neg hij]

theorem runToks_spec (cfg : Cfg) (m : WModel) (p : Predictor) (hP : PredOK cfg m p) (hW : WFT m)
    (text : List Char) (hne : 0 < text.length) (store : Bool) (toks : List (Nat × Nat)) :
    (∀ t ∈ toks, t.1 < t.2 ∧ t.2 ≤ text.length) → (toks.map fun t => t.2 - 1).Nodup →
    ∀ (s : Sentence) (R : List (List Tag)) (TS : List TSc),
      StOK p text s → s.tags = R.flatten → R.length = text.length → (∀ r ∈ R, r.length = specNTags m) →
      (∀ t ∈ toks, R[t.2 - 1]? = some (noneRow m)) →
      s.tagScores = (if store = true then TS else []) → TS.length = text.length →
      (∀ t ∈ toks, TS[t.2 - 1]? = some none) →
      runToks (tagToken p (tpmOf cfg m)) toks s
        = .ok { s with
            tags := (toks.foldl (fun R t => R.set (t.2 - 1) (rowVal m text t)) R).flatten,
            tagScores := if store = true then toks.foldl (fun TS t => TS.set (t.2 - 1) (scoreVal cfg m text t)) TS
                         else [] } := by
  induction toks with
  | nil =>
    intro _ _ s R TS _ h1 _ _ _ h2 _ _
    simp only [runToks, List.foldl_nil]
    rw [← sent_upd_eq s _ _ h1 h2]
  | cons t ts ih =>
    intro hrange hnd s R TS hs hR hRl hRr hRp hT hTl hTp
    simp only [List.map_cons, List.nodup_cons] at hnd
    obtain ⟨ht1, ht2⟩ := hrange t List.mem_cons_self
    have hkey : ∀ t' ∈ ts, ¬ t.2 - 1 = t'.2 - 1 := by
      intro t' ht' e
      exact hnd.1 (List.mem_map.mpr ⟨t', ht', e.symm⟩)
    have hRi := hRp t List.mem_cons_self
    have hTi := hTp t List.mem_cons_self
    have hi1 : t.2 - 1 + 1 = t.2 := by omega
    -- one step
    have hstep : tagToken p (tpmOf cfg m) s t.1 (t.2 - 1)
        = .ok { s with tags := (R.set (t.2 - 1) (rowVal m text t)).flatten,
                       tagScores := if store = true then TS.set (t.2 - 1) (scoreVal cfg m text t) else [] } := by
      rw [tagToken_spec cfg m p hP hW text s hs t.1 (t.2 - 1) (by omega) (by omega)
        (by rw [hR, flatten_length_rows _ R hRr, hRl, hi1]; exact Nat.mul_le_mul_right _ ht2)
        (by rw [hR]; exact flatten_row_get _ R hRr _ _ hRi)]
      congr 1
      unfold tokStep rowVal scoreVal specTokenTags
      rw [hi1]
      cases hmo : tagModelOf m ((text.drop t.1).take (t.2 - t.1)) with
      | none =>
        simp only [Option.map_none]
        have hRi' : R[t.2 - 1]? = some (List.replicate (specNTags m) none) := hRi
        apply sent_upd_eq
        · rw [set_self R _ _ hRi', hR]
        · rw [hT, set_self TS _ _ hTi]
      | some tm =>
        simp only [Option.map_some]
        have hset : s.tags.take ((t.2 - 1) * specNTags m) ++ rowOf m tm text (t.2 - 1)
              ++ s.tags.drop (t.2 * specNTags m)
            = (R.set (t.2 - 1) (specPickTags tm.tags (specTagScores tm text (t.2 - 1)) ++
                List.replicate (specNTags m - (specPickTags tm.tags (specTagScores tm text (t.2 - 1))).length) none)).flatten := by
          rw [hR, specPickTags_length]
          have := flatten_row_set (specNTags m) R hRr (rowOf m tm text (t.2 - 1)) (t.2 - 1) (by omega)
          rw [hi1] at this
          exact this
        have hsc : (if s.tagScores.isEmpty = true then s.tagScores
              else s.tagScores.set (t.2 - 1) (some (tm.tags, scoreVec cfg tm text (t.2 - 1))))
            = (if store = true then TS.set (t.2 - 1) (some (tm.tags, scoreVec cfg tm text (t.2 - 1))) else []) := by
          rw [hT]
          cases store with
          | true =>
            simp only [if_true]
            have : TS.isEmpty = false := by
              cases TS with
              | nil => simp only [List.length_nil] at hTl; omega
              | cons _ _ => rfl
            rw [this]; rfl
          | false => rfl
        rw [hset, hsc]
    rw [runToks, hstep]
    simp only
    have hih := ih (fun t' ht' => hrange t' (List.mem_cons_of_mem _ ht')) hnd.2
      { s with tags := (R.set (t.2 - 1) (rowVal m text t)).flatten,
               tagScores := if store = true then TS.set (t.2 - 1) (scoreVal cfg m text t) else [] }
      (R.set (t.2 - 1) (rowVal m text t)) (TS.set (t.2 - 1) (scoreVal cfg m text t))
      ⟨hs.text_eq, hs.cst, hs.tst⟩ rfl (by rw [List.length_set]; exact hRl)
      (by
        intro r hr
        rcases List.mem_or_eq_of_mem_set hr with h | h
        · exact hRr r h
        · rw [h]; exact rowVal_length m text t)
      (by
        intro t' ht'
        rw [List.getElem?_set, if_neg (hkey t' ht')]
        exact hRp t' (List.mem_cons_of_mem _ ht'))
      rfl (by rw [List.length_set]; exact hTl)
      (by
        intro t' ht'
        rw [List.getElem?_set, if_neg (hkey t' ht')]
        exact hTp t' (List.mem_cons_of_mem _ ht'))
    rw [hih]
    rfl

/-! ## assembling -/

/-- same body as `V.specAllTags` (defined in `C06.lean`) -/
def allTags (m : WModel) (text : List Char) (bs : List B) : List Tag :=
  (List.range text.length).flatMap fun i =>
    match (specTokens bs).find? (fun se => se.2 = i + 1) with
    | some (st, en) => specTokenTags m text st en
    | none => List.replicate (specNTags m) none

def allScores (cfg : Cfg) (m : WModel) (text : List Char) (bs : List B) : List TSc :=
  (specTokens bs).foldl (fun TS t => TS.set (t.2 - 1) (scoreVal cfg m text t)) (List.replicate text.length none)

theorem flatten_replicate_replicate {β : Type} (n k : Nat) (a : β) :
    (List.replicate n (List.replicate k a)).flatten = List.replicate (n * k) a := by
  induction n with
  | zero => simp
  | succ n ih =>
    rw [List.replicate_succ, List.flatten_cons, ih, Nat.succ_mul, Nat.add_comm, List.replicate_append_replicate]

theorem find?_key_congr (toks : List (Nat × Nat)) (h : ∀ t ∈ toks, 0 < t.2) (j : Nat) :
    toks.find? (fun t => decide (t.2 - 1 = j)) = toks.find? (fun se => decide (se.2 = j + 1)) := by
  induction toks with
  | nil => rfl
  | cons a r ih =>
    have ha := h a List.mem_cons_self
    have hr := ih (fun t ht => h t (List.mem_cons_of_mem _ ht))
    by_cases hk : a.2 - 1 = j
    · rw [List.find?_cons_of_pos (by simpa using hk), List.find?_cons_of_pos (by simp; omega)]
    · rw [List.find?_cons_of_neg (by simpa using hk), List.find?_cons_of_neg (by simp; omega), hr]

theorem rows_eq_allTags (m : WModel) (text : List Char) (bs : List B) :
    ((specTokens bs).foldl (fun R t => R.set (t.2 - 1) (rowVal m text t))
      (List.replicate text.length (noneRow m))).flatten = allTags m text bs := by
  unfold allTags
  rw [List.flatMap_def]
  congr 1
  apply List.ext_getElem?
  intro j
  rw [foldl_set_get _ _ (specTokens_keys_nodup bs), List.length_replicate, List.getElem?_map,
    find?_key_congr _ (fun t ht => by have := specTokens_range bs t ht; omega) j]
  by_cases hj : j < text.length
  · rw [List.getElem?_range hj]
    simp only [Option.map_some]
    cases (specTokens bs).find? (fun se => decide (se.2 = j + 1)) with
    | none =>
      simp only
      rw [List.getElem?_replicate, if_pos hj]; rfl
    | some t =>
      obtain ⟨st, en⟩ := t
      simp only
      rw [if_pos hj]; rfl
  · have hr : (List.range text.length)[j]? = none := List.getElem?_eq_none (by simpa using hj)
    rw [hr]
    cases (specTokens bs).find? (fun se => decide (se.2 = j + 1)) with
    | none =>
      simp only
      rw [List.getElem?_replicate, if_neg hj]; rfl
    | some t =>
      simp only
      rw [if_neg hj]; rfl

/-- **`predict_tags`** on a sentence that `predict` has been run on, with any labels -/
theorem predictTags_spec (cfg : Cfg) (m : WModel) (p : Predictor) (hP : PredOK cfg m p) (hW : WFT m)
    (text : List Char) (hne : 0 < text.length) (s1 : Sentence) (hs : StOK p text s1)
    (htypes : s1.types.length = text.length) (bs : List B) (hbs : bs.length + 1 = text.length)
    (hn : 0 < specNTags m) (store : Bool) :
    ({ p with storeTagScores := store } : Predictor).predictTags { s1 with bounds := bs }
      = .ok { s1 with bounds := bs, nTags := specNTags m, tags := allTags m text bs,
                      tagScores := if store = true then allScores cfg m text bs else [] } := by
  have hP0 : PredOK cfg m { p with storeTagScores := store } := ⟨hP.tpm, hP.nTags, hP.cs, hP.ts⟩
  have hs0 : StOK { p with storeTagScores := store } text s1 := ⟨hs.text_eq, hs.cst, hs.tst⟩
  have hst0 : ({ p with storeTagScores := store } : Predictor).storeTagScores = store := rfl
  generalize ({ p with storeTagScores := store } : Predictor) = p' at hP0 hs0 hst0 ⊢
  rw [predictTags_eq _ (tpmOf cfg m) _ hP0.tpm (by rw [hP0.nTags]; omega)]
  rw [go_runToks _ _ _ bs 0 (some 0) _ 0 false rfl (by simp only [htypes]; omega)]
  have hrun := runToks_spec cfg m p' hP0 hW text hne store (specTokens bs)
    (fun t ht => by have := specTokens_range bs t ht; omega) (specTokens_keys_nodup bs)
    { s1 with bounds := bs, nTags := specNTags m, tags := List.replicate (text.length * specNTags m) none,
              tagScores := if store = true then List.replicate text.length none else [] }
    (List.replicate text.length (noneRow m)) (List.replicate text.length none)
    ⟨hs0.text_eq, hs0.cst, hs0.tst⟩
    (by unfold noneRow; rw [flatten_replicate_replicate])
    (List.length_replicate) (fun r hr => by rw [List.eq_of_mem_replicate hr]; simp [noneRow])
    (fun t ht => by
      have := specTokens_range bs t ht
      rw [List.getElem?_replicate, if_pos (by omega)])
    rfl (List.length_replicate)
    (fun t ht => by
      have := specTokens_range bs t ht
      rw [List.getElem?_replicate, if_pos (by omega)])
  have hty : ({ s1 with bounds := bs } : Sentence).types.length = text.length := htypes
  rw [hP0.nTags, hst0, hty]
  show runToks _ (specTokens bs) _ = _
  rw [hrun, rows_eq_allTags]
  rfl

end V.C06L
