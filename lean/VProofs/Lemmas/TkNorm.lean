import VModel.Tantivy
/-!
# TkNorm — the generated full-width table, seen only through whole-table boolean checks
-/
namespace V.C16L
open V V.Gen

/-- (a) every image is a single code point -/
theorem tbl_single : fullwidthTable.all (fun e => e.2.length == 1) = true := by decide +kernel

/-- (b) every image code point is a Unicode scalar value, and (d) is not NUL -/
theorem tbl_valid : fullwidthTable.all (fun e => e.2.all (fun v => decide (Nat.isValidChar v) && decide (v ≠ 0))) = true := by
  decide +kernel

/-- (c) no image is itself a key of the table -/
theorem tbl_nokey : fullwidthTable.all (fun e => e.2.all (fun v => (lookupFw v fullwidthTable).isNone)) = true := by
  decide +kernel

theorem lookupFw_mem {n : Nat} {v : List Nat} : ∀ {tbl : List (Nat × List Nat)}, lookupFw n tbl = some v → (n, v) ∈ tbl
  | [], h => by simp [lookupFw] at h
  | (k, w) :: r, h => by
    unfold lookupFw at h
    split at h
    · next hk => injection h with h; subst hk; subst h; exact List.mem_cons_self
    · exact List.mem_cons_of_mem _ (lookupFw_mem h)

theorem toNat_ofNat {v : Nat} (h : Nat.isValidChar v) : (Char.ofNat v).toNat = v := by
  unfold Char.ofNat
  rw [dif_pos h]
  rfl

/-- the per-character map of `C16_norm_only_table` -/
def g (c : Char) : Char :=
  match lookupFw c.toNat fullwidthTable with
  | some [v] => Char.ofNat v
  | _ => c

theorem lookup_shape {n : Nat} {v : List Nat} (h : lookupFw n fullwidthTable = some v) :
    ∃ x, v = [x] ∧ Nat.isValidChar x ∧ x ≠ 0 ∧ lookupFw x fullwidthTable = none := by
  have hm := lookupFw_mem h
  have h1 := List.all_eq_true.mp tbl_single _ hm
  have h2 := List.all_eq_true.mp tbl_valid _ hm
  have h3 := List.all_eq_true.mp tbl_nokey _ hm
  simp only [beq_iff_eq] at h1
  match v, h1 with
  | [x], _ =>
    have h2' := List.all_eq_true.mp h2 x List.mem_cons_self
    have h3' := List.all_eq_true.mp h3 x List.mem_cons_self
    simp only [Bool.and_eq_true, decide_eq_true_eq] at h2'
    exact ⟨x, rfl, h2'.1, h2'.2, by simpa [Option.isNone_iff_eq_none] using h3'⟩

theorem fwChar_eq (c : Char) : fwChar c = [g c] := by
  unfold fwChar g
  cases h : lookupFw c.toNat fullwidthTable with
  | none => rfl
  | some v =>
    obtain ⟨x, rfl, _⟩ := lookup_shape h
    rfl

theorem fullwidth_eq_map (s : List Char) : fullwidth s = s.map g := by
  unfold fullwidth
  induction s with
  | nil => rfl
  | cons c cs ih => rw [List.flatMap_cons, ih, fwChar_eq]; rfl

theorem g_idem (c : Char) : g (g c) = g c := by
  cases h : lookupFw c.toNat fullwidthTable with
  | none =>
    have : g c = c := by unfold g; rw [h]
    rw [this, this]
  | some v =>
    obtain ⟨x, rfl, hv, _, hn⟩ := lookup_shape h
    have : g c = Char.ofNat x := by unfold g; rw [h]
    rw [this]
    unfold g
    rw [toNat_ofNat hv, hn]

theorem g_ne_nul (c : Char) (hc : c ≠ '\x00') : g c ≠ '\x00' := by
  cases h : lookupFw c.toNat fullwidthTable with
  | none =>
    have : g c = c := by unfold g; rw [h]
    rw [this]; exact hc
  | some v =>
    obtain ⟨x, rfl, hv, h0, _⟩ := lookup_shape h
    have : g c = Char.ofNat x := by unfold g; rw [h]
    rw [this]
    intro he
    have := congrArg Char.toNat he
    rw [toNat_ofNat hv] at this
    exact h0 this

theorem fullwidth_length (s : List Char) : (fullwidth s).length = s.length := by
  rw [fullwidth_eq_map, List.length_map]

theorem fullwidth_idem (s : List Char) : fullwidth (fullwidth s) = fullwidth s := by
  rw [fullwidth_eq_map s, fullwidth_eq_map, List.map_map]
  exact List.map_congr_left fun c _ => g_idem c

theorem fullwidth_no_nul (s : List Char) (h : '\x00' ∉ s) : '\x00' ∉ fullwidth s := by
  rw [fullwidth_eq_map]
  intro hm
  obtain ⟨c, hc, he⟩ := List.mem_map.mp hm
  exact g_ne_nul c (fun e => h (e ▸ hc)) he

theorem fullwidth_ne_nil (s : List Char) (h : s ≠ []) : fullwidth s ≠ [] := by
  intro he
  have := fullwidth_length s
  rw [he] at this
  exact h (List.eq_nil_of_length_eq_zero this.symm)

end V.C16L
