import VModel.Sentence
/-! Helper lemmas for C02: the mirrored `TokenIterator` computes the specified segments. -/
namespace V

theorem drop_cons_tail {α : Type} {bs : List α} {k : Nat} {b : α} {r : List α}
    (h : b :: r = bs.drop k) : r = bs.drop (k + 1) ∧ k < bs.length := by
  have hk : k < bs.length := by
    apply Classical.byContradiction
    intro hn
    have : bs.drop k = [] := List.drop_eq_nil_of_le (Nat.le_of_not_lt hn)
    rw [this] at h
    cases h
  refine ⟨?_, hk⟩
  have := List.drop_eq_getElem_cons hk
  rw [this] at h
  injection h with _ h2

/-- what `iter_tokens()` yields after a `next()` call returned `r`, with `fuel` further calls -/
def contWith (bs : List B) (fuel : Nat) : Option (Nat × Nat) → List (Nat × Nat)
  | some (s, e') => (s, e') :: iterFrom bs fuel e'
  | none => []

theorem iterFrom_succ (bs : List B) (f e : Nat) :
    iterFrom bs (f + 1) e =
      if e ≤ bs.length then contWith bs f (iterLoop (bs.length + 1) e (bs.drop e) 0 e false) else [] := by
  simp only [iterFrom]
  split
  · cases h : iterLoop (bs.length + 1) e (bs.drop e) 0 e false with
    | none => simp [contWith]
    | some p => cases p; simp [contWith]
  · rfl

/-- one `next()` call followed by all later calls, against the specification scan -/
theorem iterLoop_spec (bs : List B) :
    ∀ (rest : List B) (fuel end0 i start : Nat) (skip : Bool),
      rest = bs.drop (end0 + i) → end0 + i ≤ bs.length → rest.length + 1 ≤ fuel →
      contWith bs fuel (iterLoop (bs.length + 1) end0 rest i start skip) = specSeg rest start (end0 + i) skip := by
  intro rest
  induction rest with
  | nil =>
    intro fuel end0 i start skip hrest hle hfuel
    have hlen : end0 + i = bs.length := by
      have := congrArg List.length hrest
      simp at this
      omega
    cases skip with
    | true => simp [iterLoop, specSeg, contWith]
    | false =>
      simp only [iterLoop, specSeg, Bool.false_eq_true, if_false, contWith]
      cases fuel with
      | zero => simp at hfuel
      | succ f =>
        rw [iterFrom_succ]
        have : ¬ (bs.length + 1 ≤ bs.length) := by omega
        simp only [this, if_false, hlen]
  | cons b r ih =>
    intro fuel end0 i start skip hrest hle hfuel
    obtain ⟨hr, hk⟩ := drop_cons_tail hrest
    have hr' : r = bs.drop (end0 + (i + 1)) := by rw [hr]; congr 1
    have hfuel' : r.length + 1 ≤ fuel := by
      have := hfuel
      simp only [List.length_cons] at this
      omega
    cases b with
    | N =>
      simp only [iterLoop, specSeg]
      have := ih fuel end0 (i + 1) start skip hr' (by omega) hfuel'
      rw [this]; congr 1
    | U =>
      simp only [iterLoop, specSeg]
      have := ih fuel end0 (i + 1) start true hr' (by omega) hfuel'
      rw [this]; congr 1
    | W =>
      cases skip with
      | true =>
        simp only [iterLoop, specSeg, if_true, List.nil_append]
        have := ih fuel end0 (i + 1) (end0 + i + 1) false hr' (by omega) hfuel'
        rw [this]; congr 1
      | false =>
        simp only [iterLoop, specSeg, Bool.false_eq_true, if_false, List.singleton_append, contWith]
        congr 1
        cases fuel with
        | zero => simp at hfuel
        | succ f =>
          rw [iterFrom_succ]
          have hle' : end0 + i + 1 ≤ bs.length := by omega
          simp only [hle', if_true]
          have hr0 : r = bs.drop (end0 + i + 1 + 0) := by rw [hr]
          have hf : r.length + 1 ≤ f := by
            have := hfuel
            simp only [List.length_cons] at this
            omega
          have := ih f (end0 + i + 1) 0 (end0 + i + 1) false hr0 (by omega) hf
          rw [hr] at this ⊢
          exact this

theorem iterTokens_eq_spec (bs : List B) : iterTokens bs = specTokens bs := by
  unfold iterTokens specTokens
  rw [iterFrom_succ]
  simp only [Nat.zero_le, if_true]
  have := iterLoop_spec bs (bs.drop 0) (bs.length + 1) 0 0 0 false rfl (by simp) (by simp)
  simpa using this

end V

namespace V

/-- tokens form an ordered, gap-free chain of non-empty spans from `a` to `z` -/
def IsChain : Nat → List (Nat × Nat) → Nat → Prop
  | _, [], _ => False
  | a, [(s, e)], z => s = a ∧ a < e ∧ e = z
  | a, (s, e) :: t :: r, z => s = a ∧ a < e ∧ IsChain e (t :: r) z

/-- positions (as character indices) of the word boundaries: `p + i + 1` for every `rest[i] = W` -/
def wPos : List B → Nat → List Nat
  | [], _ => []
  | .W :: r, p => (p + 1) :: wPos r (p + 1)
  | _ :: r, p => wPos r (p + 1)

def slice {α : Type} (text : List α) (se : Nat × Nat) : List α := (text.drop se.1).take (se.2 - se.1)

theorem specSeg_ne_nil (rest : List B) (start pos : Nat) (h : ∀ x ∈ rest, x ≠ B.U) :
    specSeg rest start pos false ≠ [] := by
  induction rest generalizing start pos with
  | nil => simp [specSeg]
  | cons b r ih =>
    cases b with
    | N => simp only [specSeg]; exact ih _ _ (fun x hx => h x (by simp [hx]))
    | W => simp [specSeg]
    | U => exact absurd rfl (h B.U (by simp))

theorem specSeg_chain (rest : List B) (start pos : Nat) (h : ∀ x ∈ rest, x ≠ B.U) (hsp : start ≤ pos) :
    IsChain start (specSeg rest start pos false) (pos + rest.length + 1) := by
  induction rest generalizing start pos with
  | nil => simp [specSeg, IsChain]; omega
  | cons b r ih =>
    have hr : ∀ x ∈ r, x ≠ B.U := fun x hx => h x (by simp [hx])
    cases b with
    | N =>
      simp only [specSeg, List.length_cons]
      have := ih start (pos + 1) hr (by omega)
      have e : pos + 1 + r.length + 1 = pos + (r.length + 1) + 1 := by omega
      rw [e] at this; exact this
    | W =>
      simp only [specSeg, Bool.false_eq_true, if_false, List.singleton_append, List.length_cons]
      have := ih (pos + 1) (pos + 1) hr (Nat.le_refl _)
      have hne := specSeg_ne_nil r (pos + 1) (pos + 1) hr
      cases hs : specSeg r (pos + 1) (pos + 1) false with
      | nil => exact absurd hs hne
      | cons t ts =>
        rw [hs] at this
        have e : pos + 1 + r.length + 1 = pos + (r.length + 1) + 1 := by omega
        rw [e] at this
        exact ⟨rfl, by omega, this⟩
    | U => exact absurd rfl (h B.U (by simp))

theorem specSeg_starts (rest : List B) (start pos : Nat) (h : ∀ x ∈ rest, x ≠ B.U) :
    (specSeg rest start pos false).map Prod.fst = start :: wPos rest pos := by
  induction rest generalizing start pos with
  | nil => simp [specSeg, wPos]
  | cons b r ih =>
    have hr : ∀ x ∈ r, x ≠ B.U := fun x hx => h x (by simp [hx])
    cases b with
    | N => simp only [specSeg, wPos]; exact ih _ _ hr
    | W => simp [specSeg, wPos, ih _ _ hr]
    | U => exact absurd rfl (h B.U (by simp))

theorem take_drop_append {α : Type} (t : List α) (a b c : Nat) (hab : a ≤ b) :
    (t.drop a).take (b - a) ++ (t.drop b).take c = (t.drop a).take (b - a + c) := by
  have hb' : b = a + (b - a) := by omega
  have : t.drop b = (t.drop a).drop (b - a) := by
    rw [List.drop_drop]; congr 1
  rw [this]
  rw [List.take_add]

theorem specSeg_concat {α : Type} (text : List α) (rest : List B) (start pos : Nat)
    (h : ∀ x ∈ rest, x ≠ B.U) (hsp : start ≤ pos) (hlen : pos + rest.length + 1 ≤ text.length) :
    (specSeg rest start pos false).flatMap (slice text) = (text.drop start).take (pos + rest.length + 1 - start) := by
  induction rest generalizing start pos with
  | nil => simp [specSeg, slice]
  | cons b r ih =>
    have hr : ∀ x ∈ r, x ≠ B.U := fun x hx => h x (by simp [hx])
    simp only [List.length_cons] at hlen
    cases b with
    | N =>
      simp only [specSeg, List.length_cons]
      rw [ih start (pos + 1) hr (by omega) (by omega)]
      congr 1; omega
    | W =>
      simp only [specSeg, Bool.false_eq_true, if_false, List.singleton_append, List.flatMap_cons, List.length_cons]
      rw [ih (pos + 1) (pos + 1) hr (Nat.le_refl _) (by omega)]
      simp only [slice]
      have e1 : pos + 1 + r.length + 1 - (pos + 1) = r.length + 1 := by omega
      rw [e1, take_drop_append text start (pos + 1) (r.length + 1) (by omega)]
      congr 1; omega
    | U => exact absurd rfl (h B.U (by simp))

end V
