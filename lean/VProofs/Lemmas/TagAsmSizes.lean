import VModel.Trainer
import VModel.Spec
/-!
# Helper lemmas for C12: the vectors assembled by `assembleTag`
-/
namespace V.C12L

/-! ## folds over `Res` -/

theorem foldl_res_inv {σ τ : Type} (P : σ → Prop) (f : Res σ → τ → Res σ)
    (hf : ∀ acc t, (∀ s, acc = .ok s → P s) → ∀ s, f acc t = .ok s → P s) :
    ∀ (l : List τ) (acc : Res σ), (∀ s, acc = .ok s → P s) → ∀ s, l.foldl f acc = .ok s → P s := by
  intro l
  induction l with
  | nil => intro acc h s hs; exact h s hs
  | cons t r ih => intro acc h s hs; exact ih (f acc t) (hf acc t h) s hs

/-! ## the three folds of `assembleTag` -/

def biasStep (acc : Res (List Int)) (t : TagTraceItem) : Res (List Int) :=
  match acc, t.feat with
  | .ok b, none =>
    if t.offset + t.cls < b.length then .ok (b.set (t.offset + t.cls) t.weight) else .panic "bias[class_offset + cls]"
  | acc, _ => acc

def charStep (n : Nat) (acc : Res (List ((List Char × Nat) × List Int))) (t : TagTraceItem) :
    Res (List ((List Char × Nat) × List Int)) :=
  match acc, t.feat with
  | .ok m, some (.charNgram g rel) =>
    if t.weight = 0 then .ok m else tagUpsert ltPairC n (g, rel) (t.offset + t.cls) t.weight m
  | acc, _ => acc

def typeStep (n : Nat) (acc : Res (List ((List Nat × Nat) × List Int))) (t : TagTraceItem) :
    Res (List ((List Nat × Nat) × List Int)) :=
  match acc, t.feat with
  | .ok m, some (.typeNgram g rel) =>
    if t.weight = 0 then .ok m else tagUpsert ltPairT n (g, rel) (t.offset + t.cls) t.weight m
  | acc, _ => acc

theorem assembleTag_eq (token : List Char) (examples : List (List Tag)) (trace : List TagTraceItem) :
    assembleTag token examples trace =
      match (trace.filter fun t => t.token = token).foldl biasStep (.ok (List.replicate (nClass (collectTags examples)) 0)),
        (trace.filter fun t => t.token = token).foldl (charStep (nClass (collectTags examples))) (.ok []),
        (trace.filter fun t => t.token = token).foldl (typeStep (nClass (collectTags examples))) (.ok []) with
      | .ok b, .ok c, .ok t =>
        .ok { token := token, tags := collectTags examples, charNgrams := groupTagWeights c,
              typeNgrams := groupTagWeights t, bias := b }
      | .panic p, _, _ => .panic p
      | _, .panic p, _ => .panic p
      | _, _, .panic p => .panic p
      | _, _, _ => .panic "?" := rfl

theorem assembleTag_ok (token : List Char) (examples : List (List Tag)) (trace : List TagTraceItem) (tm : TagModel)
    (h : assembleTag token examples trace = .ok tm) :
    ∃ b c t,
      (trace.filter fun t => t.token = token).foldl biasStep (.ok (List.replicate (nClass (collectTags examples)) 0)) = .ok b ∧
      (trace.filter fun t => t.token = token).foldl (charStep (nClass (collectTags examples))) (.ok []) = .ok c ∧
      (trace.filter fun t => t.token = token).foldl (typeStep (nClass (collectTags examples))) (.ok []) = .ok t ∧
      tm = { token := token, tags := collectTags examples, charNgrams := groupTagWeights c,
             typeNgrams := groupTagWeights t, bias := b } := by
  rw [assembleTag_eq] at h
  generalize (trace.filter fun t => t.token = token).foldl biasStep _ = B at h
  generalize (trace.filter fun t => t.token = token).foldl (charStep _) _ = C at h
  generalize (trace.filter fun t => t.token = token).foldl (typeStep _) _ = T at h
  cases B <;> cases C <;> cases T <;> simp at h
  exact ⟨_, _, _, rfl, rfl, rfl, h.symm⟩

/-! ## vector lengths -/

def VecLen {κ : Type} (n : Nat) (m : List (κ × List Int)) : Prop := ∀ e ∈ m, e.2.length = n

theorem tagUpsert_len {κ : Type} [DecidableEq κ] (lt : κ → κ → Bool) (n : Nat) (k : κ) (slot : Nat) (w : Int) :
    ∀ (m m' : List (κ × List Int)), VecLen n m → tagUpsert lt n k slot w m = .ok m' → VecLen n m' := by
  intro m
  induction m with
  | nil =>
    intro m' _ h
    unfold tagUpsert at h
    split at h
    · cases h
      intro e he
      simp only [List.mem_singleton] at he
      subst he; simp
    · cases h
  | cons x r ih =>
    intro m' hm h
    obtain ⟨k', v⟩ := x
    unfold tagUpsert at h
    have hv : v.length = n := hm (k', v) (List.mem_cons_self ..)
    have hr : VecLen n r := fun e he => hm e (List.mem_cons_of_mem _ he)
    split at h
    · split at h
      · cases h
        intro e he
        rcases List.mem_cons.mp he with he | he
        · subst he; simpa using hv
        · exact hr e he
      · cases h
    · split at h
      · split at h
        · cases h
          intro e he
          rcases List.mem_cons.mp he with he | he
          · subst he; simp
          · exact hm e he
        · cases h
      · cases hrec : tagUpsert lt n k slot w r with
        | ok r' =>
          rw [hrec] at h
          simp only [Res.map] at h
          cases h
          have := ih r' hr hrec
          intro e he
          rcases List.mem_cons.mp he with he | he
          · subst he; exact hv
          · exact this e he
        | err e => rw [hrec] at h; simp [Res.map] at h
        | panic p => rw [hrec] at h; simp [Res.map] at h
        | ub p => rw [hrec] at h; simp [Res.map] at h

theorem biasFold_len (n : Nat) (l : List TagTraceItem) (b : List Int)
    (h : l.foldl biasStep (.ok (List.replicate n 0)) = .ok b) : b.length = n := by
  refine foldl_res_inv (fun b => b.length = n) biasStep ?_ l _ ?_ b h
  · intro acc t hacc s hs
    unfold biasStep at hs
    split at hs
    · rename_i b0 _
      split at hs
      · cases hs
        simpa using hacc b0 rfl
      · cases hs
    · exact hacc s hs
  · intro s hs; cases hs; simp

theorem charFold_len (n : Nat) (l : List TagTraceItem) (c : List ((List Char × Nat) × List Int))
    (h : l.foldl (charStep n) (.ok []) = .ok c) : VecLen n c := by
  refine foldl_res_inv (VecLen n) (charStep n) ?_ l _ ?_ c h
  · intro acc t hacc s hs
    unfold charStep at hs
    split at hs
    · rename_i m0 g rel _
      split at hs
      · cases hs; exact hacc _ rfl
      · exact tagUpsert_len _ _ _ _ _ _ _ (hacc m0 rfl) hs
    · exact hacc s hs
  · intro s hs; cases hs; intro e he; cases he

theorem typeFold_len (n : Nat) (l : List TagTraceItem) (c : List ((List Nat × Nat) × List Int))
    (h : l.foldl (typeStep n) (.ok []) = .ok c) : VecLen n c := by
  refine foldl_res_inv (VecLen n) (typeStep n) ?_ l _ ?_ c h
  · intro acc t hacc s hs
    unfold typeStep at hs
    split at hs
    · rename_i m0 g rel _
      split at hs
      · cases hs; exact hacc _ rfl
      · exact tagUpsert_len _ _ _ _ _ _ _ (hacc m0 rfl) hs
    · exact hacc s hs
  · intro s hs; cases hs; intro e he; cases he

theorem groupTagWeights_len {β : Type} [DecidableEq β] (n : Nat) :
    ∀ (m : List ((List β × Nat) × List Int)), VecLen n m →
      ∀ d ∈ groupTagWeights m, ∀ w ∈ d.weights, w.weights.length = n := by
  intro m
  induction m with
  | nil => intro _ d hd; simp [groupTagWeights] at hd
  | cons x r ih =>
    intro hm d hd w hw
    obtain ⟨⟨g, rel⟩, v⟩ := x
    have hv : v.length = n := hm ((g, rel), v) (List.mem_cons_self ..)
    have hr : VecLen n r := fun e he => hm e (List.mem_cons_of_mem _ he)
    have ih' := ih hr
    unfold groupTagWeights at hd
    cases hg : groupTagWeights r with
    | nil =>
      rw [hg] at hd
      simp only [List.mem_singleton] at hd
      subst hd
      simp only [List.mem_singleton] at hw
      subst hw; exact hv
    | cons d0 ds =>
      rw [hg] at hd ih'
      simp only at hd
      split at hd
      · rcases List.mem_cons.mp hd with hd | hd
        · subst hd
          rcases List.mem_cons.mp hw with hw | hw
          · subst hw; exact hv
          · exact ih' d0 (List.mem_cons_self ..) w hw
        · exact ih' d (List.mem_cons_of_mem _ hd) w hw
      · rcases List.mem_cons.mp hd with hd | hd
        · subst hd
          simp only [List.mem_singleton] at hw
          subst hw; exact hv
        · exact ih' d hd w hw

theorem assembleTag_spec (token : List Char) (examples : List (List Tag)) (trace : List TagTraceItem) (tm : TagModel)
    (h : assembleTag token examples trace = .ok tm) :
    tm.token = token ∧ tm.tags = collectTags examples ∧ tm.bias.length = nClass tm.tags ∧
    (∀ d ∈ tm.charNgrams, ∀ w ∈ d.weights, w.weights.length = nClass tm.tags) ∧
    (∀ d ∈ tm.typeNgrams, ∀ w ∈ d.weights, w.weights.length = nClass tm.tags) := by
  obtain ⟨b, c, t, hb, hc, ht, rfl⟩ := assembleTag_ok token examples trace tm h
  exact ⟨rfl, rfl, biasFold_len _ _ _ hb, groupTagWeights_len _ _ (charFold_len _ _ _ hc),
    groupTagWeights_len _ _ (typeFold_len _ _ _ ht)⟩

end V.C12L
