import VModel.Spec
import VProofs.Lemmas.TagBoundSpec
import VProofs.Lemmas.TagFinal
/-!
# The tag score vector of a token stays within the mass of its tag model after any number of positions
(for the C06 overflow bound)

`tagToken` computes the class scores of a token in three phases: the bias (`tp.bias.add_scores`), the character scorer's
`add_tag_scores` and the type scorer's `add_tag_scores`; the last two are the loop `pmaAddTagScores.go` over the recorded
automaton states from the token's last character on, zipped with the rows `rel = 0, 1, …` of the token's part of the table
`tag_weight`.  This file bounds the vector after ANY prefix of that loop.
-/
namespace V

/-- the character phase of `tagToken` (`r2`) -/
def tagCharPhase (p : Predictor) (tid i : Nat) (s : Sentence) (sc1 : List Int) : Res (List Int) :=
  match p.charScorer with
  | some sc => pmaAddTagScores sc tid i s.cstates sc1
  | none => .ok sc1

/-- the type phase of `tagToken` (`r3`) -/
def tagTypePhase (p : Predictor) (tid i : Nat) (s : Sentence) (sc2 : List Int) : Res (List Int) :=
  match p.typeScorer with
  | some ts => typeAddTagScores ts tid i s.tstates sc2
  | none => .ok sc2

/-- one `add_tag_scores` pass of the scorer `sc` over the states `states`, started from the vector `sc0`: the pass is the loop
`pmaAddTagScores.go` over `states.drop i` and the rows of token `tid`; stopped after any number `k` of positions it has not failed
and every entry of the vector satisfies `Q` -/
def TagPassWithin {α : Type} (Q : Int → Bool) (sc : PmaScorer α) (tid i : Nat) (states : List (Option Nat)) (sc0 : List Int) :
    Prop :=
  ∃ tw row, sc.tagWeight = some tw ∧ tw[tid]? = some row ∧
    pmaAddTagScores sc tid i states sc0 = pmaAddTagScores.go (states.drop i) row sc0 ∧
    ∀ k, ∃ r, pmaAddTagScores.go ((states.drop i).take k) row sc0 = .ok r ∧ ∀ x ∈ r, Q x = true

/-- all values the tag score vector of one token holds during `tagToken` satisfy `Q`: the vector `sc1` after the bias; from `sc1`,
the vector after any prefix of the positions of the character pass; the vector `sc2` the character pass leaves; from `sc2`, the
vector after any prefix of the positions of the type pass; and the final vector `fin` -/
def TagRunWithin (Q : Int → Bool) (p : Predictor) (s : Sentence) (tid : Nat) (tp : TagPredictor) (i : Nat) (fin : List Int) :
    Prop :=
  ∃ sc1 sc2, tp.bias.addScores (List.replicate tp.bias.len 0) = .ok sc1 ∧ (∀ x ∈ sc1, Q x = true) ∧
    (∀ sc, p.charScorer = some sc → TagPassWithin Q sc tid i s.cstates sc1) ∧
    tagCharPhase p tid i s sc1 = .ok sc2 ∧ (∀ x ∈ sc2, Q x = true) ∧
    (∀ sc, p.typeScorer = some (.pma sc) → TagPassWithin Q sc tid i s.tstates sc2) ∧
    (∀ ng w, p.typeScorer ≠ some (.cache ng w)) ∧
    tagTypePhase p tid i s sc2 = .ok fin ∧ (∀ x ∈ fin, Q x = true)

namespace C06B
open C01L C01B C06L
variable {α : Type} [DecidableEq α]

omit [DecidableEq α] in
theorem pmaAddTagScores_eq_go (sc : PmaScorer α) (tid pos : Nat) (states : List (Option Nat)) (scores : List Int)
    (tw : List (List (List (Nat × WV)))) (row : List (List (Nat × WV)))
    (h1 : sc.tagWeight = some tw) (h2 : tw[tid]? = some row) (h3 : pos ≤ states.length) :
    pmaAddTagScores sc tid pos states scores = pmaAddTagScores.go (states.drop pos) row scores := by
  unfold pmaAddTagScores
  rw [h1]
  simp only [h2]
  rw [if_neg (by omega)]

theorem within_of_class (Q : Int → Bool) (M : Nat) (hQ : ∀ x : Int, x.natAbs ≤ M → Q x = true) (r : List Int)
    (h : ∀ c : Nat, iabs (getZ r (c : Int)) ≤ ((M : Nat) : Int)) : ∀ x ∈ r, Q x = true := by
  intro x hx
  obtain ⟨j, _, rfl⟩ := mem_getD r x hx
  apply hQ
  rw [← getZ_nat]
  exact (iabs_le_iff _ _).mp (h j)

/-- **one `add_tag_scores` pass, any prefix of the positions**: the loop does not fail, keeps the length of the vector, and class
`c` has moved by at most the class mass of the token's tag n-grams of this kind -/
theorem tagPass_prefix (cfg : Cfg) (window : Nat) (T : List (List (TagNgramData α))) (L : Nat → Nat)
    (sc : PmaScorer α) (hsc : TagScorerOK cfg window T L sc)
    (tid : Nat) (tm : List (TagNgramData α)) (htid : T[tid]? = some tm)
    (seq : List α) (i : Nat) (hi : i ≤ seq.length) (sc0 : List Int) (hs : sc0.length = vlen cfg (L tid)) :
    ∃ tw row, sc.tagWeight = some tw ∧ tw[tid]? = some row ∧
      pmaAddTagScores sc tid i (statesOf sc.pats seq) sc0
        = pmaAddTagScores.go ((statesOf sc.pats seq).drop i) row sc0 ∧
      ∀ k, ∃ r, pmaAddTagScores.go (((statesOf sc.pats seq).drop i).take k) row sc0 = .ok r ∧ r.length = sc0.length ∧
        ∀ c : Nat, iabs (getZ r (c : Int)) ≤ iabs (getZ sc0 (c : Int)) + ((tagNgramClassMass tm c : Nat) : Int) := by
  obtain ⟨tw, vec, nRel, h1, h2, h3, _, hrel, h4, h5, h6, h7⟩ := hsc
  have hlt : tid < T.length := by
    rcases Nat.lt_or_ge tid T.length with h | h
    · exact h
    · rw [List.getElem?_eq_none h] at htid; cases htid
  have hrow : ∃ row, tw[tid]? = some row := ⟨tw[tid]'(by omega), List.getElem?_eq_getElem (by omega)⟩
  obtain ⟨row, hrow⟩ := hrow
  have hcell : ∀ r m, row[r]? = some m → cell tw tid r = m := by
    intro r m hm
    unfold cell
    rw [hrow]
    simp only [Option.getD_some, hm]
  have hsl : (statesOf sc.pats seq).length = seq.length := by simp [statesOf]
  have hT : T.getD tid [] = tm := by rw [List.getD_eq_getElem?_getD, htid]; rfl
  refine ⟨tw, row, h1, hrow, pmaAddTagScores_eq_go sc tid i _ sc0 tw row h1 hrow (by omega), fun k => ?_⟩
  let F : Nat → Option (List Int) := fun j =>
    if j < k then
      (if i + j < seq.length then (longestMatch sc.pats (seq.take (i + j + 1))).bind (vec tid j) else none)
    else none
  obtain ⟨sc', e1, e2, e3⟩ := tagGo_spec cfg (L tid) (((statesOf sc.pats seq).drop i).take k) row sc0 F hs
    (by
      intro j st m hst hm
      rw [List.getElem?_take] at hst
      split at hst
      · rename_i hjk
        rw [List.getElem?_drop] at hst
        have hj : i + j < seq.length := by
          rcases Nat.lt_or_ge (i + j) seq.length with h | h
          · exact h
          · rw [List.getElem?_eq_none (by omega)] at hst; cases hst
        have hst' : st = longestMatch sc.pats (seq.take (i + j + 1)) := by
          unfold statesOf at hst
          rw [List.getElem?_map, List.getElem?_range hj] at hst
          simpa using hst.symm
        show _ = (if j < k then (if i + j < seq.length then _ else none) else none).map _
        rw [if_pos hjk, if_pos hj, ← hst']
        cases st with
        | none => rfl
        | some id =>
          simp only [Option.bind_some]
          rw [← hcell j m hm]
          exact h4 tid j id
      · cases hst)
    (by
      intro j v hv
      simp only [F] at hv
      split at hv
      · split at hv
        · cases hlm : longestMatch sc.pats (seq.take (i + j + 1)) with
          | none => rw [hlm] at hv; cases hv
          | some id =>
            rw [hlm] at hv
            exact h5 tid j id v hv
        · cases hv
      · cases hv)
    (by
      intro j hj
      simp only [List.length_take, List.length_drop, hsl] at hj
      simp only [F]
      by_cases hjk : j < k
      · rw [if_pos hjk, if_neg (by omega)]
      · rw [if_neg hjk])
  refine ⟨sc', e1, e2, fun c => ?_⟩
  -- the terms of the sum are row sums of the merged table
  let cond : Nat → Bool := fun j =>
    decide (j < k) && decide (i + j < seq.length) && (longestMatch sc.pats (seq.take (i + j + 1))).isSome
  let pf : Nat → List α := fun j =>
    ((longestMatch sc.pats (seq.take (i + j + 1))).bind (fun id => sc.pats[id]?)).getD []
  have hterm : ∀ j ∈ List.range row.length,
      getZ ((F j).getD []) (c : Int) = if cond j = true then tagSum tm j (pf j) c else 0 := by
    intro j _
    simp only [F, cond, pf]
    by_cases hjk : j < k
    · by_cases hj : i + j < seq.length
      · rw [if_pos hjk, if_pos hj]
        cases hlm : longestMatch sc.pats (seq.take (i + j + 1)) with
        | none =>
          simp only [Option.bind_none, Option.getD_none, Option.isSome_none, Bool.and_false]
          rw [getZ_nil]
          rfl
        | some id =>
          obtain ⟨p, hp, _, _⟩ := longestMatch_some sc.pats _ id hlm
          simp only [Option.bind_some, hp, Option.getD_some, Option.isSome_some, hjk, hj, decide_true,
            Bool.and_self, if_true]
          rw [h6 tid j id p c hp, hT]
      · rw [if_pos hjk, if_neg hj]
        simp only [Option.getD_none, hj, decide_false, Bool.and_false, Bool.false_and]
        rw [getZ_nil]
        rfl
    · rw [if_neg hjk]
      simp only [Option.getD_none, hjk, decide_false, Bool.false_and]
      rw [getZ_nil]
      rfl
  have e3c := e3 c
  rw [isum_map_congr _ _ _ hterm] at e3c
  have hb := tagSum_partial_abs_le tm row.length pf cond c
  have hadd := iabs_add_le (getZ sc0 (c : Int))
    ((List.range row.length).map fun j => if cond j = true then tagSum tm j (pf j) c else 0).sum
  rw [e3c]
  omega

/-! ## the three phases -/

/-- from the bound on the prefixes of a pass to `TagPassWithin`, and the vector the whole pass leaves -/
theorem tagPass_within (Q : Int → Bool) (M : Nat) (hQ : ∀ x : Int, x.natAbs ≤ M → Q x = true)
    (cfg : Cfg) (window : Nat) (T : List (List (TagNgramData α))) (L : Nat → Nat)
    (sc : PmaScorer α) (hsc : TagScorerOK cfg window T L sc)
    (tid : Nat) (tm : List (TagNgramData α)) (htid : T[tid]? = some tm)
    (seq : List α) (i : Nat) (hi : i ≤ seq.length) (sc0 : List Int) (hs : sc0.length = vlen cfg (L tid))
    (b : Nat → Nat) (hb0 : ∀ c : Nat, iabs (getZ sc0 (c : Int)) ≤ ((b c : Nat) : Int))
    (hM : ∀ c, b c + tagNgramClassMass tm c ≤ M) :
    TagPassWithin Q sc tid i (statesOf sc.pats seq) sc0 ∧
    ∃ r, pmaAddTagScores sc tid i (statesOf sc.pats seq) sc0 = .ok r ∧ r.length = sc0.length ∧
      ∀ c : Nat, iabs (getZ r (c : Int)) ≤ ((b c + tagNgramClassMass tm c : Nat) : Int) := by
  obtain ⟨tw, row, h1, h2, h3, h4⟩ := tagPass_prefix cfg window T L sc hsc tid tm htid seq i hi sc0 hs
  have hcl : ∀ k, ∃ r, pmaAddTagScores.go (((statesOf sc.pats seq).drop i).take k) row sc0 = .ok r ∧
      r.length = sc0.length ∧
      ∀ c : Nat, iabs (getZ r (c : Int)) ≤ ((b c + tagNgramClassMass tm c : Nat) : Int) := by
    intro k
    obtain ⟨r, g1, g2, g3⟩ := h4 k
    refine ⟨r, g1, g2, fun c => ?_⟩
    have := g3 c
    have := hb0 c
    omega
  refine ⟨⟨tw, row, h1, h2, h3, fun k => ?_⟩, ?_⟩
  · obtain ⟨r, g1, _, g3⟩ := hcl k
    refine ⟨r, g1, within_of_class Q M hQ r (fun c => ?_)⟩
    have := g3 c
    have := hM c
    omega
  · obtain ⟨r, g1, g2, g3⟩ := hcl ((statesOf sc.pats seq).drop i).length
    rw [List.take_length] at g1
    exact ⟨r, h3.trans g1, g2, g3⟩

/-- **the score vector of one token, every intermediate value**: for a tag-predicting predictor built from `m`, a sentence that
carries the automaton states of `predict`, and the tag model `tm` with index `tid`: `TagRunWithin`, with the final vector
`scoreVec cfg tm text i` (the one `fill_tags` picks the tags from and stores in `tag_scores`) -/
theorem run_within_tag (cfg : Cfg) (m : WModel) (p : Predictor) (hP : PredOK cfg m p) (hW : WFT m)
    (text : List Char) (s : Sentence) (hs : StOK p text s) (tid : Nat) (tm : TagModel)
    (htid : m.tagModels[tid]? = some tm) (i : Nat) (hi : i < text.length)
    (Q : Int → Bool) (hQ : ∀ x : Int, x.natAbs ≤ tm.mass → Q x = true) :
    TagRunWithin Q p s tid (mkTP cfg tm) i (scoreVec cfg tm text i) := by
  have hmem : tm ∈ m.tagModels := List.mem_of_getElem? htid
  have hK := Lm_eq m tid tm htid
  have hbl := hW.bias_len tm hmem
  obtain ⟨sc1, sc2, e1, e2, e2', e3, e3'⟩ := tagScore_spec cfg m p hP hW text s hs tid tm htid i hi
  -- bias
  have hlen0 : (mkTP cfg tm).bias.len = vlen cfg (nClass tm.tags) := by
    show (WV.ofList cfg tm.bias).len = _
    rw [ofList_len, hbl]
  obtain ⟨sc1', a1, a2, a3⟩ := ofList_addScores cfg (nClass tm.tags) tm.bias
    (List.replicate (mkTP cfg tm).bias.len 0) hbl (by rw [List.length_replicate, hlen0])
  have hs1 : sc1' = sc1 := by
    have : (mkTP cfg tm).bias.addScores (List.replicate (mkTP cfg tm).bias.len 0) = .ok sc1' := a1
    rw [e1] at this
    simpa using this.symm
  subst hs1
  have hl1 : sc1'.length = vlen cfg (nClass tm.tags) := by rw [a2, List.length_replicate, hlen0]
  have hb1 : ∀ c : Nat, iabs (getZ sc1' (c : Int)) ≤ (((getZ tm.bias (c : Int)).natAbs : Nat) : Int) := by
    intro c
    rw [a3 c, getZ_replicate_zero]
    unfold iabs
    omega
  have hmass : ∀ c : Nat, (getZ tm.bias (c : Int)).natAbs + tagNgramClassMass tm.charNgrams c
      + tagNgramClassMass tm.typeNgrams c ≤ tm.mass := fun c => classMass_le_mass tm c
  -- character pass
  have hchar : (∀ sc, p.charScorer = some sc → TagPassWithin Q sc tid i s.cstates sc1') ∧
      sc2.length = sc1'.length ∧
      ∀ c : Nat, iabs (getZ sc2 (c : Int))
        ≤ (((getZ tm.bias (c : Int)).natAbs + tagNgramClassMass tm.charNgrams c : Nat) : Int) := by
    rcases hP.cs with ⟨h1, _⟩ | ⟨sc, h1, h2⟩
    · have := e2' h1
      subst this
      refine ⟨fun sc hsc => (by rw [h1] at hsc; cases hsc), rfl, fun c => ?_⟩
      have := hb1 c
      omega
    · obtain ⟨g1, r, g2, g3, g4⟩ := tagPass_within Q tm.mass hQ cfg m.charW _ (Lm m) sc h2 tid tm.charNgrams
        (by rw [List.getElem?_map, htid]; rfl) text i (by omega) sc1' (by rw [hK, hl1])
        (fun c => (getZ tm.bias (c : Int)).natAbs) hb1 (fun c => by have := hmass c; omega)
      have hr : r = sc2 := by
        have := e2 sc h1
        rw [hs.cst sc h1, g2] at this
        simpa using this
      subst hr
      refine ⟨fun sc' hsc' => ?_, g3, g4⟩
      rw [h1] at hsc'
      simp only [Option.some.injEq] at hsc'
      subst hsc'
      rw [hs.cst sc h1]
      exact g1
  obtain ⟨c1, c2, c3⟩ := hchar
  have hphase2 : tagCharPhase p tid i s sc1' = .ok sc2 := by
    unfold tagCharPhase
    cases hcs : p.charScorer with
    | none => rw [e2' hcs]
    | some sc => exact e2 sc hcs
  -- type pass
  have htype : (∀ sc, p.typeScorer = some (.pma sc) → TagPassWithin Q sc tid i s.tstates sc2) ∧
      (∀ ng w, p.typeScorer ≠ some (.cache ng w)) ∧
      ∀ c : Nat, iabs (getZ (scoreVec cfg tm text i) (c : Int)) ≤ ((tm.mass : Nat) : Int) := by
    rcases hP.ts with ⟨h1, _⟩ | ⟨sc, h1, h2⟩
    · have := e3' h1
      rw [← this]
      refine ⟨fun sc hsc => (by rw [h1] at hsc; cases hsc), fun ng w hsc => (by rw [h1] at hsc; cases hsc), fun c => ?_⟩
      have := c3 c
      have := hmass c
      omega
    · obtain ⟨g1, r, g2, _, g4⟩ := tagPass_within Q tm.mass hQ cfg m.typeW _ (Lm m) sc h2 tid tm.typeNgrams
        (by rw [List.getElem?_map, htid]; rfl) (typesOf text) i
        (by simp only [typesOf, List.length_map]; omega) sc2 (by rw [hK, c2, hl1])
        (fun c => (getZ tm.bias (c : Int)).natAbs + tagNgramClassMass tm.charNgrams c) c3 (fun c => hmass c)
      have hr : r = scoreVec cfg tm text i := by
        have := e3 (.pma sc) h1
        unfold typeAddTagScores at this
        simp only at this
        rw [hs.tst sc h1, g2] at this
        simpa using this
      subst hr
      refine ⟨fun sc' hsc' => ?_, fun ng w hsc => (by rw [h1] at hsc; cases hsc), fun c => ?_⟩
      · rw [h1] at hsc'
        simp only [Option.some.injEq, TypeScorer.pma.injEq] at hsc'
        subst hsc'
        rw [hs.tst sc h1]
        exact g1
      · have := g4 c
        have := hmass c
        omega
  obtain ⟨t1, t2, t3⟩ := htype
  have hphase3 : tagTypePhase p tid i s sc2 = .ok (scoreVec cfg tm text i) := by
    unfold tagTypePhase
    cases hts : p.typeScorer with
    | none => rw [e3' hts]
    | some ts => exact e3 ts hts
  refine ⟨sc1', sc2, e1, within_of_class Q tm.mass hQ sc1' (fun c => ?_), c1, hphase2,
    within_of_class Q tm.mass hQ sc2 (fun c => ?_), t1, t2, hphase3, within_of_class Q tm.mass hQ _ t3⟩
  · have := hb1 c
    have := hmass c
    omega
  · have := c3 c
    have := hmass c
    omega

end C06B
end V
