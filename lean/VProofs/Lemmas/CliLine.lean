import VModel.Cli
import VProofs.Lemmas.Inv
/-!
# CliLine — one iteration of `predict`'s loop equals the library pipeline on a fresh sentence; the loop concatenates blocks
-/
namespace V.C20L
open V

/-- `from_raw` and `update_raw` on one input: both reject (only ever with `invalid_argument`; the update then leaves the
default sentence), or both build `mkRaw x`, whatever the updated sentence held before -/
theorem raw_cases (x : List Char) :
    (Sentence.fromRaw x = .err .invalidArgument ∧ ∀ s : Sentence, s.updateRaw x = .ok (Sentence.default, false)) ∨
    ((x ≠ [] ∧ '\x00' ∉ x) ∧ Sentence.fromRaw x = .ok (Sentence.mkRaw x) ∧
      ∀ s : Sentence, s.updateRaw x = .ok (Sentence.mkRaw x, true)) := by
  by_cases h1 : x.contains '\x00' = true
  · refine Or.inl ⟨?_, fun _ => ?_⟩ <;> simp only [Sentence.fromRaw, Sentence.updateRaw, parseRaw, h1, if_true] <;> rfl
  · by_cases h2 : x.isEmpty = true
    · refine Or.inl ⟨?_, fun _ => ?_⟩ <;>
        simp only [Sentence.fromRaw, Sentence.updateRaw, parseRaw, h1, h2, if_true] <;> rfl
    · refine Or.inr ⟨⟨by simpa using h2, by simpa using h1⟩, ?_, fun _ => ?_⟩ <;>
        simp only [Sentence.fromRaw, Sentence.updateRaw, parseRaw, h1, h2] <;> rfl

theorem map_bindR {α β γ : Type} (r : Res α) (f : α → Res β) (g : β → γ) :
    (bindR r f).map g = bindR r (fun a => (f a).map g) := by
  cases r <;> rfl

theorem bindR_ok {α β : Type} (a : α) (f : α → Res β) : bindR (.ok a) f = f a := rfl
theorem bindR_err {α β : Type} (e : Err) (f : α → Res β) : bindR (.err e) f = .err e := rfl

theorem bindR_congr {α β : Type} (r : Res α) (f g : α → Res β) (h : ∀ a, r = .ok a → f a = g a) : bindR r f = bindR r g := by
  cases r with
  | ok a => exact h a rfl
  | err e => rfl
  | panic q => rfl
  | ub q => rfl

theorem bindR_eq_ok {α β : Type} {r : Res α} {f : α → Res β} {b : β} (h : bindR r f = .ok b) :
    ∃ a, r = .ok a ∧ f a = .ok b := by
  cases r with
  | ok a => exact ⟨a, rfl, h⟩
  | err e => cases h
  | panic q => cases h
  | ub q => cases h

theorem map_eq_ok {α β : Type} {r : Res α} {g : α → β} {b : β} (h : r.map g = .ok b) : ∃ a, r = .ok a ∧ g a = b := by
  cases r with
  | ok a => injection h with h; exact ⟨a, rfl, h⟩
  | err e => cases h
  | panic q => cases h
  | ub q => cases h

/-- the sentence the tokenised line is written from: with normalisation, the un-normalised characters with the predicted
boundaries and tags copied over -/
def origCopy (fl : PredictFlags) (line : List Char) (s3 : Sentence) : Res Sentence :=
  if fl.noNorm then .ok s3 else
    match Sentence.fromRaw line with
    | .ok o =>
      if o.bounds.length ≠ s3.bounds.length then .panic "boundaries_mut().copy_from_slice: length mismatch"
      else if s3.nTags * o.types.length ≠ s3.tags.length then .panic "tags_mut().clone_from_slice: length mismatch"
      else .ok { o with bounds := s3.bounds, tags := s3.tags, nTags := s3.nTags }
    | .err e => .err e
    | .panic q => .panic q
    | .ub q => .ub q

/-- the specification block of one line (`V.libLine` of `VProofs/C20.lean`, which unfolds to this) -/
def libLine' (fl : PredictFlags) (p : Predictor) (filters : List PostFilter) (line : List Char) : Res (List Char) :=
  match Sentence.fromRaw (if fl.noNorm then line else Gen.fullwidth line) with
  | .err _ => .ok ['\n']
  | .panic q => .panic q
  | .ub q => .ub q
  | .ok s0 =>
    bindR (p.predict 0 s0) fun s1 =>
    bindR (applyWsconst filters s1) fun s2 =>
    bindR (if fl.predictTags then p.predictTags s2 else .ok s2) fun s3 =>
    bindR (origCopy fl line s3) fun shown =>
    bindR shown.writeTokenized fun w =>
    bindR (if fl.scores then printScores s3 else .ok []) fun sc =>
    bindR (if fl.tagScores && fl.predictTags then printTagScores s3 else .ok []) fun ts =>
    .ok (w ++ ['\n'] ++ sc ++ ts)

/-- reusing `s` and `s_orig` is invisible -/
theorem line_eq_library (fl : PredictFlags) (p : Predictor) (filters : List PostFilter) (st : PredictState)
    (line : List Char) :
    (predictLine fl p filters st line).map (·.out) = (libLine' fl p filters line).map (st.out ++ ·) := by
  unfold predictLine libLine' origCopy
  rcases raw_cases (if fl.noNorm then line else Gen.fullwidth line) with ⟨h1, h2⟩ | ⟨_, h1, h2⟩
  · simp only [h1, h2, bindR_ok]
    rfl
  · simp only [h1, h2, bindR_ok, Bool.not_true, Bool.false_eq_true, if_false, map_bindR]
    refine bindR_congr _ _ _ fun s1 _ => bindR_congr _ _ _ fun s2 _ => bindR_congr _ _ _ fun s3 _ => ?_
    cases hn : fl.noNorm
    · simp only [Bool.false_eq_true, if_false]
      rcases raw_cases line with ⟨g1, g2⟩ | ⟨_, g1, g2⟩
      · simp only [g1, g2, bindR_ok]
        rfl
      · simp only [g1, g2, bindR_ok, Bool.not_true, Bool.false_eq_true, if_false, Sentence.resetTags,
          List.length_replicate]
        by_cases c1 : (Sentence.mkRaw line).bounds.length ≠ s3.bounds.length
        · simp only [if_pos c1]
          rfl
        · by_cases c2 : s3.nTags * (Sentence.mkRaw line).types.length ≠ s3.tags.length
          · simp only [if_neg c1, if_pos c2]
            rfl
          · simp only [if_neg c1, if_neg c2, bindR_ok, Res.map, List.append_assoc]
    · simp only [if_true, bindR_ok, Res.map, List.append_assoc]

/-- when an iteration returns, the block it wrote is the specification block -/
theorem line_ok_block {fl : PredictFlags} {p : Predictor} {filters : List PostFilter} {st st' : PredictState}
    {line : List Char} (h : predictLine fl p filters st line = .ok st') :
    ∃ b, libLine' fl p filters line = .ok b ∧ st'.out = st.out ++ b := by
  have e := line_eq_library fl p filters st line
  rw [h] at e
  obtain ⟨b, hb, hout⟩ := map_eq_ok e.symm
  exact ⟨b, hb, hout.symm⟩

/-- conversely, when the specification block exists the iteration returns (and wrote it) -/
theorem block_line_ok {fl : PredictFlags} {p : Predictor} {filters : List PostFilter} (st : PredictState)
    {line : List Char} {b : List Char} (h : libLine' fl p filters line = .ok b) :
    ∃ st', predictLine fl p filters st line = .ok st' := by
  have e := line_eq_library fl p filters st line
  rw [h] at e
  obtain ⟨st', hs, _⟩ := map_eq_ok e
  exact ⟨st', hs⟩

theorem go_nil (fl : PredictFlags) (p : Predictor) (cl : List (List Nat)) (st : PredictState) :
    predictCli.go fl p [] cl st = .ok st := rfl

theorem go_cons (fl : PredictFlags) (p : Predictor) (l : List Char) (ls : List (List Char)) (cl : List (List Nat))
    (st : PredictState) :
    predictCli.go fl p (l :: ls) cl st =
      bindR (buildPostFilters fl.wsconst (cl.headD [])) fun filters =>
        bindR (predictLine fl p filters st l) fun st' => predictCli.go fl p ls cl.tail st' := rfl

/-- the loop writes one specification block per line, in order, each with the filters built for its line -/
theorem go_blocks (fl : PredictFlags) (p : Predictor) :
    ∀ (ls : List (List Char)) (cl : List (List Nat)) (st st' : PredictState), predictCli.go fl p ls cl st = .ok st' →
      ∃ blocks : List (List Char), blocks.length = ls.length ∧ st'.out = st.out ++ blocks.flatten ∧
        ∀ i, i < blocks.length →
          ∃ filters, buildPostFilters fl.wsconst ((cl.drop i).headD []) = .ok filters ∧
            libLine' fl p filters (ls.getD i []) = .ok (blocks.getD i [])
  | [], cl, st, st', h => by
    rw [go_nil] at h
    injection h with h
    subst h
    exact ⟨[], rfl, by simp, fun i hi => absurd hi (Nat.not_lt_zero _)⟩
  | l :: ls, cl, st, st', h => by
    rw [go_cons] at h
    obtain ⟨filters, hf, h⟩ := bindR_eq_ok h
    obtain ⟨st1, h1, h⟩ := bindR_eq_ok h
    obtain ⟨b, hb, hout⟩ := line_ok_block h1
    obtain ⟨blocks, hlen, hout', hall⟩ := go_blocks fl p ls cl.tail st1 st' h
    refine ⟨b :: blocks, by simp [hlen], by rw [hout', hout]; simp, fun i hi => ?_⟩
    cases i with
    | zero => exact ⟨filters, by simpa using hf, by simpa using hb⟩
    | succ i =>
      obtain ⟨f, hf', hl'⟩ := hall i (by simpa using hi)
      refine ⟨f, ?_, by simpa using hl'⟩
      have e : List.drop (i + 1) cl = List.drop i cl.tail := by cases cl <;> simp
      rw [e]; exact hf'

theorem predictCli_eq (cfg : Cfg) (fl : PredictFlags) (m : WModel) (stdin : List Char) (clusters : List (List Nat)) :
    predictCli cfg fl m stdin clusters =
      bindR (Predictor.new cfg m fl.predictTags) fun p0 =>
        (predictCli.go fl { p0 with storeTagScores := fl.tagScores } (splitLines stdin) clusters {}).map (·.out) := rfl

/-- the loop returns when every line has a specification block -/
theorem go_total (fl : PredictFlags) (p : Predictor)
    (hline : ∀ (cl : List Nat) (line : List Char), ∃ filters, buildPostFilters fl.wsconst cl = .ok filters ∧
      ∃ b, libLine' fl p filters line = .ok b) :
    ∀ (ls : List (List Char)) (cl : List (List Nat)) (st : PredictState), ∃ st', predictCli.go fl p ls cl st = .ok st'
  | [], cl, st => ⟨st, rfl⟩
  | l :: ls, cl, st => by
    obtain ⟨filters, hf, b, hb⟩ := hline (cl.headD []) l
    obtain ⟨st1, h1⟩ := block_line_ok st hb
    obtain ⟨st2, h2⟩ := go_total fl p hline ls cl.tail st1
    exact ⟨st2, by rw [go_cons, hf, bindR_ok, h1, bindR_ok, h2]⟩

end V.C20L
