import VProofs.Lemmas.BinStrict
/-!
# Integers of the wire format: unsigned varint, zigzag `i32`, raw `u8`
-/
namespace V.BinL
open V V.Bin

theorem ofNat_toNat (n : Nat) : (UInt8.ofNat n).toNat = n % 256 := by
  simp [UInt8.toNat_ofNat']

theorem leBytes_length (k n : Nat) : (leBytes k n).length = k := by
  induction k generalizing n with
  | zero => rfl
  | succ k ih => simp [leBytes, ih]

theorem leValue_leBytes (k n : Nat) : leValue (leBytes k n) = n % 256 ^ k := by
  induction k generalizing n with
  | zero => simp [leBytes, leValue, Nat.mod_one]
  | succ k ih =>
    simp only [leBytes, leValue, ih, ofNat_toNat]
    rw [Nat.mod_mod, Nat.pow_succ, Nat.mul_comm (256 ^ k) 256, Nat.mod_mul]

theorem takeN_append {x : Bytes} {k : Nat} (hx : x.length = k) (r : Bytes) :
    takeN k (x ++ r) = .ok (x, r) := by
  subst hx
  simp [takeN]

theorem takeN_short {q : Bytes} {k : Nat} (hq : q.length < k) : takeN k q = derr := by
  simp [takeN, Nat.not_le.2 hq]

theorem takeN_safe (k : Nat) (q : Bytes) : (takeN k q).Safe := by
  unfold takeN; split <;> simp [Res.Safe, derr]

/-! ## varint -/

theorem encVarint_nonempty (n : Nat) : 1 ≤ (encVarint n).length := by
  unfold encVarint; split
  · simp
  · split
    · simp
    · split <;> simp

theorem encVarint_length_le (n : Nat) : (encVarint n).length ≤ 9 := by
  unfold encVarint; split
  · simp
  · split
    · simp [leBytes_length]
    · split <;> simp [leBytes_length]

private theorem b251 : (251 : UInt8).toNat = 251 := rfl
private theorem b252 : (252 : UInt8).toNat = 252 := rfl
private theorem b253 : (253 : UInt8).toNat = 253 := rfl

/-- the shape of a varint: a discriminant byte and `k` little-endian bytes -/
theorem encVarint_shape (n : Nat) (hn : n < 2 ^ 64) :
    (n < 251 ∧ encVarint n = [UInt8.ofNat n]) ∨
    (251 ≤ n ∧ n < 2 ^ 16 ∧ encVarint n = 251 :: leBytes 2 n) ∨
    (2 ^ 16 ≤ n ∧ n < 2 ^ 32 ∧ encVarint n = 252 :: leBytes 4 n) ∨
    (2 ^ 32 ≤ n ∧ n < 2 ^ 64 ∧ encVarint n = 253 :: leBytes 8 n) := by
  unfold encVarint
  by_cases h1 : n < 251
  · left; simp [h1]
  · by_cases h2 : n < 2 ^ 16
    · right; left; simp only [h1, h2, if_true, if_false]; exact ⟨by omega, trivial, trivial⟩
    · by_cases h3 : n < 2 ^ 32
      · right; right; left; simp only [h1, h2, h3, if_true, if_false]; exact ⟨by omega, trivial, trivial⟩
      · right; right; right; simp only [h1, h2, h3, if_false]; exact ⟨by omega, hn, trivial⟩

private theorem cons_prefix_cases {b : UInt8} {x p : Bytes} (hp : p <+: b :: x) (hne : p ≠ b :: x) :
    p = [] ∨ ∃ q, p = b :: q ∧ q.length < x.length := by
  cases p with
  | nil => left; rfl
  | cons c q =>
    right
    rw [List.cons_prefix_cons] at hp
    obtain ⟨rfl, hq⟩ := hp
    refine ⟨q, rfl, prefix_length_lt hq ?_⟩
    intro h; apply hne; rw [h]

theorem strict_varint (wide : Bool) :
    Strict encVarint (decVarint wide) (fun n => n < (if wide then 2 ^ 64 else 2 ^ 32)) := by
  have hlt : ∀ n, n < (if wide then 2 ^ 64 else 2 ^ 32) → n < 2 ^ 64 := by
    intro n h; cases wide <;> simp at h <;> omega
  constructor
  · intro n r hn _
    rcases encVarint_shape n (hlt n hn) with ⟨h1, he⟩ | ⟨h1, h2, he⟩ | ⟨h1, h2, he⟩ | ⟨h1, h2, he⟩
    · rw [he]
      have : (UInt8.ofNat n).toNat = n := by rw [ofNat_toNat]; omega
      simp [decVarint, this, h1]
    · rw [he, List.cons_append]
      have hm : n % 256 ^ 2 = n := Nat.mod_eq_of_lt (by omega)
      simp [decVarint, b251, takeN_append (leBytes_length 2 n), leValue_leBytes, hm]
    · rw [he, List.cons_append]
      have hm : n % 256 ^ 4 = n := Nat.mod_eq_of_lt (by omega)
      simp [decVarint, b252, takeN_append (leBytes_length 4 n), leValue_leBytes, hm]
    · rw [he, List.cons_append]
      have hw : wide = true := by
        cases wide
        · simp at hn; omega
        · rfl
      subst hw
      have hm : n % 256 ^ 8 = n := Nat.mod_eq_of_lt (by omega)
      simp [decVarint, b253, takeN_append (leBytes_length 8 n), leValue_leBytes, hm]
  · intro n p hn _ hp hne
    rcases encVarint_shape n (hlt n hn) with ⟨h1, he⟩ | ⟨h1, h2, he⟩ | ⟨h1, h2, he⟩ | ⟨h1, h2, he⟩
    all_goals rw [he] at hp hne
    all_goals rcases cons_prefix_cases hp hne with rfl | ⟨q, rfl, hq⟩
    all_goals first | exact ⟨_, rfl⟩ | skip
    · simp at hq
    · rw [leBytes_length] at hq
      simp [decVarint, b251, takeN_short hq, derr]
    · rw [leBytes_length] at hq
      simp [decVarint, b252, takeN_short hq, derr]
    · rw [leBytes_length] at hq
      have hw : wide = true := by
        cases wide
        · simp at hn; omega
        · rfl
      subst hw
      simp [decVarint, b253, takeN_short hq, derr]
  · exact encVarint_nonempty

theorem strict_varint64 : Strict encVarint (decVarint true) (fun n => n < 2 ^ 64) := by
  have := strict_varint true; simpa using this

theorem strict_varint32 : Strict encVarint (decVarint false) (fun n => n < 2 ^ 32) := by
  have := strict_varint false; simpa using this

theorem safe_varint (wide : Bool) : SafeDec (decVarint wide) := by
  intro bs
  cases bs with
  | nil => simp [decVarint, derr, Res.Safe]
  | cons b r =>
    have h2 := takeN_safe 2 r
    have h4 := takeN_safe 4 r
    have h8 := takeN_safe 8 r
    simp only [decVarint]
    repeat' split
    all_goals first | trivial | simp_all [Res.Safe, derr]

/-! ## zigzag `i32` -/

def OkI32 (i : Int) : Prop := -(2 ^ 31 : Int) ≤ i ∧ i < 2 ^ 31

theorem unzigzag_zigzag (i : Int) : unzigzag (zigzag i) = i := by
  unfold unzigzag zigzag
  split <;> split <;> omega

theorem zigzag_lt (i : Int) (h : OkI32 i) : zigzag i < 2 ^ 32 := by
  unfold OkI32 at h
  unfold zigzag
  split <;> omega

theorem strict_i32 : Strict encI32 decI32 OkI32 := by
  have hv := strict_varint32
  constructor
  · intro i r hi hlen
    simp only [encI32, decI32]
    rw [hv.rt (zigzag i) r (zigzag_lt i hi) hlen]
    simp only [unzigzag_zigzag]
  · intro i p hi hlen hp hne
    simp only [encI32] at hlen hp hne
    obtain ⟨e, he⟩ := hv.pref (zigzag i) p (zigzag_lt i hi) hlen hp hne
    simp only [decI32]; rw [he]; exact ⟨_, rfl⟩
  · intro i; exact encVarint_nonempty _

theorem safe_i32 : SafeDec decI32 := by
  intro bs
  simp only [decI32]
  split <;> simp [Res.Safe, derr]

/-! ## `u8` -/

theorem strict_u8 : Strict encU8 decU8 (fun n => n < 256) := by
  constructor
  · intro n r hn _
    have : (UInt8.ofNat n).toNat = n := by rw [ofNat_toNat]; omega
    simp [encU8, decU8, this]
  · intro n p _ _ hp hne
    simp only [encU8] at hp hne
    rcases cons_prefix_cases hp hne with rfl | ⟨q, rfl, hq⟩
    · exact ⟨_, rfl⟩
    · simp at hq
  · intro n; simp [encU8]

theorem safe_u8 : SafeDec decU8 := by
  intro bs
  cases bs <;> simp [decU8, Res.Safe, derr]

end V.BinL
