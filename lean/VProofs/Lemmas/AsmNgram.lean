import VModel.Trainer
import VModel.Spec
import VProofs.Lemmas.ScoreSum
import VProofs.Lemmas.AsmFold
/-!
# C09 helpers (3): the n-gram part of the score

For a map satisfying `NgInv`, `ngramScore` over the stored vectors equals the sum of the weight function over the
n-gram features the trainer generates for the boundary.
-/
namespace V.C09L
open V V.C01L

/-! ## sums over ranges -/

theorem isum_range_shift (f : Nat → Int) (c : Nat) :
    ∀ n, ((List.range n).map fun t => if c ≤ t then f (t - c) else 0).sum = ((List.range (n - c)).map f).sum
  | 0 => by simp
  | n + 1 => by
    rw [List.range_succ, List.map_append, isum_append, isum_range_shift f c n]
    by_cases h : c ≤ n
    · have : n + 1 - c = (n - c) + 1 := by omega
      rw [this, List.range_succ, List.map_append, isum_append]
      simp [h]
    · have h1 : n + 1 - c = 0 := by omega
      have h2 : n - c = 0 := by omega
      simp [h1, h2, h]

theorem isum_range_single (f : Nat → Int) (c : Nat) :
    ∀ N, c < N → (∀ i, i < N → i ≠ c → f i = 0) → ((List.range N).map f).sum = f c
  | 0, h, _ => by omega
  | N + 1, h, hz => by
    rw [List.range_succ, List.map_append, isum_append]
    by_cases hc : c = N
    · subst hc
      rw [isum_map_eq_zero _ _ (fun i hi => hz i (by have := List.mem_range.mp hi; omega)
        (by have := List.mem_range.mp hi; omega))]
      simp
    · rw [isum_range_single f c N (by omega) (fun i hi hne => hz i (by omega) hne)]
      simp [hz N (by omega) (fun e => hc e.symm)]

theorem isum_range'_ind (f : Nat → Int) (lo : Nat) :
    ∀ (M hi : Nat), hi ≤ M →
      ((List.range' lo (hi - lo)).map f).sum = ((List.range M).map fun j => if lo ≤ j ∧ j < hi then f j else 0).sum
  | 0, hi, h => by
    have : hi - lo = 0 := by omega
    simp [this]
  | M + 1, hi, h => by
    rw [List.range_succ, List.map_append, isum_append]
    by_cases h' : hi ≤ M
    · rw [← isum_range'_ind f lo M hi h']
      have : ¬ (lo ≤ M ∧ M < hi) := by omega
      simp [this]
    · have hhi : hi = M + 1 := by omega
      subst hhi
      have e1 : ((List.range M).map fun j => if lo ≤ j ∧ j < M + 1 then f j else 0).sum
          = ((List.range M).map fun j => if lo ≤ j ∧ j < M then f j else 0).sum := by
        apply isum_map_congr
        intro j hj
        have := List.mem_range.mp hj
        by_cases hlo : lo ≤ j
        · rw [if_pos ⟨hlo, by omega⟩, if_pos ⟨hlo, by omega⟩]
        · rw [if_neg (fun h => hlo h.1), if_neg (fun h => hlo h.1)]
      rw [e1, ← isum_range'_ind f lo M M (Nat.le_refl _)]
      by_cases hlo : lo ≤ M
      · have e2 : M + 1 - lo = (M - lo) + 1 := by omega
        rw [e2, List.range'_concat, List.map_append, isum_append]
        have e3 : lo + 1 * (M - lo) = M := by omega
        simp [hlo]
      · have e2 : M + 1 - lo = 0 := by omega
        have e3 : M - lo = 0 := by omega
        simp [e2, e3, hlo]

/-! ## occurrences -/

section
variable {α : Type} [DecidableEq α]

theorem suffix_take_iff (g seq : List α) (k : Nat) (hk : k < seq.length) :
    g.isSuffixOf (seq.take (k + 1)) = true ↔
      g.length ≤ k + 1 ∧ (seq.drop (k + 1 - g.length)).take g.length = g := by
  rw [List.isSuffixOf_iff_suffix]
  have hlen : (seq.take (k + 1)).length = k + 1 := by rw [List.length_take]; omega
  have hsub : g.length ≤ k + 1 → k + 1 - (k + 1 - g.length) = g.length := by omega
  constructor
  · intro h
    have h1 := h.length_le
    rw [hlen] at h1
    have h2 := List.suffix_iff_eq_drop.mp h
    rw [hlen, List.drop_take, hsub h1] at h2
    exact ⟨h1, h2.symm⟩
  · rintro ⟨h1, h2⟩
    have hs := List.drop_suffix (k + 1 - g.length) (seq.take (k + 1))
    rw [List.drop_take, hsub h1, h2] at hs
    exact hs

omit [DecidableEq α] in
theorem ngramFeats_eq (W N : Nat) (seq : List α) (i : Nat) :
    ngramFeats W N seq i = (List.range N).flatMap fun n =>
      (List.range' ((i + 1) - W) ((min (i + 1 + W) seq.length - n) - ((i + 1) - W))).map fun j =>
        ((seq.drop j).take (n + 1), (j : Int) - (i : Int) - 1) := rfl

omit [DecidableEq α] in
/-- what the window of `ngramFeats` says about a generated feature -/
theorem ngramFeats_mem (W N : Nat) (seq : List α) (i : Nat) (g : List α) (rel : Int)
    (h : (g, rel) ∈ ngramFeats W N seq i) :
    QN N g ∧ -(W : Int) ≤ rel ∧ rel + (g.length : Int) ≤ W := by
  rw [ngramFeats_eq] at h
  obtain ⟨n, hn, h⟩ := List.mem_flatMap.mp h
  obtain ⟨j, hj, h⟩ := List.mem_map.mp h
  have hn' := List.mem_range.mp hn
  have hj' := List.mem_range'_1.mp hj
  obtain ⟨hg, hrel⟩ := Prod.mk.inj h
  have hlen : g.length = n + 1 := by
    rw [← hg, List.length_take, List.length_drop]; omega
  refine ⟨⟨by omega, by omega⟩, ?_, ?_⟩ <;> omega

/-- one stored n-gram: its occurrences inside the window are exactly its generated features -/
theorem entry_sum (W N : Nat) (Fn : List α → Int → Int) (seq : List α) (b : Nat) (g : List α) (v : List Int)
    (hl : v.length = 2 * W - g.length + 1) (hl2 : g.length ≤ 2 * W) (hq : QN N g)
    (hval : ∀ idx : Int, 0 ≤ idx → idx < (v.length : Int) →
      getZ v idx = Fn g ((W : Int) - (g.length : Int) - idx)) :
    ((occEnds g seq).map fun (e : Nat) => getZ v ((b : Int) + 1 + (W : Int) - (e : Int))).sum
      = (((ngramFeats W N seq b).filter fun p => decide (p.1 = g)).map fun p => Fn p.1 p.2).sum := by
  obtain ⟨hq1, hq2⟩ := hq
  let G : Nat → Int := fun j =>
    if (seq.drop j).take g.length = g ∧ (b + 1) - W ≤ j ∧ j + g.length ≤ b + 1 + W
    then Fn g ((j : Int) - (b : Int) - 1) else 0
  have hL : ((occEnds g seq).map fun (e : Nat) => getZ v ((b : Int) + 1 + (W : Int) - (e : Int))).sum
      = ((List.range (seq.length - (g.length - 1))).map G).sum := by
    unfold occEnds
    rw [isum_filterMap, ← isum_range_shift G (g.length - 1) seq.length]
    apply isum_map_congr
    intro k hk
    have hk' := List.mem_range.mp hk
    by_cases hs : g.isSuffixOf (seq.take (k + 1)) = true
    · obtain ⟨s1, s2⟩ := (suffix_take_iff g seq k hk').mp hs
      simp only [hs, if_true]
      rw [if_pos (by omega)]
      have hj : k - (g.length - 1) = k + 1 - g.length := by omega
      simp only [G, hj, s2, true_and]
      by_cases hwin : (b + 1) - W ≤ k + 1 - g.length ∧ k + 1 - g.length + g.length ≤ b + 1 + W
      · rw [if_pos hwin, hval _ (by omega) (by omega)]
        congr 1; omega
      · rw [if_neg hwin]
        by_cases h0 : (b : Int) + 1 + (W : Int) - ((k + 1 : Nat) : Int) < 0
        · exact getZ_of_neg _ _ h0
        · exact getZ_of_le _ _ (by omega)
    · have hs' : g.isSuffixOf (seq.take (k + 1)) = false := Bool.eq_false_iff.mpr hs
      simp only [hs', Bool.false_eq_true, if_false]
      by_cases hle : g.length - 1 ≤ k
      · rw [if_pos hle]
        have hj : k - (g.length - 1) = k + 1 - g.length := by omega
        have : ¬ ((seq.drop (k - (g.length - 1))).take g.length = g) := by
          intro h
          apply hs
          exact (suffix_take_iff g seq k hk').mpr ⟨by omega, by rw [← hj]; exact h⟩
        simp only [G]
        rw [if_neg (fun h => this h.1)]
      · rw [if_neg hle]
  have hR : (((ngramFeats W N seq b).filter fun p => decide (p.1 = g)).map fun p => Fn p.1 p.2).sum
      = ((List.range (seq.length - (g.length - 1))).map G).sum := by
    rw [isum_filter, ngramFeats_eq, isum_flatMap]
    rw [isum_range_single _ (g.length - 1) N (by omega)]
    · simp only [List.map_map]
      rw [isum_range'_ind _ _ (seq.length - (g.length - 1)) _ (by omega)]
      apply isum_map_congr
      intro j hj
      have hj' := List.mem_range.mp hj
      have e1 : g.length - 1 + 1 = g.length := by omega
      simp only [Function.comp, e1, G, decide_eq_true_eq]
      by_cases hg : (seq.drop j).take g.length = g
      · simp only [hg, true_and, if_true]
        by_cases hwin : (b + 1) - W ≤ j ∧ j + g.length ≤ b + 1 + W
        · rw [if_pos hwin, if_pos (by omega)]
        · rw [if_neg hwin, if_neg (by omega)]
      · simp only [hg, false_and, if_false]
        split <;> rfl
    · intro i hi hne
      simp only [List.map_map]
      apply isum_map_eq_zero
      intro j hj
      have hj' := List.mem_range'_1.mp hj
      have : ¬ ((seq.drop j).take (i + 1) = g) := by
        intro h
        have := congrArg List.length h
        rw [List.length_take, List.length_drop] at this
        omega
      simp only [Function.comp, decide_eq_true_eq, this, if_false]
  rw [hL, hR]

/-- the n-gram part of the score -/
theorem ngram_sum {lt : List α → List α → Bool} (st : StrictTotal lt) (W N : Nat) (Fn : List α → Int → Int)
    (m : List (List α × List Int)) (hinv : NgInv lt W (QN N) Fn m) (seq : List α) (b : Nat) :
    ngramScore W (m.map fun e => ⟨e.1, e.2⟩) seq b = ((ngramFeats W N seq b).map fun p => Fn p.1 p.2).sum := by
  obtain ⟨hs, hsh, habs⟩ := hinv
  unfold ngramScore
  rw [List.map_map]
  have e1 : (m.map ((fun (d : NgramData α) => ((occEnds d.ngram seq).map fun (e : Nat) =>
        getZ d.weights ((b : Int) + 1 + (W : Int) - (e : Int))).sum) ∘ fun e => ⟨e.1, e.2⟩)).sum
      = ((m.map Prod.fst).map fun k =>
          (((ngramFeats W N seq b).filter fun p => decide (p.1 = k)).map fun p => Fn p.1 p.2).sum).sum := by
    rw [List.map_map]
    apply isum_map_congr
    intro e he
    obtain ⟨a, b', c, d⟩ := hsh e he
    exact entry_sum W N Fn seq b e.1 e.2 a b' c d
  rw [e1, isum_group _ Prod.fst _ _ (Sorted.nodup st hs), isum_filter]
  apply isum_map_congr
  intro p _
  by_cases hp : p.1 ∈ m.map Prod.fst
  · simp [hp]
  · have : Fn p.1 p.2 = 0 := by
      apply habs
      intro e he heq
      exact hp (List.mem_map.mpr ⟨e, he, heq⟩)
    simp [hp, this]

end
end V.C09L
