import VModel.Spec
import VProofs.Lemmas.ScoreLocal
/-!
# Locality of the per-token tag classifiers (C06): the tag row of a token only depends on the token and on a bounded
stretch of text around its last character
-/
namespace V.C06Loc
open V.C01Loc
variable {α : Type} [DecidableEq α]

/-- the tag n-gram score of the token ending at `pre.length + en` in `pre ++ mid ++ post` is that of the token ending at
`en` in `mid`, when every n-gram occurrence that is looked at lies inside `mid` -/
theorem tagNgramScore_local (tbl : List (TagNgramData α)) (R : Nat)
    (hR : ∀ d ∈ tbl, d.ngram.length ≤ R ∧ ∀ w ∈ d.weights, w.rel ≤ R)
    (pre mid post : List α) (en c : Nat) (he : 1 ≤ en) (h1 : R ≤ en) (h2 : en + R ≤ mid.length) :
    tagNgramScore tbl (pre ++ mid ++ post) (pre.length + en - 1) c = tagNgramScore tbl mid (en - 1) c := by
  unfold tagNgramScore
  congr 1
  apply List.map_congr_left
  intro d hd
  obtain ⟨hg, hw⟩ := hR d hd
  congr 1
  apply List.map_congr_left
  intro w hwm
  have hr := hw w hwm
  have e1 : pre.length + en - 1 + w.rel + 1 = pre.length + (en - 1 + w.rel) + 1 := by omega
  have c1 : pre.length + en - 1 + w.rel < (pre ++ mid ++ post).length := by
    simp only [List.length_append]; omega
  have c2 : en - 1 + w.rel < mid.length := by omega
  rw [e1, isSuffix_mid d.ngram pre mid post (en - 1 + w.rel) (by omega) (by omega)]
  simp only [c1, c2, true_and]

omit [DecidableEq α] in
/-- the surface of the token `[pre.length + st, pre.length + en)` of `pre ++ mid ++ post` is that of `[st, en)` of `mid` -/
theorem surface_local (pre mid post : List α) (st en : Nat) (h : en ≤ mid.length) :
    ((pre ++ mid ++ post).drop (pre.length + st)).take (pre.length + en - (pre.length + st)) =
      (mid.drop st).take (en - st) := by
  have e : pre.length + en - (pre.length + st) = en - st := by omega
  rw [e, List.append_assoc, List.drop_length_add_append, List.drop_append, List.take_append_of_le_length]
  rw [List.length_drop]; omega

theorem specTagScores_local (tm : TagModel) (R : Nat)
    (hc : ∀ d ∈ tm.charNgrams, d.ngram.length ≤ R ∧ ∀ w ∈ d.weights, w.rel ≤ R)
    (ht : ∀ d ∈ tm.typeNgrams, d.ngram.length ≤ R ∧ ∀ w ∈ d.weights, w.rel ≤ R)
    (pre mid post : List Char) (en : Nat) (he : 1 ≤ en) (h1 : R ≤ en) (h2 : en + R ≤ mid.length) :
    specTagScores tm (pre ++ mid ++ post) (pre.length + en - 1) = specTagScores tm mid (en - 1) := by
  have hty : typesOf (pre ++ mid ++ post) = typesOf pre ++ typesOf mid ++ typesOf post := by
    simp [typesOf]
  have hpl : pre.length = (typesOf pre).length := by simp [typesOf]
  unfold specTagScores
  apply List.map_congr_left
  intro c _
  rw [tagNgramScore_local tm.charNgrams R hc pre mid post en c he h1 h2, hty]
  conv => lhs; rw [hpl]
  rw [tagNgramScore_local tm.typeNgrams R ht (typesOf pre) (typesOf mid) (typesOf post) en c he h1
    (by simp only [typesOf, List.length_map]; omega)]

/-- the tag row of the token `[pre.length + st, pre.length + en)` of `pre ++ mid ++ post` is the tag row of the token
`[st, en)` of `mid` -/
theorem specTokenTags_local (m : WModel) (R : Nat)
    (hR : ∀ tm ∈ m.tagModels,
      (∀ d ∈ tm.charNgrams, d.ngram.length ≤ R ∧ ∀ w ∈ d.weights, w.rel ≤ R) ∧
      (∀ d ∈ tm.typeNgrams, d.ngram.length ≤ R ∧ ∀ w ∈ d.weights, w.rel ≤ R))
    (pre mid post : List Char) (st en : Nat) (hse : st < en) (h1 : R ≤ en) (h2 : en + R ≤ mid.length) :
    specTokenTags m (pre ++ mid ++ post) (pre.length + st) (pre.length + en) = specTokenTags m mid st en := by
  unfold specTokenTags
  rw [surface_local pre mid post st en (by omega)]
  cases htm : tagModelOf m ((mid.drop st).take (en - st)) with
  | none => rfl
  | some tm =>
    have hmem : tm ∈ m.tagModels := by
      have := List.mem_of_find?_eq_some htm
      exact List.mem_reverse.mp this
    obtain ⟨hc, ht⟩ := hR tm hmem
    simp only [specTagScores_local tm R hc ht pre mid post en (by omega) h1 h2]

end V.C06Loc
