import VModel.Trainer
import VProofs.Lemmas.AsmOrder
import VProofs.Lemmas.AsmFold
import VProofs.Lemmas.PermBase
/-!
# C09 helpers: the order of `feature_ids` (a `HashMap`) in `Trainer::train` is not observable

Two trace entries with different features commute in `asmStep` (up to the site string of a panic) on every state that the loop
can reach; hence `asmFold`, and `assembleBoundary`, give the same outcome on every permutation of a trace with distinct features.
No hypothesis on the features (`Generable` is not needed): whether an entry panics does not depend on the state.
-/
namespace V.C09L
open V V.PermL

/-! ## one n-gram table -/
section
variable {α : Type} [DecidableEq α]

/-- a reachable n-gram table: strictly sorted keys, every vector has the length its key dictates -/
def TabWF (lt : List α → List α → Bool) (W : Nat) (m : List (List α × List Int)) : Prop :=
  Sorted lt m ∧ ∀ e ∈ m, e.2.length = 2 * W + 1 - e.1.length ∧ e.1.length ≤ 2 * W

/-- position `W − len − rel` of the feature `(g, rel)` -/
def ngPos (W : Nat) (g : List α) (rel : Int) : Int := (W : Int) - (g.length : Int) - rel

/-- the entry `(g, rel)` can be stored (else `placeNgram` panics, whatever the table holds) -/
def NgOK (W : Nat) (g : List α) (rel : Int) : Prop :=
  g.length ≤ 2 * W ∧ 0 ≤ ngPos W g rel ∧ (ngPos W g rel).toNat < 2 * W + 1 - g.length

/-- the vector of `g` in the table, a fresh one if there is none -/
def cur (W : Nat) (m : List (List α × List Int)) (g : List α) : List Int :=
  (lookupK m g).getD (List.replicate (2 * W + 1 - g.length) 0)

theorem sortedUpsert_fail (lt : List α → List α → Bool) (k : List α) (mk : Unit → Res (List Int))
    (upd : List Int → Res (List Int)) (hmk : ∃ s, mk () = .panic s) :
    ∀ (m : List (List α × List Int)), (∀ v, (k, v) ∈ m → ∃ s, upd v = .panic s) →
      ∃ s, sortedUpsert lt k mk upd m = .panic s
  | [], _ => by
    obtain ⟨s, hs⟩ := hmk
    exact ⟨s, by simp [sortedUpsert, hs, Res.map]⟩
  | (k', v') :: r, hupd => by
    simp only [sortedUpsert]
    by_cases hk : k' = k
    · obtain ⟨s, hs⟩ := hupd v' (by rw [hk]; exact List.mem_cons_self)
      exact ⟨s, by simp [hk, hs, Res.map]⟩
    · by_cases hlt : lt k k' = true
      · obtain ⟨s, hs⟩ := hmk
        exact ⟨s, by simp [hk, hlt, hs, Res.map]⟩
      · obtain ⟨s, hs⟩ := sortedUpsert_fail lt k mk upd hmk r (fun v hv => hupd v (List.mem_cons_of_mem _ hv))
        exact ⟨s, by simp [hk, hlt, hs, Res.map]⟩

theorem placeNgram_ok {lt : List α → List α → Bool} (st : StrictTotal lt) {W : Nat} {m : List (List α × List Int)}
    (hwf : TabWF lt W m) (g : List α) (rel w : Int) (hok : NgOK W g rel) :
    ∃ m', placeNgram lt W g rel w m = .ok m' ∧ TabWF lt W m' ∧
      ∀ k, lookupK m' k = if k = g then some ((cur W m g).set (ngPos W g rel).toNat w) else lookupK m k := by
  obtain ⟨hs, hsh⟩ := hwf
  obtain ⟨hlen, hp0, hp1⟩ := hok
  have hnd := Sorted.nodup st hs
  obtain ⟨m', hm', hs', hmem⟩ := sortedUpsert_spec st g
    (fun _ => if g.length ≤ 2 * W then setAt (List.replicate (2 * W + 1 - g.length) 0) (ngPos W g rel) w
              else .panic "window * 2 - len + 1 underflow")
    (fun v => setAt v (ngPos W g rel) w) ((cur W m g).set (ngPos W g rel).toNat w) m hs
    (by
      intro hno
      have : lookupK m g = none := lookupK_eq_none.mpr hno
      simp only [cur, this, Option.getD_none, hlen, if_true, setAt, hp0, List.length_replicate, hp1])
    (by
      intro v hv
      have : lookupK m g = some v := lookupK_of_mem hnd hv
      have hvl := (hsh _ hv).1
      simp only at hvl
      simp only [cur, this, Option.getD_some, setAt, hp0, if_true]
      rw [if_pos (by omega)])
  have hnd' := Sorted.nodup st hs'
  refine ⟨m', hm', ⟨hs', ?_⟩, ?_⟩
  · intro e he
    rcases (hmem e).mp he with ⟨h, _⟩ | h
    · exact hsh e h
    · subst h
      refine ⟨?_, hlen⟩
      simp only [List.length_set, cur]
      cases hl : lookupK m g with
      | none => simp
      | some v => simpa using (hsh _ (mem_of_lookupK hl)).1
  · intro k
    by_cases hk : k = g
    · rw [if_pos hk, hk]
      exact lookupK_of_mem hnd' ((hmem _).mpr (Or.inr rfl))
    · rw [if_neg hk]
      cases hl : lookupK m k with
      | none =>
        rw [lookupK_eq_none] at hl ⊢
        intro e he
        rcases (hmem e).mp he with ⟨h, _⟩ | h
        · exact hl e h
        · rw [h]; exact fun h' => hk h'.symm
      | some v =>
        exact lookupK_of_mem hnd' ((hmem _).mpr (Or.inl ⟨mem_of_lookupK hl, fun h' => hk h'⟩))

theorem placeNgram_panic {lt : List α → List α → Bool} {W : Nat} {m : List (List α × List Int)}
    (hwf : TabWF lt W m) (g : List α) (rel w : Int) (hok : ¬ NgOK W g rel) :
    ∃ s, placeNgram lt W g rel w m = .panic s := by
  have hset : ∀ v : List Int, v.length = 2 * W + 1 - g.length → g.length ≤ 2 * W →
      ∃ s, setAt v (ngPos W g rel) w = .panic s := by
    intro v hv hl
    unfold setAt
    by_cases h0 : 0 ≤ ngPos W g rel
    · rw [if_pos h0]
      by_cases h1 : (ngPos W g rel).toNat < v.length
      · exact absurd ⟨hl, h0, by omega⟩ hok
      · rw [if_neg h1]; exact ⟨_, rfl⟩
    · rw [if_neg h0]; exact ⟨_, rfl⟩
  unfold placeNgram
  apply sortedUpsert_fail
  · show ∃ s, (if g.length ≤ 2 * W then setAt (List.replicate (2 * W + 1 - g.length) 0) (ngPos W g rel) w
        else .panic "window * 2 - len + 1 underflow") = .panic s
    by_cases hl : g.length ≤ 2 * W
    · rw [if_pos hl]; exact hset _ (by simp) hl
    · rw [if_neg hl]; exact ⟨_, rfl⟩
  · intro v hv
    obtain ⟨h1, h2⟩ := hwf.2 _ hv
    exact hset v h1 h2

theorem placeNgram_ok_or_panic {lt : List α → List α → Bool} (st : StrictTotal lt) {W : Nat}
    {m : List (List α × List Int)} (hwf : TabWF lt W m) (g : List α) (rel w : Int) :
    (∃ m', placeNgram lt W g rel w m = .ok m' ∧ TabWF lt W m') ∨ ∃ s, placeNgram lt W g rel w m = .panic s := by
  by_cases hok : NgOK W g rel
  · obtain ⟨m', h, hw, _⟩ := placeNgram_ok st hwf g rel w hok
    exact Or.inl ⟨m', h, hw⟩
  · exact Or.inr (placeNgram_panic hwf g rel w hok)

/-- two different n-gram features commute on a reachable table -/
theorem placeNgram_comm {lt : List α → List α → Bool} (st : StrictTotal lt) {W : Nat} {m : List (List α × List Int)}
    (hwf : TabWF lt W m) (g₁ g₂ : List α) (rel₁ rel₂ w₁ w₂ : Int) (hne : ¬ (g₁ = g₂ ∧ rel₁ = rel₂)) :
    ResSim ((placeNgram lt W g₁ rel₁ w₁ m).bind (placeNgram lt W g₂ rel₂ w₂))
      ((placeNgram lt W g₂ rel₂ w₂ m).bind (placeNgram lt W g₁ rel₁ w₁)) := by
  by_cases ok₁ : NgOK W g₁ rel₁
  · by_cases ok₂ : NgOK W g₂ rel₂
    · obtain ⟨m₁, h₁, wf₁, l₁⟩ := placeNgram_ok st hwf g₁ rel₁ w₁ ok₁
      obtain ⟨m₂, h₂, wf₂, l₂⟩ := placeNgram_ok st hwf g₂ rel₂ w₂ ok₂
      obtain ⟨m₁₂, h₁₂, wf₁₂, l₁₂⟩ := placeNgram_ok st wf₁ g₂ rel₂ w₂ ok₂
      obtain ⟨m₂₁, h₂₁, wf₂₁, l₂₁⟩ := placeNgram_ok st wf₂ g₁ rel₁ w₁ ok₁
      rw [h₁, h₂, Res.bind_ok, Res.bind_ok, h₁₂, h₂₁]
      refine Or.inl (congrArg Res.ok ?_)
      refine eq_of_sorted_lookupK_eq lt st.irrefl st.trans wf₁₂.1 wf₂₁.1 ?_
      intro k
      rw [l₁₂, l₂₁, l₁, l₂]
      by_cases hg : g₁ = g₂
      · subst hg
        have hrel : rel₁ ≠ rel₂ := fun h => hne ⟨rfl, h⟩
        have hp : (ngPos W g₁ rel₁).toNat ≠ (ngPos W g₁ rel₂).toNat := by
          have a₁ := ok₁.2.1
          have a₂ := ok₂.2.1
          unfold ngPos at a₁ a₂ ⊢
          omega
        have c₁ : cur W m₁ g₁ = (cur W m g₁).set (ngPos W g₁ rel₁).toNat w₁ := by
          simp only [cur, l₁, if_true, Option.getD_some]
        have c₂ : cur W m₂ g₁ = (cur W m g₁).set (ngPos W g₁ rel₂).toNat w₂ := by
          simp only [cur, l₂, if_true, Option.getD_some]
        rw [c₁, c₂]
        by_cases hk : k = g₁
        · simp only [hk, if_true]
          rw [List.set_comm _ _ hp]
        · simp only [hk, if_false]
      · have hg' : ¬ g₂ = g₁ := fun h => hg h.symm
        have c₁ : cur W m₁ g₂ = cur W m g₂ := by
          simp only [cur, l₁, hg', if_false]
        have c₂ : cur W m₂ g₁ = cur W m g₁ := by
          simp only [cur, l₂, hg, if_false]
        rw [c₁, c₂]
        by_cases hk₁ : k = g₁
        · have hk₂ : ¬ k = g₂ := fun h => hg (hk₁.symm.trans h)
          simp only [hk₁, hg, if_true, if_false]
        · simp only [hk₁, if_false]
    · -- the second entry panics in both orders
      obtain ⟨m₁, h₁, wf₁, _⟩ := placeNgram_ok st hwf g₁ rel₁ w₁ ok₁
      obtain ⟨s, hs⟩ := placeNgram_panic wf₁ g₂ rel₂ w₂ ok₂
      obtain ⟨s', hs'⟩ := placeNgram_panic hwf g₂ rel₂ w₂ ok₂
      rw [h₁, Res.bind_ok, hs, hs', Res.bind_panic]
      exact ResSim.panic _ _
  · obtain ⟨s, hs⟩ := placeNgram_panic hwf g₁ rel₁ w₁ ok₁
    rw [hs, Res.bind_panic]
    rcases placeNgram_ok_or_panic st hwf g₂ rel₂ w₂ with ⟨m₂, h₂, wf₂⟩ | ⟨s₂, h₂⟩
    · obtain ⟨s', hs'⟩ := placeNgram_panic wf₂ g₁ rel₁ w₁ ok₁
      rw [h₂, Res.bind_ok, hs']
      exact ResSim.panic _ _
    · rw [h₂, Res.bind_panic]
      exact ResSim.panic _ _

end

/-! ## the dictionary buckets -/

/-- the `DictionaryWord` arm of `asmStep` on the bucket vector -/
def dictOp (len : Nat) (pos : DPos) (w : Int) (d : List (Int × Int × Int)) : Res (List (Int × Int × Int)) :=
  if len = 0 ∨ d.length < len then .panic "dict_weights[length - 1]"
  else
    let e := d.getD (len - 1) (0, 0, 0)
    .ok (d.set (len - 1) (dictTriple pos e.1 e.2.1 e.2.2 w))

theorem dictOp_ok_or_panic (len : Nat) (pos : DPos) (w : Int) (d : List (Int × Int × Int)) :
    (∃ d', dictOp len pos w d = .ok d' ∧ d'.length = d.length) ∨ ∃ s, dictOp len pos w d = .panic s := by
  unfold dictOp
  by_cases h : len = 0 ∨ d.length < len
  · rw [if_pos h]; exact Or.inr ⟨_, rfl⟩
  · rw [if_neg h]; exact Or.inl ⟨_, rfl, by simp⟩

theorem dictTriple_comm (p₁ p₂ : DPos) (hp : p₁ ≠ p₂) (e : Int × Int × Int) (w₁ w₂ : Int) :
    dictTriple p₂ (dictTriple p₁ e.1 e.2.1 e.2.2 w₁).1 (dictTriple p₁ e.1 e.2.1 e.2.2 w₁).2.1
        (dictTriple p₁ e.1 e.2.1 e.2.2 w₁).2.2 w₂
      = dictTriple p₁ (dictTriple p₂ e.1 e.2.1 e.2.2 w₂).1 (dictTriple p₂ e.1 e.2.1 e.2.2 w₂).2.1
        (dictTriple p₂ e.1 e.2.1 e.2.2 w₂).2.2 w₁ := by
  cases p₁ <;> cases p₂ <;> first | exact absurd rfl hp | rfl

theorem dictOp_comm (len₁ len₂ : Nat) (p₁ p₂ : DPos) (w₁ w₂ : Int) (hne : ¬ (len₁ = len₂ ∧ p₁ = p₂))
    (d : List (Int × Int × Int)) :
    (dictOp len₁ p₁ w₁ d).bind (dictOp len₂ p₂ w₂) = (dictOp len₂ p₂ w₂ d).bind (dictOp len₁ p₁ w₁) := by
  unfold dictOp
  by_cases h₁ : len₁ = 0 ∨ d.length < len₁
  · by_cases h₂ : len₂ = 0 ∨ d.length < len₂
    · simp only [h₁, h₂, if_true, Res.bind_panic]
    · simp only [h₁, h₂, if_true, if_false, Res.bind_panic, Res.bind_ok, List.length_set]
  · by_cases h₂ : len₂ = 0 ∨ d.length < len₂
    · simp only [h₁, h₂, if_true, if_false, Res.bind_panic, Res.bind_ok, List.length_set]
    · simp only [h₁, h₂, if_false, Res.bind_ok, List.length_set]
      refine congrArg Res.ok ?_
      by_cases hl : len₁ = len₂
      · subst hl
        have hp : p₁ ≠ p₂ := fun h => hne ⟨rfl, h⟩
        have hi : len₁ - 1 < d.length := by omega
        have hg : ∀ e, (d.set (len₁ - 1) e).getD (len₁ - 1) (0, 0, 0) = e := by
          intro e
          rw [List.getD_eq_getElem?_getD, List.getElem?_set_self (by simpa using hi)]
          rfl
        rw [hg, hg, List.set_set, List.set_set, dictTriple_comm p₁ p₂ hp]
      · have hi : len₁ - 1 ≠ len₂ - 1 := by omega
        have hg₁ : ∀ e, (d.set (len₁ - 1) e).getD (len₂ - 1) (0, 0, 0) = d.getD (len₂ - 1) (0, 0, 0) := by
          intro e
          rw [List.getD_eq_getElem?_getD, List.getD_eq_getElem?_getD, List.getElem?_set_ne hi]
        have hg₂ : ∀ e, (d.set (len₂ - 1) e).getD (len₁ - 1) (0, 0, 0) = d.getD (len₁ - 1) (0, 0, 0) := by
          intro e
          rw [List.getD_eq_getElem?_getD, List.getD_eq_getElem?_getD, List.getElem?_set_ne (fun h => hi h.symm)]
        rw [hg₁, hg₂, List.set_comm _ _ hi]

/-! ## the assembly state -/

/-- a state the loop of `Trainer::train` can reach -/
structure AsmWF (cfg : TrainCfg) (a : Asm) : Prop where
  chars : TabWF (lexLt ltChar) cfg.charW a.charM
  types : TabWF (lexLt ltNat) cfg.typeW a.typeM
  dlen : a.dictW.length = cfg.dictMaxLen

theorem asmWF_init (cfg : TrainCfg) : AsmWF cfg { dictW := List.replicate cfg.dictMaxLen (0, 0, 0) } :=
  ⟨⟨List.Pairwise.nil, by intro e he; cases he⟩, ⟨List.Pairwise.nil, by intro e he; cases he⟩, by simp⟩

theorem asmStep_zero (cfg : TrainCfg) (a : Asm) (f : Feature) : asmStep cfg a (f, 0) = .ok a := by
  simp [asmStep]

theorem asmStep_char (cfg : TrainCfg) (a : Asm) (g : List Char) (rel w : Int) (hw : ¬ w = 0) :
    asmStep cfg a (.charNgram g rel, w)
      = (placeNgram (lexLt ltChar) cfg.charW g rel w a.charM).map fun m => { a with charM := m } := by
  simp [asmStep, hw]

theorem asmStep_type (cfg : TrainCfg) (a : Asm) (g : List Nat) (rel w : Int) (hw : ¬ w = 0) :
    asmStep cfg a (.typeNgram g rel, w)
      = (placeNgram (lexLt ltNat) cfg.typeW g rel w a.typeM).map fun m => { a with typeM := m } := by
  simp [asmStep, hw]

theorem asmStep_dictOp (cfg : TrainCfg) (a : Asm) (len : Nat) (pos : DPos) (w : Int) (hw : ¬ w = 0) :
    asmStep cfg a (.dictWord len pos, w) = (dictOp len pos w a.dictW).map fun d => { a with dictW := d } := by
  unfold dictOp
  by_cases hcond : len = 0 ∨ a.dictW.length < len
  · simp [asmStep, hw, hcond, Res.map]
  · rw [asmStep_dict cfg a len pos w hw hcond _ _ _ rfl, if_neg hcond]
    rfl

/-- two updates of different components of a record commute (`get`/`put` pairs that do not see each other) -/
theorem comm_lens {A X Y : Type} (g₁ : A → X) (p₁ : A → X → A) (g₂ : A → Y) (p₂ : A → Y → A)
    (h₁₂ : ∀ a x, g₂ (p₁ a x) = g₂ a) (h₂₁ : ∀ a y, g₁ (p₂ a y) = g₁ a)
    (hpp : ∀ a x y, p₂ (p₁ a x) y = p₁ (p₂ a y) x)
    (o₁ : X → Res X) (o₂ : Y → Res Y) (a : A)
    (k₁ : (∃ x, o₁ (g₁ a) = .ok x) ∨ ∃ s, o₁ (g₁ a) = .panic s)
    (k₂ : (∃ y, o₂ (g₂ a) = .ok y) ∨ ∃ s, o₂ (g₂ a) = .panic s) :
    ResSim (((o₁ (g₁ a)).map (p₁ a)).bind fun a' => (o₂ (g₂ a')).map (p₂ a'))
      (((o₂ (g₂ a)).map (p₂ a)).bind fun a' => (o₁ (g₁ a')).map (p₁ a')) := by
  rcases k₁ with ⟨x, hx⟩ | ⟨s₁, hx⟩ <;> rcases k₂ with ⟨y, hy⟩ | ⟨s₂, hy⟩
  · simp only [hx, hy, Res.map, Res.bind_ok, h₁₂, h₂₁, hpp]
    exact ResSim.refl _
  · simp only [hx, hy, Res.map, Res.bind_ok, Res.bind_panic, h₁₂]
    exact ResSim.refl _
  · simp only [hx, hy, Res.map, Res.bind_ok, Res.bind_panic, h₂₁]
    exact ResSim.refl _
  · simp only [hx, hy, Res.map, Res.bind_panic]
    exact ResSim.panic _ _

/-- consecutive updates of the same component -/
theorem same_lens {A X : Type} (g : A → X) (p : A → X → A) (hgp : ∀ a x, g (p a x) = x) (hpp : ∀ a x x', p (p a x) x' = p a x')
    (o₁ o₂ : X → Res X) (a : A) :
    (((o₁ (g a)).map (p a)).bind fun a' => (o₂ (g a')).map (p a')) = ((o₁ (g a)).bind o₂).map (p a) := by
  cases h : o₁ (g a) with
  | ok x =>
    simp only [Res.map, Res.bind_ok, hgp]
    cases o₂ x <;> simp only [hpp]
  | err _ => rfl
  | panic _ => rfl
  | ub _ => rfl

theorem asmStep_wf (cfg : TrainCfg) (a a' : Asm) (hwf : AsmWF cfg a) (fw : Feature × Int)
    (h : asmStep cfg a fw = .ok a') : AsmWF cfg a' := by
  obtain ⟨f, w⟩ := fw
  by_cases hw : w = 0
  · rw [hw, asmStep_zero] at h
    cases h; exact hwf
  · cases f with
    | charNgram g rel =>
      rw [asmStep_char cfg a g rel w hw] at h
      rcases placeNgram_ok_or_panic (lexLt_st ltChar_st) hwf.chars g rel w with ⟨m', hm', wf'⟩ | ⟨s, hs⟩
      · rw [hm'] at h; cases h
        exact ⟨wf', hwf.types, hwf.dlen⟩
      · rw [hs] at h; cases h
    | typeNgram g rel =>
      rw [asmStep_type cfg a g rel w hw] at h
      rcases placeNgram_ok_or_panic (lexLt_st ltNat_st) hwf.types g rel w with ⟨m', hm', wf'⟩ | ⟨s, hs⟩
      · rw [hm'] at h; cases h
        exact ⟨hwf.chars, wf', hwf.dlen⟩
      · rw [hs] at h; cases h
    | dictWord len pos =>
      rw [asmStep_dictOp cfg a len pos w hw] at h
      rcases dictOp_ok_or_panic len pos w a.dictW with ⟨d', hd', hl⟩ | ⟨s, hs⟩
      · rw [hd'] at h; cases h
        exact ⟨hwf.chars, hwf.types, hl.trans hwf.dlen⟩
      · rw [hs] at h; cases h

/-- the step function of the fold, on outcomes -/
def fstep (cfg : TrainCfg) (r : Res Asm) (fw : Feature × Int) : Res Asm := r.bind fun a => asmStep cfg a fw

theorem foldl_fstep_stuck (cfg : TrainCfg) (r : Res Asm) (hr : ∀ a, r ≠ .ok a) :
    ∀ l : List (Feature × Int), l.foldl (fstep cfg) r = r
  | [] => rfl
  | x :: l => by
    have : fstep cfg r x = r := by
      cases r with
      | ok a => exact absurd rfl (hr a)
      | err _ => rfl
      | panic _ => rfl
      | ub _ => rfl
    rw [List.foldl_cons, this]
    exact foldl_fstep_stuck cfg r hr l

theorem asmFold_eq_foldl (cfg : TrainCfg) : ∀ (l : List (Feature × Int)) (a : Asm),
    asmFold cfg l a = l.foldl (fstep cfg) (.ok a)
  | [], _ => rfl
  | fw :: r, a => by
    rw [List.foldl_cons]
    show asmFold cfg (fw :: r) a = r.foldl (fstep cfg) (asmStep cfg a fw)
    simp only [asmFold]
    cases h : asmStep cfg a fw with
    | ok a' => exact asmFold_eq_foldl cfg r a'
    | err e => rw [foldl_fstep_stuck cfg _ (by intro a h; cases h)]
    | panic s => rw [foldl_fstep_stuck cfg _ (by intro a h; cases h)]
    | ub s => rw [foldl_fstep_stuck cfg _ (by intro a h; cases h)]

theorem res_bind_ok_right {σ : Type} (r : Res σ) : r.bind Res.ok = r := by
  cases r <;> rfl

/-- **commutation**: two trace entries with different features commute on a reachable state -/
theorem asmStep_comm (cfg : TrainCfg) (a : Asm) (hwf : AsmWF cfg a) (x y : Feature × Int) (hxy : x.1 ≠ y.1) :
    ResSim ((asmStep cfg a x).bind fun a' => asmStep cfg a' y) ((asmStep cfg a y).bind fun a' => asmStep cfg a' x) := by
  obtain ⟨f₁, w₁⟩ := x
  obtain ⟨f₂, w₂⟩ := y
  simp only at hxy
  by_cases hw₁ : w₁ = 0
  · subst hw₁
    have : (fun a' => asmStep cfg a' (f₁, 0)) = Res.ok := funext fun a' => asmStep_zero cfg a' f₁
    rw [asmStep_zero, Res.bind_ok, this, res_bind_ok_right]
    exact ResSim.refl _
  by_cases hw₂ : w₂ = 0
  · subst hw₂
    have : (fun a' => asmStep cfg a' (f₂, 0)) = Res.ok := funext fun a' => asmStep_zero cfg a' f₂
    rw [asmStep_zero, Res.bind_ok, this, res_bind_ok_right]
    exact ResSim.refl _
  -- the three components as `get`/`put` pairs
  have okC : ∀ (g : List Char) (rel w : Int),
      (∃ x, placeNgram (lexLt ltChar) cfg.charW g rel w a.charM = .ok x) ∨
        ∃ s, placeNgram (lexLt ltChar) cfg.charW g rel w a.charM = .panic s := by
    intro g rel w
    rcases placeNgram_ok_or_panic (lexLt_st ltChar_st) hwf.chars g rel w with ⟨m', h, _⟩ | h
    · exact Or.inl ⟨m', h⟩
    · exact Or.inr h
  have okT : ∀ (g : List Nat) (rel w : Int),
      (∃ x, placeNgram (lexLt ltNat) cfg.typeW g rel w a.typeM = .ok x) ∨
        ∃ s, placeNgram (lexLt ltNat) cfg.typeW g rel w a.typeM = .panic s := by
    intro g rel w
    rcases placeNgram_ok_or_panic (lexLt_st ltNat_st) hwf.types g rel w with ⟨m', h, _⟩ | h
    · exact Or.inl ⟨m', h⟩
    · exact Or.inr h
  have okD : ∀ (len : Nat) (pos : DPos) (w : Int),
      (∃ x, dictOp len pos w a.dictW = .ok x) ∨ ∃ s, dictOp len pos w a.dictW = .panic s := by
    intro len pos w
    rcases dictOp_ok_or_panic len pos w a.dictW with ⟨d', h, _⟩ | h
    · exact Or.inl ⟨d', h⟩
    · exact Or.inr h
  have eC : ∀ (g : List Char) (rel w : Int), ¬ w = 0 →
      (fun a' : Asm => asmStep cfg a' (.charNgram g rel, w)) =
        fun a' => (placeNgram (lexLt ltChar) cfg.charW g rel w a'.charM).map fun m => { a' with charM := m } :=
    fun g rel w hw => funext fun a' => asmStep_char cfg a' g rel w hw
  have eT : ∀ (g : List Nat) (rel w : Int), ¬ w = 0 →
      (fun a' : Asm => asmStep cfg a' (.typeNgram g rel, w)) =
        fun a' => (placeNgram (lexLt ltNat) cfg.typeW g rel w a'.typeM).map fun m => { a' with typeM := m } :=
    fun g rel w hw => funext fun a' => asmStep_type cfg a' g rel w hw
  have eD : ∀ (len : Nat) (pos : DPos) (w : Int), ¬ w = 0 →
      (fun a' : Asm => asmStep cfg a' (.dictWord len pos, w)) =
        fun a' => (dictOp len pos w a'.dictW).map fun d => { a' with dictW := d } :=
    fun len pos w hw => funext fun a' => asmStep_dictOp cfg a' len pos w hw
  cases f₁ with
  | charNgram g₁ rel₁ =>
    cases f₂ with
    | charNgram g₂ rel₂ =>
      have hne : ¬ (g₁ = g₂ ∧ rel₁ = rel₂) := fun h => hxy (by rw [h.1, h.2])
      rw [eC g₁ rel₁ w₁ hw₁, eC g₂ rel₂ w₂ hw₂, asmStep_char cfg a g₁ rel₁ w₁ hw₁, asmStep_char cfg a g₂ rel₂ w₂ hw₂]
      rw [same_lens (fun a : Asm => a.charM) (fun a m => { a with charM := m }) (fun _ _ => rfl) (fun _ _ _ => rfl),
        same_lens (fun a : Asm => a.charM) (fun a m => { a with charM := m }) (fun _ _ => rfl) (fun _ _ _ => rfl)]
      exact (placeNgram_comm (lexLt_st ltChar_st) hwf.chars g₁ g₂ rel₁ rel₂ w₁ w₂ hne).map _
    | typeNgram g₂ rel₂ =>
      rw [eC g₁ rel₁ w₁ hw₁, eT g₂ rel₂ w₂ hw₂, asmStep_char cfg a g₁ rel₁ w₁ hw₁, asmStep_type cfg a g₂ rel₂ w₂ hw₂]
      exact comm_lens (fun a : Asm => a.charM) (fun a m => { a with charM := m }) (fun a : Asm => a.typeM)
        (fun a m => { a with typeM := m }) (fun _ _ => rfl) (fun _ _ => rfl) (fun _ _ _ => rfl) _ _ a
        (okC g₁ rel₁ w₁) (okT g₂ rel₂ w₂)
    | dictWord len₂ pos₂ =>
      rw [eC g₁ rel₁ w₁ hw₁, eD len₂ pos₂ w₂ hw₂, asmStep_char cfg a g₁ rel₁ w₁ hw₁, asmStep_dictOp cfg a len₂ pos₂ w₂ hw₂]
      exact comm_lens (fun a : Asm => a.charM) (fun a m => { a with charM := m }) (fun a : Asm => a.dictW)
        (fun a d => { a with dictW := d }) (fun _ _ => rfl) (fun _ _ => rfl) (fun _ _ _ => rfl) _ _ a
        (okC g₁ rel₁ w₁) (okD len₂ pos₂ w₂)
  | typeNgram g₁ rel₁ =>
    cases f₂ with
    | charNgram g₂ rel₂ =>
      rw [eT g₁ rel₁ w₁ hw₁, eC g₂ rel₂ w₂ hw₂, asmStep_type cfg a g₁ rel₁ w₁ hw₁, asmStep_char cfg a g₂ rel₂ w₂ hw₂]
      exact (comm_lens (fun a : Asm => a.charM) (fun a m => { a with charM := m }) (fun a : Asm => a.typeM)
        (fun a m => { a with typeM := m }) (fun _ _ => rfl) (fun _ _ => rfl) (fun _ _ _ => rfl) _ _ a
        (okC g₂ rel₂ w₂) (okT g₁ rel₁ w₁)).symm
    | typeNgram g₂ rel₂ =>
      have hne : ¬ (g₁ = g₂ ∧ rel₁ = rel₂) := fun h => hxy (by rw [h.1, h.2])
      rw [eT g₁ rel₁ w₁ hw₁, eT g₂ rel₂ w₂ hw₂, asmStep_type cfg a g₁ rel₁ w₁ hw₁, asmStep_type cfg a g₂ rel₂ w₂ hw₂]
      rw [same_lens (fun a : Asm => a.typeM) (fun a m => { a with typeM := m }) (fun _ _ => rfl) (fun _ _ _ => rfl),
        same_lens (fun a : Asm => a.typeM) (fun a m => { a with typeM := m }) (fun _ _ => rfl) (fun _ _ _ => rfl)]
      exact (placeNgram_comm (lexLt_st ltNat_st) hwf.types g₁ g₂ rel₁ rel₂ w₁ w₂ hne).map _
    | dictWord len₂ pos₂ =>
      rw [eT g₁ rel₁ w₁ hw₁, eD len₂ pos₂ w₂ hw₂, asmStep_type cfg a g₁ rel₁ w₁ hw₁, asmStep_dictOp cfg a len₂ pos₂ w₂ hw₂]
      exact comm_lens (fun a : Asm => a.typeM) (fun a m => { a with typeM := m }) (fun a : Asm => a.dictW)
        (fun a d => { a with dictW := d }) (fun _ _ => rfl) (fun _ _ => rfl) (fun _ _ _ => rfl) _ _ a
        (okT g₁ rel₁ w₁) (okD len₂ pos₂ w₂)
  | dictWord len₁ pos₁ =>
    cases f₂ with
    | charNgram g₂ rel₂ =>
      rw [eD len₁ pos₁ w₁ hw₁, eC g₂ rel₂ w₂ hw₂, asmStep_dictOp cfg a len₁ pos₁ w₁ hw₁, asmStep_char cfg a g₂ rel₂ w₂ hw₂]
      exact (comm_lens (fun a : Asm => a.charM) (fun a m => { a with charM := m }) (fun a : Asm => a.dictW)
        (fun a d => { a with dictW := d }) (fun _ _ => rfl) (fun _ _ => rfl) (fun _ _ _ => rfl) _ _ a
        (okC g₂ rel₂ w₂) (okD len₁ pos₁ w₁)).symm
    | typeNgram g₂ rel₂ =>
      rw [eD len₁ pos₁ w₁ hw₁, eT g₂ rel₂ w₂ hw₂, asmStep_dictOp cfg a len₁ pos₁ w₁ hw₁, asmStep_type cfg a g₂ rel₂ w₂ hw₂]
      exact (comm_lens (fun a : Asm => a.typeM) (fun a m => { a with typeM := m }) (fun a : Asm => a.dictW)
        (fun a d => { a with dictW := d }) (fun _ _ => rfl) (fun _ _ => rfl) (fun _ _ _ => rfl) _ _ a
        (okT g₂ rel₂ w₂) (okD len₁ pos₁ w₁)).symm
    | dictWord len₂ pos₂ =>
      have hne : ¬ (len₁ = len₂ ∧ pos₁ = pos₂) := fun h => hxy (by rw [h.1, h.2])
      rw [eD len₁ pos₁ w₁ hw₁, eD len₂ pos₂ w₂ hw₂, asmStep_dictOp cfg a len₁ pos₁ w₁ hw₁, asmStep_dictOp cfg a len₂ pos₂ w₂ hw₂]
      rw [same_lens (fun a : Asm => a.dictW) (fun a d => { a with dictW := d }) (fun _ _ => rfl) (fun _ _ _ => rfl),
        same_lens (fun a : Asm => a.dictW) (fun a d => { a with dictW := d }) (fun _ _ => rfl) (fun _ _ _ => rfl)]
      rw [dictOp_comm len₁ len₂ pos₁ pos₂ w₁ w₂ hne]
      exact ResSim.refl _

/-- the fold over two permutations of a trace with distinct features -/
theorem asmFold_perm (cfg : TrainCfg) {l₁ l₂ : List (Feature × Int)} (p : l₁.Perm l₂) (hnd : (l₁.map Prod.fst).Nodup)
    (a : Asm) (hwf : AsmWF cfg a) : ResSim (asmFold cfg l₁ a) (asmFold cfg l₂ a) := by
  rw [asmFold_eq_foldl, asmFold_eq_foldl]
  refine foldl_perm_gen (fstep cfg) ResSim (fun r => ∀ a, r = .ok a → AsmWF cfg a) (fun x y => x.1 ≠ y.1)
    ResSim.refl (fun _ _ _ => ResSim.trans) ?_ ?_ (fun _ _ h => fun h' => h h'.symm) ?_ p ?_ (.ok a) ?_
  · intro s s' x _ _ h
    exact h.bind _
  · intro s x hs a' ha'
    cases s with
    | ok a₀ => exact asmStep_wf cfg a₀ a' (hs a₀ rfl) x ha'
    | err _ => cases ha'
    | panic _ => cases ha'
    | ub _ => cases ha'
  · intro s x y hs hxy
    cases s with
    | ok a₀ => exact asmStep_comm cfg a₀ (hs a₀ rfl) x y hxy
    | err _ => exact ResSim.refl _
    | panic _ => exact ResSim.refl _
    | ub _ => exact ResSim.refl _
  · rw [List.nodup_iff_pairwise_ne, List.pairwise_map] at hnd
    exact hnd
  · intro a' ha'
    cases ha'; exact hwf

theorem assembleBoundary_eq_bind (cfg : TrainCfg) (trace : List (Feature × Int)) (bias : Int) (tms : List TagModel) :
    assembleBoundary cfg trace bias tms =
      (asmFold cfg trace { dictW := List.replicate cfg.dictMaxLen (0, 0, 0) }).bind fun a =>
        (mapRes (dictRecord a.dictW) cfg.dictWords).map fun dict =>
          { charNgrams := a.charM.map fun e => ⟨e.1, e.2⟩, typeNgrams := a.typeM.map fun e => ⟨e.1, e.2⟩, dict := dict,
            bias := bias, charW := cfg.charW, typeW := cfg.typeW, tagModels := tms } := by
  unfold assembleBoundary
  cases asmFold cfg trace { dictW := List.replicate cfg.dictMaxLen (0, 0, 0) } with
  | ok a =>
    simp only [Res.bind_ok]
    cases mapRes (dictRecord a.dictW) cfg.dictWords <;> rfl
  | err _ => rfl
  | panic _ => rfl
  | ub _ => rfl

theorem assemble_perm (cfg : TrainCfg) {l₁ l₂ : List (Feature × Int)} (p : l₁.Perm l₂) (hnd : (l₁.map Prod.fst).Nodup)
    (bias : Int) (tms : List TagModel) :
    ResSim (assembleBoundary cfg l₁ bias tms) (assembleBoundary cfg l₂ bias tms) := by
  rw [assembleBoundary_eq_bind, assembleBoundary_eq_bind]
  exact (asmFold_perm cfg p hnd _ (asmWF_init cfg)).bind _

end V.C09L
