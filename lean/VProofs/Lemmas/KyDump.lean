import VModel.Kytea
/-!
# C17 — `Dictionary::dump_items`

* `Enc states entries i w x`: what a state table encodes below state `i` reached by spelling `w`.
* `dump_spec` / `dump_correct`: whenever the walk returns, it lists exactly the encoded items (any table).
* `TreeTable`: the goto edges form a tree below state 0 and the branch states carry a valid entry;
  `dump_terminates`: on such a table the walk returns within `states.length` pops.
-/
namespace V.C17L
open V V.Ky

inductive Enc {τ : Type} (states : List KState) (entries : List τ) : Nat → List Char → List Char × τ → Prop
  | here {i w st o os e} : states[i]? = some st → st.isBranch = true → st.outputs = o :: os → entries[o]? = some e →
      Enc states entries i w (w, e)
  | child {i w st g x} : states[i]? = some st → g ∈ st.gotos → Enc states entries g.2 (w ++ [g.1]) x →
      Enc states entries i w x

variable {τ : Type}

theorem enc_unfold {states : List KState} {entries : List τ} {i : Nat} {w : List Char} {st : KState}
    (hst : states[i]? = some st) (x : List Char × τ) : Enc states entries i w x ↔
      (st.isBranch = true ∧ ∃ o os e, st.outputs = o :: os ∧ entries[o]? = some e ∧ x = (w, e)) ∨
      ∃ g, g ∈ st.gotos ∧ Enc states entries g.2 (w ++ [g.1]) x := by
  constructor
  · intro h
    cases h with
    | here h1 h2 h3 h4 => rw [hst] at h1; cases h1; exact Or.inl ⟨h2, _, _, _, h3, h4, rfl⟩
    | child h1 h2 h3 => rw [hst] at h1; cases h1; exact Or.inr ⟨_, h2, h3⟩
  · rintro (⟨hb, o, os, e, ho, he, rfl⟩ | ⟨g, hm, he⟩)
    · exact Enc.here hst hb ho he
    · exact Enc.child hst hm he

theorem dump_spec (states : List KState) (entries : List τ) :
    ∀ (fuel : Nat) (stack : List (Nat × List Char)) (acc res : List (List Char × τ)),
    dumpItems states entries fuel stack acc = .ok res →
    ∀ x, x ∈ res ↔ x ∈ acc ∨ ∃ p ∈ stack, Enc states entries p.1 p.2 x := by
  intro fuel
  induction fuel with
  | zero =>
    intro stack acc res h x
    cases stack with
    | nil => simp [dumpItems] at h; subst h; simp
    | cons p r => simp [dumpItems] at h
  | succ fuel ih =>
    intro stack acc res h x
    cases stack with
    | nil => simp [dumpItems] at h; subst h; simp
    | cons p rest =>
      obtain ⟨idx, word⟩ := p
      simp only [dumpItems] at h
      cases hst : states[idx]? with
      | none => simp [hst] at h
      | some st =>
        simp only [hst] at h
        have e1 : ∀ (rest' : List (Nat × List Char)),
            (∃ p, p ∈ st.gotos.map (fun g => (g.2, word ++ [g.1])) ++ rest' ∧ Enc states entries p.1 p.2 x) ↔
            (∃ g, g ∈ st.gotos ∧ Enc states entries g.2 (word ++ [g.1]) x) ∨
              ∃ p, p ∈ rest' ∧ Enc states entries p.1 p.2 x := by
          intro rest'
          constructor
          · rintro ⟨p, hp, he⟩
            rcases List.mem_append.1 hp with hp | hp
            · obtain ⟨g, hm, rfl⟩ := List.mem_map.1 hp
              exact Or.inl ⟨g, hm, he⟩
            · exact Or.inr ⟨p, hp, he⟩
          · rintro (⟨g, hm, he⟩ | ⟨p, hp, he⟩)
            · exact ⟨(g.2, word ++ [g.1]), List.mem_append.2 (Or.inl (List.mem_map.2 ⟨g, hm, rfl⟩)), he⟩
            · exact ⟨p, List.mem_append.2 (Or.inr hp), he⟩
        have e2 : (∃ p, p ∈ (idx, word) :: rest ∧ Enc states entries p.1 p.2 x) ↔
            Enc states entries idx word x ∨ ∃ p, p ∈ rest ∧ Enc states entries p.1 p.2 x := by
          simp only [List.mem_cons, or_and_right, exists_or, exists_eq_left]
        by_cases hb : st.isBranch = true
        · simp only [hb, if_true] at h
          cases ho : st.outputs with
          | nil => simp [ho] at h
          | cons o os =>
            simp only [ho] at h
            cases hen : entries[o]? with
            | none => simp [hen] at h
            | some e =>
              simp only [hen] at h
              rw [ih _ _ _ h x, e1, e2, enc_unfold hst]
              simp only [List.mem_append, List.mem_singleton, hb, true_and, ho]
              constructor
              · rintro ((h1 | h1) | (h1 | h1))
                · exact Or.inl h1
                · exact Or.inr (Or.inl (Or.inl ⟨o, os, e, rfl, hen, h1⟩))
                · exact Or.inr (Or.inl (Or.inr h1))
                · exact Or.inr (Or.inr h1)
              · rintro (h1 | ((⟨o', os', e', ho', he', h1⟩ | h1) | h1))
                · exact Or.inl (Or.inl h1)
                · cases ho'; rw [hen] at he'; cases he'; exact Or.inl (Or.inr h1)
                · exact Or.inr (Or.inl h1)
                · exact Or.inr (Or.inr h1)
        · have hb' : st.isBranch = false := by simpa using hb
          simp only [hb', Bool.false_eq_true, if_false] at h
          rw [ih _ _ _ h x, e1, e2, enc_unfold hst]
          simp only [hb', Bool.false_eq_true, false_and, false_or]

/-- when the trie walk returns, it lists exactly the (word, entry) pairs the table encodes -/
theorem dump_correct (states : List KState) (entries : List τ) (fuel : Nat) (res : List (List Char × τ))
    (h : dumpItems states entries fuel [(0, [])] [] = .ok res) : ∀ x, x ∈ res ↔ Enc states entries 0 [] x := by
  intro x; rw [dump_spec states entries fuel _ _ _ h x]; simp

/-! ## termination on trees -/

/-- the goto edges form a tree (every state is the target of at most one edge, none leads to state 0 or outside the
table) and every branch state carries a valid entry index -/
structure TreeTable (states : List KState) (entries : List τ) : Prop where
  nonempty : 0 < states.length
  inj : ∀ (i i' : Nat) (st st' : KState) (g g' : Char × Nat), states[i]? = some st → states[i']? = some st' → g ∈ st.gotos → g' ∈ st'.gotos →
    g.2 = g'.2 → i = i'
  nodup : ∀ (i : Nat) (st : KState), states[i]? = some st → (st.gotos.map (·.2)).Nodup
  range : ∀ (i : Nat) (st : KState), states[i]? = some st → ∀ g ∈ st.gotos, g.2 < states.length ∧ g.2 ≠ 0
  branch : ∀ (i : Nat) (st : KState), states[i]? = some st → st.isBranch = true → ∃ o os e, st.outputs = o :: os ∧ entries[o]? = some e

theorem dump_terminates_aux {states : List KState} {entries : List τ} (T : TreeTable states entries) :
    ∀ (fuel : Nat) (S : List Nat) (stack : List (Nat × List Char)) (acc : List (List Char × τ)),
    S.Nodup → (∀ i ∈ S, i < states.length) →
    (stack.map (·.1)).Nodup → (∀ p ∈ stack, p.1 ∈ S) →
    (∀ i ∈ S, ∀ st, states[i]? = some st → ∀ g ∈ st.gotos, g.2 ∈ S ∧ g.2 ∉ stack.map (·.1)) →
    S.length ≤ fuel → ∃ res, dumpItems states entries fuel stack acc = .ok res := by
  intro fuel
  induction fuel with
  | zero =>
    intro S stack acc _ _ _ hsub _ hlen
    cases stack with
    | nil => exact ⟨acc, by simp [dumpItems]⟩
    | cons p r =>
      have := hsub p (by simp)
      have : S = [] := List.eq_nil_of_length_eq_zero (by omega)
      subst this; simp at *
  | succ fuel ih =>
    intro S stack acc hS hrange hstk hsub hch hlen
    cases stack with
    | nil => exact ⟨acc, by simp [dumpItems]⟩
    | cons p rest =>
      obtain ⟨idx, word⟩ := p
      have hidxS : idx ∈ S := hsub (idx, word) (by simp)
      have hlt := hrange idx hidxS
      have hst : states[idx]? = some states[idx] := List.getElem?_eq_getElem hlt
      generalize states[idx] = st at hst
      simp only [List.map_cons, List.nodup_cons] at hstk
      obtain ⟨hidx_rest, hrest_nd⟩ := hstk
      -- the next configuration
      have key : ∀ acc', ∃ res, dumpItems states entries fuel
          (st.gotos.map (fun g => (g.2, word ++ [g.1])) ++ rest) acc' = .ok res := by
        intro acc'
        apply ih (S.erase idx)
        · exact hS.erase idx
        · intro i hi; exact hrange i (List.mem_of_mem_erase hi)
        · -- the new stack has distinct indices
          simp only [List.map_append, List.map_map]
          have hmap : (st.gotos.map ((fun p : Nat × List Char => p.1) ∘ fun g => (g.2, word ++ [g.1])))
              = st.gotos.map (·.2) := by
            apply List.map_congr_left; intro g _; rfl
          rw [hmap]
          refine List.nodup_append.2 ⟨T.nodup idx st hst, hrest_nd, ?_⟩
          intro a ha b hb hab
          subst hab
          obtain ⟨g, hg, rfl⟩ := List.mem_map.1 ha
          have := (hch idx hidxS st hst g hg).2
          apply this
          simp only [List.map_cons, List.mem_cons]
          exact Or.inr hb
        · intro p hp
          rcases List.mem_append.1 hp with hp | hp
          · obtain ⟨g, hg, rfl⟩ := List.mem_map.1 hp
            have h1 := hch idx hidxS st hst g hg
            refine (hS.mem_erase_iff).2 ⟨?_, h1.1⟩
            intro heq
            apply h1.2
            simp only [List.map_cons, List.mem_cons]
            exact Or.inl heq
          · refine (hS.mem_erase_iff).2 ⟨?_, hsub p (by simp [hp])⟩
            intro heq
            apply hidx_rest
            exact List.mem_map.2 ⟨p, hp, heq⟩
        · intro i hi st' hst' g hg
          have hi' := (hS.mem_erase_iff).1 hi
          have h1 := hch i hi'.2 st' hst' g hg
          simp only [List.map_cons, List.mem_cons, not_or] at h1
          refine ⟨(hS.mem_erase_iff).2 ⟨h1.2.1, h1.1⟩, ?_⟩
          simp only [List.map_append, List.map_map, List.mem_append, not_or]
          refine ⟨?_, h1.2.2⟩
          intro hmem
          obtain ⟨g', hg', heq⟩ := List.mem_map.1 hmem
          exact hi'.1 (T.inj i idx st' st g g' hst' hst hg hg' heq.symm)
        · have := List.length_erase_of_mem hidxS
          omega
      simp only [dumpItems, hst]
      by_cases hb : st.isBranch = true
      · obtain ⟨o, os, e, ho, he⟩ := T.branch idx st hst hb
        simp only [hb, if_true, ho, he]
        exact key _
      · have hb' : st.isBranch = false := by simpa using hb
        simp only [hb', Bool.false_eq_true, if_false]
        exact key _

/-- on a tree the walk pops every state at most once -/
theorem dump_terminates {states : List KState} {entries : List τ} (T : TreeTable states entries) (fuel : Nat)
    (hf : states.length ≤ fuel) : ∃ res, dumpItems states entries fuel [(0, [])] [] = .ok res := by
  apply dump_terminates_aux T fuel (List.range states.length)
  · exact List.nodup_range
  · intro i hi; exact List.mem_range.1 hi
  · simp
  · intro p hp
    simp only [List.mem_singleton] at hp; subst hp
    exact List.mem_range.2 T.nonempty
  · intro i _ st hst g hg
    have := T.range i st hst g hg
    exact ⟨List.mem_range.2 this.1, by simpa using this.2⟩
  · simp [hf]

end V.C17L
