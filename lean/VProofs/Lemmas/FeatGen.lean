import VProofs.Lemmas.FeatNgram
import VProofs.Lemmas.FeatDict
/-!
# Lemmas for C10 — `genFeatures` by constructor, `examplesOf`
-/
namespace V.C10L

theorem count_char_genFeatures (cfg : TrainCfg) (text : List Char) (i : Nat) (g : List Char) (rel : Int) :
    (genFeatures cfg text i).count (Feature.charNgram g rel) =
      (ngramFeats cfg.charW cfg.charN text i).count (g, rel) := by
  unfold genFeatures
  have h2 : ((ngramFeats cfg.typeW cfg.typeN (typesOf text) i).map
      (fun p => Feature.typeNgram p.1 p.2)).count (Feature.charNgram g rel) = 0 := by
    rw [List.count_eq_zero]; simp
  have h3 : (dictFeats cfg text i).count (Feature.charNgram g rel) = 0 := by
    rw [List.count_eq_zero]
    intro h
    obtain ⟨_, _, h⟩ := mem_dictFeats h
    cases h
  simp only [List.count_append, h2, h3, Nat.add_zero]
  exact count_map_inj (fun p : List Char × Int => Feature.charNgram p.1 p.2)
    (fun a b h => by cases a; cases b; simp_all) (g, rel) _

theorem count_type_genFeatures (cfg : TrainCfg) (text : List Char) (i : Nat) (g : List Nat) (rel : Int) :
    (genFeatures cfg text i).count (Feature.typeNgram g rel) =
      (ngramFeats cfg.typeW cfg.typeN (typesOf text) i).count (g, rel) := by
  unfold genFeatures
  have h1 : ((ngramFeats cfg.charW cfg.charN text i).map
      (fun p => Feature.charNgram p.1 p.2)).count (Feature.typeNgram g rel) = 0 := by
    rw [List.count_eq_zero]; simp
  have h3 : (dictFeats cfg text i).count (Feature.typeNgram g rel) = 0 := by
    rw [List.count_eq_zero]
    intro h
    obtain ⟨_, _, h⟩ := mem_dictFeats h
    cases h
  simp only [List.count_append, h1, h3, Nat.add_zero, Nat.zero_add]
  exact count_map_inj (fun p : List Nat × Int => Feature.typeNgram p.1 p.2)
    (fun a b h => by cases a; cases b; simp_all) (g, rel) _

theorem count_dict_genFeatures (cfg : TrainCfg) (text : List Char) (i len : Nat) (pos : DPos) :
    (genFeatures cfg text i).count (Feature.dictWord len pos) =
      (dictFeats cfg text i).count (Feature.dictWord len pos) := by
  unfold genFeatures
  have h1 : ((ngramFeats cfg.charW cfg.charN text i).map
      (fun p => Feature.charNgram p.1 p.2)).count (Feature.dictWord len pos) = 0 := by
    rw [List.count_eq_zero]; simp
  have h2 : ((ngramFeats cfg.typeW cfg.typeN (typesOf text) i).map
      (fun p => Feature.typeNgram p.1 p.2)).count (Feature.dictWord len pos) = 0 := by
    rw [List.count_eq_zero]; simp
  simp only [List.count_append, h1, h2, Nat.zero_add]

theorem mem_iff_of_count_eq {β γ : Type} [BEq β] [LawfulBEq β] [BEq γ] [LawfulBEq γ] {a : β} {l : List β} {b : γ} {m : List γ}
    (h : l.count a = m.count b) : a ∈ l ↔ b ∈ m := by
  rw [← List.count_pos_iff, ← List.count_pos_iff, h]

theorem length_typesOf (text : List Char) : (typesOf text).length = text.length := by
  simp [typesOf]

/-! ## `examplesOf` -/

theorem examples_snd (cfg : TrainCfg) (text : List Char) (bs : List B) (k : Nat) :
    ((bs.zipIdx k).filterMap fun (b, i) =>
        if b = B.U then none else some (genFeatures cfg text i, b)).map Prod.snd =
      bs.filter (fun b => b ≠ B.U) := by
  induction bs generalizing k with
  | nil => rfl
  | cons b bs ih =>
    rw [List.zipIdx_cons, List.filterMap_cons, List.filter_cons]
    by_cases h : b = B.U
    · simp only [h, if_true, ne_eq, not_true_eq_false, decide_false]
      exact ih (k + 1)
    · simp only [h, if_false, ne_eq, not_false_eq_true, decide_true, List.map_cons]
      rw [ih (k + 1)]
      rfl

theorem examples_mem (cfg : TrainCfg) (s : Sentence) (e : List Feature × B) (he : e ∈ examplesOf cfg s) :
    ∃ i, i < s.bounds.length ∧ s.bounds[i]? = some e.2 ∧ e.2 ≠ B.U ∧ e.1 = genFeatures cfg s.text i := by
  unfold examplesOf at he
  rw [List.mem_filterMap] at he
  obtain ⟨⟨b, i⟩, hm, hf⟩ := he
  rw [List.mem_zipIdx_iff_getElem?] at hm
  simp only at hm hf
  by_cases hb : b = B.U
  · simp [hb] at hf
  · simp only [hb, if_false, Option.some.injEq] at hf
    subst hf
    have hi : i < s.bounds.length := by
      rcases List.getElem?_eq_some_iff.1 hm with ⟨h, _⟩
      exact h
    exact ⟨i, hi, hm, hb, rfl⟩

theorem examples_nil (cfg : TrainCfg) (s : Sentence) (h : ∀ b ∈ s.bounds, b = B.U) : examplesOf cfg s = [] := by
  unfold examplesOf
  rw [List.filterMap_eq_nil_iff]
  rintro ⟨b, i⟩ hm
  rw [List.mem_zipIdx_iff_getElem?] at hm
  have hb : b = B.U := h b (List.mem_of_getElem? hm)
  simp [hb]

end V.C10L
