import VModel.Spec
import VProofs.Lemmas.ScoreBoundScorer
/-!
# The score buffer stays within the mass after any number of matches (for the C01 overflow bound)

One pass of a pattern-matching scorer, stopped after any prefix of the list of automaton matches, and the cached type
scorer stopped after any number of boundaries.
-/
namespace V

/-- the state vector a pass starts from (`pma_states.clear(); resize(len, INVALID)` in the state-recording scorers) -/
def pmaStates0 {α : Type} (sc : PmaScorer α) (seq : List α) (states : List (Option Nat)) : List (Option Nat) :=
  if sc.tagWeight.isSome then List.replicate seq.length none else states

/-- a pass is the loop `go` over all automaton matches -/
theorem pmaAddScores_eq_go {α : Type} [DecidableEq α] (sc : PmaScorer α) (seq : List α) (buf : List Int)
    (states : List (Option Nat)) :
    pmaAddScores sc seq buf states
      = pmaAddScores.go sc (matchesNoSuffix sc.pats seq) buf (pmaStates0 sc seq states) := rfl

/-- the values `TypeScorerBoundaryCache::add_scores` adds to the visible slots, in order -/
def cacheAdds (ngrams : List (NgramData Nat)) (window : Nat) (types : List Nat) (nBounds : Nat) : List Int :=
  cacheAddScores.go ngrams window (C01L.cinc window types) (List.range nBounds) (C01L.seqAt window types window) []

namespace C01B
open C01L Merge
variable {α : Type} [DecidableEq α] {W : Type}

/-! ## what one match adds, in terms of the entries -/

/-- the first half of `scorer_correct`: the stored weights, the side conditions of `go_spec` for every match, and what a
match at end position `k + 1` contributes to slot `j` -/
theorem scorer_setup (cfg : Cfg) (add : W → W → W) (d : W) (g : W → Option PW) (hg : AddOK add g)
    (es : List (List α × W)) (hes : ∀ e ∈ es, Pg g e.1 e.2) (sc : PmaScorer α)
    (hsc : BuiltFrom cfg add d g es sc) (seq : List α) :
    ∃ optw : List (Option PW), sc.weights = optw.map (Option.map (PW.toPWV cfg)) ∧
      (∀ m ∈ matchesNoSuffix sc.pats seq, 1 ≤ m.1 ∧ m.1 ≤ seq.length ∧ ∃ ow, optw[m.2]? = some ow ∧
        ∀ pw, ow = some pw → pw.offset ≤ -1 ∧ (pw.weight.length ≤ 8 → 0 ≤ (m.1 : Int) + 6 + pw.offset)) ∧
      ∀ (j k : Nat), k < seq.length → ∀ id, longestMatch sc.pats (seq.take (k + 1)) = some id →
        contrib optw j (k + 1, id)
          = ((es.filter fun e => e.1.isSuffixOf (seq.take (k + 1))).map fun e =>
              evg g ((j : Int) - ((k : Int) + 7)) e.2).sum := by
  obtain ⟨hpats, hweights, hok⟩ := hsc
  have hPsame : ∀ (k : List α) (a b : W), Pg g k a → Pg g k b → Pg g k (add a b) :=
    fun k a b ha hb => Pg_add add g hg k k a b (Nat.le_refl _) ha hb
  obtain ⟨hnd, hkeys, hP', _⟩ := addAll_correct add d (evg g 0) (Pg g) hPsame
    (fun _ a b _ _ => evg_add add g hg 0 a b) es hes
  have hsum : ∀ x : Int, ∀ k ∈ es.map Prod.fst,
      evg g x (Merge.lookupD d (addAll add es []) k)
        = ((es.filter (fun e => e.1 = k)).map (fun e => evg g x e.2)).sum := fun x =>
    (addAll_correct add d (evg g x) (Pg g) hPsame (fun _ a b _ _ => evg_add add g hg x a b) es hes).2.2.2
  have hMk := Merge.mergeEntries_keys add d (addAll add es [])
  have hpk : sc.pats = (addAll add es []).map Prod.fst := by rw [hpats, hMk]
  obtain ⟨hne, hpnd⟩ := pmaBuildOk_spec sc.pats hok
  have hmerge : ∀ x : Int, ∀ k ∈ (addAll add es []).map Prod.fst,
      Pg g k (Merge.lookupD d (Merge.mergeEntries add d (addAll add es [])) k) ∧
      evg g x (Merge.lookupD d (Merge.mergeEntries add d (addAll add es [])) k)
        = (((addAll add es []).filter (fun e => e.1.isSuffixOf k)).map (fun e => evg g x e.2)).sum := fun x =>
    Merge.mergeEntries_correct add d (evg g x) (Pg g)
      (fun k q a b hs ha hb => Pg_add add g hg k q a b (List.isSuffixOf_iff_suffix.mp hs).length_le ha hb)
      (fun _ _ a b _ _ _ => evg_add add g hg x a b) (addAll add es []) hnd (by rw [← hpk]; exact hne) hP'
  generalize hM : Merge.mergeEntries add d (addAll add es []) = M at hpats hweights hMk hmerge
  have hw : sc.weights = (M.map fun e => g e.2).map (Option.map (PW.toPWV cfg)) := by
    rw [hweights, List.map_map]; rfl
  have hMnd : (M.map Prod.fst).Nodup := by rw [hMk]; exact hnd
  have hmatch : ∀ (pre : List α) (id : Nat), longestMatch sc.pats pre = some id →
      ∃ mw, M[id]? = some mw ∧ (M.map fun e => g e.2)[id]? = some (g mw.2) ∧ mw.1.isSuffixOf pre = true ∧
        Merge.lookupD d M mw.1 = mw.2 ∧ mw.1 ∈ (addAll add es []).map Prod.fst ∧
        ∀ q ∈ sc.pats, q.isSuffixOf pre = q.isSuffixOf mw.1 := by
    intro pre id hlm
    obtain ⟨p, hp, hps, hall⟩ := longestMatch_some sc.pats pre id hlm
    rw [hpats, List.getElem?_map] at hp
    cases hMi : M[id]? with
    | none => rw [hMi] at hp; cases hp
    | some mw =>
      rw [hMi] at hp
      simp only [Option.map_some, Option.some.injEq] at hp
      subst hp
      refine ⟨mw, rfl, ?_, hps, lookupD_getElem d M hMnd id mw.1 mw.2 hMi, ?_, hall⟩
      · rw [List.getElem?_map, hMi]; rfl
      · rw [← hMk]; exact List.mem_map.mpr ⟨mw, List.mem_of_getElem? hMi, rfl⟩
  refine ⟨M.map fun e => g e.2, hw, ?_, ?_⟩
  · intro m hm
    unfold matchesNoSuffix at hm
    obtain ⟨k, hk, hkm⟩ := List.mem_filterMap.mp hm
    have hkn : k < seq.length := List.mem_range.mp hk
    cases hlm : longestMatch sc.pats (seq.take (k + 1)) with
    | none => rw [hlm] at hkm; cases hkm
    | some id =>
      rw [hlm] at hkm
      simp only [Option.map_some, Option.some.injEq] at hkm
      subst hkm
      obtain ⟨mw, _, hoi, hsuf, hlk, hmem, _⟩ := hmatch _ id hlm
      refine ⟨by simp, by simp; omega, g mw.2, hoi, ?_⟩
      intro pw hpw
      have hP := (hmerge 0 mw.1 hmem).1
      rw [hlk] at hP
      obtain ⟨h1, h2⟩ := hP pw hpw
      have hle := suffix_take_length mw.1 seq (k + 1) hsuf
      refine ⟨h1, fun h8 => ?_⟩
      have := h2 h8
      simp only
      omega
  · intro j k hkn id hlm
    obtain ⟨mw, _, hoi, hsuf, hlk, hmem, hall⟩ := hmatch _ id hlm
    have hx : (j : Int) - (((k + 1 : Nat) : Int) + 6) = (j : Int) - ((k : Int) + 7) := by omega
    have hc : contrib (M.map fun e => g e.2) j (k + 1, id) = evg g ((j : Int) - ((k : Int) + 7)) mw.2 := by
      unfold contrib evg
      simp only [List.getD_eq_getElem?_getD, hoi, Option.getD_some, hx]
      cases g mw.2 <;> rfl
    rw [hc, ← hlk, (hmerge _ mw.1 hmem).2]
    rw [isum_filter_congr (addAll add es []) (fun e => e.1.isSuffixOf mw.1)
      (fun e => e.1.isSuffixOf (seq.take (k + 1))) _
      (fun e he => (hall e.1 (by rw [hpk]; exact List.mem_map.mpr ⟨e, he, rfl⟩)).symm)]
    exact addAll_regroup add d _ es hnd hkeys (hsum _) (fun q => q.isSuffixOf (seq.take (k + 1)))

/-- all matches together, in absolute value, add at most the mass of the entries to any slot -/
theorem contrib_abs_le (g : W → Option PW) (es : List (List α × W)) (pats : List (List α)) (optw : List (Option PW))
    (seq : List α) (j : Nat)
    (hc : ∀ (k : Nat), k < seq.length → ∀ id, longestMatch pats (seq.take (k + 1)) = some id →
      contrib optw j (k + 1, id)
        = ((es.filter fun e => e.1.isSuffixOf (seq.take (k + 1))).map fun e =>
            evg g ((j : Int) - ((k : Int) + 7)) e.2).sum) :
    (((matchesNoSuffix pats seq).map (contrib optw j)).map iabs).sum ≤ ((emass g es : Nat) : Int) := by
  unfold matchesNoSuffix
  rw [List.map_map, isum_filterMap]
  -- per end position: at most the absolute values of the entries that end there
  refine Int.le_trans (isum_map_le _ _ (fun (k : Nat) => (es.map fun e => if e.1.isSuffixOf (seq.take (k + 1)) then
            iabs (evg g ((j : Int) - 7 - (k : Int)) e.2) else 0).sum) ?_) ?_
  · intro k hk
    have hkn : k < seq.length := List.mem_range.mp hk
    have hnn : 0 ≤ (es.map fun e => if e.1.isSuffixOf (seq.take (k + 1)) then
        iabs (evg g ((j : Int) - 7 - (k : Int)) e.2) else 0).sum := by
      apply isum_map_nonneg
      intro e _
      have := iabs_nonneg (evg g ((j : Int) - 7 - (k : Int)) e.2)
      split <;> omega
    cases hlm : longestMatch pats (seq.take (k + 1)) with
    | none => simpa using hnn
    | some id =>
      simp only [Option.map_some, Function.comp_def]
      rw [hc k hkn id hlm]
      refine Int.le_trans (iabs_sum_map_le _ _) (Int.le_of_eq ?_)
      rw [isum_filter]
      apply isum_map_congr
      intro e _
      have : (j : Int) - ((k : Int) + 7) = (j : Int) - 7 - (k : Int) := by omega
      rw [this]
  rw [isum_comm]
  unfold emass
  rw [natsum_cast]
  apply isum_map_le
  intro e _
  exact entry_cond_le g e.2 ((j : Int) - 7) seq.length (fun k => e.1.isSuffixOf (seq.take (k + 1)))

theorem mem_getD (l : List Int) (x : Int) (h : x ∈ l) : ∃ j, j < l.length ∧ l.getD j 0 = x := by
  obtain ⟨j, hj, rfl⟩ := List.mem_iff_getElem.mp h
  exact ⟨j, hj, by rw [List.getD_eq_getElem?_getD, List.getElem?_eq_getElem hj]; rfl⟩

theorem getD_natAbs_le (l : List Int) (B : Nat) (h : ∀ x ∈ l, x.natAbs ≤ B) (j : Nat) : (l.getD j 0).natAbs ≤ B := by
  rw [List.getD_eq_getElem?_getD]
  cases hj : l[j]? with
  | none => simp
  | some v => exact h v (List.mem_of_getElem? hj)

/-- **one pass, any prefix of the matches**: the loop does not fail and every slot of the buffer (padding included) is
within `B + emass g es`, where `B` bounds the buffer the pass starts from -/
theorem pass_bounded (cfg : Cfg) (add : W → W → W) (d : W) (g : W → Option PW) (hg : AddOK add g)
    (es : List (List α × W)) (hes : ∀ e ∈ es, Pg g e.1 e.2) (sc : PmaScorer α)
    (hsc : BuiltFrom cfg add d g es sc) (seq : List α) (buf : List Int) (hbuf : buf.length = seq.length + 13)
    (states : List (Option Nat)) (B : Nat) (hB : ∀ x ∈ buf, x.natAbs ≤ B) (k : Nat) :
    ∃ r st, pmaAddScores.go sc ((matchesNoSuffix sc.pats seq).take k) buf (pmaStates0 sc seq states) = .ok (r, st) ∧
      r.length = buf.length ∧ ∀ x ∈ r, x.natAbs ≤ B + emass g es := by
  obtain ⟨optw, hw, hms, hc⟩ := scorer_setup cfg add d g hg es hes sc hsc seq
  obtain ⟨r, st, hgo, hlen, hval⟩ := go_spec cfg sc optw hw seq.length ((matchesNoSuffix sc.pats seq).take k)
    (fun m hm => hms m (List.mem_of_mem_take hm)) buf hbuf (pmaStates0 sc seq states)
    (fun h => by unfold pmaStates0; rw [if_pos h, List.length_replicate])
  refine ⟨r, st, hgo, hlen, fun x hx => ?_⟩
  obtain ⟨j, hj, rfl⟩ := mem_getD r x hx
  rw [hval j (by omega), List.map_take]
  have h1 := iabs_take_sum_le ((matchesNoSuffix sc.pats seq).map (contrib optw j)) k
  have h2 := contrib_abs_le g es sc.pats optw seq j (fun k hk id hid => hc j k hk id hid)
  have h3 := getD_natAbs_le buf B hB j
  have h4 := iabs_add_le (buf.getD j 0) (((matchesNoSuffix sc.pats seq).map (contrib optw j)).take k).sum
  apply (iabs_le_iff _ _).mp
  have h5 : iabs (buf.getD j 0) ≤ ((B : Nat) : Int) := (iabs_le_iff _ _).mpr h3
  omega

/-! ## the side conditions (`Pg`) of the entry lists, from the shapes of a well-formed model -/

theorem Pg_charEntries (Wn : Nat) (ng : List (NgramData Char)) (dict : List DictWord)
    (hcs : ∀ d ∈ ng, 1 ≤ Wn ∧ d.ngram.length ≤ 2 * Wn ∧ d.weights.length = 2 * Wn - d.ngram.length + 1)
    (hds : ∀ d ∈ dict, 1 ≤ d.word.length) :
    ∀ e ∈ charEntriesOf Wn ng dict, Pg (some : PW → Option PW) e.1 e.2 := by
  intro e he pw hpw
  simp only [Option.some.injEq] at hpw
  subst hpw
  rcases List.mem_append.mp he with he | he
  · obtain ⟨d, hd, rfl⟩ := List.mem_map.mp he
    obtain ⟨a1, a2, a3⟩ := hcs d hd
    exact Pinv_ngram Wn d.ngram d.weights a1 a2 a3
  · obtain ⟨d, hd, rfl⟩ := List.mem_map.mp he
    exact Pinv_word d.word d.weights (hds d hd)

theorem Pg_charEntriesT (Wn : Nat) (ng : List (NgramData Char)) (dict : List DictWord)
    (T : List (List (TagNgramData Char)))
    (hcs : ∀ d ∈ ng, 1 ≤ Wn ∧ d.ngram.length ≤ 2 * Wn ∧ d.weights.length = 2 * Wn - d.ngram.length + 1)
    (hds : ∀ d ∈ dict, 1 ≤ d.word.length) :
    ∀ e ∈ charEntriesTOf Wn ng dict T, Pg PWT.weight e.1 e.2 := by
  intro e he pw hpw
  rcases List.mem_append.mp he with he | he
  · rcases List.mem_append.mp he with he | he
    · obtain ⟨d, hd, rfl⟩ := List.mem_map.mp he
      obtain ⟨a1, a2, a3⟩ := hcs d hd
      simp only [Option.some.injEq] at hpw
      subst hpw
      exact Pinv_ngram Wn d.ngram d.weights a1 a2 a3
    · obtain ⟨d, hd, rfl⟩ := List.mem_map.mp he
      simp only [Option.some.injEq] at hpw
      subst hpw
      exact Pinv_word d.word d.weights (hds d hd)
  · rw [tagEntries_weight _ e he] at hpw; cases hpw

theorem Pg_typeEntries (Wn : Nat) (ng : List (NgramData Nat))
    (hts : ∀ d ∈ ng, 1 ≤ Wn ∧ d.ngram.length ≤ 2 * Wn ∧ d.weights.length = 2 * Wn - d.ngram.length + 1) :
    ∀ e ∈ typeEntriesOf Wn ng, Pg (some : PW → Option PW) e.1 e.2 := by
  intro e he pw hpw
  simp only [Option.some.injEq] at hpw
  subst hpw
  obtain ⟨d, hd, rfl⟩ := List.mem_map.mp he
  obtain ⟨a1, a2, a3⟩ := hts d hd
  exact Pinv_ngram Wn d.ngram d.weights a1 a2 a3

theorem Pg_typeEntriesT (Wn : Nat) (ng : List (NgramData Nat)) (T : List (List (TagNgramData Nat)))
    (hts : ∀ d ∈ ng, 1 ≤ Wn ∧ d.ngram.length ≤ 2 * Wn ∧ d.weights.length = 2 * Wn - d.ngram.length + 1) :
    ∀ e ∈ typeEntriesTOf Wn ng T, Pg PWT.weight e.1 e.2 := by
  intro e he pw hpw
  rcases List.mem_append.mp he with he | he
  · obtain ⟨d, hd, rfl⟩ := List.mem_map.mp he
    obtain ⟨a1, a2, a3⟩ := hts d hd
    simp only [Option.some.injEq] at hpw
    subst hpw
    exact Pinv_ngram Wn d.ngram d.weights a1 a2 a3
  · rw [tagEntries_weight _ e he] at hpw; cases hpw

/-! ## the cached type scorer -/

theorem cacheGo_mem (ngrams : List (NgramData Nat)) (window : Nat) (inc : Nat → Nat → Nat) (l : List Nat) (s : Nat)
    (acc : List Int) :
    ∀ a ∈ cacheAddScores.go ngrams window inc l s acc, a ∈ acc ∨ ∃ seqid, a = cacheEntry ngrams window seqid := by
  induction l generalizing s acc with
  | nil => intro a ha; exact Or.inl ha
  | cons i r ih =>
    intro a ha
    rw [cacheAddScores.go.eq_2] at ha
    rcases ih _ _ a ha with h | h
    · rcases List.mem_append.mp h with h | h
      · exact Or.inl h
      · simp only [List.mem_singleton] at h
        exact Or.inr ⟨_, h⟩
    · exact Or.inr h

theorem cacheAdds_mem (ngrams : List (NgramData Nat)) (window : Nat) (types : List Nat) (nB : Nat) :
    ∀ a ∈ cacheAdds ngrams window types nB, ∃ seqid, a = cacheEntry ngrams window seqid := by
  intro a ha
  rcases cacheGo_mem ngrams window _ _ _ [] a ha with h | h
  · cases h
  · exact h

theorem cacheAddScores_eq_adds (ngrams : List (NgramData Nat)) (window : Nat) (types : List Nat) (nB : Nat)
    (buf : List Int) (h : padding + nB ≤ buf.length) :
    cacheAddScores ngrams window types nB buf = .ok (addAt buf padding (cacheAdds ngrams window types nB)) := by
  rw [cacheAddScores_eq, if_pos h]
  rfl

/-- adding (a prefix of) a list of bounded values at some position of a bounded buffer -/
theorem addAt_bounded (buf : List Int) (start : Nat) (adds : List Int) (hs : start ≤ buf.length) (B T : Nat)
    (hB : ∀ x ∈ buf, x.natAbs ≤ B) (hT : ∀ a ∈ adds, a.natAbs ≤ T) (k : Nat) :
    ∀ x ∈ addAt buf start (adds.take k), x.natAbs ≤ B + T := by
  intro x hx
  obtain ⟨j, hj, rfl⟩ := mem_getD _ x hx
  rw [addAt_length _ _ _ hs] at hj
  rw [addAt_getD _ _ _ hs j hj]
  have h1 := getD_natAbs_le buf B hB j
  have h2 : (getZ (adds.take k) ((j : Int) - start)).natAbs ≤ T := by
    rcases getZ_mem_or_zero (adds.take k) ((j : Int) - start) with h | h
    · rw [h]; simp
    · exact hT _ (List.mem_of_mem_take h)
  omega

end C01B
end V
