import VModel.Spec
import VProofs.Lemmas.TagScorer
import VProofs.Lemmas.ScorePredict
/-!
# The automaton states recorded by `predict` (tag-aware scorers) (for C06)
-/
namespace V.C06L
open V.C01L
variable {α : Type} [DecidableEq α]

omit [DecidableEq α] in
theorem go_states (sc : PmaScorer α) (htw : sc.tagWeight.isSome = true) (ms : List (Nat × Nat)) :
    ∀ (buf : List Int) (st : List (Option Nat)) (r : List Int) (st' : List (Option Nat)),
      pmaAddScores.go sc ms buf st = .ok (r, st') →
      st' = ms.foldl (fun st (m : Nat × Nat) => st.set (m.1 - 1) (some m.2)) st := by
  induction ms with
  | nil =>
    intro buf st r st' h
    rw [pmaAddScores.go.eq_1] at h
    simp only [Res.ok.injEq, Prod.mk.injEq] at h
    exact h.2.symm
  | cons m ms ih =>
    obtain ⟨e, id⟩ := m
    intro buf st r st' h
    rw [pmaAddScores.go.eq_2] at h
    split at h
    · cases h
    · simp only at h
      split at h
      · rw [if_pos htw] at h
        split at h
        · exact ih _ _ _ _ h
        · cases h
      · cases h
      · cases h
      · cases h

theorem fold_states (lm : Nat → Option Nat) (N : Nat) :
    ∀ n', n' ≤ N →
      (((List.range n').filterMap fun k => (lm k).map fun id => (k + 1, id)).foldl
        (fun st (m : Nat × Nat) => st.set (m.1 - 1) (some m.2)) (List.replicate N none))
      = (List.range N).map (fun k => if k < n' then lm k else none) := by
  intro n'
  induction n' with
  | zero =>
    intro _
    apply List.ext_getElem?
    intro j
    simp only [List.range_zero, List.filterMap_nil, List.foldl_nil, List.getElem?_replicate, List.getElem?_map,
      Nat.not_lt_zero, if_false]
    by_cases hj : j < N
    · rw [if_pos hj, List.getElem?_range hj]; rfl
    · rw [if_neg hj, List.getElem?_eq_none (by simpa using hj)]; rfl
  | succ n' ih =>
    intro hn
    rw [List.range_succ, List.filterMap_append, List.foldl_append, ih (by omega)]
    apply List.ext_getElem?
    intro j
    cases hl : lm n' with
    | none =>
      simp only [List.filterMap_cons, hl, Option.map_none, List.filterMap_nil, List.foldl_nil, List.getElem?_map]
      by_cases hj : j < N
      · rw [List.getElem?_range hj]
        simp only [Option.map_some, Option.some.injEq]
        by_cases h1 : j < n'
        · rw [if_pos h1, if_pos (by omega)]
        · rw [if_neg h1]
          by_cases h2 : j = n'
          · subst h2; rw [if_pos (by omega), hl]
          · rw [if_neg (by omega)]
      · rw [List.getElem?_eq_none (by simpa using hj)]; rfl
    | some id =>
      simp only [List.filterMap_cons, hl, Option.map_some, List.filterMap_nil, List.foldl_cons, List.foldl_nil,
        Nat.add_sub_cancel, List.getElem?_set, List.getElem?_map, List.length_map, List.length_range]
      by_cases hj : j < N
      · rw [List.getElem?_range hj]
        simp only [Option.map_some]
        by_cases h2 : n' = j
        · subst h2
          rw [if_pos rfl, if_pos (by omega), if_pos (by omega), hl]
        · rw [if_neg h2]
          by_cases h1 : j < n'
          · rw [if_pos h1, if_pos (by omega)]
          · rw [if_neg h1, if_neg (by omega)]
      · rw [List.getElem?_eq_none (by simpa using hj)]
        by_cases h2 : n' = j
        · rw [if_pos h2, if_neg (by omega)]; rfl
        · rw [if_neg h2]; rfl

theorem pmaAddScores_states (sc : PmaScorer α) (htw : sc.tagWeight.isSome = true) (seq : List α) (buf : List Int)
    (states : List (Option Nat)) (r : List Int) (st : List (Option Nat))
    (h : pmaAddScores sc seq buf states = .ok (r, st)) : st = statesOf sc.pats seq := by
  unfold pmaAddScores at h
  simp only at h
  rw [if_pos htw] at h
  rw [go_states sc htw _ _ _ _ _ h]
  unfold matchesNoSuffix
  rw [fold_states (fun k => longestMatch sc.pats (seq.take (k + 1))) seq.length seq.length (Nat.le_refl _)]
  unfold statesOf
  apply List.map_congr_left
  intro k hk
  rw [if_pos (List.mem_range.mp hk)]

/-- what `predict` leaves in the sentence besides the scores -/
theorem predict_states (p : Predictor) (pid : Nat) (s s1 : Sentence) (h : p.predict pid s = .ok s1) :
    s1.text = s.text ∧ s1.types = s.types ∧
    (∀ sc, p.charScorer = some sc → sc.tagWeight.isSome = true → s1.cstates = statesOf sc.pats s.text) ∧
    (∀ sc, p.typeScorer = some (.pma sc) → sc.tagWeight.isSome = true → s1.tstates = statesOf sc.pats s.types) := by
  rw [predict_eq] at h
  cases hc : charPhase p.charScorer s.text s.cstates (List.replicate (padding * 2 + s.types.length - 1) p.bias) with
  | ok x =>
    obtain ⟨buf1, cst⟩ := x
    rw [hc] at h
    simp only [predictK] at h
    cases ht : typePhase p.typeScorer s.types s.bounds.length s.tstates buf1 with
    | ok y =>
      obtain ⟨buf2, tst⟩ := y
      rw [ht] at h
      simp only [finishR, Res.ok.injEq] at h
      subst h
      refine ⟨rfl, rfl, ?_, ?_⟩
      · intro sc hsc htw
        rw [hsc] at hc
        exact pmaAddScores_states sc htw _ _ _ _ _ hc
      · intro sc hsc htw
        rw [hsc] at ht
        exact pmaAddScores_states sc htw _ _ _ _ _ ht
    | err e => rw [ht] at h; cases h
    | panic e => rw [ht] at h; cases h
    | ub e => rw [ht] at h; cases h
  | err e => rw [hc] at h; cases h
  | panic e => rw [hc] at h; cases h
  | ub e => rw [hc] at h; cases h

end V.C06L
