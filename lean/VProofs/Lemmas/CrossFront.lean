import VModel.Cli
import VProofs.C15
import VProofs.Lemmas.TkNorm
import VProofs.Lemmas.CliLine
import VProofs.Lemmas.CliSafe
/-!
# CrossFront — the `predict` tool and the Tantivy token stream run the same core pipeline on a line without line breaks

The generated full-width table is seen only through one whole-table boolean check (no image is CR or LF).
-/
namespace V.C20X
open V V.Gen

/-- no image of the table contains CR or LF -/
theorem tbl_nolb : fullwidthTable.all (fun e => e.2.all (fun v => decide (v ≠ 0xA) && decide (v ≠ 0xD))) = true := by
  decide +kernel

theorem isLinebreak_ofNat {x : Nat} (hv : Nat.isValidChar x) (ha : x ≠ 0xA) (hd : x ≠ 0xD) :
    isLinebreak (Char.ofNat x) = false := by
  unfold isLinebreak
  rw [Bool.or_eq_false_iff, decide_eq_false_iff_not, decide_eq_false_iff_not]
  refine ⟨fun he => hd ?_, fun he => ha ?_⟩
  · have := congrArg Char.toNat he
    rw [C16L.toNat_ofNat hv] at this
    exact this
  · have := congrArg Char.toNat he
    rw [C16L.toNat_ofNat hv] at this
    exact this

/-- the per-character normaliser never makes a line break out of another character -/
theorem g_nolb (c : Char) (hc : isLinebreak c = false) : isLinebreak (C16L.g c) = false := by
  cases h : lookupFw c.toNat fullwidthTable with
  | none =>
    have : C16L.g c = c := by unfold C16L.g; rw [h]
    rw [this]; exact hc
  | some v =>
    obtain ⟨x, rfl, hv, _, _⟩ := C16L.lookup_shape h
    have : C16L.g c = Char.ofNat x := by unfold C16L.g; rw [h]
    rw [this]
    have h1 := List.all_eq_true.mp tbl_nolb _ (C16L.lookupFw_mem h)
    have h2 := List.all_eq_true.mp h1 x List.mem_cons_self
    simp only [Bool.and_eq_true, decide_eq_true_eq] at h2
    exact isLinebreak_ofNat hv h2.1 h2.2

theorem fullwidth_nolb (s : List Char) (h : ∀ c ∈ s, isLinebreak c = false) :
    ∀ c ∈ fullwidth s, isLinebreak c = false := by
  rw [C16L.fullwidth_eq_map]
  intro c hm
  obtain ⟨d, hd, he⟩ := List.mem_map.mp hm
  rw [← he]
  exact g_nolb d (h d hd)

/-- the line-break filter leaves a consistent sentence without line-break characters as it is -/
theorem linebreaks_id (s : Sentence) (h : Inv s) (hnl : ∀ c ∈ s.text, isLinebreak c = false) :
    filterLinebreaks s = .ok s := by
  obtain ⟨bs, e, hl, hp⟩ := C15_linebreaks s h
  have hany : ∀ i : Nat, (s.text[i]?.any isLinebreak) = false := by
    intro i
    cases hi : s.text[i]? with
    | none => rfl
    | some c => exact hnl c (List.mem_of_getElem? hi)
  have hbs : bs = s.bounds := by
    apply List.ext_getElem?
    intro i
    by_cases hi : i < s.bounds.length
    · rw [hp i hi, hany i, hany (i + 1)]
      simp only [Bool.or_self, Bool.false_eq_true, if_false]
      rw [List.getD_eq_getElem?_getD, List.getElem?_eq_getElem hi]
      rfl
    · rw [List.getElem?_eq_none (by omega), List.getElem?_eq_none (by omega)]
  rw [e, hbs]

/-- the two front ends segment alike on a line without line-break characters -/
theorem agrees (cfg : Cfg) (m : WModel) (hm : WFModel m) (pt : Bool)
    (p : Predictor) (hp : Predictor.new cfg m pt = .ok p) (filters : List PostFilter) (line : List Char)
    (hnl : ∀ c ∈ line, isLinebreak c = false) :
    pipeline p filters line =
      bindR (Sentence.fromRaw (fullwidth line)) fun s0 => bindR (p.predict 0 s0) fun s1 => applyWsconst filters s1 := by
  unfold pipeline
  rcases C20L.raw_cases (fullwidth line) with ⟨h1, _⟩ | ⟨⟨hne, _⟩, h1, _⟩
  · rw [h1]; rfl
  · rw [h1]
    obtain ⟨s1, e1, hP⟩ := C20L.predict_stage cfg m hm pt p hp (fullwidth line) hne
    have hid : filterLinebreaks s1 = .ok s1 :=
      linebreaks_id s1 hP.inv (by rw [hP.text]; exact fullwidth_nolb line hnl)
    simp only [e1, hid, C20L.bindR_ok, applyWsconst]

end V.C20X
