import VProofs.Lemmas.ScorePredict
/-!
# A prediction overwrites what an earlier prediction left (C01)

`predict` reads of the incoming sentence only the text, the types, the *length* of the label vector and — for the scorers
that do not record automaton states — the two state vectors, which it then hands through unchanged.  Everything else it
writes from scratch.
-/
namespace V

/-- the character scorer records automaton states (`CharScorerBoundaryTag`): it clears and rewrites `char_pma_states`;
the plain scorer and a missing scorer leave the vector as it was -/
def Predictor.writesCharStates (p : Predictor) : Bool :=
  match p.charScorer with
  | some sc => sc.tagWeight.isSome
  | none => false

/-- the type scorer records automaton states (`TypeScorerBoundaryTag`) or clears them (the cached scorer's `[]` of the
model); the plain automaton scorer and a missing scorer leave the vector as it was -/
def Predictor.writesTypeStates (p : Predictor) : Bool :=
  match p.typeScorer with
  | some (.pma sc) => sc.tagWeight.isSome
  | some (.cache _ _) => true
  | none => false

namespace C01O
open C01L

variable {α : Type} [DecidableEq α]

/-- the state-recording scorer ignores the incoming states -/
theorem pma_tag_states (sc : PmaScorer α) (h : sc.tagWeight.isSome = true) (seq : List α) (buf : List Int)
    (st st' : List (Option Nat)) : pmaAddScores sc seq buf st = pmaAddScores sc seq buf st' := by
  unfold pmaAddScores
  simp only [h, if_true]

omit [DecidableEq α] in
/-- the plain scorer hands the states through -/
theorem pma_go_plain (sc : PmaScorer α) (h : sc.tagWeight.isSome = false) (ms : List (Nat × Nat)) (buf : List Int)
    (st : List (Option Nat)) :
    pmaAddScores.go sc ms buf st = (pmaAddScores.go sc ms buf []).map (fun r => (r.1, st)) := by
  induction ms generalizing buf with
  | nil => simp [pmaAddScores.go, Res.map]
  | cons e ms ih =>
    obtain ⟨e, id⟩ := e
    unfold pmaAddScores.go
    cases hw : sc.weights[id]? with
    | none => simp [Res.map]
    | some w =>
      simp only [h, Bool.false_eq_true, if_false]
      cases w with
      | none => exact ih buf
      | some pw =>
        simp only []
        generalize pw.addScore ((e : Int) + (padding : Int) - 1) buf = bufR
        cases bufR with
        | ok buf' => exact ih buf'
        | err x => simp [Res.map]
        | panic x => simp [Res.map]
        | ub x => simp [Res.map]

theorem pma_plain_states (sc : PmaScorer α) (h : sc.tagWeight.isSome = false) (seq : List α) (buf : List Int)
    (st : List (Option Nat)) :
    pmaAddScores sc seq buf st = (pmaAddScores sc seq buf []).map (fun r => (r.1, st)) := by
  unfold pmaAddScores
  simp only [h, Bool.false_eq_true, if_false]
  exact pma_go_plain sc h _ buf st

theorem pma_plain_ok (sc : PmaScorer α) (h : sc.tagWeight.isSome = false) (seq : List α) (buf : List Int)
    (st : List (Option Nat)) (b : List Int) (c : List (Option Nat)) (hok : pmaAddScores sc seq buf st = .ok (b, c)) :
    c = st ∧ ∀ st', pmaAddScores sc seq buf st' = .ok (b, st') := by
  rw [pma_plain_states sc h] at hok
  obtain ⟨a, ha, hbc⟩ := res_map_ok _ _ _ hok
  simp only [Prod.mk.injEq] at hbc
  refine ⟨hbc.2, fun st' => ?_⟩
  rw [pma_plain_states sc h, ha, hbc.1]
  rfl

/-! ## the two phases -/

/-- the character phase on other incoming states: same buffer; the outgoing states are the same when the scorer writes
them, and are the respective incoming ones otherwise -/
theorem charPhase_states (p : Predictor) (text : List Char) (buf : List Int) (st st' : List (Option Nat))
    (b : List Int) (c : List (Option Nat)) (hok : charPhase p.charScorer text st buf = .ok (b, c)) :
    ∃ c', charPhase p.charScorer text st' buf = .ok (b, c') ∧
      (p.writesCharStates = true → c' = c) ∧ (p.writesCharStates = false → c = st ∧ c' = st') := by
  unfold Predictor.writesCharStates
  cases hcs : p.charScorer with
  | none =>
    rw [hcs] at hok
    simp only [charPhase, Res.ok.injEq, Prod.mk.injEq] at hok
    exact ⟨st', by simp [charPhase, hok.1], by simp, fun _ => ⟨hok.2.symm, rfl⟩⟩
  | some sc =>
    rw [hcs] at hok
    simp only [charPhase] at hok ⊢
    cases ht : sc.tagWeight.isSome with
    | true =>
      refine ⟨c, ?_, fun _ => rfl, by simp⟩
      rw [pma_tag_states sc ht text buf st' st]; exact hok
    | false =>
      obtain ⟨h1, h2⟩ := pma_plain_ok sc ht text buf st b c hok
      exact ⟨st', h2 st', by simp, fun _ => ⟨h1, rfl⟩⟩

theorem typePhase_states (p : Predictor) (types : List Nat) (nB : Nat) (buf : List Int) (st st' : List (Option Nat))
    (b : List Int) (c : List (Option Nat)) (hok : typePhase p.typeScorer types nB st buf = .ok (b, c)) :
    ∃ c', typePhase p.typeScorer types nB st' buf = .ok (b, c') ∧
      (p.writesTypeStates = true → c' = c) ∧ (p.writesTypeStates = false → c = st ∧ c' = st') := by
  unfold Predictor.writesTypeStates
  cases hts : p.typeScorer with
  | none =>
    rw [hts] at hok
    simp only [typePhase, Res.ok.injEq, Prod.mk.injEq] at hok
    exact ⟨st', by simp [typePhase, hok.1], by simp, fun _ => ⟨hok.2.symm, rfl⟩⟩
  | some ts =>
    rw [hts] at hok
    cases ts with
    | cache ng w =>
      simp only [typePhase] at hok ⊢
      exact ⟨c, hok, fun _ => rfl, by simp⟩
    | pma sc =>
      simp only [typePhase] at hok ⊢
      cases ht : sc.tagWeight.isSome with
      | true =>
        refine ⟨c, ?_, fun _ => rfl, by simp⟩
        rw [pma_tag_states sc ht types buf st' st]; exact hok
      | false =>
        obtain ⟨h1, h2⟩ := pma_plain_ok sc ht types buf st b c hok
        exact ⟨st', h2 st', by simp, fun _ => ⟨h1, rfl⟩⟩

/-! ## the shape of a successful prediction -/

theorem predict_shape (p : Predictor) (pid : Nat) (s r : Sentence) (h : p.predict pid s = .ok r) :
    ∃ buf1 buf2 cst tst,
      charPhase p.charScorer s.text s.cstates (List.replicate (padding * 2 + s.types.length - 1) p.bias) = .ok (buf1, cst) ∧
      typePhase p.typeScorer s.types s.bounds.length s.tstates buf1 = .ok (buf2, tst) ∧
      r = finish s pid buf2 cst tst := by
  rw [predict_eq] at h
  cases h1 : charPhase p.charScorer s.text s.cstates (List.replicate (padding * 2 + s.types.length - 1) p.bias) with
  | ok a =>
    obtain ⟨buf1, cst⟩ := a
    rw [h1] at h
    simp only [predictK] at h
    cases h2 : typePhase p.typeScorer s.types s.bounds.length s.tstates buf1 with
    | ok a2 =>
      obtain ⟨buf2, tst⟩ := a2
      rw [h2] at h
      simp only [finishR, Res.ok.injEq] at h
      exact ⟨buf1, buf2, cst, tst, rfl, h2, h.symm⟩
    | err x => rw [h2] at h; simp [finishR] at h
    | panic x => rw [h2] at h; simp [finishR] at h
    | ub x => rw [h2] at h; simp [finishR] at h
  | err x => rw [h1] at h; simp [predictK] at h
  | panic x => rw [h1] at h; simp [predictK] at h
  | ub x => rw [h1] at h; simp [predictK] at h

/-- what a prediction keeps of the state vectors -/
theorem predict_keeps_states (q : Predictor) (qid : Nat) (s s1 : Sentence) (h : q.predict qid s = .ok s1) :
    (q.writesCharStates = false → s1.cstates = s.cstates) ∧ (q.writesTypeStates = false → s1.tstates = s.tstates) := by
  obtain ⟨buf1, buf2, cst, tst, h1, h2, rfl⟩ := predict_shape q qid s s1 h
  obtain ⟨_, _, _, hc⟩ := charPhase_states q _ _ _ s.cstates _ _ h1
  obtain ⟨_, _, _, ht⟩ := typePhase_states q _ _ _ _ s.tstates _ _ h2
  exact ⟨fun hw => (hc hw).1, fun hw => (ht hw).1⟩

/-- **core**: `p` on a sentence `s1` that agrees with `s` in text, types and number of labels -/
theorem predict_other_states (p : Predictor) (pid : Nat) (s s1 r : Sentence)
    (htext : s1.text = s.text) (htypes : s1.types = s.types) (hbl : s1.bounds.length = s.bounds.length)
    (hr : p.predict pid s = .ok r) :
    ∃ buf2 cst tst cst1 tst1, r = finish s pid buf2 cst tst ∧ p.predict pid s1 = .ok (finish s1 pid buf2 cst1 tst1) ∧
      (p.writesCharStates = true → cst1 = cst) ∧ (p.writesCharStates = false → cst = s.cstates ∧ cst1 = s1.cstates) ∧
      (p.writesTypeStates = true → tst1 = tst) ∧ (p.writesTypeStates = false → tst = s.tstates ∧ tst1 = s1.tstates) := by
  obtain ⟨buf1, buf2, cst, tst, h1, h2, hr'⟩ := predict_shape p pid s r hr
  obtain ⟨cst1, hc1, hc2, hc3⟩ := charPhase_states p _ _ _ s1.cstates _ _ h1
  obtain ⟨tst1, ht1, ht2, ht3⟩ := typePhase_states p _ _ _ _ s1.tstates _ _ h2
  refine ⟨buf2, cst, tst, cst1, tst1, hr', ?_, hc2, hc3, ht2, ht3⟩
  rw [predict_eq, htext, htypes, hc1]
  show finishR s1 pid cst1 (typePhase p.typeScorer s1.types s1.bounds.length s1.tstates buf1) = _
  rw [htypes, hbl, ht1]
  rfl

/-! ## the label vector keeps its length -/

theorem finish_bounds_length (s : Sentence) (pid : Nat) (buf : List Int) (cst tst : List (Option Nat)) :
    (finish s pid buf cst tst).bounds.length = s.bounds.length := by
  simp only [finish, List.length_append, List.length_map, List.length_zip, List.length_drop]
  omega

theorem finish_eq_of (s s1 : Sentence) (pid : Nat) (buf : List Int) (c t c1 t1 : List (Option Nat))
    (e1 : s1.text = s.text) (e2 : s1.types = s.types) (e3 : s1.tags = s.tags) (e4 : s1.tagScores = s.tagScores)
    (e5 : s1.nTags = s.nTags) (hb : (finish s1 pid buf c1 t1).bounds = (finish s pid buf c t).bounds) :
    finish s1 pid buf c1 t1 = { finish s pid buf c t with cstates := c1, tstates := t1 } := by
  cases s; cases s1
  simp only at e1 e2 e3 e4 e5
  subst e1 e2 e3 e4 e5
  simp only [finish, Sentence.mk.injEq, true_and, and_true] at hb ⊢
  exact hb

/-- **all fields**: with the well-formedness conditions of `predict_correct` spelled out.  `q` is any predictor. -/
theorem predict_overwrites_fields (cfg : Cfg) (m : WModel)
    (hcW : 1 ≤ m.charW)
    (hcs : ∀ d ∈ m.charNgrams, 1 ≤ d.ngram.length ∧ d.ngram.length ≤ 2 * m.charW ∧
      d.weights.length = 2 * m.charW - d.ngram.length + 1)
    (htW : 1 ≤ m.typeW)
    (hts : ∀ d ∈ m.typeNgrams, 1 ≤ d.ngram.length ∧ d.ngram.length ≤ 2 * m.typeW ∧
      d.weights.length = 2 * m.typeW - d.ngram.length + 1 ∧ ∀ t ∈ d.ngram, 1 ≤ t ∧ t ≤ 6)
    (hds : ∀ d ∈ m.dict, 1 ≤ d.word.length)
    (pt : Bool) (p : Predictor) (hp : Predictor.new cfg m pt = .ok p) (q : Predictor)
    (s s1 : Sentence) (hne : s.text ≠ []) (htypes : s.types = typesOf s.text)
    (hbl : s.bounds.length + 1 = s.text.length) (pid qid : Nat) (h1 : q.predict qid s = .ok s1) :
    ∃ r r1, p.predict pid s = .ok r ∧ p.predict pid s1 = .ok r1 ∧
      r1 = { r with cstates := r1.cstates, tstates := r1.tstates } ∧
      (p.writesCharStates = true → r1.cstates = r.cstates) ∧
      (p.writesCharStates = false → r.cstates = s.cstates ∧ r1.cstates = s1.cstates) ∧
      (p.writesTypeStates = true → r1.tstates = r.tstates) ∧
      (p.writesTypeStates = false → r.tstates = s.tstates ∧ r1.tstates = s1.tstates) := by
  obtain ⟨_, _, c0, t0, _, _, hs1⟩ := predict_shape q qid s s1 h1
  have e1 : s1.text = s.text := by rw [hs1]; rfl
  have e2 : s1.types = s.types := by rw [hs1]; rfl
  have e3 : s1.bounds.length = s.bounds.length := by rw [hs1]; exact finish_bounds_length _ _ _ _ _
  obtain ⟨r, hr, _, hrb, _⟩ := predict_correct cfg m hcW hcs htW hts hds pt p hp s hne htypes hbl pid
  obtain ⟨r1, hr1, _, hrb1, _⟩ := predict_correct cfg m hcW hcs htW hts hds pt p hp s1 (by rw [e1]; exact hne)
    (by rw [e1, e2]; exact htypes) (by rw [e1, e3]; exact hbl) pid
  obtain ⟨buf2, cst, tst, cst1, tst1, hrf, hr1f, hc1, hc2, ht1, ht2⟩ :=
    predict_other_states p pid s s1 r e1 e2 e3 hr
  rw [hr1, Res.ok.injEq] at hr1f
  have hb : r1.bounds = r.bounds := by rw [hrb, hrb1, e1]
  refine ⟨r, r1, hr, hr1, ?_, ?_, ?_, ?_, ?_⟩
  · rw [hrf, hr1f] at hb ⊢
    exact finish_eq_of s s1 pid buf2 cst tst cst1 tst1 e1 e2 (by rw [hs1]; rfl) (by rw [hs1]; rfl) (by rw [hs1]; rfl) hb
  · rw [hrf, hr1f]; exact hc1
  · rw [hrf, hr1f]; exact hc2
  · rw [hrf, hr1f]; exact ht1
  · rw [hrf, hr1f]; exact ht2

/-- **record equality** when `p` rewrites every state vector that `q` rewrote -/
theorem predict_overwrites_eq (cfg : Cfg) (m : WModel)
    (hcW : 1 ≤ m.charW)
    (hcs : ∀ d ∈ m.charNgrams, 1 ≤ d.ngram.length ∧ d.ngram.length ≤ 2 * m.charW ∧
      d.weights.length = 2 * m.charW - d.ngram.length + 1)
    (htW : 1 ≤ m.typeW)
    (hts : ∀ d ∈ m.typeNgrams, 1 ≤ d.ngram.length ∧ d.ngram.length ≤ 2 * m.typeW ∧
      d.weights.length = 2 * m.typeW - d.ngram.length + 1 ∧ ∀ t ∈ d.ngram, 1 ≤ t ∧ t ≤ 6)
    (hds : ∀ d ∈ m.dict, 1 ≤ d.word.length)
    (pt : Bool) (p : Predictor) (hp : Predictor.new cfg m pt = .ok p) (q : Predictor)
    (hwc : q.writesCharStates = true → p.writesCharStates = true)
    (hwt : q.writesTypeStates = true → p.writesTypeStates = true)
    (s s1 : Sentence) (hne : s.text ≠ []) (htypes : s.types = typesOf s.text)
    (hbl : s.bounds.length + 1 = s.text.length) (pid qid : Nat) (h1 : q.predict qid s = .ok s1) :
    p.predict pid s1 = p.predict pid s := by
  obtain ⟨r, r1, hr, hr1, heq, hc1, hc2, ht1, ht2⟩ :=
    predict_overwrites_fields cfg m hcW hcs htW hts hds pt p hp q s s1 hne htypes hbl pid qid h1
  obtain ⟨kc, kt⟩ := predict_keeps_states q qid s s1 h1
  have ec : r1.cstates = r.cstates := by
    cases hw : p.writesCharStates with
    | true => exact hc1 hw
    | false =>
      have hq : q.writesCharStates = false := by
        cases hq : q.writesCharStates with
        | false => rfl
        | true => rw [hwc hq] at hw; cases hw
      rw [(hc2 hw).1, (hc2 hw).2, kc hq]
  have et : r1.tstates = r.tstates := by
    cases hw : p.writesTypeStates with
    | true => exact ht1 hw
    | false =>
      have hq : q.writesTypeStates = false := by
        cases hq : q.writesTypeStates with
        | false => rfl
        | true => rw [hwt hq] at hw; cases hw
      rw [(ht2 hw).1, (ht2 hw).2, kt hq]
  rw [hr, hr1, heq, ec, et]

/-! ## which predictors write the state vectors, in terms of how they were built -/

theorem buildBoundary_plain {α : Type} [DecidableEq α] (cfg : Cfg) (entries : List (List α × PW)) (sc : PmaScorer α)
    (h : buildBoundary cfg entries = .ok sc) : sc.tagWeight.isSome = false := by
  unfold buildBoundary at h
  simp only at h
  split at h
  · simp only [Res.ok.injEq] at h
    subst h; rfl
  · cases h

theorem charScorerNew_writes (cfg : Cfg) (m : WModel) (tn : List (List (TagNgramData Char)))
    (cs : Option (PmaScorer Char))
    (hw : (match cs with | some sc => sc.tagWeight.isSome | none => false) = true)
    (h : charScorerNew cfg m tn = .ok cs) :
    cfg.tagPred = true ∧ tn ≠ [] := by
  unfold charScorerNew at h
  simp only at h
  generalize (if m.charW = 0 then ({ m with charNgrams := [] } : WModel) else m) = m' at h
  split at h
  · simp only [Res.ok.injEq] at h
    subst h; cases hw
  · split at h
    · cases h
    · split at h
      · rename_i hc
        simp only [Bool.and_eq_true, Bool.not_eq_eq_eq_not, Bool.not_true, List.isEmpty_eq_false_iff] at hc
        exact hc
      · obtain ⟨sc, hsc, rfl⟩ := res_map_ok _ _ _ h
        simp only at hw
        rw [buildBoundary_plain cfg _ sc hsc] at hw
        cases hw

theorem typeScorerNew_writes (cfg : Cfg) (m : WModel) (tn : List (List (TagNgramData Nat)))
    (ts : Option TypeScorer)
    (hw : (match ts with | some (.pma sc) => sc.tagWeight.isSome | some (.cache _ _) => true | none => false) = true)
    (h : typeScorerNew cfg m tn = .ok ts) :
    (cfg.tagPred = true ∧ tn ≠ []) ∨ (cfg.cache = true ∧ m.typeW ≤ 3) := by
  unfold typeScorerNew at h
  simp only at h
  have hm' : (if m.typeW = 0 then ({ m with typeNgrams := [] } : WModel) else m).typeW = m.typeW := by
    split <;> rfl
  generalize (if m.typeW = 0 then ({ m with typeNgrams := [] } : WModel) else m) = m' at h hm'
  split at h
  · simp only [Res.ok.injEq] at h
    subst h; cases hw
  · split at h
    · rename_i hc
      simp only [Bool.and_eq_true, Bool.not_eq_eq_eq_not, Bool.not_true, List.isEmpty_eq_false_iff] at hc
      exact Or.inl hc
    · split at h
      · rename_i hc
        simp only [Bool.and_eq_true, decide_eq_true_eq] at hc
        exact Or.inr ⟨hc.1, hm' ▸ hc.2⟩
      · obtain ⟨sc, hsc, rfl⟩ := res_map_ok _ _ _ h
        simp only at hw
        rw [buildBoundary_plain cfg _ sc hsc] at hw
        cases hw
theorem tagList_ne {β : Type} (pt : Bool) (cfg : Cfg) (m : WModel) (f : TagModel → β)
    (h : (if (pt && cfg.tagPred) = true then m.tagModels.map f else []) ≠ []) :
    pt = true ∧ m.tagModels ≠ [] := by
  split at h
  · rename_i hu
    simp only [Bool.and_eq_true] at hu
    refine ⟨hu.1, fun he => h ?_⟩
    rw [he]; rfl
  · exact absurd rfl h

/-- which predictors write the state vectors, in terms of how they were built -/
theorem new_writes (cfg : Cfg) (m : WModel) (pt : Bool) (p : Predictor) (hp : Predictor.new cfg m pt = .ok p) :
    (p.writesCharStates = true → pt = true ∧ cfg.tagPred = true ∧ m.tagModels ≠ []) ∧
    (p.writesTypeStates = true → (pt = true ∧ cfg.tagPred = true ∧ m.tagModels ≠ []) ∨ (cfg.cache = true ∧ m.typeW ≤ 3)) := by
  unfold Predictor.new at hp
  split at hp
  · cases hp
  · simp only at hp
    split at hp
    · rename_i cs hcs
      split at hp
      · rename_i ts hts
        simp only [Res.ok.injEq] at hp
        subst hp
        refine ⟨fun hw => ?_, fun hw => ?_⟩
        · obtain ⟨a, b⟩ := charScorerNew_writes cfg m _ cs hw hcs
          obtain ⟨c, d⟩ := tagList_ne pt cfg m _ b
          exact ⟨c, a, d⟩
        · rcases typeScorerNew_writes cfg m _ ts hw hts with ⟨a, b⟩ | h2
          · obtain ⟨c, d⟩ := tagList_ne pt cfg m _ b
            exact Or.inl ⟨c, a, d⟩
          · exact Or.inr h2
      · cases hp
      · cases hp
      · cases hp
    · cases hp
    · cases hp
    · cases hp

end C01O
end V
