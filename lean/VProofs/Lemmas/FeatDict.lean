import VModel.Trainer
/-!
# Lemmas for C10 — the dictionary part of `genFeatures`
-/
namespace V.C10L

/-- the predicate of `C10_dict_spec` on one match -/
def dictSel (cfg : TrainCfg) (text : List Char) (i len : Nat) (pos : DPos) (se : Nat × Nat) : Bool :=
  decide (min (se.2 - se.1) cfg.dictMaxLen = len) &&
    (match pos with
     | .left => decide (se.1 ≠ 0 ∧ i = se.1 - 1)
     | .inside => decide (se.1 ≤ i ∧ i + 1 < se.2)
     | .right => decide (se.2 ≠ text.length ∧ i = se.2 - 1))

/-- the features pushed for one match -/
def dictOne (cfg : TrainCfg) (text : List Char) (i : Nat) (se : Nat × Nat) : List Feature :=
  (if se.1 ≠ 0 ∧ i = se.1 - 1 then [Feature.dictWord (min (se.2 - se.1) cfg.dictMaxLen) .left] else [])
  ++ (if se.1 ≤ i ∧ i + 1 < se.2 then [Feature.dictWord (min (se.2 - se.1) cfg.dictMaxLen) .inside] else [])
  ++ (if se.2 ≠ text.length ∧ i = se.2 - 1 then [Feature.dictWord (min (se.2 - se.1) cfg.dictMaxLen) .right] else [])

theorem dictFeats_eq (cfg : TrainCfg) (text : List Char) (i : Nat) :
    dictFeats cfg text i = (dictMatches cfg.dictWords text).flatMap (dictOne cfg text i) := rfl

theorem count_three (P1 P2 P3 : Prop) [Decidable P1] [Decidable P2] [Decidable P3] (L len : Nat) (pos : DPos) :
    ((if P1 then [Feature.dictWord L .left] else [])
      ++ (if P2 then [Feature.dictWord L .inside] else [])
      ++ (if P3 then [Feature.dictWord L .right] else [])).count (Feature.dictWord len pos) =
      if (decide (L = len) &&
          (match pos with
           | .left => decide P1
           | .inside => decide P2
           | .right => decide P3)) = true then 1 else 0 := by
  cases pos <;> by_cases h1 : P1 <;> by_cases h2 : P2 <;> by_cases h3 : P3 <;> by_cases h4 : L = len <;>
    simp [h1, h2, h3, h4]

theorem count_dictOne (cfg : TrainCfg) (text : List Char) (i len : Nat) (pos : DPos) (se : Nat × Nat) :
    (dictOne cfg text i se).count (Feature.dictWord len pos) =
      if dictSel cfg text i len pos se then 1 else 0 := by
  unfold dictOne dictSel
  exact count_three _ _ _ _ _ _

theorem count_flatMap_ind {β γ : Type} [DecidableEq γ] (f : β → List γ) (p : β → Bool) (x : γ)
    (h : ∀ b, (f b).count x = if p b then 1 else 0) (l : List β) :
    (l.flatMap f).count x = (l.filter p).length := by
  induction l with
  | nil => rfl
  | cons a l ih =>
    rw [List.flatMap_cons, List.count_append, ih, h a, List.filter_cons]
    cases p a <;> simp <;> omega

theorem count_dictFeats (cfg : TrainCfg) (text : List Char) (i len : Nat) (pos : DPos) :
    (dictFeats cfg text i).count (Feature.dictWord len pos) =
      ((dictMatches cfg.dictWords text).filter (dictSel cfg text i len pos)).length := by
  rw [dictFeats_eq]
  exact count_flatMap_ind _ _ _ (count_dictOne cfg text i len pos) _

theorem mem_dictFeats {cfg : TrainCfg} {text : List Char} {i : Nat} {f : Feature}
    (h : f ∈ dictFeats cfg text i) : ∃ len pos, f = Feature.dictWord len pos := by
  rw [dictFeats_eq, List.mem_flatMap] at h
  obtain ⟨se, _, h⟩ := h
  unfold dictOne at h
  simp only [List.mem_append] at h
  rcases h with (h | h) | h <;> split at h <;> simp at h <;> exact ⟨_, _, h⟩

/-! ## `dictMatches` -/

/-- the matches ending at `k + 1` -/
def matchesAt (words : List (List Char)) (text : List Char) (k : Nat) : List (Nat × Nat) :=
  words.filterMap fun w => if w.isSuffixOf (text.take (k + 1)) then some (k + 1 - w.length, k + 1) else none

theorem dictMatches_eq (words : List (List Char)) (text : List Char) :
    dictMatches words text = (List.range text.length).flatMap (matchesAt words text) := rfl

theorem count_matchesAt (words : List (List Char)) (text : List Char) (k st en : Nat) :
    (matchesAt words text k).count (st, en) =
      if k + 1 = en then
        words.countP (fun w => w.isSuffixOf (text.take en) && decide (en - w.length = st))
      else 0 := by
  unfold matchesAt
  rw [List.count_filterMap]
  split
  · rename_i h
    subst h
    apply List.countP_congr
    intro w _
    by_cases hs : w.isSuffixOf (text.take (k + 1)) = true <;> simp [hs]
  · rename_i h
    rw [List.countP_eq_zero]
    intro w _
    by_cases hs : w.isSuffixOf (text.take (k + 1)) = true <;> simp [hs, h]

theorem sum_indicator (c en n : Nat) :
    ((List.range n).map (fun k => if k + 1 = en then c else 0)).sum =
      if 1 ≤ en ∧ en ≤ n then c else 0 := by
  induction n with
  | zero =>
    have : ¬ (1 ≤ en ∧ en ≤ 0) := by omega
    simp only [List.range_zero, List.map_nil, List.sum_nil, if_neg this]
  | succ n ih =>
    rw [List.range_succ, List.map_append, List.sum_append, ih]
    simp only [List.map_cons, List.map_nil, List.sum_cons, List.sum_nil, Nat.add_zero]
    by_cases h1 : n + 1 = en
    · have a : ¬ (1 ≤ en ∧ en ≤ n) := by omega
      have b : 1 ≤ en ∧ en ≤ n + 1 := by omega
      simp only [if_pos h1, if_neg a, if_pos b, Nat.zero_add]
    · by_cases h2 : 1 ≤ en ∧ en ≤ n
      · have b : 1 ≤ en ∧ en ≤ n + 1 := by omega
        simp only [if_neg h1, if_pos h2, if_pos b, Nat.add_zero]
      · have b : ¬ (1 ≤ en ∧ en ≤ n + 1) := by omega
        simp only [if_neg h1, if_neg h2, if_neg b, Nat.add_zero]

theorem count_dictMatches_aux (words : List (List Char)) (text : List Char) (st en : Nat) :
    (dictMatches words text).count (st, en) =
      if 1 ≤ en ∧ en ≤ text.length then
        words.countP (fun w => w.isSuffixOf (text.take en) && decide (en - w.length = st))
      else 0 := by
  rw [dictMatches_eq, List.count_flatMap, ← sum_indicator]
  congr 1
  apply List.map_congr_left
  intro k _
  exact count_matchesAt words text k st en

/-- a word ends at `en` and starts at `st < en` iff it is the slice `text[st, en)` -/
theorem suffix_slice_iff (text w : List Char) (st en : Nat) (h1 : st < en) (h2 : en ≤ text.length) :
    (w.isSuffixOf (text.take en) = true ∧ en - w.length = st) ↔ w = (text.drop st).take (en - st) := by
  rw [List.isSuffixOf_iff_suffix]
  constructor
  · rintro ⟨hs, hl⟩
    have hle := hs.length_le
    rw [List.suffix_iff_eq_drop] at hs
    rw [List.length_take_of_le h2, hl, List.drop_take] at hs
    exact hs
  · intro hw
    have hw' : w = (text.take en).drop st := by rw [List.drop_take]; exact hw
    have hlen : w.length = en - st := by
      rw [hw]; simp only [List.length_take, List.length_drop]; omega
    refine ⟨?_, by omega⟩
    rw [hw']
    exact List.drop_suffix _ _

theorem count_dictMatches (words : List (List Char)) (text : List Char) (st en : Nat) :
    (dictMatches words text).count (st, en) =
      if st < en ∧ en ≤ text.length then words.count ((text.drop st).take (en - st)) else
      if st = en ∧ 1 ≤ en ∧ en ≤ text.length then words.count [] else 0 := by
  rw [count_dictMatches_aux]
  by_cases hA : st < en ∧ en ≤ text.length
  · have hB : 1 ≤ en ∧ en ≤ text.length := by omega
    rw [if_pos hA, if_pos hB, List.count_eq_countP]
    apply List.countP_congr
    intro w _
    have := suffix_slice_iff text w st en hA.1 hA.2
    simp only [Bool.and_eq_true, decide_eq_true_eq, beq_iff_eq]
    exact this
  · rw [if_neg hA]
    by_cases hC : st = en ∧ 1 ≤ en ∧ en ≤ text.length
    · have hB : 1 ≤ en ∧ en ≤ text.length := by omega
      rw [if_pos hC, if_pos hB, List.count_eq_countP]
      apply List.countP_congr
      intro w _
      simp only [Bool.and_eq_true, decide_eq_true_eq, beq_iff_eq, List.isSuffixOf_iff_suffix]
      constructor
      · rintro ⟨_, hl⟩
        have : w.length = 0 := by omega
        exact List.length_eq_zero_iff.1 this
      · rintro rfl
        exact ⟨List.nil_suffix, by simp; omega⟩
    · rw [if_neg hC]
      split
      · rename_i hB
        rw [List.countP_eq_zero]
        intro w _
        simp only [Bool.and_eq_true, decide_eq_true_eq, not_and]
        intro _
        omega
      · rfl

end V.C10L
