import VModel.Spec
import VProofs.Lemmas.TagFill
import VProofs.Lemmas.TagMerge
import VProofs.Lemmas.TagRel
/-!
# A tag-aware scorer: structure of the built table, and `add_tag_scores` against `tagNgramScore` (for C06)
-/
namespace V.C06L
open V.C01L
variable {α : Type} [DecidableEq α]

/-! ## weight-vector shapes -/

/-- length of the score vector / of every weight vector of a tag model with `k` classes -/
def vlen (cfg : Cfg) (k : Nat) : Nat := if (cfg.fixed && decide (k ≤ fixedLen)) = true then fixedLen else k

theorem ofList_len (cfg : Cfg) (w : List Int) : (WV.ofList cfg w).len = vlen cfg w.length := by
  unfold WV.ofList vlen
  split <;> rfl

theorem le_vlen (cfg : Cfg) (k : Nat) : k ≤ vlen cfg k := by
  unfold vlen
  split
  · rename_i h
    simp only [Bool.and_eq_true, decide_eq_true_eq] at h
    exact h.2
  · exact Nat.le_refl _

theorem ofList_addScores (cfg : Cfg) (K : Nat) (v sc0 : List Int) (hv : v.length = K) (hs : sc0.length = vlen cfg K) :
    ∃ sc', (WV.ofList cfg v).addScores sc0 = .ok sc' ∧ sc'.length = sc0.length ∧
      ∀ c : Nat, getZ sc' (c : Int) = getZ sc0 (c : Int) + getZ v (c : Int) := by
  unfold vlen at hs
  unfold WV.ofList
  rw [hv]
  by_cases hc : (cfg.fixed && decide (K ≤ fixedLen)) = true
  · rw [if_pos hc] at hs ⊢
    simp only [WV.addScores]
    rw [if_pos (by omega)]
    refine ⟨_, rfl, zipAdd_length _ _, fun c => ?_⟩
    simp only [Bool.and_eq_true, decide_eq_true_eq] at hc
    rw [getZ_zipAdd _ _ (by simp only [List.length_append, List.length_replicate]; omega), getZ_append_replicate]
  · rw [if_neg hc] at hs ⊢
    simp only [WV.addScores]
    exact ⟨_, rfl, zipAdd_length _ _, fun c => getZ_zipAdd _ _ (by omega) c⟩

/-! ## the loop of `add_tag_scores` -/

theorem isum_range_succ (f : Nat → Int) (n : Nat) :
    ((List.range (n + 1)).map f).sum = f 0 + ((List.range n).map fun j => f (j + 1)).sum := by
  rw [List.range_succ_eq_map, List.map_cons, List.sum_cons, List.map_map]
  rfl

theorem tagGo_spec (cfg : Cfg) (K : Nat) (sts : List (Option Nat)) :
    ∀ (row : List (List (Nat × WV))) (sc0 : List Int) (F : Nat → Option (List Int)),
      sc0.length = vlen cfg K →
      (∀ j st m, sts[j]? = some st → row[j]? = some m →
        st.bind (fun id => (m.reverse.find? (fun e => decide (e.1 = id))).map Prod.snd) = (F j).map (WV.ofList cfg)) →
      (∀ j v, F j = some v → v.length = K) →
      (∀ j, sts.length ≤ j → F j = none) →
      ∃ sc', pmaAddTagScores.go sts row sc0 = .ok sc' ∧ sc'.length = sc0.length ∧
        ∀ c : Nat, getZ sc' (c : Int) = getZ sc0 (c : Int)
          + ((List.range row.length).map fun j => getZ ((F j).getD []) (c : Int)).sum := by
  induction sts with
  | nil =>
    intro row sc0 F _ _ _ h0
    refine ⟨sc0, by rw [pmaAddTagScores.go], rfl, fun c => ?_⟩
    rw [isum_map_eq_zero]
    · omega
    · intro j _
      rw [h0 j (Nat.zero_le _)]
      exact getZ_nil _
  | cons st sr ih =>
    intro row sc0 F hs hF hK h0
    cases row with
    | nil =>
      have hgo : pmaAddTagScores.go (st :: sr) [] sc0 = .ok sc0 := by
        rw [pmaAddTagScores.go]
        intro h; cases h
      refine ⟨sc0, hgo, rfl, fun c => ?_⟩
      simp
    | cons m mr =>
      have hF0 := hF 0 st m rfl rfl
      have ih' := fun sc1 (h1 : sc1.length = vlen cfg K) => ih mr sc1 (fun j => F (j + 1)) h1
        (fun j st' m' h1 h2 => hF (j + 1) st' m' (by simpa using h1) (by simpa using h2))
        (fun j v h => hK (j + 1) v h)
        (fun j hj => h0 (j + 1) (by simp only [List.length_cons]; omega))
      rw [pmaAddTagScores.go]
      simp only [List.length_cons]
      cases hF0v : F 0 with
      | none =>
        rw [hF0v] at hF0
        simp only [Option.map_none] at hF0
        simp only [hF0]
        obtain ⟨sc', e1, e2, e3⟩ := ih' sc0 hs
        refine ⟨sc', e1, e2, fun c => ?_⟩
        rw [e3 c, isum_range_succ, hF0v]
        simp only [Option.getD_none]
        rw [getZ_nil]; omega
      | some v =>
        rw [hF0v] at hF0
        simp only [Option.map_some] at hF0
        simp only [hF0]
        obtain ⟨sc1, a1, a2, a3⟩ := ofList_addScores cfg K v sc0 (hK 0 v hF0v) hs
        rw [a1]
        simp only
        obtain ⟨sc', e1, e2, e3⟩ := ih' sc1 (by omega)
        refine ⟨sc', e1, by omega, fun c => ?_⟩
        rw [e3 c, a3 c, isum_range_succ, hF0v]
        simp only [Option.getD_some]
        omega

/-! ## the structure of a tag-aware scorer -/

/-- what `…BoundaryTag::new` establishes about the tag table: every token has the same number `nRel` of rows, at least
`window + 1` and more than every relative position of the tag n-grams -/
def TagScorerOK (cfg : Cfg) (window : Nat) (T : List (List (TagNgramData α))) (L : Nat → Nat) (sc : PmaScorer α) : Prop :=
  ∃ (tw : TW) (vec : Nat → Nat → Nat → Option (List Int)) (nRel : Nat),
    sc.tagWeight = some tw ∧ tw.length = T.length ∧ (∀ t, t < T.length → rowLen tw t = nRel) ∧
    window + 1 ≤ nRel ∧
    (∀ (i : Nat) (tm : List (TagNgramData α)) (d : TagNgramData α) (w : TagWeight),
      T[i]? = some tm → d ∈ tm → w ∈ d.weights → w.rel < nRel) ∧
    (∀ t r id, ((cell tw t r).reverse.find? (fun e => decide (e.1 = id))).map Prod.snd
      = (vec t r id).map (WV.ofList cfg)) ∧
    (∀ t r id v, vec t r id = some v → v.length = L t) ∧
    (∀ t r id p (c : Nat), sc.pats[id]? = some p → getZ ((vec t r id).getD []) (c : Int) = tagSum (T.getD t []) r p c) ∧
    (∀ (i : Nat) (tm : List (TagNgramData α)) (d : TagNgramData α),
      T[i]? = some tm → d ∈ tm → d.weights ≠ [] → d.ngram ∈ sc.pats)

theorem buildBoundaryTag_tagOK (cfg : Cfg) (window : Nat) (L : Nat → Nat) (bes : List (List α × PWT))
    (T : List (List (TagNgramData α))) (hbes : ∀ e ∈ bes, e.2.tagInfo = [])
    (hT : ∀ i tm, T[i]? = some tm → ∀ d ∈ tm, ∀ w ∈ d.weights, w.weights.length = L i)
    (sc : PmaScorer α)
    (h : buildBoundaryTag cfg window T.length (addAll PWT.add (bes ++ tagEntries T) []) = .ok sc) :
    TagScorerOK cfg window T L sc := by
  have hrows := nRelOf_ge window (addAll PWT.add (bes ++ tagEntries T) [])
  have hrel := tagRel_lt_nRel window bes T
  unfold buildBoundaryTag at h
  simp only at h
  change (match fillTagWeights cfg _ 0 (List.replicate T.length
      (List.replicate (nRelOf window (addAll PWT.add (bes ++ tagEntries T) [])) ([] : List (Nat × WV)))) with
    | .ok tw => _ | .err x => _ | .panic p => _ | .ub p => _) = _ at h
  generalize nRelOf window (addAll PWT.add (bes ++ tagEntries T) []) = nRel at h hrows hrel
  split at h
  · rename_i tw hfill
    split at h
    · rename_i hok
      simp only [Res.ok.injEq] at h
      subst h
      obtain ⟨hM1, hM2⟩ := merged_tval L bes T hbes hT hok
      generalize hMdef : Merge.mergeEntries PWT.add PWT.empty (addAll PWT.add (bes ++ tagEntries T) []) = M
        at hfill hok hM1 hM2
      obtain ⟨f1, f2, f3⟩ := fill_spec cfg M 0 _ tw hfill
      have hnd : ∀ e ∈ M, (e.2.tagInfo.map Prod.fst).Nodup := by
        intro e he
        obtain ⟨id, hid⟩ := List.mem_iff_getElem?.mp he
        exact (hM1 id e hid).1.1
      refine ⟨tw, fun t r id => (M[id]?).bind (fun e => tlookup (t, r) e.2.tagInfo), nRel, rfl, ?_, ?_, hrows, hrel,
        ?_, ?_, ?_, ?_⟩
      · rw [f1, List.length_replicate]
      · intro t ht
        rw [f2, rowLen_replicate _ _ _ ht]
      · intro t r id
        rw [f3, cell_replicate, List.nil_append, chunks_find cfg t r M hnd 0 id, if_pos (Nat.zero_le _), Nat.sub_zero]
        dsimp only
        cases M[id]? <;> rfl
      · intro t r id v hv
        dsimp only at hv
        cases hid : M[id]? with
        | none => rw [hid] at hv; cases hv
        | some e =>
          rw [hid] at hv
          simp only [Option.bind_some] at hv
          exact (hM1 id e hid).1.2 ((t, r), v) (tlookup_some_mem _ _ _ hv)
      · intro t r id p c hp
        dsimp only
        simp only [List.getElem?_map] at hp
        cases hid : M[id]? with
        | none => rw [hid] at hp; cases hp
        | some e =>
          rw [hid] at hp
          simp only [Option.map_some, Option.some.injEq] at hp
          subst hp
          simp only [Option.bind_some]
          exact (hM1 id e hid).2 t r c
      · exact hM2
    · cases h
  · cases h
  · cases h
  · cases h

/-! ## from the recorded states to the specification -/

/-- the states `predict` records: for every end position the longest pattern that is a suffix of the prefix -/
def statesOf (pats : List (List α)) (seq : List α) : List (Option Nat) :=
  (List.range seq.length).map fun k => longestMatch pats (seq.take (k + 1))

theorem isum_range_select (N a : Nat) (f : Nat → Int) :
    ((List.range N).map fun r => if a = r then f r else 0).sum = if a < N then f a else 0 := by
  induction N with
  | zero => simp
  | succ N ih =>
    rw [List.range_succ, List.map_append, isum_append, ih]
    simp only [List.map_cons, List.map_nil, List.sum_cons, List.sum_nil]
    by_cases h1 : a < N
    · rw [if_pos h1, if_pos (show a < N + 1 by omega), if_neg (show ¬ a = N by omega)]; omega
    · rw [if_neg h1]
      by_cases h2 : a = N
      · subst h2; rw [if_pos rfl, if_pos (show a < a + 1 by omega)]; omega
      · rw [if_neg h2, if_neg (show ¬ a < N + 1 by omega)]; rfl

/-- summing `tagSum` over the rows `rel = 0..N-1` at the prefixes `seq.take (i + rel + 1)` gives `tagNgramScore` -/
theorem tagSum_total (tm : List (TagNgramData α)) (N : Nat) (seq : List α) (i c : Nat)
    (hrel : ∀ d ∈ tm, ∀ w ∈ d.weights, w.rel < N) :
    ((List.range N).map fun rel =>
      if i + rel < seq.length then tagSum tm rel (seq.take (i + rel + 1)) c else 0).sum
      = tagNgramScore tm seq i c := by
  unfold tagNgramScore
  have h1 : ∀ rel ∈ List.range N,
      (if i + rel < seq.length then tagSum tm rel (seq.take (i + rel + 1)) c else 0)
      = (tm.map fun d => (d.weights.map fun w =>
          if w.rel = rel then
            (if i + rel < seq.length ∧ d.ngram.isSuffixOf (seq.take (i + rel + 1)) = true
              then getZ w.weights (c : Int) else 0) else 0).sum).sum := by
    intro rel _
    unfold tagSum
    by_cases hlt : i + rel < seq.length
    · rw [if_pos hlt]
      apply isum_map_congr
      intro d _
      apply isum_map_congr
      intro w _
      by_cases h2 : w.rel = rel <;> simp [h2, hlt]
    · rw [if_neg hlt]
      symm
      apply isum_map_eq_zero
      intro d _
      apply isum_map_eq_zero
      intro w _
      simp [hlt]
  rw [isum_map_congr _ _ _ h1, isum_comm]
  apply isum_map_congr
  intro d hd
  rw [isum_comm]
  apply isum_map_congr
  intro w hw
  rw [isum_range_select N w.rel (fun rel =>
    if i + rel < seq.length ∧ d.ngram.isSuffixOf (seq.take (i + rel + 1)) = true then getZ w.weights (c : Int) else 0)]
  rw [if_pos (hrel d hd w hw)]

/-- `add_tag_scores` of a tag-aware scorer on the states recorded by `predict` -/
theorem pmaAddTagScores_spec (cfg : Cfg) (window : Nat) (T : List (List (TagNgramData α))) (L : Nat → Nat)
    (sc : PmaScorer α) (hsc : TagScorerOK cfg window T L sc)
    (tid : Nat) (tm : List (TagNgramData α)) (htid : T[tid]? = some tm)
    (seq : List α) (i : Nat) (hi : i ≤ seq.length) (sc0 : List Int) (hs : sc0.length = vlen cfg (L tid)) :
    ∃ sc', pmaAddTagScores sc tid i (statesOf sc.pats seq) sc0 = .ok sc' ∧ sc'.length = sc0.length ∧
      ∀ c : Nat, getZ sc' (c : Int) = getZ sc0 (c : Int) + tagNgramScore tm seq i c := by
  obtain ⟨tw, vec, nRel, h1, h2, h3, _, hrel, h4, h5, h6, h7⟩ := hsc
  have hlt : tid < T.length := by
    rcases Nat.lt_or_ge tid T.length with h | h
    · exact h
    · rw [List.getElem?_eq_none h] at htid; cases htid
  have hrow : ∃ row, tw[tid]? = some row := ⟨tw[tid]'(by omega), List.getElem?_eq_getElem (by omega)⟩
  obtain ⟨row, hrow⟩ := hrow
  have hrl : row.length = nRel := by
    have := h3 tid hlt
    unfold rowLen at this
    rw [hrow] at this
    exact this
  have hcell : ∀ r m, row[r]? = some m → cell tw tid r = m := by
    intro r m hm
    unfold cell
    rw [hrow]
    simp only [Option.getD_some, hm]
  have hsl : (statesOf sc.pats seq).length = seq.length := by simp [statesOf]
  unfold pmaAddTagScores
  rw [h1]
  simp only [hrow]
  rw [if_neg (by omega)]
  let F : Nat → Option (List Int) := fun j =>
    if i + j < seq.length then (longestMatch sc.pats (seq.take (i + j + 1))).bind (vec tid j) else none
  obtain ⟨sc', e1, e2, e3⟩ := tagGo_spec cfg (L tid) ((statesOf sc.pats seq).drop i) row sc0 F hs
    (by
      intro j st m hst hm
      rw [List.getElem?_drop] at hst
      have hj : i + j < seq.length := by
        rcases Nat.lt_or_ge (i + j) seq.length with h | h
        · exact h
        · rw [List.getElem?_eq_none (by omega)] at hst; cases hst
      have hst' : st = longestMatch sc.pats (seq.take (i + j + 1)) := by
        unfold statesOf at hst
        rw [List.getElem?_map, List.getElem?_range hj] at hst
        simpa using hst.symm
      show _ = (if i + j < seq.length then _ else none).map _
      rw [if_pos hj, ← hst']
      cases st with
      | none => rfl
      | some id =>
        simp only [Option.bind_some]
        rw [← hcell j m hm]
        exact h4 tid j id)
    (by
      intro j v hv
      simp only [F] at hv
      split at hv
      · cases hlm : longestMatch sc.pats (seq.take (i + j + 1)) with
        | none => rw [hlm] at hv; cases hv
        | some id =>
          rw [hlm] at hv
          exact h5 tid j id v hv
      · cases hv)
    (by
      intro j hj
      simp only [List.length_drop, hsl] at hj
      simp only [F]
      rw [if_neg (by omega)])
  refine ⟨sc', e1, e2, fun c => ?_⟩
  rw [e3 c, hrl, ← tagSum_total tm nRel seq i c (fun d hd w hw => hrel tid tm d w htid hd hw)]
  congr 1
  apply isum_map_congr
  intro j _
  simp only [F]
  by_cases hj : i + j < seq.length
  · rw [if_pos hj, if_pos hj]
    have hT : T.getD tid [] = tm := by rw [List.getD_eq_getElem?_getD, htid]; rfl
    cases hlm : longestMatch sc.pats (seq.take (i + j + 1)) with
    | none =>
      simp only [Option.bind_none, Option.getD_none]
      rw [getZ_nil]
      have hnone := longestMatch_none sc.pats _ hlm
      symm
      unfold tagSum
      apply isum_map_eq_zero
      intro d hd
      apply isum_map_eq_zero
      intro w hw
      have hmem := h7 tid tm d htid hd (List.ne_nil_of_mem hw)
      rw [hnone d.ngram hmem]
      simp
    | some id =>
      simp only [Option.bind_some]
      obtain ⟨p, hp, _, hall⟩ := longestMatch_some sc.pats _ id hlm
      rw [h6 tid j id p c hp, hT]
      unfold tagSum
      apply isum_map_congr
      intro d hd
      apply isum_map_congr
      intro w hw
      have hmem := h7 tid tm d htid hd (List.ne_nil_of_mem hw)
      rw [hall d.ngram hmem]
  · rw [if_neg hj, if_neg hj]
    exact getZ_nil _

end V.C06L
