import VProofs.Lemmas.EvalFmtShortest
/-!
# `decExponent a` is the decimal exponent: `10^(e−1) ≤ a·2^-1074 < 10^e`
-/
namespace V.FmtL
open V V.F64 V.QuantL

theorem digitsRev_upper (f m : Nat) (hf : m < 2 ^ (f + 1)) : m < 10 ^ (digitsRev (f + 1) m).length := by
  induction f generalizing m with
  | zero =>
    have hm : m < 10 := by simp only [Nat.zero_add, Nat.pow_one] at hf; omega
    unfold digitsRev
    rw [if_pos hm]
    simpa using hm
  | succ f ih =>
    unfold digitsRev
    split
    · rename_i h; simpa using h
    · have h1 := ih (m / 10) (by rw [Nat.pow_succ] at hf; omega)
      rw [List.length_cons, Nat.pow_succ]
      generalize 10 ^ (digitsRev (f + 1) (m / 10)).length = X at h1 ⊢
      omega

theorem decDigits_upper (m : Nat) : m < 10 ^ (decDigits m).length := by
  unfold decDigits
  rw [List.length_reverse]
  exact digitsRev_upper m.log2 m Nat.lt_log2_self

theorem leadingZeros_spec (fuel x : Nat) (hx : x < unit) :
    x * 10 ^ leadingZeros fuel x < unit ∧ leadingZeros fuel x ≤ fuel ∧
      (leadingZeros fuel x < fuel → unit ≤ x * 10 ^ (leadingZeros fuel x + 1)) := by
  induction fuel generalizing x with
  | zero =>
    unfold leadingZeros
    exact ⟨by rw [Nat.pow_zero, Nat.mul_one]; exact hx, Nat.le_refl _, fun h => absurd h (Nat.lt_irrefl _)⟩
  | succ f ih =>
    unfold leadingZeros
    split
    · rename_i h
      obtain ⟨i1, i2, i3⟩ := ih (x * 10) h
      refine ⟨?_, Nat.succ_le_succ i2, ?_⟩
      · rw [Nat.pow_succ, Nat.mul_comm _ 10, ← Nat.mul_assoc]; exact i1
      · intro hlt
        have := i3 (Nat.lt_of_succ_lt_succ hlt)
        rw [Nat.pow_succ _ (leadingZeros f (x * 10) + 1), Nat.mul_comm _ 10, ← Nat.mul_assoc]
        exact this
    · rename_i h
      refine ⟨by rw [Nat.pow_zero, Nat.mul_one]; exact hx, Nat.zero_le _, fun _ => ?_⟩
      rw [Nat.zero_add, Nat.pow_one]
      exact Nat.le_of_not_lt h

theorem unit_lt_pow : unit < 10 ^ 400 := by decide +kernel

/-- `10^(e−1) ≤ x < 10^e` for `e = decExponent a`, in the two forms used by the search -/
theorem decExponent_ok (a : Nat) (ha : 0 < a) :
    decNum 1 (decExponent a - 1) ≤ decDen (decExponent a - 1) * a ∧
      a * 10 ^ (-decExponent a).toNat < 10 ^ (decExponent a).toNat * unit := by
  unfold decExponent decNum decDen
  have hU : 0 < unit := two_pow_pos 1074
  by_cases hge : unit ≤ a
  · rw [if_pos hge]
    have hq : 0 < a / unit := Nat.div_pos hge hU
    have h1 := (decDigits_facts (a / unit)).2.2 hq
    have h2 := decDigits_upper (a / unit)
    generalize (decDigits (a / unit)).length = L at h1 h2
    have hL : 1 ≤ L := by
      apply Nat.pos_of_ne_zero
      intro h0
      rw [h0, Nat.pow_zero] at h2
      omega
    have e1 : ((L : Int) - 1).toNat = L - 1 := by omega
    have e2 : (-((L : Int) - 1)).toNat = 0 := by omega
    have e3 : (-(L : Int)).toNat = 0 := by omega
    have e4 : (L : Int).toNat = L := by omega
    rw [e1, e2, e3, e4, Nat.pow_zero, Nat.one_mul, Nat.one_mul, Nat.mul_one]
    have hdm := Nat.div_add_mod a unit
    have hml := Nat.mod_lt a hU
    constructor
    · calc 10 ^ (L - 1) * unit ≤ a / unit * unit := Nat.mul_le_mul_right _ h1
        _ ≤ a := Nat.div_mul_le_self a unit
    · have h3 : (a / unit + 1) * unit ≤ 10 ^ L * unit := Nat.mul_le_mul_right _ h2
      rw [Nat.add_mul, Nat.one_mul, Nat.mul_comm] at h3
      generalize unit * (a / unit) = X at h3 hdm
      generalize 10 ^ L * unit = Y at h3 ⊢
      generalize unit = U at *
      omega
  · rw [if_neg hge]
    have hlt : a < unit := Nat.lt_of_not_le hge
    obtain ⟨s1, s2, s3⟩ := leadingZeros_spec 400 a hlt
    generalize leadingZeros 400 a = z at s1 s2 s3
    have hz : z < 400 := by
      apply Nat.lt_of_not_le
      intro h400
      have p1 : 10 ^ 400 ≤ 10 ^ z := Nat.pow_le_pow_right (by decide) h400
      have p2 : 10 ^ z ≤ a * 10 ^ z := Nat.le_mul_of_pos_left _ ha
      exact absurd (Nat.lt_of_le_of_lt (Nat.le_trans p1 p2) s1) (Nat.not_lt.mpr (Nat.le_of_lt unit_lt_pow))
    have e1 : (-(z : Int) - 1).toNat = 0 := by omega
    have e2 : (-(-(z : Int) - 1)).toNat = z + 1 := by omega
    have e3 : (-(-(z : Int))).toNat = z := by omega
    have e4 : (-(z : Int)).toNat = 0 := by omega
    rw [e1, e2, e3, e4, Nat.pow_zero, Nat.one_mul]
    try rw [Nat.one_mul]
    rw [Nat.mul_comm (10 ^ (z + 1)) a]
    exact ⟨s3 hz, s1⟩

/-- the search of `f64ShortestDec` ends within its 20 rounds (it does not fall back to the exact decimal expansion) -/
def f64ShortestFoundWithinFuel (a : Nat) : Bool := (shortestSearch a (decExponent a) 20 1).isSome

theorem searchOk_of_found (a : Nat) (ha : 0 < a) (h : f64ShortestFoundWithinFuel a = true) :
    f64ShortestSearchOk a = true := by
  obtain ⟨h1, h2⟩ := decExponent_ok a ha
  unfold f64ShortestFoundWithinFuel at h
  unfold f64ShortestSearchOk
  simp only [Bool.and_eq_true, decide_eq_true_eq]
  exact ⟨⟨h, h1⟩, h2⟩

/-- no digit string with fewer digits reads back as `a`, provided the search ended within its fuel -/
theorem display_shortest_found (a : Nat) (ha : 0 < a) (hat : a < top) (hrep : repUnits a = true)
    (hok : f64ShortestFoundWithinFuel a = true) (ds' : List Nat) (e' : Int)
    (hlen : ds'.length < (f64ShortestDigits a).1.length) (hdig : ∀ d ∈ ds', d < 10) (hne : ds' ≠ []) :
    decimalToF64 ds' e' ≠ .fin false a :=
  display_shortest_partial a ha hat hrep (searchOk_of_found a ha hok) ds' e' hlen hdig hne

end V.FmtL
