/-!
# Finite sums over lists of integers (for C01): exchange of summation, filters, regrouping by key
-/
namespace V.C01L

theorem isum_append (l1 l2 : List Int) : (l1 ++ l2).sum = l1.sum + l2.sum := by
  induction l1 with
  | nil => simp
  | cons a l ih => simp only [List.cons_append, List.sum_cons, ih]; omega

theorem isum_map_add {β : Type} (l : List β) (f g : β → Int) :
    (l.map fun a => f a + g a).sum = (l.map f).sum + (l.map g).sum := by
  induction l with
  | nil => simp
  | cons a l ih => simp only [List.map_cons, List.sum_cons, ih]; omega

theorem isum_map_zero {β : Type} (l : List β) : (l.map fun _ => (0 : Int)).sum = 0 := by
  induction l with
  | nil => simp
  | cons a l ih => simp only [List.map_cons, List.sum_cons, ih]; omega

theorem isum_map_congr {β : Type} (l : List β) (f g : β → Int) (h : ∀ a ∈ l, f a = g a) :
    (l.map f).sum = (l.map g).sum := by
  induction l with
  | nil => simp
  | cons a l ih =>
    simp only [List.map_cons, List.sum_cons]
    rw [h a (by simp), ih (fun b hb => h b (by simp [hb]))]

theorem isum_map_eq_zero {β : Type} (l : List β) (f : β → Int) (h : ∀ a ∈ l, f a = 0) :
    (l.map f).sum = 0 := by
  rw [isum_map_congr l f (fun _ => 0) h, isum_map_zero]

theorem isum_comm {β γ : Type} (A : List β) (B : List γ) (F : β → γ → Int) :
    (A.map fun a => (B.map fun b => F a b).sum).sum = (B.map fun b => (A.map fun a => F a b).sum).sum := by
  induction A with
  | nil => simp [isum_map_zero]
  | cons a A ih =>
    simp only [List.map_cons, List.sum_cons, ih]
    rw [← isum_map_add]

theorem isum_filter {β : Type} (l : List β) (p : β → Bool) (f : β → Int) :
    ((l.filter p).map f).sum = (l.map fun a => if p a then f a else 0).sum := by
  induction l with
  | nil => simp
  | cons a l ih =>
    by_cases h : p a = true
    · simp only [List.filter_cons, h, if_true, List.map_cons, List.sum_cons, ih]
    · simp [h, ih]

theorem isum_filterMap {β γ : Type} (l : List β) (g : β → Option γ) (f : γ → Int) :
    ((l.filterMap g).map f).sum = (l.map fun a => match g a with | some c => f c | none => 0).sum := by
  induction l with
  | nil => simp
  | cons a l ih =>
    cases h : g a with
    | none => simp only [List.filterMap_cons, h, List.map_cons, List.sum_cons, ih]; simp
    | some c => simp only [List.filterMap_cons, h, List.map_cons, List.sum_cons, ih]

theorem isum_flatMap {β γ : Type} (l : List β) (g : β → List γ) (f : γ → Int) :
    ((l.flatMap g).map f).sum = (l.map fun a => ((g a).map f).sum).sum := by
  induction l with
  | nil => simp
  | cons a l ih =>
    simp only [List.flatMap_cons, List.map_append, isum_append, List.map_cons, List.sum_cons, ih]

theorem isum_filter_congr {β : Type} (l : List β) (p q : β → Bool) (f : β → Int)
    (h : ∀ a ∈ l, p a = q a) : ((l.filter p).map f).sum = ((l.filter q).map f).sum := by
  rw [isum_filter, isum_filter]
  exact isum_map_congr _ _ _ (fun a ha => by rw [h a ha])

/-- splitting a filtered sum along two disjoint predicates -/
theorem isum_filter_or {β : Type} (l : List β) (p q : β → Bool) (f : β → Int)
    (hd : ∀ a ∈ l, ¬ (p a = true ∧ q a = true)) :
    ((l.filter fun a => p a || q a).map f).sum = ((l.filter p).map f).sum + ((l.filter q).map f).sum := by
  rw [isum_filter, isum_filter, isum_filter, ← isum_map_add]
  apply isum_map_congr
  intro a ha
  have := hd a ha
  cases hp : p a <;> cases hq : q a <;> simp_all

/-- regrouping by key: summing, over a duplicate-free list of keys, the entries with that key is the
sum over all entries whose key is in the list -/
theorem isum_group {β κ : Type} [DecidableEq κ] (es : List β) (key : β → κ) (f : β → Int) (K : List κ)
    (hK : K.Nodup) :
    (K.map fun k => ((es.filter fun e => decide (key e = k)).map f).sum).sum
      = ((es.filter fun e => decide (key e ∈ K)).map f).sum := by
  induction K with
  | nil => simp [isum_filter, isum_map_zero]
  | cons k K ih =>
    have hk : k ∉ K := (List.nodup_cons.mp hK).1
    simp only [List.map_cons, List.sum_cons, ih (List.nodup_cons.mp hK).2]
    rw [← isum_filter_or]
    · apply isum_filter_congr
      intro a _
      simp only [List.mem_cons]
      by_cases h1 : key a = k <;> by_cases h2 : key a ∈ K <;> simp [h1, h2]
    · intro a _ ⟨h1, h2⟩
      simp only [decide_eq_true_eq] at h1 h2
      exact hk (h1 ▸ h2)

end V.C01L
