import VModel.Spec
import VProofs.Lemmas.TagNew
import VProofs.Lemmas.TagPick
/-!
# The per-token block of `predict_tags` (for C06)
-/
namespace V.C06L
open V.C01L

/-! ## looking the token up -/

def lastWith (tok : List Char) : List TagModel → Nat → Option (Nat × TagModel)
  | [], _ => none
  | a :: r, k => match lastWith tok r (k + 1) with
    | some x => some x
    | none => if a.token = tok then some (k, a) else none

theorem lookupLast_zipIdx (cfg : Cfg) (tok : List Char) (tms : List TagModel) :
    ∀ k0, lookupLast tok ((tms.zipIdx k0).map fun x => (x.1.token, x.2, mkTP cfg x.1))
      = (lastWith tok tms k0).map fun x => (x.1, mkTP cfg x.2) := by
  induction tms with
  | nil => intro k0; rfl
  | cons a r ih =>
    intro k0
    rw [List.zipIdx_cons, List.map_cons, lookupLast, ih (k0 + 1), lastWith]
    cases lastWith tok r (k0 + 1) with
    | some x => rfl
    | none =>
      simp only [Option.map_none]
      by_cases h : a.token = tok
      · rw [if_pos h, if_pos h]; rfl
      · rw [if_neg h, if_neg h]; rfl

theorem lastWith_idx (tok : List Char) (tms : List TagModel) :
    ∀ k0 tid tm, lastWith tok tms k0 = some (tid, tm) → k0 ≤ tid ∧ tms[tid - k0]? = some tm := by
  induction tms with
  | nil => intro k0 tid tm h; cases h
  | cons a r ih =>
    intro k0 tid tm h
    rw [lastWith] at h
    cases hl : lastWith tok r (k0 + 1) with
    | some x =>
      rw [hl] at h
      simp only [Option.some.injEq] at h
      subst h
      obtain ⟨h1, h2⟩ := ih (k0 + 1) tid tm hl
      refine ⟨by omega, ?_⟩
      have : tid - k0 = (tid - (k0 + 1)) + 1 := by omega
      rw [this, List.getElem?_cons_succ]; exact h2
    | none =>
      rw [hl] at h
      simp only at h
      split at h
      · simp only [Option.some.injEq, Prod.mk.injEq] at h
        obtain ⟨h1, h2⟩ := h
        subst h1; subst h2
        exact ⟨Nat.le_refl _, by simp⟩
      · cases h

theorem lastWith_find (tok : List Char) (tms : List TagModel) :
    ∀ k0, (lastWith tok tms k0).map Prod.snd = tms.reverse.find? (fun tm => decide (tm.token = tok)) := by
  induction tms with
  | nil => intro k0; rfl
  | cons a r ih =>
    intro k0
    rw [lastWith, List.reverse_cons, List.find?_append, ← ih (k0 + 1)]
    cases lastWith tok r (k0 + 1) with
    | some x => rfl
    | none =>
      simp only [Option.map_none, Option.none_or]
      by_cases h : a.token = tok
      · simp [h]
      · simp [h]

/-! ## bounds -/

theorem foldl_max_le (tms : List TagModel) : ∀ acc, acc ≤ tms.foldl (fun acc tm => max acc tm.tags.length) acc := by
  induction tms with
  | nil => intro acc; exact Nat.le_refl _
  | cons a r ih => intro acc; exact Nat.le_trans (Nat.le_max_left _ _) (ih _)

theorem foldl_max_mem (tms : List TagModel) (tm : TagModel) (h : tm ∈ tms) :
    ∀ acc, tm.tags.length ≤ tms.foldl (fun acc tm => max acc tm.tags.length) acc := by
  induction tms with
  | nil => cases h
  | cons a r ih =>
    intro acc
    rcases List.mem_cons.mp h with e | e
    · subst e
      exact Nat.le_trans (Nat.le_max_right _ _) (foldl_max_le r _)
    · exact ih e _

theorem tags_le_nTags (m : WModel) (tm : TagModel) (h : tm ∈ m.tagModels) : tm.tags.length ≤ specNTags m :=
  foldl_max_mem m.tagModels tm h 0

/-! ## score vectors -/

theorem getZ_replicate_zero (k : Nat) (i : Int) : getZ (List.replicate k 0) i = 0 := by
  have := getZ_append_replicate [] k i
  rw [List.nil_append] at this
  rw [this, getZ_nil]

theorem list_ext_getZ (a b : List Int) (hl : a.length = b.length)
    (h : ∀ c : Nat, getZ a (c : Int) = getZ b (c : Int)) : a = b := by
  apply List.ext_getElem hl
  intro i h1 h2
  have := h i
  rw [getZ_nat, getZ_nat, List.getD_eq_getElem?_getD, List.getD_eq_getElem?_getD,
    List.getElem?_eq_getElem h1, List.getElem?_eq_getElem h2] at this
  simpa using this

variable {α : Type} [DecidableEq α]

theorem tagNgramScore_nil (seq : List α) (i c : Nat) : tagNgramScore ([] : List (TagNgramData α)) seq i c = 0 := rfl

theorem tagNgramScore_ge (tbl : List (TagNgramData α)) (seq : List α) (i c : Nat)
    (h : ∀ d ∈ tbl, ∀ w ∈ d.weights, w.weights.length ≤ c) : tagNgramScore tbl seq i c = 0 := by
  unfold tagNgramScore
  apply isum_map_eq_zero
  intro d hd
  apply isum_map_eq_zero
  intro w hw
  rw [getZ_ge _ _ (by have := h d hd w hw; omega)]
  split <;> rfl

/-- the score vector `predict_tags` computes for tag model `tm` at last character `i` -/
def scoreVec (cfg : Cfg) (tm : TagModel) (text : List Char) (i : Nat) : List Int :=
  specTagScores tm text i ++ List.replicate (vlen cfg (nClass tm.tags) - nClass tm.tags) 0

theorem specTagScores_length (tm : TagModel) (text : List Char) (i : Nat) :
    (specTagScores tm text i).length = nClass tm.tags := by simp [specTagScores]

theorem scoreVec_length (cfg : Cfg) (tm : TagModel) (text : List Char) (i : Nat) :
    (scoreVec cfg tm text i).length = vlen cfg (nClass tm.tags) := by
  unfold scoreVec
  rw [List.length_append, specTagScores_length, List.length_replicate]
  have := le_vlen cfg (nClass tm.tags)
  omega

theorem scoreVec_take (cfg : Cfg) (tm : TagModel) (text : List Char) (i : Nat) :
    (scoreVec cfg tm text i).take (nClass tm.tags) = specTagScores tm text i :=
  List.take_left' (specTagScores_length tm text i)

theorem getZ_scoreVec (cfg : Cfg) (tm : TagModel) (text : List Char) (i c : Nat) :
    getZ (scoreVec cfg tm text i) (c : Int)
      = if c < nClass tm.tags then
          getZ tm.bias (c : Int) + tagNgramScore tm.charNgrams text i c + tagNgramScore tm.typeNgrams (typesOf text) i c
        else 0 := by
  unfold scoreVec
  rw [getZ_append_replicate]
  by_cases hc : c < nClass tm.tags
  · rw [if_pos hc, getZ_nat, List.getD_eq_getElem?_getD]
    unfold specTagScores
    rw [List.getElem?_map, List.getElem?_range hc]
    rfl
  · rw [if_neg hc, getZ_ge _ _ (by rw [specTagScores_length]; omega)]

/-! ## the predictor and sentence invariants -/

/-- the tag part of well-formedness that the proofs use -/
structure WFT (m : WModel) : Prop where
  bias_len : ∀ tm ∈ m.tagModels, tm.bias.length = nClass tm.tags
  char_ok : ∀ tm ∈ m.tagModels, ∀ d ∈ tm.charNgrams, ∀ w ∈ d.weights, w.weights.length = nClass tm.tags
  type_ok : ∀ tm ∈ m.tagModels, ∀ d ∈ tm.typeNgrams, ∀ w ∈ d.weights, w.weights.length = nClass tm.tags

def tpmOf (cfg : Cfg) (m : WModel) : List (List Char × Nat × TagPredictor) :=
  (m.tagModels.zipIdx).map fun x => (x.1.token, x.2, mkTP cfg x.1)

/-- a tag-predicting predictor built from `m` -/
structure PredOK (cfg : Cfg) (m : WModel) (p : Predictor) : Prop where
  tpm : p.tagPredictor = some (tpmOf cfg m)
  nTags : p.nTags = specNTags m
  cs : (p.charScorer = none ∧ ∀ tm ∈ m.tagModels.map (·.charNgrams), tm = []) ∨
    ∃ sc, p.charScorer = some sc ∧ TagScorerOK cfg m.charW (m.tagModels.map (·.charNgrams)) (Lm m) sc
  ts : (p.typeScorer = none ∧ ∀ tm ∈ m.tagModels.map (·.typeNgrams), tm = []) ∨
    ∃ sc, p.typeScorer = some (.pma sc) ∧ TagScorerOK cfg m.typeW (m.tagModels.map (·.typeNgrams)) (Lm m) sc

/-- the part of the sentence the token block reads and never writes -/
structure StOK (p : Predictor) (text : List Char) (s : Sentence) : Prop where
  text_eq : s.text = text
  cst : ∀ sc, p.charScorer = some sc → s.cstates = statesOf sc.pats text
  tst : ∀ sc, p.typeScorer = some (.pma sc) → s.tstates = statesOf sc.pats (typesOf text)

theorem Lm_eq (m : WModel) (tid : Nat) (tm : TagModel) (h : m.tagModels[tid]? = some tm) :
    Lm m tid = nClass tm.tags := by
  unfold Lm; rw [h]

theorem mem_of_getElem?' {β : Type} (l : List β) (i : Nat) (a : β) (h : l[i]? = some a) : a ∈ l :=
  List.mem_of_getElem? h

/-- the three `add_scores` phases produce `scoreVec` -/
theorem tagScore_spec (cfg : Cfg) (m : WModel) (p : Predictor) (hP : PredOK cfg m p) (hW : WFT m)
    (text : List Char) (s : Sentence) (hs : StOK p text s) (tid : Nat) (tm : TagModel)
    (htid : m.tagModels[tid]? = some tm) (i : Nat) (hi : i < text.length) :
    ∃ sc1 sc2, (mkTP cfg tm).bias.addScores (List.replicate (mkTP cfg tm).bias.len 0) = .ok sc1 ∧
      (∀ sc, p.charScorer = some sc → pmaAddTagScores sc tid i s.cstates sc1 = .ok sc2) ∧
      (p.charScorer = none → sc1 = sc2) ∧
      (∀ ts, p.typeScorer = some ts → typeAddTagScores ts tid i s.tstates sc2 = .ok (scoreVec cfg tm text i)) ∧
      (p.typeScorer = none → sc2 = scoreVec cfg tm text i) := by
  have hmem : tm ∈ m.tagModels := List.mem_of_getElem? htid
  have hK := Lm_eq m tid tm htid
  have hbl := hW.bias_len tm hmem
  -- bias
  have hlen0 : (mkTP cfg tm).bias.len = vlen cfg (nClass tm.tags) := by
    show (WV.ofList cfg tm.bias).len = _
    rw [ofList_len, hbl]
  obtain ⟨sc1, a1, a2, a3⟩ := ofList_addScores cfg (nClass tm.tags) tm.bias
    (List.replicate (mkTP cfg tm).bias.len 0) hbl (by rw [List.length_replicate, hlen0])
  have hl1 : sc1.length = vlen cfg (nClass tm.tags) := by rw [a2, List.length_replicate, hlen0]
  -- character scorer
  have hchar : ∃ sc2, (match p.charScorer with
        | some sc => pmaAddTagScores sc tid i s.cstates sc1
        | none => .ok sc1) = .ok sc2 ∧ sc2.length = sc1.length ∧
      ∀ c : Nat, getZ sc2 (c : Int) = getZ sc1 (c : Int) + tagNgramScore tm.charNgrams text i c := by
    rcases hP.cs with ⟨h1, h2⟩ | ⟨sc, h1, h2⟩
    · rw [h1]
      refine ⟨sc1, rfl, rfl, fun c => ?_⟩
      rw [h2 tm.charNgrams (List.mem_map.mpr ⟨tm, hmem, rfl⟩), tagNgramScore_nil]; omega
    · rw [h1, hs.cst sc h1]
      exact pmaAddTagScores_spec cfg m.charW _ (Lm m) sc h2 tid tm.charNgrams
        (by rw [List.getElem?_map, htid]; rfl) text i (by omega) sc1 (by rw [hK, hl1])
  obtain ⟨sc2, b1, b2, b3⟩ := hchar
  -- type scorer
  have htype : ∃ sc3, (match p.typeScorer with
        | some ts => typeAddTagScores ts tid i s.tstates sc2
        | none => .ok sc2) = .ok sc3 ∧ sc3.length = sc2.length ∧
      ∀ c : Nat, getZ sc3 (c : Int) = getZ sc2 (c : Int) + tagNgramScore tm.typeNgrams (typesOf text) i c := by
    rcases hP.ts with ⟨h1, h2⟩ | ⟨sc, h1, h2⟩
    · rw [h1]
      refine ⟨sc2, rfl, rfl, fun c => ?_⟩
      rw [h2 tm.typeNgrams (List.mem_map.mpr ⟨tm, hmem, rfl⟩), tagNgramScore_nil]; omega
    · rw [h1, hs.tst sc h1]
      exact pmaAddTagScores_spec cfg m.typeW _ (Lm m) sc h2 tid tm.typeNgrams
        (by rw [List.getElem?_map, htid]; rfl) (typesOf text) i
        (by simp only [typesOf, List.length_map]; omega) sc2 (by rw [hK, b2, hl1])
  obtain ⟨sc3, c1, c2, c3⟩ := htype
  have hfin : sc3 = scoreVec cfg tm text i := by
    apply list_ext_getZ
    · rw [scoreVec_length, c2, b2, hl1]
    · intro c
      rw [c3 c, b3 c, a3 c, getZ_replicate_zero, getZ_scoreVec]
      by_cases hc : c < nClass tm.tags
      · rw [if_pos hc]; omega
      · rw [if_neg hc, getZ_ge tm.bias _ (by omega),
          tagNgramScore_ge tm.charNgrams text i c
            (fun d hd w hw => by have := hW.char_ok tm hmem d hd w hw; omega),
          tagNgramScore_ge tm.typeNgrams (typesOf text) i c
            (fun d hd w hw => by have := hW.type_ok tm hmem d hd w hw; omega)]
        rfl
  subst hfin
  refine ⟨sc1, sc2, a1, ?_, ?_, ?_, ?_⟩
  · intro sc hsc; rw [hsc] at b1; exact b1
  · intro hsc; rw [hsc] at b1; simpa using b1
  · intro ts hts; rw [hts] at c1; exact c1
  · intro hts; rw [hts] at c1; simpa using c1

/-! ## the token block -/

/-- the row `specTokenTags` prescribes for a token with tag model `tm` whose last character is `i` -/
def rowOf (m : WModel) (tm : TagModel) (text : List Char) (i : Nat) : List Tag :=
  specPickTags tm.tags (specTagScores tm text i) ++ List.replicate (specNTags m - tm.tags.length) none

/-- the effect of the token block on the sentence -/
def tokStep (cfg : Cfg) (m : WModel) (text : List Char) (s : Sentence) (st i : Nat) : Sentence :=
  match tagModelOf m ((text.drop st).take (i + 1 - st)) with
  | none => s
  | some tm =>
    { s with tags := s.tags.take (i * specNTags m) ++ rowOf m tm text i ++ s.tags.drop ((i + 1) * specNTags m),
             tagScores := if s.tagScores.isEmpty then s.tagScores
                          else s.tagScores.set i (some (tm.tags, scoreVec cfg tm text i)) }

theorem tagToken_spec (cfg : Cfg) (m : WModel) (p : Predictor) (hP : PredOK cfg m p) (hW : WFT m)
    (text : List Char) (s : Sentence) (hs : StOK p text s) (st i : Nat) (hst : st ≤ i) (hi : i < text.length)
    (htl : (i + 1) * specNTags m ≤ s.tags.length)
    (hrow : (s.tags.drop (i * specNTags m)).take (specNTags m) = List.replicate (specNTags m) none) :
    tagToken p (tpmOf cfg m) s st i = .ok (tokStep cfg m text s st i) := by
  unfold tagToken tokStep
  have hsub : s.substring st (i + 1) = .ok ((text.drop st).take (i + 1 - st)) := by
    unfold Sentence.substring
    rw [hs.text_eq, if_pos ⟨by omega, by omega⟩]
  rw [hsub]
  simp only
  unfold tpmOf
  rw [lookupLast_zipIdx]
  unfold tagModelOf
  rw [← lastWith_find _ _ 0]
  cases hl : lastWith ((text.drop st).take (i + 1 - st)) m.tagModels 0 with
  | none => rfl
  | some x =>
    obtain ⟨tid, tm⟩ := x
    obtain ⟨_, htid⟩ := lastWith_idx _ _ 0 tid tm hl
    rw [Nat.sub_zero] at htid
    have hmem : tm ∈ m.tagModels := List.mem_of_getElem? htid
    obtain ⟨sc1, sc2, e1, e2, e2', e3, e3'⟩ := tagScore_spec cfg m p hP hW text s hs tid tm htid i hi
    simp only [Option.map_some]
    rw [e1]
    simp only
    have hpred := tagPredict_spec (mkTP cfg tm) (scoreVec cfg tm text i) tm.tags 0
      (List.replicate (specNTags m) none)
      (by rw [scoreVec_length]; have := le_vlen cfg (nClass tm.tags); omega)
      (by rw [List.length_replicate]; exact tags_le_nTags m tm hmem)
    have htags : (mkTP cfg tm).tags = tm.tags := rfl
    rw [htags]
    have tail : (match (mkTP cfg tm).predict (scoreVec cfg tm text i) tm.tags 0 (List.replicate (specNTags m) none) with
        | .ok slots => Res.ok ({ s with
            tags := s.tags.take (i * specNTags m) ++ slots ++ s.tags.drop ((i + 1) * specNTags m),
            tagScores := if s.tagScores.isEmpty then s.tagScores
                         else s.tagScores.set i (some (tm.tags, scoreVec cfg tm text i)) } : Sentence)
        | .err e => .err e
        | .panic q => .panic q
        | .ub q => .ub q)
        = .ok { s with
            tags := s.tags.take (i * specNTags m) ++ rowOf m tm text i ++ s.tags.drop ((i + 1) * specNTags m),
            tagScores := if s.tagScores.isEmpty then s.tagScores
                         else s.tagScores.set i (some (tm.tags, scoreVec cfg tm text i)) } := by
      rw [hpred]
      simp only [List.drop_zero, scoreVec_take, List.drop_replicate]
      rfl
    cases hcs : p.charScorer with
    | none =>
      have h12 := e2' hcs
      subst h12
      cases hts : p.typeScorer with
      | none =>
        have h23 := e3' hts
        simp only
        rw [hP.nTags, if_pos htl, hrow, h23]; exact tail
      | some ts =>
        simp only
        rw [e3 ts hts]
        simp only
        rw [hP.nTags, if_pos htl, hrow]; exact tail
    | some sc =>
      simp only
      rw [e2 sc hcs]
      simp only
      cases hts : p.typeScorer with
      | none =>
        have h23 := e3' hts
        simp only
        rw [hP.nTags, if_pos htl, hrow, h23]; exact tail
      | some ts =>
        simp only
        rw [e3 ts hts]
        simp only
        rw [hP.nTags, if_pos htl, hrow]; exact tail

end V.C06L
