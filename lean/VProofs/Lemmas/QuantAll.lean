import VProofs.Lemmas.QuantMain
/-!
# `weightMax`, `quantiseList`, `quantiseAll`: the whole quantisation step; monotonicity and sign of `quantise`
-/
namespace V.QuantL
open V V.F64

/-- `2^-1045` (the subnormal with bit pattern `0x0000000020000000`, `2^29` units): the least power of two from which on the
16-bit range claim holds -/
def quantThreshold : F64 := F64.ofBits 0x20000000

theorem quantThreshold_eq : quantThreshold = .fin false (2 ^ 29) := by decide +kernel

theorem finite_cases {x : F64} (h : x.Finite) : ∃ s a, x = .fin s a ∧ a < top := by
  cases x with
  | nan => exact absurd h (by simp [F64.Finite])
  | inf s => exact absurd h (by simp [F64.Finite])
  | fin s a => exact ⟨s, a, rfl, h⟩

theorem f64Le_fin (s t : Bool) (a b : Nat) : f64Le (.fin s a) (.fin t b) = decide (F64.sval s a ≤ F64.sval t b) := rfl

/-- `T ≤ M` in the model's comparison means: `M` is +∞ or a non-negative finite value of at least `2^29` units -/
theorem threshold_le_fin {s : Bool} {m : Nat} (h : f64Le quantThreshold (.fin s m) = true) : s = false ∧ 2 ^ 29 ≤ m := by
  rw [quantThreshold_eq, f64Le_fin] at h
  have h' := of_decide_eq_true h
  unfold F64.sval at h'
  cases s <;> simp only [Bool.false_eq_true, if_false, if_true] at h'
  · exact ⟨rfl, by omega⟩
  · omega

/-- `(2^29 − 2^15)·2^-1074` (pattern `0x1FFF8000`): the largest `weight_max` for which the range claim fails -/
def quantLastBad : F64 := F64.ofBits 0x1FFF8000

theorem quantLastBad_eq : quantLastBad = .fin false (2 ^ 29 - 2 ^ 15) := by decide +kernel

/-- `¬ (M ≤ lastBad)` for a finite `M` means: `M` is positive and has more than `2^29 − 2^15` units -/
theorem lastBad_lt_fin {s : Bool} {m : Nat} (h : f64Le (.fin s m) quantLastBad = false) : s = false ∧ 2 ^ 29 - 2 ^ 15 < m := by
  rw [quantLastBad_eq, f64Le_fin] at h
  have h' := of_decide_eq_false h
  unfold F64.sval at h'
  cases s <;> simp only [Bool.false_eq_true, if_false, if_true] at h'
  · exact ⟨rfl, by omega⟩
  · omega

/-- `|x| ≤ M` in the model's comparison, for finite values -/
theorem abs_le_fin {s t : Bool} {a m : Nat} (h : f64Le (f64Abs (.fin s a)) (.fin t m) = true) (ht : t = false) : a ≤ m := by
  subst ht
  unfold f64Abs at h
  rw [f64Le_fin] at h
  have h' := of_decide_eq_true h
  unfold F64.sval at h'
  simp only [Bool.false_eq_true, if_false] at h'
  omega

theorem f64Max_fin (A c : Nat) : f64Max (.fin false A) (.fin false c) = .fin false (max A c) := by
  unfold f64Max
  simp only [f64Le_fin, F64.sval, Bool.false_eq_true, if_false]
  by_cases h : A ≤ c
  · have : ((A : Int) ≤ (c : Int)) := by omega
    rw [decide_eq_true this, if_pos rfl, Nat.max_eq_right h]
  · have : ¬ ((A : Int) ≤ (c : Int)) := by omega
    rw [decide_eq_false this, Nat.max_eq_left (by omega)]
    simp only [Bool.false_eq_true, if_false]

/-- the running maximum over finite values is the (finite, non-negative) maximum of the magnitudes, and it is attained -/
theorem foldMax_fin (cs : List F64) (A : Nat) (hA : A < top) (hc : ∀ c ∈ cs, c.Finite) :
    ∃ M, cs.foldl (fun m c => f64Max m (f64Abs c)) (.fin false A) = .fin false M ∧ M < top ∧ A ≤ M ∧
      (∀ c ∈ cs, c.mag ≤ M) ∧ (M = A ∨ ∃ c ∈ cs, M = c.mag) := by
  induction cs generalizing A with
  | nil => exact ⟨A, rfl, hA, Nat.le_refl _, fun _ h => absurd h List.not_mem_nil, Or.inl rfl⟩
  | cons c cs ih =>
    obtain ⟨s, a, rfl, ha⟩ := finite_cases (hc c List.mem_cons_self)
    have hstep : f64Max (.fin false A) (f64Abs (.fin s a)) = .fin false (max A a) := f64Max_fin A a
    have hmax : max A a < top := by rw [Nat.max_def]; split <;> assumption
    obtain ⟨M, h1, h2, h3, h4, h5⟩ := ih (max A a) hmax (fun c' h => hc c' (List.mem_cons_of_mem _ h))
    refine ⟨M, ?_, h2, Nat.le_trans (Nat.le_max_left _ _) h3, ?_, ?_⟩
    · rw [List.foldl_cons, hstep]; exact h1
    · intro c' hc'
      rcases List.mem_cons.mp hc' with rfl | h
      · exact Nat.le_trans (Nat.le_max_right _ _) h3
      · exact h4 c' h
    · rcases h5 with h5 | ⟨c', hc', h5⟩
      · by_cases hAa : A ≤ a
        · right; exact ⟨.fin s a, List.mem_cons_self, by rw [h5, Nat.max_eq_right hAa]; rfl⟩
        · left; rw [h5, Nat.max_eq_left (by omega)]
      · right; exact ⟨c', List.mem_cons_of_mem _ hc', h5⟩

theorem weightMax_fin (bias : F64) (coefs : List F64) (hb : bias.Finite) (hc : ∀ c ∈ coefs, c.Finite) :
    ∃ M, weightMax bias coefs = .fin false M ∧ M < top ∧ bias.mag ≤ M ∧ (∀ c ∈ coefs, c.mag ≤ M) ∧
      (M = bias.mag ∨ ∃ c ∈ coefs, M = c.mag) := by
  obtain ⟨s, a, rfl, ha⟩ := finite_cases hb
  exact foldMax_fin coefs a ha hc

/-- the feature loop succeeds when every single quotient does -/
theorem quantiseList_ok (mult : F64) (P : Int → Prop) (cs : List F64)
    (h : ∀ c ∈ cs, ∃ w, quantise c mult = .ok w ∧ P w) :
    ∃ ws, quantiseList mult cs = .ok ws ∧ ws.length = cs.length ∧ ∀ w ∈ ws, P w := by
  induction cs with
  | nil => exact ⟨[], rfl, rfl, fun _ h => absurd h List.not_mem_nil⟩
  | cons c cs ih =>
    obtain ⟨w, hw, hP⟩ := h c List.mem_cons_self
    obtain ⟨ws, h1, h2, h3⟩ := ih (fun c' hc' => h c' (List.mem_cons_of_mem _ hc'))
    refine ⟨w :: ws, ?_, by simp [h2], ?_⟩
    · unfold quantiseList
      rw [hw, Res.bind_ok, h1]
      rfl
    · intro w' hw'
      rcases List.mem_cons.mp hw' with rfl | h'
      · exact hP
      · exact h3 w' h'

theorem f64IsZero_fin (s : Bool) (k : Nat) : f64IsZero (.fin s k) = decide (k = 0) := by
  cases k <;> rfl

theorem roundUnits_zero (d : Nat) (hd : 0 < d) : roundUnits 0 d = 0 := by
  have := roundUnits_le_of_le 0 d 0 hd ⟨0, 0, rfl, by decide⟩ (Nat.zero_le _)
  omega

/-- shape of the whole step once `weight_max` and a per-value outcome are known -/
theorem quantiseAll_ok (bias : F64) (coefs : List F64) (M k : Nat) (P : Int → Prop)
    (hwm : weightMax bias coefs = .fin false M) (hM : M < top) (hk : roundUnits M 32767 = k) (hk0 : k ≠ 0)
    (hq : ∀ c, c = bias ∨ c ∈ coefs → ∃ w, quantise c (.fin false k) = .ok w ∧ P w) :
    ∃ b ws, quantiseAll bias coefs = .ok (b, ws) ∧ ws.length = coefs.length ∧ P b ∧ ∀ w ∈ ws, P w := by
  obtain ⟨b, hb, hPb⟩ := hq bias (Or.inl rfl)
  obtain ⟨ws, h1, h2, h3⟩ := quantiseList_ok (.fin false k) P coefs (fun c hc => hq c (Or.inr hc))
  refine ⟨b, ws, ?_, h2, hPb, h3⟩
  unfold quantiseAll
  simp only []
  rw [hwm, quantMultiplier_fin false M hM, hk, f64IsZero_fin, decide_eq_false hk0]
  simp only [Bool.false_eq_true, if_false]
  rw [hb, Res.bind_ok, h1]
  rfl

theorem quantiseAll_err (bias : F64) (coefs : List F64) (M : Nat)
    (hwm : weightMax bias coefs = .fin false M) (hM : M < top) (hk : roundUnits M 32767 = 0) :
    quantiseAll bias coefs = .err .invalidModel := by
  have hz : f64IsZero (quantMultiplier (weightMax bias coefs)) = true := by
    rw [hwm, quantMultiplier_fin false M hM, hk, f64IsZero_fin]
    exact decide_eq_true (Eq.refl 0)
  unfold quantiseAll
  exact if_pos hz

/-! ## sign, oddness and monotonicity of one quantisation -/

theorem div_fin_cases (s t : Bool) (a k : Nat) (hk : k ≠ 0) :
    f64Div (.fin s a) (.fin t k) =
      if roundUnits (a * unit) k < top then .fin (s != t) (roundUnits (a * unit) k) else .inf (s != t) := by
  unfold f64Div
  simp only []
  rw [if_neg hk]

theorem trunc_inf (s : Bool) (w : Int) : f64ToI32Trunc (.inf s) ≠ .ok w := by
  unfold f64ToI32Trunc
  simp

theorem trunc_nan (w : Int) : f64ToI32Trunc .nan ≠ .ok w := by
  unfold f64ToI32Trunc
  simp

theorem trunc_fin_ok {s : Bool} {r : Nat} {w : Int} (h : f64ToI32Trunc (.fin s r) = .ok w) :
    w = F64.sval s (r / unit) ∧ r / unit ≤ 2 ^ 31 ∧ (s = false → r / unit < 2 ^ 31) := by
  unfold f64ToI32Trunc at h
  simp only [] at h
  cases s
  · simp only [Bool.false_eq_true, if_false] at h
    by_cases c : r / unit < 2 ^ 31
    · rw [if_pos c] at h
      injection h with h
      exact ⟨h.symm, Nat.le_of_lt c, fun _ => c⟩
    · rw [if_neg c] at h
      exact absurd h (by simp)
  · simp only [if_true] at h
    by_cases c : r / unit ≤ 2 ^ 31
    · rw [if_pos c] at h
      injection h with h
      exact ⟨h.symm, c, fun hs => absurd hs (by decide)⟩
    · rw [if_neg c] at h
      exact absurd h (by simp)

/-- what `quantise` computes for a finite value and a positive finite multiplier -/
theorem quantise_fin_ok {s : Bool} {a k : Nat} {w : Int} (hk : k ≠ 0)
    (h : quantise (.fin s a) (.fin false k) = .ok w) :
    w = F64.sval s (roundUnits (a * unit) k / unit) ∧ roundUnits (a * unit) k < top ∧
      roundUnits (a * unit) k / unit ≤ 2 ^ 31 ∧ (s = false → roundUnits (a * unit) k / unit < 2 ^ 31) := by
  unfold quantise at h
  rw [div_fin_cases s false a k hk, bxor_false] at h
  by_cases hr : roundUnits (a * unit) k < top
  · rw [if_pos hr] at h
    obtain ⟨h1, h2, h3⟩ := trunc_fin_ok h
    exact ⟨h1, hr, h2, h3⟩
  · rw [if_neg hr] at h
    exact absurd h (trunc_inf _ _)

theorem quantise_mono_units {s t : Bool} {a b k : Nat} {wx wy : Int} (hk : k ≠ 0)
    (hle : F64.sval s a ≤ F64.sval t b)
    (hx : quantise (.fin s a) (.fin false k) = .ok wx) (hy : quantise (.fin t b) (.fin false k) = .ok wy) : wx ≤ wy := by
  obtain ⟨rfl, _, _, _⟩ := quantise_fin_ok hk hx
  obtain ⟨rfl, _, _, _⟩ := quantise_fin_ok hk hy
  have hkp : 0 < k := Nat.pos_of_ne_zero hk
  have mono : ∀ {p q : Nat}, p ≤ q → roundUnits (p * unit) k / unit ≤ roundUnits (q * unit) k / unit := fun h =>
    Nat.div_le_div_right (roundUnits_mono _ _ _ hkp (Nat.mul_le_mul_right _ h))
  unfold F64.sval at hle ⊢
  cases s <;> cases t <;> simp only [Bool.false_eq_true, if_false, if_true] at hle ⊢
  · have := mono (p := a) (q := b) (by omega); omega
  · have ha : a = 0 := by omega
    have hb : b = 0 := by omega
    subst ha; subst hb
    rw [Nat.zero_mul, roundUnits_zero k hkp]
    simp
  · have h1 := Int.natCast_nonneg (roundUnits (a * unit) k / unit)
    have h2 := Int.natCast_nonneg (roundUnits (b * unit) k / unit)
    generalize ((roundUnits (a * unit) k / unit : Nat) : Int) = p at h1 ⊢
    generalize ((roundUnits (b * unit) k / unit : Nat) : Int) = q at h2 ⊢
    omega
  · have := mono (p := b) (q := a) (by omega); omega

/-! ## the whole step -/

/-- every value the loop divides is finite and bounded by `weight_max` -/
theorem members_bounded (bias : F64) (coefs : List F64) (hb : bias.Finite) (hc : ∀ c ∈ coefs, c.Finite) :
    ∃ M, weightMax bias coefs = .fin false M ∧ M < top ∧
      (∀ c, c = bias ∨ c ∈ coefs → ∃ s a, c = .fin s a ∧ a ≤ M) ∧
      (∃ c, (c = bias ∨ c ∈ coefs) ∧ ∃ s, c = .fin s M) := by
  obtain ⟨M, h1, h2, h3, h4, h5⟩ := weightMax_fin bias coefs hb hc
  refine ⟨M, h1, h2, ?_, ?_⟩
  · intro c hcm
    rcases hcm with rfl | hcm
    · obtain ⟨s, a, rfl, _⟩ := finite_cases hb
      exact ⟨s, a, rfl, h3⟩
    · obtain ⟨s, a, rfl, _⟩ := finite_cases (hc c hcm)
      exact ⟨s, a, rfl, h4 _ hcm⟩
  · rcases h5 with h5 | ⟨c, hcm, h5⟩
    · obtain ⟨s, a, rfl, _⟩ := finite_cases hb
      exact ⟨.fin s a, Or.inl rfl, s, by rw [h5]; rfl⟩
    · obtain ⟨s, a, rfl, _⟩ := finite_cases (hc c hcm)
      exact ⟨.fin s a, Or.inr hcm, s, by rw [h5]; rfl⟩

def InQ15 (w : Int) : Prop := -32767 ≤ w ∧ w ≤ 32767

/-- `weight_max > 2^29 − 2^15` units: the step succeeds and everything is within ±32767 -/
theorem quantiseAll_big (bias : F64) (coefs : List F64) (hb : bias.Finite) (hc : ∀ c ∈ coefs, c.Finite)
    (M : Nat) (hwm : weightMax bias coefs = .fin false M) (hT : 2 ^ 29 - 2 ^ 15 < M) :
    ∃ b ws, quantiseAll bias coefs = .ok (b, ws) ∧ ws.length = coefs.length ∧ InQ15 b ∧ ∀ w ∈ ws, InQ15 w := by
  obtain ⟨M', h1, h2, h3, _⟩ := members_bounded bias coefs hb hc
  have hMM : M' = M := by rw [hwm] at h1; injection h1 with _ h; exact h.symm
  subst hMM
  have hk0 : roundUnits M' 32767 ≠ 0 := by
    intro h0
    have := mult_lower M' hT
    rw [h0] at this
    omega
  apply quantiseAll_ok bias coefs M' (roundUnits M' 32767) InQ15 hwm h2 rfl hk0
  intro c hcm
  obtain ⟨s, a, rfl, ha⟩ := h3 c hcm
  obtain ⟨t, ht, hb⟩ := quantise_range_units s a M' hT ha
  exact ⟨_, ht, sval_bounds s t 32767 hb⟩

/-- `weight_max < 2^29` units (below `2^-1045`): an error or a result, never undefined behaviour; the values are bounded by
`weight_max` in units (so below `2^29`), not by 32767 -/
theorem quantiseAll_small (bias : F64) (coefs : List F64) (hb : bias.Finite) (hc : ∀ c ∈ coefs, c.Finite)
    (M : Nat) (hwm : weightMax bias coefs = .fin false M) (hT : M < 2 ^ 29) :
    quantiseAll bias coefs = .err .invalidModel ∨
    ∃ b ws, quantiseAll bias coefs = .ok (b, ws) ∧ ws.length = coefs.length ∧
      (-(M : Int) ≤ b ∧ b ≤ M) ∧ ∀ w ∈ ws, -(M : Int) ≤ w ∧ w ≤ M := by
  obtain ⟨M', h1, h2, h3, _⟩ := members_bounded bias coefs hb hc
  have hMM : M' = M := by rw [hwm] at h1; injection h1 with _ h; exact h.symm
  subst hMM
  by_cases hk0 : roundUnits M' 32767 = 0
  · exact Or.inl (quantiseAll_err bias coefs M' hwm h2 hk0)
  · right
    apply quantiseAll_ok bias coefs M' (roundUnits M' 32767) (fun w => -(M' : Int) ≤ w ∧ w ≤ M') hwm h2 rfl hk0
    intro c hcm
    obtain ⟨s, a, rfl, ha⟩ := h3 c hcm
    obtain ⟨t, ht, hb⟩ := quantise_small_units s a (roundUnits M' 32767) (by omega) hk0
    exact ⟨_, ht, sval_bounds s t M' (by omega)⟩

/-- the results of the loop are the quotients of the inputs, in order -/
theorem quantiseList_mem (mult : F64) (cs : List F64) (ws : List Int) (h : quantiseList mult cs = .ok ws) :
    ∀ c ∈ cs, ∃ w ∈ ws, quantise c mult = .ok w := by
  induction cs generalizing ws with
  | nil => intro c hc; exact absurd hc List.not_mem_nil
  | cons c cs ih =>
    unfold quantiseList at h
    cases hq : quantise c mult with
    | ok w =>
      rw [hq, Res.bind_ok] at h
      cases hl : quantiseList mult cs with
      | ok ws' =>
        rw [hl] at h
        have hws : ws = w :: ws' := by
          have : Res.ok (w :: ws') = Res.ok ws := h
          injection this with this
          exact this.symm
        subst hws
        intro c' hc'
        rcases List.mem_cons.mp hc' with rfl | hc'
        · exact ⟨w, List.mem_cons_self, hq⟩
        · obtain ⟨w', hw', hq'⟩ := ih ws' hl c' hc'
          exact ⟨w', List.mem_cons_of_mem _ hw', hq'⟩
      | err e => rw [hl] at h; exact absurd h (by simp [Res.map])
      | panic p => rw [hl] at h; exact absurd h (by simp [Res.map])
      | ub p => rw [hl] at h; exact absurd h (by simp [Res.map])
    | err e => rw [hq] at h; exact absurd h (by simp)
    | panic p => rw [hq] at h; exact absurd h (by simp)
    | ub p => rw [hq] at h; exact absurd h (by simp)

/-! ## the tag trainer's variant: `weight_max` starts at `1e-6`, far above the threshold -/

set_option exponentiation.threshold 5000 in
theorem tagFloor_eq : f64TagFloor = .fin false ((2 ^ 52 + 0xC6F7A0B5ED8D) * 2 ^ 1002) := by decide +kernel
set_option exponentiation.threshold 5000 in
theorem tagFloor_ge : 2 ^ 29 ≤ (2 ^ 52 + 0xC6F7A0B5ED8D) * 2 ^ 1002 := by decide +kernel
set_option exponentiation.threshold 5000 in
theorem tagFloor_lt : (2 ^ 52 + 0xC6F7A0B5ED8D) * 2 ^ 1002 < top := by decide +kernel

theorem quantiseTag_total (coefs : List F64) (hc : ∀ c ∈ coefs, c.Finite) :
    ∃ ws, quantiseTagAll coefs = .ok ws ∧ ws.length = coefs.length ∧ ∀ w ∈ ws, InQ15 w := by
  unfold quantiseTagAll
  rw [tagFloor_eq]
  obtain ⟨M, h1, h2, h3, h4, _⟩ := foldMax_fin coefs _ tagFloor_lt hc
  rw [h1, quantMultiplier_fin false M h2]
  have hT : 2 ^ 29 - 2 ^ 15 < M := by have := Nat.le_trans tagFloor_ge h3; omega
  apply quantiseList_ok
  intro c hcm
  obtain ⟨s, a, rfl, _⟩ := finite_cases (hc c hcm)
  obtain ⟨t, ht, hb⟩ := quantise_range_units s a M hT (h4 _ hcm)
  exact ⟨_, ht, sval_bounds s t 32767 hb⟩

end V.QuantL
