import VModel.Trainer
import VModel.Spec
import VProofs.Lemmas.AsmOrder
import VProofs.Lemmas.TagAsmSizes
import VProofs.Lemmas.TagAsmTokens
import VProofs.Lemmas.PermBase
import VProofs.Lemmas.PermIns
/-!
# C12 helpers: hash-map iteration orders in `tag_trainer.rs` are not observable

* `train_tag`: `for (feature, fid) in feature_ids` (a `HashMap`) — the order of the trace items.  Two items with different
  `(token, feature, class slot)` commute in each of the three folds of `assembleTag`; all panics of one fold carry the same
  site string, so the outcomes are EQUAL.
* `TagTrainer::train`: `for (token, tags) in self.default_tags` (a `HashMap`) — the order of the dictionary-only tokens.
-/
namespace V.C12L
open V V.PermL V.C09L

/-! ## the order of the two `BTreeMap<(ngram, rel_position), _>` -/

theorem pair_st {β : Type} [DecidableEq β] {lt : β → β → Bool} (st : StrictTotal lt) (ltp : β × Nat → β × Nat → Bool)
    (h : ∀ a b, ltp a b = if lt a.1 b.1 then true else if a.1 = b.1 then decide (a.2 < b.2) else false) :
    StrictTotal ltp where
  irrefl := by
    intro a
    rw [h, st.irrefl]
    simp
  trans := by
    intro a b c hab hbc
    rw [h] at hab hbc ⊢
    by_cases h1 : lt a.1 b.1 = true
    · by_cases h2 : lt b.1 c.1 = true
      · rw [st.trans _ _ _ h1 h2]; rfl
      · rw [if_neg h2] at hbc
        by_cases h3 : b.1 = c.1
        · rw [← h3, h1]; rfl
        · rw [if_neg h3] at hbc; exact Bool.noConfusion hbc
    · rw [if_neg h1] at hab
      by_cases h3 : a.1 = b.1
      · rw [if_pos h3] at hab
        rw [h3]
        by_cases h2 : lt b.1 c.1 = true
        · rw [h2]; rfl
        · rw [if_neg h2] at hbc ⊢
          by_cases h4 : b.1 = c.1
          · rw [if_pos h4] at hbc ⊢
            simp only [decide_eq_true_eq] at hab hbc ⊢
            omega
          · rw [if_neg h4] at hbc; exact Bool.noConfusion hbc
      · rw [if_neg h3] at hab; exact Bool.noConfusion hab
  conn := by
    intro a b hne hab
    rw [h] at hab ⊢
    by_cases h1 : lt a.1 b.1 = true
    · rw [if_pos h1] at hab; exact Bool.noConfusion hab
    · rw [if_neg h1] at hab
      by_cases h3 : a.1 = b.1
      · rw [if_pos h3] at hab
        have hirr : lt b.1 a.1 = false := by rw [h3]; exact st.irrefl _
        rw [hirr, if_pos h3.symm]
        simp only [Bool.false_eq_true, if_false, decide_eq_true_eq, decide_eq_false_iff_not] at hab ⊢
        have : a.2 ≠ b.2 := by
          intro h2
          exact hne (Prod.ext h3 h2)
        omega
      · rw [st.conn a.1 b.1 h3 (by simpa using h1)]; rfl

theorem ltPairC_st : StrictTotal ltPairC := pair_st (lexLt_st ltChar_st) ltPairC (fun _ _ => rfl)
theorem ltPairT_st : StrictTotal ltPairT := pair_st (lexLt_st ltNat_st) ltPairT (fun _ _ => rfl)

/-! ## two `tagUpsert`s commute -/
section
variable {κ : Type} [DecidableEq κ]

/-- a reachable weight table of `train_tag` -/
def TagWF (lt : κ → κ → Bool) (n : Nat) (m : List (κ × List Int)) : Prop := KSorted lt m ∧ VecLen n m

def slotF (n slot : Nat) (w : Int) (o : Option (List Int)) : List Int := (o.getD (List.replicate n 0)).set slot w

theorem tagUpsert_eq {lt : κ → κ → Bool} {n : Nat} {m : List (κ × List Int)} (hm : VecLen n m) (k : κ) (slot : Nat) (w : Int) :
    tagUpsert lt n k slot w m =
      if slot < n then .ok (insK lt k (slotF n slot w) m) else .panic "weights[class_offset + cls]" :=
  tagUpsert_eq_insK lt n k slot w m hm

theorem insK_wf {lt : κ → κ → Bool} (st : StrictTotal lt) {n : Nat} {m : List (κ × List Int)} (hm : TagWF lt n m)
    (k : κ) (slot : Nat) (w : Int) : TagWF lt n (insK lt k (slotF n slot w) m) := by
  refine ⟨insK_sorted st k _ hm.1, ?_⟩
  refine insK_all lt k (slotF n slot w) (fun v : List Int => v.length = n) ?_ m hm.2
  intro o ho
  cases o with
  | none => simp [slotF]
  | some v => simpa [slotF] using ho v rfl

theorem tagUpsert_wf {lt : κ → κ → Bool} (st : StrictTotal lt) {n : Nat} {m m' : List (κ × List Int)} (hm : TagWF lt n m)
    (k : κ) (slot : Nat) (w : Int) (h : tagUpsert lt n k slot w m = .ok m') : TagWF lt n m' := by
  rw [tagUpsert_eq hm.2] at h
  by_cases hs : slot < n
  · rw [if_pos hs] at h; cases h
    exact insK_wf st hm k slot w
  · rw [if_neg hs] at h; cases h

/-- writes to different `(key, slot)` cells commute; the outcomes are equal (one site string) -/
theorem tagUpsert_comm {lt : κ → κ → Bool} (st : StrictTotal lt) {n : Nat} {m : List (κ × List Int)} (hm : TagWF lt n m)
    (k₁ k₂ : κ) (p q : Nat) (w₁ w₂ : Int) (hne : ¬ (k₁ = k₂ ∧ p = q)) :
    (tagUpsert lt n k₁ p w₁ m).bind (tagUpsert lt n k₂ q w₂) = (tagUpsert lt n k₂ q w₂ m).bind (tagUpsert lt n k₁ p w₁) := by
  have wf₁ := insK_wf st hm k₁ p w₁
  have wf₂ := insK_wf st hm k₂ q w₂
  rw [tagUpsert_eq hm.2, tagUpsert_eq hm.2]
  by_cases hp : p < n
  · by_cases hq : q < n
    · rw [if_pos hp, if_pos hq, Res.bind_ok, Res.bind_ok, tagUpsert_eq wf₁.2, tagUpsert_eq wf₂.2, if_pos hp, if_pos hq]
      refine congrArg Res.ok ?_
      by_cases hk : k₁ = k₂
      · subst hk
        have hpq : p ≠ q := fun h => hne ⟨rfl, h⟩
        refine insK_comm_same st k₁ _ _ ?_ hm.1
        intro o
        simp only [slotF, Option.getD_some]
        exact List.set_comm _ _ hpq
      · exact insK_comm st k₁ k₂ hk _ _ hm.1
    · rw [if_pos hp, if_neg hq, Res.bind_ok, Res.bind_panic, tagUpsert_eq wf₁.2, if_neg hq]
  · by_cases hq : q < n
    · rw [if_neg hp, if_pos hq, Res.bind_ok, Res.bind_panic, tagUpsert_eq wf₂.2, if_neg hp]
    · rw [if_neg hp, if_neg hq, Res.bind_panic, Res.bind_panic]

/-! ## the two n-gram folds, generically -/

/-- one step of the character (type) fold: `sel` picks the items of this table -/
def gstep (lt : κ → κ → Bool) (n : Nat) (sel : TagTraceItem → Option κ) (acc : Res (List (κ × List Int)))
    (t : TagTraceItem) : Res (List (κ × List Int)) :=
  match sel t with
  | none => acc
  | some k => if t.weight = 0 then acc else acc.bind (tagUpsert lt n k (t.offset + t.cls) t.weight)

/-- independence of two items for the table selected by `sel` -/
def Rg (sel : TagTraceItem → Option κ) (x y : TagTraceItem) : Prop :=
  ∀ k, sel x = some k → sel y = some k → x.offset + x.cls ≠ y.offset + y.cls

theorem gstep_comm {lt : κ → κ → Bool} (st : StrictTotal lt) (n : Nat) (sel : TagTraceItem → Option κ)
    (s : Res (List (κ × List Int))) (x y : TagTraceItem) (hs : ∀ m, s = .ok m → TagWF lt n m) (hxy : Rg sel x y) :
    gstep lt n sel (gstep lt n sel s x) y = gstep lt n sel (gstep lt n sel s y) x := by
  unfold gstep
  cases hx : sel x with
  | none => rfl
  | some k₁ =>
    cases hy : sel y with
    | none => rfl
    | some k₂ =>
      simp only
      by_cases wx : x.weight = 0
      · simp only [wx, if_true]
      · by_cases wy : y.weight = 0
        · simp only [wy, if_true]
        · simp only [wx, wy, if_false]
          cases s with
          | ok m =>
            simp only [Res.bind_ok]
            refine tagUpsert_comm st (hs m rfl) k₁ k₂ _ _ _ _ ?_
            rintro ⟨hk, hpq⟩
            subst hk
            exact hxy k₁ hx hy hpq
          | err _ => rfl
          | panic _ => rfl
          | ub _ => rfl

theorem gstep_inv {lt : κ → κ → Bool} (st : StrictTotal lt) (n : Nat) (sel : TagTraceItem → Option κ)
    (s : Res (List (κ × List Int))) (x : TagTraceItem) (hs : ∀ m, s = .ok m → TagWF lt n m) :
    ∀ m, gstep lt n sel s x = .ok m → TagWF lt n m := by
  intro m' h
  unfold gstep at h
  cases hx : sel x with
  | none => rw [hx] at h; exact hs m' h
  | some k =>
    rw [hx] at h
    simp only at h
    by_cases wx : x.weight = 0
    · rw [if_pos wx] at h; exact hs m' h
    · rw [if_neg wx] at h
      cases s with
      | ok m => exact tagUpsert_wf st (hs m rfl) k _ _ h
      | err _ => cases h
      | panic _ => cases h
      | ub _ => cases h

theorem gfold_perm {lt : κ → κ → Bool} (st : StrictTotal lt) (n : Nat) (sel : TagTraceItem → Option κ)
    {l₁ l₂ : List TagTraceItem} (p : l₁.Perm l₂) (hp : l₁.Pairwise (Rg sel)) :
    l₁.foldl (gstep lt n sel) (.ok []) = l₂.foldl (gstep lt n sel) (.ok []) := by
  refine foldl_perm_gen (gstep lt n sel) Eq (fun s => ∀ m, s = .ok m → TagWF lt n m) (Rg sel)
    (fun _ => rfl) (fun _ _ _ h₁ h₂ => h₁.trans h₂) ?_ (gstep_inv st n sel) ?_ (gstep_comm st n sel) p hp (.ok []) ?_
  · intro s s' x _ _ h; rw [h]
  · intro x y h k hy hx heq
    exact h k hx hy heq.symm
  · intro m h; cases h
    exact ⟨List.Pairwise.nil, by intro e he; cases he⟩

end

def selC (t : TagTraceItem) : Option (List Char × Nat) :=
  match t.feat with
  | some (.charNgram g rel) => some (g, rel)
  | _ => none

def selT (t : TagTraceItem) : Option (List Nat × Nat) :=
  match t.feat with
  | some (.typeNgram g rel) => some (g, rel)
  | _ => none

theorem charStep_eq (n : Nat) : charStep n = gstep ltPairC n selC := by
  funext acc t
  unfold charStep gstep selC
  cases acc <;> rcases t.feat with _ | (⟨g, rel⟩ | ⟨g, rel⟩) <;> simp only [Res.bind_ok] <;> split <;> rfl

theorem typeStep_eq (n : Nat) : typeStep n = gstep ltPairT n selT := by
  funext acc t
  unfold typeStep gstep selT
  cases acc <;> rcases t.feat with _ | (⟨g, rel⟩ | ⟨g, rel⟩) <;> simp only [Res.bind_ok] <;> split <;> rfl

/-! ## the bias fold -/

def Rb (x y : TagTraceItem) : Prop := x.feat = none → y.feat = none → x.offset + x.cls ≠ y.offset + y.cls

theorem biasStep_comm (n : Nat) (s : Res (List Int)) (hs : ∀ b, s = .ok b → b.length = n) (x y : TagTraceItem) (hxy : Rb x y) :
    biasStep (biasStep s x) y = biasStep (biasStep s y) x := by
  cases s with
  | ok b =>
    cases hx : x.feat with
    | some f =>
      have e : ∀ acc, biasStep acc x = acc := by
        intro acc; unfold biasStep; rw [hx]; cases acc <;> rfl
      rw [e, e]
    | none =>
      cases hy : y.feat with
      | some f =>
        have e : ∀ acc, biasStep acc y = acc := by
          intro acc; unfold biasStep; rw [hy]; cases acc <;> rfl
        rw [e, e]
      | none =>
        have hne := hxy hx hy
        have ex : ∀ b' : List Int, biasStep (.ok b') x =
            if x.offset + x.cls < b'.length then .ok (b'.set (x.offset + x.cls) x.weight) else .panic "bias[class_offset + cls]" := by
          intro b'; unfold biasStep; rw [hx]
        have ey : ∀ b' : List Int, biasStep (.ok b') y =
            if y.offset + y.cls < b'.length then .ok (b'.set (y.offset + y.cls) y.weight) else .panic "bias[class_offset + cls]" := by
          intro b'; unfold biasStep; rw [hy]
        have px : ∀ s, biasStep (.panic s) x = .panic s := by intro s; unfold biasStep; rw [hx]
        have py : ∀ s, biasStep (.panic s) y = .panic s := by intro s; unfold biasStep; rw [hy]
        rw [ex, ey]
        by_cases h₁ : x.offset + x.cls < b.length
        · by_cases h₂ : y.offset + y.cls < b.length
          · rw [if_pos h₁, if_pos h₂, ex, ey, List.length_set, List.length_set, if_pos h₁, if_pos h₂, List.set_comm _ _ hne]
          · rw [if_pos h₁, if_neg h₂, ey, px, List.length_set, if_neg h₂]
        · by_cases h₂ : y.offset + y.cls < b.length
          · rw [if_neg h₁, if_pos h₂, ex, py, List.length_set, if_neg h₁]
          · rw [if_neg h₁, if_neg h₂, px, py]
  | err e =>
    have e' : ∀ t, biasStep (.err e) t = .err e := by
      intro t; unfold biasStep; cases t.feat <;> rfl
    rw [e', e', e']
  | panic p =>
    have e' : ∀ t, biasStep (.panic p) t = .panic p := by
      intro t; unfold biasStep; cases t.feat <;> rfl
    rw [e', e', e']
  | ub p =>
    have e' : ∀ t, biasStep (.ub p) t = .ub p := by
      intro t; unfold biasStep; cases t.feat <;> rfl
    rw [e', e', e']

theorem biasFold_perm (n : Nat) {l₁ l₂ : List TagTraceItem} (p : l₁.Perm l₂) (hp : l₁.Pairwise Rb) :
    l₁.foldl biasStep (.ok (List.replicate n 0)) = l₂.foldl biasStep (.ok (List.replicate n 0)) := by
  refine foldl_perm_gen biasStep Eq (fun _ => True) Rb
    (fun _ => rfl) (fun _ _ _ h₁ h₂ => h₁.trans h₂) ?_ (fun _ _ _ => trivial) ?_ ?_ p hp _ trivial
  · intro s s' x _ _ h; rw [h]
  · intro x y h hy hx heq
    exact h hx hy heq.symm
  · intro s x y _ hxy
    -- the length of the bias vector plays no role: the bounds check reads the current vector
    cases s with
    | ok b => exact biasStep_comm b.length (.ok b) (by intro b' h; cases h; rfl) x y hxy
    | err e => exact biasStep_comm 0 (.err e) (by intro b' h; cases h) x y hxy
    | panic q => exact biasStep_comm 0 (.panic q) (by intro b' h; cases h) x y hxy
    | ub q => exact biasStep_comm 0 (.ub q) (by intro b' h; cases h) x y hxy

/-! ## `assembleTag` / `assembleTags` -/

/-- what an item writes to: its token, its feature (or the bias) and its class slot -/
def tagKey (t : TagTraceItem) : List Char × Option TagFeat × Nat := (t.token, t.feat, t.offset + t.cls)

theorem assembleTag_perm (token : List Char) (examples : List (List Tag)) {tr₁ tr₂ : List TagTraceItem}
    (p : tr₁.Perm tr₂) (hnd : (tr₁.map tagKey).Nodup) :
    assembleTag token examples tr₁ = assembleTag token examples tr₂ := by
  have pm : (tr₁.filter fun t => t.token = token).Perm (tr₂.filter fun t => t.token = token) := p.filter _
  have hpw : (tr₁.filter fun t => decide (t.token = token)).Pairwise fun x y => tagKey x ≠ tagKey y := by
    rw [List.nodup_iff_pairwise_ne, List.pairwise_map] at hnd
    exact hnd.sublist List.filter_sublist
  have hfs : ∀ {R : TagTraceItem → TagTraceItem → Prop},
      (∀ x y, x.token = y.token → tagKey x ≠ tagKey y → R x y) →
      (tr₁.filter fun t => decide (t.token = token)).Pairwise R := by
    intro R hR
    refine hpw.imp_of_mem ?_
    intro x y hx hy hne
    have tx : x.token = token := by simpa using (List.mem_filter.mp hx).2
    have ty : y.token = token := by simpa using (List.mem_filter.mp hy).2
    exact hR x y (tx.trans ty.symm) hne
  have hb : (tr₁.filter fun t => decide (t.token = token)).Pairwise Rb := by
    apply hfs
    intro x y ht hne hx hy heq
    exact hne (by unfold tagKey; rw [ht, hx, hy, heq])
  have hc : (tr₁.filter fun t => decide (t.token = token)).Pairwise (Rg selC) := by
    apply hfs
    intro x y ht hne k hx hy heq
    apply hne
    have fx : x.feat = some (.charNgram k.1 k.2) := by
      unfold selC at hx
      split at hx
      · cases hx; assumption
      · cases hx
    have fy : y.feat = some (.charNgram k.1 k.2) := by
      unfold selC at hy
      split at hy
      · cases hy; assumption
      · cases hy
    unfold tagKey; rw [ht, fx, fy, heq]
  have htp : (tr₁.filter fun t => decide (t.token = token)).Pairwise (Rg selT) := by
    apply hfs
    intro x y ht hne k hx hy heq
    apply hne
    have fx : x.feat = some (.typeNgram k.1 k.2) := by
      unfold selT at hx
      split at hx
      · cases hx; assumption
      · cases hx
    have fy : y.feat = some (.typeNgram k.1 k.2) := by
      unfold selT at hy
      split at hy
      · cases hy; assumption
      · cases hy
    unfold tagKey; rw [ht, fx, fy, heq]
  rw [assembleTag_eq, assembleTag_eq, biasFold_perm _ pm hb, charStep_eq, typeStep_eq,
    gfold_perm ltPairC_st _ selC pm hc, gfold_perm ltPairT_st _ selT pm htp]

theorem assembleTags_perm_trace (corpus : List TagExample) (dict : List (List Char × List Tag)) {tr₁ tr₂ : List TagTraceItem}
    (p : tr₁.Perm tr₂) (hnd : (tr₁.map tagKey).Nodup) :
    assembleTags corpus dict tr₁ = assembleTags corpus dict tr₂ := by
  rw [assembleTags_eq, assembleTags_eq]
  have : (fun (e : List Char × List (List Tag)) => assembleTag e.1 e.2 tr₁) = fun e => assembleTag e.1 e.2 tr₂ :=
    funext fun e => assembleTag_perm e.1 e.2 p hnd
  rw [this]

/-! ## the order of `default_tags` -/

theorem corpusFold_sorted : ∀ (l : List TagExample) (m : EMap), KSorted (lexLt ltChar) m →
    KSorted (lexLt ltChar) (l.foldl (fun acc e => exInsert e.surface e.tags acc) m)
  | [], _, h => h
  | e :: l, m, h => by
    rw [List.foldl_cons]
    apply corpusFold_sorted l
    rw [exInsert_eq_insK]
    exact insK_sorted (lexLt_st ltChar_st) _ _ h

theorem any_exInsert (k : List Char) (v : List Tag) (m : EMap) (k' : List Char) (hne : k' ≠ k) :
    ((exInsert k v m).any fun x => x.1 = k') = m.any fun x => x.1 = k' := by
  rw [Bool.eq_iff_iff, any_key, any_key, exInsert_keys]
  constructor
  · rintro (h | h)
    · exact absurd h hne
    · exact h
  · exact Or.inr

theorem dstep_comm (m : EMap) (hs : KSorted (lexLt ltChar) m) (d d' : List Char × List Tag) (hne : d.1 ≠ d'.1) :
    dstep (dstep m d) d' = dstep (dstep m d') d := by
  unfold dstep
  by_cases c : d.2.any Option.isSome = true
  · by_cases c' : d'.2.any Option.isSome = true
    · by_cases i : (m.any fun x => x.1 = d.1) = true
      · by_cases i' : (m.any fun x => x.1 = d'.1) = true
        · simp [c, c', i, i']
        · simp [c, c', i, i', any_exInsert d'.1 d'.2 m d.1 hne]
      · by_cases i' : (m.any fun x => x.1 = d'.1) = true
        · simp [c, c', i, i', any_exInsert d.1 d.2 m d'.1 (fun h => hne h.symm)]
        · simp only [c, c', i, i', any_exInsert d.1 d.2 m d'.1 (fun h => hne h.symm), any_exInsert d'.1 d'.2 m d.1 hne,
            Bool.not_false, Bool.and_self, if_true]
          rw [exInsert_eq_insK, exInsert_eq_insK, exInsert_eq_insK, exInsert_eq_insK]
          exact insK_comm (lexLt_st ltChar_st) d.1 d'.1 hne _ _ hs
    · have c'f : d'.2.any Option.isSome = false := by simpa using c'
      simp only [c'f, Bool.false_and, Bool.false_eq_true, if_false]
  · have cf : d.2.any Option.isSome = false := by simpa using c
    simp only [cf, Bool.false_and, Bool.false_eq_true, if_false]

theorem dstep_sorted (m : EMap) (hs : KSorted (lexLt ltChar) m) (d : List Char × List Tag) :
    KSorted (lexLt ltChar) (dstep m d) := by
  unfold dstep
  split
  · rw [exInsert_eq_insK]; exact insK_sorted (lexLt_st ltChar_st) _ _ hs
  · exact hs

theorem assembleTags_perm_dict (corpus : List TagExample) {d₁ d₂ : List (List Char × List Tag)} (trace : List TagTraceItem)
    (p : d₁.Perm d₂) (hnd : (d₁.map Prod.fst).Nodup) :
    assembleTags corpus d₁ trace = assembleTags corpus d₂ trace := by
  rw [assembleTags_eq, assembleTags_eq]
  have : d₁.foldl dstep (corpus.foldl (fun acc e => exInsert e.surface e.tags acc) []) =
      d₂.foldl dstep (corpus.foldl (fun acc e => exInsert e.surface e.tags acc) []) := by
    refine foldl_perm_gen dstep Eq (KSorted (lexLt ltChar)) (fun x y => x.1 ≠ y.1)
      (fun _ => rfl) (fun _ _ _ h₁ h₂ => h₁.trans h₂) ?_ (fun s x h => dstep_sorted s h x) (fun _ _ h => fun h' => h h'.symm)
      (fun s x y hs hxy => dstep_comm s hs x y hxy) p ?_ _ (corpusFold_sorted corpus [] List.Pairwise.nil)
    · intro s s' x _ _ h; rw [h]
    · rw [List.nodup_iff_pairwise_ne, List.pairwise_map] at hnd
      exact hnd
  rw [this]

end V.C12L
