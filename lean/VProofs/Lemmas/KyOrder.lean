import VProofs.Lemmas.KyTrie
/-!
# C17 — the order of `dump_items`

When every state lists its gotos in strictly ascending character order (what `sort_unstable` establishes on a trie),
the walk emits the words in strictly ascending lexicographic order — the order in which the harness's `expected`
lists them (`sortByKey`).
-/
namespace V.C17L
open V V.Ky

/-! ## `lexLt` is a strict total order -/

theorem ltChar_irrefl (a : Char) : ltChar a a = false := by simp [ltChar]

theorem lexLt_irrefl : ∀ (a : List Char), lexLt a a = false := by
  intro a
  induction a with
  | nil => rfl
  | cons c t ih => simp [lexLt, ltChar_irrefl, ih]

theorem lexLt_append_left (u : List Char) (a b : List Char) : lexLt (u ++ a) (u ++ b) = lexLt a b := by
  induction u with
  | nil => rfl
  | cons c t ih => simp [lexLt, ltChar_irrefl, ih]

theorem lexLt_asymm : ∀ {a b : List Char}, lexLt a b = true → lexLt b a = false := by
  intro a
  induction a with
  | nil => intro b _; cases b <;> rfl
  | cons c s ih =>
    intro b h
    cases b with
    | nil => simp [lexLt] at h
    | cons d t =>
      simp only [lexLt, ltChar, decide_eq_true_eq] at h ⊢
      by_cases h1 : c.toNat < d.toNat
      · have : ¬ d.toNat < c.toNat := by omega
        simp [this, h1]
      · by_cases h2 : d.toNat < c.toNat
        · simp [h1, h2] at h
        · simp only [h1, h2, if_false] at h ⊢
          exact ih h

theorem lexLt_trans : ∀ {a b c : List Char}, lexLt a b = true → lexLt b c = true → lexLt a c = true := by
  intro a
  induction a with
  | nil =>
    intro b c h1 h2
    cases b with
    | nil => simp [lexLt] at h1
    | cons d t =>
      cases c with
      | nil => simp [lexLt] at h2
      | cons e u => rfl
  | cons x s ih =>
    intro b c h1 h2
    cases b with
    | nil => simp [lexLt] at h1
    | cons d t =>
      cases c with
      | nil => simp [lexLt] at h2
      | cons e u =>
        simp only [lexLt, ltChar, decide_eq_true_eq] at h1 h2 ⊢
        by_cases hxd : x.toNat < d.toNat
        · by_cases hde : d.toNat < e.toNat
          · have : x.toNat < e.toNat := by omega
            simp [this]
          · by_cases hed : e.toNat < d.toNat
            · simp [hde, hed] at h2
            · have : x.toNat < e.toNat := by omega
              simp [this]
        · by_cases hdx : d.toNat < x.toNat
          · simp [hxd, hdx] at h1
          · simp only [hxd, hdx, if_false] at h1
            have hxd' : x.toNat = d.toNat := by omega
            by_cases hde : d.toNat < e.toNat
            · have : x.toNat < e.toNat := by omega
              simp [this]
            · by_cases hed : e.toNat < d.toNat
              · simp [hde, hed] at h2
              · simp only [hde, hed, if_false] at h2
                have h3 : ¬ x.toNat < e.toNat := by omega
                have h4 : ¬ e.toNat < x.toNat := by omega
                simp only [h3, h4, if_false]
                exact ih h1 h2

theorem lexLt_total : ∀ {a b : List Char}, lexLt a b = false → lexLt b a = false → a = b := by
  intro a
  induction a with
  | nil =>
    intro b h1 _
    cases b with
    | nil => rfl
    | cons d t => simp [lexLt] at h1
  | cons c s ih =>
    intro b h1 h2
    cases b with
    | nil => simp [lexLt] at h2
    | cons d t =>
      simp only [lexLt, ltChar, decide_eq_true_eq] at h1 h2
      by_cases hcd : c.toNat < d.toNat
      · simp [hcd] at h1
      · by_cases hdc : d.toNat < c.toNat
        · simp [hdc] at h2
        · simp only [hcd, hdc, if_false] at h1 h2
          have : c = d := Char.toNat_inj.1 (by omega)
          rw [this, ih h1 h2]

/-! ## the walk emits ascending words -/

/-- `a` precedes every word below `w` -/
def Below (a w : List Char) : Prop := ∀ ext, lexLt a (w ++ ext) = true
/-- every word below `w` precedes every word below `v` -/
def Sep (w v : List Char) : Prop := ∀ e1 e2, lexLt (w ++ e1) (v ++ e2) = true

theorem below_child {a w : List Char} (c : Char) (h : Below a w) : Below a (w ++ [c]) := by
  intro ext; rw [List.append_assoc]; exact h _

theorem below_self_child (w : List Char) (c : Char) : Below w (w ++ [c]) := by
  intro ext
  have := lexLt_append_left w [] (c :: ext)
  simp only [List.append_nil] at this
  rw [List.append_assoc, List.singleton_append, this]
  rfl

theorem sep_child {w v : List Char} (c : Char) (h : Sep w v) : Sep (w ++ [c]) v := by
  intro e1 e2; rw [List.append_assoc]; exact h _ _

theorem sep_below {w v : List Char} (h : Sep w v) : Below w v := by
  intro ext; have := h [] ext; simpa using this

theorem sep_siblings (w : List Char) {c d : Char} (h : c.toNat < d.toNat) : Sep (w ++ [c]) (w ++ [d]) := by
  intro e1 e2
  rw [List.append_assoc, List.append_assoc, lexLt_append_left]
  simp [lexLt, ltChar, h]

abbrev KeyLt {α : Type} (a b : List Char × α) : Prop := lexLt a.1 b.1 = true

variable {τ : Type}

theorem dump_sorted_aux (states : List KState) (entries : List τ)
    (hasc : ∀ (i : Nat) (st : KState), states[i]? = some st → CharAsc st.gotos) :
    ∀ (fuel : Nat) (stack : List (Nat × List Char)) (acc res : List (List Char × τ)),
    dumpItems states entries fuel stack acc = .ok res →
    acc.Pairwise KeyLt →
    (∀ a ∈ acc, ∀ p ∈ stack, Below a.1 p.2) →
    stack.Pairwise (fun p q => Sep p.2 q.2) →
    res.Pairwise KeyLt := by
  intro fuel
  induction fuel with
  | zero =>
    intro stack acc res h hacc _ _
    cases stack with
    | nil => simp [dumpItems] at h; subst h; exact hacc
    | cons p r => simp [dumpItems] at h
  | succ fuel ih =>
    intro stack acc res h hacc hbelow hsep
    cases stack with
    | nil => simp [dumpItems] at h; subst h; exact hacc
    | cons p rest =>
      obtain ⟨idx, word⟩ := p
      simp only [dumpItems] at h
      cases hst : states[idx]? with
      | none => simp [hst] at h
      | some st =>
        simp only [hst] at h
        simp only [List.pairwise_cons] at hsep
        -- the new stack keeps the separation
        have hsep' : (st.gotos.map (fun g => (g.2, word ++ [g.1])) ++ rest).Pairwise (fun p q => Sep p.2 q.2) := by
          refine List.pairwise_append.2 ⟨?_, hsep.2, ?_⟩
          · exact List.pairwise_map.2 ((hasc idx st hst).imp fun h => sep_siblings word h)
          · intro a ha b hb
            obtain ⟨g, _, rfl⟩ := List.mem_map.1 ha
            exact sep_child _ (hsep.1 b hb)
        have hstep : ∀ acc' : List (List Char × τ), (∀ a ∈ acc', a ∈ acc ∨ a.1 = word) →
            ∀ a ∈ acc', ∀ p ∈ st.gotos.map (fun g => (g.2, word ++ [g.1])) ++ rest, Below a.1 p.2 := by
          intro acc' hacc' a ha p hp
          rcases List.mem_append.1 hp with hp | hp
          · obtain ⟨g, _, rfl⟩ := List.mem_map.1 hp
            rcases hacc' a ha with h1 | h1
            · exact below_child _ (hbelow a h1 (idx, word) (by simp))
            · rw [h1]; exact below_self_child _ _
          · rcases hacc' a ha with h1 | h1
            · exact hbelow a h1 p (by simp [hp])
            · rw [h1]; exact sep_below (hsep.1 p hp)
        by_cases hb : st.isBranch = true
        · simp only [hb, if_true] at h
          cases ho : st.outputs with
          | nil => simp [ho] at h
          | cons o os =>
            simp only [ho] at h
            cases hen : entries[o]? with
            | none => simp [hen] at h
            | some e =>
              simp only [hen] at h
              refine ih _ _ _ h ?_ ?_ hsep'
              · refine List.pairwise_append.2 ⟨hacc, by simp, ?_⟩
                intro a ha b hb'
                simp only [List.mem_singleton] at hb'
                subst hb'
                have := hbelow a ha (idx, word) (by simp) []
                simpa [KeyLt] using this
              · apply hstep
                intro a ha
                rcases List.mem_append.1 ha with h1 | h1
                · exact Or.inl h1
                · simp only [List.mem_singleton] at h1; subst h1; exact Or.inr rfl
        · have hb' : st.isBranch = false := by simpa using hb
          simp only [hb', Bool.false_eq_true, if_false] at h
          exact ih _ _ _ h hacc (hstep acc fun a ha => Or.inl ha) hsep'

/-- on a table with ascending gotos the walk lists the words in strictly ascending order -/
theorem dump_sorted (states : List KState) (entries : List τ)
    (hasc : ∀ (i : Nat) (st : KState), states[i]? = some st → CharAsc st.gotos) (fuel : Nat)
    (res : List (List Char × τ)) (h : dumpItems states entries fuel [(0, [])] [] = .ok res) : res.Pairwise KeyLt :=
  dump_sorted_aux states entries hasc fuel _ _ _ h List.Pairwise.nil (by simp) (by simp)

/-! ## strictly ascending lists are determined by their members -/

theorem sorted_unique {α : Type} : ∀ (l1 l2 : List (List Char × α)), l1.Pairwise KeyLt → l2.Pairwise KeyLt →
    (∀ x, x ∈ l1 ↔ x ∈ l2) → l1 = l2 := by
  intro l1
  induction l1 with
  | nil =>
    intro l2 _ _ hm
    cases l2 with
    | nil => rfl
    | cons b t => have := (hm b).2 (by simp); simp at this
  | cons a t1 ih =>
    intro l2 h1 h2 hm
    cases l2 with
    | nil => have := (hm a).1 (by simp); simp at this
    | cons b t2 =>
      simp only [List.pairwise_cons] at h1 h2
      have hab : a = b := by
        rcases List.mem_cons.1 ((hm a).1 (by simp)) with h | h
        · exact h
        · rcases List.mem_cons.1 ((hm b).2 (by simp)) with h' | h'
          · exact h'.symm
          · have e1 : lexLt b.1 a.1 = true := h2.1 a h
            have e2 : lexLt a.1 b.1 = true := h1.1 b h'
            rw [lexLt_asymm e1] at e2; cases e2
      subst hab
      congr 1
      apply ih t2 h1.2 h2.2
      intro x
      constructor
      · intro hx
        rcases List.mem_cons.1 ((hm x).1 (by simp [hx])) with h | h
        · subst h
          have := h1.1 x hx
          simp only [KeyLt, lexLt_irrefl] at this; cases this
        · exact h
      · intro hx
        rcases List.mem_cons.1 ((hm x).2 (by simp [hx])) with h | h
        · subst h
          have := h2.1 x hx
          simp only [KeyLt, lexLt_irrefl] at this; cases this
        · exact h

/-! ## `sortByKey` -/

section
variable {α : Type}

theorem mem_insertByKey {x g : List Char × α} : ∀ {l : List (List Char × α)}, g ∈ insertByKey x l ↔ g = x ∨ g ∈ l := by
  intro l
  induction l with
  | nil => simp [insertByKey]
  | cons y r ih =>
    simp only [insertByKey]
    by_cases h : lexLt x.1 y.1 = true
    · simp [h]
    · rw [if_neg h]
      simp only [List.mem_cons, ih]
      constructor
      · rintro (h1 | h1 | h1)
        · exact Or.inr (Or.inl h1)
        · exact Or.inl h1
        · exact Or.inr (Or.inr h1)
      · rintro (h1 | h1 | h1)
        · exact Or.inr (Or.inl h1)
        · exact Or.inl h1
        · exact Or.inr (Or.inr h1)

theorem mem_sortByKey {g : List Char × α} : ∀ {l : List (List Char × α)}, g ∈ sortByKey l ↔ g ∈ l := by
  intro l
  induction l with
  | nil => simp [sortByKey]
  | cons y r ih => simp only [sortByKey, mem_insertByKey, ih, List.mem_cons]

theorem insertByKey_sorted {x : List Char × α} : ∀ {l : List (List Char × α)}, l.Pairwise KeyLt →
    (∀ y ∈ l, x.1 ≠ y.1) → (insertByKey x l).Pairwise KeyLt := by
  intro l
  induction l with
  | nil => intro _ _; simp [insertByKey]
  | cons y r ih =>
    intro hl hx
    have hxy := hx y (by simp)
    simp only [List.pairwise_cons] at hl
    simp only [insertByKey]
    by_cases h : lexLt x.1 y.1 = true
    · rw [if_pos h]
      simp only [List.pairwise_cons]
      refine ⟨?_, hl⟩
      intro z hz
      rcases List.mem_cons.1 hz with rfl | hz
      · exact h
      · exact lexLt_trans h (hl.1 z hz)
    · rw [if_neg h]
      simp only [List.pairwise_cons]
      have hlt : lexLt y.1 x.1 = true := by
        cases h2 : lexLt y.1 x.1 with
        | true => rfl
        | false => exact absurd (lexLt_total (by simpa using h) h2) hxy
      refine ⟨?_, ih hl.2 (fun z hz => hx z (by simp [hz]))⟩
      intro z hz
      rcases mem_insertByKey.1 hz with rfl | hz
      · exact hlt
      · exact hl.1 z hz

theorem sortByKey_sorted : ∀ {l : List (List Char × α)}, (l.map (·.1)).Nodup → (sortByKey l).Pairwise KeyLt := by
  intro l
  induction l with
  | nil => intro _; simp [sortByKey]
  | cons y r ih =>
    intro h
    simp only [List.map_cons, List.nodup_cons] at h
    simp only [sortByKey]
    refine insertByKey_sorted (ih h.2) ?_
    intro z hz heq
    apply h.1
    rw [heq]
    exact List.mem_map.2 ⟨z, mem_sortByKey.1 hz, rfl⟩

/-- a strictly ascending list with the members of `l` is `sortByKey l` -/
theorem eq_sortByKey {l res : List (List Char × α)} (hnd : (l.map (·.1)).Nodup) (hs : res.Pairwise KeyLt)
    (hm : ∀ x, x ∈ res ↔ x ∈ l) : res = sortByKey l :=
  sorted_unique _ _ hs (sortByKey_sorted hnd) fun x => (hm x).trans mem_sortByKey.symm

theorem insertByKey_map {β : Type} (g : List Char × α → β) (x : List Char × α) : ∀ (l : List (List Char × α)),
    insertByKey (x.1, g x) (l.map fun y => (y.1, g y)) = (insertByKey x l).map fun y => (y.1, g y) := by
  intro l
  induction l with
  | nil => rfl
  | cons y r ih =>
    simp only [List.map_cons, insertByKey]
    by_cases h : lexLt x.1 y.1 = true
    · simp [h]
    · rw [if_neg h, if_neg h, List.map_cons, ih]

theorem sortByKey_map {β : Type} (g : List Char × α → β) : ∀ (l : List (List Char × α)),
    sortByKey (l.map fun y => (y.1, g y)) = (sortByKey l).map fun y => (y.1, g y) := by
  intro l
  induction l with
  | nil => rfl
  | cons y r ih => simp only [List.map_cons, sortByKey, ih, insertByKey_map]

end

end V.C17L
