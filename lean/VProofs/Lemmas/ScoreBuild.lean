import VProofs.Lemmas.ScorePma
/-!
# A scorer built from summed and merged entries adds, at every end position, the weights of all entries whose key
is a suffix of the text read so far (for C01) — generic in the weight type (`PW` or `PWT`)
-/
namespace V.C01L
variable {α : Type} [DecidableEq α] {W : Type}

/-- value at relative position `x` of the boundary part `g w` of a weight -/
def evg (g : W → Option PW) (x : Int) (w : W) : Int :=
  match g w with
  | some pw => pw.denote x
  | none => 0

def Pg (g : W → Option PW) (k : List α) (w : W) : Prop := ∀ pw, g w = some pw → Pinv k pw

/-- `add` acts on the boundary part like `PositionalWeightWithTag::add_assign` -/
def AddOK (add : W → W → W) (g : W → Option PW) : Prop :=
  ∀ a b, g (add a b) = match g a, g b with
    | some y, some x => some (y.add x)
    | some y, none => some y
    | none, w => w

theorem evg_add (add : W → W → W) (g : W → Option PW) (hg : AddOK add g) (x : Int) (a b : W) :
    evg g x (add a b) = evg g x a + evg g x b := by
  unfold evg
  rw [hg a b]
  cases g a <;> cases g b <;> simp [PW_add_denote]

omit [DecidableEq α] in
theorem Pg_add (add : W → W → W) (g : W → Option PW) (hg : AddOK add g) (k q : List α) (a b : W)
    (hlen : q.length ≤ k.length) (ha : Pg g k a) (hb : Pg g q b) : Pg g k (add a b) := by
  intro pw hpw
  rw [hg a b] at hpw
  cases hga : g a with
  | none =>
    rw [hga] at hpw
    simp only at hpw
    obtain ⟨h1, h2⟩ := hb pw hpw
    exact ⟨h1, fun h8 => by have := h2 h8; omega⟩
  | some y =>
    rw [hga] at hpw
    cases hgb : g b with
    | none =>
      rw [hgb] at hpw
      simp only [Option.some.injEq] at hpw
      subst hpw
      exact ha y hga
    | some z =>
      rw [hgb] at hpw
      simp only [Option.some.injEq] at hpw
      subst hpw
      exact Pinv_add k q y z hlen (ha y hga) (hb z hgb)

theorem pmaBuildOk_spec (pats : List (List α)) (h : pmaBuildOk pats = true) : [] ∉ pats ∧ pats.Nodup := by
  unfold pmaBuildOk at h
  simp only [Bool.and_eq_true, decide_eq_true_eq, List.all_eq_true, Bool.not_eq_true'] at h
  refine ⟨fun hmem => ?_, h.2⟩
  have := h.1.2 [] hmem
  simp at this

/-- regrouping the summed entries by key -/
theorem addAll_regroup (add : W → W → W) (d : W) (ev : W → Int) (es : List (List α × W))
    (hnd : ((addAll add es []).map Prod.fst).Nodup)
    (hkeys : ∀ k, k ∈ (addAll add es []).map Prod.fst ↔ k ∈ es.map Prod.fst)
    (hsum : ∀ k ∈ es.map Prod.fst,
      ev (Merge.lookupD d (addAll add es []) k) = ((es.filter (fun e => e.1 = k)).map (fun e => ev e.2)).sum)
    (Q : List α → Bool) :
    (((addAll add es []).filter fun e => Q e.1).map fun e => ev e.2).sum
      = ((es.filter fun e => Q e.1).map fun e => ev e.2).sum := by
  let h : List α → Int := fun k => ((es.filter (fun e => decide (e.1 = k))).map (fun e => ev e.2)).sum
  have h1 : (((addAll add es []).filter fun e => Q e.1).map fun e => ev e.2).sum
      = ((((addAll add es []).map Prod.fst).filter Q).map h).sum := by
    rw [List.filter_map, List.map_map]
    apply isum_map_congr
    intro e he
    have hmem : e ∈ addAll add es [] := (List.mem_filter.mp he).1
    have hk : e.1 ∈ es.map Prod.fst := (hkeys e.1).mp (List.mem_map.mpr ⟨e, hmem, rfl⟩)
    show ev e.2 = h e.1
    rw [← lookupD_mem d _ hnd e hmem, hsum e.1 hk]
  rw [h1, isum_group es Prod.fst (fun e => ev e.2) _ (hnd.sublist List.filter_sublist)]
  apply isum_filter_congr
  intro e he
  have hk : e.1 ∈ (addAll add es []).map Prod.fst := (hkeys e.1).mpr (List.mem_map.mpr ⟨e, he, rfl⟩)
  by_cases hq : Q e.1 = true
  · simp [List.mem_filter, hk, hq]
  · simp [List.mem_filter, hq]

theorem scorer_correct (cfg : Cfg) (add : W → W → W) (d : W) (g : W → Option PW) (hg : AddOK add g)
    (es : List (List α × W)) (hes : ∀ e ∈ es, Pg g e.1 e.2) (sc : PmaScorer α)
    (hpats : sc.pats = (Merge.mergeEntries add d (addAll add es [])).map Prod.fst)
    (hweights : sc.weights = (Merge.mergeEntries add d (addAll add es [])).map
      (fun e => (g e.2).map (PW.toPWV cfg)))
    (hok : pmaBuildOk sc.pats = true)
    (seq : List α) (buf : List Int) (hbuf : buf.length = seq.length + 13) (states : List (Option Nat)) :
    ∃ r st, pmaAddScores sc seq buf states = .ok (r, st) ∧ r.length = buf.length ∧
      ∀ j, j < buf.length → r.getD j 0 = buf.getD j 0 +
        ((List.range seq.length).map fun (k : Nat) =>
          ((es.filter fun e => e.1.isSuffixOf (seq.take (k + 1))).map fun e =>
            evg g ((j : Int) - ((k : Int) + 7)) e.2).sum).sum := by
  -- the summed entries
  have hPsame : ∀ (k : List α) (a b : W), Pg g k a → Pg g k b → Pg g k (add a b) :=
    fun k a b ha hb => Pg_add add g hg k k a b (Nat.le_refl _) ha hb
  obtain ⟨hnd, hkeys, hP', _⟩ := addAll_correct add d (evg g 0) (Pg g) hPsame
    (fun _ a b _ _ => evg_add add g hg 0 a b) es hes
  have hsum : ∀ x : Int, ∀ k ∈ es.map Prod.fst,
      evg g x (Merge.lookupD d (addAll add es []) k)
        = ((es.filter (fun e => e.1 = k)).map (fun e => evg g x e.2)).sum := fun x =>
    (addAll_correct add d (evg g x) (Pg g) hPsame (fun _ a b _ _ => evg_add add g hg x a b) es hes).2.2.2
  -- the merged entries
  have hMk := Merge.mergeEntries_keys add d (addAll add es [])
  have hpk : sc.pats = (addAll add es []).map Prod.fst := by rw [hpats, hMk]
  obtain ⟨hne, hpnd⟩ := pmaBuildOk_spec sc.pats hok
  have hmerge : ∀ x : Int, ∀ k ∈ (addAll add es []).map Prod.fst,
      Pg g k (Merge.lookupD d (Merge.mergeEntries add d (addAll add es [])) k) ∧
      evg g x (Merge.lookupD d (Merge.mergeEntries add d (addAll add es [])) k)
        = (((addAll add es []).filter (fun e => e.1.isSuffixOf k)).map (fun e => evg g x e.2)).sum := fun x =>
    Merge.mergeEntries_correct add d (evg g x) (Pg g)
      (fun k q a b hs ha hb => Pg_add add g hg k q a b (List.isSuffixOf_iff_suffix.mp hs).length_le ha hb)
      (fun _ _ a b _ _ _ => evg_add add g hg x a b) (addAll add es []) hnd (by rw [← hpk]; exact hne) hP'
  generalize hM : Merge.mergeEntries add d (addAll add es []) = M at hpats hweights hMk hmerge
  let optw : List (Option PW) := M.map fun e => g e.2
  have hw : sc.weights = optw.map (Option.map (PW.toPWV cfg)) := by
    rw [hweights, List.map_map]; rfl
  have hMnd : (M.map Prod.fst).Nodup := by rw [hMk]; exact hnd
  -- every match is an entry of `M`
  have hmatch : ∀ (pre : List α) (id : Nat), longestMatch sc.pats pre = some id →
      ∃ mw, M[id]? = some mw ∧ optw[id]? = some (g mw.2) ∧ mw.1.isSuffixOf pre = true ∧
        Merge.lookupD d M mw.1 = mw.2 ∧ mw.1 ∈ (addAll add es []).map Prod.fst ∧
        ∀ q ∈ sc.pats, q.isSuffixOf pre = q.isSuffixOf mw.1 := by
    intro pre id hlm
    obtain ⟨p, hp, hps, hall⟩ := longestMatch_some sc.pats pre id hlm
    rw [hpats, List.getElem?_map] at hp
    cases hMi : M[id]? with
    | none => rw [hMi] at hp; cases hp
    | some mw =>
      rw [hMi] at hp
      simp only [Option.map_some, Option.some.injEq] at hp
      subst hp
      refine ⟨mw, rfl, ?_, hps, lookupD_getElem d M hMnd id mw.1 mw.2 hMi, ?_, hall⟩
      · show (M.map fun e => g e.2)[id]? = _
        rw [List.getElem?_map, hMi]; rfl
      · rw [← hMk]; exact List.mem_map.mpr ⟨mw, List.mem_of_getElem? hMi, rfl⟩
  -- run the pass
  have hms : ∀ m ∈ matchesNoSuffix sc.pats seq, 1 ≤ m.1 ∧ m.1 ≤ seq.length ∧ ∃ ow, optw[m.2]? = some ow ∧
      ∀ pw, ow = some pw → pw.offset ≤ -1 ∧ (pw.weight.length ≤ 8 → 0 ≤ (m.1 : Int) + 6 + pw.offset) := by
    intro m hm
    unfold matchesNoSuffix at hm
    obtain ⟨k, hk, hkm⟩ := List.mem_filterMap.mp hm
    have hkn : k < seq.length := List.mem_range.mp hk
    cases hlm : longestMatch sc.pats (seq.take (k + 1)) with
    | none => rw [hlm] at hkm; cases hkm
    | some id =>
      rw [hlm] at hkm
      simp only [Option.map_some, Option.some.injEq] at hkm
      subst hkm
      obtain ⟨mw, _, hoi, hsuf, hlk, hmem, _⟩ := hmatch _ id hlm
      refine ⟨by simp, by simp; omega, g mw.2, hoi, ?_⟩
      intro pw hpw
      have hP := (hmerge 0 mw.1 hmem).1
      rw [hlk] at hP
      obtain ⟨h1, h2⟩ := hP pw hpw
      have hle := suffix_take_length mw.1 seq (k + 1) hsuf
      refine ⟨h1, fun h8 => ?_⟩
      have := h2 h8
      simp only
      omega
  obtain ⟨r, st', hgo, hlen, hval⟩ := go_spec cfg sc optw hw seq.length (matchesNoSuffix sc.pats seq) hms buf hbuf
    (if sc.tagWeight.isSome then List.replicate seq.length none else states)
    (fun h => by rw [if_pos h, List.length_replicate])
  refine ⟨r, st', hgo, hlen, fun j hj => ?_⟩
  rw [hval j hj]
  congr 1
  unfold matchesNoSuffix
  rw [isum_filterMap]
  apply isum_map_congr
  intro k hk
  have hkn : k < seq.length := List.mem_range.mp hk
  cases hlm : longestMatch sc.pats (seq.take (k + 1)) with
  | none =>
    simp only [Option.map_none]
    symm
    have hnone := longestMatch_none sc.pats _ hlm
    have : (es.filter fun e => e.1.isSuffixOf (seq.take (k + 1))) = [] := by
      apply List.filter_eq_nil_iff.mpr
      intro e he
      have : e.1 ∈ sc.pats := by
        rw [hpk]; exact (hkeys e.1).mpr (List.mem_map.mpr ⟨e, he, rfl⟩)
      rw [hnone e.1 this]; simp
    rw [this]; rfl
  | some id =>
    simp only [Option.map_some]
    obtain ⟨mw, _, hoi, hsuf, hlk, hmem, hall⟩ := hmatch _ id hlm
    have hx : (j : Int) - (((k + 1 : Nat) : Int) + 6) = (j : Int) - ((k : Int) + 7) := by omega
    have hc : contrib optw j (k + 1, id) = evg g ((j : Int) - ((k : Int) + 7)) mw.2 := by
      unfold contrib evg
      simp only [List.getD_eq_getElem?_getD, hoi, Option.getD_some, hx]
      cases g mw.2 <;> rfl
    rw [hc, ← hlk, (hmerge _ mw.1 hmem).2]
    rw [isum_filter_congr (addAll add es []) (fun e => e.1.isSuffixOf mw.1)
      (fun e => e.1.isSuffixOf (seq.take (k + 1))) _
      (fun e he => (hall e.1 (by rw [hpk]; exact List.mem_map.mpr ⟨e, he, rfl⟩)).symm)]
    exact addAll_regroup add d _ es hnd hkeys (hsum _) (fun q => q.isSuffixOf (seq.take (k + 1)))

end V.C01L
