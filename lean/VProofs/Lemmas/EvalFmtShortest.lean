import VProofs.Lemmas.EvalFmtIff
import VProofs.Lemmas.EvalFmtShape
/-!
# No shorter digit string reads back: the search of `f64ShortestDec` stops at the first possible length
-/
namespace V.FmtL
open V V.F64 V.QuantL

/-! ## `roundDec`: scale and monotonicity -/

theorem roundDec_mul10 (m : Nat) (p : Int) : roundDec (m * 10) p = roundDec m (p + 1) := by
  have h := roundDec_div10 (m * 10) p (by omega)
  rw [Nat.mul_div_cancel _ (by decide)] at h
  exact h.symm

theorem roundDec_mul_pow (m j : Nat) (p : Int) : roundDec (m * 10 ^ j) p = roundDec m (p + (j : Int)) := by
  induction j generalizing p with
  | zero => simp
  | succ j ih =>
    rw [Nat.pow_succ, ← Nat.mul_assoc, roundDec_mul10, ih]
    congr 1
    omega

theorem roundDec_mono (m₁ m₂ : Nat) (p : Int) (h : m₁ ≤ m₂) : roundDec m₁ p ≤ roundDec m₂ p :=
  roundUnits_mono _ _ _ (decDen_pos p) (Nat.mul_le_mul_right _ (Nat.mul_le_mul_right _ h))

/-! ## the two candidates around the double at the scale `10^p` -/

/-- `⌊x / 10^p⌋` for `x = a` units -/
def cand (a : Nat) (p : Int) : Nat := a * 10 ^ (-p).toNat / (unit * 10 ^ p.toNat)

theorem cand_bounds (a : Nat) (p : Int) :
    decNum (cand a p) p ≤ decDen p * a ∧ decDen p * a < decNum (cand a p + 1) p := by
  unfold decNum decDen cand
  generalize unit_def : unit = U
  have hU : 0 < U := by rw [← unit_def]; exact two_pow_pos 1074
  have hden : 0 < U * 10 ^ p.toNat := Nat.mul_pos hU (Nat.pow_pos (by decide))
  have e1 : ∀ f, f * 10 ^ p.toNat * U = (U * 10 ^ p.toNat) * f := fun f => by ac_rfl
  rw [e1, e1, Nat.mul_comm (10 ^ (-p).toNat) a]
  generalize a * 10 ^ (-p).toNat = num
  generalize U * 10 ^ p.toNat = den at hden
  have h1 := Nat.div_add_mod num den
  have h2 := Nat.mod_lt num hden
  rw [Nat.mul_add, Nat.mul_one]
  generalize den * (num / den) = X at h1 ⊢
  omega

theorem round_x (a : Nat) (p : Int) (hrep : repUnits a = true) : roundUnits (decDen p * a) (decDen p) = a :=
  roundUnits_exact a _ (decDen_pos p) (repU_of_repUnits hrep)

/-- if ANY multiple of `10^p` reads back as `a`, then one of the two neighbours of `a` among these multiples does -/
theorem step_found (a : Nat) (p : Int) (M : Nat) (hrep : repUnits a = true) (h : roundDec M p = a) :
    roundDec (cand a p) p = a ∨ roundDec (cand a p + 1) p = a := by
  obtain ⟨b1, b2⟩ := cand_bounds a p
  have hx := round_x a p hrep
  have l1 : roundDec (cand a p) p ≤ roundUnits (decDen p * a) (decDen p) := roundUnits_mono _ _ _ (decDen_pos p) b1
  have l2 : roundUnits (decDen p * a) (decDen p) ≤ roundDec (cand a p + 1) p :=
    roundUnits_mono _ _ _ (decDen_pos p) (Nat.le_of_lt b2)
  rw [hx] at l1 l2
  by_cases hM : M ≤ cand a p
  · left
    have := roundDec_mono M _ p hM
    omega
  · right
    have := roundDec_mono (cand a p + 1) M p (by omega)
    omega

theorem step_found_interval (a : Nat) (p : Int) (M : Nat) (ha : 0 < a) (hrep : repUnits a = true) (h : roundDec M p = a) :
    decInInterval a (cand a p) p = true ∨ decInInterval a (cand a p + 1) p = true := by
  rcases step_found a p M hrep h with h1 | h1
  · exact Or.inl (interval_of_round a _ _ (decDen_pos p) ha h1)
  · exact Or.inr (interval_of_round a _ _ (decDen_pos p) ha h1)

/-! ## the search stops at the first length that has a candidate in the interval -/

theorem search_first (a : Nat) (e : Int) (fuel k0 j : Nat) (hj : k0 ≤ j) (hjf : j < k0 + fuel)
    (hin : decInInterval a (cand a (e - (j : Int))) (e - (j : Int)) = true ∨
      decInInterval a (cand a (e - (j : Int)) + 1) (e - (j : Int)) = true) :
    ∃ (m k : Nat), shortestSearch a e fuel k0 = some (m, e - (k : Int)) ∧ k0 ≤ k ∧ k ≤ j ∧ m ≤ cand a (e - (k : Int)) + 1 := by
  induction fuel generalizing k0 with
  | zero => omega
  | succ f ih =>
    unfold shortestSearch
    simp only []
    split
    · refine ⟨_, k0, rfl, Nat.le_refl _, hj, ?_⟩
      unfold cand
      split <;> omega
    · split
      · exact ⟨_, k0, rfl, Nat.le_refl _, hj, by unfold cand; omega⟩
      · split
        · exact ⟨_, k0, rfl, Nat.le_refl _, hj, by unfold cand; omega⟩
        · rename_i h1 h2 h3
          have hne : j ≠ k0 := by
            rintro rfl
            unfold cand at hin
            rcases hin with h | h
            · exact h2 h
            · exact h3 h
          obtain ⟨m, k, q1, q2, q3, q4⟩ := ih (k0 + 1) (by omega) (by omega)
          exact ⟨m, k, q1, by omega, q3, q4⟩

/-! ## counting digits -/

theorem strip_le (fuel m : Nat) (p : Int) : (stripZeros fuel m p).1 ≤ m := by
  induction fuel generalizing m p with
  | zero => exact Nat.le_refl _
  | succ f ih =>
    unfold stripZeros
    split
    · exact Nat.le_trans (ih _ _) (Nat.div_le_self _ _)
    · exact Nat.le_refl _

theorem digits_len_le (m k : Nat) (h0 : 0 < m) (h10 : m % 10 ≠ 0) (hk : 1 ≤ k) (hle : m ≤ 10 ^ k) :
    (decDigits m).length ≤ k := by
  have h3 := (decDigits_facts m).2.2 h0
  have hlt : m < 10 ^ k := by
    apply Nat.lt_of_le_of_ne hle
    intro he
    obtain ⟨k', rfl⟩ : ∃ k', k = k' + 1 := ⟨k - 1, by omega⟩
    rw [he, Nat.pow_succ] at h10
    omega
  apply Nat.le_of_not_lt
  intro hgt
  have : 10 ^ k ≤ 10 ^ ((decDigits m).length - 1) := Nat.pow_le_pow_right (by decide) (by omega)
  omega

/-- the upper bound on the decimal exponent gives `⌊x/10^(e−k)⌋ < 10^k` -/
theorem cand_lt (a : Nat) (e : Int) (k : Nat) (hup : a * 10 ^ (-e).toNat < 10 ^ e.toNat * unit) :
    cand a (e - (k : Int)) < 10 ^ k := by
  unfold cand
  generalize unit_def : unit = U at hup ⊢
  have hU : 0 < U := by rw [← unit_def]; exact two_pow_pos 1074
  apply (Nat.div_lt_iff_lt_mul (Nat.mul_pos hU (Nat.pow_pos (by decide)))).mpr
  by_cases hp : 0 ≤ e - (k : Int)
  · have e1 : (-(e - (k : Int))).toNat = 0 := by omega
    have e2 : e.toNat = k + (e - (k : Int)).toNat := by omega
    have e3 : (-e).toNat = 0 := by omega
    rw [e3, e2, Nat.pow_add] at hup
    rw [e1]
    rw [← Nat.mul_assoc, Nat.mul_right_comm]
    exact hup
  · by_cases he : 0 ≤ e
    · have e1 : (e - (k : Int)).toNat = 0 := by omega
      have e2 : k = (-(e - (k : Int))).toNat + e.toNat := by omega
      have e3 : (-e).toNat = 0 := by omega
      rw [e3, Nat.pow_zero, Nat.mul_one] at hup
      rw [e1, Nat.pow_zero, Nat.mul_one]
      generalize (-(e - (k : Int))).toNat = j at e2
      subst e2
      rw [Nat.pow_add, Nat.mul_assoc, Nat.mul_comm a]
      exact Nat.mul_lt_mul_of_pos_left hup (Nat.pow_pos (by decide))
    · have e1 : (e - (k : Int)).toNat = 0 := by omega
      have e2 : (-(e - (k : Int))).toNat = (-e).toNat + k := by omega
      have e3 : e.toNat = 0 := by omega
      rw [e3, Nat.pow_zero, Nat.one_mul] at hup
      rw [e1, e2, Nat.pow_zero, Nat.mul_one, Nat.pow_add, ← Nat.mul_assoc, Nat.mul_comm (10 ^ k) U]
      exact Nat.mul_lt_mul_of_pos_right hup (Nat.pow_pos (by decide))

theorem search_some (a : Nat) (e : Int) (fuel k0 m : Nat) (p : Int) (h : shortestSearch a e fuel k0 = some (m, p)) :
    ∃ k : Nat, p = e - (k : Int) ∧ k0 ≤ k ∧ k < k0 + fuel ∧ m ≤ cand a (e - (k : Int)) + 1 := by
  induction fuel generalizing k0 with
  | zero => simp [shortestSearch] at h
  | succ f ih =>
    unfold shortestSearch at h
    simp only [] at h
    split at h
    · simp only [Option.some.injEq, Prod.mk.injEq] at h
      refine ⟨k0, h.2.symm, Nat.le_refl _, by omega, ?_⟩
      rw [← h.1]
      unfold cand
      split <;> omega
    · split at h
      · simp only [Option.some.injEq, Prod.mk.injEq] at h
        exact ⟨k0, h.2.symm, Nat.le_refl _, by omega, by rw [← h.1]; unfold cand; omega⟩
      · split at h
        · simp only [Option.some.injEq, Prod.mk.injEq] at h
          exact ⟨k0, h.2.symm, Nat.le_refl _, by omega, by rw [← h.1]; unfold cand; omega⟩
        · obtain ⟨k, q1, q2, q3, q4⟩ := ih (k0 + 1) h
          exact ⟨k, q1, by omega, by omega, q4⟩

theorem foldl_digits_lt (ds : List Nat) (h : ∀ d ∈ ds, d < 10) (acc : Nat) :
    ds.foldl (fun acc d => acc * 10 + d) acc < (acc + 1) * 10 ^ ds.length := by
  induction ds generalizing acc with
  | nil => simp
  | cons d t ih =>
    rw [List.foldl_cons, List.length_cons, Nat.pow_succ]
    have h1 := ih (fun x hx => h x (List.mem_cons_of_mem _ hx)) (acc * 10 + d)
    have hd := h d List.mem_cons_self
    have h2 : (acc * 10 + d + 1) * 10 ^ t.length ≤ (acc + 1) * 10 * 10 ^ t.length :=
      Nat.mul_le_mul_right _ (by omega)
    have e : (acc + 1) * (10 ^ t.length * 10) = (acc + 1) * 10 * 10 ^ t.length := by ac_rfl
    rw [e]
    omega

theorem ofDigits_lt (ds : List Nat) (h : ∀ d ∈ ds, d < 10) : ofDigits ds < 10 ^ ds.length := by
  have := foldl_digits_lt ds h 0
  simpa [ofDigits] using this

/-- the hypotheses under which the minimality is proved here: the search ends within its 20 rounds, and `decExponent` is the
decimal exponent, `10^(e−1) ≤ x < 10^e` (the latter is proved for every `a > 0` in `EvalFmtExponent.lean`) -/
def f64ShortestSearchOk (a : Nat) : Bool :=
  (shortestSearch a (decExponent a) 20 1).isSome &&
    decide (decNum 1 (decExponent a - 1) ≤ decDen (decExponent a - 1) * a) &&
    decide (a * 10 ^ (-decExponent a).toNat < 10 ^ (decExponent a).toNat * unit)

/-- every decimal `m' × 10^p'` with `m' < 10^k'` (at most `k'` digits) that reads back as `a` has at least as many digits as
the printed one -/
theorem shortest_min (a : Nat) (ha : 0 < a) (hrep : repUnits a = true) (hok : f64ShortestSearchOk a = true)
    (m' : Nat) (p' : Int) (k' : Nat) (hk' : 1 ≤ k') (hm' : m' < 10 ^ k') (hr : roundDec m' p' = a) :
    (f64ShortestDigits a).1.length ≤ k' := by
  unfold f64ShortestSearchOk at hok
  simp only [Bool.and_eq_true, decide_eq_true_eq] at hok
  obtain ⟨⟨hfound, hlo⟩, hup⟩ := hok
  generalize he : decExponent a = e at hfound hlo hup
  -- a multiple of `10^(e−j)` that reads back, for some `1 ≤ j ≤ k'`
  have hj : ∃ j : Nat, 1 ≤ j ∧ j ≤ k' ∧ ∃ M, roundDec M (e - (j : Int)) = a := by
    by_cases hp : e - (k' : Int) ≤ p'
    · refine ⟨k', hk', Nat.le_refl _, m' * 10 ^ (p' - (e - (k' : Int))).toNat, ?_⟩
      have e0 : e - (k' : Int) + ((p' - (e - (k' : Int))).toNat : Int) = p' := by omega
      rw [roundDec_mul_pow, e0]
      exact hr
    · refine ⟨1, Nat.le_refl _, hk', 1, ?_⟩
      have e1 : roundDec (1 * 10 ^ (e - 1 - p').toNat) p' = roundDec 1 (e - ((1 : Nat) : Int)) := by
        have e0 : p' + ((e - 1 - p').toNat : Int) = e - ((1 : Nat) : Int) := by omega
        rw [roundDec_mul_pow, e0]
      have hle : m' ≤ 1 * 10 ^ (e - 1 - p').toNat := by
        rw [Nat.one_mul]
        have : 10 ^ k' ≤ 10 ^ (e - 1 - p').toNat := Nat.pow_le_pow_right (by decide) (by omega)
        omega
      have h1 := roundDec_mono _ _ p' hle
      rw [hr, e1] at h1
      have h2 : roundDec 1 (e - 1) ≤ roundUnits (decDen (e - 1) * a) (decDen (e - 1)) :=
        roundUnits_mono _ _ _ (decDen_pos _) hlo
      rw [round_x a _ hrep] at h2
      have e2 : e - ((1 : Nat) : Int) = e - 1 := by omega
      rw [e2] at h1 ⊢
      omega
  obtain ⟨j, hj1, hjk, M, hM⟩ := hj
  have hin := step_found_interval a _ M ha hrep hM
  -- the search stops at some `k ≤ k'`
  have hs : ∃ (m k : Nat), shortestSearch a e 20 1 = some (m, e - (k : Int)) ∧ 1 ≤ k ∧ k ≤ k' ∧
      m ≤ cand a (e - (k : Int)) + 1 := by
    by_cases h20 : j ≤ 20
    · obtain ⟨m, k, q1, q2, q3, q4⟩ := search_first a e 20 1 j hj1 (by omega) hin
      exact ⟨m, k, q1, q2, by omega, q4⟩
    · cases hsr : shortestSearch a e 20 1 with
      | none => rw [hsr] at hfound; simp at hfound
      | some r =>
        obtain ⟨m, p⟩ := r
        obtain ⟨k, q1, q2, q3, q4⟩ := search_some a e 20 1 m p hsr
        exact ⟨m, k, by rw [q1], q2, by omega, q4⟩
  obtain ⟨m, k, q1, q2, q3, q4⟩ := hs
  have hc := cand_lt a e k hup
  obtain ⟨hm0, hm10⟩ := shortestDec_mant a ha hrep
  have hle : (f64ShortestDec a).1 ≤ m := by
    unfold f64ShortestDec
    simp only []
    rw [he, q1]
    simp only [Option.getD_some]
    exact strip_le _ _ _
  have : (decDigits (f64ShortestDec a).1).length ≤ k :=
    digits_len_le _ k (Nat.pos_of_ne_zero hm0) hm10 q2 (by omega)
  show (decDigits (f64ShortestDec a).1).length ≤ k'
  omega

/-- no digit string with fewer digits reads back as `a` -/
theorem display_shortest_partial (a : Nat) (ha : 0 < a) (hat : a < top) (hrep : repUnits a = true)
    (hok : f64ShortestSearchOk a = true) (ds' : List Nat) (e' : Int)
    (hlen : ds'.length < (f64ShortestDigits a).1.length) (hdig : ∀ d ∈ ds', d < 10) (hne : ds' ≠ []) :
    decimalToF64 ds' e' ≠ .fin false a := by
  intro h
  unfold decimalToF64 at h
  rw [pack_eq_fin _ _ hat] at h
  have hl : 1 ≤ ds'.length := List.length_pos_iff.mpr hne
  have := shortest_min a ha hrep hok _ _ ds'.length hl (ofDigits_lt ds' hdig) h
  omega

end V.FmtL
