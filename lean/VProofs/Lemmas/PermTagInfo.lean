import VModel.Scorer
import VProofs.Lemmas.TagInfo
import VProofs.Lemmas.TagFill
import VProofs.Lemmas.PermBase
/-!
# C06 helpers (hash order 1): `PositionalWeightWithTag::tag_info` is a `HashMap`

`PWT.equiv`: two values with the same boundary weight whose `tagInfo` lists are permutations of each other, with distinct keys
(the same finite map, iterated in two orders).  `PWT.add` (`add_assign`, which iterates the OTHER map), the weight merger and
`addAll` respect it; `insertTagWeights` / `fillTagWeights` (the loop `for ((token_id, rel_position), weight) in weight.tag_info`
of `…BoundaryTag::new`) give the SAME table on equivalent inputs (up to the site of a panic).
-/
namespace V

/-- the same `PositionalWeightWithTag`, its hash map listed in two orders -/
def PWT.equiv (a b : PWT) : Prop :=
  a.weight = b.weight ∧ a.tagInfo.Perm b.tagInfo ∧ (a.tagInfo.map Prod.fst).Nodup

end V

namespace V.C06L
open V V.PermL

/-- element-wise relation of two lists -/
inductive ListRel {β γ : Type} (R : β → γ → Prop) : List β → List γ → Prop
  | nil : ListRel R [] []
  | cons {a : β} {b : γ} {l : List β} {l' : List γ} : R a b → ListRel R l l' → ListRel R (a :: l) (b :: l')

theorem ListRel.map_eq {β γ δ : Type} {R : β → γ → Prop} (f : β → δ) (g : γ → δ) (h : ∀ a b, R a b → f a = g b) :
    ∀ {l : List β} {l' : List γ}, ListRel R l l' → l.map f = l'.map g
  | _, _, .nil => rfl
  | _, _, .cons hab hr => by rw [List.map_cons, List.map_cons, h _ _ hab, ListRel.map_eq f g h hr]

theorem ListRel.imp {β γ : Type} {R S : β → γ → Prop} (h : ∀ a b, R a b → S a b) :
    ∀ {l : List β} {l' : List γ}, ListRel R l l' → ListRel S l l'
  | _, _, .nil => .nil
  | _, _, .cons hab hr => .cons (h _ _ hab) (ListRel.imp h hr)

theorem ListRel.refl_of {β : Type} {R : β → β → Prop} : ∀ (l : List β), (∀ a ∈ l, R a a) → ListRel R l l
  | [], _ => .nil
  | a :: l, h => .cons (h a List.mem_cons_self) (ListRel.refl_of l fun x hx => h x (List.mem_cons_of_mem _ hx))

theorem ListRel.map_right {β γ : Type} {R : β → γ → Prop} (g : γ → γ) (h : ∀ a b, R a b → R a (g b)) :
    ∀ {l : List β} {l' : List γ}, ListRel R l l' → ListRel R l (l'.map g)
  | _, _, .nil => .nil
  | _, _, .cons hab hr => .cons (h _ _ hab) (ListRel.map_right g h hr)

/-! ## `PWT.equiv` is a partial equivalence -/

theorem tlookup_eq_lookupK (k : Nat × Nat) (l : TI) : tlookup k l = lookupK l k := by
  induction l with
  | nil => rfl
  | cons e r ih =>
    obtain ⟨k', v⟩ := e
    rw [lookupK_cons]
    simp only [tlookup, ih]

theorem equiv_refl (a : PWT) (h : (a.tagInfo.map Prod.fst).Nodup) : a.equiv a := ⟨rfl, List.Perm.refl _, h⟩

theorem equiv_nodup_right {a b : PWT} (h : a.equiv b) : (b.tagInfo.map Prod.fst).Nodup :=
  (h.2.1.map Prod.fst).nodup_iff.mp h.2.2

theorem equiv_symm {a b : PWT} (h : a.equiv b) : b.equiv a := ⟨h.1.symm, h.2.1.symm, equiv_nodup_right h⟩

theorem equiv_trans {a b c : PWT} (h : a.equiv b) (h' : b.equiv c) : a.equiv c :=
  ⟨h.1.trans h'.1, h.2.1.trans h'.2.1, h.2.2⟩

theorem equiv_empty : PWT.empty.equiv PWT.empty := ⟨rfl, List.Perm.refl _, List.nodup_nil⟩

/-! ## `PWT.add` respects it -/

/-- `entry(k).and_modify(zip-add).or_insert(v)` on the stored value -/
def comb (la lb : Option (List Int)) : Option (List Int) :=
  match la, lb with
  | some w, some v => some (zipAdd w v)
  | la, none => la
  | none, some v => some v

theorem tagInfoAdd_nodup (l : TI) (k : Nat × Nat) (v : List Int) (h : (l.map Prod.fst).Nodup) :
    ((tagInfoAdd l k v).map Prod.fst).Nodup := by
  rw [tagInfoAdd_keys]
  split
  · exact h
  · rename_i hm
    rw [List.nodup_append]
    refine ⟨h, by simp, ?_⟩
    intro a ha b hb
    simp only [List.mem_singleton] at hb
    subst hb
    intro e; subst e; exact hm ha

theorem fold_nodup (b : TI) : ∀ (a : TI), (a.map Prod.fst).Nodup →
    ((b.foldl (fun acc kv => tagInfoAdd acc kv.1 kv.2) a).map Prod.fst).Nodup := by
  induction b with
  | nil => intro a h; exact h
  | cons e b ih => intro a h; exact ih _ (tagInfoAdd_nodup a e.1 e.2 h)

/-- the map that `add_assign` leaves in `self`, key by key -/
theorem fold_lookup (b : TI) : ∀ (a : TI), (b.map Prod.fst).Nodup → ∀ k,
    lookupK (b.foldl (fun acc kv => tagInfoAdd acc kv.1 kv.2) a) k = comb (lookupK a k) (lookupK b k) := by
  induction b with
  | nil =>
    intro a _ k
    simp only [List.foldl_nil, lookupK_nil, comb]
  | cons e b ih =>
    obtain ⟨k', v⟩ := e
    intro a hnd k
    rw [List.map_cons, List.nodup_cons] at hnd
    rw [List.foldl_cons, ih _ hnd.2, ← tlookup_eq_lookupK, tlookup_add, tlookup_eq_lookupK, lookupK_cons]
    by_cases hk : k' = k
    · subst hk
      have hb : lookupK b k' = none := by
        rw [lookupK_eq_none]
        intro e he heq
        exact hnd.1 (List.mem_map.mpr ⟨e, he, heq⟩)
      simp only [if_true, hb]
      cases lookupK a k' <;> rfl
    · simp only [hk, if_false]

theorem add_equiv {a a' b b' : PWT} (ha : a.equiv a') (hb : b.equiv b') : (a.add b).equiv (a'.add b') := by
  refine ⟨?_, ?_, ?_⟩
  · show (match a.weight, b.weight with
        | some y, some x => some (y.add x) | some y, none => some y | none, w => w) =
      (match a'.weight, b'.weight with
        | some y, some x => some (y.add x) | some y, none => some y | none, w => w)
    rw [ha.1, hb.1]
  · rw [PWT_add_tagInfo, PWT_add_tagInfo]
    refine perm_of_lookupK_eq (fold_nodup _ _ ha.2.2) (fold_nodup _ _ (equiv_nodup_right ha)) ?_
    intro k
    rw [fold_lookup _ _ hb.2.2, fold_lookup _ _ (equiv_nodup_right hb), lookupK_perm ha.2.1 ha.2.2,
      lookupK_perm hb.2.1 hb.2.2]
  · rw [PWT_add_tagInfo]
    exact fold_nodup _ _ ha.2.2

/-! ## the weight merger respects a relation that `add` respects -/
section
variable {α : Type} [DecidableEq α] {W : Type}

/-- entries with the same key and related weights -/
def ERel (Rw : W → W → Prop) (e e' : List α × W) : Prop := e.1 = e'.1 ∧ Rw e.2 e'.2

def StR (Rw : W → W → Prop) (st st' : Merge.St α W) : Prop := (∀ k, Rw (st.w k) (st'.w k)) ∧ st.done = st'.done

theorem chainAux_congr (keys : List (List α)) (st st' : Merge.St α W) (h : st.done = st'.done) :
    ∀ l, Merge.chainAux keys st l = Merge.chainAux keys st' l
  | [] => rfl
  | s :: rest => by
    simp only [Merge.chainAux, h, chainAux_congr keys st st' h rest]

variable (Rw : W → W → Prop) (add add' : W → W → W)
  (hadd : ∀ a a' b b', Rw a a' → Rw b b' → Rw (add a b) (add' a' b'))
include hadd

theorem go_rel : ∀ (l : List (List α)) (st st' : Merge.St α W) (f : List α), StR Rw st st' →
    StR Rw (Merge.go add st f l) (Merge.go add' st' f l)
  | [], _, _, _, h => h
  | t :: rest, st, st', f, h => by
    simp only [Merge.go]
    apply go_rel rest
    refine ⟨?_, ?_⟩
    · intro k
      simp only [Merge.upd]
      by_cases hk : k = t
      · rw [if_pos hk, if_pos hk]
        exact hadd _ _ _ _ (h.1 t) (h.1 f)
      · rw [if_neg hk, if_neg hk]
        exact h.1 k
    · simp only [h.2]

theorem backprop_rel (l : List (List α)) (st st' : Merge.St α W) (h : StR Rw st st') :
    StR Rw (Merge.backprop add st l) (Merge.backprop add' st' l) := by
  cases l with
  | nil => exact h
  | cons f rest =>
    simp only [Merge.backprop]
    apply go_rel Rw add add' hadd
    exact ⟨h.1, by simp only [h.2]⟩

theorem step_rel (keys : List (List α)) (st st' : Merge.St α W) (k : List α) (h : StR Rw st st') :
    StR Rw (Merge.step add keys st k) (Merge.step add' keys st' k) := by
  unfold Merge.step
  rw [h.2]
  by_cases hd : st'.done k = true
  · rw [if_pos hd, if_pos hd]; exact h
  · rw [if_neg hd, if_neg hd]
    have : Merge.chain keys st k = Merge.chain keys st' k := by
      unfold Merge.chain
      rw [chainAux_congr keys st st' h.2]
    rw [this]
    exact backprop_rel Rw add add' hadd _ st st' h

theorem foldl_step_rel (keys : List (List α)) : ∀ (l : List (List α)) (st st' : Merge.St α W), StR Rw st st' →
    StR Rw (l.foldl (Merge.step add keys) st) (l.foldl (Merge.step add' keys) st')
  | [], _, _, h => h
  | k :: l, st, st', h => foldl_step_rel keys l _ _ (step_rel Rw add add' hadd keys st st' k h)

omit hadd in
theorem lookupD_rel (d d' : W) (hd : Rw d d') : ∀ {es es' : List (List α × W)}, ListRel (ERel Rw) es es' →
    ∀ k, Rw (Merge.lookupD d es k) (Merge.lookupD d' es' k)
  | _, _, .nil, _ => hd
  | _, _, .cons (a := e) (b := e') hab hr, k => by
    obtain ⟨k₁, w₁⟩ := e
    obtain ⟨k₂, w₂⟩ := e'
    obtain ⟨hk, hw⟩ := hab
    simp only at hk hw
    subst hk
    simp only [Merge.lookupD]
    by_cases h : k₁ = k
    · rw [if_pos h, if_pos h]; exact hw
    · rw [if_neg h, if_neg h]; exact lookupD_rel d d' hd hr k

/-- **the merger respects the relation**: same keys in the same order, related merged weights -/
theorem mergeEntries_rel (d d' : W) (hd : Rw d d') {es es' : List (List α × W)} (h : ListRel (ERel Rw) es es') :
    ListRel (ERel Rw) (Merge.mergeEntries add d es) (Merge.mergeEntries add' d' es') := by
  have hkeys : es.map Prod.fst = es'.map Prod.fst := ListRel.map_eq _ _ (fun _ _ hab => hab.1) h
  unfold Merge.mergeEntries
  simp only
  rw [← hkeys]
  have hst : StR Rw (Merge.merge add (es.map Prod.fst) (Merge.lookupD d es))
      (Merge.merge add' (es.map Prod.fst) (Merge.lookupD d' es')) := by
    unfold Merge.merge
    apply foldl_step_rel Rw add add' hadd
    exact ⟨lookupD_rel Rw d d' hd h, rfl⟩
  generalize Merge.merge add (es.map Prod.fst) (Merge.lookupD d es) = st at hst
  generalize Merge.merge add' (es.map Prod.fst) (Merge.lookupD d' es') = st' at hst
  generalize es.map Prod.fst = keys
  induction keys with
  | nil => exact .nil
  | cons k keys ih => exact .cons ⟨rfl, hst.1 k⟩ ih

theorem addEntry_rel (k : List α) {w w' : W} (hw : Rw w w') : ∀ {acc acc' : List (List α × W)},
    ListRel (ERel Rw) acc acc' → ListRel (ERel Rw) (Merge.addEntry add acc k w) (Merge.addEntry add' acc' k w')
  | _, _, .nil => .cons ⟨rfl, hw⟩ .nil
  | _, _, .cons (a := e) (b := e') hab hr => by
    obtain ⟨k₁, w₁⟩ := e
    obtain ⟨k₂, w₂⟩ := e'
    obtain ⟨hk, hw₁⟩ := hab
    simp only at hk hw₁
    subst hk
    simp only [Merge.addEntry]
    by_cases h : k₁ = k
    · rw [if_pos h, if_pos h]
      exact .cons ⟨rfl, hadd _ _ _ _ hw₁ hw⟩ hr
    · rw [if_neg h, if_neg h]
      exact .cons ⟨rfl, hw₁⟩ (addEntry_rel k hw hr)

theorem addAll_rel : ∀ {es es' : List (List α × W)}, ListRel (ERel Rw) es es' →
    ∀ {init init' : List (List α × W)}, ListRel (ERel Rw) init init' →
    ListRel (ERel Rw) (addAll add es init) (addAll add' es' init')
  | _, _, .nil, _, _, hi => hi
  | _, _, .cons (a := e) (b := e') hab hr, _, _, hi => by
    unfold addAll
    rw [List.foldl_cons, List.foldl_cons, ← hab.1]
    exact addAll_rel hr (addEntry_rel Rw add add' hadd e.1 hab.2 hi)

end

/-! ## filling the table: `for ((token_id, rel_position), weight) in weight.tag_info` -/

theorem tw_ext (tw tw' : TW) (hl : tw.length = tw'.length) (hr : ∀ t, rowLen tw t = rowLen tw' t)
    (hc : ∀ t r, cell tw t r = cell tw' t r) : tw = tw' := by
  apply List.ext_getElem hl
  intro t h₁ h₂
  have hr' := hr t
  unfold rowLen at hr'
  rw [List.getElem?_eq_getElem h₁, List.getElem?_eq_getElem h₂] at hr'
  simp only [Option.getD_some] at hr'
  apply List.ext_getElem hr'
  intro r g₁ g₂
  have hc' := hc t r
  unfold cell at hc'
  rw [List.getElem?_eq_getElem h₁, List.getElem?_eq_getElem h₂] at hc'
  simp only [Option.getD_some] at hc'
  rw [List.getElem?_eq_getElem g₁, List.getElem?_eq_getElem g₂] at hc'
  simpa using hc'

theorem insert_ok_or_panic (cfg : Cfg) (id : Nat) : ∀ (info : TI) (tw : TW),
    (∃ tw', insertTagWeights cfg id info tw = .ok tw') ∨ ∃ s, insertTagWeights cfg id info tw = .panic s
  | [], tw => Or.inl ⟨tw, rfl⟩
  | ((tid, rel), w) :: rest, tw => by
    rw [insertTagWeights]
    split
    · exact Or.inr ⟨_, rfl⟩
    · split
      · exact Or.inr ⟨_, rfl⟩
      · exact insert_ok_or_panic cfg id rest _

theorem insert_ok_iff (cfg : Cfg) (id : Nat) : ∀ (info : TI) (tw : TW),
    (∃ tw', insertTagWeights cfg id info tw = .ok tw') ↔ ∀ kv ∈ info, kv.1.1 < tw.length ∧ kv.1.2 < rowLen tw kv.1.1
  | [], tw => by
    constructor
    · intro _ kv hkv; cases hkv
    · intro _; exact ⟨tw, rfl⟩
  | ((tid, rel), w) :: rest, tw => by
    rw [insertTagWeights]
    split
    · rename_i h1
      constructor
      · rintro ⟨_, h⟩; cases h
      · intro h
        have := (h ((tid, rel), w) List.mem_cons_self).1
        simp only at this
        rw [List.getElem?_eq_getElem this] at h1
        cases h1
    · rename_i row h1
      have hlt : tid < tw.length := by
        rcases Nat.lt_or_ge tid tw.length with h | h
        · exact h
        · rw [List.getElem?_eq_none h] at h1; cases h1
      have hrow : rowLen tw tid = row.length := by
        unfold rowLen; rw [h1]; rfl
      split
      · rename_i h2
        constructor
        · rintro ⟨_, h⟩; cases h
        · intro h
          have := (h ((tid, rel), w) List.mem_cons_self).2
          simp only at this
          rw [hrow] at this
          rw [List.getElem?_eq_getElem this] at h2
          cases h2
      · rename_i m h2
        have hlr : rel < row.length := by
          rcases Nat.lt_or_ge rel row.length with h | h
          · exact h
          · rw [List.getElem?_eq_none h] at h2; cases h2
        rw [insert_ok_iff cfg id rest]
        constructor
        · intro h kv hkv
          rcases List.mem_cons.mp hkv with e | e
          · subst e
            exact ⟨hlt, by rw [hrow]; exact hlr⟩
          · have := h kv e
            rw [List.length_set, rowLen_set tw tid rel row _ h1] at this
            exact this
        · intro h kv hkv
          have := h kv (List.mem_cons_of_mem _ hkv)
          rw [List.length_set, rowLen_set tw tid rel row _ h1]
          exact this

theorem chunkOf_perm (cfg : Cfg) (t r : Nat) {info info' : TI} (p : info.Perm info') (hnd : (info.map Prod.fst).Nodup)
    (id : Nat) : chunkOf cfg t r info id = chunkOf cfg t r info' id := by
  unfold chunkOf
  rw [filter_key info hnd, filter_key info' ((p.map Prod.fst).nodup_iff.mp hnd), tlookup_eq_lookupK, tlookup_eq_lookupK,
    lookupK_perm p hnd]

/-- one pattern: its `tag_info` map iterated in two orders fills the table identically -/
theorem insert_perm (cfg : Cfg) (id : Nat) {info info' : TI} (p : info.Perm info') (hnd : (info.map Prod.fst).Nodup)
    (tw : TW) : ResSim (insertTagWeights cfg id info tw) (insertTagWeights cfg id info' tw) := by
  by_cases hok : ∀ kv ∈ info, kv.1.1 < tw.length ∧ kv.1.2 < rowLen tw kv.1.1
  · obtain ⟨tw₁, h₁⟩ := (insert_ok_iff cfg id info tw).mpr hok
    obtain ⟨tw₂, h₂⟩ := (insert_ok_iff cfg id info' tw).mpr (fun kv hkv => hok kv (p.symm.subset hkv))
    obtain ⟨a₁, a₂, a₃⟩ := insert_spec cfg id info tw tw₁ h₁
    obtain ⟨b₁, b₂, b₃⟩ := insert_spec cfg id info' tw tw₂ h₂
    rw [h₁, h₂]
    refine Or.inl (congrArg Res.ok (tw_ext tw₁ tw₂ (a₁.trans b₁.symm) (fun t => (a₂ t).trans (b₂ t).symm) ?_))
    intro t r
    rw [a₃, b₃, chunkOf_perm cfg t r p hnd]
  · have n₁ : ¬ ∃ tw', insertTagWeights cfg id info tw = .ok tw' := fun h => hok ((insert_ok_iff cfg id info tw).mp h)
    have n₂ : ¬ ∃ tw', insertTagWeights cfg id info' tw = .ok tw' := by
      intro h
      exact hok (fun kv hkv => (insert_ok_iff cfg id info' tw).mp h kv (p.subset hkv))
    rcases insert_ok_or_panic cfg id info tw with h | ⟨s₁, h₁⟩
    · exact absurd h n₁
    · rcases insert_ok_or_panic cfg id info' tw with h | ⟨s₂, h₂⟩
      · exact absurd h n₂
      · rw [h₁, h₂]; exact ResSim.panic _ _

section
variable {α : Type}

theorem fill_cons_bind (cfg : Cfg) (e : List α × PWT) (r : List (List α × PWT)) (id : Nat) (tw : TW) :
    fillTagWeights cfg (e :: r) id tw
      = (insertTagWeights cfg id e.2.tagInfo tw).bind fun tw' => fillTagWeights cfg r (id + 1) tw' := by
  rw [fillTagWeights]
  cases insertTagWeights cfg id e.2.tagInfo tw <;> rfl

/-- **the table does not depend on the orders of the `tag_info` maps** -/
theorem fill_perm (cfg : Cfg) : ∀ {es es' : List (List α × PWT)}, ListRel (ERel PWT.equiv) es es' →
    ∀ (id : Nat) (tw : TW), ResSim (fillTagWeights cfg es id tw) (fillTagWeights cfg es' id tw)
  | _, _, .nil, _, _ => ResSim.refl _
  | _, _, .cons (a := e) (b := e') hab hr, id, tw => by
    rw [fill_cons_bind, fill_cons_bind]
    have h := insert_perm cfg id hab.2.2.1 hab.2.2.2 tw
    rcases h with h | ⟨s₁, s₂, h₁, h₂⟩
    · rw [← h]
      cases insertTagWeights cfg id e.2.tagInfo tw with
      | ok tw' => exact fill_perm cfg hr (id + 1) tw'
      | err _ => exact ResSim.refl _
      | panic _ => exact ResSim.refl _
      | ub _ => exact ResSim.refl _
    · rw [h₁, h₂]; exact ResSim.panic _ _

end

end V.C06L
