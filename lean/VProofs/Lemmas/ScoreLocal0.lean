import VProofs.Lemmas.ScoreLocal
/-!
# Locality of the pointwise linear model for windows that may be 0 (C01)

With the n-grams of every switched-off kind removed (`V.dropW0 m` in `C01.lean`, spelled out here) the list of a kind whose
window is 0 is empty, so the shape requirements of `specScore_local` hold vacuously for that kind.
-/
namespace V.C01Loc

/-- `specScore_local` for the model without the n-grams of switched-off kinds; the shape requirements on the n-grams of a kind
apply only when that kind's window is at least 1 -/
theorem specScore_local0 (m : WModel)
    (hcs : 1 ≤ m.charW → ∀ d ∈ m.charNgrams, 1 ≤ d.ngram.length ∧ d.ngram.length ≤ 2 * m.charW ∧
      d.weights.length = 2 * m.charW - d.ngram.length + 1)
    (hts : 1 ≤ m.typeW → ∀ d ∈ m.typeNgrams, 1 ≤ d.ngram.length ∧ d.ngram.length ≤ 2 * m.typeW ∧
      d.weights.length = 2 * m.typeW - d.ngram.length + 1)
    (hds : ∀ d ∈ m.dict, 1 ≤ d.word.length ∧ d.weights.length = d.word.length + 1)
    (R : Nat) (hc : m.charW ≤ R) (ht : m.typeW ≤ R) (hd : ∀ d ∈ m.dict, d.word.length ≤ R)
    (pre mid post : List Char) (k : Nat) (hk1 : R ≤ k + 1) (hk2 : k + 1 + R ≤ mid.length) :
    specScore { m with charNgrams := if m.charW = 0 then [] else m.charNgrams,
                       typeNgrams := if m.typeW = 0 then [] else m.typeNgrams } (pre ++ mid ++ post) (pre.length + k)
      = specScore { m with charNgrams := if m.charW = 0 then [] else m.charNgrams,
                           typeNgrams := if m.typeW = 0 then [] else m.typeNgrams } mid k := by
  refine specScore_local { m with charNgrams := if m.charW = 0 then [] else m.charNgrams,
                                     typeNgrams := if m.typeW = 0 then [] else m.typeNgrams } ?_ ?_ hds R hc ht hd pre mid post k hk1 hk2
  · intro d hdm
    by_cases h0 : m.charW = 0
    · simp only [h0, if_true] at hdm; cases hdm
    · simp only [h0, if_false] at hdm
      exact hcs (by omega) d hdm
  · intro d hdm
    by_cases h0 : m.typeW = 0
    · simp only [h0, if_true] at hdm; cases hdm
    · simp only [h0, if_false] at hdm
      exact hts (by omega) d hdm

end V.C01Loc
