import VProofs.Lemmas.CsvFileRecord
/-!
# CsvFile helper lemmas, part 4: everything the writer produces (and its accepted variants) is inside the strict domain
-/
namespace V.C19F
open V

theorem strict_cons (st : CsvSt) (c : Char) (cs : List Char) :
    csvStrictGo st (c :: cs) = (!csvLenient st c && csvStrictGo (csvStep st c).1 cs) := rfl

theorem strict_plain_run : ∀ (f : List Char), csvNeedsQuotes f = false → ∀ rest : List Char,
    csvStrictGo .inField (f ++ rest) = csvStrictGo .inField rest := by
  intro f
  induction f with
  | nil => intro _ rest; rfl
  | cons c cs ih =>
    intro h rest
    have hc : csvSpecial c = false := by
      simp only [csvNeedsQuotes, List.any_cons, Bool.or_eq_false_iff] at h; exact h.1
    have hcs : csvNeedsQuotes cs = false := by
      simp only [csvNeedsQuotes, List.any_cons, Bool.or_eq_false_iff] at h; exact h.2
    obtain ⟨_, h2, _, _⟩ := special_false hc
    rw [List.cons_append, strict_cons, step_inField_plain hc, ih hcs]
    simp [csvLenient, h2]

theorem strict_quoted_run : ∀ (f : List Char) (rest : List Char),
    csvStrictGo .inQuoted (csvEscape f ++ '"' :: rest) = csvStrictGo .quoteInQuoted rest := by
  intro f
  induction f with
  | nil => intro rest; rfl
  | cons c cs ih =>
    intro rest
    by_cases hc : c = '"'
    · subst hc
      have e : csvEscape ('"' :: cs) = '"' :: '"' :: csvEscape cs := by simp [csvEscape]
      have s1 : ∀ r, csvStrictGo .inQuoted ('"' :: r) = csvStrictGo .quoteInQuoted r := fun _ => rfl
      have s2 : ∀ r, csvStrictGo .quoteInQuoted ('"' :: r) = csvStrictGo .inQuoted r := fun _ => rfl
      rw [e, List.cons_append, List.cons_append, s1, s2, ih]
    · have e : csvEscape (c :: cs) = c :: csvEscape cs := by simp [csvEscape, hc]
      rw [e, List.cons_append, strict_cons, step_inQuoted_other hc, ih]
      simp [csvLenient]

/-- strictness of the rest once a field has ended -/
def sfieldEnd : List Char → Bool
  | [] => true
  | d :: r => csvStrictGo (csvStep .inField d).1 r

theorem strict_inField_end (rest : List Char) (h : FieldEnd rest) : csvStrictGo .inField rest = sfieldEnd rest := by
  cases rest with
  | nil => rfl
  | cons d r => rcases h with h | h | h <;> subst h <;> rfl

theorem strict_quoteInQuoted_end (rest : List Char) (h : FieldEnd rest) :
    csvStrictGo .quoteInQuoted rest = sfieldEnd rest := by
  cases rest with
  | nil => rfl
  | cons d r => rcases h with h | h | h <;> subst h <;> rfl

theorem strict_startField_end (rest : List Char) (h : FieldEnd rest) : csvStrictGo .startField rest = sfieldEnd rest := by
  cases rest with
  | nil => rfl
  | cons d r => rcases h with h | h | h <;> subst h <;> rfl

theorem strict_field_quoted (f : List Char) (rest : List Char) (h : FieldEnd rest) :
    csvStrictGo .startField (csvQuoted f ++ rest) = sfieldEnd rest := by
  have e : csvQuoted f ++ rest = '"' :: (csvEscape f ++ '"' :: rest) := by simp [csvQuoted]
  have s1 : ∀ r, csvStrictGo .startField ('"' :: r) = csvStrictGo .inQuoted r := fun _ => rfl
  rw [e, s1, strict_quoted_run, strict_quoteInQuoted_end _ h]

theorem strict_field_plain (f : List Char) (hf : csvNeedsQuotes f = false) (rest : List Char) (h : FieldEnd rest) :
    csvStrictGo .startField (f ++ rest) = sfieldEnd rest := by
  cases f with
  | nil => exact strict_startField_end rest h
  | cons c cs =>
    have hc : csvSpecial c = false := by
      simp only [csvNeedsQuotes, List.any_cons, Bool.or_eq_false_iff] at hf; exact hf.1
    have hcs : csvNeedsQuotes cs = false := by
      simp only [csvNeedsQuotes, List.any_cons, Bool.or_eq_false_iff] at hf; exact hf.2
    rw [List.cons_append, strict_cons, step_startField_plain hc, strict_plain_run cs hcs, strict_inField_end _ h]
    simp [csvLenient]

theorem strict_fieldV (qf : Bool × List Char) (rest : List Char) (h : FieldEnd rest) :
    csvStrictGo .startField (csvFieldV qf ++ rest) = sfieldEnd rest := by
  unfold csvFieldV
  by_cases hq : qf.1 = true
  · rw [if_pos hq]; exact strict_field_quoted qf.2 rest h
  · rw [if_neg hq]
    unfold csvField
    by_cases hn : csvNeedsQuotes qf.2 = true
    · rw [if_pos hn]; exact strict_field_quoted qf.2 rest h
    · rw [if_neg hn]; exact strict_field_plain qf.2 (by simpa using hn) rest h

theorem strict_afterCR_eq (s : List Char) : csvStrictGo .afterCR s = csvStrictGo .startRecord s := by
  cases s with
  | nil => rfl
  | cons c cs => rfl

/-- strictness of the rest once a record has ended -/
def sAfterRec : List Char → Bool
  | [] => true
  | _ :: r => csvStrictGo .startRecord r

theorem sfieldEnd_recEnd (rest : List Char) (h : RecEnd rest) : sfieldEnd rest = sAfterRec rest := by
  cases rest with
  | nil => rfl
  | cons d r =>
    rcases h with h | h <;> subst h
    · rfl
    · exact strict_afterCR_eq r

theorem strict_joinV : ∀ (fields : List (Bool × List Char)), fields ≠ [] → ∀ rest : List Char, RecEnd rest →
    csvStrictGo .startField (csvJoinV fields ++ rest) = sAfterRec rest := by
  intro fields
  induction fields with
  | nil => intro h; exact absurd rfl h
  | cons f fs ih =>
    intro _ rest hrest
    cases fs with
    | nil =>
      have e : csvJoinV [f] = csvFieldV f := rfl
      rw [e, strict_fieldV f rest hrest.fieldEnd, sfieldEnd_recEnd rest hrest]
    | cons g gs =>
      rw [joinV_cons2, List.append_assoc, List.cons_append,
        strict_fieldV f _ (show FieldEnd (',' :: _) from Or.inl rfl)]
      have e : ∀ r, sfieldEnd (',' :: r) = csvStrictGo .startField r := fun _ => rfl
      rw [e, ih (by simp) rest hrest]

theorem strict_startRecord {c : Char} (h1 : c ≠ '\n') (h2 : c ≠ '\r') (cs : List Char) :
    csvStrictGo .startRecord (c :: cs) = csvStrictGo .startField (c :: cs) := by
  rw [strict_cons, strict_cons, step_startRecord h1 h2]
  rfl

theorem strict_recordV (fields : List (Bool × List Char)) (hne : fields ≠ []) (hamb : fields ≠ [(false, [])])
    (rest : List Char) (hrest : RecEnd rest) :
    csvStrictGo .startRecord (csvJoinV fields ++ rest) = sAfterRec rest := by
  obtain ⟨c, cs, e, h1, h2⟩ := joinV_head fields hne hamb
  have h := strict_joinV fields hne rest hrest
  rw [e] at h ⊢
  rw [List.cons_append] at h ⊢
  rw [strict_startRecord h1 h2, h]

theorem strict_blank : ∀ (bl : List Char), (∀ c ∈ bl, c = '\n' ∨ c = '\r') → ∀ rest : List Char,
    csvStrictGo .startRecord (bl ++ rest) = csvStrictGo .startRecord rest := by
  intro bl
  induction bl with
  | nil => intro _ rest; rfl
  | cons c cs ih =>
    intro h rest
    have hc : csvStrictGo .startRecord (c :: (cs ++ rest)) = csvStrictGo .startRecord (cs ++ rest) := by
      rcases h c (by simp) with e | e <;> subst e <;> rfl
    rw [List.cons_append, hc, ih (fun x hx => h x (List.mem_cons_of_mem _ hx))]

theorem strict_record (fields : List (List Char)) (hne : fields ≠ []) (rest : List Char) :
    csvStrictGo .startRecord (csvRecord fields ++ rest) = csvStrictGo .startRecord rest := by
  obtain ⟨fv, _, h1, h2, e2⟩ := record_eq_V fields hne
  rw [e2, List.append_assoc, List.singleton_append,
    strict_recordV fv h1 h2 _ (show RecEnd ('\n' :: rest) from Or.inl rfl)]
  rfl

theorem strict_records : ∀ (records : List (List (List Char))), (∀ r ∈ records, r ≠ []) → ∀ rest : List Char,
    csvStrictGo .startRecord (records.flatMap csvRecord ++ rest) = csvStrictGo .startRecord rest := by
  intro records
  induction records with
  | nil => intro _ rest; rfl
  | cons r rs ih =>
    intro h rest
    rw [List.flatMap_cons, List.append_assoc, strict_record r (h r (by simp)),
      ih (fun x hx => h x (List.mem_cons_of_mem _ hx))]

end V.C19F
