import VProofs.Lemmas.EvalFmtDigits
import VProofs.Lemmas.EvalFloatOps
/-!
# The shape of the printed text of a double in `[0, 1]`
-/
namespace V.FmtL
open V V.F64 V.QuantL

theorem roundUnits_zero (d : Nat) : roundUnits 0 d = 0 := by
  unfold roundUnits rneDiv
  simp

theorem roundDec_zero (p : Int) : roundDec 0 p = 0 := by
  unfold roundDec decNum
  rw [Nat.zero_mul, Nat.zero_mul]
  exact roundUnits_zero _

theorem strip_ne (fuel m : Nat) (p : Int) (h0 : m ≠ 0) (hf : m < 2 ^ fuel) :
    (stripZeros fuel m p).1 ≠ 0 ∧ (stripZeros fuel m p).1 % 10 ≠ 0 := by
  induction fuel generalizing m p with
  | zero => simp only [Nat.pow_zero] at hf; omega
  | succ f ih =>
    unfold stripZeros
    split
    · rename_i h
      exact ih (m / 10) (p + 1) (by omega) (by rw [Nat.pow_succ] at hf; omega)
    · rename_i h
      exact ⟨h0, by omega⟩

theorem digitsRev_facts (f m : Nat) (hf : m < 2 ^ (f + 1)) :
    (∀ d ∈ digitsRev (f + 1) m, d < 10) ∧ (digitsRev (f + 1) m).head? = some (m % 10) ∧
      (0 < m → 10 ^ ((digitsRev (f + 1) m).length - 1) ≤ m) := by
  induction f generalizing m with
  | zero =>
    have hm : m < 10 := by simp only [Nat.zero_add, Nat.pow_one] at hf; omega
    unfold digitsRev
    rw [if_pos hm]
    refine ⟨?_, ?_, ?_⟩
    · intro d hd; rw [List.mem_singleton] at hd; omega
    · rw [List.head?_cons, Nat.mod_eq_of_lt hm]
    · intro h0; simp only [List.length_singleton, Nat.sub_self, Nat.pow_zero]; omega
  | succ f ih =>
    unfold digitsRev
    split
    · rename_i h
      refine ⟨?_, ?_, ?_⟩
      · intro d hd; rw [List.mem_singleton] at hd; omega
      · rw [List.head?_cons, Nat.mod_eq_of_lt h]
      · intro h0; simp only [List.length_singleton, Nat.sub_self, Nat.pow_zero]; omega
    · rename_i h
      obtain ⟨i1, i2, i3⟩ := ih (m / 10) (by rw [Nat.pow_succ] at hf; omega)
      refine ⟨?_, ?_, ?_⟩
      · intro d hd
        rw [List.mem_cons] at hd
        rcases hd with rfl | hd
        · exact Nat.mod_lt _ (by decide)
        · exact i1 d hd
      · rw [List.head?_cons]
      · intro _
        have h3 := i3 (by omega)
        have hne : digitsRev (f + 1) (m / 10) ≠ [] := by
          intro he; rw [he] at i2; simp at i2
        have hl : 0 < (digitsRev (f + 1) (m / 10)).length := List.length_pos_iff.mpr hne
        rw [List.length_cons, Nat.add_sub_cancel]
        have e : (digitsRev (f + 1) (m / 10)).length = (digitsRev (f + 1) (m / 10)).length - 1 + 1 := by omega
        rw [e, Nat.pow_succ]
        omega

theorem decDigits_facts (m : Nat) :
    (∀ d ∈ decDigits m, d < 10) ∧ (decDigits m).getLast? = some (m % 10) ∧
      (0 < m → 10 ^ ((decDigits m).length - 1) ≤ m) := by
  obtain ⟨h1, h2, h3⟩ := digitsRev_facts m.log2 m Nat.lt_log2_self
  unfold decDigits
  refine ⟨?_, ?_, ?_⟩
  · intro d hd; exact h1 d (List.mem_reverse.mp hd)
  · rw [List.getLast?_reverse]; exact h2
  · rw [List.length_reverse]; exact h3

/-- the mantissa of `f64ShortestDec` is positive and not divisible by ten -/
theorem shortestDec_mant (a : Nat) (ha : 0 < a) (hrep : repUnits a = true) :
    (f64ShortestDec a).1 ≠ 0 ∧ (f64ShortestDec a).1 % 10 ≠ 0 := by
  have hr := shortestDec_round a ha hrep
  unfold f64ShortestDec at hr ⊢
  simp only [] at hr ⊢
  apply strip_ne _ _ _ _ Nat.lt_log2_self
  intro h0
  rw [stripZeros_roundDec, h0, roundDec_zero] at hr
  omega

/-- below `1.0` the decimal exponent is not positive: the text starts with `0.` -/
theorem shortest_exp_nonpos (a : Nat) (ha : 0 < a) (hlt : a < unit) (hrep : repUnits a = true) :
    (f64ShortestDigits a).2 ≤ 0 := by
  have hr := shortestDec_round a ha hrep
  obtain ⟨hm0, _⟩ := shortestDec_mant a ha hrep
  unfold f64ShortestDigits
  simp only []
  generalize f64ShortestDec a = r at hr hm0
  obtain ⟨m, p⟩ := r
  simp only [] at hr hm0 ⊢
  have h3 := (decDigits_facts m).2.2 (by omega)
  apply Int.not_lt.mp
  intro hpos
  -- the value is at least `1.0`, so it rounds to at least `unit`
  have hge : decDen p * unit ≤ decNum m p := by
    unfold decDen decNum
    by_cases hp : 0 ≤ p
    · have e : (-p).toNat = 0 := by omega
      rw [e, Nat.pow_zero, Nat.one_mul]
      have : 1 ≤ m * 10 ^ p.toNat := Nat.mul_pos (by omega) (Nat.pow_pos (by decide))
      calc unit = 1 * unit := (Nat.one_mul _).symm
        _ ≤ m * 10 ^ p.toNat * unit := Nat.mul_le_mul_right _ this
    · have e : p.toNat = 0 := by omega
      rw [e, Nat.pow_zero, Nat.mul_one]
      apply Nat.mul_le_mul_right
      have hle : (-p).toNat ≤ (decDigits m).length - 1 := by omega
      exact Nat.le_trans (Nat.pow_le_pow_right (by decide) hle) h3
  have := le_roundUnits_of_le _ _ unit (decDen_pos p) EvalF.repU_unit hge
  unfold roundDec at hr
  omega

end V.FmtL
