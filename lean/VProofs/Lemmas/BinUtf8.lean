import VProofs.Lemmas.BinVarint
/-!
# UTF-8: decoding the encoding of a `List Char` gives it back
-/
namespace V.BinL
open V V.Bin

theorem mkChar?_toNat (c : Char) : mkChar? c.toNat = some c := by
  have h : c.toNat.isValidChar := c.valid
  simp only [mkChar?, h, dite_true]
  congr 1

theorem isCont_of {b : UInt8} {x : Nat} (hb : b.toNat = 0x80 + x) (hx : x < 64) : isCont b = true := by
  simp only [isCont, hb, Bool.and_eq_true, decide_eq_true_eq]; omega

theorem utf8EncodeChar_nonempty (c : Char) : 1 ≤ (utf8EncodeChar c).length := by
  simp only [utf8EncodeChar]
  split
  · simp
  · split
    · simp
    · split <;> simp

theorem utf8DecodeChar_encode (c : Char) (r : Bytes) :
    utf8DecodeChar? (utf8EncodeChar c ++ r) = some (c, r) := by
  have hv : c.toNat.isValidChar := c.valid
  have hm := mkChar?_toNat c
  simp only [utf8EncodeChar]
  generalize c.toNat = n at hv hm
  simp only [Nat.isValidChar] at hv
  by_cases h1 : n < 0x80
  · have e0 : (UInt8.ofNat n).toNat = n := by rw [ofNat_toNat]; omega
    simp only [h1, if_true, List.cons_append, List.nil_append, utf8DecodeChar?, e0, hm, Option.map_some]
  · by_cases h2 : n < 0x800
    · simp only [h1, h2, if_true, if_false, List.cons_append, List.nil_append]
      generalize hb0 : UInt8.ofNat (0xC0 + n / 64) = b0
      generalize hb1 : UInt8.ofNat (0x80 + n % 64) = b1
      have e0 : b0.toNat = 0xC0 + n / 64 := by rw [← hb0, ofNat_toNat]; omega
      have e1 : b1.toNat = 0x80 + n % 64 := by rw [← hb1, ofNat_toNat]; omega
      have c1 := isCont_of e1 (by omega)
      simp only [utf8DecodeChar?]
      rw [if_neg (by omega), if_neg (by omega), if_pos (by omega), if_pos c1]
      have : (b0.toNat - 0xC0) * 64 + (b1.toNat - 0x80) = n := by omega
      rw [this, hm]; rfl
    · by_cases h3 : n < 0x10000
      · simp only [h1, h2, h3, if_true, if_false, List.cons_append, List.nil_append]
        generalize hb0 : UInt8.ofNat (0xE0 + n / 4096) = b0
        generalize hb1 : UInt8.ofNat (0x80 + n / 64 % 64) = b1
        generalize hb2 : UInt8.ofNat (0x80 + n % 64) = b2
        have e0 : b0.toNat = 0xE0 + n / 4096 := by rw [← hb0, ofNat_toNat]; omega
        have e1 : b1.toNat = 0x80 + n / 64 % 64 := by rw [← hb1, ofNat_toNat]; omega
        have e2 : b2.toNat = 0x80 + n % 64 := by rw [← hb2, ofNat_toNat]; omega
        have c1 := isCont_of e1 (by omega)
        have c2 := isCont_of e2 (by omega)
        simp only [utf8DecodeChar?]
        rw [if_neg (by omega), if_neg (by omega), if_neg (by omega), if_pos (by omega)]
        simp only [c1, c2, Bool.and_self, if_true]
        have : (b0.toNat - 0xE0) * 4096 + (b1.toNat - 0x80) * 64 + (b2.toNat - 0x80) = n := by omega
        rw [this, if_neg (by omega), hm]; rfl
      · simp only [h1, h2, h3, if_false, List.cons_append, List.nil_append]
        generalize hb0 : UInt8.ofNat (0xF0 + n / 262144) = b0
        generalize hb1 : UInt8.ofNat (0x80 + n / 4096 % 64) = b1
        generalize hb2 : UInt8.ofNat (0x80 + n / 64 % 64) = b2
        generalize hb3 : UInt8.ofNat (0x80 + n % 64) = b3
        have e0 : b0.toNat = 0xF0 + n / 262144 := by rw [← hb0, ofNat_toNat]; omega
        have e1 : b1.toNat = 0x80 + n / 4096 % 64 := by rw [← hb1, ofNat_toNat]; omega
        have e2 : b2.toNat = 0x80 + n / 64 % 64 := by rw [← hb2, ofNat_toNat]; omega
        have e3 : b3.toNat = 0x80 + n % 64 := by rw [← hb3, ofNat_toNat]; omega
        have c1 := isCont_of e1 (by omega)
        have c2 := isCont_of e2 (by omega)
        have c3 := isCont_of e3 (by omega)
        simp only [utf8DecodeChar?]
        rw [if_neg (by omega), if_neg (by omega), if_neg (by omega), if_neg (by omega), if_pos (by omega)]
        simp only [c1, c2, c3, Bool.and_self, if_true]
        have : (b0.toNat - 0xF0) * 262144 + (b1.toNat - 0x80) * 4096 + (b2.toNat - 0x80) * 64
            + (b3.toNat - 0x80) = n := by omega
        rw [this, if_neg (by omega), hm]; rfl

theorem utf8Encode_cons (c : Char) (s : List Char) : utf8Encode (c :: s) = utf8EncodeChar c ++ utf8Encode s := by
  simp [utf8Encode]

theorem length_le_utf8Encode (s : List Char) : s.length ≤ (utf8Encode s).length := by
  induction s with
  | nil => simp
  | cons c s ih =>
    have := utf8EncodeChar_nonempty c
    simp only [utf8Encode_cons, List.length_cons, List.length_append]; omega

theorem utf8DecodeFuel_encode (s : List Char) : ∀ fuel, s.length ≤ fuel →
    utf8DecodeFuel fuel (utf8Encode s) = some s := by
  induction s with
  | nil => intro fuel _; simp [utf8Encode, utf8DecodeFuel]
  | cons c s ih =>
    intro fuel hf
    cases fuel with
    | zero => simp at hf
    | succ f =>
      have hne := utf8EncodeChar_nonempty c
      rw [utf8Encode_cons]
      cases hb : utf8EncodeChar c ++ utf8Encode s with
      | nil => simp at hb; rw [hb.1] at hne; simp at hne
      | cons b t =>
        simp only [utf8DecodeFuel]
        rw [← hb, utf8DecodeChar_encode]
        simp only [List.length_cons] at hf
        simp only [ih f (by omega), Option.map_some]

theorem utf8Decode_encode (s : List Char) : utf8Decode? (utf8Encode s) = some s :=
  utf8DecodeFuel_encode s _ (length_le_utf8Encode s)

end V.BinL
