import VModel.Trainer
import VModel.Spec
import VProofs.Lemmas.ScoreSum
import VProofs.Lemmas.AsmFold
import VProofs.Lemmas.AsmNgram
/-!
# C09 helpers (4): the dictionary part of the score
-/
namespace V.C09L
open V V.C01L

/-- the record `dictRecord` returns when it does not panic -/
def recOf (dW : List (Int × Int × Int)) (word : List Char) : DictWord :=
  let t := dW.getD (min word.length dW.length - 1) (0, 0, 0)
  { word := word,
    weights := ((List.range (word.length + 1)).map fun k =>
      if 1 ≤ k ∧ k < word.length then t.2.1
      else ((List.replicate (word.length + 1) (0 : Int)).set 0 t.1).getD k 0).set word.length t.2.2,
    comment := [] }

theorem dictRecord_eq (dW : List (Int × Int × Int)) (word : List Char) (h : min word.length dW.length ≠ 0) :
    dictRecord dW word = .ok (recOf dW word) := by
  simp only [dictRecord, h, if_false, recOf]

theorem dictRecord_shape (dW : List (Int × Int × Int)) (word : List Char) (d : DictWord)
    (h : dictRecord dW word = .ok d) : d.word = word ∧ d.weights.length = word.length + 1 := by
  by_cases hz : min word.length dW.length = 0
  · simp [dictRecord, hz] at h
  · rw [dictRecord_eq dW word hz] at h
    cases h
    simp [recOf]

theorem recOf_getD (dW : List (Int × Int × Int)) (word : List Char) (hn : 1 ≤ word.length) (k : Nat) :
    (recOf dW word).weights.getD k 0 =
      if k = 0 then (dW.getD (min word.length dW.length - 1) (0, 0, 0)).1
      else if k < word.length then (dW.getD (min word.length dW.length - 1) (0, 0, 0)).2.1
      else if k = word.length then (dW.getD (min word.length dW.length - 1) (0, 0, 0)).2.2
      else 0 := by
  simp only [recOf]
  generalize dW.getD (min word.length dW.length - 1) (0, 0, 0) = t
  generalize word.length = n at hn
  rw [List.getD_eq_getElem?_getD, List.getElem?_set]
  by_cases h1 : n = k
  · subst h1
    have : ¬ n = 0 := by omega
    simp [this]
  · rw [if_neg h1, List.getElem?_map]
    by_cases h2 : k < n + 1
    · rw [List.getElem?_range h2]
      simp only [Option.map_some, Option.getD_some]
      by_cases h3 : k = 0
      · subst h3
        simp
      · have h4 : 1 ≤ k ∧ k < n := by omega
        rw [if_pos h4, if_neg h3, if_pos h4.2]
    · rw [List.getElem?_eq_none (by simp; omega)]
      have a1 : ¬ k = 0 := by omega
      have a2 : ¬ k < n := by omega
      have a3 : ¬ k = n := by omega
      simp [a1, a2, a3]

theorem getZ_recOf (dW : List (Int × Int × Int)) (word : List Char) (hn : 1 ≤ word.length) (idx : Int) :
    getZ (recOf dW word).weights idx =
      if idx = 0 then (dW.getD (min word.length dW.length - 1) (0, 0, 0)).1
      else if 0 < idx ∧ idx < (word.length : Int) then (dW.getD (min word.length dW.length - 1) (0, 0, 0)).2.1
      else if idx = (word.length : Int) then (dW.getD (min word.length dW.length - 1) (0, 0, 0)).2.2
      else 0 := by
  unfold getZ
  rw [recOf_getD dW word hn]
  repeat' split
  all_goals first | rfl | omega

theorem isum_ite_single {β : Type} (c : Prop) [Decidable c] (x : β) (f : β → Int) :
    ((if c then [x] else []).map f).sum = if c then f x else 0 := by
  split <;> simp

/-! ## `mapRes` -/

theorem mapRes_ok_map {β γ : Type} (f : β → Res γ) (g : β → γ) :
    ∀ l : List β, (∀ x ∈ l, f x = .ok (g x)) → mapRes f l = .ok (l.map g)
  | [], _ => rfl
  | x :: xs, h => by
    simp only [mapRes, h x List.mem_cons_self,
      mapRes_ok_map f g xs (fun y hy => h y (List.mem_cons_of_mem _ hy)), Res.map, List.map_cons]

theorem mapRes_cons_ok {β γ : Type} (f : β → Res γ) (x : β) (xs : List β) (ys : List γ)
    (h : mapRes f (x :: xs) = .ok ys) : ∃ y r, f x = .ok y ∧ mapRes f xs = .ok r ∧ ys = y :: r := by
  simp only [mapRes] at h
  cases hx : f x with
  | ok y =>
    rw [hx] at h
    cases hr : mapRes f xs with
    | ok r =>
      rw [hr] at h
      simp only [Res.map, Res.ok.injEq] at h
      exact ⟨y, r, rfl, rfl, h.symm⟩
    | err _ => rw [hr] at h; simp [Res.map] at h
    | panic _ => rw [hr] at h; simp [Res.map] at h
    | ub _ => rw [hr] at h; simp [Res.map] at h
  | err _ => rw [hx] at h; simp at h
  | panic _ => rw [hx] at h; simp at h
  | ub _ => rw [hx] at h; simp at h

theorem mapRes_mem {β γ : Type} (f : β → Res γ) :
    ∀ (l : List β) (ys : List γ), mapRes f l = .ok ys → ∀ y ∈ ys, ∃ x ∈ l, f x = .ok y
  | [], ys, h => by
    simp only [mapRes, Res.ok.injEq] at h
    subst h
    intro y hy; cases hy
  | x :: xs, ys, h => by
    obtain ⟨y0, r, h1, h2, h3⟩ := mapRes_cons_ok f x xs ys h
    subst h3
    intro y hy
    rcases List.mem_cons.mp hy with e | e
    · exact ⟨x, List.mem_cons_self, by rw [e]; exact h1⟩
    · obtain ⟨x', hx', hf⟩ := mapRes_mem f xs r h2 y e
      exact ⟨x', List.mem_cons_of_mem _ hx', hf⟩

theorem mapRes_map_inv {β γ : Type} (f : β → Res γ) (g : γ → β) (hg : ∀ x y, f x = .ok y → g y = x) :
    ∀ (l : List β) (ys : List γ), mapRes f l = .ok ys → ys.map g = l
  | [], ys, h => by
    simp only [mapRes, Res.ok.injEq] at h
    subst h
    rfl
  | x :: xs, ys, h => by
    obtain ⟨y0, r, h1, h2, h3⟩ := mapRes_cons_ok f x xs ys h
    subst h3
    rw [List.map_cons, hg x y0 h1, mapRes_map_inv f g hg xs r h2]

/-! ## the dictionary score -/

theorem dict_case (b k l n : Nat) (h1 : 1 ≤ l) (h2 : l ≤ k + 1) (_h3 : k < n) (h4 : b + 1 < n) (L I R : Int) :
    (if (b : Int) + 1 + (l : Int) - ((k + 1 : Nat) : Int) = 0 then (L, I, R).1
      else if 0 < (b : Int) + 1 + (l : Int) - ((k + 1 : Nat) : Int) ∧
          (b : Int) + 1 + (l : Int) - ((k + 1 : Nat) : Int) < (l : Int) then (L, I, R).2.1
      else if (b : Int) + 1 + (l : Int) - ((k + 1 : Nat) : Int) = (l : Int) then (L, I, R).2.2 else 0)
    = (if k + 1 - l ≠ 0 ∧ b = k + 1 - l - 1 then L else 0)
      + (if k + 1 - l ≤ b ∧ b + 1 < k + 1 then I else 0)
      + (if k + 1 ≠ n ∧ b = k + 1 - 1 then R else 0) := by
  simp only
  repeat' split
  all_goals omega

theorem dict_sum (cfg : TrainCfg) (F : Feature → Int) (dW : List (Int × Int × Int))
    (hdl : dW.length = cfg.dictMaxLen)
    (hdv : ∀ c, 1 ≤ c → c ≤ cfg.dictMaxLen →
      dW.getD (c - 1) (0, 0, 0) = (F (.dictWord c .left), F (.dictWord c .inside), F (.dictWord c .right)))
    (hD : 1 ≤ cfg.dictMaxLen) (hne : ∀ w ∈ cfg.dictWords, w ≠ [])
    (text : List Char) (b : Nat) (hb : b + 1 < text.length) :
    dictScore (cfg.dictWords.map (recOf dW)) text b = ((dictFeats cfg text b).map F).sum := by
  unfold dictScore dictFeats dictMatches
  rw [List.map_map, isum_flatMap, isum_flatMap]
  have e1 : ∀ k, (((cfg.dictWords.filterMap fun w =>
      if w.isSuffixOf (text.take (k + 1)) then some (k + 1 - w.length, k + 1) else none).map
        fun a => ((match a with
          | (st, en) =>
            (if st ≠ 0 ∧ b = st - 1 then [Feature.dictWord (min (en - st) cfg.dictMaxLen) .left] else [])
            ++ (if st ≤ b ∧ b + 1 < en then [Feature.dictWord (min (en - st) cfg.dictMaxLen) .inside] else [])
            ++ (if en ≠ text.length ∧ b = en - 1 then [Feature.dictWord (min (en - st) cfg.dictMaxLen) .right]
                else [])).map F).sum).sum)
      = (cfg.dictWords.map fun w => if w.isSuffixOf (text.take (k + 1)) then
          ((if k + 1 - w.length ≠ 0 ∧ b = k + 1 - w.length - 1
              then F (.dictWord (min (k + 1 - (k + 1 - w.length)) cfg.dictMaxLen) .left) else 0)
            + (if k + 1 - w.length ≤ b ∧ b + 1 < k + 1
              then F (.dictWord (min (k + 1 - (k + 1 - w.length)) cfg.dictMaxLen) .inside) else 0)
            + (if k + 1 ≠ text.length ∧ b = k + 1 - 1
              then F (.dictWord (min (k + 1 - (k + 1 - w.length)) cfg.dictMaxLen) .right) else 0)) else 0).sum := by
    intro k
    rw [isum_filterMap]
    apply isum_map_congr
    intro w _
    by_cases hs : w.isSuffixOf (text.take (k + 1)) = true
    · simp only [hs, if_true, List.map_append, isum_append, isum_ite_single]
    · have hs' : w.isSuffixOf (text.take (k + 1)) = false := Bool.eq_false_iff.mpr hs
      simp only [hs', Bool.false_eq_true, if_false]
  rw [isum_map_congr _ _ _ (fun k _ => e1 k), isum_comm]
  apply isum_map_congr
  intro w hw
  simp only [Function.comp]
  show ((occEnds w text).map fun (e : Nat) =>
    getZ (recOf dW w).weights ((b : Int) + 1 + (w.length : Int) - (e : Int))).sum = _
  unfold occEnds
  rw [isum_filterMap]
  apply isum_map_congr
  intro k hk
  have hk' := List.mem_range.mp hk
  have hwl : 1 ≤ w.length := by
    have := hne w hw
    cases w with
    | nil => exact absurd rfl this
    | cons _ _ => simp
  by_cases hs : w.isSuffixOf (text.take (k + 1)) = true
  · obtain ⟨s1, _⟩ := (suffix_take_iff w text k hk').mp hs
    simp only [hs, if_true]
    rw [getZ_recOf dW w hwl]
    have e2 : k + 1 - (k + 1 - w.length) = w.length := by omega
    rw [e2, hdl]
    have hc := hdv (min w.length cfg.dictMaxLen) (by omega) (by omega)
    rw [hc]
    exact dict_case b k w.length text.length hwl s1 hk' hb _ _ _
  · have hs' : w.isSuffixOf (text.take (k + 1)) = false := Bool.eq_false_iff.mpr hs
    simp only [hs', Bool.false_eq_true, if_false]

end V.C09L
