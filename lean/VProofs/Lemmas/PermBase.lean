import VModel.Basic
/-!
# Permutation invariance, generic part

* `ResSim r₁ r₂` — the two outcomes are the same, except that two panics may carry different site strings
  (which of several failing entries panics first does depend on the iteration order).
* `foldl_perm_gen` — a fold gives related results on two permutations of a list whose elements are pairwise independent,
  provided independent steps commute (up to the relation) on states that satisfy an invariant.
* association lists with distinct keys: `lookupK`, permutations, extensionality.
-/
namespace V.PermL
open V

/-- equal outcomes; two panics are identified whatever their site strings are -/
def ResSim {σ : Type} (r₁ r₂ : Res σ) : Prop := r₁ = r₂ ∨ ∃ s₁ s₂, r₁ = .panic s₁ ∧ r₂ = .panic s₂

theorem ResSim.refl {σ : Type} (r : Res σ) : ResSim r r := Or.inl rfl

theorem ResSim.symm {σ : Type} {r₁ r₂ : Res σ} (h : ResSim r₁ r₂) : ResSim r₂ r₁ := by
  rcases h with h | ⟨s₁, s₂, h₁, h₂⟩
  · exact Or.inl h.symm
  · exact Or.inr ⟨s₂, s₁, h₂, h₁⟩

theorem ResSim.trans {σ : Type} {r₁ r₂ r₃ : Res σ} (h : ResSim r₁ r₂) (h' : ResSim r₂ r₃) : ResSim r₁ r₃ := by
  rcases h with h | ⟨s₁, s₂, h₁, h₂⟩
  · rw [h]; exact h'
  · rcases h' with h' | ⟨t₁, t₂, g₁, g₂⟩
    · rw [← h']; exact Or.inr ⟨s₁, s₂, h₁, h₂⟩
    · exact Or.inr ⟨s₁, t₂, h₁, g₂⟩

theorem ResSim.panic {σ : Type} (s₁ s₂ : String) : ResSim (.panic s₁ : Res σ) (.panic s₂) :=
  Or.inr ⟨s₁, s₂, rfl, rfl⟩

theorem ResSim.bind {σ τ : Type} {r₁ r₂ : Res σ} (h : ResSim r₁ r₂) (g : σ → Res τ) : ResSim (r₁.bind g) (r₂.bind g) := by
  rcases h with h | ⟨s₁, s₂, h₁, h₂⟩
  · rw [h]; exact ResSim.refl _
  · rw [h₁, h₂]; exact ResSim.panic _ _

theorem ResSim.map {σ τ : Type} {r₁ r₂ : Res σ} (h : ResSim r₁ r₂) (g : σ → τ) : ResSim (r₁.map g) (r₂.map g) := by
  rcases h with h | ⟨s₁, s₂, h₁, h₂⟩
  · rw [h]; exact ResSim.refl _
  · rw [h₁, h₂]; exact ResSim.panic _ _

/-- a value on one side forces the same value on the other -/
theorem ResSim.ok_iff {σ : Type} {r₁ r₂ : Res σ} (h : ResSim r₁ r₂) (a : σ) : r₁ = .ok a ↔ r₂ = .ok a := by
  rcases h with h | ⟨s₁, s₂, h₁, h₂⟩
  · rw [h]
  · rw [h₁, h₂]; constructor <;> intro h <;> cases h

theorem ResSim.err_iff {σ : Type} {r₁ r₂ : Res σ} (h : ResSim r₁ r₂) (e : Err) : r₁ = .err e ↔ r₂ = .err e := by
  rcases h with h | ⟨s₁, s₂, h₁, h₂⟩
  · rw [h]
  · rw [h₁, h₂]; constructor <;> intro h <;> cases h

theorem ResSim.panic_iff {σ : Type} {r₁ r₂ : Res σ} (h : ResSim r₁ r₂) : (∃ s, r₁ = .panic s) ↔ (∃ s, r₂ = .panic s) := by
  rcases h with h | ⟨s₁, s₂, h₁, h₂⟩
  · rw [h]
  · exact ⟨fun _ => ⟨s₂, h₂⟩, fun _ => ⟨s₁, h₁⟩⟩

theorem ResSim.eq_of_ok {σ : Type} {r₁ r₂ : Res σ} (h : ResSim r₁ r₂) {a : σ} (h₁ : r₁ = .ok a) : r₁ = r₂ := by
  rw [h₁]; exact ((h.ok_iff a).mp h₁).symm

/-! ## folds over permutations -/

theorem foldl_congr_gen {σ τ : Type} (f : σ → τ → σ) (E : σ → σ → Prop) (I : σ → Prop)
    (Econgr : ∀ s s' x, I s → I s' → E s s' → E (f s x) (f s' x))
    (Istep : ∀ s x, I s → I (f s x)) :
    ∀ (l : List τ) (s s' : σ), I s → I s' → E s s' → E (l.foldl f s) (l.foldl f s')
  | [], _, _, _, _, h => h
  | x :: l, s, s', hs, hs', h =>
    foldl_congr_gen f E I Econgr Istep l (f s x) (f s' x) (Istep s x hs) (Istep s' x hs') (Econgr s s' x hs hs' h)

theorem foldl_inv_gen {σ τ : Type} (f : σ → τ → σ) (I : σ → Prop) (Istep : ∀ s x, I s → I (f s x)) :
    ∀ (l : List τ) (s : σ), I s → I (l.foldl f s)
  | [], _, h => h
  | x :: l, s, h => foldl_inv_gen f I Istep l (f s x) (Istep s x h)

/-- folds over two permutations of a list of pairwise independent (`R`) elements are related (`E`), when independent steps
commute up to `E` on states satisfying the invariant `I` -/
theorem foldl_perm_gen {σ τ : Type} (f : σ → τ → σ) (E : σ → σ → Prop) (I : σ → Prop) (R : τ → τ → Prop)
    (Erefl : ∀ s, E s s) (Etrans : ∀ a b c, E a b → E b c → E a c)
    (Econgr : ∀ s s' x, I s → I s' → E s s' → E (f s x) (f s' x))
    (Istep : ∀ s x, I s → I (f s x))
    (Rsymm : ∀ x y, R x y → R y x)
    (comm : ∀ s x y, I s → R x y → E (f (f s x) y) (f (f s y) x)) :
    ∀ {l₁ l₂ : List τ}, l₁.Perm l₂ → l₁.Pairwise R → ∀ s, I s → E (l₁.foldl f s) (l₂.foldl f s) := by
  intro l₁ l₂ p
  induction p with
  | nil => intro _ s _; exact Erefl _
  | cons x _ ih =>
    intro hp s hs
    exact ih (List.pairwise_cons.mp hp).2 (f s x) (Istep s x hs)
  | swap x y l =>
    intro hp s hs
    have hyx : R y x := (List.pairwise_cons.mp hp).1 x List.mem_cons_self
    exact foldl_congr_gen f E I Econgr Istep l _ _ (Istep _ _ (Istep _ _ hs)) (Istep _ _ (Istep _ _ hs))
      (comm s y x hs hyx)
  | trans p₁ _ ih₁ ih₂ =>
    intro hp s hs
    exact Etrans _ _ _ (ih₁ hp s hs) (ih₂ (p₁.pairwise hp (fun h => Rsymm _ _ h)) s hs)

/-! ## association lists with distinct keys -/

section
variable {κ β : Type} [DecidableEq κ]

/-- the value stored for a key (first entry) -/
def lookupK (m : List (κ × β)) (k : κ) : Option β := (m.find? (fun e => e.1 = k)).map Prod.snd

theorem lookupK_nil (k : κ) : lookupK ([] : List (κ × β)) k = none := rfl

theorem lookupK_cons (e : κ × β) (m : List (κ × β)) (k : κ) :
    lookupK (e :: m) k = if e.1 = k then some e.2 else lookupK m k := by
  unfold lookupK
  rw [List.find?_cons]
  by_cases h : e.1 = k <;> simp [h]

theorem lookupK_eq_none {m : List (κ × β)} {k : κ} : lookupK m k = none ↔ ∀ e ∈ m, e.1 ≠ k := by
  induction m with
  | nil => simp [lookupK_nil]
  | cons e m ih =>
    rw [lookupK_cons]
    by_cases h : e.1 = k
    · simp [h]
    · simp [h, ih]

theorem mem_of_lookupK {m : List (κ × β)} {k : κ} {v : β} (h : lookupK m k = some v) : (k, v) ∈ m := by
  induction m with
  | nil => simp [lookupK_nil] at h
  | cons e m ih =>
    rw [lookupK_cons] at h
    by_cases hk : e.1 = k
    · rw [if_pos hk] at h
      have : e = (k, v) := by
        cases e; simp only at hk; cases h; rw [hk]
      rw [this]; exact List.mem_cons_self
    · rw [if_neg hk] at h
      exact List.mem_cons_of_mem _ (ih h)

theorem lookupK_of_mem {m : List (κ × β)} (hnd : (m.map Prod.fst).Nodup) {k : κ} {v : β} (h : (k, v) ∈ m) :
    lookupK m k = some v := by
  induction m with
  | nil => cases h
  | cons e m ih =>
    rw [List.map_cons, List.nodup_cons] at hnd
    rw [lookupK_cons]
    rcases List.mem_cons.mp h with h | h
    · rw [← h]; simp
    · have hne : e.1 ≠ k := by
        intro he
        exact hnd.1 (List.mem_map.mpr ⟨(k, v), h, he.symm⟩)
      rw [if_neg hne]
      exact ih hnd.2 h

theorem lookupK_iff_mem {m : List (κ × β)} (hnd : (m.map Prod.fst).Nodup) (k : κ) (v : β) :
    lookupK m k = some v ↔ (k, v) ∈ m :=
  ⟨mem_of_lookupK, lookupK_of_mem hnd⟩

omit [DecidableEq κ] in
theorem nodup_of_keys_nodup {m : List (κ × β)} (hnd : (m.map Prod.fst).Nodup) : m.Nodup := by
  induction m with
  | nil => exact List.nodup_nil
  | cons e m ih =>
    rw [List.map_cons, List.nodup_cons] at hnd
    rw [List.nodup_cons]
    exact ⟨fun h => hnd.1 (List.mem_map.mpr ⟨e, h, rfl⟩), ih hnd.2⟩

/-- two association lists with distinct keys and the same lookup function are permutations of each other -/
theorem perm_of_lookupK_eq {m₁ m₂ : List (κ × β)} (h₁ : (m₁.map Prod.fst).Nodup) (h₂ : (m₂.map Prod.fst).Nodup)
    (h : ∀ k, lookupK m₁ k = lookupK m₂ k) : m₁.Perm m₂ := by
  rw [List.perm_ext_iff_of_nodup (nodup_of_keys_nodup h₁) (nodup_of_keys_nodup h₂)]
  intro e
  obtain ⟨k, v⟩ := e
  rw [← lookupK_iff_mem h₁, ← lookupK_iff_mem h₂, h k]

/-- permutations with distinct keys have the same lookup function -/
theorem lookupK_perm {m₁ m₂ : List (κ × β)} (p : m₁.Perm m₂) (h₁ : (m₁.map Prod.fst).Nodup) (k : κ) :
    lookupK m₁ k = lookupK m₂ k := by
  have h₂ : (m₂.map Prod.fst).Nodup := (p.map Prod.fst).nodup_iff.mp h₁
  cases hv : lookupK m₂ k with
  | none =>
    rw [lookupK_eq_none] at hv ⊢
    intro e he
    exact hv e (p.subset he)
  | some v =>
    rw [lookupK_iff_mem h₂] at hv
    rw [lookupK_iff_mem h₁]
    exact p.symm.subset hv

/-- two key-sorted association lists (strict order) with the same lookup function are equal -/
theorem eq_of_sorted_lookupK_eq (lt : κ → κ → Bool) (irrefl : ∀ a, lt a a = false)
    (trans : ∀ a b c, lt a b = true → lt b c = true → lt a c = true)
    {m₁ m₂ : List (κ × β)} (s₁ : m₁.Pairwise fun x y => lt x.1 y.1 = true) (s₂ : m₂.Pairwise fun x y => lt x.1 y.1 = true)
    (h : ∀ k, lookupK m₁ k = lookupK m₂ k) : m₁ = m₂ := by
  have nd : ∀ {m : List (κ × β)}, (m.Pairwise fun x y => lt x.1 y.1 = true) → (m.map Prod.fst).Nodup := by
    intro m hs
    rw [List.nodup_iff_pairwise_ne, List.pairwise_map]
    refine hs.imp ?_
    intro a b hab heq
    rw [heq, irrefl] at hab
    exact Bool.noConfusion hab
  refine List.Perm.eq_of_pairwise ?_ s₁ s₂ (perm_of_lookupK_eq (nd s₁) (nd s₂) h)
  intro a b _ _ hab hba
  have := trans _ _ _ hab hba
  rw [irrefl] at this
  exact Bool.noConfusion this

end

end V.PermL
