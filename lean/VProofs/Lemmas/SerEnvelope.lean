import VModel.PredictorSer
import VProofs.Lemmas.BinModel
/-!
# C14 helper lemmas: the `PredictorData` envelope is a strict decoder
-/
namespace V.C14L
open V V.Bin V.BinL

/-- a pointwise-equal encoder -/
theorem Strict.congr {α : Type} {enc enc' : α → Bytes} {dec : Dec α} {P : α → Prop} (h : Strict enc dec P)
    (henc : ∀ v, enc' v = enc v) : Strict enc' dec P := by
  have : enc' = enc := funext henc
  subst this
  exact h

theorem cons_prefix_cases {b : UInt8} {x p : Bytes} (hp : p <+: b :: x) (hne : p ≠ b :: x) :
    p = [] ∨ ∃ q, p = b :: q ∧ q <+: x ∧ q ≠ x := by
  cases p with
  | nil => left; rfl
  | cons c q =>
    right
    rw [List.cons_prefix_cons] at hp
    obtain ⟨rfl, hq⟩ := hp
    refine ⟨q, rfl, hq, ?_⟩
    intro h; apply hne; rw [h]

/-! ## `Option<T>` -/

theorem strict_option {α : Type} {e : α → Bytes} {d : Dec α} {P : α → Prop} (h : Strict e d P) :
    Strict (encOption e) (decOption d) (fun o => ∀ a, o = some a → P a) := by
  have h10 : ¬ ((1 : UInt8) = 0) := by decide
  constructor
  · intro o r hP hlen
    cases o with
    | none => simp [encOption, decOption]
    | some a =>
      simp only [encOption, List.length_cons] at hlen
      simp only [encOption, List.cons_append, decOption, h10, if_false, if_true]
      rw [h.rt a r (hP a rfl) (by omega)]
  · intro o p hP hlen hp hne
    cases o with
    | none =>
      simp only [encOption] at hp hne
      rcases cons_prefix_cases hp hne with rfl | ⟨q, rfl, hq, hq2⟩
      · exact ⟨_, rfl⟩
      · exact absurd (List.prefix_nil.1 hq) hq2
    | some a =>
      simp only [encOption, List.length_cons] at hlen
      simp only [encOption] at hp hne
      rcases cons_prefix_cases hp hne with rfl | ⟨q, rfl, hq, hq2⟩
      · exact ⟨_, rfl⟩
      · obtain ⟨er, he⟩ := h.pref a q (hP a rfl) (by omega) hq hq2
        simp only [decOption, h10, if_false, if_true]
        rw [he]; exact ⟨_, rfl⟩
  · intro o
    cases o <;> simp [encOption]

/-! ## raw bytes -/

theorem strict_bytes : Strict encBytes decBytes (fun _ => True) := by
  have hv := strict_varint64
  have hl9 : ∀ n, (encVarint n).length < bound := fun n => by
    have := encVarint_length_le n; simp only [bound]; omega
  constructor
  · intro s r _ hlen
    simp only [encBytes, List.length_append] at hlen
    have hn : s.length < 2 ^ 64 := by simp only [bound] at hlen; omega
    simp only [encBytes, decBytes, List.append_assoc]
    rw [hv.rt _ _ hn (hl9 _)]
    simp only []
    rw [takeN_append rfl]
  · intro s p _ hlen hp hne
    simp only [encBytes, List.length_append] at hlen
    simp only [encBytes] at hp hne
    have hn : s.length < 2 ^ 64 := by simp only [bound] at hlen; omega
    simp only [decBytes]
    rcases prefix_append_cases hp with ⟨h1, h2⟩ | ⟨q, rfl, hq2⟩
    · obtain ⟨er, he⟩ := hv.pref _ p hn (hl9 _) h1 h2
      rw [he]; exact ⟨_, rfl⟩
    · rw [hv.rt _ q hn (hl9 _)]
      simp only []
      have hq : q ≠ s := by intro hh; apply hne; rw [hh]
      rw [takeN_short (prefix_length_lt hq2 hq)]
      exact ⟨_, rfl⟩
  · intro s
    have := encVarint_nonempty s.length
    simp only [encBytes, List.length_append]; omega

/-! ## `u32`, `usize` -/

theorem strict_u32 : Strict encU32 decU32 (fun n => n < 2 ^ 32) := strict_varint32
theorem strict_usize : Strict encUsize decUsize (fun n => n < 2 ^ 64) := strict_varint64

/-! ## tag predictors -/

def OkTagPredWire (t : TagPredWire) : Prop := ∀ w ∈ t.bias, OkI32 w
def OkTagEntry (e : List Char × Nat × TagPredWire) : Prop := e.2.1 < 2 ^ 32 ∧ OkTagPredWire e.2.2
def OkEnvelope (e : Envelope) : Prop :=
  OkI32 e.bias ∧ (∀ l, e.tagPredictor = some l → ∀ x ∈ l, OkTagEntry x) ∧ e.nTags < 2 ^ 64

theorem strict_tagPredWire : Strict encTagPredWire decTagPredWire OkTagPredWire :=
  (strict_string.vec.vec.pair strict_i32.vec).conv _ (fun t => (t.tags, t.bias)) (fun _ => rfl) (fun _ => rfl)
    (fun _ h => ⟨fun _ _ _ _ => trivial, h⟩)

theorem strict_tagEntry : Strict encTagEntry decTagEntry OkTagEntry :=
  Strict.congr ((strict_string.pair (strict_u32.pair strict_tagPredWire)).mono (fun _ h => ⟨trivial, h⟩))
    (fun _ => by simp [encTagEntry, encPair])

theorem strict_envelope : Strict encEnvelope decEnvelope OkEnvelope :=
  ((strict_option strict_bytes).pair ((strict_option strict_bytes).pair (strict_i32.pair
      ((strict_option strict_tagEntry.vec).pair strict_usize)))).conv _
    (fun e => (e.charScorer, e.typeScorer, e.bias, e.tagPredictor, e.nTags))
    (fun _ => rfl) (fun _ => by simp [encEnvelope, encPair])
    (fun _ h => ⟨fun _ _ => trivial, fun _ _ => trivial, h.1, h.2.1, h.2.2⟩)

theorem okEnvelope_of_envOK {e : Envelope} (h : EnvOK e) : OkEnvelope e :=
  ⟨h.bias, fun l hl x hx => ⟨h.ids l hl x hx, h.i32 l hl x hx⟩, h.nTags⟩

theorem decEnvelope_rt {e : Envelope} (h : EnvOK e) (rest : Bytes) :
    decEnvelope (encEnvelope e ++ rest) = .ok (e, rest) :=
  strict_envelope.rt e rest (okEnvelope_of_envOK h) h.size

/-- every proper prefix of a serialised envelope is rejected with an error (no panic) -/
theorem decEnvelope_pref {e : Envelope} (h : EnvOK e) {p : Bytes} (hp : p <+: encEnvelope e)
    (hne : p ≠ encEnvelope e) : ∃ er, decEnvelope p = .err er :=
  strict_envelope.pref e p (okEnvelope_of_envOK h) h.size hp hne

end V.C14L
