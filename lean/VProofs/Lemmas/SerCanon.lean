import VProofs.Lemmas.SerWeights
/-!
# C14 helper lemmas: every weight vector of a predictor built by `Predictor.new` is canonical
(an image of `WV.ofList cfg`), hence a fixed point of the wire round trip
-/
namespace V.C14L
open V

/-- a weight vector in the image of `From<Vec<i32>>` -/
def Canon (cfg : Cfg) (w : WV) : Prop := ∃ l, w = WV.ofList cfg l

theorem Canon.reser {cfg : Cfg} {w : WV} (h : Canon cfg w) : w.reser cfg = w := by
  obtain ⟨l, rfl⟩ := h
  exact ofList_reser cfg l

theorem canon_ofList (cfg : Cfg) (l : List Int) : Canon cfg (WV.ofList cfg l) := ⟨l, rfl⟩

theorem map_eq_self {α : Type} {f : α → α} {l : List α} (h : ∀ x ∈ l, f x = x) : l.map f = l := by
  induction l with
  | nil => rfl
  | cons a r ih =>
    simp only [List.map_cons]
    rw [h a (by simp), ih (fun x hx => h x (by simp [hx]))]

theorem optmap_eq_self {α : Type} {f : α → α} {o : Option α} (h : ∀ x, o = some x → f x = x) : o.map f = o := by
  cases o with
  | none => rfl
  | some a => simp only [Option.map_some, h a rfl]

/-! ## scorers -/

def TableCanon (cfg : Cfg) (tw : List (List (List (Nat × WV)))) : Prop :=
  ∀ row ∈ tw, ∀ m ∈ row, ∀ e ∈ m, Canon cfg e.2

def ScorerCanon {α : Type} (cfg : Cfg) (sc : PmaScorer α) : Prop :=
  (∀ o ∈ sc.weights, ∀ p, o = some p → Canon cfg p.weight) ∧
  (∀ tw, sc.tagWeight = some tw → TableCanon cfg tw)

theorem PWV.reser_of_canon {cfg : Cfg} {p : PWV} (h : Canon cfg p.weight) : p.reser cfg = p := by
  cases p with
  | mk off w =>
    simp only [PWV.reser]
    rw [Canon.reser h]

theorem ScorerCanon.reser {α : Type} {cfg : Cfg} {sc : PmaScorer α} (h : ScorerCanon cfg sc) :
    sc.reser cfg = sc := by
  cases sc with
  | mk pats weights tagWeight =>
    obtain ⟨h1, h2⟩ := h
    simp only at h1 h2
    simp only [PmaScorer.reser]
    have e1 : weights.map (Option.map (PWV.reser cfg)) = weights :=
      map_eq_self fun o ho => optmap_eq_self fun p hp => PWV.reser_of_canon (h1 o ho p hp)
    have e2 : (tagWeight.map fun tw => tw.map fun row => row.map fun m => m.map fun e => (e.1, e.2.reser cfg))
        = tagWeight :=
      optmap_eq_self fun tw htw =>
        map_eq_self fun row hrow => map_eq_self fun m hm => map_eq_self fun e he => by
          rw [Canon.reser (h2 tw htw row hrow m hm e he)]
    rw [e1, e2]

theorem tableCanon_replicate (cfg : Cfg) (a b : Nat) :
    TableCanon cfg (List.replicate a (List.replicate b ([] : List (Nat × WV)))) := by
  intro row hrow m hm e he
  rw [List.mem_replicate] at hrow
  rw [hrow.2, List.mem_replicate] at hm
  rw [hm.2] at he
  cases he

theorem insertTagWeights_canon (cfg : Cfg) (id : Nat) :
    ∀ (l : List ((Nat × Nat) × List Int)) (tw tw' : List (List (List (Nat × WV)))),
      TableCanon cfg tw → insertTagWeights cfg id l tw = .ok tw' → TableCanon cfg tw' := by
  intro l
  induction l with
  | nil =>
    intro tw tw' h he
    simp only [insertTagWeights, Res.ok.injEq] at he
    exact he ▸ h
  | cons x r ih =>
    intro tw tw' h he
    obtain ⟨⟨tid, rel⟩, w⟩ := x
    simp only [insertTagWeights] at he
    split at he
    · cases he
    · rename_i row hrow
      split at he
      · cases he
      · rename_i m hm
        refine ih _ tw' ?_ he
        have hrowmem : row ∈ tw := List.mem_of_getElem? hrow
        have hmmem : m ∈ row := List.mem_of_getElem? hm
        intro row' hrow' m' hm' e he'
        rcases List.mem_or_eq_of_mem_set hrow' with h1 | rfl
        · exact h row' h1 m' hm' e he'
        · rcases List.mem_or_eq_of_mem_set hm' with h2 | rfl
          · exact h row hrowmem m' h2 e he'
          · rcases List.mem_append.1 he' with h3 | h3
            · exact h row hrowmem m hmmem e h3
            · simp only [List.mem_singleton] at h3
              subst h3
              exact canon_ofList cfg w

theorem fillTagWeights_canon {α : Type} (cfg : Cfg) :
    ∀ (l : List (List α × PWT)) (id : Nat) (tw tw' : List (List (List (Nat × WV)))),
      TableCanon cfg tw → fillTagWeights cfg l id tw = .ok tw' → TableCanon cfg tw' := by
  intro l
  induction l with
  | nil =>
    intro id tw tw' h he
    simp only [fillTagWeights, Res.ok.injEq] at he
    exact he ▸ h
  | cons x r ih =>
    intro id tw tw' h he
    simp only [fillTagWeights] at he
    split at he
    · rename_i tw1 h1
      exact ih _ _ _ (insertTagWeights_canon cfg id _ _ _ h h1) he
    all_goals cases he

theorem buildBoundary_canon {α : Type} [DecidableEq α] {cfg : Cfg} {es : List (List α × PW)} {sc : PmaScorer α}
    (h : buildBoundary cfg es = .ok sc) : ScorerCanon cfg sc := by
  simp only [buildBoundary] at h
  split at h
  · simp only [Res.ok.injEq] at h
    subst h
    refine ⟨?_, ?_⟩
    · intro o ho p hp
      simp only [List.mem_map] at ho
      obtain ⟨e, _, rfl⟩ := ho
      simp only [Option.some.injEq] at hp
      subst hp
      exact canon_ofList cfg _
    · intro tw htw
      simp only at htw
      cases htw
  · cases h

theorem buildBoundaryTag_canon {α : Type} [DecidableEq α] {cfg : Cfg} {w n : Nat} {es : List (List α × PWT)}
    {sc : PmaScorer α} (h : buildBoundaryTag cfg w n es = .ok sc) : ScorerCanon cfg sc := by
  simp only [buildBoundaryTag] at h
  split at h
  · rename_i tw htw
    split at h
    · simp only [Res.ok.injEq] at h
      subst h
      refine ⟨?_, ?_⟩
      · intro o ho p hp
        simp only [List.mem_map] at ho
        obtain ⟨e, _, rfl⟩ := ho
        cases hw : e.2.weight with
        | none => rw [hw] at hp; cases hp
        | some q =>
          rw [hw] at hp
          simp only [Option.map_some, Option.some.injEq] at hp
          subst hp
          exact canon_ofList cfg _
      · intro tw' htw'
        simp only [Option.some.injEq] at htw'
        subst htw'
        exact fillTagWeights_canon cfg _ _ _ _ (tableCanon_replicate cfg _ _) htw
    · cases h
  all_goals cases h

theorem res_map_ok {α β : Type} {f : α → β} {r : Res α} {y : β} (h : r.map f = .ok y) :
    ∃ x, r = .ok x ∧ y = f x := by
  cases r with
  | ok a => simp only [Res.map, Res.ok.injEq] at h; exact ⟨a, rfl, h.symm⟩
  | err e => cases h
  | panic s => cases h
  | ub s => cases h

theorem charScorerNew_canon {cfg : Cfg} {m : WModel} {tn : List (List (TagNgramData Char))}
    {cs : Option (PmaScorer Char)} (h : charScorerNew cfg m tn = .ok cs) :
    ∀ sc, cs = some sc → ScorerCanon cfg sc := by
  intro sc hsc
  subst hsc
  simp only [charScorerNew] at h
  generalize (if m.charW = 0 then ({ m with charNgrams := [] } : WModel) else m) = m' at h
  split at h
  · cases h
  · split at h
    · cases h
    · split at h
      · obtain ⟨x, hx, hy⟩ := res_map_ok h
        simp only [Option.some.injEq] at hy
        subst hy
        exact buildBoundaryTag_canon hx
      · obtain ⟨x, hx, hy⟩ := res_map_ok h
        simp only [Option.some.injEq] at hy
        subst hy
        exact buildBoundary_canon hx

def TypeCanon (cfg : Cfg) : TypeScorer → Prop
  | .pma sc => ScorerCanon cfg sc
  | .cache _ _ => True

theorem TypeCanon.reser {cfg : Cfg} {ts : TypeScorer} (h : TypeCanon cfg ts) : ts.reser cfg = ts := by
  cases ts with
  | pma sc => simp only [TypeScorer.reser]; rw [ScorerCanon.reser h]
  | cache ng w => rfl

theorem typeScorerNew_canon {cfg : Cfg} {m : WModel} {tn : List (List (TagNgramData Nat))}
    {ts : Option TypeScorer} (h : typeScorerNew cfg m tn = .ok ts) :
    ∀ t, ts = some t → TypeCanon cfg t := by
  intro t ht
  subst ht
  simp only [typeScorerNew] at h
  generalize (if m.typeW = 0 then ({ m with typeNgrams := [] } : WModel) else m) = m' at h
  split at h
  · cases h
  · split at h
    · obtain ⟨x, hx, hy⟩ := res_map_ok h
      simp only [Option.some.injEq] at hy
      subst hy
      exact buildBoundaryTag_canon hx
    · split at h
      · split at h
        · simp only [Res.ok.injEq, Option.some.injEq] at h
          subst h
          trivial
        · cases h
      · obtain ⟨x, hx, hy⟩ := res_map_ok h
        simp only [Option.some.injEq] at hy
        subst hy
        exact buildBoundary_canon hx

/-! ## the predictor -/

theorem tagPredictor_reser (cfg : Cfg) (tms : List TagModel) :
    ((tms.zipIdx).map fun (tm, i) => (tm.token, i, ({ tags := tm.tags, bias := WV.ofList cfg tm.bias } : TagPredictor))).map
      (fun e => (e.1, e.2.1, ({ e.2.2 with bias := e.2.2.bias.reser cfg } : TagPredictor)))
    = (tms.zipIdx).map fun (tm, i) => (tm.token, i, ({ tags := tm.tags, bias := WV.ofList cfg tm.bias } : TagPredictor)) := by
  apply map_eq_self
  intro e he
  simp only [List.mem_map] at he
  obtain ⟨⟨tm, i⟩, _, rfl⟩ := he
  simp only [ofList_reser]

theorem new_reser {cfg : Cfg} {m : WModel} {pt : Bool} {p : Predictor} (hp : Predictor.new cfg m pt = .ok p) :
    p.reser cfg = p := by
  simp only [Predictor.new] at hp
  split at hp
  · cases hp
  · split at hp
    · rename_i cs hcs
      split at hp
      · rename_i ts hts
        simp only [Res.ok.injEq] at hp
        subst hp
        have e1 : cs.map (PmaScorer.reser cfg) = cs :=
          optmap_eq_self fun sc hsc => (charScorerNew_canon hcs sc hsc).reser
        have e2 : ts.map (TypeScorer.reser cfg) = ts :=
          optmap_eq_self fun t ht => (typeScorerNew_canon hts t ht).reser
        simp only [Predictor.reser, e1, e2]
        congr 1
        split
        · simp only [Option.map_some, tagPredictor_reser]
        · rfl
      all_goals cases hp
    all_goals cases hp

end V.C14L
