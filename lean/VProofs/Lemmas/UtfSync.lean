import VProofs.Lemmas.UtfBytes
/-!
# UTF-8 self-synchronisation: byte-level occurrences of a non-empty pattern are character-level occurrences
-/
namespace V.UtfL
open V V.Bin V.BinL

theorem utf8Encode_append (a b : List Char) : utf8Encode (a ++ b) = utf8Encode a ++ utf8Encode b := by
  simp [utf8Encode]

theorem utf8Encode_nil : utf8Encode [] = [] := rfl

/-- prefix cancellation: the encoder is injective "from the left" -/
theorem encode_prefix_cancel (p : List Char) : ∀ (t : List Char) (z : Bytes),
    utf8Encode p ++ z = utf8Encode t → ∃ q, t = p ++ q ∧ z = utf8Encode q := by
  induction p with
  | nil => intro t z h; exact ⟨t, rfl, by simpa [utf8Encode_nil] using h⟩
  | cons c p ih =>
    intro t z h
    cases t with
    | nil =>
      have hne := utf8EncodeChar_nonempty c
      have := congrArg List.length h
      simp only [utf8Encode_cons, utf8Encode_nil, List.length_append, List.length_nil] at this
      omega
    | cons d t =>
      rw [utf8Encode_cons, utf8Encode_cons, List.append_assoc] at h
      have hd := congrArg utf8DecodeChar? h
      rw [utf8DecodeChar_encode, utf8DecodeChar_encode] at hd
      simp only [Option.some.injEq, Prod.mk.injEq] at hd
      obtain ⟨hcd, ht⟩ := hd
      obtain ⟨q, hq, hz⟩ := ih t z ht
      exact ⟨q, by rw [hcd, hq]; rfl, hz⟩

/-- a split of the encoding whose right part is empty or starts with a lead byte is a split at a character boundary -/
theorem encode_split (t : List Char) : ∀ (a b : Bytes), utf8Encode t = a ++ b →
    (b = [] ∨ ∃ x r, b = x :: r ∧ isCont x = false) →
    ∃ pre post, t = pre ++ post ∧ a = utf8Encode pre ∧ b = utf8Encode post := by
  induction t with
  | nil =>
    intro a b h _
    have h' := h.symm
    rw [utf8Encode_nil, List.append_eq_nil_iff] at h'
    exact ⟨[], [], rfl, h'.1, h'.2⟩
  | cons c t ih =>
    intro a b h hb
    rw [utf8Encode_cons, List.append_eq_append_iff] at h
    rcases h with ⟨as, ha, hs⟩ | ⟨bs, ha, hs⟩
    · obtain ⟨pre, post, ht, hpre, hpost⟩ := ih as b hs hb
      exact ⟨c :: pre, post, by rw [ht]; rfl, by rw [ha, hpre, utf8Encode_cons], hpost⟩
    · cases a with
      | nil =>
        refine ⟨[], c :: t, rfl, rfl, ?_⟩
        rw [hs, utf8Encode_cons, ha]; rfl
      | cons y a' =>
        cases bs with
        | nil =>
          refine ⟨[c], t, rfl, ?_, ?_⟩
          · rw [utf8Encode_cons, utf8Encode_nil, ha]; simp
          · rw [hs]; rfl
        | cons x bs' =>
          exfalso
          obtain ⟨b0, rest, he, _, hrest, _, _⟩ := encChar_shape c
          rw [he, List.cons_append, List.cons.injEq] at ha
          have hx : isCont x = true := hrest x (by rw [ha.2]; simp)
          rcases hb with hb | ⟨x', r, hb, hx'⟩
          · rw [hb] at hs; simp at hs
          · rw [hb, List.cons_append, List.cons.injEq] at hs
            rw [hs.1, hx] at hx'
            exact Bool.noConfusion hx'

/-- the encoding of a non-empty string starts with a lead byte -/
theorem encode_head_lead (p : List Char) (hp : p ≠ []) (r : Bytes) :
    ∃ x r', utf8Encode p ++ r = x :: r' ∧ isCont x = false := by
  cases p with
  | nil => exact absurd rfl hp
  | cons c p =>
    obtain ⟨b0, rest, he, hb0, _⟩ := encChar_shape c
    exact ⟨b0, rest ++ utf8Encode p ++ r, by rw [utf8Encode_cons, he]; simp, hb0⟩

/-- byte-level occurrence of a non-empty pattern ⇒ character-level occurrence at the same place -/
theorem encode_occurrence (pat text : List Char) (hp : pat ≠ []) (w r : Bytes)
    (h : utf8Encode text = w ++ utf8Encode pat ++ r) :
    ∃ pre post, text = pre ++ pat ++ post ∧ w = utf8Encode pre ∧ r = utf8Encode post := by
  rw [List.append_assoc] at h
  obtain ⟨pre, post, ht, hw, hpost⟩ := encode_split text w (utf8Encode pat ++ r) h
    (Or.inr (encode_head_lead pat hp r))
  obtain ⟨q, hq, hr⟩ := encode_prefix_cancel pat post r hpost
  exact ⟨pre, q, by rw [ht, hq, List.append_assoc], hw, hr⟩

theorem match_end_boundary (pat text : List Char) (hp : pat ≠ []) (k : Nat)
    (hk : k ≤ (utf8Encode text).length) (h : utf8Encode pat <:+ (utf8Encode text).take k) :
    ∃ j, j ≤ text.length ∧ k = (utf8Encode (text.take j)).length ∧ pat <:+ text.take j := by
  obtain ⟨w, hw⟩ := h
  have hsplit : utf8Encode text = w ++ utf8Encode pat ++ (utf8Encode text).drop k := by
    rw [hw, List.take_append_drop]
  obtain ⟨pre, post, ht, hpre, _⟩ := encode_occurrence pat text hp w _ hsplit
  have htake : text.take (pre ++ pat).length = pre ++ pat := by
    rw [ht]; exact List.take_left
  refine ⟨(pre ++ pat).length, ?_, ?_, ?_⟩
  · rw [ht]; simp only [List.length_append]; omega
  · rw [htake, utf8Encode_append, ← hpre, hw, List.length_take, Nat.min_eq_left hk]
  · rw [htake]; exact List.suffix_append _ _

theorem char_match_is_byte_match (pat text : List Char) (j : Nat) (h : pat <:+ text.take j) :
    utf8Encode pat <:+ (utf8Encode text).take (utf8Encode (text.take j)).length := by
  obtain ⟨pre, hpre⟩ := h
  have ht : utf8Encode text = utf8Encode (text.take j) ++ utf8Encode (text.drop j) := by
    rw [← utf8Encode_append, List.take_append_drop]
  rw [ht, List.take_left, ← hpre, utf8Encode_append]
  exact List.suffix_append _ _

end V.UtfL
