import VProofs.Lemmas.EvalFmtDigits
/-!
# The converse of `round_of_interval`: what rounds to the double `a` lies in the rounding interval of `a`
-/
namespace V.FmtL
open V V.F64 V.QuantL

/-- the normal form `c·2^t` (`c < 2^53`, `2^52 ≤ c` unless `t = 0`) of a positive number is unique -/
theorem normal_unique (c t r u : Nat) (hr0 : 0 < r) (hc : c < 2 ^ 53) (hr : r < 2 ^ 53)
    (hn : t = 0 ∨ 2 ^ 52 ≤ c) (hm : u = 0 ∨ 2 ^ 52 ≤ r) (h : r * 2 ^ u = c * 2 ^ t) : c = r ∧ t = u := by
  have h53 : (2 : Nat) ^ 53 = 2 ^ 52 * 2 := by decide
  rcases Nat.lt_trichotomy t u with hlt | heq | hgt
  · exfalso
    obtain ⟨j, rfl⟩ : ∃ j, u = t + (j + 1) := ⟨u - t - 1, by omega⟩
    have hx : r * 2 ^ (t + (j + 1)) = r * 2 ^ (j + 1) * 2 ^ t := by rw [Nat.pow_add]; ac_rfl
    rw [hx] at h
    have h2 := Nat.eq_of_mul_eq_mul_right (two_pow_pos t) h
    have hj : 2 ≤ 2 ^ (j + 1) := by
      have := Nat.pow_le_pow_right (n := 2) (by decide) (show 1 ≤ j + 1 by omega)
      simpa using this
    have h3 : r * 2 ≤ r * 2 ^ (j + 1) := Nat.mul_le_mul_left r hj
    rcases hm with hm | hm
    · omega
    · omega
  · subst heq
    exact ⟨(Nat.eq_of_mul_eq_mul_right (two_pow_pos t) h).symm, rfl⟩
  · exfalso
    obtain ⟨j, rfl⟩ : ∃ j, t = u + (j + 1) := ⟨t - u - 1, by omega⟩
    have hx : c * 2 ^ (u + (j + 1)) = c * 2 ^ (j + 1) * 2 ^ u := by rw [Nat.pow_add]; ac_rfl
    rw [hx] at h
    have h2 := Nat.eq_of_mul_eq_mul_right (two_pow_pos u) h
    have hj : 2 ≤ 2 ^ (j + 1) := by
      have := Nat.pow_le_pow_right (n := 2) (by decide) (show 1 ≤ j + 1 by omega)
      simpa using this
    have h3 : c * 2 ≤ c * 2 ^ (j + 1) := Nat.mul_le_mul_left c hj
    have hc0 : 0 < c := by
      apply Nat.pos_of_ne_zero
      intro h0
      rw [h0, Nat.zero_mul] at h2
      omega
    rcases hn with hn | hn
    · omega
    · omega

/-- the core of the converse, on the normal form -/
theorem interval_core (c t n d : Nat) (hd : 0 < d) (hc0 : 0 < c) (hc : c < 2 ^ 53) (hn : t = 0 ∨ 2 ^ 52 ≤ c)
    (h : roundUnits n d = c * 2 ^ t) :
    4 * (c * 2 ^ t) * d ≤ 4 * n + (if c = 2 ^ 52 ∧ t ≠ 0 then 2 ^ t else 2 * 2 ^ t) * d ∧
    4 * n ≤ 4 * (c * 2 ^ t) * d + 2 * 2 ^ t * d ∧
    (c % 2 ≠ 0 → 4 * (c * 2 ^ t) * d < 4 * n + (if c = 2 ^ 52 ∧ t ≠ 0 then 2 ^ t else 2 * 2 ^ t) * d ∧
      4 * n < 4 * (c * 2 ^ t) * d + 2 * 2 ^ t * d) := by
  have h53 : (2 : Nat) ^ 53 = 2 ^ 52 * 2 := by decide
  have hD : 0 < d * 2 ^ shiftOf n d := Nat.mul_pos hd (two_pow_pos _)
  obtain ⟨s1, s2, s3, s4⟩ := rneDiv_spec n (d * 2 ^ shiftOf n d) hD
  have hle := mant_le n d hd
  have hup := shift_upper n d hd
  have hlo := shift_lower n d hd
  have hge := mant_ge n d hd
  rw [roundUnits_eq] at h
  generalize shiftOf n d = u at *
  generalize rneDiv n (d * 2 ^ u) = r at *
  have hr0 : 0 < r := by
    apply Nat.pos_of_ne_zero
    intro h0
    rw [h0, Nat.zero_mul] at h
    have := Nat.mul_pos hc0 (two_pow_pos t)
    omega
  by_cases hr53 : r = 2 ^ 53
  · -- the rounding went up to the next power of two
    subst hr53
    have hu1 : 2 ^ (u + 1) = 2 ^ u * 2 := Nat.pow_succ 2 u
    have h' : 2 ^ 52 * 2 ^ (u + 1) = c * 2 ^ t := by
      rw [← h, hu1, h53]; ac_rfl
    obtain ⟨e1, e2⟩ := normal_unique c t (2 ^ 52) (u + 1) (by decide) hc (by decide) hn (Or.inr (Nat.le_refl _)) h'
    subst e1; subst e2
    rw [if_pos ⟨rfl, by omega⟩]
    have eX : 4 * (2 ^ 52 * 2 ^ (u + 1)) * d = 4 * (d * 2 ^ u * 2 ^ 53) := by
      rw [hu1, h53]; ac_rfl
    have eU : 2 * 2 ^ (u + 1) * d = 4 * (d * 2 ^ u) := by
      rw [hu1, show (4 : Nat) = 2 * 2 from rfl]; ac_rfl
    have eDn : 2 ^ (u + 1) * d = 2 * (d * 2 ^ u) := by rw [hu1]; ac_rfl
    have e53 : d * 2 ^ (u + 53) = d * 2 ^ u * 2 ^ 53 := by rw [Nat.pow_add, Nat.mul_assoc]
    rw [eX, eU, eDn]
    rw [e53] at hup
    refine ⟨by omega, by omega, ?_⟩
    intro ho
    exact absurd (by decide : 2 ^ 52 % 2 = 0) ho
  · have hr : r < 2 ^ 53 := by omega
    have hm : u = 0 ∨ 2 ^ 52 ≤ r := by
      by_cases hu : u = 0
      · exact Or.inl hu
      · exact Or.inr (hge hu)
    obtain ⟨e1, e2⟩ := normal_unique c t r u hr0 hc hr hn hm h
    subst e1; subst e2
    have eX : 4 * (c * 2 ^ t) * d = 4 * (d * 2 ^ t * c) := by ac_rfl
    have eU : 2 * 2 ^ t * d = 2 * (d * 2 ^ t) := by ac_rfl
    have eD1 : 2 ^ t * d = d * 2 ^ t := Nat.mul_comm _ _
    have e52 : d * 2 ^ (t + 52) = d * 2 ^ t * 2 ^ 52 := by rw [Nat.pow_add, Nat.mul_assoc]
    rw [eX, eU]
    by_cases hsp : c = 2 ^ 52 ∧ t ≠ 0
    · rw [if_pos hsp, eD1]
      obtain ⟨hc52, ht0⟩ := hsp
      have hlo' : d * 2 ^ t * 2 ^ 52 ≤ n := by
        rcases hlo with hlo | hlo
        · exact absurd hlo ht0
        · rw [e52] at hlo; exact hlo
      subst hc52
      refine ⟨by omega, by omega, ?_⟩
      intro ho
      exact absurd (by decide : 2 ^ 52 % 2 = 0) ho
    · rw [if_neg hsp, eU]
      refine ⟨by omega, by omega, ?_⟩
      intro ho
      constructor
      · apply Nat.lt_of_le_of_ne (by omega)
        intro e
        exact ho (s4 (by omega))
      · apply Nat.lt_of_le_of_ne (by omega)
        intro e
        exact ho (s3 (by omega))

/-- what rounds to the non-zero double `a` lies inside the rounding interval of `a` -/
theorem interval_of_round (a n d : Nat) (hd : 0 < d) (ha : 0 < a) (h : roundUnits n d = a) :
    F64.inRoundInterval a n d = true := by
  have hrep : repUnits a = true := by rw [← h]; exact repUnits_of_repU (roundUnits_rep n d hd)
  obtain ⟨e1, hc0, hc, hn⟩ := rep_normal a ha hrep
  unfold F64.inRoundInterval
  simp only []
  generalize a.log2 - 52 = t at e1 hc0 hc hn
  generalize a / 2 ^ t = c at e1 hc0 hc hn
  have hiff : (a = 2 ^ (52 + t) ∧ t ≠ 0) ↔ (c = 2 ^ 52 ∧ t ≠ 0) := by
    have hT := two_pow_pos t
    constructor
    · rintro ⟨h1, h2⟩
      refine ⟨?_, h2⟩
      rw [e1, Nat.pow_add] at h1
      exact Nat.eq_of_mul_eq_mul_right hT h1
    · rintro ⟨h1, h2⟩
      refine ⟨?_, h2⟩
      rw [e1, h1, Nat.pow_add]
  have hdown : (if a = 2 ^ (52 + t) ∧ t ≠ 0 then 2 ^ t else 2 * 2 ^ t) = (if c = 2 ^ 52 ∧ t ≠ 0 then 2 ^ t else 2 * 2 ^ t) := by
    by_cases hx : c = 2 ^ 52 ∧ t ≠ 0
    · rw [if_pos hx, if_pos (hiff.mpr hx)]
    · rw [if_neg hx, if_neg (fun h => hx (hiff.mp h))]
  rw [hdown]
  rw [e1] at h ⊢
  obtain ⟨k1, k2, k3⟩ := interval_core c t n d hd hc0 hc hn h
  by_cases hev : c % 2 = 0
  · rw [if_pos hev]
    simp only [Bool.and_eq_true, decide_eq_true_eq]
    exact ⟨k1, k2⟩
  · rw [if_neg hev]
    simp only [Bool.and_eq_true, decide_eq_true_eq]
    exact k3 hev

/-- a rational reads back as the non-zero double `a` exactly when it lies in the rounding interval of `a` -/
theorem interval_iff (a n d : Nat) (hd : 0 < d) (ha : 0 < a) (hrep : repUnits a = true) :
    roundUnits n d = a ↔ F64.inRoundInterval a n d = true :=
  ⟨interval_of_round a n d hd ha, round_of_interval a n d hd ha hrep⟩

theorem pack_eq_fin (r a : Nat) (hat : a < top) : F64.pack false r = .fin false a ↔ r = a := by
  unfold F64.pack
  constructor
  · intro h
    split at h
    · exact (F64.fin.inj h).2
    · exact F64.noConfusion h
  · intro h
    rw [h, if_pos hat]

/-- a digit string reads back as the non-zero double `a` exactly when its value lies in the rounding interval of `a` -/
theorem decimal_interval_iff (a : Nat) (ha : 0 < a) (hat : a < top) (hrep : repUnits a = true) (ds : List Nat) (e : Int) :
    decimalToF64 ds e = .fin false a ↔ decInInterval a (ofDigits ds) (e - (ds.length : Int)) = true := by
  unfold decimalToF64 decInInterval
  rw [pack_eq_fin _ _ hat]
  exact interval_iff a _ _ (decDen_pos _) ha hrep

end V.FmtL
