import VModel.Trainer
import VModel.Spec
import VProofs.Lemmas.ScoreSum
import VProofs.Lemmas.AsmFold
import VProofs.Lemmas.AsmNgram
import VProofs.Lemmas.AsmDict
/-!
# C09 helpers (5): totality, shape and score of the assembled model

The theorems are stated with `Generable` and `CfgOK` of `VProofs/C09.lean` unfolded, and with `wq` a copy of `wqOf`
(those definitions live in the property file, which imports this one).
-/
namespace V.C09L
open V V.C01L

/-- copy of `V.wqOf` -/
def wq (trace : List (Feature × Int)) (f : Feature) : Int :=
  match trace.find? (fun e => e.1 = f) with
  | some e => e.2
  | none => 0

/-! ## generated features are good -/

theorem dictMatches_mem (words : List (List Char)) (hne : ∀ w ∈ words, w ≠ []) (text : List Char) (st en : Nat)
    (h : (st, en) ∈ dictMatches words text) : 1 ≤ en - st := by
  unfold dictMatches at h
  obtain ⟨k, hk, h⟩ := List.mem_flatMap.mp h
  obtain ⟨w, hw, h⟩ := List.mem_filterMap.mp h
  have hk' := List.mem_range.mp hk
  by_cases hs : w.isSuffixOf (text.take (k + 1)) = true
  · rw [if_pos hs] at h
    obtain ⟨s1, _⟩ := (suffix_take_iff w text k hk').mp hs
    have hwl : 1 ≤ w.length := by
      have := hne w hw
      cases w with
      | nil => exact absurd rfl this
      | cons _ _ => simp
    obtain ⟨e1, e2⟩ := Prod.mk.inj (Option.some.inj h)
    omega
  · rw [if_neg hs] at h
    cases h

theorem good_of_gen (cfg : TrainCfg) (hne : ∀ w ∈ cfg.dictWords, w ≠ []) (hD : 1 ≤ cfg.dictMaxLen)
    (f : Feature) (text : List Char) (i : Nat) (h : f ∈ genFeatures cfg text i) : GoodF cfg f := by
  unfold genFeatures at h
  rcases List.mem_append.mp h with h | h
  · rcases List.mem_append.mp h with h | h
    · obtain ⟨p, hp, rfl⟩ := List.mem_map.mp h
      exact ngramFeats_mem cfg.charW cfg.charN text i p.1 p.2 hp
    · obtain ⟨p, hp, rfl⟩ := List.mem_map.mp h
      exact ngramFeats_mem cfg.typeW cfg.typeN (typesOf text) i p.1 p.2 hp
  · unfold dictFeats at h
    obtain ⟨⟨st, en⟩, hm, h⟩ := List.mem_flatMap.mp h
    have hlen := dictMatches_mem cfg.dictWords hne text st en hm
    simp only [List.mem_append] at h
    have hgood : ∀ pos, GoodF cfg (.dictWord (min (en - st) cfg.dictMaxLen) pos) := by
      intro pos
      show 1 ≤ min (en - st) cfg.dictMaxLen ∧ min (en - st) cfg.dictMaxLen ≤ cfg.dictMaxLen
      omega
    rcases h with (h | h) | h
    · split at h
      · rw [List.mem_singleton.mp h]; exact hgood _
      · cases h
    · split at h
      · rw [List.mem_singleton.mp h]; exact hgood _
      · cases h
    · split at h
      · rw [List.mem_singleton.mp h]; exact hgood _
      · cases h

/-! ## shape (no hypothesis on the trace) -/

theorem setAt_length (v v' : List Int) (pos w : Int) (h : setAt v pos w = .ok v') : v'.length = v.length := by
  unfold setAt at h
  split at h
  · split at h
    · cases h; simp
    · cases h
  · cases h

section
variable {α : Type} [DecidableEq α]

def ShapeOK (W : Nat) (e : List α × List Int) : Prop :=
  e.2.length = 2 * W - e.1.length + 1 ∧ e.1.length ≤ 2 * W

theorem placeNgram_shape (lt : List α → List α → Bool) (W : Nat) (g : List α) (rel w : Int)
    (m m' : List (List α × List Int)) (hm : ∀ e ∈ m, ShapeOK W e) (h : placeNgram lt W g rel w m = .ok m') :
    ∀ e ∈ m', ShapeOK W e := by
  unfold placeNgram at h
  refine sortedUpsert_all g _ _ (ShapeOK W) ?_ ?_ m m' hm h
  · intro v hv
    split at hv
    · have := setAt_length _ _ _ _ hv
      rw [List.length_replicate] at this
      constructor
      · show v.length = 2 * W - g.length + 1; omega
      · assumption
    · cases hv
  · intro v v' hP hv
    have := setAt_length _ _ _ _ hv
    exact ⟨by show v'.length = _; rw [this]; exact hP.1, hP.2⟩

end

theorem res_map_ok {β γ : Type} (f : β → γ) (r : Res β) (y : γ) (h : r.map f = .ok y) : ∃ x, r = .ok x ∧ y = f x := by
  cases r with
  | ok x => exact ⟨x, rfl, by simpa [Res.map] using h.symm⟩
  | err _ => simp [Res.map] at h
  | panic _ => simp [Res.map] at h
  | ub _ => simp [Res.map] at h

theorem asmStep_shape (cfg : TrainCfg) (a a' : Asm) (fw : Feature × Int)
    (hc : ∀ e ∈ a.charM, ShapeOK cfg.charW e) (ht : ∀ e ∈ a.typeM, ShapeOK cfg.typeW e)
    (h : asmStep cfg a fw = .ok a') :
    (∀ e ∈ a'.charM, ShapeOK cfg.charW e) ∧ (∀ e ∈ a'.typeM, ShapeOK cfg.typeW e) := by
  obtain ⟨f, w⟩ := fw
  unfold asmStep at h
  by_cases hw : w = 0
  · simp only [hw, if_true, Res.ok.injEq] at h
    subst h
    exact ⟨hc, ht⟩
  · simp only [hw, if_false] at h
    cases f with
    | charNgram g rel =>
      obtain ⟨m', hm', rfl⟩ := res_map_ok _ _ _ h
      exact ⟨placeNgram_shape _ _ _ _ _ _ _ hc hm', ht⟩
    | typeNgram g rel =>
      obtain ⟨m', hm', rfl⟩ := res_map_ok _ _ _ h
      exact ⟨hc, placeNgram_shape _ _ _ _ _ _ _ ht hm'⟩
    | dictWord len pos =>
      simp only at h
      split at h
      · cases h
      · cases h
        exact ⟨hc, ht⟩

theorem asmFold_shape (cfg : TrainCfg) :
    ∀ (trace : List (Feature × Int)) (a a' : Asm),
      (∀ e ∈ a.charM, ShapeOK cfg.charW e) → (∀ e ∈ a.typeM, ShapeOK cfg.typeW e) →
      asmFold cfg trace a = .ok a' →
      (∀ e ∈ a'.charM, ShapeOK cfg.charW e) ∧ (∀ e ∈ a'.typeM, ShapeOK cfg.typeW e)
  | [], a, a', hc, ht, h => by
    simp only [asmFold, Res.ok.injEq] at h
    subst h
    exact ⟨hc, ht⟩
  | fw :: r, a, a', hc, ht, h => by
    simp only [asmFold] at h
    cases hs : asmStep cfg a fw with
    | ok a1 =>
      rw [hs] at h
      obtain ⟨hc1, ht1⟩ := asmStep_shape cfg a a1 fw hc ht hs
      exact asmFold_shape cfg r a1 a' hc1 ht1 h
    | err _ => rw [hs] at h; cases h
    | panic _ => rw [hs] at h; cases h
    | ub _ => rw [hs] at h; cases h

/-- inversion of `assembleBoundary` -/
theorem assemble_ok (cfg : TrainCfg) (trace : List (Feature × Int)) (bias : Int) (tms : List TagModel) (m : WModel)
    (h : assembleBoundary cfg trace bias tms = .ok m) :
    ∃ a dict, asmFold cfg trace { dictW := List.replicate cfg.dictMaxLen (0, 0, 0) } = .ok a ∧
      mapRes (dictRecord a.dictW) cfg.dictWords = .ok dict ∧
      m = { charNgrams := a.charM.map fun e => ⟨e.1, e.2⟩, typeNgrams := a.typeM.map fun e => ⟨e.1, e.2⟩,
            dict := dict, bias := bias, charW := cfg.charW, typeW := cfg.typeW, tagModels := tms } := by
  unfold assembleBoundary at h
  cases ha : asmFold cfg trace { dictW := List.replicate cfg.dictMaxLen (0, 0, 0) } with
  | ok a =>
    rw [ha] at h
    simp only at h
    cases hd : mapRes (dictRecord a.dictW) cfg.dictWords with
    | ok dict =>
      rw [hd] at h
      simp only [Res.ok.injEq] at h
      exact ⟨a, dict, rfl, hd, h.symm⟩
    | err _ => rw [hd] at h; cases h
    | panic _ => rw [hd] at h; cases h
    | ub _ => rw [hd] at h; cases h
  | err _ => rw [ha] at h; cases h
  | panic _ => rw [ha] at h; cases h
  | ub _ => rw [ha] at h; cases h

theorem vector_shape (cfg : TrainCfg) (trace : List (Feature × Int)) (bias : Int) (tms : List TagModel) (m : WModel)
    (h : assembleBoundary cfg trace bias tms = .ok m) :
    (∀ d ∈ m.charNgrams, d.weights.length = 2 * cfg.charW - d.ngram.length + 1 ∧ d.ngram.length ≤ 2 * cfg.charW) ∧
    (∀ d ∈ m.typeNgrams, d.weights.length = 2 * cfg.typeW - d.ngram.length + 1 ∧ d.ngram.length ≤ 2 * cfg.typeW) ∧
    (∀ d ∈ m.dict, d.weights.length = d.word.length + 1) ∧
    m.charW = cfg.charW ∧ m.typeW = cfg.typeW ∧ m.bias = bias ∧ m.dict.map (·.word) = cfg.dictWords := by
  obtain ⟨a, dict, ha, hd, rfl⟩ := assemble_ok cfg trace bias tms m h
  obtain ⟨hc, ht⟩ := asmFold_shape cfg trace _ a (by intro e he; cases he) (by intro e he; cases he) ha
  refine ⟨?_, ?_, ?_, rfl, rfl, rfl, ?_⟩
  · intro d hd'
    obtain ⟨e, he, rfl⟩ := List.mem_map.mp hd'
    exact hc e he
  · intro d hd'
    obtain ⟨e, he, rfl⟩ := List.mem_map.mp hd'
    exact ht e he
  · intro d hd'
    obtain ⟨w, _, hw⟩ := mapRes_mem _ _ _ hd d hd'
    obtain ⟨h1, h2⟩ := dictRecord_shape _ _ _ hw
    rw [h1]; exact h2
  · exact mapRes_map_inv _ (·.word) (fun x y hxy => (dictRecord_shape _ _ _ hxy).1) _ _ hd

/-! ## totality and score -/

theorem assemble_run (cfg : TrainCfg) (hne : ∀ w ∈ cfg.dictWords, w ≠ []) (hD : 1 ≤ cfg.dictMaxLen)
    (trace : List (Feature × Int)) (bias : Int) (tms : List TagModel)
    (hg : ∀ e ∈ trace, ∃ text i, i + 1 < text.length ∧ e.1 ∈ genFeatures cfg text i) :
    ∃ a, Inv cfg (trace.foldl stepF (fun _ => 0)) a ∧
      assembleBoundary cfg trace bias tms =
        .ok { charNgrams := a.charM.map fun e => ⟨e.1, e.2⟩, typeNgrams := a.typeM.map fun e => ⟨e.1, e.2⟩,
              dict := cfg.dictWords.map (recOf a.dictW), bias := bias, charW := cfg.charW, typeW := cfg.typeW,
              tagModels := tms } := by
  have good : ∀ e ∈ trace, GoodF cfg e.1 := by
    intro e he
    obtain ⟨text, i, _, hm⟩ := hg e he
    exact good_of_gen cfg hne hD e.1 text i hm
  obtain ⟨a, ha, hinv⟩ := asmFold_inv cfg trace (fun _ => 0) _ (inv_init cfg) good
  have hdict : mapRes (dictRecord a.dictW) cfg.dictWords = .ok (cfg.dictWords.map (recOf a.dictW)) := by
    apply mapRes_ok_map
    intro w hw
    apply dictRecord_eq
    have hwl : 1 ≤ w.length := by
      have := hne w hw
      cases w with
      | nil => exact absurd rfl this
      | cons _ _ => simp
    have := hinv.dlen
    omega
  refine ⟨a, hinv, ?_⟩
  unfold assembleBoundary
  rw [ha]
  simp only
  rw [hdict]

theorem assemble_total (cfg : TrainCfg) (hne : ∀ w ∈ cfg.dictWords, w ≠ []) (hD : 1 ≤ cfg.dictMaxLen)
    (trace : List (Feature × Int)) (bias : Int) (tms : List TagModel)
    (hg : ∀ e ∈ trace, ∃ text i, i + 1 < text.length ∧ e.1 ∈ genFeatures cfg text i) :
    ∃ m, assembleBoundary cfg trace bias tms = .ok m := by
  obtain ⟨a, _, h⟩ := assemble_run cfg hne hD trace bias tms hg
  exact ⟨_, h⟩

theorem scores_main (cfg : TrainCfg) (hne : ∀ w ∈ cfg.dictWords, w ≠ []) (hD : 1 ≤ cfg.dictMaxLen)
    (trace : List (Feature × Int)) (bias : Int) (tms : List TagModel)
    (hnd : (trace.map Prod.fst).Nodup)
    (hg : ∀ e ∈ trace, ∃ text i, i + 1 < text.length ∧ e.1 ∈ genFeatures cfg text i) (m : WModel)
    (h : assembleBoundary cfg trace bias tms = .ok m) (text : List Char) (b : Nat) (hb : b + 1 < text.length) :
    specScore m text b = bias + ((genFeatures cfg text b).map (wq trace)).sum := by
  obtain ⟨a, hinv, h'⟩ := assemble_run cfg hne hD trace bias tms hg
  rw [h'] at h
  simp only [Res.ok.injEq] at h
  subst h
  have hF : trace.foldl stepF (fun _ => 0) = wq trace := by
    funext f
    exact foldl_stepF_zero f trace hnd
  rw [hF] at hinv
  unfold specScore genFeatures
  simp only
  rw [ngram_sum (lexLt_st ltChar_st) cfg.charW cfg.charN _ _ hinv.chars,
    ngram_sum (lexLt_st ltNat_st) cfg.typeW cfg.typeN _ _ hinv.types,
    dict_sum cfg (wq trace) a.dictW hinv.dlen hinv.dval hD hne text b hb]
  simp only [List.map_append, isum_append, List.map_map]
  have e1 : ∀ (l : List (List Char × Int)),
      (l.map fun p => wq trace (Feature.charNgram p.1 p.2)).sum
        = (l.map (wq trace ∘ fun p => Feature.charNgram p.1 p.2)).sum := fun _ => rfl
  have e2 : ∀ (l : List (List Nat × Int)),
      (l.map fun p => wq trace (Feature.typeNgram p.1 p.2)).sum
        = (l.map (wq trace ∘ fun p => Feature.typeNgram p.1 p.2)).sum := fun _ => rfl
  rw [e1, e2]
  omega

end V.C09L
