import VProofs.Lemmas.EvalFmtShape
import VProofs.Lemmas.EvalFloatProps
/-!
# The shape of the three numbers `evaluate` prints
-/
namespace V.FmtL
open V V.F64 V.QuantL

/-- `NaN`, `0`, `1`, or `0.` + zeros + digits with a non-zero last digit -/
def UnitText (cs : List Char) : Prop :=
  cs = ['N', 'a', 'N'] ∨ cs = ['0'] ∨ cs = ['1'] ∨
    ∃ (z : Nat) (ds : List Nat) (last : Nat), cs = '0' :: '.' :: (List.replicate z '0' ++ ds.map digitChar) ∧
      (∀ d ∈ ds, d < 10) ∧ ds.getLast? = some last ∧ last ≠ 0

theorem display_zero : f64Display (.fin false 0) = ['0'] := by decide +kernel
theorem display_one : f64Display (.fin false F64.unit) = ['1'] := by decide +kernel

theorem display_shape (a : Nat) (hd : F64.IsDouble (.fin false a)) :
    (a = 0 → f64Display (.fin false a) = ['0']) ∧ (a = F64.unit → f64Display (.fin false a) = ['1']) ∧
    (0 < a → a < F64.unit → ∃ (z : Nat) (ds : List Nat) (last : Nat),
      f64Display (.fin false a) = '0' :: '.' :: (List.replicate z '0' ++ ds.map digitChar) ∧
        (∀ d ∈ ds, d < 10) ∧ ds.getLast? = some last ∧ last ≠ 0) ∧
    f64Display .nan = ['N', 'a', 'N'] := by
  refine ⟨?_, ?_, ?_, rfl⟩
  · intro h; rw [h]; exact display_zero
  · intro h; rw [h]; exact display_one
  · intro ha hlt
    have he := shortest_exp_nonpos a ha hlt hd.2
    obtain ⟨_, hm10⟩ := shortestDec_mant a ha hd.2
    obtain ⟨f1, f2, _⟩ := decDigits_facts (f64ShortestDec a).1
    refine ⟨(-(f64ShortestDigits a).2).toNat, (f64ShortestDigits a).1, (f64ShortestDec a).1 % 10, ?_, f1, f2, hm10⟩
    unfold f64Display digitsToDecStr
    simp only [if_neg (Nat.ne_of_gt ha), if_pos he, Bool.false_eq_true, if_false, List.nil_append]

theorem key (x : F64) (h1 : x ≠ .nan → x.Finite ∧ x.sign = false ∧ x.IsDouble)
      (h2 : x ≠ .nan → f64Le x (f64OfNat 1) = true) : UnitText (f64Display x) := by
    by_cases hn : x = .nan
    · subst hn; exact Or.inl rfl
    · obtain ⟨hf, hs, hdbl⟩ := h1 hn
      have hle := h2 hn
      cases x with
      | nan => exact absurd rfl hn
      | inf s => exact absurd hf (by simp [F64.Finite])
      | fin s a =>
        simp only [F64.sign] at hs
        subst hs
        rw [EvalF.f64OfNat_one, EvalF.le_fin_nonneg, decide_eq_true_eq] at hle
        obtain ⟨c0, c1, c2, _⟩ := display_shape a hdbl
        rcases Nat.eq_zero_or_pos a with h0 | h0
        · exact Or.inr (Or.inl (c0 h0))
        · rcases Nat.eq_or_lt_of_le hle with h1 | h1
          · exact Or.inr (Or.inr (Or.inl (c1 h1)))
          · exact Or.inr (Or.inr (Or.inr (c2 h0 h1)))

theorem prec_le_one (num pDen rDen : Nat) (hp : pDen < 2 ^ 31) (hp0 : 0 < pDen) (hnp : num ≤ pDen) :
    f64Le (evalMetrics num pDen rDen).1 (f64OfNat 1) = true := by
  rw [EvalF.evalMetrics_eq]
  dsimp only
  exact (EvalF.ratio_range num pDen hp hp0 hnp).2.1

theorem rec_le_one (num pDen rDen : Nat) (hr : rDen < 2 ^ 31) (hr0 : 0 < rDen) (hnr : num ≤ rDen) :
    f64Le (evalMetrics num pDen rDen).2.1 (f64OfNat 1) = true := by
  rw [EvalF.evalMetrics_eq]
  dsimp only
  exact (EvalF.ratio_range num rDen hr hr0 hnr).2.1

/-- each of the three numbers `evaluate` prints is `NaN`, `0`, `1` or `0.d…d` with a non-zero last digit -/
theorem report_shape (num pDen rDen : Nat) (hp : pDen < 2 ^ 31) (hr : rDen < 2 ^ 31)
    (hnp : num ≤ pDen) (hnr : num ≤ rDen) :
    UnitText (f64Display (evalMetrics num pDen rDen).1) ∧ UnitText (f64Display (evalMetrics num pDen rDen).2.1) ∧
    UnitText (f64Display (evalMetrics num pDen rDen).2.2) := by
  obtain ⟨n1, n2, n3, n4⟩ := EvalF.metrics_nan num pDen rDen hp hr hnp hnr
  generalize hP : (evalMetrics num pDen rDen).1 = P at n1 n3 n4
  generalize hR : (evalMetrics num pDen rDen).2.1 = R at n2 n3 n4
  generalize hF : (evalMetrics num pDen rDen).2.2 = F at n3 n4
  refine ⟨?_, ?_, ?_⟩
  · apply key P (n4 P (Or.inl rfl))
    intro hx
    have hp0 : 0 < pDen := Nat.pos_of_ne_zero fun h => hx (n1.mpr h)
    rw [← hP]
    exact prec_le_one num pDen rDen hp hp0 hnp
  · apply key R (n4 R (Or.inr (Or.inl rfl)))
    intro hx
    have hr0 : 0 < rDen := Nat.pos_of_ne_zero fun h => hx (n2.mpr h)
    rw [← hR]
    exact rec_le_one num pDen rDen hr hr0 hnr
  · apply key F (n4 F (Or.inr (Or.inr rfl)))
    intro hx
    have hp0 : 0 < pDen := Nat.pos_of_ne_zero fun h => hx (n3.mpr (Or.inl (n1.mpr h)))
    have hr0 : 0 < rDen := Nat.pos_of_ne_zero fun h => hx (n3.mpr (Or.inr (Or.inl (n2.mpr h))))
    have hn0 : 0 < num := Nat.pos_of_ne_zero fun h => hx (n3.mpr (Or.inr (Or.inr h)))
    rw [← hF]
    exact ((EvalF.metrics_range num pDen rDen hp hr hp0 hr0 hnp hnr).2.2.2.2.2.2.2.2.1 hn0).2

end V.FmtL
