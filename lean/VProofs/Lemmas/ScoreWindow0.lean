import VModel.Spec
import VProofs.Lemmas.ScorePredict
/-!
# Window size 0 (C01, C11): a kind of n-gram whose window is 0 is switched off

`charScorerNew` / `typeScorerNew` replace the n-gram list of a kind by `[]` when that kind's window is 0; the window value
itself is then only used as the offset of (no) n-gram entries and as the minimum number of rows of the tag-weight table
(`buildBoundaryTag cfg window …`, read by `predictTags` only).  The scorer lemmas of `ScorePredict` are redone here for
models in which a zero window comes with an empty n-gram list, and then transferred to arbitrary models.
-/
namespace V.C01L

/-! ## the first step of the two constructors is the identity on models without n-grams of a switched-off kind -/

theorem charModel_if (m : WModel) (hE : m.charW = 0 → m.charNgrams = []) :
    (if m.charW = 0 then { m with charNgrams := [] } else m) = m := by
  split
  · rename_i h0
    have := hE h0
    cases m
    simp only at this
    subst this
    rfl
  · rfl

theorem typeModel_if (m : WModel) (hE : m.typeW = 0 → m.typeNgrams = []) :
    (if m.typeW = 0 then { m with typeNgrams := [] } else m) = m := by
  split
  · rename_i h0
    have := hE h0
    cases m
    simp only at this
    subst this
    rfl
  · rfl

/-- the constructors see a model only through its switched-on n-grams -/
theorem charScorerNew_drop (cfg : Cfg) (m : WModel) (T : List (List (TagNgramData Char))) (h0 : m.charW = 0) :
    charScorerNew cfg m T = charScorerNew cfg { m with charNgrams := [] } T := by
  simp only [charScorerNew, h0, if_true]

theorem typeScorerNew_drop (cfg : Cfg) (m : WModel) (T : List (List (TagNgramData Nat))) (h0 : m.typeW = 0) :
    typeScorerNew cfg m T = typeScorerNew cfg { m with typeNgrams := [] } T := by
  simp only [typeScorerNew, h0, if_true]

/-! ## the character scorer -/

/-- `charPhase_correct` without the lower bound on the window, for models whose character n-grams are absent when the
window is 0 -/
theorem charPhase_correct_gen (cfg : Cfg) (m : WModel) (tagNgrams : List (List (TagNgramData Char)))
    (cs : Option (PmaScorer Char)) (h : charScorerNew cfg m tagNgrams = .ok cs)
    (hE : m.charW = 0 → m.charNgrams = [])
    (hcs : ∀ d ∈ m.charNgrams, 1 ≤ d.ngram.length ∧ d.ngram.length ≤ 2 * m.charW ∧
      d.weights.length = 2 * m.charW - d.ngram.length + 1)
    (hds : ∀ d ∈ m.dict, 1 ≤ d.word.length)
    (text : List Char) (buf : List Int) (hbuf : buf.length = text.length + 13) (states : List (Option Nat)) :
    ∃ r st, charPhase cs text states buf = .ok (r, st) ∧ r.length = buf.length ∧
      ∀ b, 7 + b < buf.length → r.getD (7 + b) 0 = buf.getD (7 + b) 0 +
        (ngramScore m.charW m.charNgrams text b + dictScore m.dict text b) := by
  have hWof : ∀ d ∈ m.charNgrams, 1 ≤ m.charW := by
    intro d hd
    rcases Nat.eq_zero_or_pos m.charW with h0 | h0
    · rw [hE h0] at hd; cases hd
    · exact h0
  simp only [charScorerNew, charModel_if m hE] at h
  split at h
  · -- no scorer
    rename_i hcond
    simp only [Res.ok.injEq] at h
    subst h
    have hE' : m.charNgrams.isEmpty = true ∧ m.dict.isEmpty = true := by
      revert hcond
      cases m.charNgrams.isEmpty <;> cases m.dict.isEmpty <;> simp
    rw [List.isEmpty_iff, List.isEmpty_iff] at hE'
    refine ⟨buf, states, rfl, rfl, fun b _ => ?_⟩
    simp [ngramScore, dictScore, hE'.1, hE'.2]
  · split at h
    · cases h
    · split at h
      · -- with tag n-grams
        obtain ⟨sc, hsc, hcs'⟩ := res_map_ok _ _ _ h
        subst hcs'
        have hb := buildBoundaryTag_ok cfg _ _ _ sc hsc
        obtain ⟨r, st, h1, h2, h3⟩ := scorer_total cfg PWT.add PWT.empty PWT.weight addOK_PWT _
          (by
            intro e he pw hpw
            rcases List.mem_append.mp he with he | he
            · rcases List.mem_append.mp he with he | he
              · obtain ⟨d, hd, rfl⟩ := List.mem_map.mp he
                obtain ⟨a1, a2, a3⟩ := hcs d hd
                simp only [Option.some.injEq] at hpw
                subst hpw
                exact Pinv_ngram m.charW d.ngram d.weights (hWof d hd) a2 a3
              · obtain ⟨d, hd, rfl⟩ := List.mem_map.mp he
                simp only [Option.some.injEq] at hpw
                subst hpw
                exact Pinv_word d.word d.weights (hds d hd)
            · rw [tagEntries_weight _ e he] at hpw; cases hpw)
          sc hb text buf hbuf states
        refine ⟨r, st, h1, h2, fun b hb' => ?_⟩
        rw [h3 b hb', List.map_append, List.map_append, isum_append, isum_append, tag_entries_score]
        have e1 := ngram_entries_score PWT.weight (fun pw => ({ weight := some pw, tagInfo := [] } : PWT))
          (fun _ => rfl) m.charW m.charNgrams text b
        have e2 := dict_entries_score PWT.weight (fun pw => ({ weight := some pw, tagInfo := [] } : PWT))
          (fun _ => rfl) m.dict text b
        rw [e1, e2]; omega
      · -- plain
        obtain ⟨sc, hsc, hcs'⟩ := res_map_ok _ _ _ h
        subst hcs'
        have hb := buildBoundary_ok cfg _ sc hsc
        obtain ⟨r, st, h1, h2, h3⟩ := scorer_total cfg PW.add ⟨0, []⟩ some addOK_PW _
          (by
            intro e he pw hpw
            simp only [Option.some.injEq] at hpw
            subst hpw
            rcases List.mem_append.mp he with he | he
            · obtain ⟨d, hd, rfl⟩ := List.mem_map.mp he
              obtain ⟨a1, a2, a3⟩ := hcs d hd
              exact Pinv_ngram m.charW d.ngram d.weights (hWof d hd) a2 a3
            · obtain ⟨d, hd, rfl⟩ := List.mem_map.mp he
              exact Pinv_word d.word d.weights (hds d hd))
          sc hb text buf hbuf states
        refine ⟨r, st, h1, h2, fun b hb' => ?_⟩
        rw [h3 b hb', List.map_append, isum_append]
        have e1 := ngram_entries_score (some : PW → Option PW) (fun pw => pw) (fun _ => rfl) m.charW m.charNgrams text b
        have e2 := dict_entries_score (some : PW → Option PW) (fun pw => pw) (fun _ => rfl) m.dict text b
        rw [e1, e2]

/-- any model: the character scorer adds the character n-gram part of the model with the switched-off n-grams dropped (plus
the dictionary part); the shape of the n-grams matters only when the window is at least 1 -/
theorem charPhase_correct0 (cfg : Cfg) (m : WModel) (tagNgrams : List (List (TagNgramData Char)))
    (cs : Option (PmaScorer Char)) (h : charScorerNew cfg m tagNgrams = .ok cs)
    (hcs : 1 ≤ m.charW → ∀ d ∈ m.charNgrams, 1 ≤ d.ngram.length ∧ d.ngram.length ≤ 2 * m.charW ∧
      d.weights.length = 2 * m.charW - d.ngram.length + 1)
    (hds : ∀ d ∈ m.dict, 1 ≤ d.word.length)
    (text : List Char) (buf : List Int) (hbuf : buf.length = text.length + 13) (states : List (Option Nat)) :
    ∃ r st, charPhase cs text states buf = .ok (r, st) ∧ r.length = buf.length ∧
      ∀ b, 7 + b < buf.length → r.getD (7 + b) 0 = buf.getD (7 + b) 0 +
        (ngramScore m.charW (if m.charW = 0 then [] else m.charNgrams) text b + dictScore m.dict text b) := by
  by_cases h0 : m.charW = 0
  · rw [charScorerNew_drop cfg m tagNgrams h0] at h
    rw [if_pos h0]
    exact charPhase_correct_gen cfg { m with charNgrams := [] } tagNgrams cs h (fun _ => rfl)
      (fun d hd => by cases hd) hds text buf hbuf states
  · rw [if_neg h0]
    exact charPhase_correct_gen cfg m tagNgrams cs h (fun h => absurd h h0) (hcs (by omega)) hds text buf hbuf states

/-! ## the type scorer -/

theorem typePhase_correct_gen (cfg : Cfg) (m : WModel) (tagNgrams : List (List (TagNgramData Nat)))
    (ts : Option TypeScorer) (h : typeScorerNew cfg m tagNgrams = .ok ts)
    (hE : m.typeW = 0 → m.typeNgrams = [])
    (hts : ∀ d ∈ m.typeNgrams, 1 ≤ d.ngram.length ∧ d.ngram.length ≤ 2 * m.typeW ∧
      d.weights.length = 2 * m.typeW - d.ngram.length + 1 ∧ ∀ t ∈ d.ngram, 1 ≤ t ∧ t ≤ 6)
    (types : List Nat) (htypes : ∀ t ∈ types, 1 ≤ t ∧ t ≤ 6) (nB : Nat) (hnB : nB ≤ types.length)
    (buf : List Int) (hbuf : buf.length = types.length + 13) (states : List (Option Nat)) :
    ∃ r st, typePhase ts types nB states buf = .ok (r, st) ∧ r.length = buf.length ∧
      ∀ b, b < nB → r.getD (7 + b) 0 = buf.getD (7 + b) 0 + ngramScore m.typeW m.typeNgrams types b := by
  have hWof : ∀ d ∈ m.typeNgrams, 1 ≤ m.typeW := by
    intro d hd
    rcases Nat.eq_zero_or_pos m.typeW with h0 | h0
    · rw [hE h0] at hd; cases hd
    · exact h0
  simp only [typeScorerNew, typeModel_if m hE] at h
  split at h
  · rename_i hcond
    simp only [Res.ok.injEq] at h
    subst h
    have hE' : m.typeNgrams.isEmpty = true := by
      revert hcond
      cases m.typeNgrams.isEmpty <;> simp
    rw [List.isEmpty_iff] at hE'
    refine ⟨buf, states, rfl, rfl, fun b _ => ?_⟩
    simp [ngramScore, hE']
  · split at h
    · -- with tag n-grams
      obtain ⟨sc, hsc, hcs'⟩ := res_map_ok _ _ _ h
      subst hcs'
      have hb := buildBoundaryTag_ok cfg _ _ _ sc hsc
      obtain ⟨r, st, h1, h2, h3⟩ := scorer_total cfg PWT.add PWT.empty PWT.weight addOK_PWT _
        (by
          intro e he pw hpw
          rcases List.mem_append.mp he with he | he
          · obtain ⟨d, hd, rfl⟩ := List.mem_map.mp he
            obtain ⟨a1, a2, a3, _⟩ := hts d hd
            simp only [Option.some.injEq] at hpw
            subst hpw
            exact Pinv_ngram m.typeW d.ngram d.weights (hWof d hd) a2 a3
          · rw [tagEntries_weight _ e he] at hpw; cases hpw)
        sc hb types buf hbuf states
      refine ⟨r, st, h1, h2, fun b hb' => ?_⟩
      rw [h3 b (by omega), List.map_append, isum_append, tag_entries_score]
      have e1 := ngram_entries_score PWT.weight (fun pw => ({ weight := some pw, tagInfo := [] } : PWT))
        (fun _ => rfl) m.typeW m.typeNgrams types b
      rw [e1]; omega
    · split at h
      · -- cache
        split at h
        · simp only [Res.ok.injEq] at h
          subst h
          obtain ⟨r, h1, h2, h3⟩ := cache_correct m.typeNgrams m.typeW types hts htypes nB buf
            (by rw [padding_eq]; omega)
          refine ⟨r, [], ?_, h2, fun b hb' => ?_⟩
          · show (cacheAddScores m.typeNgrams m.typeW types nB buf).map (fun b => (b, [])) = _
            rw [h1]; rfl
          · have := h3 b hb'
            rw [padding_eq] at this
            exact this
        · cases h
      · -- plain
        obtain ⟨sc, hsc, hcs'⟩ := res_map_ok _ _ _ h
        subst hcs'
        have hb := buildBoundary_ok cfg _ sc hsc
        obtain ⟨r, st, h1, h2, h3⟩ := scorer_total cfg PW.add ⟨0, []⟩ some addOK_PW _
          (by
            intro e he pw hpw
            simp only [Option.some.injEq] at hpw
            subst hpw
            obtain ⟨d, hd, rfl⟩ := List.mem_map.mp he
            obtain ⟨a1, a2, a3, _⟩ := hts d hd
            exact Pinv_ngram m.typeW d.ngram d.weights (hWof d hd) a2 a3)
          sc hb types buf hbuf states
        refine ⟨r, st, h1, h2, fun b hb' => ?_⟩
        rw [h3 b (by omega)]
        have e1 := ngram_entries_score (some : PW → Option PW) (fun pw => pw) (fun _ => rfl) m.typeW m.typeNgrams types b
        rw [e1]

theorem typePhase_correct0 (cfg : Cfg) (m : WModel) (tagNgrams : List (List (TagNgramData Nat)))
    (ts : Option TypeScorer) (h : typeScorerNew cfg m tagNgrams = .ok ts)
    (hts : 1 ≤ m.typeW → ∀ d ∈ m.typeNgrams, 1 ≤ d.ngram.length ∧ d.ngram.length ≤ 2 * m.typeW ∧
      d.weights.length = 2 * m.typeW - d.ngram.length + 1 ∧ ∀ t ∈ d.ngram, 1 ≤ t ∧ t ≤ 6)
    (types : List Nat) (htypes : ∀ t ∈ types, 1 ≤ t ∧ t ≤ 6) (nB : Nat) (hnB : nB ≤ types.length)
    (buf : List Int) (hbuf : buf.length = types.length + 13) (states : List (Option Nat)) :
    ∃ r st, typePhase ts types nB states buf = .ok (r, st) ∧ r.length = buf.length ∧
      ∀ b, b < nB → r.getD (7 + b) 0 = buf.getD (7 + b) 0 +
        ngramScore m.typeW (if m.typeW = 0 then [] else m.typeNgrams) types b := by
  by_cases h0 : m.typeW = 0
  · rw [typeScorerNew_drop cfg m tagNgrams h0] at h
    rw [if_pos h0]
    exact typePhase_correct_gen cfg { m with typeNgrams := [] } tagNgrams ts h (fun _ => rfl)
      (fun d hd => by cases hd) types htypes nB hnB buf hbuf states
  · rw [if_neg h0]
    exact typePhase_correct_gen cfg m tagNgrams ts h (fun h => absurd h h0) (hts (by omega)) types htypes nB hnB buf hbuf
      states

/-! ## `predict` -/

/-- `predict_correct` for windows that may be 0: the specification is the linear model of `m` with the n-grams of every
switched-off kind removed (spelled out here; `V.dropW0 m` in `C01.lean`) -/
theorem predict_correct0 (cfg : Cfg) (m : WModel)
    (hcs : 1 ≤ m.charW → ∀ d ∈ m.charNgrams, 1 ≤ d.ngram.length ∧ d.ngram.length ≤ 2 * m.charW ∧
      d.weights.length = 2 * m.charW - d.ngram.length + 1)
    (hts : 1 ≤ m.typeW → ∀ d ∈ m.typeNgrams, 1 ≤ d.ngram.length ∧ d.ngram.length ≤ 2 * m.typeW ∧
      d.weights.length = 2 * m.typeW - d.ngram.length + 1 ∧ ∀ t ∈ d.ngram, 1 ≤ t ∧ t ≤ 6)
    (hds : ∀ d ∈ m.dict, 1 ≤ d.word.length)
    (pt : Bool) (p : Predictor) (hp : Predictor.new cfg m pt = .ok p)
    (s : Sentence) (hne : s.text ≠ []) (htypes : s.types = typesOf s.text)
    (hbl : s.bounds.length + 1 = s.text.length) (pid : Nat) :
    ∃ s', p.predict pid s = .ok s' ∧
      s'.boundaryScores = .ok (specScores
        { m with charNgrams := if m.charW = 0 then [] else m.charNgrams,
                 typeNgrams := if m.typeW = 0 then [] else m.typeNgrams } s.text) ∧
      s'.bounds = specBounds
        { m with charNgrams := if m.charW = 0 then [] else m.charNgrams,
                 typeNgrams := if m.typeW = 0 then [] else m.typeNgrams } s.text ∧
      s'.text = s.text ∧ s'.types = s.types ∧ s'.tags = s.tags ∧ s'.nTags = s.nTags ∧ s'.pred = some pid := by
  obtain ⟨tc, tt, hc, ht, hbias⟩ := new_ok cfg m pt p hp
  have hn : 1 ≤ s.text.length := by
    cases h : s.text with
    | nil => exact absurd h hne
    | cons _ _ => simp
  have htl : s.types.length = s.text.length := by rw [htypes]; simp [typesOf]
  have hb0 : (List.replicate (padding * 2 + s.types.length - 1) p.bias).length = s.text.length + 13 := by
    rw [List.length_replicate, padding_eq, htl]; omega
  obtain ⟨buf1, cst, h1, hl1, hv1⟩ := charPhase_correct0 cfg m tc p.charScorer hc hcs hds s.text _ hb0 s.cstates
  obtain ⟨buf2, tst, h2, hl2, hv2⟩ := typePhase_correct0 cfg m tt p.typeScorer ht hts s.types
    (by rw [htypes]; exact typesOf_bounds s.text) s.bounds.length (by omega) buf1 (by rw [hl1, hb0, htl]) s.tstates
  refine ⟨finish s pid buf2 cst tst, ?_, ?_⟩
  · rw [predict_eq, h1]
    show finishR s pid cst (typePhase p.typeScorer s.types s.bounds.length s.tstates buf1) = _
    rw [h2]; rfl
  · obtain ⟨hA, hB⟩ := finish_correct
        { m with charNgrams := if m.charW = 0 then [] else m.charNgrams,
                 typeNgrams := if m.typeW = 0 then [] else m.typeNgrams }
        s hne hbl pid buf2 cst tst (by rw [hl2, hl1, hb0])
      (by
        intro b hb
        rw [hv2 b (by omega), hv1 b (by rw [hb0]; omega)]
        have hrep : (List.replicate (padding * 2 + s.types.length - 1) p.bias).getD (7 + b) 0 = m.bias := by
          rw [List.getD_eq_getElem?_getD, List.getElem?_replicate, if_pos (by rw [padding_eq, htl]; omega), hbias]
          rfl
        rw [hrep, htypes]
        unfold specScore
        simp only
        omega)
    exact ⟨hA, hB, rfl, rfl, rfl, rfl, rfl⟩

end V.C01L
