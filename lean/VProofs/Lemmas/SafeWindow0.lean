import VProofs.Lemmas.SafeOps
/-!
# Histories with predictors whose model has a window of size 0 (for C18)

The history invariant `InvH`, `Traced` and every step lemma that does not involve a predictor (`SafeInv`) never mention the
model.  The model's well-formedness enters in two places only: `predict_step` (through `C01_scores`) and `fillTags_step`
(through `C06_predictTags`).  Both are redone here from `C01_scores_window0` / `C06_predictTags_window0` for predictors
built from a `WFModel0`, and `step_safe` is reassembled from them.
-/
namespace V.C18L

/-- a predictor built through the safe API from a model that is well-formed up to the n-grams of switched-off kinds (same body
as `EnvWF0` in `C18.lean`) -/
def PredWF0 (p : Predictor) : Prop :=
  ∃ cfg m pt p0 store, WFModel0 m ∧ WFTags m ∧ Predictor.new cfg m pt = .ok p0 ∧
    p = { p0 with storeTagScores := store }

theorem PredWF.toPredWF0 {p : Predictor} (h : PredWF p) : PredWF0 p := by
  obtain ⟨cfg, m, pt, p0, store, hm, ht, hnew, hp⟩ := h
  exact ⟨cfg, m, pt, p0, store, hm.toWFModel0, ht, hnew, hp⟩

/-! ## `predict` -/

theorem predict_step0 {env : List Predictor} {s : Sentence} (h : Inv s) (k : Nat) (p : Predictor)
    (hk : env[k]? = some p) (hp : PredWF0 p) : ∃ s', p.predict k s = .ok s' ∧ InvH env s' := by
  obtain ⟨cfg, m, pt, p0, store, hm, _, hnew, rfl⟩ := hp
  have hs := sentOK_of_inv h
  obtain ⟨s', h1, h2, h3, h4, h5, h6, h7, h8⟩ := C01_scores_window0 cfg m hm pt p0 hnew s hs k
  have h1' : ({ p0 with storeTagScores := store } : Predictor).predict k s = .ok s' := h1
  have hpos : 0 < s.text.length := List.length_pos_iff.mpr h.text_ne
  have hbl : s'.bounds.length = s.bounds.length := by
    rw [h3, specBounds_length]
    have := h.bounds_len
    omega
  have hi : Inv s' := by
    refine ⟨?_, ?_, ?_, ?_, ?_⟩
    · rw [h4]; exact h.text_ne
    · rw [h5, h4]; exact h.types_eq
    · rw [hbl, h4]; exact h.bounds_len
    · rw [h6, h7, h4]; exact h.tags_len
    · unfold Sentence.boundaryScores at h2
      split at h2
      · next he => exact Or.inl (List.isEmpty_iff.mp he)
      · split at h2
        · next hle => exact Or.inr hle
        · cases h2
  refine ⟨s', h1', hi, fun k' hk' => ?_⟩
  rw [h8] at hk'
  cases hk'
  exact ⟨_, hk, s, s', hs, h1', rfl, rfl, rfl, rfl, rfl, rfl, rfl⟩

/-! ## `fill_tags` -/

theorem fillTags_step0 {env : List Predictor} (henv : ∀ p ∈ env, PredWF0 p) {s : Sentence} (h : InvH env s)
    (hv : ∀ k, s.pred = some k → ∃ p, env[k]? = some p ∧ p.tagPredictor.isSome = true) :
    ∃ s', s.fillTags (fun k => env[k]?) = .ok s' ∧ InvH env s' := by
  unfold Sentence.fillTags
  cases hpr : s.pred with
  | none => exact ⟨s, rfl, h⟩
  | some k =>
    obtain ⟨p, hk, htp⟩ := hv k hpr
    obtain ⟨p', hk', s0, s1, hs0, h1, e1, e2, e3, e4, e5, e6, e7⟩ := h.2 k hpr
    rw [hk] at hk'
    cases hk'
    simp only [hk]
    obtain ⟨cfg, m, pt, p0, store, hm, ht, hnew, rfl⟩ := henv p (List.mem_of_getElem? hk)
    have hpt : pt = true := by
      cases pt with
      | true => rfl
      | false =>
        have := new_false_none cfg m p0 hnew
        have htp' : p0.tagPredictor.isSome = true := htp
        rw [this] at htp'
        cases htp'
    subst hpt
    obtain ⟨_, _, hnt, _⟩ := C06L.new_tag_ok cfg m p0 hnew
    have hnt' : ({ p0 with storeTagScores := store } : Predictor).nTags = specNTags m := hnt
    have h1' : p0.predict k s0 = .ok s1 := h1
    have htext : s1.text = s0.text := (C06L.predict_states p0 k s0 s1 h1').1
    by_cases hn : specNTags m = 0
    · rw [predictTags_zero _ s htp (by rw [hnt', hn])]
      exact ⟨_, rfl, invH_frame h ⟨h.1.text_ne, h.1.types_eq, h.1.bounds_len, h.1.tags_len, h.1.scores_ok⟩
        rfl rfl rfl rfl rfl rfl rfl rfl⟩
    · have hpos : 0 < specNTags m := Nat.pos_of_ne_zero hn
      obtain ⟨_, h3⟩ := C06_predictTags_window0 cfg m hm ht p0 hnew store s0 s1 hs0 k h1' s.bounds e7 hpos
      have hse := sent_eq s s1 e1 e2 e3 e4 e5 e6 (hpr.trans (predict_pred _ k s0 s1 h1).symm)
      have hrun : ({ p0 with storeTagScores := store } : Predictor).predictTags s = _ :=
        (congrArg _ hse).trans ((predictTags_frame _ _ _ _ _ (by rw [hnt']; exact hn)).trans h3)
      refine ⟨_, hrun, ⟨?_, ?_, ?_, ?_, ?_⟩, fun k' hk' => ?_⟩
      · show s1.text ≠ []
        rw [← e1]; exact h.1.text_ne
      · show s1.types = typesOf s1.text
        rw [← e1, ← e2]; exact h.1.types_eq
      · show s.bounds.length + 1 = s1.text.length
        rw [← e1]; exact h.1.bounds_len
      · show (specAllTags m s0.text s.bounds).length = s1.text.length * specNTags m
        rw [specAllTags_length, htext]
      · show s1.scores = [] ∨ s1.padding + s.bounds.length ≤ s1.scores.length
        rw [← e3, ← e4]; exact h.1.scores_ok
      · have hk'' : s1.pred = some k' := hk'
        rw [predict_pred _ k s0 s1 h1] at hk''
        cases hk''
        exact ⟨_, hk, s0, s1, hs0, h1, rfl, rfl, rfl, rfl, rfl, rfl, e7⟩

/-! ## one valid call -/

/-- every valid call returns, and returns a sentence satisfying the invariant — predictors from `WFModel0` models -/
theorem step_safe0 {env : List Predictor} (henv : ∀ p ∈ env, PredWF0 p) {s : Sentence} (h : InvH env s) (op : HOp)
    (hv : OpValid env s op) : ∃ s' ok, op.apply env s = .ok (s', ok) ∧ InvH env s' := by
  cases op with
  | updateRaw x => exact update_step env s h.1 (.updateRaw x) (fun k e => by cases e)
  | updateTokenized x => exact update_step env s h.1 (.updateTokenized x) (fun k e => by cases e)
  | updatePartial x => exact update_step env s h.1 (.updatePartial x) (fun k e => by cases e)
  | predict k =>
    have hk : k < env.length := hv
    have hget : env[k]? = some env[k] := List.getElem?_eq_getElem hk
    obtain ⟨s', h1, h2⟩ := predict_step0 h.1 k env[k] hget (henv _ (List.getElem_mem hk))
    refine ⟨s', true, ?_, h2⟩
    simp only [HOp.apply, hget]
    exact map_ok h1
  | fillTags =>
    obtain ⟨s', h1, h2⟩ := fillTags_step0 henv h hv
    exact ⟨s', true, map_ok h1, h2⟩
  | resetTags k => exact ⟨_, true, rfl, resetTags_step h k⟩
  | setBoundary i b =>
    obtain ⟨s', h1, h2⟩ := setBoundary_step h i b hv
    exact ⟨s', true, map_ok h1, h2⟩
  | setTag i t =>
    obtain ⟨s', h1, h2⟩ := setTag_step h i t hv
    exact ⟨s', true, map_ok h1, h2⟩
  | filterWs t =>
    obtain ⟨s', h1, h2⟩ := filterWs_step h t
    exact ⟨s', true, map_ok h1, h2⟩
  | filterLb =>
    obtain ⟨s', h1, h2⟩ := filterLb_step h
    exact ⟨s', true, map_ok h1, h2⟩
  | filterGc ls =>
    obtain ⟨s', h1, h2⟩ := filterGc_step h ls hv.1 hv.2
    exact ⟨s', true, map_ok h1, h2⟩
  | filterTag rules =>
    obtain ⟨s', h1, h2⟩ := filterTag_step h rules
    exact ⟨s', true, map_ok h1, h2⟩

/-! ## a checker for the validity of one call (used for the non-vacuity examples of `C18.lean`) -/

/-- `OpValid` as a Boolean -/
def opValidB (env : List Predictor) (s : Sentence) : HOp → Bool
  | .predict k => decide (k < env.length)
  | .fillTags =>
    match s.pred with
    | none => true
    | some k =>
      match env[k]? with
      | some p => p.tagPredictor.isSome
      | none => false
  | .setBoundary i _ => decide (i < s.bounds.length)
  | .setTag i _ => decide (i < s.tags.length)
  | .filterGc ls => ls.all (fun l => decide (1 ≤ l)) && decide (ls.sum = s.text.length)
  | _ => true

theorem opValidB_sound (env : List Predictor) (s : Sentence) (op : HOp) (h : opValidB env s op = true) :
    OpValid env s op := by
  cases op with
  | predict k =>
    have h' : decide (k < env.length) = true := h
    exact (of_decide_eq_true h' : k < env.length)
  | fillTags =>
    intro k hk
    simp only [opValidB, hk] at h
    cases hp : env[k]? with
    | none => rw [hp] at h; cases h
    | some p => rw [hp] at h; exact ⟨p, rfl, h⟩
  | setBoundary i b =>
    have h' : decide (i < s.bounds.length) = true := h
    exact (of_decide_eq_true h' : i < s.bounds.length)
  | setTag i t =>
    have h' : decide (i < s.tags.length) = true := h
    exact (of_decide_eq_true h' : i < s.tags.length)
  | filterGc ls =>
    simp only [opValidB, Bool.and_eq_true, List.all_eq_true, decide_eq_true_eq] at h
    exact h
  | updateRaw x => trivial
  | updateTokenized x => trivial
  | updatePartial x => trivial
  | resetTags k => trivial
  | filterWs t => trivial
  | filterLb => trivial
  | filterTag rules => trivial

end V.C18L
