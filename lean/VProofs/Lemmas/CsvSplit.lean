import VProofs.Lemmas.CsvDigits
/-!
# Csv helper lemmas: `splitSpaces ∘ joinWeights`, `mapM`, and dictionary rows
-/
namespace V.C19L
open V

theorem splitSpaces_ne_nil : ∀ s : List Char, splitSpaces s ≠ [] := by
  intro s
  cases s with
  | nil => simp [splitSpaces]
  | cons c cs =>
    unfold splitSpaces
    split
    · simp
    · split <;> simp

theorem splitSpaces_nospace : ∀ a : List Char, ' ' ∉ a → splitSpaces a = [a] := by
  intro a
  induction a with
  | nil => intro _; rfl
  | cons c cs ih =>
    intro h
    have hc : c ≠ ' ' := fun e => h (by simp [e])
    have hcs : ' ' ∉ cs := fun e => h (List.mem_cons_of_mem _ e)
    unfold splitSpaces
    rw [ih hcs]
    simp [hc]

theorem splitSpaces_space (r : List Char) : splitSpaces (' ' :: r) = [] :: splitSpaces r := by
  have hne := splitSpaces_ne_nil r
  rw [splitSpaces]
  cases h : splitSpaces r with
  | nil => exact absurd h hne
  | cons x t => simp

theorem splitSpaces_append : ∀ (a r : List Char), ' ' ∉ a →
    splitSpaces (a ++ ' ' :: r) = a :: splitSpaces r := by
  intro a
  induction a with
  | nil => intro r _; exact splitSpaces_space r
  | cons c cs ih =>
    intro r h
    have hc : c ≠ ' ' := fun e => h (by simp [e])
    have hcs : ' ' ∉ cs := fun e => h (List.mem_cons_of_mem _ e)
    rw [List.cons_append, splitSpaces, ih r hcs]
    simp [hc]

theorem splitSpaces_join : ∀ ws : List Int, ws ≠ [] → splitSpaces (joinWeights ws) = ws.map intToDec := by
  intro ws
  induction ws with
  | nil => intro h; exact absurd rfl h
  | cons w r ih =>
    intro _
    cases r with
    | nil => simp [joinWeights, splitSpaces_nospace _ (intToDec_nospace w)]
    | cons w2 r2 =>
      rw [joinWeights, splitSpaces_append _ _ (intToDec_nospace w), ih (by simp)]
      · rfl
      · intro h; cases h

theorem mapM_some {α β : Type} (f : α → Option β) (g : α → β) :
    ∀ l : List α, (∀ a ∈ l, f a = some (g a)) → l.mapM f = some (l.map g) := by
  intro l
  induction l with
  | nil => intro _; rfl
  | cons a t ih =>
    intro h
    rw [List.mapM_cons, h a (by simp), ih (fun b hb => h b (List.mem_cons_of_mem _ hb))]
    rfl

theorem parseWeights_join (ws : List Int) (hne : ws ≠ [])
    (hr : ∀ w ∈ ws, -(2 ^ 31 : Int) ≤ w ∧ w < 2 ^ 31) : parseWeights (joinWeights ws) = some ws := by
  unfold parseWeights
  rw [splitSpaces_join ws hne]
  rw [List.mapM_map]
  have h := mapM_some (parseI32? ∘ intToDec) id ws (fun w hw => parseI32_intToDec w (hr w hw))
  simpa using h

theorem loadRow_dumpRow (d : DictWord) (hs : d.weights.length = d.word.length + 1)
    (hr : ∀ w ∈ d.weights, -(2 ^ 31 : Int) ≤ w ∧ w < 2 ^ 31) : loadRow (dumpRow d) = .ok d := by
  have hne : d.weights ≠ [] := by
    intro h; rw [h] at hs; simp at hs
  unfold loadRow dumpRow
  simp only [parseWeights_join d.weights hne hr]
  unfold wordRecordNew
  simp [hs]

theorem loadRows_dump : ∀ ds : List DictWord,
    (∀ d ∈ ds, d.weights.length = d.word.length + 1) →
    (∀ d ∈ ds, ∀ w ∈ d.weights, -(2 ^ 31 : Int) ≤ w ∧ w < 2 ^ 31) →
    loadRows (ds.map dumpRow) = .ok ds := by
  intro ds
  induction ds with
  | nil => intro _ _; rfl
  | cons d t ih =>
    intro hs hr
    rw [List.map_cons, loadRows, loadRow_dumpRow d (hs d (by simp)) (hr d (by simp)),
      ih (fun x hx => hs x (List.mem_cons_of_mem _ hx)) (fun x hx => hr x (List.mem_cons_of_mem _ hx))]

end V.C19L
