import VProofs.Lemmas.Tok
import VProofs.Lemmas.TokWrite
import VProofs.Lemmas.TokNul
/-!
Helper lemmas for C03: the parser run over the whole written sentence, and the round-trip statement in terms of
`tagsAt` (= `tokenTagsTrim`).
-/
namespace V.C03L

/-- mirror of `WFTok` of `VProofs/C03.lean` (which is defined after these lemma files) -/
structure TokWF (s : Sentence) : Prop where
  text_ne : s.text ≠ []
  text_nul : ∀ c ∈ s.text, c ≠ '\x00'
  bounds_len : s.bounds.length + 1 = s.text.length
  no_unknown : ∀ b ∈ s.bounds, b ≠ B.U
  tags_len : s.tags.length = s.text.length * s.nTags
  tags_ok : ∀ t, some t ∈ s.tags → t ≠ [] ∧ ∀ c ∈ t, c ≠ '\x00'

theorem escTok_cons_ne_nil (c : Char) (cs : List Char) : escTok (c :: cs) ≠ [] := by
  simp only [escTok]
  split <;> simp

theorem run_rest_tokens (s : Sentence) (hnul : ∀ c ∈ s.text, c ≠ '\x00')
    (htag : ∀ t, some t ∈ s.tags → ∀ c ∈ t, c ≠ '\x00') :
    ∀ (toks : List (Nat × Nat)) (σ : TokSt) (text : List Char) (bounds : List B) (tt : List (List (List Char))),
      Done σ text bounds tt → text ≠ [] → (∀ se ∈ toks, se.1 < se.2 ∧ se.2 ≤ s.text.length) →
      ∃ σ', tokRun σ (writeSpec s toks false) = .ok σ' ∧
        Done σ' (text ++ toks.flatMap (slice s.text)) (bounds ++ tokBounds toks false) (tt ++ tokTT s toks) := by
  intro toks
  induction toks with
  | nil =>
    intro σ text bounds tt hd _ _
    exact ⟨σ, rfl, by simpa [tokBounds, tokTT] using hd⟩
  | cons se r ih =>
    intro σ text bounds tt hd htx h
    have hse := h se (by simp)
    have hlen := slice_length s.text se hse.2
    cases hsl : slice s.text se with
    | nil => rw [hsl] at hlen; simp at hlen; omega
    | cons c cs =>
      have hcs : se.2 - se.1 - 1 = cs.length := by rw [hsl] at hlen; simp at hlen; omega
      have hc : ∀ d ∈ c :: cs, d ≠ '\x00' := fun d hd => hnul d (mem_of_mem_slice (by rw [hsl]; exact hd))
      have h0 : ∀ t, some t ∈ tagsAt s.tags s.nTags se.2 → ∀ d ∈ t, d ≠ '\x00' :=
        fun t ht => htag t (mem_tagsAt ht)
      obtain ⟨σ1, r1, d1⟩ := run_sep_token σ text bounds tt hd htx c cs _ hc h0
      obtain ⟨σ2, r2, d2⟩ := ih σ1 _ _ _ d1 (by simp) (fun x hx => h x (by simp [hx]))
      refine ⟨σ2, ?_, ?_⟩
      · rw [← r2, ← r1 (writeSpec s r false)]
        simp [writeSpec, tokOut, hsl]
      · simpa [List.flatMap_cons, hsl, tokBounds, tokTT, hcs, tokG] using d2

theorem run_all_tokens (s : Sentence) (hnul : ∀ c ∈ s.text, c ≠ '\x00')
    (htag : ∀ t, some t ∈ s.tags → ∀ c ∈ t, c ≠ '\x00')
    (toks : List (Nat × Nat)) (hne : toks ≠ []) (h : ∀ se ∈ toks, se.1 < se.2 ∧ se.2 ≤ s.text.length) :
    ∃ σ', tokRun {} (writeSpec s toks true) = .ok σ' ∧ writeSpec s toks true ≠ [] ∧
      Done σ' (toks.flatMap (slice s.text)) (tokBounds toks true) (tokTT s toks) := by
  cases toks with
  | nil => exact absurd rfl hne
  | cons se r =>
    have hse := h se (by simp)
    have hlen := slice_length s.text se hse.2
    cases hsl : slice s.text se with
    | nil => rw [hsl] at hlen; simp at hlen; omega
    | cons c cs =>
      have hcs : se.2 - se.1 - 1 = cs.length := by rw [hsl] at hlen; simp at hlen; omega
      have hc : ∀ d ∈ c :: cs, d ≠ '\x00' := fun d hd => hnul d (mem_of_mem_slice (by rw [hsl]; exact hd))
      have h0 : ∀ t, some t ∈ tagsAt s.tags s.nTags se.2 → ∀ d ∈ t, d ≠ '\x00' :=
        fun t ht => htag t (mem_tagsAt ht)
      obtain ⟨σ1, r1, d1⟩ := run_first_token c cs _ hc h0
      obtain ⟨σ2, r2, d2⟩ := run_rest_tokens s hnul htag r σ1 _ _ _ d1 (by simp)
        (fun x hx => h x (by simp [hx]))
      refine ⟨σ2, ?_, ?_, ?_⟩
      · rw [← r2, ← r1 (writeSpec s r false)]
        simp [writeSpec, tokOut, hsl]
      · have := escTok_cons_ne_nil c cs
        simp [writeSpec, tokOut, hsl, this]
      · simpa [List.flatMap_cons, hsl, tokBounds, tokTT, hcs, tokG] using d2

/-- the tags read back at a token end -/
theorem tagsAt_padTags (tt : List (List (List Char))) (hne : tt ≠ []) (k : Nat) (ts : List Tag)
    (hk : tt[k]? = some (ts.map (·.getD []))) (hts : ∀ t, some t ∈ ts → t ≠ []) :
    tagsAt (padTags (maxLen tt) tt) ((padTags (maxLen tt) tt).length / tt.length) (k + 1) = trimNone ts := by
  have hpos : 0 < tt.length := List.length_pos_iff.mpr hne
  rw [padTags_maxLen_length, Nat.mul_div_cancel_left _ hpos]
  unfold tagsAt
  rw [Nat.add_sub_cancel, padTags_slot _ _ (le_maxLen tt) k _ hk]
  unfold padOne
  rw [map_tagOfStr_getD ts hts, trimNone_append_nones]

theorem roundtrip (s : Sentence) (wf : TokWF s) :
    ∃ w p, s.writeTokenized = .ok w ∧ parseTokenized w = .ok p ∧
      p.text = s.text ∧ p.bounds = s.bounds ∧
      ∀ se ∈ iterTokens s.bounds,
        tagsAt p.tags (p.tags.length / p.text.length) se.2 = tagsAt s.tags s.nTags se.2 := by
  have hspec : iterTokens s.bounds = specSeg s.bounds 0 0 false := iterTokens_eq_spec s.bounds
  have hchain : IsChain 0 (iterTokens s.bounds) s.text.length := by
    have := specSeg_chain s.bounds 0 0 wf.no_unknown (Nat.le_refl _)
    rw [hspec, ← wf.bounds_len]
    simpa using this
  have hmem := chain_mem _ _ _ hchain
  have hgood : ∀ se ∈ iterTokens s.bounds, se.1 < se.2 ∧ se.2 ≤ s.text.length :=
    fun se hse => (hmem se hse).2
  have hne : iterTokens s.bounds ≠ [] := by
    intro e; rw [e] at hchain; simp [IsChain] at hchain
  have htag : ∀ t, some t ∈ s.tags → ∀ c ∈ t, c ≠ '\x00' := fun t ht => (wf.tags_ok t ht).2
  obtain ⟨σ, hrun, hwne, hd⟩ := run_all_tokens s wf.text_nul htag _ hne hgood
  have htext : (iterTokens s.bounds).flatMap (slice s.text) = s.text := by
    rw [hspec, specSeg_concat s.text s.bounds 0 0 wf.no_unknown (Nat.le_refl _) (by have := wf.bounds_len; omega)]
    simp only [List.drop_zero, Nat.zero_add, Nat.sub_zero, wf.bounds_len]
    exact List.take_length
  have hbounds : tokBounds (iterTokens s.bounds) true = s.bounds := by
    rw [hspec, tokBounds_specSeg s.bounds 0 0 true wf.no_unknown (Nat.le_refl _)]
    simp
  obtain ⟨hTTlen, hTTget⟩ := tokTT_chain s _ 0 _ [] hchain rfl
  simp only [List.nil_append] at hTTlen hTTget
  rw [htext, hbounds] at hd
  have htxne : σ.text ≠ [] := by rw [hd.text]; exact wf.text_ne
  have hfin := tokFinish_ok σ hd.pb htxne hd.ne
  rw [hd.text, hd.bounds, hd.tt] at hfin
  refine ⟨writeSpec s (iterTokens s.bounds) true,
    ⟨s.text, s.bounds, padTags (maxLen (tokTT s (iterTokens s.bounds))) (tokTT s (iterTokens s.bounds))⟩,
    ?_, ?_, rfl, rfl, ?_⟩
  · exact writeTokBody_eq s wf.tags_len _ true hgood
  · rw [parseTokenized_eq, if_neg hwne, hrun]
    exact hfin
  · intro se hse
    have hTTne : tokTT s (iterTokens s.bounds) ≠ [] := by
      intro e; rw [e] at hTTlen; exact wf.text_ne (List.length_eq_zero_iff.mp hTTlen.symm)
    have h1 := tagsAt_padTags (tokTT s (iterTokens s.bounds)) hTTne (se.2 - 1) (tagsAt s.tags s.nTags se.2)
      (hTTget se hse) (fun t ht => (wf.tags_ok t (mem_tagsAt ht)).1)
    have e : se.2 - 1 + 1 = se.2 := by have := hgood se hse; omega
    rw [e, tagsAt_idem, hTTlen] at h1
    exact h1


theorem tokens_good (s : Sentence) (wf : TokWF s) :
    ∀ se ∈ iterTokens s.bounds, se.1 < se.2 ∧ se.2 ≤ s.text.length := by
  have hchain : IsChain 0 (iterTokens s.bounds) s.text.length := by
    have := specSeg_chain s.bounds 0 0 wf.no_unknown (Nat.le_refl _)
    rw [iterTokens_eq_spec, ← wf.bounds_len]
    simpa [specTokens] using this
  exact fun se hse => (chain_mem _ _ _ hchain se hse).2

theorem writeTokenized_eq (s : Sentence) (wf : TokWF s) :
    s.writeTokenized = .ok (writeSpec s (iterTokens s.bounds) true) :=
  writeTokBody_eq s wf.tags_len _ true (tokens_good s wf)

theorem ofParsed_fields {p : Parsed} {s : Sentence} (h : Sentence.ofParsed p = .ok s) :
    s.text = p.text ∧ s.bounds = p.bounds ∧ s.tags = p.tags ∧ s.nTags = p.tags.length / p.text.length := by
  unfold Sentence.ofParsed divTags at h
  split at h
  · next k hk =>
    split at hk
    · cases hk
    · injection hk with hk
      injection h with h
      subst h
      exact ⟨rfl, rfl, rfl, hk.symm⟩
  · cases h
  · cases h
  · cases h

theorem parsed_wf (x : List Char) (p : Parsed) (h : parseTokenized x = .ok p) :
    ∃ s, Sentence.ofParsed p = .ok s ∧ TokWF s := by
  have hg : GoodParsed p := (parseTokenized_all x).of_ok h
  obtain ⟨hd, hl⟩ := hg.divTags
  obtain ⟨hn1, hn2, hn3⟩ := parseTokenized_nul x p h
  refine ⟨_, by simp only [Sentence.ofParsed, hd]; rfl, ?_⟩
  exact ⟨hg.text_ne, hn1, hg.bounds_len, hn2, hl, hn3⟩

theorem fromTokenized_ok {x : List Char} {s : Sentence} (h : Sentence.fromTokenized x = .ok s) :
    ∃ p, parseTokenized x = .ok p ∧ Sentence.ofParsed p = .ok s := by
  unfold Sentence.fromTokenized at h
  cases hp : parseTokenized x with
  | ok p => rw [hp] at h; exact ⟨p, rfl, h⟩
  | err e => rw [hp] at h; cases h
  | panic q => rw [hp] at h; cases h
  | ub q => rw [hp] at h; cases h

theorem idempotent (x : List Char) (s : Sentence) (h : Sentence.fromTokenized x = .ok s) :
    ∃ w s', s.writeTokenized = .ok w ∧ Sentence.fromTokenized w = .ok s' ∧ s'.writeTokenized = .ok w := by
  obtain ⟨p, hp, hs⟩ := fromTokenized_ok h
  obtain ⟨s0, hs0, wf⟩ := parsed_wf x p hp
  rw [hs] at hs0
  injection hs0 with hs0
  subst hs0
  obtain ⟨w, p', hw, hp', ht, hb, htags⟩ := roundtrip s wf
  obtain ⟨s', hs', wf'⟩ := parsed_wf w p' hp'
  obtain ⟨f1, f2, f3, f4⟩ := ofParsed_fields hs'
  have hw2 := writeTokenized_eq s wf
  rw [hw] at hw2
  injection hw2 with hw2
  refine ⟨w, s', hw, ?_, ?_⟩
  · simp only [Sentence.fromTokenized, hp', hs']
  · rw [writeTokenized_eq s' wf', hw2, f2, hb]
    congr 1
    apply writeSpec_congr
    · rw [f1, ht]
    · intro se hse
      rw [f3, f4]
      exact htags se hse

end V.C03L
