import VModel.Examples
import VProofs.Lemmas.CliSafe
import VProofs.Lemmas.UseNew
import VProofs.Lemmas.SerCanon
import VProofs.C02
import VProofs.C03
import VProofs.C13
/-!
# Examples — helper lemmas for the two example programs (`VModel/Examples.lean`): the browser worker (C16) and the
embedded device (C14)
-/
namespace V.ExL
open V V.C20L

/-! ## shared -/

theorem updateRaw_ok (s : Sentence) (x : List Char) (hne : x ≠ []) (hnul : '\x00' ∉ x) :
    s.updateRaw x = .ok (Sentence.mkRaw x, true) := by
  rcases raw_cases x with ⟨h1, _⟩ | ⟨_, _, h2⟩
  · rw [C16L.fromRaw_ok x hne hnul] at h1
    cases h1
  · exact h2 s

theorem updateRaw_rejected (s : Sentence) (x : List Char) (h : x = [] ∨ '\x00' ∈ x) :
    s.updateRaw x = .ok (Sentence.default, false) := by
  rcases raw_cases x with ⟨_, h2⟩ | ⟨⟨hne, hnul⟩, _, _⟩
  · exact h2 s
  · rcases h with h | h
    · exact absurd h hne
    · exact absurd h hnul

/-! ## the browser worker -/

theorem wasm_reuse (p : Predictor) (cl : List Nat) (w : WasmWorker) (msg : List Char) :
    (wasmReceived p cl w msg).map (·.2) = (wasmReceived p cl {} msg).map (·.2) := by
  unfold wasmReceived
  by_cases he : msg.isEmpty = true
  · simp only [he, if_true]
    rfl
  · simp only [he, Bool.false_eq_true, if_false]
    rcases raw_cases (Gen.fullwidth msg) with ⟨_, h2⟩ | ⟨_, _, h2⟩
    · simp only [h2, bindR_ok]
      rfl
    · rcases raw_cases msg with ⟨_, g2⟩ | ⟨_, _, g2⟩
      · simp only [h2, g2, bindR_ok]
      · simp only [h2, g2, bindR_ok]

theorem wasm_empty (p : Predictor) (cl : List Nat) (w : WasmWorker) : wasmReceived p cl w [] = .ok (w, [], 0) := rfl

theorem wasm_rejected (p : Predictor) (cl : List Nat) (w : WasmWorker) (msg : List Char) (hne : msg ≠ [])
    (hnul : '\x00' ∈ msg) : ∃ q, wasmReceived p cl w msg = .panic q := by
  have he : ¬ msg.isEmpty = true := by simpa using hne
  refine ⟨"sentence_filtered.update_raw(filtered_text).unwrap()", ?_⟩
  unfold wasmReceived
  simp only [he, Bool.false_eq_true, if_false,
    updateRaw_rejected w.sFiltered _ (Or.inr (fullwidth_nul_of msg hnul)), bindR_ok]
  rfl

theorem wasmCopy_ok (msg : List Char) (hne : msg ≠ []) (s : Sentence) (hi : Inv s) (hl : s.text.length = msg.length) :
    wasmCopy (Sentence.mkRaw msg) s =
      .ok { Sentence.mkRaw msg with bounds := s.bounds, tags := s.tags, nTags := s.nTags } := by
  have hpos : 0 < msg.length := List.length_pos_iff.mpr hne
  have hb := hi.bounds_len
  have c1 : ¬ (Sentence.mkRaw msg).bounds.length ≠ s.bounds.length := by
    simp only [Sentence.mkRaw, List.length_replicate]
    omega
  have c2 : ¬ (({ Sentence.mkRaw msg with bounds := s.bounds } : Sentence).resetTags s.nTags).tags.length
      ≠ s.tags.length := by
    simp only [Sentence.resetTags, Sentence.mkRaw, List.length_replicate, typesOf_length]
    rw [hi.tags_len, hl, Nat.mul_comm]
    exact fun c => c rfl
  unfold wasmCopy
  rw [if_neg c1]
  simp only []
  rw [if_neg c2]
  rfl

theorem wasmTokens_go_ok (s : Sentence) (l : List (Nat × Nat))
    (h : ∀ se ∈ l, se.1 ≤ se.2 ∧ se.2 ≤ s.text.length ∧ 0 < se.2 ∧ se.2 * s.nTags ≤ s.tags.length) :
    wasmTokens.go s l = .ok (l.map fun se => ((s.text.drop se.1).take (se.2 - se.1),
      ((s.tags.drop ((se.2 - 1) * s.nTags)).take s.nTags).map fun t => t.getD [])) := by
  induction l with
  | nil => rfl
  | cons x r ih =>
    obtain ⟨st, en⟩ := x
    obtain ⟨h1, h2, h3, h4⟩ := h (st, en) (by simp)
    simp only at h1 h2 h3 h4
    have hs : s.substring st en = .ok ((s.text.drop st).take (en - st)) := by
      unfold Sentence.substring
      rw [if_pos ⟨h1, h2⟩]
    have ht : s.tokenTags en = .ok ((s.tags.drop ((en - 1) * s.nTags)).take s.nTags) := by
      unfold Sentence.tokenTags
      rw [if_neg (by omega), if_pos h4]
    have hr := ih (fun se hse => h se (by simp [hse]))
    simp only [wasmTokens.go, hs, ht, hr, List.map_cons]

/-- the library pipeline the worker runs, on a fresh sentence -/
def wasmLib (p : Predictor) (cl : List Nat) (x : List Char) : Res Sentence :=
  bindR (Sentence.fromRaw x) fun s0 =>
  bindR (p.predict 0 s0) fun s1 =>
  bindR (filterGraphemes cl s1) fun s2 =>
  bindR (filterWsConst 1 s2) fun s3 => p.predictTags s3

theorem wasm_answer (cfg : Cfg) (m : WModel) (hm : WFModel m) (ht : WFTags m) (p : Predictor)
    (hp : Predictor.new cfg m true = .ok p) (w : WasmWorker) (msg : List Char) (hne : msg ≠ []) (hnul : '\x00' ∉ msg)
    (cl : List Nat) (hpos : ∀ l ∈ cl, 1 ≤ l) (hsum : cl.sum = msg.length) :
    ∃ s w' toks,
      wasmLib p cl (Gen.fullwidth msg) = .ok s ∧
      wasmReceived p cl w msg = .ok (w', toks, s.nTags) ∧
      toks = (iterTokens s.bounds).map (fun se => ((msg.drop se.1).take (se.2 - se.1),
        ((s.tags.drop ((se.2 - 1) * s.nTags)).take s.nTags).map (fun t => t.getD []))) ∧
      (toks.map (·.1)).flatten = msg := by
  have hx_ne := C16L.fullwidth_ne_nil msg hne
  have hx_nul := C16L.fullwidth_no_nul msg hnul
  have hlen := C16L.fullwidth_length msg
  have he : ¬ msg.isEmpty = true := by simpa using hne
  obtain ⟨s1, e1, hP⟩ := predict_stage cfg m hm true p hp _ hx_ne
  -- the grapheme filter
  obtain ⟨bs2, e2, l2, p2⟩ := C15_graphemes cl s1 hP.inv hpos (by rw [hsum, hP.text, hlen])
  have hU2 : ∀ b ∈ bs2, b ≠ B.U := C16L.noU_pointwise hP.noU l2 fun i hi => ⟨_, p2 i hi, by
    split
    · exact Or.inr (Or.inr rfl)
    · exact Or.inr (Or.inl rfl)⟩
  have hi2 : Inv ({ s1 with bounds := bs2 } : Sentence) := Inv.ofC (C15L.invC_bounds hP.inv.toC l2)
  -- the digit filter
  obtain ⟨bs3, e3, l3, p3⟩ := C15_wsconst 1 _ hi2
  have hU3 : ∀ b ∈ bs3, b ≠ B.U := C16L.noU_pointwise hU2 l3 fun i hi => ⟨_, p3 i hi, by
    split
    · exact Or.inr (Or.inl rfl)
    · exact Or.inr (Or.inr rfl)⟩
  have e3' : filterWsConst 1 ({ s1 with bounds := bs2 } : Sentence) = .ok ({ s1 with bounds := bs3 } : Sentence) := e3
  -- `fill_tags`
  obtain ⟨s3, e4, hF⟩ := tags_stage cfg m hm ht p hp ⟨false, true, false, p.storeTagScores, []⟩ rfl _ hx_ne s1 e1 hP bs3
    (l3.trans l2) hU3
  have e4' : p.predictTags ({ s1 with bounds := bs3 } : Sentence) = .ok s3 := e4
  -- the copy onto the original characters
  have hl3 : s3.text.length = msg.length := by rw [hF.text, hlen]
  have hb3 := hF.inv.bounds_len
  have htok := wasmTokens_go_ok
    ({ Sentence.mkRaw msg with bounds := s3.bounds, tags := s3.tags, nTags := s3.nTags } : Sentence)
    (iterTokens s3.bounds) (fun se hse => by
      have hr := iterTokens_range s3.bounds se hse
      refine ⟨by omega, ?_, by omega, ?_⟩
      · show se.2 ≤ msg.length
        omega
      · show se.2 * s3.nTags ≤ s3.tags.length
        rw [hF.inv.tags_len]
        exact Nat.mul_le_mul_right _ (by omega))
  refine ⟨s3, { sFiltered := s3, sOrig :=
    ({ Sentence.mkRaw msg with bounds := s3.bounds, tags := s3.tags, nTags := s3.nTags } : Sentence) }, _, ?_, ?_, rfl, ?_⟩
  · simp only [wasmLib, C16L.fromRaw_ok _ hx_ne hx_nul, bindR_ok, e1, e2, e3', e4']
  · simp only [wasmReceived, he, Bool.false_eq_true, if_false, updateRaw_ok _ _ hx_ne hx_nul, bindR_ok, Bool.not_true,
      e1, e2, e3', e4', updateRaw_ok _ _ hne hnul, wasmCopy_ok msg hne s3 hF.inv hl3, wasmTokens, htok]
    rfl
  · rw [List.map_map]
    have := C02_partition_concat msg s3.bounds hF.noU (by omega)
    rw [List.flatMap_def] at this
    exact this

/-! ## the embedded device -/

/-- without tag prediction every build configuration accepts every well-formed model -/
theorem new_plain_total (cfg : Cfg) (m : WModel) (hm : WFModel m) : ∃ p, Predictor.new cfg m false = .ok p := by
  obtain ⟨cs, hcs⟩ := C11L.charScorerNew_total cfg m hm [] (fun tm htm => by cases htm)
  obtain ⟨ts, hts⟩ := C11L.typeScorerNew_total cfg m hm [] (fun tm htm => by cases htm)
  unfold Predictor.new
  simp only [Bool.false_and, Bool.false_eq_true, if_false, hcs, hts]
  exact ⟨_, rfl⟩

theorem embedded_device (m : WModel) (text : List Char) :
    embeddedDevice m text = bindR (Predictor.new embeddedCfg m false) fun p => embeddedTokenize p text := by
  unfold embeddedDevice embeddedBuild
  cases h : Predictor.new embeddedCfg m false with
  | ok p => simp only [Res.map, bindR_ok, C14L.new_reser h]
  | err e => rfl
  | panic q => rfl
  | ub q => rfl

/-- the tokenised line depends on the text, the boundaries and the tags only -/
theorem writeTokBody_congr (s s' : Sentence) (h1 : s.text = s'.text) (h2 : s.tags = s'.tags) (h3 : s.nTags = s'.nTags) :
    ∀ (l : List (Nat × Nat)) (first : Bool), writeTokBody s l first = writeTokBody s' l first := by
  intro l
  induction l with
  | nil => intro first; rfl
  | cons x r ih =>
    intro first
    obtain ⟨st, en⟩ := x
    have hs : s.substring st en = s'.substring st en := by
      unfold Sentence.substring
      rw [h1]
    have ht : s.tokenTags en = s'.tokenTags en := by
      unfold Sentence.tokenTags
      rw [h2, h3]
    simp only [writeTokBody, hs, ht, ih]

/-- digit filter, then the writer: a function of text, types, boundaries and tags -/
theorem tail_congr (s s' : Sentence) (h1 : s.text = s'.text) (h2 : s.types = s'.types) (h3 : s.bounds = s'.bounds)
    (h4 : s.tags = s'.tags) (h5 : s.nTags = s'.nTags) :
    bindR (filterWsConst 1 s) Sentence.writeTokenized = bindR (filterWsConst 1 s') Sentence.writeTokenized := by
  have hgo : filterWsConst.go 1 s.types s.bounds = filterWsConst.go 1 s'.types s'.bounds := by rw [h2, h3]
  have hlen : s.types.length = s'.types.length := by rw [h2]
  unfold filterWsConst
  rw [hlen, hgo]
  split
  · rfl
  · cases filterWsConst.go 1 s'.types s'.bounds with
    | ok bs =>
      simp only [bindR_ok]
      exact writeTokBody_congr ({ s with bounds := bs } : Sentence) ({ s' with bounds := bs } : Sentence) h1 h4 h5
        (iterTokens bs) true
    | err e => rfl
    | panic q => rfl
    | ub q => rfl

theorem embeddedTokenize_indep (cfg₁ cfg₂ : Cfg) (m : WModel) (hm : WFModel m) (p₁ p₂ : Predictor)
    (h₁ : Predictor.new cfg₁ m false = .ok p₁) (h₂ : Predictor.new cfg₂ m false = .ok p₂) (text : List Char) :
    embeddedTokenize p₁ text = embeddedTokenize p₂ text := by
  unfold embeddedTokenize
  rcases raw_cases text with ⟨h, _⟩ | ⟨⟨hne, _⟩, h, _⟩
  · simp only [h]
  · simp only [h]
    obtain ⟨s₁, e₁, _, b1, c1, d1, t1, n1, _⟩ := C01_scores cfg₁ m hm false p₁ h₁ _ (sentOK_mkRaw text hne) 0
    obtain ⟨s₂, e₂, _, b2, c2, d2, t2, n2, _⟩ := C01_scores cfg₂ m hm false p₂ h₂ _ (sentOK_mkRaw text hne) 0
    rw [e₁, e₂]
    simp only [bindR_ok]
    exact tail_congr s₁ s₂ (c1.trans c2.symm) (d1.trans d2.symm) (b1.trans b2.symm) (t1.trans t2.symm) (n1.trans n2.symm)

theorem embedded_cfg_independent (cfg : Cfg) (m : WModel) (hm : WFModel m) (text : List Char) :
    embeddedDevice m text = bindR (Predictor.new cfg m false) fun p => embeddedTokenize p text := by
  obtain ⟨p₁, h₁⟩ := new_plain_total embeddedCfg m hm
  obtain ⟨p₂, h₂⟩ := new_plain_total cfg m hm
  rw [embedded_device, h₁, h₂, bindR_ok, bindR_ok]
  exact embeddedTokenize_indep _ _ m hm p₁ p₂ h₁ h₂ text

theorem embedded_total (m : WModel) (hm : WFModel m) (text : List Char) (hne : text ≠ []) (hnul : '\x00' ∉ text) :
    ∃ w q, embeddedDevice m text = .ok w ∧ parseTokenized w = .ok q ∧ q.text = text := by
  obtain ⟨p, hp⟩ := new_plain_total embeddedCfg m hm
  obtain ⟨s1, e1, hP⟩ := predict_stage embeddedCfg m hm false p hp text hne
  obtain ⟨bs, e2, l2, p2⟩ := C15_wsconst 1 s1 hP.inv
  have hU : ∀ b ∈ bs, b ≠ B.U := C16L.noU_pointwise hP.noU l2 fun i hi => ⟨_, p2 i hi, by
    split
    · exact Or.inr (Or.inl rfl)
    · exact Or.inr (Or.inr rfl)⟩
  have hwf : WFTok ({ s1 with bounds := bs } : Sentence) :=
    ⟨hP.inv.text_ne, by
      show ∀ c ∈ s1.text, c ≠ '\x00'
      rw [hP.text]
      exact fun c hc e => hnul (e ▸ hc),
     by
      show bs.length + 1 = s1.text.length
      rw [l2]
      exact hP.inv.bounds_len,
     hU, hP.inv.tags_len, fun t ht => by
      have ht' : some t ∈ s1.tags := ht
      rw [hP.tags] at ht'
      cases ht'⟩
  obtain ⟨w, q, hw, hq, hqt, _⟩ := C03_roundtrip _ hwf
  refine ⟨w, q, ?_, hq, hqt.trans hP.text⟩
  rw [embedded_device, hp, bindR_ok]
  simp only [embeddedTokenize, C16L.fromRaw_ok text hne hnul, e1, e2, bindR_ok, hw]

end V.ExL
