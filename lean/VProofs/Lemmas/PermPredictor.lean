import VModel.Scorer
import VProofs.Lemmas.TagMerge
import VProofs.Lemmas.PermTagInfo
/-!
# C06 helpers (hash order 2): predictor construction with arbitrary `tag_info` iteration orders

`Predictor.newG add' shuf` is `Predictor.new` in which
* every `+=` of two `PositionalWeightWithTag`s (in `merger.add` and in `merger.merge`) is performed by `add'`, ANY function that
  returns `PWT.add`'s map with its entries listed in some other order (the order may depend on both arguments in any way), and
* the `tag_info` of every merged pattern is iterated in the order `shuf` puts it in (again any order),
so that `Predictor.newG PWT.add id = Predictor.new`.  Theorem `new_sim`: the two constructions give the same outcome.
-/
namespace V
variable {α : Type} [DecidableEq α]

/-- `add'` computes `PWT.add` up to the listing order of the `tagInfo` map -/
abbrev AddLike (add' : PWT → PWT → PWT) : Prop :=
  ∀ a b : PWT, (a.tagInfo.map Prod.fst).Nodup → (b.tagInfo.map Prod.fst).Nodup → (a.add b).equiv (add' a b)

/-- `shuf` only changes the listing order of the `tagInfo` map -/
abbrev ShufLike (shuf : PWT → PWT) : Prop := ∀ a : PWT, (a.tagInfo.map Prod.fst).Nodup → a.equiv (shuf a)

def buildBoundaryTagG (add' : PWT → PWT → PWT) (shuf : PWT → PWT) (cfg : Cfg) (window nTagModels : Nat)
    (entries : List (List α × PWT)) : Res (PmaScorer α) :=
  let merged := (Merge.mergeEntries add' PWT.empty entries).map fun e => (e.1, shuf e.2)
  let pats := merged.map Prod.fst
  let nRel := entries.foldl (fun acc e => e.2.tagInfo.foldl (fun a kv => max a (kv.1.2 + 1)) acc) (window + 1)
  let table := List.replicate nTagModels (List.replicate nRel ([] : List (Nat × WV)))
  (fillTagWeights cfg merged 0 table).bind fun tw =>
    if pmaBuildOk pats then
      .ok { pats := pats, weights := merged.map fun e => e.2.weight.map (·.toPWV cfg), tagWeight := some tw }
    else .err .invalidModel

def charScorerNewG (add' : PWT → PWT → PWT) (shuf : PWT → PWT) (cfg : Cfg) (m : WModel)
    (tagNgrams : List (List (TagNgramData Char))) : Res (Option (PmaScorer Char)) :=
  let noTagNgrams := !cfg.tagPred || tagNgrams.all (·.isEmpty)
  let m : WModel := if m.charW = 0 then { m with charNgrams := [] } else m
  if m.charNgrams.isEmpty && m.dict.isEmpty && noTagNgrams then .ok none
  else if m.dict.any (fun d => 32767 < d.word.length) then .err .invalidModel
  else
    let off : Int := -(m.charW : Int)
    if cfg.tagPred && !tagNgrams.isEmpty then
      let es := m.charNgrams.map (fun d => (d.ngram, ({ weight := some ⟨off, d.weights⟩, tagInfo := [] } : PWT)))
        ++ m.dict.map (fun d => (d.word, ({ weight := some ⟨-(d.word.length : Int), d.weights⟩, tagInfo := [] } : PWT)))
        ++ tagEntries tagNgrams
      (buildBoundaryTagG add' shuf cfg m.charW tagNgrams.length (addAll add' es [])).map some
    else
      let es := m.charNgrams.map (fun d => (d.ngram, (⟨off, d.weights⟩ : PW)))
        ++ m.dict.map (fun d => (d.word, (⟨-(d.word.length : Int), d.weights⟩ : PW)))
      (buildBoundary cfg (addAll PW.add es [])).map some

def typeScorerNewG (add' : PWT → PWT → PWT) (shuf : PWT → PWT) (cfg : Cfg) (m : WModel)
    (tagNgrams : List (List (TagNgramData Nat))) : Res (Option TypeScorer) :=
  let noTagNgrams := !cfg.tagPred || tagNgrams.all (·.isEmpty)
  let m : WModel := if m.typeW = 0 then { m with typeNgrams := [] } else m
  if m.typeNgrams.isEmpty && noTagNgrams then .ok none
  else
    let off : Int := -(m.typeW : Int)
    if cfg.tagPred && !tagNgrams.isEmpty then
      let es := m.typeNgrams.map (fun d => (d.ngram, ({ weight := some ⟨off, d.weights⟩, tagInfo := [] } : PWT)))
        ++ tagEntries tagNgrams
      (buildBoundaryTagG add' shuf cfg m.typeW tagNgrams.length (addAll add' es [])).map fun s => some (.pma s)
    else if cfg.cache && m.typeW ≤ 3 then
      if pmaBuildOk (m.typeNgrams.map (·.ngram)) then .ok (some (.cache m.typeNgrams m.typeW)) else .err .invalidModel
    else
      let es := m.typeNgrams.map (fun d => (d.ngram, (⟨off, d.weights⟩ : PW)))
      (buildBoundary cfg (addAll PW.add es [])).map fun s => some (.pma s)

def Predictor.newG (add' : PWT → PWT → PWT) (shuf : PWT → PWT) (cfg : Cfg) (m : WModel) (predictTags : Bool) :
    Res Predictor :=
  if predictTags && !cfg.tagPred then .panic "tag prediction is unsupported" else
  let useTags := predictTags && cfg.tagPred
  let tagPredictor := if useTags then
      some ((m.tagModels.zipIdx).map fun (tm, i) => (tm.token, i, ({ tags := tm.tags, bias := WV.ofList cfg tm.bias } : TagPredictor)))
    else none
  let nTags := if useTags then m.tagModels.foldl (fun acc tm => max acc tm.tags.length) 0 else 0
  let tagChar := if useTags then m.tagModels.map (·.charNgrams) else []
  let tagType := if useTags then m.tagModels.map (·.typeNgrams) else []
  (charScorerNewG add' shuf cfg m tagChar).bind fun cs =>
    (typeScorerNewG add' shuf cfg m tagType).bind fun ts =>
      .ok { charScorer := cs, typeScorer := ts, bias := m.bias, tagPredictor := tagPredictor,
            nTags := nTags, storeTagScores := false }

end V

namespace V.C06L
open V V.PermL
variable {α : Type} [DecidableEq α]

theorem ResSim.bind2 {σ τ : Type} {r₁ r₂ : Res σ} (h : ResSim r₁ r₂) {f g : σ → Res τ} (hfg : ∀ a, ResSim (f a) (g a)) :
    ResSim (r₁.bind f) (r₂.bind g) := by
  rcases h with h | ⟨s₁, s₂, h₁, h₂⟩
  · rw [← h]
    cases r₁ with
    | ok a => exact hfg a
    | err _ => exact ResSim.refl _
    | panic _ => exact ResSim.refl _
    | ub _ => exact ResSim.refl _
  · rw [h₁, h₂]; exact ResSim.panic _ _

theorem buildBoundaryTag_bind (cfg : Cfg) (window nTagModels : Nat) (entries : List (List α × PWT)) :
    buildBoundaryTag cfg window nTagModels entries =
      (fillTagWeights cfg (Merge.mergeEntries PWT.add PWT.empty entries) 0
        (List.replicate nTagModels (List.replicate
          (entries.foldl (fun acc e => e.2.tagInfo.foldl (fun a kv => max a (kv.1.2 + 1)) acc) (window + 1))
          ([] : List (Nat × WV))))).bind fun tw =>
        if pmaBuildOk ((Merge.mergeEntries PWT.add PWT.empty entries).map Prod.fst) then
          .ok { pats := (Merge.mergeEntries PWT.add PWT.empty entries).map Prod.fst,
                weights := (Merge.mergeEntries PWT.add PWT.empty entries).map fun e => e.2.weight.map (·.toPWV cfg),
                tagWeight := some tw }
        else .err .invalidModel := by
  unfold buildBoundaryTag
  simp only
  cases fillTagWeights cfg (Merge.mergeEntries PWT.add PWT.empty entries) 0 _ <;> rfl

omit [DecidableEq α] in
theorem nRel_rel : ∀ {es es' : List (List α × PWT)}, ListRel (ERel PWT.equiv) es es' → ∀ init : Nat,
    es.foldl (fun acc e => e.2.tagInfo.foldl (fun a kv => max a (kv.1.2 + 1)) acc) init
      = es'.foldl (fun acc e => e.2.tagInfo.foldl (fun a kv => max a (kv.1.2 + 1)) acc) init
  | _, _, .nil, _ => rfl
  | _, _, .cons (a := e) (b := e') hab hr, init => by
    rw [List.foldl_cons, List.foldl_cons]
    have : e.2.tagInfo.foldl (fun a kv => max a (kv.1.2 + 1)) init = e'.2.tagInfo.foldl (fun a kv => max a (kv.1.2 + 1)) init := by
      refine hab.2.2.1.foldl_eq' ?_ init
      intro x _ y _ z
      omega
    rw [this]
    exact nRel_rel hr _

theorem hadd_of_addLike {add' : PWT → PWT → PWT} (h : AddLike add') :
    ∀ a a' b b', PWT.equiv a a' → PWT.equiv b b' → PWT.equiv (PWT.add a b) (add' a' b') := by
  intro a a' b b' ha hb
  exact equiv_trans (add_equiv ha hb) (h a' b' (equiv_nodup_right ha) (equiv_nodup_right hb))

/-- the scorer does not depend on the orders in which the `tag_info` maps were listed, at any stage -/
theorem buildBoundaryTagG_sim {add' : PWT → PWT → PWT} {shuf : PWT → PWT} (hadd : AddLike add') (hshuf : ShufLike shuf)
    (cfg : Cfg) (window nTagModels : Nat) {es es' : List (List α × PWT)} (h : ListRel (ERel PWT.equiv) es es') :
    ResSim (buildBoundaryTag cfg window nTagModels es) (buildBoundaryTagG add' shuf cfg window nTagModels es') := by
  have hm : ListRel (ERel PWT.equiv) (Merge.mergeEntries PWT.add PWT.empty es)
      ((Merge.mergeEntries add' PWT.empty es').map fun e => (e.1, shuf e.2)) := by
    have h0 := mergeEntries_rel PWT.equiv PWT.add add' (hadd_of_addLike hadd) PWT.empty PWT.empty equiv_empty h
    refine ListRel.map_right (fun e => (e.1, shuf e.2)) ?_ h0
    intro a b hab
    exact ⟨hab.1, equiv_trans hab.2 (hshuf b.2 (equiv_nodup_right hab.2))⟩
  have hpats : (Merge.mergeEntries PWT.add PWT.empty es).map Prod.fst
      = ((Merge.mergeEntries add' PWT.empty es').map fun e => (e.1, shuf e.2)).map Prod.fst :=
    ListRel.map_eq _ _ (fun _ _ hab => hab.1) hm
  have hw : ((Merge.mergeEntries PWT.add PWT.empty es).map fun e => e.2.weight.map (·.toPWV cfg))
      = (((Merge.mergeEntries add' PWT.empty es').map fun e => (e.1, shuf e.2)).map fun e => e.2.weight.map (·.toPWV cfg)) :=
    ListRel.map_eq _ _ (fun _ _ hab => by rw [hab.2.1]) hm
  rw [buildBoundaryTag_bind]
  unfold buildBoundaryTagG
  simp only
  rw [← hpats, ← hw, ← nRel_rel h]
  exact (fill_perm cfg hm 0 _).bind _

omit [DecidableEq α] in
theorem tagEntries_nodup (T : List (List (TagNgramData α))) : ∀ e ∈ tagEntries T, PWT.equiv e.2 e.2 := by
  intro e he
  obtain ⟨i, tm, d, w, _, _, _, rfl⟩ := mem_tagEntries T e he
  exact equiv_refl _ (by simp)

theorem addAll_sim {add' : PWT → PWT → PWT} (hadd : AddLike add') (es : List (List α × PWT))
    (hes : ∀ e ∈ es, PWT.equiv e.2 e.2) :
    ListRel (ERel PWT.equiv) (addAll PWT.add es []) (addAll add' es []) :=
  addAll_rel PWT.equiv PWT.add add' (hadd_of_addLike hadd) (ListRel.refl_of es fun e he => ⟨rfl, hes e he⟩) .nil

theorem charScorerNew_sim {add' : PWT → PWT → PWT} {shuf : PWT → PWT} (hadd : AddLike add') (hshuf : ShufLike shuf)
    (cfg : Cfg) (m : WModel) (T : List (List (TagNgramData Char))) :
    ResSim (charScorerNew cfg m T) (charScorerNewG add' shuf cfg m T) := by
  unfold charScorerNew charScorerNewG
  simp only
  generalize (if m.charW = 0 then ({ m with charNgrams := [] } : WModel) else m) = m'
  split
  · exact ResSim.refl _
  · split
    · exact ResSim.refl _
    · split
      · refine (buildBoundaryTagG_sim hadd hshuf cfg _ _ (addAll_sim hadd _ ?_)).map _
        intro e he
        rcases List.mem_append.mp he with he | he
        · rcases List.mem_append.mp he with he | he
          · obtain ⟨d, _, rfl⟩ := List.mem_map.mp he
            exact equiv_refl _ List.nodup_nil
          · obtain ⟨d, _, rfl⟩ := List.mem_map.mp he
            exact equiv_refl _ List.nodup_nil
        · exact tagEntries_nodup T e he
      · exact ResSim.refl _

theorem typeScorerNew_sim {add' : PWT → PWT → PWT} {shuf : PWT → PWT} (hadd : AddLike add') (hshuf : ShufLike shuf)
    (cfg : Cfg) (m : WModel) (T : List (List (TagNgramData Nat))) :
    ResSim (typeScorerNew cfg m T) (typeScorerNewG add' shuf cfg m T) := by
  unfold typeScorerNew typeScorerNewG
  simp only
  generalize (if m.typeW = 0 then ({ m with typeNgrams := [] } : WModel) else m) = m'
  split
  · exact ResSim.refl _
  · split
    · refine (buildBoundaryTagG_sim hadd hshuf cfg _ _ (addAll_sim hadd _ ?_)).map _
      intro e he
      rcases List.mem_append.mp he with he | he
      · obtain ⟨d, _, rfl⟩ := List.mem_map.mp he
        exact equiv_refl _ List.nodup_nil
      · exact tagEntries_nodup T e he
    · exact ResSim.refl _

theorem new_eq_bind (cfg : Cfg) (m : WModel) (predictTags : Bool) :
    Predictor.new cfg m predictTags =
      if predictTags && !cfg.tagPred then .panic "tag prediction is unsupported" else
      (charScorerNew cfg m (if (predictTags && cfg.tagPred) = true then m.tagModels.map (·.charNgrams) else [])).bind fun cs =>
        (typeScorerNew cfg m (if (predictTags && cfg.tagPred) = true then m.tagModels.map (·.typeNgrams) else [])).bind fun ts =>
          .ok { charScorer := cs, typeScorer := ts, bias := m.bias,
                tagPredictor := if (predictTags && cfg.tagPred) = true then
                    some ((m.tagModels.zipIdx).map fun (tm, i) =>
                      (tm.token, i, ({ tags := tm.tags, bias := WV.ofList cfg tm.bias } : TagPredictor)))
                  else none,
                nTags := if (predictTags && cfg.tagPred) = true then m.tagModels.foldl (fun acc tm => max acc tm.tags.length) 0 else 0,
                storeTagScores := false } := by
  unfold Predictor.new
  split
  · rfl
  · simp only
    cases charScorerNew cfg m _ with
    | ok cs =>
      simp only [Res.bind_ok]
      cases typeScorerNew cfg m _ <;> rfl
    | err _ => rfl
    | panic _ => rfl
    | ub _ => rfl

/-- **`Predictor::new` does not depend on the iteration orders of the `tag_info` hash maps** -/
theorem new_sim {add' : PWT → PWT → PWT} {shuf : PWT → PWT} (hadd : AddLike add') (hshuf : ShufLike shuf)
    (cfg : Cfg) (m : WModel) (predictTags : Bool) :
    ResSim (Predictor.new cfg m predictTags) (Predictor.newG add' shuf cfg m predictTags) := by
  rw [new_eq_bind]
  unfold Predictor.newG
  split
  · exact ResSim.refl _
  · simp only
    refine ResSim.bind2 (charScorerNew_sim hadd hshuf cfg m _) ?_
    intro cs
    refine ResSim.bind2 (typeScorerNew_sim hadd hshuf cfg m _) ?_
    intro ts
    exact ResSim.refl _

/-! ## instances of `AddLike` / `ShufLike`: any re-listing function -/

theorem addLike_of_perm (π : TI → TI) (hπ : ∀ l, (π l).Perm l) :
    AddLike fun a b => { a.add b with tagInfo := π (a.add b).tagInfo } := by
  intro a b ha _
  refine ⟨rfl, (hπ _).symm, ?_⟩
  rw [PWT_add_tagInfo]
  exact fold_nodup _ _ ha

theorem shufLike_of_perm (π : TI → TI) (hπ : ∀ l, (π l).Perm l) : ShufLike fun a => { a with tagInfo := π a.tagInfo } := by
  intro a ha
  exact ⟨rfl, (hπ _).symm, ha⟩

/-! ## `newG` generalises `new` -/

theorem map_pair_id {β γ : Type} : ∀ l : List (β × γ), l.map (fun e => (e.1, id e.2)) = l
  | [] => rfl
  | e :: l => by rw [List.map_cons, map_pair_id l]; rfl

theorem buildBoundaryTagG_id (cfg : Cfg) (window nTagModels : Nat) (es : List (List α × PWT)) :
    buildBoundaryTagG PWT.add id cfg window nTagModels es = buildBoundaryTag cfg window nTagModels es := by
  rw [buildBoundaryTag_bind]
  unfold buildBoundaryTagG
  simp only [map_pair_id]

theorem charScorerNewG_id (cfg : Cfg) (m : WModel) (T : List (List (TagNgramData Char))) :
    charScorerNewG PWT.add id cfg m T = charScorerNew cfg m T := by
  unfold charScorerNewG charScorerNew
  simp only [buildBoundaryTagG_id]

theorem typeScorerNewG_id (cfg : Cfg) (m : WModel) (T : List (List (TagNgramData Nat))) :
    typeScorerNewG PWT.add id cfg m T = typeScorerNew cfg m T := by
  unfold typeScorerNewG typeScorerNew
  simp only [buildBoundaryTagG_id]

theorem newG_id (cfg : Cfg) (m : WModel) (predictTags : Bool) :
    Predictor.newG PWT.add id cfg m predictTags = Predictor.new cfg m predictTags := by
  rw [new_eq_bind]
  unfold Predictor.newG
  simp only [charScorerNewG_id, typeScorerNewG_id]

end V.C06L
