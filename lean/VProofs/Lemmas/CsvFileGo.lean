import VModel.CsvFile
/-!
# CsvFile helper lemmas, part 1: the reader automaton on the pieces the writer produces
-/
namespace V.C19F
open V

theorem special_false {c : Char} (h : csvSpecial c = false) : c ≠ ',' ∧ c ≠ '"' ∧ c ≠ '\r' ∧ c ≠ '\n' := by
  simp only [csvSpecial, Bool.or_eq_false_iff, decide_eq_false_iff_not] at h
  exact ⟨h.1.1.1, h.1.1.2, h.1.2, h.2⟩

/-! ## single steps of `csvGo` -/

theorem go_skip {st st' : CsvSt} {c : Char} (h : csvStep st c = (st', .skip)) (fa : List Char) (ra : List (List Char))
    (cs : List Char) : csvGo st fa ra (c :: cs) = csvGo st' fa ra cs := by
  rw [csvGo, h]

theorem go_copy {st st' : CsvSt} {c : Char} (h : csvStep st c = (st', .copy)) (fa : List Char) (ra : List (List Char))
    (cs : List Char) : csvGo st fa ra (c :: cs) = csvGo st' (c :: fa) ra cs := by
  rw [csvGo, h]

theorem go_endField {st st' : CsvSt} {c : Char} (h : csvStep st c = (st', .endField)) (fa : List Char)
    (ra : List (List Char)) (cs : List Char) : csvGo st fa ra (c :: cs) = csvGo st' [] (fa.reverse :: ra) cs := by
  rw [csvGo, h]

theorem go_endRecord {st st' : CsvSt} {c : Char} (h : csvStep st c = (st', .endRecord)) (fa : List Char)
    (ra : List (List Char)) (cs : List Char) :
    csvGo st fa ra (c :: cs) = csvEndRecord fa ra :: csvGo st' [] [] cs := by
  rw [csvGo, h]

/-! ## steps on the characters of interest -/

theorem step_inField_plain {c : Char} (h : csvSpecial c = false) : csvStep .inField c = (.inField, .copy) := by
  obtain ⟨h1, _, h3, h4⟩ := special_false h
  simp [csvStep, csvStepInField, h1, h3, h4]

theorem step_startField_plain {c : Char} (h : csvSpecial c = false) : csvStep .startField c = (.inField, .copy) := by
  obtain ⟨h1, h2, h3, h4⟩ := special_false h
  simp [csvStep, csvStepStartField, h1, h2, h3, h4]

theorem step_inQuoted_other {c : Char} (h : c ≠ '"') : csvStep .inQuoted c = (.inQuoted, .copy) := by
  simp [csvStep, h]

/-- at the start of a record every character except CR and LF is handled as at the start of a field -/
theorem step_startRecord {c : Char} (h1 : c ≠ '\n') (h2 : c ≠ '\r') : csvStep .startRecord c = csvStep .startField c := by
  simp [csvStep, h1, h2]

theorem step_afterCR {c : Char} (h1 : c ≠ '\n') (h2 : c ≠ '\r') : csvStep .afterCR c = csvStep .startField c := by
  simp [csvStep, h1, h2]

theorem go_startRecord {c : Char} (h1 : c ≠ '\n') (h2 : c ≠ '\r') (fa : List Char) (ra : List (List Char))
    (cs : List Char) : csvGo .startRecord fa ra (c :: cs) = csvGo .startField fa ra (c :: cs) := by
  rw [csvGo, csvGo, step_startRecord h1 h2]

theorem go_afterCR {c : Char} (h1 : c ≠ '\n') (h2 : c ≠ '\r') (fa : List Char) (ra : List (List Char))
    (cs : List Char) : csvGo .afterCR fa ra (c :: cs) = csvGo .startField fa ra (c :: cs) := by
  rw [csvGo, csvGo, step_afterCR h1 h2]

/-! ## runs -/

/-- an unquoted run of ordinary characters is copied -/
theorem go_plain_run : ∀ (f : List Char), csvNeedsQuotes f = false → ∀ (fa : List Char) (ra : List (List Char))
    (rest : List Char), csvGo .inField fa ra (f ++ rest) = csvGo .inField (f.reverse ++ fa) ra rest := by
  intro f
  induction f with
  | nil => intro _ fa ra rest; rfl
  | cons c cs ih =>
    intro h fa ra rest
    have hc : csvSpecial c = false := by
      simp only [csvNeedsQuotes, List.any_cons, Bool.or_eq_false_iff] at h; exact h.1
    have hcs : csvNeedsQuotes cs = false := by
      simp only [csvNeedsQuotes, List.any_cons, Bool.or_eq_false_iff] at h; exact h.2
    rw [List.cons_append, go_copy (step_inField_plain hc), ih hcs]
    simp

/-- the escaped contents of a quoted field followed by the closing quote -/
theorem go_quoted_run : ∀ (f : List Char) (fa : List Char) (ra : List (List Char)) (rest : List Char),
    csvGo .inQuoted fa ra (csvEscape f ++ '"' :: rest) = csvGo .quoteInQuoted (f.reverse ++ fa) ra rest := by
  intro f
  induction f with
  | nil =>
    intro fa ra rest
    exact go_skip (by simp [csvStep]) fa ra rest
  | cons c cs ih =>
    intro fa ra rest
    by_cases hc : c = '"'
    · subst hc
      have e : csvEscape ('"' :: cs) = '"' :: '"' :: csvEscape cs := by simp [csvEscape]
      rw [e, List.cons_append, List.cons_append,
        go_skip (st' := .quoteInQuoted) (by simp [csvStep]),
        go_copy (st' := .inQuoted) (by simp [csvStep]), ih]
      simp
    · have e : csvEscape (c :: cs) = c :: csvEscape cs := by simp [csvEscape, hc]
      rw [e, List.cons_append, go_copy (step_inQuoted_other hc), ih]
      simp

end V.C19F
