import VProofs.Lemmas.ScoreOverwrite
import VProofs.Lemmas.ScoreWindow0
/-!
# A prediction overwrites what an earlier prediction left — windows that may be 0 (C01)

`ScoreOverwrite` uses the lower bounds on the windows in one place only: `predict_correct`, from which it takes that both
predictions return and that the two label vectors are equal (both are `specBounds` of the same text).  `predict_correct0`
(`ScoreWindow0`) gives the same for windows 0..255, with the specification of the model without the switched-off n-grams.
Everything about the state vectors (`charPhase_states`, `typePhase_states`, `predict_other_states`, `predict_keeps_states`,
`new_writes`) is independent of the windows.
-/
namespace V.C01O
open V.C01L

/-- `predict_overwrites_fields` for windows that may be 0: the shape requirements on the n-grams of a kind apply only when that
kind's window is at least 1.  `q` is any predictor. -/
theorem predict_overwrites_fields0 (cfg : Cfg) (m : WModel)
    (hcs : 1 ≤ m.charW → ∀ d ∈ m.charNgrams, 1 ≤ d.ngram.length ∧ d.ngram.length ≤ 2 * m.charW ∧
      d.weights.length = 2 * m.charW - d.ngram.length + 1)
    (hts : 1 ≤ m.typeW → ∀ d ∈ m.typeNgrams, 1 ≤ d.ngram.length ∧ d.ngram.length ≤ 2 * m.typeW ∧
      d.weights.length = 2 * m.typeW - d.ngram.length + 1 ∧ ∀ t ∈ d.ngram, 1 ≤ t ∧ t ≤ 6)
    (hds : ∀ d ∈ m.dict, 1 ≤ d.word.length)
    (pt : Bool) (p : Predictor) (hp : Predictor.new cfg m pt = .ok p) (q : Predictor)
    (s s1 : Sentence) (hne : s.text ≠ []) (htypes : s.types = typesOf s.text)
    (hbl : s.bounds.length + 1 = s.text.length) (pid qid : Nat) (h1 : q.predict qid s = .ok s1) :
    ∃ r r1, p.predict pid s = .ok r ∧ p.predict pid s1 = .ok r1 ∧
      r1 = { r with cstates := r1.cstates, tstates := r1.tstates } ∧
      (p.writesCharStates = true → r1.cstates = r.cstates) ∧
      (p.writesCharStates = false → r.cstates = s.cstates ∧ r1.cstates = s1.cstates) ∧
      (p.writesTypeStates = true → r1.tstates = r.tstates) ∧
      (p.writesTypeStates = false → r.tstates = s.tstates ∧ r1.tstates = s1.tstates) := by
  obtain ⟨_, _, c0, t0, _, _, hs1⟩ := predict_shape q qid s s1 h1
  have e1 : s1.text = s.text := by rw [hs1]; rfl
  have e2 : s1.types = s.types := by rw [hs1]; rfl
  have e3 : s1.bounds.length = s.bounds.length := by rw [hs1]; exact finish_bounds_length _ _ _ _ _
  obtain ⟨r, hr, _, hrb, _⟩ := predict_correct0 cfg m hcs hts hds pt p hp s hne htypes hbl pid
  obtain ⟨r1, hr1, _, hrb1, _⟩ := predict_correct0 cfg m hcs hts hds pt p hp s1 (by rw [e1]; exact hne)
    (by rw [e1, e2]; exact htypes) (by rw [e1, e3]; exact hbl) pid
  obtain ⟨buf2, cst, tst, cst1, tst1, hrf, hr1f, hc1, hc2, ht1, ht2⟩ :=
    predict_other_states p pid s s1 r e1 e2 e3 hr
  rw [hr1, Res.ok.injEq] at hr1f
  have hb : r1.bounds = r.bounds := by rw [hrb, hrb1, e1]
  refine ⟨r, r1, hr, hr1, ?_, ?_, ?_, ?_, ?_⟩
  · rw [hrf, hr1f] at hb ⊢
    exact finish_eq_of s s1 pid buf2 cst tst cst1 tst1 e1 e2 (by rw [hs1]; rfl) (by rw [hs1]; rfl) (by rw [hs1]; rfl) hb
  · rw [hrf, hr1f]; exact hc1
  · rw [hrf, hr1f]; exact hc2
  · rw [hrf, hr1f]; exact ht1
  · rw [hrf, hr1f]; exact ht2

/-- **record equality** when `p` rewrites every state vector that `q` rewrote, for windows that may be 0 -/
theorem predict_overwrites_eq0 (cfg : Cfg) (m : WModel)
    (hcs : 1 ≤ m.charW → ∀ d ∈ m.charNgrams, 1 ≤ d.ngram.length ∧ d.ngram.length ≤ 2 * m.charW ∧
      d.weights.length = 2 * m.charW - d.ngram.length + 1)
    (hts : 1 ≤ m.typeW → ∀ d ∈ m.typeNgrams, 1 ≤ d.ngram.length ∧ d.ngram.length ≤ 2 * m.typeW ∧
      d.weights.length = 2 * m.typeW - d.ngram.length + 1 ∧ ∀ t ∈ d.ngram, 1 ≤ t ∧ t ≤ 6)
    (hds : ∀ d ∈ m.dict, 1 ≤ d.word.length)
    (pt : Bool) (p : Predictor) (hp : Predictor.new cfg m pt = .ok p) (q : Predictor)
    (hwc : q.writesCharStates = true → p.writesCharStates = true)
    (hwt : q.writesTypeStates = true → p.writesTypeStates = true)
    (s s1 : Sentence) (hne : s.text ≠ []) (htypes : s.types = typesOf s.text)
    (hbl : s.bounds.length + 1 = s.text.length) (pid qid : Nat) (h1 : q.predict qid s = .ok s1) :
    p.predict pid s1 = p.predict pid s := by
  obtain ⟨r, r1, hr, hr1, heq, hc1, hc2, ht1, ht2⟩ :=
    predict_overwrites_fields0 cfg m hcs hts hds pt p hp q s s1 hne htypes hbl pid qid h1
  obtain ⟨kc, kt⟩ := predict_keeps_states q qid s s1 h1
  have ec : r1.cstates = r.cstates := by
    cases hw : p.writesCharStates with
    | true => exact hc1 hw
    | false =>
      have hq : q.writesCharStates = false := by
        cases hq : q.writesCharStates with
        | false => rfl
        | true => rw [hwc hq] at hw; cases hw
      rw [(hc2 hw).1, (hc2 hw).2, kc hq]
  have et : r1.tstates = r.tstates := by
    cases hw : p.writesTypeStates with
    | true => exact ht1 hw
    | false =>
      have hq : q.writesTypeStates = false := by
        cases hq : q.writesTypeStates with
        | false => rfl
        | true => rw [hwt hq] at hw; cases hw
      rw [(ht2 hw).1, (ht2 hw).2, kt hq]
  rw [hr, hr1, heq, ec, et]

end V.C01O
