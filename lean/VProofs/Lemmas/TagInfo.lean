import VModel.Scorer
import VProofs.Lemmas.ScoreWeights
/-!
# The tag part of `PositionalWeightWithTag`: `tagInfoAdd`, `PWT.add` under one-class evaluations (for C06)
-/
namespace V.C06L
open V.C01L

abbrev TI := List ((Nat × Nat) × List Int)

/-- the vector stored under `(token id, rel)` -/
def tlookup (k : Nat × Nat) : TI → Option (List Int)
  | [] => none
  | (k', v) :: r => if k' = k then some v else tlookup k r

/-- invariant of a tag-info map: distinct keys; the vectors of token id `t` have length `L t` -/
def TIok (L : Nat → Nat) (l : TI) : Prop :=
  (l.map Prod.fst).Nodup ∧ ∀ kv ∈ l, kv.2.length = L kv.1.1

/-- class `c` of the vector under `k` (0 when absent) -/
def tval (k : Nat × Nat) (c : Nat) (l : TI) : Int := getZ ((tlookup k l).getD []) (c : Int)

theorem tlookup_none_of_not_mem (k : Nat × Nat) (l : TI) (h : k ∉ l.map Prod.fst) : tlookup k l = none := by
  induction l with
  | nil => rfl
  | cons e r ih =>
    obtain ⟨k', v⟩ := e
    simp only [List.map_cons, List.mem_cons, not_or] at h
    simp only [tlookup]
    rw [if_neg (fun e => h.1 e.symm)]
    exact ih h.2

theorem tlookup_some_mem (k : Nat × Nat) (l : TI) (v : List Int) (h : tlookup k l = some v) : (k, v) ∈ l := by
  induction l with
  | nil => cases h
  | cons e r ih =>
    obtain ⟨k', v'⟩ := e
    simp only [tlookup] at h
    by_cases hk : k' = k
    · rw [if_pos hk] at h
      simp only [Option.some.injEq] at h
      subst hk; subst h
      exact List.mem_cons_self
    · rw [if_neg hk] at h
      exact List.mem_cons_of_mem _ (ih h)

theorem tlookup_add (l : TI) (k' : Nat × Nat) (v : List Int) (k : Nat × Nat) :
    tlookup k (tagInfoAdd l k' v)
      = if k' = k then some (match tlookup k l with | some w => zipAdd w v | none => v) else tlookup k l := by
  induction l with
  | nil => simp only [tagInfoAdd, tlookup]
  | cons e r ih =>
    obtain ⟨k'', w⟩ := e
    simp only [tagInfoAdd]
    by_cases h1 : k'' = k'
    · rw [if_pos h1]
      simp only [tlookup]
      by_cases h2 : k' = k
      · rw [if_pos h2, if_pos (h1.trans h2), if_pos (h1.trans h2)]
      · rw [if_neg h2, if_neg (fun e => h2 (h1.symm.trans e)), if_neg (fun e => h2 (h1.symm.trans e))]
    · rw [if_neg h1]
      simp only [tlookup]
      by_cases h3 : k'' = k
      · rw [if_pos h3, if_pos h3, if_neg (fun e => h1 (h3.trans e.symm))]
      · rw [if_neg h3, if_neg h3, ih]

theorem tagInfoAdd_keys (l : TI) (k : Nat × Nat) (v : List Int) :
    (tagInfoAdd l k v).map Prod.fst = if k ∈ l.map Prod.fst then l.map Prod.fst else l.map Prod.fst ++ [k] := by
  induction l with
  | nil => simp [tagInfoAdd]
  | cons e r ih =>
    obtain ⟨k', w⟩ := e
    simp only [tagInfoAdd]
    by_cases h : k' = k
    · subst h
      simp
    · rw [if_neg h]
      simp only [List.map_cons, ih, List.mem_cons]
      have hk : ¬ k = k' := fun e => h e.symm
      by_cases hm : k ∈ r.map Prod.fst
      · simp [hm]
      · simp [hm, hk]

theorem TIok_add (L : Nat → Nat) (l : TI) (k : Nat × Nat) (v : List Int) (hl : TIok L l) (hv : v.length = L k.1) :
    TIok L (tagInfoAdd l k v) := by
  refine ⟨?_, ?_⟩
  · rw [tagInfoAdd_keys]
    split
    · exact hl.1
    · rename_i hm
      rw [List.nodup_append]
      refine ⟨hl.1, by simp, ?_⟩
      intro a ha b hb
      simp only [List.mem_singleton] at hb
      subst hb
      intro e; subst e; exact hm ha
  · have hl2 := hl.2
    clear hl
    induction l with
    | nil =>
      intro kv hkv
      simp only [tagInfoAdd, List.mem_singleton] at hkv
      subst hkv; exact hv
    | cons e r ih =>
      obtain ⟨k', w⟩ := e
      intro kv hkv
      simp only [tagInfoAdd] at hkv
      by_cases h : k' = k
      · rw [if_pos h] at hkv
        rcases List.mem_cons.mp hkv with e | e
        · subst e
          simp only [zipAdd_length]
          exact hl2 (k', w) List.mem_cons_self
        · exact hl2 kv (List.mem_cons_of_mem _ e)
      · rw [if_neg h] at hkv
        rcases List.mem_cons.mp hkv with e | e
        · subst e; exact hl2 (k', w) List.mem_cons_self
        · exact ih (fun x hx => hl2 x (List.mem_cons_of_mem _ hx)) kv e

theorem getZ_zipAdd (w v : List Int) (h : w.length = v.length) (c : Nat) :
    getZ (zipAdd w v) (c : Int) = getZ w (c : Int) + getZ v (c : Int) := by
  by_cases hc : c < w.length
  · rw [getZ_nat, getZ_nat, getZ_nat, zipAdd_getD w v c hc]
  · rw [getZ_ge _ _ (by rw [zipAdd_length]; omega), getZ_ge w _ (by omega), getZ_ge v _ (by omega)]; rfl

theorem tval_none (k : Nat × Nat) (c : Nat) (l : TI) (h : tlookup k l = none) : tval k c l = 0 := by
  unfold tval; rw [h]; exact getZ_nil _

/-- folding `b` into `a` adds the class values -/
theorem fold_add (L : Nat → Nat) (k : Nat × Nat) (c : Nat) (b : TI) :
    ∀ (a : TI), TIok L a → TIok L b →
      TIok L (b.foldl (fun acc kv => tagInfoAdd acc kv.1 kv.2) a) ∧
      tval k c (b.foldl (fun acc kv => tagInfoAdd acc kv.1 kv.2) a) = tval k c a + tval k c b := by
  induction b with
  | nil =>
    intro a ha _
    refine ⟨ha, ?_⟩
    simp only [List.foldl_nil]
    rw [tval_none k c [] rfl]; omega
  | cons e b ih =>
    obtain ⟨k', v⟩ := e
    intro a ha hb
    have hv : v.length = L k'.1 := hb.2 (k', v) List.mem_cons_self
    have hb' : TIok L b := by
      refine ⟨?_, fun x hx => hb.2 x (List.mem_cons_of_mem _ hx)⟩
      have := hb.1
      simp only [List.map_cons, List.nodup_cons] at this
      exact this.2
    have hk' : k' ∉ b.map Prod.fst := by
      have := hb.1
      simp only [List.map_cons, List.nodup_cons] at this
      exact this.1
    have ha' := TIok_add L a k' v ha hv
    obtain ⟨i1, i2⟩ := ih (tagInfoAdd a k' v) ha' hb'
    refine ⟨i1, ?_⟩
    simp only [List.foldl_cons]
    rw [i2]
    unfold tval
    rw [tlookup_add]
    simp only [tlookup]
    by_cases h : k' = k
    · subst h
      rw [if_pos rfl, if_pos rfl, tlookup_none_of_not_mem k' b hk']
      simp only [Option.getD_some, Option.getD_none]
      rw [getZ_nil]
      cases hla : tlookup k' a with
      | none => simp only [Option.getD_none]; rw [getZ_nil]; omega
      | some w =>
        simp only [Option.getD_some]
        have hw : w.length = L k'.1 := ha.2 (k', w) (tlookup_some_mem k' a w hla)
        rw [getZ_zipAdd w v (by omega)]; omega
    · rw [if_neg h, if_neg h]

/-! ## `PWT.add` -/

theorem PWT_add_tagInfo (a b : PWT) :
    (a.add b).tagInfo = b.tagInfo.foldl (fun acc kv => tagInfoAdd acc kv.1 kv.2) a.tagInfo := rfl

theorem PWT_add_ok (L : Nat → Nat) (a b : PWT) (ha : TIok L a.tagInfo) (hb : TIok L b.tagInfo) :
    TIok L (a.add b).tagInfo := by
  rw [PWT_add_tagInfo]; exact (fold_add L (0, 0) 0 b.tagInfo a.tagInfo ha hb).1

theorem PWT_add_tval (L : Nat → Nat) (k : Nat × Nat) (c : Nat) (a b : PWT) (ha : TIok L a.tagInfo)
    (hb : TIok L b.tagInfo) :
    tval k c (a.add b).tagInfo = tval k c a.tagInfo + tval k c b.tagInfo := by
  rw [PWT_add_tagInfo]; exact (fold_add L k c b.tagInfo a.tagInfo ha hb).2

theorem TIok_nil (L : Nat → Nat) : TIok L [] := ⟨by simp, by simp⟩

theorem TIok_single (L : Nat → Nat) (k : Nat × Nat) (v : List Int) (h : v.length = L k.1) : TIok L [(k, v)] :=
  ⟨by simp, by intro kv hkv; simp only [List.mem_singleton] at hkv; subst hkv; exact h⟩

/-- with distinct keys, the entries under `k` are exactly the looked-up one -/
theorem filter_key (l : TI) (hnd : (l.map Prod.fst).Nodup) (k : Nat × Nat) :
    l.filter (fun kv => decide (kv.1 = k)) = ((tlookup k l).map fun v => (k, v)).toList := by
  induction l with
  | nil => rfl
  | cons e r ih =>
    obtain ⟨k', v⟩ := e
    simp only [List.map_cons, List.nodup_cons] at hnd
    simp only [tlookup]
    by_cases h : k' = k
    · subst h
      rw [List.filter_cons_of_pos (by simp), if_pos rfl]
      have : r.filter (fun kv => decide (kv.1 = k')) = [] := by
        rw [ih hnd.2, tlookup_none_of_not_mem k' r hnd.1]; rfl
      rw [this]; rfl
    · rw [List.filter_cons_of_neg (by simpa using h), if_neg h]
      exact ih hnd.2

end V.C06L
