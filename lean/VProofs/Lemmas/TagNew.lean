import VModel.Spec
import VProofs.Lemmas.TagStates
/-!
# `Predictor.new` with tag prediction: both scorers are tag-aware (or absent because there is nothing to score) (for C06)
-/
namespace V.C06L
open V.C01L

/-- number of trainable classes of tag model `i` -/
def Lm (m : WModel) (i : Nat) : Nat :=
  match m.tagModels[i]? with
  | some tm => nClass tm.tags
  | none => 0

def mkTP (cfg : Cfg) (tm : TagModel) : TagPredictor := { tags := tm.tags, bias := WV.ofList cfg tm.bias }

theorem new_tag_ok (cfg : Cfg) (m : WModel) (p : Predictor) (hp : Predictor.new cfg m true = .ok p) :
    cfg.tagPred = true ∧
    p.tagPredictor = some ((m.tagModels.zipIdx).map fun x => (x.1.token, x.2, mkTP cfg x.1)) ∧
    p.nTags = specNTags m ∧
    charScorerNew cfg m (m.tagModels.map (·.charNgrams)) = .ok p.charScorer ∧
    typeScorerNew cfg m (m.tagModels.map (·.typeNgrams)) = .ok p.typeScorer := by
  unfold Predictor.new at hp
  split at hp
  · cases hp
  · rename_i hcfg
    have hcfg' : cfg.tagPred = true := by
      revert hcfg
      cases cfg.tagPred <;> simp
    simp only [hcfg', Bool.and_self, if_true] at hp
    split at hp
    · rename_i cs hcs
      split at hp
      · rename_i ts hts
        simp only [Res.ok.injEq] at hp
        subst hp
        exact ⟨hcfg', rfl, rfl, hcs, hts⟩
      · cases hp
      · cases hp
      · cases hp
    · cases hp
    · cases hp
    · cases hp

theorem all_isEmpty {β : Type} (T : List (List β)) (h : T.all (·.isEmpty) = true) : ∀ tm ∈ T, tm = [] := by
  intro tm htm
  have := List.all_eq_true.mp h tm htm
  exact List.isEmpty_iff.mp this

theorem charScorer_tag (cfg : Cfg) (hcfg : cfg.tagPred = true) (m : WModel) (hW : 1 ≤ m.charW)
    (T : List (List (TagNgramData Char))) (hTne : T ≠ []) (L : Nat → Nat)
    (hT : ∀ i tm, T[i]? = some tm → ∀ d ∈ tm, ∀ w ∈ d.weights, w.weights.length = L i)
    (cs : Option (PmaScorer Char)) (h : charScorerNew cfg m T = .ok cs) :
    (cs = none ∧ ∀ tm ∈ T, tm = []) ∨ (∃ sc, cs = some sc ∧ TagScorerOK cfg m.charW T L sc) := by
  have hW0 : ¬ m.charW = 0 := by omega
  simp only [charScorerNew, hW0, if_false] at h
  have hTe : T.isEmpty = false := by
    cases T with
    | nil => exact absurd rfl hTne
    | cons _ _ => rfl
  split at h
  · rename_i hcond
    simp only [Res.ok.injEq] at h
    left
    refine ⟨h.symm, ?_⟩
    apply all_isEmpty
    revert hcond
    simp only [hcfg]
    cases m.charNgrams.isEmpty <;> cases m.dict.isEmpty <;> simp
  · split at h
    · cases h
    · rw [if_pos (by simp [hcfg, hTe])] at h
      obtain ⟨sc, hsc, hcs'⟩ := res_map_ok _ _ _ h
      right
      refine ⟨sc, hcs', ?_⟩
      refine buildBoundaryTag_tagOK cfg m.charW L _ T ?_ hT sc hsc
      intro e he
      rcases List.mem_append.mp he with he | he
      · obtain ⟨d, _, rfl⟩ := List.mem_map.mp he; rfl
      · obtain ⟨d, _, rfl⟩ := List.mem_map.mp he; rfl

theorem typeScorer_tag (cfg : Cfg) (hcfg : cfg.tagPred = true) (m : WModel) (hW : 1 ≤ m.typeW)
    (T : List (List (TagNgramData Nat))) (hTne : T ≠ []) (L : Nat → Nat)
    (hT : ∀ i tm, T[i]? = some tm → ∀ d ∈ tm, ∀ w ∈ d.weights, w.weights.length = L i)
    (ts : Option TypeScorer) (h : typeScorerNew cfg m T = .ok ts) :
    (ts = none ∧ ∀ tm ∈ T, tm = []) ∨ (∃ sc, ts = some (.pma sc) ∧ TagScorerOK cfg m.typeW T L sc) := by
  have hW0 : ¬ m.typeW = 0 := by omega
  simp only [typeScorerNew, hW0, if_false] at h
  have hTe : T.isEmpty = false := by
    cases T with
    | nil => exact absurd rfl hTne
    | cons _ _ => rfl
  split at h
  · rename_i hcond
    simp only [Res.ok.injEq] at h
    left
    refine ⟨h.symm, ?_⟩
    apply all_isEmpty
    revert hcond
    simp only [hcfg]
    cases m.typeNgrams.isEmpty <;> simp
  · rw [if_pos (by simp [hcfg, hTe])] at h
    obtain ⟨sc, hsc, hcs'⟩ := res_map_ok _ _ _ h
    right
    refine ⟨sc, hcs', ?_⟩
    refine buildBoundaryTag_tagOK cfg m.typeW L _ T ?_ hT sc hsc
    intro e he
    obtain ⟨d, _, rfl⟩ := List.mem_map.mp he; rfl

end V.C06L
