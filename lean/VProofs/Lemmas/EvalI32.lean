import VProofs.Lemmas.EvalCountChar
import VProofs.Lemmas.EvalCountWord
/-! Helper lemmas for C20 (`evaluate`): the counters never exceed the number of evaluated characters (so `i32` suffices). -/
namespace V.C20E

/-- the number of characters evaluated: one more than the number of boundary positions, per line -/
def nChars (ls : List EvalLine) : Nat := (ls.map fun l => l.refB.length + 1).sum

theorem charStep_total (acc : Nat × Nat × Nat × Nat) (x : B × B) :
    (charStep acc x).1 + (charStep acc x).2.1 + (charStep acc x).2.2.1 + (charStep acc x).2.2.2 =
      acc.1 + acc.2.1 + acc.2.2.1 + acc.2.2.2 + 1 := by
  unfold charStep
  split
  · split <;> simp only [] <;> omega
  · split <;> simp only [] <;> omega

theorem charLine_total (zs : List (B × B)) (acc : Nat × Nat × Nat × Nat) :
    (zs.foldl charStep acc).1 + (zs.foldl charStep acc).2.1 + (zs.foldl charStep acc).2.2.1 + (zs.foldl charStep acc).2.2.2 =
      acc.1 + acc.2.1 + acc.2.2.1 + acc.2.2.2 + zs.length := by
  induction zs generalizing acc with
  | nil => simp
  | cons x zs ih =>
    rw [List.foldl_cons, ih, charStep_total, List.length_cons]
    omega

theorem charLines_total (ls : List EvalLine) (acc : Nat × Nat × Nat × Nat) :
    let r := ls.foldl (fun acc l => (l.refB.zip l.sysB).foldl charStep acc) acc
    r.1 + r.2.1 + r.2.2.1 + r.2.2.2 + ls.length ≤ acc.1 + acc.2.1 + acc.2.2.1 + acc.2.2.2 + nChars ls := by
  induction ls generalizing acc with
  | nil => simp [nChars]
  | cons l ls ih =>
    simp only [List.foldl_cons, List.length_cons]
    have h := ih ((l.refB.zip l.sysB).foldl charStep acc)
    simp only [] at h
    rw [charLine_total] at h
    have hz : (l.refB.zip l.sysB).length ≤ l.refB.length := by
      rw [List.length_zip]; exact Nat.min_le_left _ _
    have hn : nChars (l :: ls) = l.refB.length + 1 + nChars ls := by
      simp only [nChars, List.map_cons, List.sum_cons]
    omega

/-- all four character counters together are at most the number of characters -/
theorem char_total (ls : List EvalLine) :
    (charCounts ls).1 + (charCounts ls).2.1 + (charCounts ls).2.2.1 + (charCounts ls).2.2.2 ≤ nChars ls := by
  have h := charLines_total ls (0, 0, 0, 0)
  simp only [] at h
  rw [← charCounts_eq_fold] at h
  omega

/-- the invariant of the word loop: each counter grew by at most `k`, and `n_cor` is at most `n_sys` and `n_ref` -/
def WordInv (c s r k : Nat) (st : Nat × Nat × Nat × Bool) : Prop :=
  st.1 ≤ c + k ∧ st.2.1 ≤ s + k ∧ st.2.2.1 ≤ r + k ∧ st.1 ≤ st.2.1 ∧ st.1 ≤ st.2.2.1

theorem wordStep_inv (c s r k : Nat) (st : Nat × Nat × Nat × Bool) (x : ((B × List Tag) × B) × List Tag)
    (h : WordInv c s r k st) : WordInv c s r (k + 1) (wordStep st x) := by
  obtain ⟨h1, h2, h3, h4, h5⟩ := h
  unfold wordStep WordInv
  split
  · split
    · split <;> simp only [] <;> omega
    · simp only []; omega
  · split <;> simp only [] <;> omega

theorem wordFold_inv (zs : List (((B × List Tag) × B) × List Tag)) (c s r k : Nat) (st : Nat × Nat × Nat × Bool)
    (h : WordInv c s r k st) : WordInv c s r (k + zs.length) (zs.foldl wordStep st) := by
  induction zs generalizing k st with
  | nil => simpa using h
  | cons x zs ih =>
    rw [List.foldl_cons, List.length_cons]
    have := ih (k + 1) _ (wordStep_inv c s r k st x h)
    rw [Nat.add_assoc, Nat.add_comm 1] at this
    exact this

theorem wordLine_bound (l : EvalLine) (c s r : Nat) (hs : c ≤ s) (hr : c ≤ r) :
    let w := wordLine l.refB l.refT l.sysB l.sysT (c, s, r, true)
    w.1 ≤ c + (l.refB.length + 1) ∧ w.2.1 ≤ s + (l.refB.length + 1) ∧ w.2.2 ≤ r + (l.refB.length + 1) ∧
      w.1 ≤ w.2.1 ∧ w.1 ≤ w.2.2 := by
  have h0 : WordInv c s r 0 (c, s, r, true) := ⟨Nat.le_refl _, Nat.le_refl _, Nat.le_refl _, hs, hr⟩
  have h := wordFold_inv (((l.refB.zip l.refT).zip l.sysB).zip l.sysT) c s r 0 _ h0
  have hz : (((l.refB.zip l.refT).zip l.sysB).zip l.sysT).length ≤ l.refB.length := by
    simp only [List.length_zip]
    omega
  obtain ⟨h1, h2, h3, h4, h5⟩ := h
  simp only [wordLine, wordFin]
  refine ⟨?_, by omega, by omega, ?_, ?_⟩ <;> split <;> omega

theorem wordLines_bound (ls : List EvalLine) (c s r : Nat) (hs : c ≤ s) (hr : c ≤ r) :
    let w := ls.foldl (fun acc l => wordLine l.refB l.refT l.sysB l.sysT (acc.1, acc.2.1, acc.2.2, true)) (c, s, r)
    w.1 ≤ c + nChars ls ∧ w.2.1 ≤ s + nChars ls ∧ w.2.2 ≤ r + nChars ls ∧ w.1 ≤ w.2.1 ∧ w.1 ≤ w.2.2 := by
  induction ls generalizing c s r with
  | nil => simpa [nChars] using ⟨hs, hr⟩
  | cons l ls ih =>
    simp only [List.foldl_cons]
    obtain ⟨b1, b2, b3, b4, b5⟩ := wordLine_bound l c s r hs hr
    generalize wordLine l.refB l.refT l.sysB l.sysT (c, s, r, true) = w at b1 b2 b3 b4 b5 ⊢
    obtain ⟨wc, ws, wr⟩ := w
    simp only [] at b1 b2 b3 b4 b5
    have h := ih wc ws wr b4 b5
    simp only [] at h
    obtain ⟨a1, a2, a3, a4, a5⟩ := h
    have hn : nChars (l :: ls) = l.refB.length + 1 + nChars ls := by
      simp only [nChars, List.map_cons, List.sum_cons]
    refine ⟨by omega, by omega, by omega, a4, a5⟩

/-- the word counters: each at most the number of characters, and `n_cor ≤ n_sys`, `n_cor ≤ n_ref` -/
theorem word_bound (ls : List EvalLine) :
    (wordCounts ls).1 ≤ nChars ls ∧ (wordCounts ls).2.1 ≤ nChars ls ∧ (wordCounts ls).2.2 ≤ nChars ls ∧
      (wordCounts ls).1 ≤ (wordCounts ls).2.1 ∧ (wordCounts ls).1 ≤ (wordCounts ls).2.2 := by
  have h := wordLines_bound ls 0 0 0 (Nat.le_refl _) (Nat.le_refl _)
  simp only [] at h
  rw [← wordCounts_eq_fold] at h
  simpa using h

end V.C20E
