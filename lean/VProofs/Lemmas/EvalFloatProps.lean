import VProofs.Lemmas.EvalFloatMetrics
/-!
# Properties of `evalMetrics` behind the `C20_eval_metrics_*` theorems
-/
namespace V.EvalF
open V V.F64 V.QuantL

attribute [local irreducible] F64.top F64.unit e1021

theorem fin_ne_nan (s : Bool) (a : Nat) : F64.fin s a ≠ .nan := F64.noConfusion
theorem inf_ne_nan (s : Bool) : F64.inf s ≠ .nan := F64.noConfusion
theorem unit_lt_top : unit < top := by have := two_unit_lt_top; omega

/-- a finite non-negative double of at most `1.0` -/
def Unit01 (x : F64) : Prop := ∃ a, x = .fin false a ∧ a ≤ unit ∧ RepU a

theorem unit01_good {x : F64} (h : Unit01 x) : x.Finite ∧ x.sign = false ∧ x.IsDouble := by
  obtain ⟨a, rfl, h1, h2⟩ := h
  have hlt : a < top := Nat.lt_of_le_of_lt h1 unit_lt_top
  exact ⟨hlt, rfl, hlt, repUnits_of_repU h2⟩

theorem unit01_zero : Unit01 (.fin false 0) := ⟨0, rfl, Nat.zero_le _, repU_zero⟩

/-- every reachable outcome of `evalMetrics` -/
theorem metrics_cases (N P R : Nat) (hP : P < 2 ^ 31) (hR : R < 2 ^ 31) (hNP : N ≤ P) (hNR : N ≤ R) :
    (P = 0 ∧ R = 0 ∧ N = 0 ∧ evalMetrics N P R = (.nan, .nan, .nan)) ∨
    (P = 0 ∧ 0 < R ∧ N = 0 ∧ evalMetrics N P R = (.nan, .fin false 0, .nan)) ∨
    (0 < P ∧ R = 0 ∧ N = 0 ∧ evalMetrics N P R = (.fin false 0, .nan, .nan)) ∨
    (0 < P ∧ 0 < R ∧ N = 0 ∧ evalMetrics N P R = (.fin false 0, .fin false 0, .nan)) ∨
    (0 < P ∧ 0 < R ∧ 0 < N ∧
      evalMetrics N P R = (.fin false (ratioUnits N P), .fin false (ratioUnits N R),
        .fin false (f1Units (ratioUnits N P) (ratioUnits N R))) ∧
      0 < ratioUnits N P ∧ ratioUnits N P ≤ unit ∧ 0 < ratioUnits N R ∧ ratioUnits N R ≤ unit ∧
      0 < f1Units (ratioUnits N P) (ratioUnits N R) ∧ f1Units (ratioUnits N P) (ratioUnits N R) ≤ unit) := by
  by_cases hP0 : P = 0
  · have hN0 : N = 0 := by omega
    subst hP0; subst hN0
    by_cases hR0 : R = 0
    · subst hR0
      refine Or.inl ⟨rfl, rfl, rfl, ?_⟩
      rw [metrics_pzero, div_counts_zero 0 (by decide), if_pos rfl]
    · refine Or.inr (Or.inl ⟨rfl, Nat.pos_of_ne_zero hR0, rfl, ?_⟩)
      rw [metrics_pzero, div_counts 0 R (by decide) hR (Nat.pos_of_ne_zero hR0), ratioUnits_zero R (Nat.pos_of_ne_zero hR0)]
  · have hPp : 0 < P := Nat.pos_of_ne_zero hP0
    by_cases hR0 : R = 0
    · have hN0 : N = 0 := by omega
      subst hR0; subst hN0
      refine Or.inr (Or.inr (Or.inl ⟨hPp, rfl, rfl, ?_⟩))
      rw [metrics_rzero, div_counts 0 P (by decide) hP hPp, ratioUnits_zero P hPp]
    · have hRp : 0 < R := Nat.pos_of_ne_zero hR0
      have hm := metrics_fin N P R hP hR hPp hRp hNP hNR
      by_cases hN0 : N = 0
      · refine Or.inr (Or.inr (Or.inr (Or.inl ⟨hPp, hRp, hN0, ?_⟩)))
        rw [hm, if_pos hN0, hN0, ratioUnits_zero P hPp, ratioUnits_zero R hRp]
      · have hNp : 0 < N := Nat.pos_of_ne_zero hN0
        have a1 := ratioUnits_ge N P hPp (by omega) hNp
        have b1 := ratioUnits_ge N R hRp (by omega) hNp
        have a2 := ratioUnits_le_unit N P hPp hNP
        have b2 := ratioUnits_le_unit N R hRp hNR
        have he := e1021_pos
        refine Or.inr (Or.inr (Or.inr (Or.inr ⟨hPp, hRp, hNp, ?_, by omega, a2, by omega, b2,
          f1Units_pos _ _ a2 b2 a1 b1, f1Units_le_unit _ _ a2 b2 (by omega)⟩)))
        rw [hm, if_neg hN0]

theorem f1Units_rep (a b : Nat) (h : 0 < a + b) : RepU (f1Units a b) :=
  roundUnits_rep _ _ (sumUnits_pos a b h)

/-- `C20_eval_metrics_nan` -/
theorem metrics_nan (N P R : Nat) (hP : P < 2 ^ 31) (hR : R < 2 ^ 31) (hNP : N ≤ P) (hNR : N ≤ R) :
    ((evalMetrics N P R).1 = .nan ↔ P = 0) ∧
    ((evalMetrics N P R).2.1 = .nan ↔ R = 0) ∧
    ((evalMetrics N P R).2.2 = .nan ↔
      ((evalMetrics N P R).1 = .nan ∨ (evalMetrics N P R).2.1 = .nan ∨ N = 0)) ∧
    (∀ x, x = (evalMetrics N P R).1 ∨ x = (evalMetrics N P R).2.1 ∨ x = (evalMetrics N P R).2.2 →
      x ≠ .nan → x.Finite ∧ x.sign = false ∧ x.IsDouble) := by
  have hz := unit01_good unit01_zero
  rcases metrics_cases N P R hP hR hNP hNR with
    ⟨h1, h2, h3, he⟩ | ⟨h1, h2, h3, he⟩ | ⟨h1, h2, h3, he⟩ | ⟨h1, h2, h3, he⟩ | ⟨h1, h2, h3, he, a0, a1, b0, b1, f0, f1⟩
  · rw [he]
    refine ⟨⟨fun _ => h1, fun _ => rfl⟩, ⟨fun _ => h2, fun _ => rfl⟩, ⟨fun _ => Or.inl rfl, fun _ => rfl⟩, ?_⟩
    intro x hx hn
    rcases hx with rfl | rfl | rfl <;> exact absurd rfl hn
  · rw [he]
    refine ⟨⟨fun _ => h1, fun _ => rfl⟩, ⟨fun h => absurd h (fin_ne_nan _ _), fun h => by omega⟩,
      ⟨fun _ => Or.inl rfl, fun _ => rfl⟩, ?_⟩
    intro x hx hn
    rcases hx with rfl | rfl | rfl
    · exact absurd rfl hn
    · exact hz
    · exact absurd rfl hn
  · rw [he]
    refine ⟨⟨fun h => absurd h (fin_ne_nan _ _), fun h => by omega⟩, ⟨fun _ => h2, fun _ => rfl⟩,
      ⟨fun _ => Or.inr (Or.inl rfl), fun _ => rfl⟩, ?_⟩
    intro x hx hn
    rcases hx with rfl | rfl | rfl
    · exact hz
    · exact absurd rfl hn
    · exact absurd rfl hn
  · rw [he]
    refine ⟨⟨fun h => absurd h (fin_ne_nan _ _), fun h => by omega⟩,
      ⟨fun h => absurd h (fin_ne_nan _ _), fun h => by omega⟩,
      ⟨fun _ => Or.inr (Or.inr h3), fun _ => rfl⟩, ?_⟩
    intro x hx hn
    rcases hx with rfl | rfl | rfl
    · exact hz
    · exact hz
    · exact absurd rfl hn
  · rw [he]
    refine ⟨⟨fun h => absurd h (fin_ne_nan _ _), fun h => by omega⟩,
      ⟨fun h => absurd h (fin_ne_nan _ _), fun h => by omega⟩,
      ⟨fun h => absurd h (fin_ne_nan _ _), fun h => ?_⟩, ?_⟩
    · rcases h with h | h | h
      · exact absurd h (fin_ne_nan _ _)
      · exact absurd h (fin_ne_nan _ _)
      · omega
    · intro x hx _
      rcases hx with rfl | rfl | rfl
      · exact unit01_good ⟨_, rfl, a1, ratioUnits_rep N P h1⟩
      · exact unit01_good ⟨_, rfl, b1, ratioUnits_rep N R h2⟩
      · exact unit01_good ⟨_, rfl, f1, f1Units_rep _ _ (by omega)⟩

/-- the unreachable case of a zero denominator under a non-zero numerator: `+∞`, not NaN -/
theorem metrics_zero_den (N R : Nat) (hN : N < 2 ^ 31) :
    (evalMetrics N 0 R).1 = if N = 0 then .nan else .inf false := by
  rw [evalMetrics_eq]
  exact div_counts_zero N hN

/-- range of one quotient of counts -/
theorem ratio_range (N P : Nat) (hP : P < 2 ^ 31) (hP0 : 0 < P) (hNP : N ≤ P) :
    f64Le (f64OfNat 0) (f64Div (f64OfNat N) (f64OfNat P)) = true ∧
    f64Le (f64Div (f64OfNat N) (f64OfNat P)) (f64OfNat 1) = true ∧
    (f64Div (f64OfNat N) (f64OfNat P) = f64OfNat 1 ↔ N = P) ∧
    (f64Div (f64OfNat N) (f64OfNat P) = f64OfNat 0 ↔ N = 0) := by
  rw [div_counts N P (by omega) hP hP0, f64OfNat_zero, f64OfNat_one, le_fin_nonneg, le_fin_nonneg]
  refine ⟨decide_eq_true (Nat.zero_le _), decide_eq_true (ratioUnits_le_unit N P hP0 hNP), ?_, ?_⟩
  · constructor
    · intro h
      injection h with _ h
      exact (ratioUnits_eq_unit_iff N P hP0 (by omega) hNP).mp h
    · intro h
      rw [(ratioUnits_eq_unit_iff N P hP0 (by omega) hNP).mpr h]
  · constructor
    · intro h
      injection h with _ h
      exact (ratioUnits_eq_zero_iff N P hP0 (by omega)).mp h
    · intro h
      rw [(ratioUnits_eq_zero_iff N P hP0 (by omega)).mpr h]

/-- `C20_eval_metrics_range` -/
theorem metrics_range (N P R : Nat) (hP : P < 2 ^ 31) (hR : R < 2 ^ 31) (hP0 : 0 < P) (hR0 : 0 < R)
    (hNP : N ≤ P) (hNR : N ≤ R) :
    f64Le (f64OfNat 0) (evalMetrics N P R).1 = true ∧ f64Le (evalMetrics N P R).1 (f64OfNat 1) = true ∧
    f64Le (f64OfNat 0) (evalMetrics N P R).2.1 = true ∧ f64Le (evalMetrics N P R).2.1 (f64OfNat 1) = true ∧
    ((evalMetrics N P R).1 = f64OfNat 1 ↔ N = P) ∧ ((evalMetrics N P R).1 = f64OfNat 0 ↔ N = 0) ∧
    ((evalMetrics N P R).2.1 = f64OfNat 1 ↔ N = R) ∧ ((evalMetrics N P R).2.1 = f64OfNat 0 ↔ N = 0) ∧
    (0 < N → f64Lt (f64OfNat 0) (evalMetrics N P R).2.2 = true ∧ f64Le (evalMetrics N P R).2.2 (f64OfNat 1) = true) ∧
    (0 < N → N = P → N = R → (evalMetrics N P R).2.2 = f64OfNat 1) := by
  obtain ⟨p1, p2, p3, p4⟩ := ratio_range N P hP hP0 hNP
  obtain ⟨r1, r2, r3, r4⟩ := ratio_range N R hR hR0 hNR
  refine ⟨p1, p2, r1, r2, p3, p4, r3, r4, ?_, ?_⟩
  · intro hN
    rcases metrics_cases N P R hP hR hNP hNR with
      ⟨h1, _⟩ | ⟨h1, _⟩ | ⟨_, h2, _⟩ | ⟨_, _, h3, _⟩ | ⟨_, _, _, he, _, _, _, _, f0, f1⟩
    · omega
    · omega
    · omega
    · omega
    · rw [he, f64OfNat_zero, f64OfNat_one, lt_fin_nonneg, le_fin_nonneg]
      exact ⟨decide_eq_true f0, decide_eq_true f1⟩
  · intro hN hNP' hNR'
    subst hNP'; subst hNR'
    rw [metrics_fin N N N hP hP hP0 hP0 hNP hNP, if_neg (by omega), ratioUnits_self N hP0, f1Units_one, f64OfNat_one]

/-- `C20_eval_metrics_exact_ratio` -/
theorem metrics_exact_ratio (N P R : Nat) (hN : N < 2 ^ 31) (hP : P < 2 ^ 31) (hP0 : 0 < P) :
    (evalMetrics N P R).1 = .fin false (roundUnits (N * unit) P) ∧
    (∀ N' P' R', N' < 2 ^ 31 → P' < 2 ^ 31 → 0 < P' → N * P' = N' * P →
      (evalMetrics N' P' R').1 = (evalMetrics N P R).1) := by
  refine ⟨div_counts N P hN hP hP0, ?_⟩
  intro N' P' R' hN' hP' hP0' h
  show f64Div (f64OfNat N') (f64OfNat P') = f64Div (f64OfNat N) (f64OfNat P)
  rw [div_counts N P hN hP hP0, div_counts N' P' hN' hP' hP0', ratioUnits_congr N P N' P' hP0 hP0' h]

theorem metrics_swap (N P R : Nat) :
    (evalMetrics N R P).1 = (evalMetrics N P R).2.1 ∧ (evalMetrics N R P).2.1 = (evalMetrics N P R).1 := ⟨rfl, rfl⟩

/-- `C20_f64_arith_sane` -/
theorem arith_sane :
    (∀ n, (f64OfNat n).IsDouble) ∧ (∀ n, n < 2 ^ 53 → f64OfNat n = .fin false (n * F64.unit)) ∧
    (∀ x y, (f64Mul x y).IsDouble) ∧ (∀ x y, (f64Add x y).IsDouble) ∧
    (∀ x y, f64Mul x y = f64Mul y x) ∧ (∀ x y, f64Add x y = f64Add y x) ∧
    (∀ s a, f64Add (.fin s a) (f64Neg (.fin s a)) = .fin false 0) ∧ f64Add (.fin true 0) (.fin true 0) = .fin true 0 ∧
    (∀ s t, f64Mul (.fin s 0) (.inf t) = .nan ∧ f64Mul (.inf t) (.fin s 0) = .nan) ∧ (∀ s, f64Sub (.inf s) (.inf s) = .nan) :=
  ⟨f64OfNat_isDouble, f64OfNat_exact, f64Mul_isDouble, f64Add_isDouble, f64Mul_comm,
    f64Add_comm, add_neg_self, neg_zero_add_neg_zero, zero_mul_inf, inf_sub_inf⟩

end V.EvalF
