import VProofs.Lemmas.Iter
import VProofs.Lemmas.TokTags
/-!
Helper lemmas for C03 (writer side): `write_tokenized_text` as a pure function of the text and the trimmed
token tags, and what the token list says about boundaries and tag positions.
-/
namespace V.C03L

/-- the trimmed tags of the token ending at `en` (same as `tokenTagsTrim` of `VProofs/C03.lean`) -/
def tagsAt (tags : List Tag) (nTags en : Nat) : List Tag :=
  trimNone ((tags.drop ((en - 1) * nTags)).take nTags)

theorem mem_tagsAt {tags : List Tag} {nTags en : Nat} {x : Tag} (h : x ∈ tagsAt tags nTags en) : x ∈ tags :=
  List.mem_of_mem_drop (List.mem_of_mem_take (mem_trimNone h))

theorem tagsAt_idem (tags : List Tag) (nTags en : Nat) :
    trimNone (tagsAt tags nTags en) = tagsAt tags nTags en := trimNone_idem _

/-- what the writer emits for one token -/
def tokOut (s : Sentence) (se : Nat × Nat) : List Char :=
  escTok (slice s.text se) ++ writeTagsWith escTok (tagsAt s.tags s.nTags se.2)

def writeSpec (s : Sentence) : List (Nat × Nat) → Bool → List Char
  | [], _ => []
  | se :: r, first => (if first then [] else [' ']) ++ tokOut s se ++ writeSpec s r false

theorem writeTokBody_eq (s : Sentence) (htl : s.tags.length = s.text.length * s.nTags)
    (toks : List (Nat × Nat)) (first : Bool) (h : ∀ se ∈ toks, se.1 < se.2 ∧ se.2 ≤ s.text.length) :
    writeTokBody s toks first = .ok (writeSpec s toks first) := by
  induction toks generalizing first with
  | nil => simp [writeTokBody, writeSpec]
  | cons se r ih =>
    obtain ⟨st, en⟩ := se
    have hse := h (st, en) (by simp)
    simp only at hse
    have h1 : s.substring st en = .ok (slice s.text (st, en)) := by
      have : st ≤ en ∧ en ≤ s.text.length := by omega
      simp [Sentence.substring, slice, this]
    have h2 : s.tokenTags en = .ok ((s.tags.drop ((en - 1) * s.nTags)).take s.nTags) := by
      have e0 : en ≠ 0 := by omega
      have e1 : en * s.nTags ≤ s.tags.length := by
        rw [htl]; exact Nat.mul_le_mul_right _ hse.2
      simp [Sentence.tokenTags, e0, e1]
    simp only [writeTokBody, h1, h2, ih false (fun se hse => h se (by simp [hse])), writeSpec, tokOut, tagsAt,
      List.append_assoc]

theorem writeSpec_congr (s s' : Sentence) (htext : s.text = s'.text) (toks : List (Nat × Nat)) (first : Bool)
    (h : ∀ se ∈ toks, tagsAt s.tags s.nTags se.2 = tagsAt s'.tags s'.nTags se.2) :
    writeSpec s toks first = writeSpec s' toks first := by
  induction toks generalizing first with
  | nil => simp [writeSpec]
  | cons se r ih =>
    simp only [writeSpec, tokOut, htext, h se (by simp), ih false (fun se hse => h se (by simp [hse]))]

/-! ## chains -/

theorem chain_mem : ∀ (l : List (Nat × Nat)) (a z : Nat), IsChain a l z →
    ∀ p ∈ l, a ≤ p.1 ∧ p.1 < p.2 ∧ p.2 ≤ z := by
  intro l
  induction l with
  | nil => intro a z hc; exact absurd hc (by simp [IsChain])
  | cons x xs ih =>
    intro a z hc p hp
    obtain ⟨s1, e1⟩ := x
    cases xs with
    | nil =>
      simp only [IsChain] at hc
      simp only [List.mem_singleton] at hp
      subst hp
      simp; omega
    | cons y ys =>
      simp only [IsChain] at hc
      obtain ⟨h1, h2, h3⟩ := hc
      rcases List.mem_cons.mp hp with rfl | hp'
      · simp only
        have := ih e1 z h3 y (by simp)
        omega
      · have := ih e1 z h3 p hp'
        omega

theorem slice_length {α : Type} (text : List α) (se : Nat × Nat) (h : se.2 ≤ text.length) :
    (slice text se).length = se.2 - se.1 := by
  simp [slice, List.length_take, List.length_drop]; omega

theorem mem_of_mem_slice {α : Type} {text : List α} {se : Nat × Nat} {x : α} (h : x ∈ slice text se) : x ∈ text :=
  List.mem_of_mem_drop (List.mem_of_mem_take h)

/-! ## boundaries and tag lists the parser rebuilds from the token list -/

def tokBounds : List (Nat × Nat) → Bool → List B
  | [], _ => []
  | se :: r, first => (if first then [] else [B.W]) ++ List.replicate (se.2 - se.1 - 1) B.N ++ tokBounds r false

theorem tokBounds_specSeg (rest : List B) (start pos : Nat) (first : Bool) (h : ∀ x ∈ rest, x ≠ B.U)
    (hsp : start ≤ pos) :
    tokBounds (specSeg rest start pos false) first =
      (if first then [] else [B.W]) ++ List.replicate (pos - start) B.N ++ rest := by
  induction rest generalizing start pos first with
  | nil =>
    simp only [specSeg, Bool.false_eq_true, if_false, tokBounds, List.append_nil]
    congr 2
    omega
  | cons b r ih =>
    have hr : ∀ x ∈ r, x ≠ B.U := fun x hx => h x (by simp [hx])
    cases b with
    | N =>
      simp only [specSeg]
      rw [ih start (pos + 1) first hr (by omega)]
      have : pos + 1 - start = (pos - start) + 1 := by omega
      rw [this, List.replicate_succ']
      simp
    | W =>
      simp only [specSeg, Bool.false_eq_true, if_false, List.singleton_append, tokBounds]
      rw [ih (pos + 1) (pos + 1) false hr (Nat.le_refl _)]
      have : pos + 1 - start - 1 = pos - start := by omega
      simp [this]
    | U => exact absurd rfl (h B.U (by simp))

def tokG (s : Sentence) (se : Nat × Nat) : List (List Char) := (tagsAt s.tags s.nTags se.2).map (·.getD [])

def tokTT (s : Sentence) : List (Nat × Nat) → List (List (List Char))
  | [] => []
  | se :: r => List.replicate (se.2 - se.1 - 1) [] ++ [tokG s se] ++ tokTT s r

theorem getElem?_mid {α : Type} (L R : List α) (x : α) : (L ++ [x] ++ R)[L.length]? = some x := by
  simp

theorem tokTT_chain (s : Sentence) : ∀ (toks : List (Nat × Nat)) (a z : Nat) (tt0 : List (List (List Char))),
    IsChain a toks z → tt0.length = a →
    (tt0 ++ tokTT s toks).length = z ∧ ∀ se ∈ toks, (tt0 ++ tokTT s toks)[se.2 - 1]? = some (tokG s se) := by
  intro toks
  induction toks with
  | nil => intro a z tt0 hc; exact absurd hc (by simp [IsChain])
  | cons x xs ih =>
    intro a z tt0 hc hl
    obtain ⟨s1, e1⟩ := x
    have hlen : (tt0 ++ List.replicate (e1 - s1 - 1) ([] : List (List Char))).length = e1 - 1 ∧ a < e1 ∧ s1 = a := by
      cases xs with
      | nil => simp only [IsChain] at hc; simp [hl]; omega
      | cons y ys => simp only [IsChain] at hc; simp [hl]; omega
    obtain ⟨hlen, hae, rfl⟩ := hlen
    have hhead : (tt0 ++ tokTT s ((s1, e1) :: xs))[e1 - 1]? = some (tokG s (s1, e1)) := by
      simp only [tokTT]
      rw [← hlen, ← List.append_assoc, ← List.append_assoc]
      exact getElem?_mid _ _ _
    cases xs with
    | nil =>
      simp only [IsChain] at hc
      refine ⟨?_, ?_⟩
      · simp [tokTT, hl]; omega
      · intro se hse
        simp only [List.mem_singleton] at hse
        subst hse
        exact hhead
    | cons y ys =>
      simp only [IsChain] at hc
      obtain ⟨_, _, h3⟩ := hc
      have e : tt0 ++ tokTT s ((s1, e1) :: y :: ys) =
          (tt0 ++ List.replicate (e1 - s1 - 1) [] ++ [tokG s (s1, e1)]) ++ tokTT s (y :: ys) := by
        simp [tokTT]
      have hl' : (tt0 ++ List.replicate (e1 - s1 - 1) ([] : List (List Char)) ++ [tokG s (s1, e1)]).length = e1 := by
        rw [List.length_append, hlen]; simp; omega
      obtain ⟨i1, i2⟩ := ih e1 z _ h3 hl'
      refine ⟨by rw [e]; exact i1, ?_⟩
      intro se hse
      rcases List.mem_cons.mp hse with rfl | hse'
      · exact hhead
      · rw [e]; exact i2 se hse'

end V.C03L
