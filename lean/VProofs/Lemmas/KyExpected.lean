import VModel.Kytea
import VProofs.Lemmas.KyOrder
/-!
# C17 — what `expectedModel` contains
-/
namespace V.C17L
open V V.Ky

theorem mapOpt_eq_map {α β : Type} {f : α → Option β} {h : α → β} (hf : ∀ x y, f x = some y → y = h x) :
    ∀ {l : List α} {ys : List β}, mapOpt f l = some ys → ys = l.map h := by
  intro l
  induction l with
  | nil => intro ys h; simp only [mapOpt] at h; cases h; rfl
  | cons x xs ih =>
    intro ys h
    simp only [mapOpt, Option.bind_eq_some_iff] at h
    obtain ⟨y, hy, ys', hys, h⟩ := h
    cases h
    rw [hf x y hy, ih hys]; rfl

theorem filterMapOpt_eq_filterMap {α β : Type} {f : α → Option (Option β)} {h : α → Option β}
    (hf : ∀ x y, f x = some y → y = h x) :
    ∀ {l : List α} {ys : List β}, filterMapOpt f l = some ys → ys = l.filterMap h := by
  intro l
  induction l with
  | nil => intro ys h; simp only [filterMapOpt] at h; cases h; rfl
  | cons x xs ih =>
    intro ys h
    simp only [filterMapOpt, Option.bind_eq_some_iff] at h
    obtain ⟨y, hy, ys', hys, h⟩ := h
    cases h
    have := hf x y hy
    subst this
    rw [ih hys]
    cases hx : h x <;> simp [hx]

theorem expectedModel_parts {k : AbsKytea} {m : WModel} (h : expectedModel k = some m) :
    mapOpt (expCharNgram k) (sortByKey k.charNgrams) = some m.charNgrams ∧
    filterMapOpt (expTypeNgram k) (sortByKey k.typeNgrams) = some m.typeNgrams ∧
    mapOpt (expWord k) (sortByKey k.words) = some m.dict ∧
    m.charW = k.charW ∧ m.typeW = k.typeW ∧ m.bias = k.bias ∧ m.tagModels = [] := by
  simp only [expectedModel, Option.bind_eq_some_iff] at h
  obtain ⟨cn, hcn, tn, htn, dw, hdw, hm⟩ := h
  cases hm
  exact ⟨hcn, htn, hdw, rfl, rfl, rfl, rfl⟩

theorem expected_header (k : AbsKytea) (m : WModel) (h : expectedModel k = some m) :
    m.charW = k.charW ∧ m.typeW = k.typeW ∧ m.bias = k.bias ∧ m.tagModels = [] :=
  (expectedModel_parts h).2.2.2

theorem expWeights_some {w len : Nat} {v ws : List Int} (h : expWeights w len v = some ws) :
    ws = v.take (2 * w + 1 - len) := by
  simp only [expWeights] at h
  split at h
  · cases h
  · split at h
    · cases h
    · cases h; rfl

theorem expected_char (k : AbsKytea) (m : WModel) (h : expectedModel k = some m) (y : NgramData Char) :
    y ∈ m.charNgrams ↔ ∃ e ∈ k.charNgrams, y = ⟨e.1, e.2.take (2 * k.charW + 1 - e.1.length)⟩ := by
  have h1 := (expectedModel_parts h).1
  have h2 := mapOpt_eq_map (h := fun e : List Char × List Int => (⟨e.1, e.2.take (2 * k.charW + 1 - e.1.length)⟩ : NgramData Char))
    (by
      intro x y hy
      simp only [expCharNgram, Option.map_eq_some_iff] at hy
      obtain ⟨ws, hws, rfl⟩ := hy
      rw [expWeights_some hws]) h1
  rw [h2]
  simp only [List.mem_map, mem_sortByKey]
  constructor
  · rintro ⟨e, he, rfl⟩; exact ⟨e, he, rfl⟩
  · rintro ⟨e, he, rfl⟩; exact ⟨e, he, rfl⟩

theorem expected_type (k : AbsKytea) (m : WModel) (h : expectedModel k = some m) (y : NgramData Nat) :
    y ∈ m.typeNgrams ↔ ∃ e ∈ k.typeNgrams, Char.ofNat 4 ∉ e.1 ∧
      y = ⟨e.1.map letterCode, e.2.take (2 * k.typeW + 1 - e.1.length)⟩ := by
  have h1 := (expectedModel_parts h).2.1
  have h2 := filterMapOpt_eq_filterMap
    (h := fun e : List Char × List Int => if Char.ofNat 4 ∈ e.1 then none else
      some (⟨e.1.map letterCode, e.2.take (2 * k.typeW + 1 - e.1.length)⟩ : NgramData Nat))
    (by
      intro x y hy
      simp only [expTypeNgram] at hy
      by_cases h4 : Char.ofNat 4 ∈ x.1
      · rw [if_pos h4] at hy; cases hy; simp [h4]
      · rw [if_neg h4, Option.map_eq_some_iff] at hy
        obtain ⟨ws, hws, rfl⟩ := hy
        rw [expWeights_some hws]; simp [h4]) h1
  rw [h2]
  simp only [List.mem_filterMap, mem_sortByKey]
  constructor
  · rintro ⟨e, he, hy⟩
    by_cases h4 : Char.ofNat 4 ∈ e.1
    · simp [h4] at hy
    · simp only [h4, if_false, Option.some.injEq] at hy
      exact ⟨e, he, h4, hy.symm⟩
  · rintro ⟨e, he, h4, rfl⟩
    exact ⟨e, he, by simp [h4]⟩

theorem expDictSum_totals (dictN idx : Nat) (dv : List Int) (mask : Nat) : ∀ (js : List Nat) (acc r : Int × Int × Int),
    expDictSum dictN idx dv mask js acc = some r →
    r = (acc.1 + ((js.filter fun j => (mask >>> j) % 2 = 1).map fun j => dv.getD (3 * dictN * j + 3 * idx) 0).sum,
         acc.2.1 + ((js.filter fun j => (mask >>> j) % 2 = 1).map fun j => dv.getD (3 * dictN * j + 3 * idx + 1) 0).sum,
         acc.2.2 + ((js.filter fun j => (mask >>> j) % 2 = 1).map fun j => dv.getD (3 * dictN * j + 3 * idx + 2) 0).sum) := by
  intro js
  induction js with
  | nil => intro acc r h; simp only [expDictSum] at h; cases h; simp
  | cons j js ih =>
    intro acc r h
    simp only [expDictSum] at h
    by_cases hbit : (mask >>> j) % 2 = 1
    · rw [if_pos hbit] at h
      cases h1 : dv[3 * dictN * j + 3 * idx]? with
      | none => simp [h1] at h
      | some l =>
        cases h2 : dv[3 * dictN * j + 3 * idx + 1]? with
        | none => simp [h1, h2] at h
        | some i =>
          cases h3 : dv[3 * dictN * j + 3 * idx + 2]? with
          | none => simp [h1, h2, h3] at h
          | some rr =>
            simp only [h1, h2, h3] at h
            rw [ih _ _ h]
            have hf : (List.filter (fun j => decide ((mask >>> j) % 2 = 1)) (j :: js))
                = j :: List.filter (fun j => decide ((mask >>> j) % 2 = 1)) js :=
              List.filter_cons_of_pos (decide_eq_true hbit)
            simp only [hf, List.map_cons, List.sum_cons, List.getD_eq_getElem?_getD, h1, h2, h3, Option.getD_some]
            ext <;> simp only [] <;> omega
    · rw [if_neg hbit] at h
      rw [ih _ _ h]
      have hf : (List.filter (fun j => decide ((mask >>> j) % 2 = 1)) (j :: js))
          = List.filter (fun j => decide ((mask >>> j) % 2 = 1)) js :=
        List.filter_cons_of_neg (by rw [decide_eq_true_eq]; exact hbit)
      rw [hf]

theorem expected_dict (k : AbsKytea) (m : WModel) (h : expectedModel k = some m) (y : DictWord) :
    y ∈ m.dict ↔ ∃ e ∈ k.words,
      y = ⟨e.1, wordWeights e.1.length (dictTotals k e.2 (min e.1.length k.dictN - 1)), []⟩ := by
  have h1 := (expectedModel_parts h).2.2.1
  have h2 := mapOpt_eq_map
    (h := fun e : List Char × Nat =>
      (⟨e.1, wordWeights e.1.length (dictTotals k e.2 (min e.1.length k.dictN - 1)), []⟩ : DictWord))
    (by
      intro x y hy
      simp only [expWord] at hy
      split at hy
      · cases hy
      · rw [Option.map_eq_some_iff] at hy
        obtain ⟨r, hr, rfl⟩ := hy
        have := expDictSum_totals _ _ _ _ _ _ _ hr
        rw [this]
        simp [dictTotals]) h1
  rw [h2]
  simp only [List.mem_map, mem_sortByKey]
  constructor
  · rintro ⟨e, he, rfl⟩; exact ⟨e, he, rfl⟩
  · rintro ⟨e, he, rfl⟩; exact ⟨e, he, rfl⟩

end V.C17L
